"""
pyfn2lean — translator from the *integer skeleton* of Python source functions to Lean 4 definitions (DESIGN §11.7/§12).

It is the "model regenerated from the source on every run" half of the tie.  For each item of a spec it parses the CURRENT
text of /repo/src/<module> with `ast` (nothing is imported or executed), locates the function (nested functions and methods
by dotted path), and emits a Lean `def` over `Int` that computes

  * kind 'fn'     : the value returned / the list of tuples yielded by the function,
  * kind 'events' : the list of observable events (file seeks, writes ...) the function performs, in order,
  * kind 'expr'   : the value of one assignment `target = <expr>` inside the function,
  * kind 'block'  : the values of some variables after a range of statements.

What is kept of a function is its integer skeleton: assignments whose right-hand side is an integer expression of tracked
variables and parameters, the control flow that depends on them, and the calls named as events.  Every other statement
(array arithmetic, I/O, logging) is dropped, which is sound as long as a dropped statement cannot change a tracked variable:
a tracked expression that mentions a local name assigned by a dropped statement makes the translation FAIL (reported as
"tie not available", never as a violation).

Python -> Lean (all values `Int`; helpers in lean/IblVerif/Tie/PyPrelude.lean):
    a // b -> Int.fdiv a b      a % b -> Int.fmod a b      a ** k -> a ^ k (literal k >= 0)
    int(q), int(np.floor(q)), int(np.ceil(q)), np.ceil(q), round(q)  for a quotient expression q = n / d
          -> Int.tdiv n d | Int.fdiv n d | pyCeilDiv n d | pyRound n d   (q is normalised to ONE fraction n / d symbolically;
             float() wrappers are dropped: real-number semantics — see "assumption" below)
    min/max/np.minimum/np.maximum, abs, x if c else y, comparisons, and/or/not
    self.a.b -> parameter self_a_b ;  x.shape[k], len(x) -> parameters ;  names never assigned -> parameters
    v = [e0, e1] ... v[0] = e ... slice(*v)  -> the list is a tuple of scalars
    while True / while c / for i in range(..) -> a recursive function with a fuel argument
Assumption recorded in the evidence: float expressions are read as exact rationals (true below 2^53 when the quotient is not
within one ulp of an integer); the correspondence run executes the real floats.
"""
import ast
import json
import re
from pathlib import Path


class Untranslatable(Exception):
    pass


def _name_of(node):
    """dotted/attribute chain -> flat identifier, or None"""
    if isinstance(node, ast.Name):
        return node.id
    if isinstance(node, ast.Attribute):
        b = _name_of(node.value)
        return None if b is None else b + '_' + node.attr
    if isinstance(node, ast.Call) and not node.args and not node.keywords and isinstance(node.func, ast.Attribute):
        return _name_of(node.func)          # x.stat().st_size -> x_stat_st_size (an opaque integer read from the environment)
    if isinstance(node, ast.Call) and isinstance(node.func, ast.Attribute) and node.func.attr == 'get' and len(node.args) == 1 \
            and isinstance(node.args[0], ast.Constant) and isinstance(node.args[0].value, str) and not node.keywords:
        b = _name_of(node.func.value)
        return None if b is None else b + '_' + node.args[0].value
    return None


NP = {'np', 'gp', 'numpy', 'math'}


def _callname(node):
    f = node.func
    if isinstance(f, ast.Name):
        return f.id
    if isinstance(f, ast.Attribute) and isinstance(f.value, ast.Name) and f.value.id in NP:
        return f.attr
    return None


class Env:
    """python variable -> lean expression text currently holding it (or list of such for tuple-like lists)"""

    def __init__(self, params):
        self.params = params            # ordered list of parameter names (grows as free names are met)
        self.vars = {}                  # assigned locals: name -> lean name | [lean names]
        self.dropped = set()            # locals assigned by dropped statements

    def copy(self):
        e = Env(self.params)
        e.vars = dict(self.vars)
        e.dropped = set(self.dropped)
        return e


def lean_id(s):
    s = re.sub(r'\W', '_', s)
    if s in ('end', 'from', 'at', 'fun', 'let', 'in', 'then', 'else', 'if', 'do', 'open', 'show', 'have', 'by', 'def'):
        s += '_'
    return s


class FnTranslator:
    def __init__(self, fn_node, events=None, tracked_hint=None, param_order=None, free=None):
        self.fn = fn_node
        self.events = events or []       # list of (regex on ast.unparse(call), tag, [python expr strings])
        self.aux = []                    # auxiliary loop definitions (lean text), emitted before the main def
        self.loop_cache = {}
        self.loopn = 0
        self.assigned = self._assigned_names(fn_node) - set(free or ())
        self.free = set(free or ())
        a = fn_node.args
        self.argnames = {x.arg for x in a.posonlyargs + a.args + a.kwonlyargs}
        self.param_order = param_order
        self.notes = []

    # ---------------------------------------------------------------- helpers
    @staticmethod
    def _assigned_names(fn):
        out = set()
        for n in ast.walk(fn):
            if isinstance(n, (ast.Assign, ast.AugAssign, ast.AnnAssign)):
                tg = n.targets if isinstance(n, ast.Assign) else [n.target]
                for t in tg:
                    for m in ast.walk(t):
                        nm = _name_of(m) if isinstance(m, (ast.Name, ast.Attribute)) else None
                        if nm and isinstance(m, (ast.Name, ast.Attribute)) and not isinstance(getattr(m, 'ctx', None), ast.Load):
                            out.add(nm)
            elif isinstance(n, (ast.For, ast.comprehension)):
                for m in ast.walk(n.target):
                    if isinstance(m, ast.Name):
                        out.add(m.id)
            elif isinstance(n, ast.With):
                for it in n.items:
                    if it.optional_vars is not None:
                        for m in ast.walk(it.optional_vars):
                            if isinstance(m, ast.Name):
                                out.add(m.id)
        return out

    def param(self, env, name):
        name = lean_id(name)
        if name not in env.params:
            env.params.append(name)
        return name

    # ---------------------------------------------------------------- expressions
    def rat(self, node, env):
        """symbolic fraction (num, den) of an arithmetic expression; den None means integer-valued"""
        if isinstance(node, ast.BinOp) and isinstance(node.op, ast.Div):
            n1, d1 = self.rat(node.left, env)
            n2, d2 = self.rat(node.right, env)
            num = n1 if d2 is None else f'({n1} * {d2})'
            den = n2 if d1 is None else f'({d1} * {n2})'
            return num, den
        if isinstance(node, ast.BinOp) and isinstance(node.op, (ast.Add, ast.Sub, ast.Mult)):
            n1, d1 = self.rat(node.left, env)
            n2, d2 = self.rat(node.right, env)
            op = {ast.Add: '+', ast.Sub: '-', ast.Mult: '*'}[type(node.op)]
            if d1 is None and d2 is None:
                return f'({n1} {op} {n2})', None
            if isinstance(node.op, ast.Mult):
                den = d1 if d2 is None else d2 if d1 is None else f'({d1} * {d2})'
                return f'({n1} * {n2})', den
            if d1 is None:
                return f'({n1} * {d2} {op} {n2})', d2
            if d2 is None:
                return f'({n1} {op} {n2} * {d1})', d1
            return f'({n1} * {d2} {op} {n2} * {d1})', f'({d1} * {d2})'
        if isinstance(node, ast.UnaryOp) and isinstance(node.op, ast.USub):
            n, d = self.rat(node.operand, env)
            return f'(-{n})', d
        if isinstance(node, ast.Call) and _callname(node) in ('float', 'float64', 'float32', 'double') and len(node.args) == 1:
            return self.rat(node.args[0], env)
        if isinstance(node, ast.Constant) and isinstance(node.value, float):
            from fractions import Fraction
            fr = Fraction(repr(node.value))
            return (f'({fr.numerator})', None) if fr.denominator == 1 else (f'({fr.numerator})', f'({fr.denominator})')
        nm = _name_of(node) if isinstance(node, (ast.Name, ast.Attribute, ast.Call)) else None
        if nm is not None and nm in self.fraction_params and nm not in env.vars:
            a, b = self.fraction_params[nm]
            return self.param(env, a), self.param(env, b)
        return self.expr(node, env), None

    def expr(self, node, env):
        """integer-valued expression -> lean text"""
        if isinstance(node, ast.Constant):
            if isinstance(node.value, bool):
                raise Untranslatable('bool constant used as a number')
            if isinstance(node.value, int):
                return f'({node.value})' if node.value < 0 else str(node.value)
            if isinstance(node.value, float) and float(node.value).is_integer():
                return str(int(node.value))
            raise Untranslatable(f'constant {node.value!r}')
        if self.opaque and not isinstance(node, ast.Constant):
            # sub-expressions declared opaque in the spec (regex on the unparsed text -> parameter name): integers the function
            # reads from its environment (len of a container it is handed, a file size ...)
            try:
                txt_ = ast.unparse(node)
            except Exception:
                txt_ = None
            if txt_ is not None:
                for rx, pname in self.opaque.items():
                    if re.fullmatch(rx, txt_):
                        return self.param(env, pname)
        nm = _name_of(node) if isinstance(node, (ast.Name, ast.Attribute, ast.Call)) else None
        if nm is not None and isinstance(node, ast.Call) and (_callname(node) is not None and node.args):
            nm = None
        if nm is not None:
            if nm in self.fraction_params:
                raise Untranslatable(f'{nm} is a fraction used as an integer')
            if nm in env.vars:
                v = env.vars[nm]
                if isinstance(v, list):
                    raise Untranslatable(f'list variable {nm} used as a scalar')
                return v
            if nm not in self.free and (nm in env.dropped or (nm in self.assigned)):
                raise Untranslatable(f'{nm} is assigned by a statement outside the integer skeleton')
            return self.param(env, nm)
        if isinstance(node, ast.Call) and isinstance(node.func, ast.Attribute) and node.func.attr in ('astype', 'item', 'copy') \
                and not (isinstance(node.func.value, ast.Name) and node.func.value.id in NP):
            if node.func.attr == 'astype' and not (node.args and ast.unparse(node.args[0]) in ('int', 'np.int64', 'np.int32', 'np.intp', "'int'", "'int64'")):
                raise Untranslatable('astype to a non-integer type: ' + ast.unparse(node))
            return self.expr(node.func.value, env)
        if isinstance(node, ast.Attribute) and node.attr == 'values':
            return self.expr(node.value, env)
        if isinstance(node, ast.Subscript) and isinstance(node.slice, ast.Constant) and isinstance(node.slice.value, str):
            base = _name_of(node.value)
            if base is None or (base not in self.free and (base in env.dropped or base in self.assigned)):
                raise Untranslatable('subscript ' + ast.unparse(node))
            return self.param(env, f'{base}_{node.slice.value}')
        if isinstance(node, ast.Subscript):
            base = _name_of(node.value)
            idx = node.slice
            if base is not None and isinstance(idx, ast.Constant) and isinstance(idx.value, int) or \
               (base is not None and isinstance(idx, ast.UnaryOp) and isinstance(idx.op, ast.USub) and isinstance(idx.operand, ast.Constant)):
                k = idx.value if isinstance(idx, ast.Constant) else -idx.operand.value
                if base in env.vars and isinstance(env.vars[base], list):
                    return env.vars[base][k]
                if base.endswith('_shape') or True:
                    if base in env.dropped or base in self.assigned:
                        raise Untranslatable(f'{base}[{k}]: {base} is assigned outside the integer skeleton')
                    return self.param(env, f'{base}_{"m" if k < 0 else ""}{abs(k)}')
            if base is not None and isinstance(idx, ast.Name) and base in self.free and idx.id in self.free:
                # a[k] with both the container and the index declared free (values the function receives): one opaque integer
                return self.param(env, f'{base}_{idx.id}')
            raise Untranslatable('subscript ' + ast.unparse(node))
        if isinstance(node, ast.BinOp):
            if isinstance(node.op, ast.Div):
                raise Untranslatable('true division outside int()/floor()/ceil()/round(): ' + ast.unparse(node))
            a, b = node.left, node.right
            if isinstance(node.op, ast.Pow):
                if isinstance(b, ast.Constant) and isinstance(b.value, int) and b.value >= 0:
                    return f'({self.expr(a, env)} ^ {b.value})'
                raise Untranslatable('power ' + ast.unparse(node))
            n1, d1 = self.rat(a, env)
            n2, d2 = self.rat(b, env)
            if d1 is not None or d2 is not None:
                raise Untranslatable('fraction used as an integer: ' + ast.unparse(node))
            if isinstance(node.op, ast.Add):
                return f'({n1} + {n2})'
            if isinstance(node.op, ast.Sub):
                return f'({n1} - {n2})'
            if isinstance(node.op, ast.Mult):
                return f'({n1} * {n2})'
            if isinstance(node.op, ast.FloorDiv):
                return f'(Int.fdiv {n1} {n2})'
            if isinstance(node.op, ast.Mod):
                return f'(Int.fmod {n1} {n2})'
            raise Untranslatable('operator ' + ast.unparse(node))
        if isinstance(node, ast.UnaryOp):
            if isinstance(node.op, ast.USub):
                return f'(-{self.expr(node.operand, env)})'
            if isinstance(node.op, ast.UAdd):
                return self.expr(node.operand, env)
            raise Untranslatable('unary ' + ast.unparse(node))
        if isinstance(node, ast.IfExp):
            return f'(if {self.test(node.test, env)} then {self.expr(node.body, env)} else {self.expr(node.orelse, env)})'
        if isinstance(node, ast.Call):
            cn = _callname(node)
            args = node.args
            if cn == 'arange' and self.elementwise and len(args) == 1:
                return self.param(env, 'i')         # element i of np.arange(n): the expression is read pointwise
            if cn == 'mod' and len(args) == 2:
                return f'(Int.fmod {self.expr(args[0], env)} {self.expr(args[1], env)})'
            if cn in ('int', 'int64', 'int32', 'intp') and len(args) == 1:
                inner = args[0]
                if isinstance(inner, ast.Call) and _callname(inner) in ('floor', 'ceil', 'round', 'rint', 'around') and len(inner.args) == 1:
                    return self.expr(inner, env)
                n, d = self.rat(inner, env)
                return n if d is None else f'(Int.tdiv {n} {d})'
            if cn in ('floor', 'ceil', 'round', 'rint', 'around') and len(args) == 1:
                n, d = self.rat(args[0], env)
                if d is None:
                    return n
                return {'floor': f'(Int.fdiv {n} {d})', 'ceil': f'(pyCeilDiv {n} {d})'}.get(cn, f'(pyRound {n} {d})')
            if cn in ('min', 'minimum') and len(args) == 2:
                return f'(min {self.expr(args[0], env)} {self.expr(args[1], env)})'
            if cn in ('max', 'maximum') and len(args) == 2:
                return f'(max {self.expr(args[0], env)} {self.expr(args[1], env)})'
            if cn in ('abs', 'absolute') and len(args) == 1:
                return f'(Int.natAbs {self.expr(args[0], env)} : Int)'
            if cn == 'len' and len(args) == 1 and _name_of(args[0]):
                b = _name_of(args[0])
                if b in env.dropped or b in self.assigned:
                    raise Untranslatable(f'len({b}): assigned outside the integer skeleton')
                return self.param(env, 'len_' + b)
            raise Untranslatable('call ' + ast.unparse(node))
        raise Untranslatable('expression ' + ast.unparse(node))

    def test(self, node, env):
        """boolean test -> lean Prop text (decidable)"""
        src = ast.unparse(node)
        for rx, val in self.assume.items():
            if re.fullmatch(rx, src):
                return 'True' if val else 'False'
        if isinstance(node, ast.Compare) and len(node.ops) == 1 and isinstance(node.ops[0], (ast.In, ast.NotIn)) \
                and isinstance(node.left, ast.Constant) and isinstance(node.left.value, str):
            # "k" in md / "k" in md.keys()  ->  presence flag md_has_k (an Int parameter, non-zero = present)
            c = node.comparators[0]
            if isinstance(c, ast.Call) and isinstance(c.func, ast.Attribute) and c.func.attr == 'keys' and not c.args:
                c = c.func.value
            base = _name_of(c)
            if base is None or base in env.vars or base in env.dropped or base in self.assigned:
                raise Untranslatable('membership test ' + ast.unparse(node))
            flag = self.param(env, f'{base}_has_{node.left.value}')
            return f'({flag} ≠ 0)' if isinstance(node.ops[0], ast.In) else f'({flag} = 0)'
        if isinstance(node, ast.Compare):
            parts, left = [], node.left
            for op, right in zip(node.ops, node.comparators):
                sym = {ast.Eq: '=', ast.NotEq: '≠', ast.Lt: '<', ast.LtE: '≤', ast.Gt: '>', ast.GtE: '≥'}.get(type(op))
                if sym is None:
                    raise Untranslatable('comparison ' + ast.unparse(node))
                (n1, d1), (n2, d2) = self.rat(left, env), self.rat(right, env)
                if d1 is not None or d2 is not None:
                    raise Untranslatable('comparison of fractions ' + ast.unparse(node))
                opt = [x for x in (n1, n2) if x in self.optional]
                if opt:
                    # a value read with dict.get (None when the key is absent): `== c` needs the key, `!= c` holds without it
                    if len(opt) == 2 or sym not in ('=', '≠'):
                        raise Untranslatable('ordering comparison on an optional value: ' + ast.unparse(node))
                    flag = self.param(env, self.optional[opt[0]])
                    parts.append(f'({flag} ≠ 0 ∧ {n1} = {n2})' if sym == '=' else f'({flag} = 0 ∨ {n1} ≠ {n2})')
                else:
                    parts.append(f'{n1} {sym} {n2}')
                left = right
            return '(' + ' ∧ '.join(parts) + ')'
        if isinstance(node, ast.BoolOp):
            j = ' ∧ ' if isinstance(node.op, ast.And) else ' ∨ '
            return '(' + j.join(self.test(v, env) for v in node.values) + ')'
        if isinstance(node, ast.UnaryOp) and isinstance(node.op, (ast.Not, ast.Invert)):
            return f'(¬ {self.test(node.operand, env)})'      # `~mask` on a Boolean array (element-wise reading)
        if isinstance(node, ast.BinOp) and isinstance(node.op, (ast.BitAnd, ast.BitOr)):
            # `a & b` / `a | b` between comparisons: the element-wise and / or of NumPy Boolean masks
            j = ' ∧ ' if isinstance(node.op, ast.BitAnd) else ' ∨ '
            return '(' + self.test(node.left, env) + j + self.test(node.right, env) + ')'
        if isinstance(node, ast.Constant) and isinstance(node.value, bool):
            return 'True' if node.value else 'False'
        raise Untranslatable('test ' + ast.unparse(node))

    # ---------------------------------------------------------------- statements
    def mentions_tracked(self, node, env):
        for m in ast.walk(node):
            if isinstance(m, (ast.Name, ast.Attribute)):
                nm = _name_of(m)
                if nm in env.vars:
                    return True
        return False

    def event_of(self, stmt, env):
        """a statement that is an event call -> lean event text, else None"""
        call = None
        if isinstance(stmt, ast.Expr) and isinstance(stmt.value, ast.Call):
            call = stmt.value
        elif isinstance(stmt, ast.Assign) and isinstance(stmt.value, ast.Call):
            call = stmt.value
        # an event spec is [regex, tag, [argument expressions]] matched on the unparsed CALL of the statement, or
        # [regex, tag, [args], 'stmt'] matched on the whole unparsed STATEMENT (slice assignments `a[i:j] = w`, `yield (...)`)
        whole = None
        if any(len(sp) > 3 and sp[3] == 'stmt' for sp in self.events) and isinstance(stmt, (ast.Assign, ast.AugAssign, ast.Expr)):
            try:
                whole = ast.unparse(ast.fix_missing_locations(stmt))
            except Exception:     # synthetic nodes built by forloop()
                whole = None
        src = ast.unparse(call) if call is not None else None
        for spec in self.events:
            rx, tag, argsrc = spec[0], spec[1], spec[2]
            on_stmt = len(spec) > 3 and spec[3] == 'stmt'
            text = whole if on_stmt else src
            if text is None:
                continue
            m = re.search(rx, text)
            if m:
                args = []
                for a in argsrc:
                    a = m.expand(a) if '\\' in a else a
                    args.append(self.expr(ast.parse(a, mode='eval').body, env))
                return f'("{tag}", [{", ".join(args)}])'
        return None

    def is_simple(self, stmts, env):
        """only assignments / nested simple ifs of translatable tracked things or droppable statements, no control transfer/events"""
        for s in stmts:
            if isinstance(s, (ast.Return, ast.Break, ast.Continue, ast.While, ast.For, ast.Raise)):
                return False
            if isinstance(s, ast.Expr) and isinstance(s.value, (ast.Yield, ast.YieldFrom)):
                return False
            if self.events and self.event_of_safe(s, env):
                return False
            if isinstance(s, ast.If) and not (self.is_simple(s.body, env) and self.is_simple(s.orelse, env)):
                return False
            if isinstance(s, (ast.With, ast.Try)):
                return False
        return True

    def event_of_safe(self, s, env):
        try:
            return self.event_of(s, env.copy())
        except Untranslatable:
            return 'x'

    def targets_of(self, stmts):
        out = []
        for s in stmts:
            for n in ast.walk(s):
                if isinstance(n, (ast.Assign, ast.AugAssign)):
                    for t in (n.targets if isinstance(n, ast.Assign) else [n.target]):
                        for m in ([t] if not isinstance(t, ast.Tuple) else t.elts):
                            if isinstance(m, ast.Subscript):
                                nm = _name_of(m.value)
                            else:
                                nm = _name_of(m)
                            if nm and nm not in out:
                                out.append(nm)
        return out

    def assign(self, stmt, env, lets):
        """try to translate an assignment into lets; returns True when handled as tracked, False when dropped"""
        tg_ = [stmt.target] if isinstance(stmt, ast.AugAssign) else stmt.targets
        if any((_name_of(t) in self.free) or (isinstance(t, ast.Subscript) and _name_of(t.value) in self.free) for t in tg_):
            return False        # a name declared free in the spec: it stays a parameter, whatever is assigned to it
        if isinstance(stmt, ast.AugAssign):
            nm = _name_of(stmt.target)
            if nm is None:
                return False
            if nm not in env.vars and nm in self.assigned and nm not in env.params:
                env.dropped.add(nm)
                return False
            rhs = ast.BinOp(left=stmt.target, op=stmt.op, right=stmt.value)
            ast.copy_location(rhs, stmt)
            try:
                val = self.expr(rhs, env)
            except Untranslatable:
                if nm in env.vars:
                    raise
                env.dropped.add(nm)
                return False
            ln = lean_id(nm)
            lets.append(f'let {ln} := {val}')
            env.vars[nm] = ln
            return True
        if len(stmt.targets) != 1:
            for t in stmt.targets:
                for nm in self.targets_of([ast.Assign(targets=[t], value=stmt.value)]):
                    if nm in env.vars:
                        raise Untranslatable('chained assignment to tracked ' + nm)
                    env.dropped.add(nm)
            return False
        tgt = stmt.targets[0]
        # v[k] = e   on a tuple-like list
        if isinstance(tgt, ast.Subscript):
            base = _name_of(tgt.value)
            if base in env.vars and isinstance(env.vars[base], list):
                idx = tgt.slice
                if isinstance(idx, ast.Constant) and isinstance(idx.value, int):
                    k = idx.value
                elif isinstance(idx, ast.UnaryOp) and isinstance(idx.op, ast.USub) and isinstance(idx.operand, ast.Constant):
                    k = -idx.operand.value
                else:
                    raise Untranslatable('non-constant index into tracked list ' + base)
                val = self.expr(stmt.value, env)
                k = k % len(env.vars[base])
                ln = lean_id(f'{base}_{k}')
                lets.append(f'let {ln} := {val}')
                newl = list(env.vars[base])
                newl[k] = ln
                env.vars[base] = newl
                return True
            if base in env.vars:
                raise Untranslatable('subscript assignment to tracked scalar ' + str(base))
            return False
        if isinstance(tgt, ast.Name) and isinstance(stmt.value, ast.BoolOp) and isinstance(stmt.value.op, ast.Or) \
                and isinstance(stmt.value.values[0], ast.Name) and stmt.value.values[0].id == tgt.id \
                and tgt.id in self.argnames and tgt.id not in env.vars and tgt.id not in env.dropped:
            # `arg = arg or <default>`: read as "the argument was given" (recorded assumption)
            env.vars[tgt.id] = self.param(env, tgt.id)
            self.notes.append(f'{tgt.id} = {tgt.id} or ...: the argument is taken as given')
            return True
        if isinstance(tgt, ast.Tuple) and isinstance(stmt.value, ast.Name) and stmt.value.id in self.argnames \
                and stmt.value.id not in self.assigned and all(isinstance(e, ast.Name) for e in tgt.elts):
            for k_, e in enumerate(tgt.elts):
                env.vars[e.id] = self.param(env, f'{stmt.value.id}_{k_}')
            return True
        if isinstance(tgt, ast.Tuple):
            names = [_name_of(e) for e in tgt.elts]
            if isinstance(stmt.value, ast.Tuple) and len(stmt.value.elts) == len(names) and all(names):
                try:
                    vals = [self.expr(v, env) for v in stmt.value.elts]
                except Untranslatable:
                    vals = None
                if vals is not None:
                    tmp = [lean_id(n) + '_new' for n in names]
                    for t_, v in zip(tmp, vals):
                        lets.append(f'let {t_} := {v}')
                    for n, t_ in zip(names, tmp):
                        lets.append(f'let {lean_id(n)} := {t_}')
                        env.vars[n] = lean_id(n)
                    return True
            for n in names:
                if n in env.vars:
                    raise Untranslatable(f'tuple assignment to tracked {n} from an untranslatable value')
                if n:
                    env.dropped.add(n)
            return False
        nm = _name_of(tgt)
        if nm is None:
            return False
        # list literal of integer expressions -> tuple of scalars
        if isinstance(stmt.value, (ast.List, ast.Tuple)) and 1 <= len(stmt.value.elts) <= 4:
            try:
                vals = [self.expr(v, env) for v in stmt.value.elts]
            except Untranslatable:
                vals = None
            if vals is not None:
                names = []
                for k, v in enumerate(vals):
                    ln = lean_id(f'{nm}_{k}')
                    lets.append(f'let {ln} := {v}')
                    names.append(ln)
                env.vars[nm] = names
                env.dropped.discard(nm)
                return True
        try:
            val = self.expr(stmt.value, env)
        except Untranslatable:
            if nm in env.vars:
                raise
            env.dropped.add(nm)
            return False
        if val in self.optional:
            env.vars[nm] = val          # alias of an optional parameter: comparisons must see the presence flag
            env.dropped.discard(nm)
            return True
        ln = lean_id(nm)
        lets.append(f'let {ln} := {val}')
        env.vars[nm] = ln
        env.dropped.discard(nm)
        return True

    def simple_block(self, stmts, env, lets):
        """translate a simple block in place (appends lets, updates env)"""
        for s in stmts:
            if isinstance(s, (ast.Assign, ast.AugAssign)):
                self.assign(s, env, lets)
            elif isinstance(s, ast.If):
                self.simple_if(s, env, lets)
            elif isinstance(s, ast.AnnAssign) and s.value is not None:
                self.assign(ast.Assign(targets=[s.target], value=s.value), env, lets)
            # everything else (Expr, Assert, Pass, Import ...) is outside the skeleton

    def simple_if(self, s, env, lets):
        tg = [t for t in self.targets_of(s.body + s.orelse)]
        tracked_before = [t for t in tg if t in env.vars]
        try:
            cond = self.test(s.test, env)
        except Untranslatable:
            cond = None
        if cond in ('True', 'False'):       # decided by a per-item assumption: only the taken branch exists
            self.simple_block(s.body if cond == 'True' else s.orelse, env, lets)
            return
        e1, e2 = env.copy(), env.copy()
        l1, l2 = [], []
        self.simple_block(s.body, e1, l1)
        self.simple_block(s.orelse, e2, l2)
        changed = [t for t in tg if e1.vars.get(t) is not None and (l1 or l2) and (t in e1.vars or t in e2.vars)
                   and (self._touched(t, l1) or self._touched(t, l2))]
        if not changed:
            for t in tg:
                if t not in env.vars:
                    env.dropped.add(t)
            return
        if cond is None:
            raise Untranslatable('branch on an untranslatable test assigns tracked variables: ' + ast.unparse(s.test))
        for t in changed:
            if t not in e1.vars or t not in e2.vars:
                raise Untranslatable(f'{t} is defined on one branch only')
        # flatten scalars
        def flat(e, t):
            v = e.vars[t]
            return v if isinstance(v, list) else [v]
        outs = []
        for t in changed:
            if isinstance(e1.vars[t], list) != isinstance(e2.vars[t], list):
                raise Untranslatable(f'{t} has different shapes on the two branches')
            n = len(flat(e1, t))
            names = [lean_id(f'{t}_{k}') for k in range(n)] if isinstance(e1.vars[t], list) else [lean_id(t)]
            outs.append((t, names))
        pat = ', '.join(x for _, ns in outs for x in ns)
        v1 = ', '.join(x for t, _ in outs for x in flat(e1, t))
        v2 = ', '.join(x for t, _ in outs for x in flat(e2, t))
        b1 = ''.join(l + '; ' for l in l1)
        b2 = ''.join(l + '; ' for l in l2)
        if len(pat.split(', ')) == 1:
            lets.append(f'let {pat} := if {cond} then ({b1}{v1}) else ({b2}{v2})')
        else:
            lets.append(f'let ({pat}) := if {cond} then ({b1}({v1})) else ({b2}({v2}))')
        for t, names in outs:
            env.vars[t] = names if isinstance(e1.vars[t], list) else names[0]
        env.dropped |= (e1.dropped | e2.dropped)

    @staticmethod
    def _touched(t, lets):
        rx = re.compile(r'let \(?[^:]*\b' + re.escape(lean_id(t)) + r'(_\d+)?\b[^:]*:=')
        return any(rx.match(l) for l in lets)

    # continuation-passing translation of a block whose value is a list of outputs (events / yields) or a returned value
    def block(self, stmts, env, k, mode):
        """returns lean text for executing stmts then continuing with k(env) ; mode in {'list','value'}"""
        if not stmts:
            return k(env)
        s, rest = stmts[0], stmts[1:]
        cont = lambda e: self.block(rest, e, k, mode)   # noqa
        if isinstance(s, ast.Return):
            if mode == 'list':
                return '[]'
            if s.value is None or (isinstance(s.value, ast.Constant) and s.value.value is None):
                if self.option_return:
                    return 'none'
                raise Untranslatable('bare return in a value function')
            return f'(some {self.value(s.value, env)})' if self.option_return else self.value(s.value, env)
        ev = self.event_of(s, env) if self.events else None
        if ev is not None:
            return f'{ev} :: {cont(env)}'
        if isinstance(s, ast.Expr) and isinstance(s.value, ast.Yield):
            return f'{self.value(s.value.value, env)} :: {cont(env)}'
        if isinstance(s, ast.Break):
            return self.after_loop[-1](env)
        if isinstance(s, ast.Continue):
            return self.loop_again[-1](env)
        if isinstance(s, (ast.Assign, ast.AugAssign)):
            lets = []
            self.assign(s, env, lets)
            return ''.join(l + ';\n' for l in lets) + cont(env)
        if isinstance(s, ast.If):
            if self.is_simple(s.body, env) and self.is_simple(s.orelse, env):
                lets = []
                self.simple_if(s, env, lets)
                return ''.join(l + ';\n' for l in lets) + cont(env)
            try:
                cond = self.test(s.test, env)
            except Untranslatable:
                raise Untranslatable('control flow / events under an untranslatable test: ' + ast.unparse(s.test))
            e1, e2 = env.copy(), env.copy()
            if cond == 'True':
                return self.block(list(s.body), e1, lambda e: self.block(rest, e, k, mode), mode)
            if cond == 'False':
                return self.block(list(s.orelse), e2, lambda e: self.block(rest, e, k, mode), mode)
            t1 = self.block(s.body, e1, lambda e: self.block(rest, e, k, mode), mode)
            t2 = self.block(s.orelse, e2, lambda e: self.block(rest, e, k, mode), mode)
            return f'(if {cond} then\n{t1}\nelse\n{t2})'
        if isinstance(s, ast.While):
            return self.loop(s, rest, env, k, mode)
        if isinstance(s, ast.For):
            return self.forloop(s, rest, env, k, mode)
        if isinstance(s, ast.With):
            for it in s.items:
                if it.optional_vars is not None:
                    for m in ast.walk(it.optional_vars):
                        if isinstance(m, ast.Name):
                            env.dropped.add(m.id)
            return self.block(list(s.body) + list(rest), env, k, mode)
        if isinstance(s, ast.Assert) or isinstance(s, (ast.Expr, ast.Pass, ast.Import, ast.ImportFrom, ast.FunctionDef, ast.Global, ast.Nonlocal, ast.Delete)):
            return cont(env)
        if isinstance(s, ast.AnnAssign) and s.value is not None:
            return self.block([ast.Assign(targets=[s.target], value=s.value)] + list(rest), env, k, mode)
        if isinstance(s, ast.Raise):
            raise Untranslatable('raise inside the skeleton')
        raise Untranslatable('statement ' + type(s).__name__)

    def value(self, node, env):
        if isinstance(node, ast.Constant) and isinstance(node.value, str):
            return json.dumps(node.value)
        if isinstance(node, (ast.Tuple, ast.List)):
            return '(' + ', '.join(self.value(e, env) for e in node.elts) + ')'
        nm = _name_of(node) if isinstance(node, (ast.Name, ast.Attribute)) else None
        if nm in env.vars and isinstance(env.vars[nm], list):
            return '(' + ', '.join(env.vars[nm]) + ')'
        return self.expr(node, env)

    after_loop = []
    loop_again = []
    generators = {}
    generators_elem = {}
    fraction_params = {}
    assume = {}
    opaque = {}
    elementwise = False
    optional = {}            # lean parameter name -> presence-flag parameter name
    option_return = False
    needs_fuel = False

    def carried(self, body, env):
        """loop-carried variables: tracked variables (or to-be tracked) assigned in the body, that exist before the loop"""
        out = []
        for t in self.targets_of(body):
            if t in env.vars:
                out.append(t)
        return out

    def loop(self, s, rest, env, k, mode, pre=None):
        if mode != 'list':
            raise Untranslatable('loop in a value function')
        carried = self.carried(s.body, env)
        key = (id(s), tuple(carried), tuple(sorted(t for t in env.vars)))
        if key in self.loop_cache:
            lname = self.loop_cache[key]
            flat = []
            for t in carried:
                v = env.vars[t]
                flat += v if isinstance(v, list) else [v]
            return f'{lname} §PARAMS§ §CONSTS:{lname}§ fuel ' + ' '.join(flat)
        self.loopn += 1
        lname = f'{self.fname}_loop{self.loopn}'
        self.loop_cache[key] = lname
        flat = []
        for t in carried:
            v = env.vars[t]
            flat += v if isinstance(v, list) else [v]
        # inside the loop definition the carried variables are bound as arguments under their canonical names
        inner = env.copy()
        argn = []
        for t in carried:
            v = env.vars[t]
            if isinstance(v, list):
                names = [lean_id(f'{t}_{i}') for i in range(len(v))]
                inner.vars[t] = names
                argn += names
            else:
                inner.vars[t] = lean_id(t)
                argn.append(lean_id(t))
        # non-carried tracked variables defined before the loop are passed as extra (constant) arguments
        consts = []
        for t, v in env.vars.items():
            if t in carried:
                continue
            for x in (v if isinstance(v, list) else [v]):
                if x not in consts:
                    consts.append(x)
        self_ref = {}

        def again(e):
            vals = []
            for t in carried:
                v = e.vars[t]
                vals += v if isinstance(v, list) else [v]
            return f'{lname} §PARAMS§ §CONSTS:{lname}§ fuel ' + ' '.join(vals)

        after_env = {}

        def after(e):
            # code after the loop runs with the environment at the break; emitted inline at each break
            return self.block(list(rest), e.copy(), k, mode)

        self.after_loop.append(after)
        self.loop_again.append(again)
        self_ref['params'] = '§PARAMS§'
        try:
            test_true = isinstance(s.test, ast.Constant) and s.test.value is True
            body_txt = self.block(list(s.body), inner.copy(), again, mode)
            if not test_true:
                cond = self.test(s.test, inner)
                body_txt = f'(if {cond} then\n{body_txt}\nelse\n{after(inner)})'
        finally:
            self.after_loop.pop()
            self.loop_again.pop()
        self.aux.append((lname, argn, consts, body_txt))
        start = ' '.join(flat)
        return f'{lname} §PARAMS§ §CONSTS:{lname}§ fuel {start}'

    def forloop(self, s, rest, env, k, mode):
        # for i in range(a[, b]) -> i = a; while i < b: body; i += 1      (no `continue` support inside)
        it = s.iter
        g = _name_of(it) if isinstance(it, (ast.Name, ast.Attribute)) else None
        if g is not None and g in self.generators:
            # for <tuple> in <another translated generator>: the body may not carry state from one iteration to the next
            lname, gparams, gfuel = self.generators[g]
            if self.carried(s.body, env):
                raise Untranslatable('for loop over a generator carries state between iterations')
            tgt = s.target.elts if isinstance(s.target, ast.Tuple) else [s.target]
            names = [_name_of(t) for t in tgt]
            if not all(names):
                raise Untranslatable('for target ' + ast.unparse(s.target))
            inner = env.copy()
            for n in names:
                inner.vars[n] = lean_id(n)
            for gp in gparams:
                self.param(env, gp)
            body = self.block(list(s.body), inner, lambda e: '[]', mode)
            if gfuel:
                self.needs_fuel = True
            call = f'{lname} ' + ' '.join(gparams) + (' fuel' if gfuel else '')
            pat = ', '.join(lean_id(n) for n in names)
            return f'(List.flatMap (fun (({pat}) : {self.generators_elem[g]}) =>\n{_indent(body, 2)}) ({call})) ++ ({self.block(list(rest), env, k, mode)})'
        if not (isinstance(it, ast.Call) and _callname(it) == 'range' and 1 <= len(it.args) <= 2 and isinstance(s.target, ast.Name)):
            raise Untranslatable('for loop over ' + ast.unparse(it))
        for n in ast.walk(s):
            if isinstance(n, ast.Continue):
                raise Untranslatable('continue inside a for loop')
        lo = ast.Constant(0) if len(it.args) == 1 else it.args[0]
        hi = it.args[-1]
        i = s.target.id
        init = ast.Assign(targets=[ast.Name(i, ast.Store())], value=lo)
        hi_name = f'_hi{self.loopn + 1}'
        inith = ast.Assign(targets=[ast.Name(hi_name, ast.Store())], value=hi)
        self.assigned.add(hi_name)
        w = ast.While(test=ast.Compare(left=ast.Name(i, ast.Load()), ops=[ast.Lt()], comparators=[ast.Name(hi_name, ast.Load())]),
                      body=list(s.body) + [ast.AugAssign(target=ast.Name(i, ast.Store()), op=ast.Add(), value=ast.Constant(1))], orelse=[])
        return self.block([init, inith, w] + list(rest), env, k, mode)

    # ---------------------------------------------------------------- entry points
    def translate_fn(self, name, mode):
        self.fname = name
        env = Env([])
        body = [s for s in self.fn.body]
        if body and isinstance(body[0], ast.Expr) and isinstance(body[0].value, ast.Constant) and isinstance(body[0].value.value, str):
            body = body[1:]
        # function arguments are parameters (never in self.assigned unless re-assigned)
        end = (lambda e: '[]') if mode == 'list' else (lambda e: 'none') if self.option_return else \
            (lambda e: (_ for _ in ()).throw(Untranslatable('function falls off its end')))
        txt = self.block(body, env, end, mode)
        return self.render(name, env, txt, mode)

    def order_params(self, params):
        if self.param_order:
            known = [p for p in self.param_order if p in params]
            return known + [p for p in params if p not in known]
        return list(params)

    def render(self, name, env, txt, mode, rtype=None):
        blob = txt + ''.join(b for _, _, _, b in self.aux)
        params = [p_ for p_ in self.order_params(env.params) if re.search(r'(?<![\w.])' + re.escape(p_) + r'(?![\w])', blob)]
        ptxt = ' '.join(params)
        pdecl = f'({ptxt} : Int)' if params else ''
        out = []
        uses_fuel = bool(self.aux) or self.needs_fuel
        extras = {}
        for lname, argn, consts, body in self.aux:
            # variables computed before the loop and used in its body are passed as extra (constant) arguments
            extras[lname] = [c for c in consts if re.search(r'\b' + re.escape(c) + r'\b', body) and c not in argn]

        def fill(t):
            t = t.replace('§PARAMS§', ptxt)
            for ln, ex in extras.items():
                t = t.replace(f'§CONSTS:{ln}§', ' '.join(ex))
            return t
        for lname, argn, consts, body in self.aux:
            body = fill(body)
            adecl = ' '.join(f'({a} : Int)' for a in extras[lname]) + ' (fuel : Nat) ' + ' '.join(f'({a} : Int)' for a in argn)
            out.append(f'def {lname} {pdecl} {adecl} : List {self.elem_type} :=\n'
                       f'  match fuel with\n  | 0 => []\n  | fuel + 1 =>\n' + _indent(body, 4) + '\n')
        txt = fill(txt)
        rt = rtype or (f'List {self.elem_type}' if mode == 'list' else self.value_type)
        fuel = ' (fuel : Nat)' if uses_fuel else ''
        out.append(f'def {name} {pdecl}{fuel} : {rt} :=\n' + _indent(txt, 2) + '\n')
        return '\n'.join(out), params

    elem_type = '(String × List Int)'
    value_type = 'Int'


def _indent(txt, n):
    return '\n'.join(' ' * n + l for l in txt.splitlines())


# --------------------------------------------------------------------------------------------------
def find_function(tree, dotted):
    """'Class.method' / 'outer.inner' / 'fn' -> ast.FunctionDef"""
    node = tree
    for part in dotted.split('.'):
        found = None
        for n in ast.walk(node) if not isinstance(node, ast.Module) else node.body:
            if isinstance(n, (ast.FunctionDef, ast.ClassDef)) and n.name == part and n is not node:
                found = n
                break
        if found is None:
            # nested deeper (e.g. inside an if / with)
            for n in ast.walk(node):
                if isinstance(n, (ast.FunctionDef, ast.ClassDef)) and n.name == part and n is not node:
                    found = n
                    break
        if found is None:
            raise Untranslatable(f'function {dotted} not found (no {part})')
        node = found
    return node


def _arity(text):
    # crude: arity of the first tuple in a yield / return — decided by the caller instead
    return None


def translate_item(src_root, item):
    """item: dict(name, module, function, kind, [target, occurrence, events, outputs, from_target, to_target, elem, value, params])
    returns (lean_text, params)"""
    path = Path(src_root) / item['module']
    tree = ast.parse(path.read_text())
    fn = find_function(tree, item['function'])
    if item.get('loop_body'):
        # translate ONE iteration of the function's first `for` loop over a container (its target becomes a free name)
        loops = [st for st in fn.body if isinstance(st, ast.For)]
        if not loops:
            raise Untranslatable(f'{item["function"]} has no top-level for loop')
        lp = loops[0]
        fn = ast.FunctionDef(name=fn.name, args=fn.args, body=list(lp.body), decorator_list=[], returns=None, type_comment=None, type_params=[])
        ast.fix_missing_locations(fn)
        item = dict(item, free=list(item.get('free') or []) + [n.id for n in ast.walk(lp.target) if isinstance(n, ast.Name)])
    if item.get('until') and item['kind'] in ('fn', 'events'):
        # only the prefix of the body before the first top-level statement whose text matches `until`
        keep = []
        for st in fn.body:
            try:
                txt_ = ast.unparse(st)
            except Exception:
                txt_ = ''
            if re.search(item['until'], txt_):
                break
            keep.append(st)
        fn = ast.FunctionDef(name=fn.name, args=fn.args, body=keep, decorator_list=[], returns=None, type_comment=None, type_params=[])
        ast.fix_missing_locations(fn)
    tr = FnTranslator(fn, events=item.get('events'), param_order=item.get('params'), free=item.get('free'))
    tr.elementwise = bool(item.get('elementwise'))
    tr.fname = item['name']
    tr.generators = dict(item.get('_generators', {}))
    tr.generators_elem = dict(item.get('_generators_elem', {}))
    tr.fraction_params = dict(item.get('fractions', {}))
    tr.assume = dict(item.get('assume', {}))
    tr.opaque = dict(item.get('opaque', {}))
    tr.optional = dict(item.get('optional', {}))
    tr.option_return = bool(item.get('option_return'))
    if 'elem' in item:
        tr.elem_type = item['elem']
    if 'value' in item:
        tr.value_type = item['value']
    kind = item['kind']
    if kind in ('fn', 'events'):
        return tr.translate_fn(item['name'], 'list' if (kind == 'events' or item.get('generator')) else 'value')
    # straight-line prefix of the function up to the wanted assignment(s)
    body = list(fn.body)
    if kind == 'expr':
        # the `occurrence`-th assignment to `target` anywhere in the function (not in nested defs); evaluated in the
        # environment of the straight-line/simple statements that precede it in its own block chain
        chain = _path_to_assignment(fn, item['target'], item.get('occurrence', 0))
        if chain is None:
            raise Untranslatable(f'no assignment to {item["target"]} in {item["function"]}')
        env = Env([])
        lets = []
        stmt = None
        for blk, idx in chain:
            pre = [s for s in blk[:idx] if not isinstance(s, (ast.FunctionDef, ast.ClassDef))]
            pre = [s for s in pre if tr.is_simple([s], env)]
            tr.simple_block(pre, env, lets)
            stmt = blk[idx]
        val = stmt.value
        if isinstance(stmt, ast.AugAssign):
            val = ast.BinOp(left=stmt.target, op=stmt.op, right=stmt.value)
        if item.get('fraction'):
            n_, d_ = tr.rat(val, env)
            txt = f'({n_}, {d_ if d_ is not None else 1})'
        elif item.get('predicate'):       # the assigned value is a Boolean (mask) expression: its element-wise reading, as a Bool
            txt = f'decide {tr.test(val, env)}'
        else:
            txt = tr.value(val, env)
        used = _prune_lets(lets, txt)
        return tr.render(item['name'], env, ''.join(l + ';\n' for l in used) + txt, 'value')
    if kind == 'subexpr':
        # the first sub-expression of the function (in source order) whose unparsed text matches `pattern` exactly; every
        # name in it is a parameter (use for index arithmetic that sits inside a larger array expression)
        hit = None
        for node in ast.walk(fn):
            if isinstance(node, ast.expr):
                try:
                    txt_ = ast.unparse(node)
                except Exception:
                    continue
                if re.fullmatch(item['pattern'], txt_):
                    hit = node
                    break
        if hit is None:
            raise Untranslatable(f'no sub-expression matching {item["pattern"]} in {item["function"]}')
        env = Env([])
        tr.free |= {n.id for n in ast.walk(hit) if isinstance(n, ast.Name)}
        txt = tr.value(hit, env)
        return tr.render(item['name'], env, txt, 'value')
    if kind == 'block':
        # the simple statements of the function body, from its start up to (not including) the first statement whose source
        # matches `until` (default: the whole body); statements that are not simple (loops, returns, with ...) are skipped and
        # whatever they assign is marked as outside the skeleton
        env = Env([])
        lets = []
        until = item.get('until')
        for st in body:
            if isinstance(st, (ast.FunctionDef, ast.ClassDef)):
                continue
            if until and re.search(until, ast.unparse(st)):
                break
            if tr.is_simple([st], env):
                tr.simple_block([st], env, lets)
            else:
                for nm in tr.targets_of([st]):
                    if nm in env.vars:
                        raise Untranslatable(f'tracked variable {nm} is assigned inside a skipped statement')
                    env.dropped.add(nm)
        outs = []
        for o in item['outputs']:
            outs.append(tr.value(ast.parse(o, mode='eval').body, env))
        txt = '(' + ', '.join(outs) + ')' if len(outs) > 1 else outs[0]
        used = _prune_lets(lets, txt)
        return tr.render(item['name'], env, ''.join(l + ';\n' for l in used) + txt, 'value')
    raise ValueError(kind)


def _prune_lets(lets, final):
    """keep only the lets the final expression (transitively) depends on"""
    need = set(re.findall(r'[A-Za-z_][\w]*', final))
    keep = []
    for l in reversed(lets):
        m = re.match(r'let \(?([^:]*?)\)? :=', l)
        names = [x.strip() for x in m.group(1).split(',')]
        if any(n in need for n in names):
            keep.append(l)
            need |= set(re.findall(r'[A-Za-z_][\w]*', l.split(':=', 1)[1]))
    return list(reversed(keep))


def _path_to_assignment(fn, target, occurrence):
    """list of (block, index) from the function body down to the wanted assignment statement"""
    hits = []

    def walk(block, chain):
        for i, s in enumerate(block):
            if isinstance(s, (ast.Assign, ast.AugAssign)):
                tg = s.targets if isinstance(s, ast.Assign) else [s.target]
                if any(_name_of(t) == target or ast.unparse(t) == target for t in tg):
                    hits.append(chain + [(block, i)])
            for sub in ('body', 'orelse', 'finalbody'):
                b = getattr(s, sub, None)
                if isinstance(b, list) and b and not isinstance(s, (ast.FunctionDef, ast.ClassDef)):
                    walk(b, chain + [(block, i)])
    walk(fn.body, [])
    if occurrence < 0:
        occurrence += len(hits)
    return hits[occurrence] if 0 <= occurrence < len(hits) else None


HEADER = '''/-
GENERATED by harness/pyfn2lean.py from the CURRENT text of /repo/src on every run.  Do not edit.
Each definition is the integer skeleton of the named source function (see the translator's docstring for the mapping).
-/
import IblVerif.Tie.PyPrelude
namespace IblVerif.Src.§GROUP§
open IblVerif.Tie
'''


def generate(src_root, items, out_path, group):
    """translate all items; writes out_path (only when changed).  Returns {name: (ok, message, params)}."""
    res, chunks = {}, []
    gens, gens_elem = {}, {}
    for it in items:
        try:
            it = dict(it, _generators=gens, _generators_elem=gens_elem)
            txt, params = translate_item(src_root, it)
            if it.get('generator') and it.get('as'):
                gens[it['as']] = (it['name'], params, '(fuel : Nat)' in txt.split(f'def {it["name"]} ')[-1].split(':=')[0])
                gens_elem[it['as']] = it.get('elem', '(String × List Int)')
            chunks.append(f'/- {it["module"]}:{it["function"]} ({it["kind"]}) -/\n' + txt)
            res[it['name']] = (True, '', params)
        except Untranslatable as e:
            res[it['name']] = (False, f'{it["function"]}: not in the translatable subset: {e}', [])
        except (SyntaxError, OSError, KeyError, IndexError, AttributeError, TypeError, ValueError) as e:
            res[it['name']] = (False, f'{it["function"]}: {type(e).__name__}: {e}', [])
    text = HEADER.replace('§GROUP§', group) + '\n' + '\n'.join(chunks) + f'\nend IblVerif.Src.{group}\n'
    out_path = Path(out_path)
    out_path.parent.mkdir(parents=True, exist_ok=True)
    if not out_path.exists() or out_path.read_text() != text:
        out_path.write_text(text)
    return res


if __name__ == '__main__':
    import json
    import sys
    spec = json.loads(Path(sys.argv[2]).read_text())
    r = generate(sys.argv[1], spec, sys.argv[3], 'cli')
    for k, v in r.items():
        print(k, v)
