#!/bin/sh
# usage: [ROOT=/tmp/neutral2 KINDS="d e"] harness/ingest_neutral.sh <Cxx> ...   copies /tmp/neutral/<Cxx>/_neutral/{a,b,c}.diff to neutral/<Cxx>_{a,b,c}/ and confirms each
# (fresh worktree: patch applies, unit suite at its baseline, the author's compare.py still passes)
ROOT=${ROOT:-/tmp/neutral}; KINDS=${KINDS:-a b c}
for P in "$@"; do
  S=$ROOT/$P/_neutral
  [ -d $S ] || { echo "no delivery for $P"; continue; }
  for K in $KINDS; do
    [ -f $S/$K.diff ] || { echo "$P: no $K.diff"; continue; }
    D=/verif/neutral/${P}_$K
    mkdir -p $D
    cp $S/$K.diff $D/patch.diff
    [ -f $S/compare.py ] && cp $S/compare.py $D/compare.py
    [ -f $S/notes.md ] && cp $S/notes.md $D/notes.md
    KIND=$(case $K in a) echo "pure refactor";; b) echo "equivalent algorithm";; c) echo "robustness / hygiene";; d) echo "state / caching / I-O restructuring";; e) echo "interface-level tidy-up";; esac)
    printf '{"property": "%s", "kind": "%s", "expected": "OK"}\n' $P "$KIND" > $D/meta.json
    /venv/bin/python /verif/harness/confirm_seed.py $D /tmp/confirm_n_${P}_$K.json --neutral > /tmp/confirm_n_${P}_$K.out 2>&1 &
  done
done
wait
for P in "$@"; do for K in $KINDS; do echo "${P}_$K: $(tail -1 /tmp/confirm_n_${P}_$K.out 2>/dev/null | cut -c1-230)"; done; done
