"""
Confirms a delivered seeded change independently of its author's worktree.

usage: /venv/bin/python harness/confirm_seed.py <delivery_dir> <out_json> [--no-suite]

<delivery_dir> holds patch.diff and demo.py (and anything demo.py needs next to it).  In a FRESH detached worktree of
/repo HEAD: git apply patch.diff -> demo must exit non-zero; full test suite must equal the baseline (the stable tests of
/root/.vp/BASELINE.json all pass); git apply -R -> demo must exit 0.  The worktree is removed afterwards.
"""
import json
import re
import shutil
import subprocess
import sys
import tempfile
from pathlib import Path

REPO = '/repo'


def sh(cmd, **kw):
    return subprocess.run(cmd, capture_output=True, text=True, **kw)


def main(delivery, out_json, suite=True, neutral=False):
    delivery = Path(delivery)
    base = json.loads(Path('/root/.vp/BASELINE.json').read_text())
    stable = set(base['stable_pass'])
    tmp = Path(tempfile.mkdtemp(prefix='confirm_'))
    wt = tmp / 'repo'
    r = sh(['git', '-C', REPO, 'worktree', 'add', '--detach', str(wt), 'HEAD'])
    assert r.returncode == 0, r.stderr
    res = {'delivery': str(delivery)}
    try:
        seed = wt / '_seed'
        shutil.copytree(delivery, seed, ignore=shutil.ignore_patterns('replay_*', 'meta.json', '__pycache__'))
        (tmp / 't').mkdir()
        env = dict(__import__('os').environ, PYTHONPATH=f'{wt}/src', TMPDIR=str(tmp / 't'))   # the tests use fixed names under the temp dir
        a = sh(['git', '-C', str(wt), 'apply', str(seed / 'patch.diff')])
        res['applies'] = a.returncode == 0
        if a.returncode != 0:
            res['apply_err'] = a.stderr[-500:]
            return res
        if neutral:
            # behaviour-preserving patch: no demonstration; the author's own old-vs-new comparison must still pass
            if (seed / 'compare.py').exists():
                c1 = sh(['/venv/bin/python', str(seed / 'compare.py')], cwd=str(wt), env=env, timeout=3000)
                res['compare_with_patch'] = {'exit': c1.returncode, 'tail': (c1.stdout + c1.stderr).strip()[-400:]}
        else:
            d1 = sh(['/venv/bin/python', str(seed / 'demo.py')], cwd=str(wt), env=env, timeout=1800)
            res['demo_with_patch'] = {'exit': d1.returncode, 'tail': (d1.stdout + d1.stderr).strip()[-600:]}
        if suite:
            junit = tmp / 'junit.xml'
            t = sh(['/venv/bin/python', '-m', 'pytest', '-ra', '-q', '-p', 'no:cacheprovider', '--timeout=900',
                    '--continue-on-collection-errors', f'--junitxml={junit}'], cwd=str(wt), env=env, timeout=3600)
            tail = t.stdout.strip().splitlines()[-1] if t.stdout.strip() else t.stderr[-200:]
            res['suite_summary'] = tail
            passed = set()
            import xml.etree.ElementTree as ET
            if junit.exists():
                for tc in ET.parse(junit).getroot().iter('testcase'):
                    bad = any(ch.tag in ('failure', 'error', 'skipped') for ch in tc)
                    if not bad:
                        passed.add(f"{tc.get('classname')}::{tc.get('name')}")
            missing = sorted(stable - passed)
            if missing:
                # suites of several worktrees running at the same time disturb each other (shared temporary names):
                # re-run the missing tests alone, under a machine-wide lock
                import fcntl
                res['stable_missing_first_run'] = missing
                with open('/tmp/confirm_suite.lock', 'w') as lk:
                    fcntl.flock(lk, fcntl.LOCK_EX)
                    junit2 = tmp / 'junit2.xml'
                    ids = []
                    for m in missing:
                        cls, name = m.split('::')
                        parts = cls.split('.')
                        # src.tests.unit.test_x[.Class] -> src/tests/unit/test_x.py[::Class]::name
                        k = next(i for i, q in enumerate(parts) if q.startswith('test_'))
                        ids.append('/'.join(parts[:k + 1]) + '.py' + ''.join('::' + q for q in parts[k + 1:]) + '::' + name)
                    t2 = sh(['/venv/bin/python', '-m', 'pytest', '-q', '-p', 'no:cacheprovider', '--timeout=900',
                             f'--junitxml={junit2}'] + ids, cwd=str(wt), env=env, timeout=3600)
                    res['rerun_summary'] = t2.stdout.strip().splitlines()[-1] if t2.stdout.strip() else t2.stderr[-200:]
                    if junit2.exists():
                        for tc in ET.parse(junit2).getroot().iter('testcase'):
                            if not any(ch.tag in ('failure', 'error', 'skipped') for ch in tc):
                                passed.add(f"{tc.get('classname')}::{tc.get('name')}")
                missing = sorted(stable - passed)
            res['stable_missing'] = missing
            res['suite_ok'] = not missing
        if neutral:
            res['confirmed'] = bool(res.get('suite_ok', True))
            return res
        sh(['git', '-C', str(wt), 'apply', '-R', str(seed / 'patch.diff')])
        d0 = sh(['/venv/bin/python', str(seed / 'demo.py')], cwd=str(wt), env=env, timeout=1800)
        res['demo_without_patch'] = {'exit': d0.returncode, 'tail': (d0.stdout + d0.stderr).strip()[-300:]}
        res['confirmed'] = bool(res['demo_with_patch']['exit'] != 0 and d0.returncode == 0 and (res.get('suite_ok', True)))
        return res
    finally:
        Path(out_json).write_text(json.dumps(res, indent=1))
        sh(['git', '-C', REPO, 'worktree', 'remove', '--force', str(wt)])
        shutil.rmtree(tmp, ignore_errors=True)


if __name__ == '__main__':
    args = [a for a in sys.argv[1:] if not a.startswith('--')]
    r = main(args[0], args[1], suite='--no-suite' not in sys.argv, neutral='--neutral' in sys.argv)
    print(json.dumps({k: r.get(k) for k in ('applies', 'confirmed', 'suite_summary', 'stable_missing', 'compare_with_patch')}))
