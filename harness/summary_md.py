"""Prints the per-property summary table (theorem count, partial parts, known findings) for DESIGN.md §11.6."""
import importlib, re, sys
from pathlib import Path
H = Path(__file__).resolve().parent
sys.path.insert(0, str(H)); sys.path.insert(0, '/repo/src')
known = {}
for l in (H.parent / 'known_findings.txt').read_text().splitlines():
    m = re.match(r'known:\s+property=(\S+)\s+key=(\S+)', l)
    if m: known.setdefault(m.group(1), []).append(m.group(2))
print('| id | theorems (audited) | Lean files (lines) | what is only numeric / assumed (from LEVEL_NOTE) | known findings |')
print('|---|---|---|---|---|')
for i in range(1, 21):
    pid = f'C{i:02d}'
    m = importlib.import_module(f'props.{pid.lower()}')
    prop = (H.parent / 'lean' / 'IblVerif' / 'Properties' / f'{pid}.lean')
    imports = set()
    def walk(f):
        for mm in re.findall(r'^import (IblVerif\.\S+)', f.read_text(), re.M):
            p = H.parent / 'lean' / (mm.replace('.', '/') + '.lean')
            if p.exists() and p not in imports:
                imports.add(p); walk(p)
    imports.add(prop); walk(prop)
    nl = sum(len(p.read_text().splitlines()) for p in imports)
    note = m.LEVEL_NOTE.replace('\n', ' ').replace('|', '/')
    if len(note) > 330: note = note[:327] + '...'
    print(f'| {pid} | {len(m.THEOREMS)} | {len(imports)} ({nl}) | {note} | {", ".join(known.get(pid, [])) or "—"} |')
