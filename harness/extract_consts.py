"""
Constants translator: reads /repo/src with `ast` (no import of the code) and writes
lean/IblVerif/Generated/Constants.lean.  Theorems whose truth depends on these numbers
(`samples_overlap % 12 = 0`, `2*SAMPLES_TAPER < NBATCH`, ADC table facts, grid pitches ...) import the
generated file, so they are re-checked against what the source says now on every run.

If a constant cannot be located the translator raises: the tie is broken (DESIGN §8).
"""
import ast
from fractions import Fraction
from pathlib import Path


def _parse(path):
    return ast.parse(Path(path).read_text())


def _find_func(tree, name, cls=None):
    for node in ast.walk(tree):
        if cls and isinstance(node, ast.ClassDef) and node.name == cls:
            for n in node.body:
                if isinstance(n, (ast.FunctionDef,)) and n.name == name:
                    return n
        if not cls and isinstance(node, ast.FunctionDef) and node.name == name:
            return node
    raise KeyError(f'function {cls + "." if cls else ""}{name} not found')


def _safe_eval(expr):
    """literal_eval that also accepts dict(k=v) calls"""
    for n in ast.walk(expr):
        if isinstance(n, ast.Call) and not (isinstance(n.func, ast.Name) and n.func.id == 'dict'):
            raise ValueError('non-literal expression: ' + ast.unparse(expr))
        if isinstance(n, (ast.Attribute, ast.Subscript, ast.Lambda)):
            raise ValueError('non-literal expression: ' + ast.unparse(expr))
    return eval(compile(ast.Expression(expr), '<const>', 'eval'), {'__builtins__': {}, 'dict': dict})


def _module_const(tree, name):
    for node in tree.body:
        if isinstance(node, ast.Assign):
            for t in node.targets:
                if isinstance(t, ast.Name) and t.id == name:
                    return _safe_eval(node.value)
    raise KeyError(f'module constant {name} not found')


def _assigned(func, target):
    """value expression of the first `target = ...` / `self.target = ...` inside func"""
    for node in ast.walk(func):
        if isinstance(node, ast.Assign):
            for t in node.targets:
                if (isinstance(t, ast.Name) and t.id == target) or \
                        (isinstance(t, ast.Attribute) and t.attr == target):
                    return node.value
                if isinstance(t, ast.Tuple) or isinstance(node.value, ast.Tuple):
                    pass
    raise KeyError(f'assignment to {target} not found in {func.name}')


def _lit(expr):
    return ast.literal_eval(expr)


def _default(func, arg):
    args = func.args
    names = [a.arg for a in args.args]
    defaults = args.defaults
    off = len(names) - len(defaults)
    if arg in names and names.index(arg) >= off:
        return ast.literal_eval(defaults[names.index(arg) - off])
    for a, d in zip(args.kwonlyargs, args.kw_defaults):
        if a.arg == arg and d is not None:
            return ast.literal_eval(d)
    raise KeyError(f'default of {arg} not found in {func.name}')


def _num_in_compare(func, lhs_contains):
    """find a numeric literal multiplied in an expression of func whose source contains lhs_contains"""
    for node in ast.walk(func):
        if isinstance(node, ast.BinOp) and isinstance(node.op, ast.Mult):
            src = ast.unparse(node)
            if lhs_contains in src:
                for side in (node.left, node.right):
                    if isinstance(side, ast.Constant) and isinstance(side.value, (int, float)):
                        return side.value
    raise KeyError(f'numeric factor near {lhs_contains} not found in {func.name}')


def extract(src):
    src = Path(src)
    T = {}
    npx = _parse(src / 'neuropixel.py')
    T['NC'] = _module_const(npx, 'NC')
    grid = _module_const(npx, 'CHANNEL_GRID')
    for k, name in ((1, 'NP1'), (2, 'NP2'), ('NPultra', 'NPU')):
        for f in ('DX', 'X0', 'DY', 'Y0'):
            T[f'GRID_{name}_{f}'] = int(grid[k][f])
    T['S2V_AP'] = _module_const(npx, 'S2V_AP')
    T['S2V_LFP'] = _module_const(npx, 'S2V_LFP')
    # adc_shifts: branch constants
    f = _find_func(npx, 'adc_shifts')
    branches = [n for n in ast.walk(f) if isinstance(n, ast.If)]
    found = {}
    for b in branches:
        cond = ast.unparse(b.test)
        vals = {}
        for st in b.body:
            if isinstance(st, ast.Assign):
                if len(st.targets) >= 1 and all(isinstance(t, ast.Name) for t in st.targets):
                    for t in st.targets:
                        vals[t.id] = _lit(st.value)
        if 'version == 1' in cond:
            found['v1'] = vals
        for o in b.orelse:
            if isinstance(o, ast.If):
                vals2 = {}
                for st in o.body:
                    if isinstance(st, ast.Assign):
                        for t in st.targets:
                            if isinstance(t, ast.Name):
                                vals2[t.id] = _lit(st.value)
                if '== 2' in ast.unparse(o.test):
                    found['v2'] = vals2
    T['ADC_NP1_CHANNELS'] = found['v1']['adc_channels']
    T['ADC_NP1_CYCLES'] = found['v1']['n_cycles']
    T['ADC_NP2_CHANNELS'] = found['v2']['adc_channels']
    T['ADC_NP2_CYCLES'] = found['v2']['n_cycles']
    # NP2Converter.init_params
    f = _find_func(npx, 'init_params', 'NP2Converter')
    T['CONV_FS_AP'] = _lit(_assigned(f, 'fs_ap'))
    T['CONV_FS_LF'] = _lit(_assigned(f, 'fs_lf'))
    T['CONV_OVERLAP'] = _lit(_assigned(f, 'samples_overlap'))
    tap = ast.unparse(_assigned(f, 'samples_taper'))   # int(self.samples_overlap / 4)
    import re
    m = re.search(r'samples_overlap\s*/+\s*(\d+)', tap)
    if not m:
        raise KeyError('samples_taper = int(samples_overlap / k) not recognised: ' + tap)
    T['CONV_TAPER_DIV'] = int(m.group(1))
    win = ast.unparse(_assigned(f, 'samples_window'))  # nwindow or 2 * self.fs_ap
    m = re.search(r'(\d+)\s*\*\s*self\.fs_ap', win)
    if not m:
        raise KeyError('samples_window default not recognised: ' + win)
    T['CONV_WINDOW_SECS'] = int(m.group(1))
    # voltage.py
    vol = _parse(src / 'ibldsp' / 'voltage.py')
    f = _find_func(vol, 'decompress_destripe_cbin')
    T['DESTRIPE_TAPER'] = _lit(_assigned(f, 'SAMPLES_TAPER'))
    nb = ast.unparse(_assigned(f, 'NBATCH'))
    m = re.search(r'nbatch or (\d+)', nb)
    if not m:
        raise KeyError('NBATCH default not recognised: ' + nb)
    T['DESTRIPE_NBATCH'] = int(m.group(1))
    f = _find_func(vol, 'saturation')
    T['SAT_FACTOR'] = _num_in_compare(f, 'max_voltage')
    T['SAT_PROPORTION'] = _default(f, 'proportion')
    T['SAT_MUTE_WINDOW'] = _default(f, 'mute_window_samples')
    T['SAT_V_PER_SEC'] = _default(f, 'v_per_sec')
    f = _find_func(vol, 'interpolate_bad_channels')
    T['INTERP_P'] = _default(f, 'p')
    T['INTERP_KRIGING_UM'] = _default(f, 'kriging_distance_um')
    # spikeglx
    sg = _parse(src / 'spikeglx.py')
    T['SAMPLE_SIZE'] = _module_const(sg, 'SAMPLE_SIZE')
    # waveform extraction defaults
    wx = _parse(src / 'ibldsp' / 'waveform_extraction.py')
    f = _find_func(wx, '_make_wfs_table')
    T['WF_MAX'] = _default(f, 'max_wf')
    T['WF_TROUGH_OFFSET'] = _default(f, 'trough_offset')
    T['WF_LENGTH'] = _default(f, 'spike_length_samples')
    return T


def _lean_value(v):
    if isinstance(v, bool):
        raise TypeError
    if isinstance(v, int):
        return 'Nat', str(v)
    if isinstance(v, float):
        fr = Fraction(repr(v))          # decimal reading of the literal, e.g. 0.98 -> 49/50
        return 'Nat × Nat', f'({fr.numerator}, {fr.denominator})'
    raise TypeError(type(v))


def generate(src):
    T = extract(src)
    lines = ['/-',
             'GENERATED by harness/extract_consts.py from /repo/src on every run.  Do not edit.',
             'Float literals are given as the exact decimal fraction (numerator, denominator) of the source text.',
             '-/',
             'namespace IblVerif.Generated', '']
    for k in sorted(T):
        ty, val = _lean_value(T[k])
        lines.append(f'def {k} : {ty} := {val}')
    lines += ['', 'end IblVerif.Generated', '']
    return '\n'.join(lines), T


if __name__ == '__main__':
    import sys
    text, T = generate(sys.argv[1] if len(sys.argv) > 1 else '/repo/src')
    print(text)
