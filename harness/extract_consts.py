"""
Constants translator: reads /repo/src with `ast` (no import of the code) and writes
lean/IblVerif/Generated/Constants.lean.  Theorems whose truth depends on these numbers
(`samples_overlap % 12 = 0`, `2*SAMPLES_TAPER < NBATCH`, ADC table facts, grid pitches ...) import the
generated file, so they are re-checked against what the source says now on every run.

Each constant is extracted on its own, in up to three stages:

  1. syntactic: locate the assignment / default / factor in the AST and FOLD it (literals, arithmetic on literals,
     names bound to module-level constants or to earlier `x = ...` / `self.x = ...` assignments of the same
     function, `int(...)`, `float(...)`, `dict(...)`), so that `576`, `48 * 12`, `OVERLAP` with
     `OVERLAP = 576` at module level, `int(576)` all give 576;
  2. run-time fallback where one exists (module attribute, `inspect.signature` default, or — for the ADC table —
     the behaviour of `adc_shifts` itself: channels per ADC and cycles are read off the returned arrays);
  3. if both fail the constant is reported as NOT RE-EXTRACTED: the value of the previous run is kept in the
     generated file and the name is returned in `stale`.  The framework records this in the evidence of every
     property that uses the constant; the tie for that constant is then the correspondence run alone (the model
     computes with the kept value, the implementation with whatever the source now says, and they are compared on
     every case).  A restructured source is not by itself a violation (DESIGN §8, §11.7).
"""
import ast
import re
from fractions import Fraction
from pathlib import Path


def _parse(path):
    return ast.parse(Path(path).read_text())


def _find_func(tree, name, cls=None):
    for node in ast.walk(tree):
        if cls and isinstance(node, ast.ClassDef) and node.name == cls:
            for n in node.body:
                if isinstance(n, (ast.FunctionDef,)) and n.name == name:
                    return n
        if not cls and isinstance(node, ast.FunctionDef) and node.name == name:
            return node
    raise KeyError(f'function {cls + "." if cls else ""}{name} not found')


# ------------------------------------------------------------------------------------------------
# constant folding
# ------------------------------------------------------------------------------------------------
class NotConstant(Exception):
    pass


def _module_env(tree):
    """name -> value expression for simple module-level assignments"""
    env = {}
    for node in tree.body:
        if isinstance(node, ast.Assign):
            for t in node.targets:
                if isinstance(t, ast.Name):
                    env[t.id] = node.value
        elif isinstance(node, ast.AnnAssign) and isinstance(node.target, ast.Name) and node.value is not None:
            env[node.target.id] = node.value
    return env


def _func_env(func):
    """name / self-attribute -> value expression for simple assignments in a function body (first assignment wins)"""
    env = {}
    if func is None:
        return env
    for node in ast.walk(func):
        if isinstance(node, ast.Assign):
            for t in node.targets:
                if isinstance(t, ast.Name):
                    env.setdefault(t.id, node.value)
                elif isinstance(t, ast.Attribute) and isinstance(t.value, ast.Name) and t.value.id == 'self':
                    env.setdefault('self.' + t.attr, node.value)
    return env


_BIN = {ast.Add: lambda a, b: a + b, ast.Sub: lambda a, b: a - b, ast.Mult: lambda a, b: a * b,
        ast.Div: lambda a, b: a / b, ast.FloorDiv: lambda a, b: a // b, ast.Mod: lambda a, b: a % b,
        ast.Pow: lambda a, b: a ** b}


def fold(expr, menv=None, fenv=None, depth=0):
    """value of a constant expression; raises NotConstant otherwise"""
    menv = menv or {}
    fenv = fenv or {}
    if depth > 20:
        raise NotConstant('recursion')
    rec = lambda e: fold(e, menv, fenv, depth + 1)   # noqa
    if isinstance(expr, ast.Constant):
        if isinstance(expr.value, (int, float, str)) and not isinstance(expr.value, bool):
            return expr.value
        raise NotConstant(ast.unparse(expr))
    if isinstance(expr, ast.UnaryOp) and isinstance(expr.op, (ast.USub, ast.UAdd)):
        v = rec(expr.operand)
        return -v if isinstance(expr.op, ast.USub) else v
    if isinstance(expr, ast.BinOp) and type(expr.op) in _BIN:
        return _BIN[type(expr.op)](rec(expr.left), rec(expr.right))
    if isinstance(expr, ast.Name):
        if expr.id in fenv:
            return rec(fenv[expr.id])
        if expr.id in menv:
            return rec(menv[expr.id])
        raise NotConstant('unbound name ' + expr.id)
    if isinstance(expr, ast.Attribute) and isinstance(expr.value, ast.Name) and expr.value.id == 'self':
        k = 'self.' + expr.attr
        if k in fenv:
            return rec(fenv[k])
        raise NotConstant('unbound ' + k)
    if isinstance(expr, ast.Call) and isinstance(expr.func, ast.Name) and not expr.keywords and len(expr.args) == 1 \
            and expr.func.id in ('int', 'float'):
        v = rec(expr.args[0])
        return int(v) if expr.func.id == 'int' else float(v)
    if isinstance(expr, ast.Call) and isinstance(expr.func, ast.Name) and expr.func.id == 'dict' and not expr.args:
        return {k.arg: rec(k.value) for k in expr.keywords}
    if isinstance(expr, ast.Dict):
        return {rec(k): rec(v) for k, v in zip(expr.keys, expr.values)}
    if isinstance(expr, (ast.Tuple, ast.List)):
        return [rec(e) for e in expr.elts]
    raise NotConstant(ast.unparse(expr))


def _assigned(func, target):
    """value expression of the first `target = ...` / `self.target = ...` inside func"""
    for node in ast.walk(func):
        if isinstance(node, ast.Assign):
            for t in node.targets:
                if (isinstance(t, ast.Name) and t.id == target) or \
                        (isinstance(t, ast.Attribute) and t.attr == target):
                    return node.value
    raise KeyError(f'assignment to {target} not found in {func.name}')


def _default_expr(func, arg):
    args = func.args
    pos = args.posonlyargs + args.args
    names = [a.arg for a in pos]
    defaults = args.defaults
    off = len(names) - len(defaults)
    if arg in names and names.index(arg) >= off:
        return defaults[names.index(arg) - off]
    for a, d in zip(args.kwonlyargs, args.kw_defaults):
        if a.arg == arg and d is not None:
            return d
    raise KeyError(f'default of {arg} not found in {func.name}')


def _mentions(node, word):
    return re.search(r'\b' + re.escape(word) + r'\b', ast.unparse(node)) is not None


def _factor_of(func, word, menv, ops=(ast.Mult,)):
    """constant c in the first `… word … <op> c` or `c <op> … word …` of func (c folds, the other side mentions word)"""
    fenv = _func_env(func)
    for node in ast.walk(func):
        if isinstance(node, ast.BinOp) and isinstance(node.op, ops):
            for a, b in ((node.left, node.right), (node.right, node.left)):
                if _mentions(a, word):
                    try:
                        v = fold(b, menv, fenv)
                    except NotConstant:
                        continue
                    if isinstance(v, (int, float)):
                        return v
    raise KeyError(f'numeric factor next to {word} not found in {func.name}')


def _divisor_of(expr, word, menv, fenv):
    """k in `… word … / k` (or // k) somewhere inside expr"""
    for node in ast.walk(expr):
        if isinstance(node, ast.BinOp) and isinstance(node.op, (ast.Div, ast.FloorDiv)) and _mentions(node.left, word):
            try:
                v = fold(node.right, menv, fenv)
            except NotConstant:
                continue
            if v == int(v):
                return int(v)
    raise KeyError(f'divisor of {word} not found in {ast.unparse(expr)}')


def _or_default(expr, menv, fenv):
    """c in `x or c` (the fallback of an optional argument); a plain constant is accepted too"""
    if isinstance(expr, ast.BoolOp) and isinstance(expr.op, ast.Or):
        return fold(expr.values[-1], menv, fenv)
    if isinstance(expr, ast.IfExp):
        for side in (expr.orelse, expr.body):
            try:
                return fold(side, menv, fenv)
            except NotConstant:
                pass
    return fold(expr, menv, fenv)


# ------------------------------------------------------------------------------------------------
# run-time fallbacks (the checks import the code in-process anyway; used only when the syntax search fails)
# ------------------------------------------------------------------------------------------------
def _import(src, modname):
    import importlib
    import sys
    src = str(src)
    if src not in sys.path:
        sys.path.insert(0, src)
    return importlib.import_module(modname)


def _rt_default(src, modname, qual, arg):
    import inspect
    obj = _import(src, modname)
    for part in qual.split('.'):
        obj = getattr(obj, part)
    d = inspect.signature(obj).parameters[arg].default
    if d is inspect.Parameter.empty or isinstance(d, bool) or not isinstance(d, (int, float)):
        raise KeyError(f'{qual}({arg}) has no numeric default')
    return d


def _rt_adc(src, version):
    """channels per ADC and cycles per sample, read off adc_shifts' own output"""
    import numpy as np
    npx = _import(src, 'neuropixel')
    shifts, adc = npx.adc_shifts(version=version)
    shifts, adc = np.asarray(shifts, dtype=float), np.asarray(adc)
    per = int(np.sum(adc == adc[0]))
    pos = shifts[shifts > 0]
    cycles = int(round(1.0 / float(pos.min())))
    return per, cycles


def extract(src, stale_out=None):
    """returns the table of constants; names that could not be re-extracted are collected in stale_out (dict name->why)"""
    src = Path(src)
    T, bad = {}, ({} if stale_out is None else stale_out)

    def put(name, *thunks):
        why = []
        for th in thunks:
            try:
                v = th()
                if isinstance(v, bool) or not isinstance(v, (int, float)):
                    raise TypeError(f'{name}: not a number: {v!r}')
                if isinstance(v, float) and v == int(v) and name in INTEGRAL:
                    v = int(v)
                T[name] = v
                return
            except Exception as e:   # noqa
                why.append(f'{type(e).__name__}: {e}')
        bad[name] = ' | '.join(why)

    def lazy(f):
        cache = {}

        def g():
            if 'v' not in cache:
                cache['v'] = f()
            return cache['v']
        return g

    npx = lazy(lambda: _parse(src / 'neuropixel.py'))
    npx_env = lazy(lambda: _module_env(npx()))
    put('NC', lambda: fold(npx_env()['NC'], npx_env()), lambda: _import(src, 'neuropixel').NC)
    grid = lazy(lambda: fold(npx_env()['CHANNEL_GRID'], npx_env()))
    for k, name in ((1, 'NP1'), (2, 'NP2'), ('NPultra', 'NPU')):
        for f in ('DX', 'X0', 'DY', 'Y0'):
            put(f'GRID_{name}_{f}', (lambda k=k, f=f: int(grid()[k][f])),
                (lambda k=k, f=f: int(_import(src, 'neuropixel').CHANNEL_GRID[k][f])))
    put('S2V_AP', lambda: fold(npx_env()['S2V_AP'], npx_env()), lambda: _import(src, 'neuropixel').S2V_AP)
    put('S2V_LFP', lambda: fold(npx_env()['S2V_LFP'], npx_env()), lambda: _import(src, 'neuropixel').S2V_LFP)

    # adc_shifts: branch constants (syntactic), else the behaviour of the function itself
    def adc_branch(which, var):
        f = _find_func(npx(), 'adc_shifts')
        for b in (n for n in ast.walk(f) if isinstance(n, ast.If)):
            cond = ast.unparse(b.test)
            hit = ('version == 1' in cond) if which == 1 else ('== 2' in cond and 'version == 1' not in cond)
            if not hit:
                continue
            env = {}
            for st in b.body:
                if isinstance(st, ast.Assign):
                    for t in st.targets:
                        if isinstance(t, ast.Name):
                            env[t.id] = st.value
            if var in env:
                return fold(env[var], npx_env(), env)
        raise KeyError(f'adc_shifts: branch {which} / {var} not recognised')
    put('ADC_NP1_CHANNELS', lambda: adc_branch(1, 'adc_channels'), lambda: _rt_adc(src, 1)[0])
    put('ADC_NP1_CYCLES', lambda: adc_branch(1, 'n_cycles'), lambda: _rt_adc(src, 1)[1])
    put('ADC_NP2_CHANNELS', lambda: adc_branch(2, 'adc_channels'), lambda: _rt_adc(src, 2)[0])
    put('ADC_NP2_CYCLES', lambda: adc_branch(2, 'n_cycles'), lambda: _rt_adc(src, 2)[1])

    # NP2Converter.init_params
    ip = lazy(lambda: _find_func(npx(), 'init_params', 'NP2Converter'))
    ip_env = lazy(lambda: _func_env(ip()))
    put('CONV_FS_AP', lambda: fold(_assigned(ip(), 'fs_ap'), npx_env(), ip_env()))
    put('CONV_FS_LF', lambda: fold(_assigned(ip(), 'fs_lf'), npx_env(), ip_env()))
    put('CONV_OVERLAP', lambda: fold(_assigned(ip(), 'samples_overlap'), npx_env(), ip_env()))
    put('CONV_TAPER_DIV', lambda: _divisor_of(_assigned(ip(), 'samples_taper'), 'samples_overlap', npx_env(), ip_env()))

    def window_secs():
        e = _assigned(ip(), 'samples_window')      # nwindow or 2 * self.fs_ap
        for node in ast.walk(e):
            if isinstance(node, ast.BinOp) and isinstance(node.op, ast.Mult):
                for a, b in ((node.left, node.right), (node.right, node.left)):
                    if _mentions(a, 'fs_ap'):
                        try:
                            return int(fold(b, npx_env(), ip_env()))
                        except NotConstant:
                            pass
        v = _or_default(e, npx_env(), ip_env())     # e.g. `nwindow or 60000`
        fs = fold(_assigned(ip(), 'fs_ap'), npx_env(), ip_env())
        if v % fs:
            raise KeyError('samples_window default is not a whole number of seconds')
        return int(v // fs)
    put('CONV_WINDOW_SECS', window_secs)

    # voltage.py
    vol = lazy(lambda: _parse(src / 'ibldsp' / 'voltage.py'))
    vol_env = lazy(lambda: _module_env(vol()))
    dd = lazy(lambda: _find_func(vol(), 'decompress_destripe_cbin'))
    dd_env = lazy(lambda: _func_env(dd()))
    put('DESTRIPE_TAPER', lambda: fold(_assigned(dd(), 'SAMPLES_TAPER'), vol_env(), dd_env()))
    put('DESTRIPE_NBATCH', lambda: _or_default(_assigned(dd(), 'NBATCH'), vol_env(), dd_env()))
    sat = lazy(lambda: _find_func(vol(), 'saturation'))
    put('SAT_FACTOR', lambda: _factor_of(sat(), 'max_voltage', vol_env()))
    for cname, arg in (('SAT_PROPORTION', 'proportion'), ('SAT_MUTE_WINDOW', 'mute_window_samples'), ('SAT_V_PER_SEC', 'v_per_sec')):
        put(cname, (lambda arg=arg: fold(_default_expr(sat(), arg), vol_env())),
            (lambda arg=arg: _rt_default(src, 'ibldsp.voltage', 'saturation', arg)))
    ibc = lazy(lambda: _find_func(vol(), 'interpolate_bad_channels'))
    put('INTERP_P', lambda: fold(_default_expr(ibc(), 'p'), vol_env()),
        lambda: _rt_default(src, 'ibldsp.voltage', 'interpolate_bad_channels', 'p'))
    put('INTERP_KRIGING_UM', lambda: fold(_default_expr(ibc(), 'kriging_distance_um'), vol_env()),
        lambda: _rt_default(src, 'ibldsp.voltage', 'interpolate_bad_channels', 'kriging_distance_um'))
    # spikeglx
    sg_env = lazy(lambda: _module_env(_parse(src / 'spikeglx.py')))
    put('SAMPLE_SIZE', lambda: fold(sg_env()['SAMPLE_SIZE'], sg_env()), lambda: _import(src, 'spikeglx').SAMPLE_SIZE)
    # waveform extraction defaults
    wx = lazy(lambda: _parse(src / 'ibldsp' / 'waveform_extraction.py'))
    wx_env = lazy(lambda: _module_env(wx()))
    mk = lazy(lambda: _find_func(wx(), '_make_wfs_table'))
    for cname, arg in (('WF_MAX', 'max_wf'), ('WF_TROUGH_OFFSET', 'trough_offset'), ('WF_LENGTH', 'spike_length_samples')):
        put(cname, (lambda arg=arg: fold(_default_expr(mk(), arg), wx_env())),
            (lambda arg=arg: _rt_default(src, 'ibldsp.waveform_extraction', '_make_wfs_table', arg)))
    return T


# constants that are integers by nature (a float spelling such as 30000.0 or 2e3 is read as the integer)
INTEGRAL = {'NC', 'ADC_NP1_CHANNELS', 'ADC_NP1_CYCLES', 'ADC_NP2_CHANNELS', 'ADC_NP2_CYCLES', 'CONV_FS_AP', 'CONV_FS_LF',
            'CONV_OVERLAP', 'CONV_TAPER_DIV', 'CONV_WINDOW_SECS', 'DESTRIPE_TAPER', 'DESTRIPE_NBATCH', 'SAT_MUTE_WINDOW',
            'INTERP_KRIGING_UM', 'SAMPLE_SIZE', 'WF_MAX', 'WF_TROUGH_OFFSET', 'WF_LENGTH'} | \
           {f'GRID_{n}_{f}' for n in ('NP1', 'NP2', 'NPU') for f in ('DX', 'X0', 'DY', 'Y0')}


def _lean_value(v):
    if isinstance(v, bool):
        raise TypeError
    if isinstance(v, int):
        return 'Nat', str(v)
    if isinstance(v, float):
        fr = Fraction(repr(v))          # decimal reading of the literal, e.g. 0.98 -> 49/50
        return 'Nat × Nat', f'({fr.numerator}, {fr.denominator})'
    raise TypeError(type(v))


_LINE = re.compile(r'^def (\w+) : (Nat × Nat|Nat) := (.*)$')


def parse_generated(text):
    """name -> (type, value text) of a previously generated Constants.lean"""
    out = {}
    for line in text.splitlines():
        m = _LINE.match(line.strip())
        if m:
            out[m.group(1)] = (m.group(2), m.group(3))
    return out


def _py_value(ty, val):
    if ty == 'Nat':
        return int(val)
    m = re.match(r'\((\d+), (\d+)\)', val)
    return int(m.group(1)) / int(m.group(2))


def generate(src, previous_text=None):
    """returns (text, table, stale) — stale: {name: why} for constants kept from the previous generation"""
    stale = {}
    T = extract(src, stale)
    prev = parse_generated(previous_text) if previous_text else {}
    rows = {}
    for k, v in T.items():
        rows[k] = _lean_value(v)
    lost = {}
    for k, why in stale.items():
        if k in prev:
            rows[k] = prev[k]
            T[k] = _py_value(*prev[k])
        else:
            lost[k] = why
    if lost:   # no previous value to fall back on: the generated file cannot be produced
        raise KeyError('constants neither extracted nor previously generated: ' + '; '.join(f'{k}: {w}' for k, w in lost.items()))
    lines = ['/-',
             'GENERATED by harness/extract_consts.py from /repo/src on every run.  Do not edit.',
             'Float literals are given as the exact decimal fraction (numerator, denominator) of the source text.',
             '-/',
             'namespace IblVerif.Generated', '']
    for k in sorted(rows):
        ty, val = rows[k]
        lines.append(f'def {k} : {ty} := {val}')
    lines += ['', 'end IblVerif.Generated', '']
    return '\n'.join(lines), T, stale


if __name__ == '__main__':
    import sys
    text, T, stale = generate(sys.argv[1] if len(sys.argv) > 1 else '/repo/src')
    print(text)
    for k, w in stale.items():
        print(f'-- NOT RE-EXTRACTED {k}: {w}', file=sys.stderr)
