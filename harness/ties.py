"""
Secondary ties (DESIGN §11.7 / §12): per property, the source functions whose integer skeleton is re-translated into Lean on
every run (harness/pyfn2lean.py -> lean/IblVerif/Generated/Src<id>.lean) and the theorems `translated source = hand model`
(lean/IblVerif/Tie/<id>.lean) that are then re-checked against it.

A tie that checks means: for these functions the property theorems hold of what the source text says NOW (through the
translator), not only of a hand-written model compared on samples.  A tie that does not check (semantic change, or a rewrite
outside the translator's subset, or a proof that no longer goes through) is never a violation by itself: the correspondence
run of that property is escalated to its thorough depth and decides.
"""
from pathlib import Path

import framework as F
import pyfn2lean

SPECS = {
    'C17': {
        'items': [
            {'name': 'wg_firstlast', 'module': 'ibldsp/utils.py', 'function': 'WindowGenerator.firstlast', 'kind': 'fn',
             'generator': True, 'as': 'self_firstlast', 'elem': '(Int × Int)', 'params': ['self_ns', 'self_nswin', 'self_overlap']},
            {'name': 'wg_firstlast_valid', 'module': 'ibldsp/utils.py', 'function': 'WindowGenerator.firstlast_valid', 'kind': 'fn',
             'generator': True, 'elem': '(Int × Int × Int × Int)', 'params': ['self_ns', 'self_nswin', 'self_overlap']},
            {'name': 'wg_nwin', 'module': 'ibldsp/utils.py', 'function': 'WindowGenerator.__init__', 'kind': 'expr',
             'target': 'self_nwin', 'params': ['ns', 'nswin', 'overlap']},
        ],
        'theorems': ['IblVerif.Tie.C17.firstlast_eq', 'IblVerif.Tie.C17.firstlast_valid_eq', 'IblVerif.Tie.C17.nwin_eq'],
        'covers': 'WindowGenerator.firstlast (loop), firstlast_valid (per-window trimming), nwin (count formula)',
    },
    'C03': {
        'items': [
            {'name': 'conv_ind2save', 'module': 'neuropixel.py', 'function': 'NP2Converter._ind2save', 'kind': 'block',
             'outputs': ['ind2save[0]', 'ind2save[1]'], 'value': 'Int × Int',
             'params': ['self_samples_taper', 'self_samples_window', 'ratio', 'wg_iw', 'wg_nwin']},
            {'name': 'conv_ratio', 'module': 'neuropixel.py', 'function': 'NP2Converter.init_params', 'kind': 'expr', 'target': 'self_ratio'},
            {'name': 'conv_taper', 'module': 'neuropixel.py', 'function': 'NP2Converter.init_params', 'kind': 'expr', 'target': 'self_samples_taper'},
        ],
        'theorems': ['IblVerif.Tie.C03.ind2save_eq', 'IblVerif.Tie.C03.ratio_eq', 'IblVerif.Tie.C03.taper_eq'],
        'covers': 'NP2Converter._ind2save (kept sub-range of each window, AP path), init_params (ratio, taper)',
    },
    'C12': {
        'items': [
            {'name': 'conv_ind2save', 'module': 'neuropixel.py', 'function': 'NP2Converter._ind2save', 'kind': 'block',
             'outputs': ['ind2save[0]', 'ind2save[1]'], 'value': 'Int × Int',
             'params': ['self_samples_taper', 'self_samples_window', 'ratio', 'wg_iw', 'wg_nwin']},
            {'name': 'conv_ratio', 'module': 'neuropixel.py', 'function': 'NP2Converter.init_params', 'kind': 'expr', 'target': 'self_ratio'},
            {'name': 'conv_taper', 'module': 'neuropixel.py', 'function': 'NP2Converter.init_params', 'kind': 'expr', 'target': 'self_samples_taper'},
        ],
        'theorems': ['IblVerif.Tie.C12.ind2save_lf_eq', 'IblVerif.Tie.C12.params_eq'],
        'covers': 'NP2Converter._ind2save with ratio = 12 (kept LF sub-range of each window), init_params',
    },
    'C18': {
        'items': [
            {'name': 'convolve_first', 'module': 'ibldsp/fourier.py', 'function': 'convolve', 'kind': 'expr', 'target': 'first'},
            {'name': 'convolve_last', 'module': 'ibldsp/fourier.py', 'function': 'convolve', 'kind': 'expr', 'target': 'last'},
        ],
        'theorems': ['IblVerif.Tie.C18.same_first_eq', 'IblVerif.Tie.C18.same_last_eq'],
        'covers': "fourier.convolve: crop indices of mode='same'",
    },
    'C13': {
        'items': [
            {'name': 'wfs_chunk', 'module': 'ibldsp/waveform_extraction.py', 'function': 'write_wfs_chunk', 'kind': 'block',
             'until': 'extract_wfs_array', 'outputs': ['sample', 's0 - offset', 's1 + spike_length_samples - trough_offset'],
             'value': 'Int × Int × Int',
             'params': ['sr_sl_0', 'sr_sl_1', 'i_chunk', 'trough_offset', 'wf_flat_sample', 'chunksize_samples', 'spike_length_samples']},
        ],
        'theorems': ['IblVerif.Tie.C13.chunk_local_eq'],
        'covers': 'write_wfs_chunk: chunk-local spike sample and the bounds of the snippet read for a chunk',
    },
    'C06': {
        'items': [
            {'name': 'destripe_worker', 'module': 'ibldsp/voltage.py', 'function': 'decompress_destripe_cbin.my_function', 'kind': 'events',
             'assume': {'compute_rms': True},
             'params': ['i_chunk', 'n_chunk', 'CHUNK_SIZE', 'NBATCH', 'SAMPLES_TAPER', '_sr_ns', 'offset', 'nc_out', 'nbytes',
                        'rms_offset', 'time_offset', 'ncv', 'rms_nbytes', 'ns2add'],
             'events': [
                 [r'^fid\.seek\((.*)\)$', 'seek', [r'\1']],
                 [r'^aid\.seek\((.*)\)$', 'aseek', [r'\1']],
                 [r'^tid\.seek\((.*)\)$', 'tseek', [r'\1']],
                 [r'^np\.tile\(.*\)\.tofile\(\s*fid\s*\)$', 'pad', ['ns2add']],
                 [r'\.tofile\(fid\)$', 'write', ['first_s', 'last_s', 'ind2save[0]', 'ind2save[1]']],
                 [r'\.tofile\(aid\)$', 'rms', ['first_s', 'last_s']],
                 [r'\.tofile\(tid\)$', 'time', ['first_s', 'last_s']],
             ]},
            {'name': 'destripe_chunk_size', 'module': 'ibldsp/voltage.py', 'function': 'decompress_destripe_cbin', 'kind': 'expr',
             'target': 'CHUNK_SIZE', 'params': ['sr_ns', 'nprocesses']},
        ],
        'theorems': ['IblVerif.Tie.C06.worker_eq', 'IblVerif.Tie.C06.chunk_size_eq'],
        'covers': 'decompress_destripe_cbin.my_function: start batch, seek positions, the while-loop of batches with its kept rows, '
                  'stop rule and padding (sequence of file events), CHUNK_SIZE',
    },
    'C08': {
        'items': [
            {'name': 'rc2xy_x', 'module': 'neuropixel.py', 'function': 'rc2xy', 'kind': 'expr', 'target': 'x', 'free': ['grid'],
             'params': ['col', 'grid_DX', 'grid_X0']},
            {'name': 'rc2xy_y', 'module': 'neuropixel.py', 'function': 'rc2xy', 'kind': 'expr', 'target': 'y', 'free': ['grid'],
             'params': ['row', 'grid_DY', 'grid_Y0']},
            {'name': 'xy2rc_col', 'module': 'neuropixel.py', 'function': 'xy2rc', 'kind': 'expr', 'target': 'col', 'free': ['grid'],
             'fraction': True, 'value': 'Int × Int', 'params': ['x', 'grid_DX', 'grid_X0']},
            {'name': 'xy2rc_row', 'module': 'neuropixel.py', 'function': 'xy2rc', 'kind': 'expr', 'target': 'row', 'free': ['grid'],
             'fraction': True, 'value': 'Int × Int', 'params': ['y', 'grid_DY', 'grid_Y0']},
            {'name': 'adc_of', 'module': 'neuropixel.py', 'function': 'adc_shifts', 'kind': 'expr', 'target': 'adc',
             'free': ['adc_channels', 'n_cycles'], 'elementwise': True, 'params': ['i', 'adc_channels']},
            {'name': 'geom_flip_x', 'module': 'spikeglx.py', 'function': 'geometry_from_meta', 'kind': 'expr', 'target': "th['x']",
             'free': ['th', 'cm'], 'params': ['th_x']},
            {'name': 'geom_tip_y', 'module': 'spikeglx.py', 'function': 'geometry_from_meta', 'kind': 'expr', 'target': "th['y']",
             'free': ['th', 'cm'], 'params': ['th_y']},
            {'name': 'geom_flip_col', 'module': 'spikeglx.py', 'function': 'geometry_from_meta', 'kind': 'expr', 'target': "th['col']",
             'free': ['th', 'cm'], 'elementwise': True, 'params': ['cm_col', 'cm_row']},
        ],
        'theorems': ['IblVerif.Tie.C08.rc2xy_eq', 'IblVerif.Tie.C08.xy2rc_eq', 'IblVerif.Tie.C08.adc_eq',
                     'IblVerif.Tie.C08.siteCols_geomMap', 'IblVerif.Tie.C08.siteCols_shankMap'],
        'covers': 'neuropixel.rc2xy / xy2rc (grid arithmetic), the ADC number formula of adc_shifts, the NP1 flip / tip offset / column '
                  'flip of spikeglx.geometry_from_meta (pointwise)',
    },
    'C09': {
        'items': [
            {'name': 'np_version', 'module': 'spikeglx.py', 'function': '_get_neuropixel_version_from_meta', 'kind': 'fn',
             'option_return': True, 'value': 'Option String', 'optional': {'md_imDatPrb_type': 'md_has_imDatPrb_type'},
             'params': ['md_has_typeEnabled', 'md_has_imDatPrb_type', 'md_imDatPrb_type', 'md_has_imDatPrb_port', 'md_has_imDatPrb_slot']},
        ],
        'theorems': ['IblVerif.Tie.C09.version_eq_int', 'IblVerif.Tie.C09.version_eq_absent'],
        'covers': '_get_neuropixel_version_from_meta (probe-type decision table; integer or absent imDatPrb_type)',
    },
    'C11': {
        'items': [
            {'name': 'online_ns', 'module': 'spikeglx.py', 'function': 'OnlineReader.ns', 'kind': 'fn',
             'params': ['self_file_bin_stat_st_size', 'self_dtype_itemsize', 'self_nc']},
            {'name': 'open_ftsec', 'module': 'spikeglx.py', 'function': 'Reader.open', 'kind': 'expr', 'target': 'ftsec',
             'occurrence': 1, 'fraction': True, 'value': 'Int × Int', 'fractions': {'self_fs': ['fs_num', 'fs_den']},
             'params': ['self_file_bin_stat_st_size', 'self_dtype_itemsize', 'self_nc', 'fs_num', 'fs_den']},
            {'name': 'reader_ns', 'module': 'spikeglx.py', 'function': 'Reader.ns', 'kind': 'fn',
             'assume': {'self.meta is None': False},
             'fractions': {'self_meta_fileTimeSecs': ['fts_num', 'fts_den'], 'self_fs': ['fs_num', 'fs_den']},
             'params': ['fts_num', 'fts_den', 'fs_num', 'fs_den']},
        ],
        'theorems': ['IblVerif.Tie.C11.online_ns_eq', 'IblVerif.Tie.C11.open_ftsec_eq', 'IblVerif.Tie.C11.ns_after_open_eq'],
        'covers': 'OnlineReader.ns, the duration written by Reader.open on a size mismatch, Reader.ns (composition = complete frames)',
    },
}


def _load_extra():
    """per-property spec files harness/tiespecs/cXX.py (each defines SPEC = {'items', 'theorems', 'covers'}); when a property
    has both, the items / theorems of the file are appended to the ones above (one generated Src<id>.lean, one Tie/<id>.lean)"""
    import importlib.util
    d = Path(__file__).resolve().parent / 'tiespecs'
    for f in sorted(d.glob('c[0-9][0-9].py')) if d.is_dir() else []:
        pid = f.stem.upper()
        sp = importlib.util.spec_from_file_location(f'tiespecs_{f.stem}', f)
        m = importlib.util.module_from_spec(sp)
        sp.loader.exec_module(m)
        extra = m.SPEC
        if pid in SPECS:
            base = SPECS[pid]
            SPECS[pid] = {'items': base['items'] + extra['items'], 'theorems': base['theorems'] + extra['theorems'],
                          'covers': base['covers'] + '; ' + extra['covers']}
        else:
            SPECS[pid] = extra


_load_extra()


def run(ctx):
    pid = ctx.pid
    spec = SPECS[pid]
    out = F.LEAN / 'IblVerif' / 'Generated' / f'Src{pid}.lean'
    state = {}

    def gen():
        with F.LakeLock():
            res = pyfn2lean.generate(F.SRC, spec['items'], out, pid)
        state['res'] = res
        bad = {k: m for k, (ok, m, _) in res.items() if not ok}
        return (not bad), '; '.join(f'{k}: {m}' for k, m in bad.items())
    r = F.tie_check(pid, gen, [f'IblVerif.Tie.{pid}'], spec['theorems'])
    r['covers'] = spec['covers']
    r['translated'] = {k: ('ok' if ok else m) for k, (ok, m, _) in state.get('res', {}).items()}
    r['assumption'] = ('float expressions in the source (int(np.ceil(a / b)) ...) are read as exact rationals; '
                       'statements outside the integer skeleton are dropped (see harness/pyfn2lean.py)')
    return r


if __name__ == '__main__':
    # /venv/bin/python harness/ties.py Cxx   — regenerate Src<id>.lean from /repo (or $IBL_REPO), build Tie/<id>.lean, audit; prints the result
    import json
    import sys

    class _C:
        pass
    F.setup_paths()
    c = _C()
    c.pid = sys.argv[1].upper()
    print(json.dumps(run(c), indent=1, default=str))
