"""
Secondary ties (DESIGN §11.7 / §12): per property, the source functions whose integer skeleton is re-translated into Lean on
every run (harness/pyfn2lean.py -> lean/IblVerif/Generated/Src<id>.lean) and the theorems `translated source = hand model`
(lean/IblVerif/Tie/<id>.lean) that are then re-checked against it.

A tie that checks means: for these functions the property theorems hold of what the source text says NOW (through the
translator), not only of a hand-written model compared on samples.  A tie that does not check (semantic change, or a rewrite
outside the translator's subset, or a proof that no longer goes through) is never a violation by itself: the correspondence
run of that property is escalated to its thorough depth and decides.
"""
from pathlib import Path

import framework as F
import pyfn2lean

SPECS = {
    'C17': {
        'items': [
            {'name': 'wg_firstlast', 'module': 'ibldsp/utils.py', 'function': 'WindowGenerator.firstlast', 'kind': 'fn',
             'generator': True, 'as': 'self_firstlast', 'elem': '(Int × Int)', 'params': ['self_ns', 'self_nswin', 'self_overlap']},
            {'name': 'wg_firstlast_valid', 'module': 'ibldsp/utils.py', 'function': 'WindowGenerator.firstlast_valid', 'kind': 'fn',
             'generator': True, 'elem': '(Int × Int × Int × Int)', 'params': ['self_ns', 'self_nswin', 'self_overlap']},
            {'name': 'wg_nwin', 'module': 'ibldsp/utils.py', 'function': 'WindowGenerator.__init__', 'kind': 'expr',
             'target': 'self_nwin', 'params': ['ns', 'nswin', 'overlap']},
        ],
        'theorems': ['IblVerif.Tie.C17.firstlast_eq', 'IblVerif.Tie.C17.firstlast_valid_eq', 'IblVerif.Tie.C17.nwin_eq'],
        'covers': 'WindowGenerator.firstlast (loop), firstlast_valid (per-window trimming), nwin (count formula)',
    },
}


def run(ctx):
    pid = ctx.pid
    spec = SPECS[pid]
    out = F.LEAN / 'IblVerif' / 'Generated' / f'Src{pid}.lean'
    state = {}

    def gen():
        with F.LakeLock():
            res = pyfn2lean.generate(F.SRC, spec['items'], out, pid)
        state['res'] = res
        bad = {k: m for k, (ok, m, _) in res.items() if not ok}
        return (not bad), '; '.join(f'{k}: {m}' for k, m in bad.items())
    r = F.tie_check(pid, gen, [f'IblVerif.Tie.{pid}'], spec['theorems'])
    r['covers'] = spec['covers']
    r['translated'] = {k: ('ok' if ok else m) for k, (ok, m, _) in state.get('res', {}).items()}
    r['assumption'] = ('float expressions in the source (int(np.ceil(a / b)) ...) are read as exact rationals; '
                       'statements outside the integer skeleton are dropped (see harness/pyfn2lean.py)')
    return r
