"""usage: write_meta.py <seed id> <property> <kind> <breaks> <needs>   — writes seeded/<id>/meta.json from /tmp/confirm_<Cxx>_<r>.json"""
import json, sys
from pathlib import Path
sid, prop, kind, breaks, needs = sys.argv[1:6]
p, r = sid.split('_')
c = json.loads(Path(f'/tmp/confirm_{p}_{r}.json').read_text())
meta = {'id': sid, 'property': prop, 'breaks': breaks, 'needs': needs, 'kind': kind,
        'author': 'independent sub-agent given only the property text and a scratch worktree',
        'confirmed': {'how': 'fresh git worktree of /repo HEAD; git apply patch.diff; demo; full test suite (tests missing from the stable set re-run alone under a lock: concurrent suites disturb each other); git apply -R; demo',
                      'tests_with_patch': c.get('suite_summary'), 'stable_missing_after_rerun': c.get('stable_missing'),
                      'rerun': c.get('rerun_summary'),
                      'demo_with_patch': f"exit {c['demo_with_patch']['exit']}: " + c['demo_with_patch']['tail'][-300:],
                      'demo_without_patch': f"exit {c['demo_without_patch']['exit']}", 'confirmed': c.get('confirmed')}}
Path(f'/verif/seeded/{sid}/meta.json').write_text(json.dumps(meta, indent=1))
print(sid, 'confirmed' if c.get('confirmed') else 'NOT CONFIRMED', c.get('stable_missing'))
