"""
NumPy stand-in for the two pyfftw entry points used by ibldsp.voltage.decompress_destripe_cbin
(pyfftw is not installable in the sandbox; see properties.jsonl C06 "hook_needed").

Call surface reproduced:
    pyfftw.empty_aligned(shape, dtype=...)                      -> uninitialised ndarray
    pyfftw.FFTW(inp, out, axes=(1,), direction=..., threads=n)  -> callable object; obj(x) copies x into the
        input buffer's dtype and returns the real FFT ('FFTW_FORWARD', float32 -> complex64) or the inverse real
        FFT ('FFTW_BACKWARD', complex64 -> float32, length = last axis of the real buffer) along `axes`.
As in pyfftw the backward transform is normalised (irfft(rfft(x)) == x).  The result is a fresh array.
"""
import numpy as np

__version__ = '0.0-verif-stub'


def empty_aligned(shape, dtype='float64', order='C', n=None):
    return np.empty(shape, dtype=dtype, order=order)


def zeros_aligned(shape, dtype='float64', order='C', n=None):
    return np.zeros(shape, dtype=dtype, order=order)


class FFTW:
    def __init__(self, input_array, output_array, axes=(-1,), direction='FFTW_FORWARD', flags=(), threads=1,
                 planning_timelimit=None, normalise_idft=True, ortho=False):
        self.input_array = input_array
        self.output_array = output_array
        self.axes = tuple(axes)
        self.direction = direction
        if len(self.axes) != 1:
            raise NotImplementedError('stub: one transform axis only')
        if direction not in ('FFTW_FORWARD', 'FFTW_BACKWARD'):
            raise ValueError(direction)

    def __call__(self, input_array=None, output_array=None, normalise_idft=True, ortho=False):
        x = self.input_array if input_array is None else np.asarray(input_array)
        ax = self.axes[0]
        if x.shape != self.input_array.shape:
            raise ValueError('Invalid shape: the new input array should be the same shape as the input array '
                             'used to instantiate the object.')
        x = x.astype(self.input_array.dtype, copy=False)
        if self.direction == 'FFTW_FORWARD':
            out = np.fft.rfft(x, axis=ax) if not np.iscomplexobj(x) else np.fft.fft(x, axis=ax)
        else:
            if np.iscomplexobj(self.output_array):
                out = np.fft.ifft(x, axis=ax)
            else:
                out = np.fft.irfft(x, n=self.output_array.shape[ax], axis=ax)
        return out.astype(self.output_array.dtype, copy=False)
