#!/bin/sh
# usage: harness/run_all.sh <quick|thorough> [seed ...]   — runs every claimed check, prints one line per run
HERE="$(cd "$(dirname "$0")/.." && pwd)"; cd "$HERE" || exit 2
TIER=${1:-quick}; shift
SEEDS=${*:-0}
for s in $SEEDS; do
  for p in $(python3 -c "import json;print(' '.join(c['property_id'] for c in json.load(open('MANIFEST.json'))['checks']))"); do
    t0=$(date +%s)
    out=$(VERIF_SEED=$s ./check $p $TIER 2>&1); rc=$?
    echo "seed=$s $p rc=$rc $(($(date +%s)-t0))s $(echo "$out" | grep -v KNOWN-FINDING | tail -1 | cut -c1-160)"
  done
done
