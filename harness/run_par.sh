#!/bin/sh
# usage: harness/run_par.sh <quick|thorough> <jobs> <seed> [Cxx ...]   — runs the claimed checks <jobs> at a time, one line per run
HERE="$(cd "$(dirname "$0")/.." && pwd)"; cd "$HERE" || exit 2
TIER=${1:-quick}; J=${2:-4}; S=${3:-0}; shift 3 2>/dev/null
PROPS=${*:-$(python3 -c "import json;print(' '.join(c['property_id'] for c in json.load(open('MANIFEST.json'))['checks']))")}
echo $PROPS | tr ' ' '\n' | xargs -P "$J" -I{} sh -c 't0=$(date +%s); out=$(VERIF_SEED='"$S"' ./check {} '"$TIER"' 2>&1); rc=$?; echo "seed='"$S"' {} rc=$rc $(($(date +%s)-t0))s $(echo "$out" | grep -v KNOWN-FINDING | tail -1 | cut -c1-160)"'
