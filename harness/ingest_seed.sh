#!/bin/sh
# usage: harness/ingest_seed.sh <round-letter> <Cxx> ...   copies /tmp/seed_<r>/<Cxx>/_seed to seeded/<Cxx>_<r>/ and confirms it (background-safe)
R=$1; shift
for P in "$@"; do
  D=/verif/seeded/${P}_$R
  mkdir -p $D
  (cd /tmp/seed_$R/$P && git diff -- src > /tmp/seed_$R/$P/_seed/patch.check.diff)
  cmp -s /tmp/seed_$R/$P/_seed/patch.check.diff /tmp/seed_$R/$P/_seed/patch.diff || echo "NOTE $P: delivered patch.diff differs from worktree diff; using worktree diff" 
  cp /tmp/seed_$R/$P/_seed/patch.check.diff /tmp/seed_$R/$P/_seed/patch.diff; rm /tmp/seed_$R/$P/_seed/patch.check.diff
  [ -d /tmp/seed_$R/$P/_seed ] || { echo "no delivery for $P"; continue; }; rsync -a --exclude '__pycache__' --exclude '*.log' /tmp/seed_$R/$P/_seed/ $D/
  /venv/bin/python /verif/harness/confirm_seed.py $D /tmp/confirm_${P}_$R.json > /tmp/confirm_${P}_$R.out 2>&1 &
done
wait
for P in "$@"; do echo "$P: $(cat /tmp/confirm_${P}_$R.out | tail -1)"; done
