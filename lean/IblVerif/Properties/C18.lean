/-
C18 — Spectral helpers equal their textbook definitions for every length.

Property theorems only (helper lemmas: `Lemmas/SpecIdx.lean`, `Analysis/Spec.lean`).  The model is the generic
transcription `Model/SpecIdx.lean` of `ibldsp.fourier`; here it is instantiated with the textbook DFT sums
(`Spec.mathFFT`, the assumed law of NumPy's FFT, identified with Mathlib's `ZMod.dft` in `fft_eq_zmod_dft`) and with
`ℝ` (`Spec.realFn`).  Every statement is for ALL lengths (all lists), every parity of the length and of the padded
FFT size — the property's own quantifier; N-d arrays act fibre by fibre (correspondence run).
-/
import IblVerif.Analysis.Spec

open ZMod
open scoped ZMod Real

namespace IblVerif.C18
open IblVerif.SpecIdx IblVerif.Spec

/-! ### the fast-size helper -/

/-- `ns_optim_fft(n)` is the smallest number of the form `2^a 3^b` not below `n` — for every `n` up to `14155776 = 2^19·3^3`,
the largest table entry below `3^15`.  (Full statement, without the bound on `n`: false, see
`nsOptim_table_gap_counterexample`; known finding `nsoptim-table-gap`.)  Proved from the table construction
(sorted, duplicate-free list of all `2^a 3^b`, `a < 25`, `b < 15`), not by enumerating `n`. -/
theorem nsOptim_least (n : Nat) (hn : n ≤ 14155776) :
    ∃ r, nsOptim n = some r ∧ Smooth3 r ∧ n ≤ r ∧ ∀ k, n ≤ k → k < r → ¬ Smooth3 k := by
  have hmem : 14155776 ∈ sizes := (mem_sizes _).mpr ⟨19, 3, by decide, by decide, by decide⟩
  obtain ⟨r, hr⟩ := nsOptimIn_isSome sizes n 14155776 hmem hn
  obtain ⟨h1, h2, h3⟩ := nsOptimIn_spec sizes sorted_sizes n r hr
  refine ⟨r, hr, ?_, h2, ?_⟩
  · obtain ⟨a, b, _, _, rfl⟩ := (mem_sizes r).mp h1
    exact ⟨a, b, rfl⟩
  · intro k hnk hkr hk
    have hr' : r ≤ 14155776 := h3 _ hmem hn
    have : k ∈ sizes := smooth_lt_mem_sizes k hk (by
      have : (14155776 : Nat) < 3 ^ 15 := by decide
      omega)
    have := h3 k this hnk
    omega

/-- For every `n`: when `ns_optim_fft` returns, the result is `2^a 3^b`, not below `n`, and the only numbers `2^a 3^b` it can
have skipped are `≥ 3^15`; it returns (no `IndexError`) exactly for `n ≤ 2^24·3^14`. -/
theorem nsOptim_defined (n : Nat) :
    (∀ r, nsOptim n = some r → Smooth3 r ∧ n ≤ r ∧ ∀ k, n ≤ k → k < r → Smooth3 k → 3 ^ 15 ≤ k) ∧
    (n ≤ 2 ^ 24 * 3 ^ 14 → ∃ r, nsOptim n = some r) ∧
    (2 ^ 24 * 3 ^ 14 < n → nsOptim n = none) := by
  refine ⟨?_, ?_, ?_⟩
  · intro r hr
    obtain ⟨h1, h2, h3⟩ := nsOptimIn_spec sizes sorted_sizes n r hr
    refine ⟨?_, h2, ?_⟩
    · obtain ⟨a, b, _, _, rfl⟩ := (mem_sizes r).mp h1
      exact ⟨a, b, rfl⟩
    · intro k hnk hkr hk
      by_contra hlt
      have := h3 k (smooth_lt_mem_sizes k hk (by omega)) hnk
      omega
  · intro hn
    exact nsOptimIn_isSome sizes n _ ((mem_sizes _).mpr ⟨24, 14, by decide, by decide, rfl⟩) hn
  · intro hn
    apply nsOptimIn_none
    intro y hy
    obtain ⟨a, b, ha, hb, rfl⟩ := (mem_sizes y).mp hy
    have h2 : 2 ^ a ≤ 2 ^ 24 := Nat.pow_le_pow_right (by decide) (by unfold POW2 at ha; omega)
    have h3 : 3 ^ b ≤ 3 ^ 14 := Nat.pow_le_pow_right (by decide) (by unfold POW3 at hb; omega)
    exact Nat.lt_of_le_of_lt (Nat.mul_le_mul h2 h3) hn

/-- The code as it stands is not minimal above the bound of `nsOptim_least`: the table misses `3^15 = 14348907`. -/
theorem nsOptim_table_gap_counterexample :
    nsOptim (3 ^ 15) = some 15116544 ∧ Smooth3 (3 ^ 15) ∧ 3 ^ 15 < 15116544 := by
  refine ⟨by decide +kernel, ⟨0, 15, by decide⟩, by decide⟩

example : nsOptim 7 = some 8 ∧ nsOptim 9 = some 9 ∧ nsOptim 10 = some 12 ∧ nsOptim 243 = some 243 := by
  decide +kernel

/-! ### convolution -/

/-- `convolve(x, w, mode="full")` — zero-pad to the fast size, `rfft` product, `irfft` at the padded length, crop — is the
direct convolution `Σ_j x[j]·w[i−j]`, `i < nsx + nsw`, for every pair of lengths and every padded size `ns` the helper
returns (odd ones, i.e. powers of three, included). -/
theorem conv_full (x w : List ℝ) (ns : Nat) (h : nsOptim (x.length + w.length) = some ns) :
    convolve mathFFT .full x w = convSpec .full x w := by
  rw [convolve_full_eq x w ns h]
  unfold convSpec
  simp only [h]

/-- The `nsx + nsw`-th sample `full` mode returns is zero: the output is the `nsx + nsw − 1` samples of the direct
convolution followed by one zero. -/
theorem conv_full_trailing_zero (x w : List ℝ) (i : Nat) (hi : x.length + w.length ≤ i + 1) :
    linConv x w i = 0 := linConv_zero_of_ge x w i hi

/-- `convolve(x, w, mode="same")` is the `nsx` samples of the direct convolution centred on the kernel
(offset `(nsw − 1) / 2`), for kernels of even and odd length. -/
theorem conv_same_centred (x w : List ℝ) (ns : Nat) (h : nsOptim (x.length + w.length) = some ns)
    (hw : 1 ≤ w.length) :
    convolve mathFFT .same x w = convSpec .same x w := by
  rw [convolve_same_eq x w ns h hw]
  unfold convSpec
  simp only [h]

/-- The crop of `convolve` at index level: which padded-output samples are returned. -/
theorem conv_crop_indices (nsx nsw ns : Nat) (h : nsOptim (nsx + nsw) = some ns) (hw : 1 ≤ nsw) :
    convolve idxFFT .full (List.replicate nsx 0) (List.replicate nsw 0) = .val (List.range (nsx + nsw)) ∧
    convolve idxFFT .same (List.replicate nsx 0) (List.replicate nsw 0)
      = .val ((List.range nsx).map (· + (nsw - 1) / 2)) :=
  crop_indices nsx nsw ns h hw

-- non-vacuity: a pair whose padded size is odd (4 + 5 → 9) and one whose padded size is even (5 + 5 → 12)
example : nsOptim (([1, 2, 3, 4] : List ℝ).length + ([1, 0, -1, 2, 5] : List ℝ).length) = some 9 := by decide +kernel
example : nsOptim (([1, 2, 3, 4, 5] : List ℝ).length + ([1, 0, -1, 2, 5] : List ℝ).length) = some 12 := by
  decide +kernel

/-! ### half-spectrum reduction / expansion -/

/-- `freduce(fexpand(H, ns)) = H` for every half spectrum of `ns // 2 + 1` bins, `ns` even or odd. -/
theorem reduce_expand_id {α : Type} (conj : α → α) (H : List α) (ns : Nat) (h1 : 1 ≤ ns)
    (hH : H.length = ns / 2 + 1) :
    ∃ E, fexpand conj H ns = .val E ∧ E.length = ns ∧ freduce E = .val H :=
  reduce_expand conj H ns h1 hH

/-- `fexpand(freduce(F), ns) = F` for every conjugate-symmetric full spectrum (`F[ns−p] = conj F[p]`), `ns` even or odd. -/
theorem expand_reduce_id {α : Type} (conj : α → α) (hinv : ∀ a, conj (conj a) = a) (F : List α) (ns : Nat)
    (h1 : 1 ≤ ns) (hF : F.length = ns) (hsym : ∀ p, 0 < p → p < ns → F[ns - p]? = (F[p]?).map conj) :
    ∃ H, freduce F = .val H ∧ H.length = ns / 2 + 1 ∧ fexpand conj H ns = .val F :=
  expand_reduce conj hinv F ns h1 hF hsym

/-- Spectra of real signals are conjugate-symmetric (so `expand_reduce_id` applies to them), and their reduction is the
`rfft`: for every real `x`, `freduce(fft(x)) = rfft(x)` and `fexpand(rfft(x), n) = fft(x)`. -/
theorem real_spectrum_conj_symmetric (x : List ℝ) (h1 : 1 ≤ x.length) :
    (∀ p, 0 < p → p < x.length →
      (mathFFT.fft (x.map mathFFT.ofReal))[x.length - p]? = ((mathFFT.fft (x.map mathFFT.ofReal))[p]?).map mathFFT.conj) ∧
    freduce (mathFFT.fft (x.map mathFFT.ofReal)) = .val (mathFFT.rfft x) ∧
    fexpand mathFFT.conj (mathFFT.rfft x) x.length = .val (mathFFT.fft (x.map mathFFT.ofReal)) := by
  have hlen : (mathFFT.fft (x.map mathFFT.ofReal)).length = x.length := by simp [mathFFT]
  have hsym : ∀ p, 0 < p → p < x.length →
      (mathFFT.fft (x.map mathFFT.ofReal))[x.length - p]? = ((mathFFT.fft (x.map mathFFT.ofReal))[p]?).map mathFFT.conj :=
    fun p h0 hp => (fft_real_conj_symm x p h0 hp).2
  obtain ⟨H, hH1, _, hH3⟩ := expand_reduce mathFFT.conj (fun a => by simp [mathFFT]) _ x.length h1 hlen hsym
  have hH : H = mathFFT.rfft x := by
    rw [freduce_val _ (by omega), hlen, take_fft_eq_rfft x h1] at hH1
    cases hH1; rfl
  subst hH
  exact ⟨hsym, hH1, hH3⟩

example : fexpand (fun p : Nat × Bool => (p.1, !p.2)) [(0, false), (1, false), (2, false)] 5
    = .val [(0, false), (1, false), (2, false), (2, true), (1, true)] := by simp [fexpand]
example : fexpand (fun p : Nat × Bool => (p.1, !p.2)) [(0, false), (1, false), (2, false), (3, false)] 6
    = .val [(0, false), (1, false), (2, false), (3, false), (2, true), (1, true)] := by simp [fexpand]

/-! ### frequency scale -/

/-- `fscale(ns, si)` lists, bin by bin, `p/(ns·si)` for `p ≤ ns/2` and `−(ns−p)/(ns·si)` above: the DFT bin frequencies
(Nyquist positive), `ns` of them; `one_sided=True` gives the first `ns // 2 + 1`.  For every scalar type. -/
theorem fscale_bins {R : Type} [Div R] [Neg R] (F : RealFn R) (ns : Nat) (si : R) (h1 : 1 ≤ ns) :
    (fscale F ns si false).length = ns ∧
    (∀ p, p < ns → (fscale F ns si false)[p]? = some (if p ≤ ns / 2 then F.ofNat p / F.ofNat ns / si
      else -(F.ofNat (ns - p) / F.ofNat ns / si))) ∧
    fscale F ns si true = (List.range (ns / 2 + 1)).map fun k => F.ofNat k / F.ofNat ns / si :=
  ⟨(fscale_length F ns si h1).1, fun p hp => fscale_getElem? F ns si h1 p hp, by unfold fscale; simp⟩

/-- …and these are the frequencies of the DFT basis: the complex exponential of frequency `fscale[p]` sampled every `si`
seconds is the `p`-th DFT basis vector `exp(2πi·p·t/ns)`. -/
theorem fscale_alias (ns p t : Nat) (si : ℝ) (hsi : si ≠ 0) (hp : p < ns) :
    ∃ f : ℝ, (fscale realFn ns si false)[p]? = some f ∧
      Complex.exp (2 * π * Complex.I * (f : ℂ) * ((t : ℝ) * si : ℝ)) = Complex.exp (2 * π * Complex.I * p * t / ns) :=
  ⟨_, fscale_getElem? realFn ns si (by omega) p hp, fscale_alias_aux ns p t si hsi (by omega) hp⟩

/-! ### cosine soft threshold and frequency-domain filters -/

/-- `fcn_cosine([b0, b1])` is monotone, `0` up to `b0`, `1` from `b1` on, and stays within `[0, 1]`. -/
theorem cosine_monotone_0_1 (b0 b1 : ℝ) (hb : b0 < b1) :
    (∀ x y, x ≤ y → fcnCosine realFn b0 b1 x ≤ fcnCosine realFn b0 b1 y) ∧
    (∀ x, x ≤ b0 → fcnCosine realFn b0 b1 x = 0) ∧
    (∀ x, b1 ≤ x → fcnCosine realFn b0 b1 x = 1) ∧
    (∀ x, 0 ≤ fcnCosine realFn b0 b1 x ∧ fcnCosine realFn b0 b1 x ≤ 1) := by
  refine ⟨fun x y h => fcnCosine_mono b0 b1 hb h, fun x h => fcnCosine_low b0 b1 x hb h,
    fun x h => fcnCosine_high b0 b1 x hb h, fun x => ⟨?_, ?_⟩⟩
  · rw [← fcnCosine_low b0 b1 (min x b0) hb (min_le_right _ _)]
    exact fcnCosine_mono b0 b1 hb (min_le_left _ _)
  · rw [← fcnCosine_high b0 b1 (max x b1) hb (le_max_right _ _)]
    exact fcnCosine_mono b0 b1 hb (le_max_left _ _)

example : fcnCosine realFn 1 2 (3 / 2) = 1 / 2 := by
  rw [fcnCosine_eq 1 2 _ (by norm_num)]
  have : qpos 1 2 (3 / 2) = 1 / 2 := by unfold qpos; norm_num
  rw [this, show (1 / 2 : ℝ) * π = π / 2 by ring, Real.cos_pi_div_two]; norm_num

/-- Low-pass plus high-pass with the same corners is the identity, for every non-empty time series, sampling interval
and corners. -/
theorem lp_plus_hp_id (ts : List ℝ) (h1 : 1 ≤ ts.length) (si b0 b1 : ℝ) :
    ∃ lo hi, lp mathFFT realFn ts si b0 b1 = .val lo ∧ hp mathFFT realFn ts si b0 b1 = .val hi ∧
      List.zipWith (· + ·) lo hi = ts :=
  lp_add_hp ts h1 si b0 b1

/-- Band-pass is the product of the two responses: `bp(ts, [b0, b1, b2, b3]) = hp(lp(ts, [b2, b3]), [b0, b1])`. -/
theorem bp_eq_hp_lp (ts : List ℝ) (h1 : 1 ≤ ts.length) (si b0 b1 b2 b3 : ℝ) :
    ∃ mid out, lp mathFFT realFn ts si b2 b3 = .val mid ∧ hp mathFFT realFn mid si b0 b1 = .val out ∧
      bp mathFFT realFn ts si b0 b1 b2 b3 = .val out :=
  Spec.bp_eq_hp_lp ts h1 si b0 b1 b2 b3

/-! ### explicit DFTs -/

/-- The matrix DFT `dft(x)` (all `ns` coefficients for complex input, `ns // 2 + 1` for real input) is the FFT / real FFT. -/
theorem dft_eq_fft :
    (∀ x : List ℂ, SpecIdx.dft mathFFT realFn x true = mathFFT.fft x) ∧
    (∀ x : List ℝ, SpecIdx.dft mathFFT realFn (x.map Complex.ofReal) false = mathFFT.rfft x) :=
  ⟨dft_complex, dft_real⟩

/-- …where "FFT" is Mathlib's discrete Fourier transform on `ZMod n`. -/
theorem fft_eq_zmod_dft (x : List ℂ) [NeZero x.length] :
    mathFFT.fft x = (List.range x.length).map fun (k : ℕ) =>
      𝓕 (fun z : ZMod x.length => x.getD z.val 0) ((k : ℕ) : ZMod x.length) :=
  fft_eq_zmod x

/-- On a full regular `n0 × n1` grid (site `a·n1 + b` at normalised position `(a/n0, b/n1)`) `dft2` is the 2-D FFT computed
as 1-D DFTs along the columns then along the rows. -/
theorem dft2_grid_separable (x : List ℂ) (n0 n1 nk nl : ℕ) (hx : x.length = n0 * n1) (hn1 : n1 ≠ 0) :
    dft2 mathFFT realFn x ((List.range (n0 * n1)).map fun j => ((j / n1 : ℕ) : ℝ) / n0)
        ((List.range (n0 * n1)).map fun j => ((j % n1 : ℕ) : ℝ) / n1) nk nl
      = (List.range nk).map fun k => (List.range nl).map fun l =>
          fwdF n0 (fun a => fwdF n1 (fun b => sig x (a * n1 + b)) l) k :=
  dft2_grid x n0 n1 nk nl hx hn1

end IblVerif.C18
