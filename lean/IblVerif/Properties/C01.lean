/-
C01 — Reader returns calibrated voltages aligned with the probe geometry.

Property theorems only (helper lemmas: `Lemmas/PySlice.lean`, `Lemmas/Reader.lean`, `Lemmas/ReaderSort.lean`).
Quantifiers: every recording `r` (any dimensions, any int16 content `r.raw`, any channel order, any gain vector),
every selector (`Sel`: Python int, NumPy integer, slice with arbitrary `Option Int` start/stop/step, integer list),
and an ARBITRARY conversion `cast : Int → α` and scaling `mul : α → γ → β` — hence in particular NumPy's
`astype(float32)` and IEEE multiplication, without any reasoning about rounding (datum and gain are fetched
through the same on-disk index).  The float32/float64 dtype chain itself is executed by the driver and compared
bit for bit with the real code (checked, not proved).
-/
import IblVerif.Lemmas.Reader
import IblVerif.Lemmas.ReaderSort
import IblVerif.Lemmas.ReaderMetaC01
import IblVerif.Lemmas.ReaderChunksC01
import IblVerif.Analysis.ReaderExactC01

namespace IblVerif.C01
open IblVerif.PySlice IblVerif.Reader

/-! ### Reading = NumPy indexing of the whole calibrated array -/

/-- Uncompressed recording: for every selector pair, `Reader.read` returns (or raises) exactly what NumPy
indexing `A[nsel, :][..., csel]` of the whole calibrated array `A[t, i] = cast(raw[t, o i]) ⊗ s2v[o i]` does. -/
theorem read_eq_index_calibrated {α β γ : Type} (cast : Int → α) (mul : α → γ → β) (r : Rec γ)
    (hbin : r.cbin = false) (nsel csel : Sel) :
    readM cast mul r nsel csel = selectM (calibratedAt cast mul r) r.ns r.nc nsel csel :=
  readM_bin_eq_selectM cast mul r hbin nsel csel

/-
Full-strength statement for compressed recordings (FALSE for the code as it is, see the three counterexamples):
    ∀ r nsel csel, nsel not a list → readM cast mul r nsel csel = selectM (calibratedAt cast mul r) r.ns r.nc nsel csel
Proved: the same equation under `CbinSupported nsel r.ns` (Python int ≥ -ns, or slice with step None / positive),
whatever the file kind.  Missing: negative-step slices (F17), Python ints below -ns, NumPy integer scalars.
-/
theorem read_cbin_eq_index_calibrated_partial {α β γ : Type} (cast : Int → α) (mul : α → γ → β) (r : Rec γ)
    (nsel csel : Sel) (h : CbinSupported nsel r.ns) :
    readM cast mul r nsel csel = selectM (calibratedAt cast mul r) r.ns r.nc nsel csel :=
  readM_cbin_eq_selectM cast mul r nsel csel h

/-- Compressed files, EVERY chunk layout (any number of non-empty chunks of any sizes): for a slice with a positive
step the chunk-level read of mtscomp (`ChunkRead.mtsSlice`: bounds validation, bisection on `chunk_bounds`,
concatenation of the chunks `first..last`, sub-selection) returns exactly the rows at the positions the chunk-free
sample axis `rowsCbin` of the theorem above visits — all valid positions — so two files holding the same samples cut
into chunks differently read alike; an integer index in `[-ns, ns)` likewise. -/
theorem cbin_read_independent_of_chunk_layout {ρ : Type} (chunks chunks' : List (List ρ))
    (hne : ∀ c ∈ chunks, c ≠ []) (hne' : ∀ c ∈ chunks', c ≠ []) (heq : chunks.flatten = chunks'.flatten)
    (s : Slice) (hst : 0 < s.stepVal) :
    (∃ pos : List Nat, rowsCbin (.slice s) chunks.flatten.length = .ok (.many pos) ∧
      (∀ p ∈ pos, p < chunks.flatten.length) ∧
      ChunkRead.mtsSlice chunks s.start s.stop s.step = .ok (pos.filterMap fun p => chunks.flatten[p]?)) ∧
    ChunkRead.mtsSlice chunks s.start s.stop s.step = ChunkRead.mtsSlice chunks' s.start s.stop s.step ∧
    (∀ i : Int, -(chunks.flatten.length : Int) ≤ i → i < chunks.flatten.length →
      ∃ p : Nat, rowsCbin (.int i) chunks.flatten.length = .ok (.one p) ∧
        ∃ hp : p < chunks.flatten.length, ChunkRead.mtsIndex chunks i = .ok (chunks.flatten[p])) := by
  refine ⟨mtsSlice_eq_rowsCbin chunks hne s hst, ?_, fun i h1 h2 => mtsIndex_eq_rowsCbin chunks hne i h1 h2⟩
  obtain ⟨pos, h1, _, h3⟩ := mtsSlice_eq_rowsCbin chunks hne s hst
  obtain ⟨pos', h1', _, h3'⟩ := mtsSlice_eq_rowsCbin chunks' hne' s hst
  rw [← heq] at h1' h3'
  rw [h1] at h1'
  have : pos = pos' := by injection h1' with h; injection h
  rw [h3, h3', this]

/-- Non-vacuity: six rows cut as 2+1+3 and as 4+2, the slice `1:6:2` straddles every chunk bound. -/
example : ChunkRead.mtsSlice [[10, 20], [30], [40, 50, 60]] (some 1) (some 6) (some 2) = .ok [20, 40, 60] ∧
    ChunkRead.mtsSlice [[10, 20, 30, 40], [50, 60]] (some 1) (some 6) (some 2) = .ok [20, 40, 60] ∧
    rowsCbin (.slice ⟨some 1, some 6, some 2⟩) 6 = .ok (.many [1, 3, 5]) := by
  refine ⟨by decide, by decide, by decide⟩

/-- A 3-sample, 2-channel witness recording (channels swapped by the order, distinct gains), over `Int`. -/
def demo (cbin : Bool) : Rec Int :=
  { ns := 3, nc := 2, raw := fun t c => 10 * t + c + 1, order := fun i => 1 - i, s2v := fun c => (c : Int) + 2,
    cbin := cbin }

/-- Non-vacuity of `CbinSupported` and of the two theorems above: a stepped slice across the witness. -/
example : CbinSupported (.slice ⟨some 0, none, some 2⟩) 3 ∧
    readM id (· * ·) (demo true) (.slice ⟨some 0, none, some 2⟩) (.slice Slice.all)
      = .ok (.mat 2 [[6, 2], [66, 42]]) := by
  refine ⟨by simp [CbinSupported, Slice.stepVal], by decide⟩

example : readM id (· * ·) (demo false) (.slice ⟨none, none, some (-1)⟩) (.list [1, 1, -2])
      = .ok (.mat 3 [[42, 42, 66], [22, 22, 36], [2, 2, 6]]) := by decide

/-- F17 (known finding `cbin_negative_step_sample_slice`): on a compressed file `sr[::-1, :]` has no rows,
while NumPy indexing of the calibrated array gives the three rows reversed. -/
theorem cbin_negative_step_counterexample :
    readM id (· * ·) (demo true) (.slice ⟨none, none, some (-1)⟩) (.slice Slice.all) = .ok (.mat 2 []) ∧
    selectM (calibratedAt id (· * ·) (demo true)) 3 2 (.slice ⟨none, none, some (-1)⟩) (.slice Slice.all)
      = .ok (.mat 2 [[66, 42], [36, 22], [6, 2]]) := by
  refine ⟨by decide, by decide⟩

/-- Known finding `cbin_int_sample_index_below_minus_ns_wraps`: on a compressed file `sr[-4, :]` (ns = 3) returns
row 2 (mtscomp wraps modulo ns) where NumPy raises IndexError. -/
theorem cbin_int_below_minus_ns_counterexample :
    readM id (· * ·) (demo true) (.int (-4)) (.slice Slice.all) = .ok (.vec [66, 42]) ∧
    selectM (calibratedAt id (· * ·) (demo true)) 3 2 (.int (-4)) (.slice Slice.all) = .error .indexError := by
  refine ⟨by decide, by decide⟩

/-- Known finding `cbin_numpy_integer_sample_index_empty`: on a compressed file `sr[np.int64(1), :]` is an empty
2-D array (mtscomp only recognises Python ints) where NumPy returns row 1. -/
theorem cbin_numpy_integer_counterexample :
    readM id (· * ·) (demo true) (.npint 1) (.slice Slice.all) = .ok (.mat 2 []) ∧
    selectM (calibratedAt id (· * ·) (demo true)) 3 2 (.npint 1) (.slice Slice.all) = .ok (.vec [36, 22]) := by
  refine ⟨by decide, by decide⟩

/-- `sr[item]` on an uncompressed file is NumPy indexing of the calibrated array: a pair `(nsel, csel)` selects
on both axes; ANY lone selector — Python int, NumPy integer, slice, list or array of sample indices — addresses
samples and keeps every channel; a tuple of ints of another length than two is the list of rows it names. -/
theorem getitem_dispatch {α β γ : Type} (cast : Int → α) (mul : α → γ → β) (r : Rec γ) (hbin : r.cbin = false) :
    (∀ nsel : Sel, getitemM cast mul r (.single nsel)
        = selectM (calibratedAt cast mul r) r.ns r.nc nsel (.slice Slice.all)) ∧
    (∀ nsel csel : Sel, getitemM cast mul r (.pair nsel csel)
        = selectM (calibratedAt cast mul r) r.ns r.nc nsel csel) ∧
    (∀ a b : Int, getitemM cast mul r (.intTuple [a, b])
        = selectM (calibratedAt cast mul r) r.ns r.nc (.int a) (.int b)) ∧
    (∀ l : List Int, l.length ≠ 2 → getitemM cast mul r (.intTuple l)
        = selectM (calibratedAt cast mul r) r.ns r.nc (.list l) (.slice Slice.all)) := by
  refine ⟨fun s => ?_, fun a b => ?_, fun a b => ?_, fun l hl => ?_⟩
  · exact readM_bin_eq_selectM cast mul r hbin _ _
  · exact readM_bin_eq_selectM cast mul r hbin _ _
  · exact readM_bin_eq_selectM cast mul r hbin _ _
  · rw [← readM_bin_eq_selectM cast mul r hbin]
    rw [getitemM_intTuple cast mul r l hl]
    unfold readM rowsTuple
    simp only [hbin, Bool.false_eq_true, if_false]

/-- Compressed file: the same for the selector kinds mtscomp serves like NumPy (lone list/array sample selectors
raise NotImplementedError there and are outside the property). -/
theorem getitem_dispatch_cbin_partial {α β γ : Type} (cast : Int → α) (mul : α → γ → β) (r : Rec γ) :
    (∀ nsel : Sel, CbinSupported nsel r.ns → getitemM cast mul r (.single nsel)
        = selectM (calibratedAt cast mul r) r.ns r.nc nsel (.slice Slice.all)) ∧
    (∀ nsel csel : Sel, CbinSupported nsel r.ns → getitemM cast mul r (.pair nsel csel)
        = selectM (calibratedAt cast mul r) r.ns r.nc nsel csel) :=
  ⟨fun _ h => readM_cbin_eq_selectM cast mul r _ _ h, fun _ _ h => readM_cbin_eq_selectM cast mul r _ _ h⟩

/-- After the `fix:` commit 35fb57e a lone list is a list of samples: `sr[[1, 0]]` is rows 1 and 0 of every channel
(it used to be the single value `sr[1, 0]`), `sr[[0, 1, 2]]` is three rows (it used to be `None`), `sr[np.int64(1)]`
is row 1 (it used to raise TypeError), and `sr[2, 1, 0]` is rows 2, 1, 0. -/
theorem getitem_lone_list_rows :
    getitemM id (· * ·) (demo false) (.single (.list [1, 0])) = .ok (.mat 2 [[36, 22], [6, 2]]) ∧
    getitemM id (· * ·) (demo false) (.single (.list [0, 1, 2])) = .ok (.mat 2 [[6, 2], [36, 22], [66, 42]]) ∧
    getitemM id (· * ·) (demo false) (.single (.npint 1)) = .ok (.vec [36, 22]) ∧
    getitemM id (· * ·) (demo false) (.intTuple [2, 1, 0]) = .ok (.mat 2 [[66, 42], [36, 22], [6, 2]]) ∧
    getitemM id (· * ·) (demo false) (.intTuple [1, 0]) = .ok (.scalar 36) := by
  refine ⟨by decide, by decide, by decide, by decide, by decide⟩

/-- `read_samples(first, last, channels)` is the slice `first:last` of the calibrated array on the given channels
(all channels when `channels is None`), compressed or not (the step is `None`). -/
theorem read_samples_eq {α β γ : Type} (cast : Int → α) (mul : α → γ → β) (r : Rec γ) (first last : Int)
    (channels : Option Sel) :
    readSamplesM cast mul r first last channels =
      selectM (calibratedAt cast mul r) r.ns r.nc (.slice ⟨some first, some last, none⟩)
        (channels.getD (.slice Slice.all)) :=
  readM_cbin_eq_selectM cast mul r _ _ (by simp [CbinSupported, Slice.stepVal])

/-- Slice × slice, entry by entry (with `slice_indices_in_range` every index below is a valid position): the
result has `len(range(a, b, st))` rows and `len(range(a', b', st'))` columns, and row `p`, column `q` is the raw
sample `a + p·st` of the on-disk channel `o (a' + q·st')` times that channel's own factor. -/
theorem read_slice_entry {α β γ : Type} (cast : Int → α) (mul : α → γ → β) (r : Rec γ)
    (hbin : r.cbin = false) (sn sc : Slice) (a b st a' b' st' : Int)
    (hn : indices sn r.ns = some (a, b, st)) (hc : indices sc r.nc = some (a', b', st')) :
    readM cast mul r (.slice sn) (.slice sc) =
      .ok (.mat (rangeLen a' b' st')
        ((List.range (rangeLen a b st)).map fun p : Nat =>
          (List.range (rangeLen a' b' st')).map fun q : Nat =>
            mul (cast (r.raw (a + p * st).toNat (r.order (a' + q * st').toNat)))
              (r.s2v (r.order (a' + q * st').toNat)))) :=
  readM_slice_slice cast mul r hbin sn sc a b st a' b' st' hn hc

example : indices ⟨some (-1), none, some (-2)⟩ 3 = some (2, -1, -2) ∧ rangeLen 2 (-1) (-2) = 2 := by decide

/-! ### Sync channels -/

/-- Sync channels are left unscaled: with the volts-per-bit vector `chan ++ ones(nsync)` and a channel order that
comes from a geometry covering at most the `chan.length` electrode channels, every column `i` at or beyond
`chan.length` is the on-disk column `i` itself, converted but not scaled (`x ⊗ 1 = x`). -/
theorem sync_unscaled {α γ : Type} (cast : Int → α) (mul : α → γ → α) (one : γ) (hone : ∀ x, mul x one = x)
    (r : Rec γ) (o ol : List Nat) (chan : List γ) (nsync : Nat)
    (hnc : chan.length + nsync = r.nc) (ho : o.length ≤ chan.length)
    (hol : rawChannelOrder r.nc (some o) = .ok ol)
    (horder : ∀ i, i < r.nc → ol[i]? = some (r.order i))
    (hs2v : ∀ c, c < r.nc → (s2vVec chan one nsync)[c]? = some (r.s2v c))
    (t i : Nat) (hi : chan.length ≤ i) (hi2 : i < r.nc) :
    calibratedAt cast mul r t i = cast (r.raw t i) := by
  have h1 : r.order i = i := by
    have := rawChannelOrder_tail r.nc o ol hol i (by omega) hi2
    rw [horder i hi2] at this
    exact Option.some.inj this
  have h2 : r.s2v i = one := by
    have := hs2v i hi2
    unfold s2vVec at this
    rw [List.getElem?_append_right hi, List.getElem?_replicate] at this
    rw [if_pos (by omega)] at this
    exact (Option.some.inj this).symm
  unfold calibratedAt
  rw [h1, h2, hone]

/-- Non-vacuity: a 2-electrode geometry, 3 saved channels, one sync. -/
example : rawChannelOrder 3 (some [1, 0]) = .ok [1, 0, 2] ∧ s2vVec [5, 7] (1 : Int) 1 = [5, 7, 1] := by decide

/-- `_get_sync_trace_indices_from_meta` names the LAST `nsync` saved channels (none when the sync word is not
saved), and `Reader.nsync` counts them. -/
theorem sync_trace_indices_are_last (ntr nsync : Int) :
    syncTraceIndices ntr nsync = (List.range nsync.toNat).map (fun k : Nat => ntr - nsync + (k : Int)) ∧
    nsyncM ntr nsync = nsync.toNat ∧
    (∀ i, i ∈ syncTraceIndices ntr nsync ↔ ntr - nsync ≤ i ∧ i < ntr) :=
  ⟨syncTraceIndices_eq ntr nsync, nsyncM_eq ntr nsync, mem_syncTraceIndices ntr nsync⟩

example : syncTraceIndices 385 1 = [384] ∧ syncTraceIndices 384 0 = [] ∧ nsyncM 9 2 = 2 := by
  refine ⟨by decide, by decide, by decide⟩

/-- The volts-per-bit vector of an imec stream as `_conversion_sample2v_from_meta` builds it from the meta entries
(`nSavedChans`, `snsApLfSy`, the imro table), for consistent counts (`0 ≤ nsync ≤ nSavedChans`, a table entry for every
saved electrode channel): one factor per saved channel IN ON-DISK ORDER; electrode channel `c` carries the conversion
of imro entry `c` with the gain column of the stream's own band (AP stream → AP gain, LF stream → LF gain); the
entries at the sync trace indices are one.  NP2: one factor for every electrode channel.  A stream saved WITHOUT its
sync word (`nsync = 0`) has no unit entries at all. -/
theorem s2v_layout_from_meta {γ κ : Type} (factor : Band → κ → γ) (f one : γ) (tbl : List κ) (m : ImecCounts)
    (b : Band) (hb : bandOf m.nAp m.nLf = some b) (hsy : 0 ≤ m.nSy) (hle : m.nSy ≤ m.nSaved) :
    ((m.nSaved - m.nSy).toNat ≤ tbl.length →
      ∃ v, s2vNp1 factor one tbl m = some v ∧ v.length = m.nSaved.toNat ∧
        (∀ c, c < (m.nSaved - m.nSy).toNat → v[c]? = (tbl[c]?).map (factor b)) ∧
        (∀ i, i ∈ syncTraceIndices m.nSaved m.nSy → v[i.toNat]? = some one)) ∧
    (∃ v, s2vNp2 f one m = some v ∧ v.length = m.nSaved.toNat ∧
        (∀ c, c < (m.nSaved - m.nSy).toNat → v[c]? = some f) ∧
        (∀ i, i ∈ syncTraceIndices m.nSaved m.nSy → v[i.toNat]? = some one)) := by
  constructor
  · intro htbl
    obtain ⟨v, h1, h2, h3, h4⟩ := s2vNp1_layout factor one tbl m b hb hsy hle htbl
    refine ⟨v, h1, h2, h3, fun i hi => ?_⟩
    have := (mem_syncTraceIndices _ _ i).mp hi
    exact h4 i.toNat (by omega) (by omega)
  · obtain ⟨v, h1, h2, h3, h4⟩ := s2vNp2_layout f one m b hb hsy hle
    refine ⟨v, h1, h2, h3, fun i hi => ?_⟩
    have := (mem_syncTraceIndices _ _ i).mp hi
    exact h4 i.toNat (by omega) (by omega)

/-- Non-vacuity: an LF stream of 2 electrode channels + sync picks the LF column and cuts a longer table; the same
channels saved without the sync word carry no unit entry. -/
example : s2vNp1 (fun b (e : Int × Int) => match b with | .ap => e.1 | .lf => e.2) (1 : Int)
      [(500, 250), (125, 50), (7, 8)] ⟨3, 0, 2, 1⟩ = some [250, 50, 1] ∧
    s2vNp1 (fun b (e : Int × Int) => match b with | .ap => e.1 | .lf => e.2) (1 : Int)
      [(500, 250), (125, 50), (7, 8)] ⟨2, 2, 0, 0⟩ = some [500, 125] ∧
    s2vNp2 (80 : Int) 1 ⟨2, 2, 0, 0⟩ = some [80, 80] := by
  refine ⟨by decide, by decide, by decide⟩

/-- Sync channels left unscaled, from the meta entries: on an imec stream whose vector is the one
`_conversion_sample2v_from_meta` builds and whose geometry covers at most the electrode channels, every column named
by `_get_sync_trace_indices_from_meta` is the on-disk column itself, converted but not scaled. -/
theorem sync_trace_columns_unscaled {α γ κ : Type} (cast : Int → α) (mul : α → γ → α) (one : γ)
    (hone : ∀ x, mul x one = x) (factor : Band → κ → γ) (tbl : List κ) (m : ImecCounts) (b : Band)
    (hb : bandOf m.nAp m.nLf = some b) (hsy : 0 ≤ m.nSy) (hle : m.nSy ≤ m.nSaved)
    (htbl : (m.nSaved - m.nSy).toNat ≤ tbl.length)
    (r : Rec γ) (hnc : (r.nc : Int) = m.nSaved) (v : List γ) (hv : s2vNp1 factor one tbl m = some v)
    (hs2v : ∀ c, c < r.nc → v[c]? = some (r.s2v c))
    (o ol : List Nat) (ho : o.length ≤ (m.nSaved - m.nSy).toNat)
    (hol : rawChannelOrder r.nc (some o) = .ok ol) (horder : ∀ i, i < r.nc → ol[i]? = some (r.order i))
    (t : Nat) (i : Int) (hi : i ∈ syncTraceIndices m.nSaved m.nSy) :
    calibratedAt cast mul r t i.toNat = cast (r.raw t i.toNat) := by
  have hmem := (mem_syncTraceIndices _ _ i).mp hi
  have hn := nChn_eq m hsy
  have hlen : ((pyPrefix tbl m.nChn).map (factor b)).length = (m.nSaved - m.nSy).toNat := by
    rw [List.length_map, hn, pyPrefix_length _ _ (by omega) htbl]
  have hveq : v = s2vVec ((pyPrefix tbl m.nChn).map (factor b)) one m.nSy.toNat := by
    unfold s2vNp1 at hv; rw [hb] at hv; exact (Option.some.inj hv).symm
  exact sync_unscaled cast mul one hone r o ol ((pyPrefix tbl m.nChn).map (factor b)) m.nSy.toNat
    (by rw [hlen]; omega) (by rw [hlen]; exact ho) hol horder (fun c hc => by rw [← hveq]; exact hs2v c hc)
    t i.toNat (by rw [hlen]; omega) (by omega)

/-! ### `read(..., sync=True)`, `read_samples`, module-level `read`: data and sync bits of the same samples -/

/-- `Reader.read(slice, csel, sync=True)` on a backend that serves the slice like NumPy (uncompressed, or positive
step): the data part is NumPy indexing of the calibrated array — so the pair's first component is what
`read(..., sync=False)` returns — and row `p` of the sync part decodes the stored sync word(s) of sample `a + p·st`,
the very sample data row `p` comes from (`read_slice_entry`); with one sync word it has exactly as many rows as the
data, without a saved sync word it has none. -/
theorem read_pair_aligned {α β γ : Type} (cast : Int → α) (mul : α → γ → β) (r : Rec γ) (sidx : List Nat)
    (s : Slice) (csel : Sel) (a b st : Int) (hn : indices s r.ns = some (a, b, st))
    (hsup : r.cbin = false ∨ 0 < st) :
    readPairM cast mul r sidx s csel =
      (selectM (calibratedAt cast mul r) r.ns r.nc (.slice s) csel).map (fun d =>
        (d, ((List.range (rangeLen a b st)).flatMap fun p : Nat =>
              sidx.map fun c => r.raw (a + p * st).toNat c).map syncWordBits)) ∧
    (readPairM cast mul r sidx s csel).map Prod.fst = readM cast mul r (.slice s) csel ∧
    (∀ c, sidx = [c] → ∀ d y, readPairM cast mul r sidx s csel = .ok (d, y) →
      y = (List.range (rangeLen a b st)).map fun p : Nat => syncWordBits (r.raw (a + p * st).toNat c)) ∧
    (sidx = [] → ∀ d y, readPairM cast mul r sidx s csel = .ok (d, y) → y = []) := by
  have h := readPairM_eq cast mul r sidx s csel a b st hn hsup
  have hread : readM cast mul r (.slice s) csel = selectM (calibratedAt cast mul r) r.ns r.nc (.slice s) csel := by
    by_cases hb : r.cbin = false
    · exact readM_bin_eq_selectM cast mul r hb _ _
    · have hst : 0 < st := by rcases hsup with h' | h'; exact absurd h' hb; exact h'
      have hsv : st = s.stepVal := (indices_bounds s r.ns a b st hn).1
      exact readM_cbin_eq_selectM cast mul r _ _ (by simp only [CbinSupported]; omega)
  refine ⟨h, ?_, ?_, ?_⟩
  · rw [h, hread]
    cases selectM (calibratedAt cast mul r) r.ns r.nc (.slice s) csel <;> rfl
  · intro c hc d y hy
    rw [h, hc] at hy
    cases hsel : selectM (calibratedAt cast mul r) r.ns r.nc (.slice s) csel with
    | error e => rw [hsel] at hy; cases hy
    | ok d' =>
      rw [hsel] at hy
      simp only [Except.map, Except.ok.injEq, Prod.mk.injEq] at hy
      rw [← hy.2]
      simp only [List.map_cons, List.map_nil]
      rw [flatMap_single, List.map_map]
      rfl
  · intro hc d y hy
    rw [h, hc] at hy
    cases hsel : selectM (calibratedAt cast mul r) r.ns r.nc (.slice s) csel with
    | error e => rw [hsel] at hy; cases hy
    | ok d' =>
      rw [hsel] at hy
      simp only [Except.map, Except.ok.injEq, Prod.mk.injEq] at hy
      rw [← hy.2]
      simp

/-- `read_samples(first, last, channels)` — and the module-level `spikeglx.read(file, first, last)`, which forwards
to it — return the slice `first:last` of the calibrated array and the sync bits of the same samples, on both
backends (the step is one). -/
theorem read_samples_pair_eq {α β γ : Type} (cast : Int → α) (mul : α → γ → β) (r : Rec γ) (sidx : List Nat)
    (first last : Int) (channels : Option Sel) :
    readSamplesPairM cast mul r sidx first last channels =
      (selectM (calibratedAt cast mul r) r.ns r.nc (.slice ⟨some first, some last, none⟩)
          (channels.getD (.slice Slice.all))).map (fun d =>
        (d, ((List.range (rangeLen (adjust first r.ns 1) (adjust last r.ns 1) 1)).flatMap fun p : Nat =>
              sidx.map fun c => r.raw (adjust first r.ns 1 + p * 1).toNat c).map syncWordBits)) ∧
    (readSamplesPairM cast mul r sidx first last channels).map Prod.fst
      = readSamplesM cast mul r first last channels ∧
    moduleReadM cast mul r sidx first last = readSamplesPairM cast mul r sidx first last none := by
  have h := read_pair_aligned cast mul r sidx ⟨some first, some last, none⟩ (channels.getD (.slice Slice.all))
    _ _ 1 (indices_first_last first last r.ns) (Or.inr (by omega))
  exact ⟨h.1, h.2.1, rfl⟩

/-- Non-vacuity on the witness recording: samples 1 and 2 of the swapped channels, sync word = on-disk channel 1
(values 12 = 0b1100 and 22 = 0b10110). -/
example : readSamplesPairM id (· * ·) (demo true) [1] 1 7 none
    = .ok (.mat 2 [[36, 22], [66, 42]],
           [[0, 0, 1, 1, 0, 0, 0, 0, 0, 0, 0, 0, 0, 0, 0, 0], [0, 1, 1, 0, 1, 0, 0, 0, 0, 0, 0, 0, 0, 0, 0, 0]]) := by
  decide

/-! ### The float32 chain: exact cases (over the reals, standard model of rounding) -/

open IblVerif.Analysis.ReaderExact in
/-- For every int16 sample: `astype(float32)` is exact; on a sync column (factor one) the product is `float32(raw)`
itself; a power-of-two factor, and more generally any factor whose significand keeps `|x·mg| < 2^24`, multiplies
exactly.  `rnd` is any rounding that fixes the finite binary32 numbers (IEEE-754 correct rounding).  For the real
SpikeGLX factors (full 24-bit significands) the product IS rounded: that is executed, not proved. -/
theorem float32_exact_cases (rnd : ℝ → ℝ) (hr : ∀ y, IsBinary32 y → rnd y = y) (x : ℤ) (hx : IsInt16 x) :
    rnd (x : ℝ) = x ∧
    rnd (rnd (x : ℝ) * 1) = x ∧
    (∀ k : ℤ, -149 ≤ k ∧ k ≤ 104 → rnd (rnd (x : ℝ) * (2 : ℝ) ^ k) = x * (2 : ℝ) ^ k) ∧
    (∀ mg eg : ℤ, |x * mg| < 2 ^ 24 → -149 ≤ eg ∧ eg ≤ 104 →
      rnd (rnd (x : ℝ) * ((mg : ℝ) * (2 : ℝ) ^ eg)) = x * ((mg : ℝ) * (2 : ℝ) ^ eg)) :=
  ⟨int16_cast_exact rnd hr x hx, sync_factor_one_exact rnd hr x hx, fun k hk => pow2_factor_exact rnd hr x hx k hk,
   fun mg eg hm he => short_significand_factor_exact rnd hr x hx mg eg hm he⟩

/-! ### Channel order and geometry -/

/-- The sorted index vector is a permutation of the on-disk electrode channels. -/
theorem order_perm (sites : List Site) : (orderM sites).Perm (List.range sites.length) :=
  orderM_perm sites

/-- With sorting on, entries are ordered by shank, then row, then DEScending column; electrodes with the same
(shank, row, col) keep their on-disk order. -/
theorem order_sorted (sites : List Site) :
    (orderM sites).Pairwise fun i j =>
      ∃ si sj, sites[i]? = some si ∧ sites[j]? = some sj ∧
        ((si.shank < sj.shank ∨ (si.shank = sj.shank ∧ (si.row < sj.row ∨ (si.row = sj.row ∧ sj.col < si.col)))) ∨
         ((si.shank = sj.shank ∧ si.row = sj.row ∧ si.col = sj.col) ∧ i < j)) :=
  orderM_sorted sites

/-- Non-vacuity: two shanks, a tie on (shank 0, row 0, col 1) kept in disk order (1 before 4), col 1 before col 0. -/
example : orderM [⟨0, 0, 0⟩, ⟨0, 0, 1⟩, ⟨1, 0, 0⟩, ⟨0, 1, 1⟩, ⟨0, 0, 1⟩] = [1, 4, 0, 3, 2] := by
  simp [orderM, List.zipIdx, List.mergeSort, List.MergeSort.Internal.splitInTwo, pairLe, PairLe, KeyLt, Site.key]

/-- `raw_channel_order` (geometry order on the electrode channels, identity beyond) is a permutation of all
on-disk channels, sorted or not, split by shank or not; channels beyond the geometry stay in place. -/
theorem raw_channel_order_perm (nc : Nat) (sort : Bool) (k : Option Int) (sites : List Site)
    (hm : (splitShank k sites).length ≤ nc) :
    ∃ ol, rawChannelOrder nc (some (geomOrder sort (splitShank k sites))) = .ok ol ∧
      ol.Perm (List.range nc) ∧ ∀ i, (splitShank k sites).length ≤ i → i < nc → ol[i]? = some i := by
  have hlen : (geomOrder sort (splitShank k sites)).length = (splitShank k sites).length := by
    unfold geomOrder; split
    · exact orderM_length _
    · simp
  have hperm : (geomOrder sort (splitShank k sites)).Perm
      (List.range (geomOrder sort (splitShank k sites)).length) := by
    rw [hlen]; unfold geomOrder; split
    · exact orderM_perm _
    · exact List.Perm.refl _
  refine ⟨_, rawChannelOrder_some nc _ (by omega), ?_, ?_⟩
  · exact rawChannelOrder_perm nc _ _ hperm (rawChannelOrder_some nc _ (by omega))
  · intro i h1 h2
    exact rawChannelOrder_tail nc _ _ (rawChannelOrder_some nc _ (by omega)) i (by omega) h2

/-- Column `i` of what the reader returns is the electrode described by entry `i` of its geometry: if the
geometry index vector `o` has `o[i] = j`, then every geometry attribute at `i` is the unsorted attribute of
on-disk channel `j`, and calibrated column `i` is the raw on-disk column `j` times the factor of channel `j`. -/
theorem geometry_column_agree {α β γ κ : Type} (cast : Int → α) (mul : α → γ → β) (r : Rec γ)
    (attr : Nat → κ) (o ol : List Nat)
    (hol : rawChannelOrder r.nc (some o) = .ok ol)
    (horder : ∀ i, i < r.nc → ol[i]? = some (r.order i))
    (i j : Nat) (hij : o[i]? = some j) (t : Nat) :
    (sortGeom attr o)[i]? = some (attr j) ∧
    calibratedAt cast mul r t i = mul (cast (r.raw t j)) (r.s2v j) := by
  have hi : i < o.length := by
    cases h : o[i]? with
    | none => rw [h] at hij; cases hij
    | some _ => exact (List.getElem?_eq_some_iff.mp h).1
  have hnc : i < r.nc := by
    have := rawChannelOrder_length r.nc (some o) ol hol
    unfold rawChannelOrder at hol
    simp only at hol
    split at hol
    · omega
    · cases hol
  constructor
  · simp [sortGeom, hij]
  · have := rawChannelOrder_head r.nc o ol hol i hi
    rw [horder i hnc, hij] at this
    have e : r.order i = j := Option.some.inj this
    unfold calibratedAt; rw [e]

/-- With sorting off everything is in on-disk order: the geometry index is `0, 1, 2, …`, `raw_channel_order` is
the identity on all channels, so calibrated column `i` is raw on-disk column `i` times its own factor. -/
theorem unsorted_is_disk_order {α β γ : Type} (cast : Int → α) (mul : α → γ → β) (r : Rec γ)
    (sites : List Site) (ol : List Nat)
    (hol : rawChannelOrder r.nc (some (geomOrder false sites)) = .ok ol)
    (horder : ∀ i, i < r.nc → ol[i]? = some (r.order i)) :
    geomOrder false sites = List.range sites.length ∧
    (∀ i, i < r.nc → r.order i = i) ∧
    (∀ t i, i < r.nc → calibratedAt cast mul r t i = mul (cast (r.raw t i)) (r.s2v i)) := by
  have hid : ∀ i, i < r.nc → r.order i = i := by
    intro i hi
    have hlen : (geomOrder false sites).length = sites.length := by simp [geomOrder]
    by_cases h : i < sites.length
    · have := rawChannelOrder_head r.nc _ ol hol i (by omega)
      rw [horder i hi] at this
      simp only [geomOrder, Bool.false_eq_true, if_false, List.getElem?_range h] at this
      exact Option.some.inj this
    · have := rawChannelOrder_tail r.nc _ ol hol i (by omega) hi
      rw [horder i hi] at this
      exact Option.some.inj this
  refine ⟨by simp [geomOrder], hid, ?_⟩
  intro t i hi
  unfold calibratedAt; rw [hid i hi]

example : rawChannelOrder 4 (some (geomOrder false [⟨0, 1, 0⟩, ⟨0, 0, 0⟩])) = .ok [0, 1, 2, 3] ∧
    rawChannelOrder 4 (some (geomOrder true [⟨0, 1, 0⟩, ⟨0, 0, 0⟩])) = .ok [1, 0, 2, 3] ∧
    rawChannelOrder 1 (some (geomOrder true [⟨0, 1, 0⟩, ⟨0, 0, 0⟩])) = .error .valueError := by
  simp [rawChannelOrder, geomOrder, orderM, List.zipIdx, List.mergeSort, List.MergeSort.Internal.splitInTwo, pairLe,
    PairLe, KeyLt, Site.key, List.range, List.range.loop]

/-! ### Python slice and index semantics (L-Slice) -/

/-- The indices a slice visits on an axis of length `n` are `start' + i·step` for `i < len`, where
`(start', stop', step) = slice.indices(n)`. -/
theorem slice_indices_eq_ofFn (s : Slice) (n : Nat) (a b st : Int) (h : indices s n = some (a, b, st)) :
    sliceIndices s n = some (List.ofFn fun i : Fin (sliceLen s n) => (a + (i : Nat) * st).toNat) := by
  rw [sliceIndices_spec s n a b st h, sliceLen_spec s n a b st h]
  congr 1
  apply List.ext_getElem
  · simp
  · intro i h1 h2
    simp

/-- Every visited index is a valid position: `0 ≤ start' + i·step < n` (so `.toNat` above loses nothing). -/
theorem slice_indices_in_range (s : Slice) (n : Nat) (a b st : Int) (h : indices s n = some (a, b, st))
    (i : Nat) (hi : i < sliceLen s n) : 0 ≤ a + i * st ∧ a + i * st < n := by
  rw [sliceLen_spec s n a b st h] at hi
  exact slice_val_in_range s n a b st h i hi

/-- Number of visited indices, for both signs of the step, and it is the length of `sliceIndices`. -/
theorem slice_length_formula (s : Slice) (n : Nat) (a b st : Int) (h : indices s n = some (a, b, st)) :
    (0 < st → sliceLen s n = if a < b then ((b - a - 1) / st + 1).toNat else 0) ∧
    (st < 0 → sliceLen s n = if b < a then ((a - b - 1) / (-st) + 1).toNat else 0) ∧
    (∀ l, sliceIndices s n = some l → l.length = sliceLen s n) := by
  rw [sliceLen_spec s n a b st h]
  refine ⟨fun hp => ?_, fun hn => ?_, fun l hl => ?_⟩
  · unfold rangeLen; rw [if_neg (by omega)]
  · unfold rangeLen; rw [if_pos hn]
  · rw [sliceIndices_spec s n a b st h] at hl
    injection hl with hl; subst hl; simp

/-- Empty cases: a slice selects nothing iff its clamped bounds are in the wrong order for the sign of its step;
a zero step is the only error. -/
theorem slice_empty_iff (s : Slice) (n : Nat) :
    (sliceIndices s n = none ↔ s.stepVal = 0) ∧
    (∀ a b st, indices s n = some (a, b, st) →
      (sliceIndices s n = some [] ↔ (0 < st → b ≤ a) ∧ (st < 0 → a ≤ b))) := by
  constructor
  · rw [← indices_eq_none_iff s n]
    unfold sliceIndices
    cases indices s n with
    | none => simp
    | some v => obtain ⟨a, b, c⟩ := v; simp
  · intro a b st h
    obtain ⟨_, h0, _, _⟩ := indices_bounds s n a b st h
    rw [sliceIndices_spec s n a b st h, ← rangeLen_eq_zero_iff a b st h0]
    simp

/-- `a[:]` visits `0 … n-1`, `a[::-1]` visits `n-1 … 0`. -/
theorem slice_all_and_reversed (n : Nat) :
    sliceIndices Slice.all n = some (List.range n) ∧
    sliceIndices ⟨none, none, some (-1)⟩ n = some (List.range n).reverse := by
  constructor
  · have h : indices Slice.all n = some (0, (n : Int), 1) := by
      simp [indices, Slice.all, Slice.stepVal]
    rw [sliceIndices_spec _ n _ _ _ h]
    have hl : rangeLen 0 (n : Int) 1 = n := by
      unfold rangeLen; simp; omega
    rw [hl]
    congr 1
    conv => rhs; rw [← List.map_id (List.range n)]
    apply List.map_congr_left
    intro k _; simp
  · have h : indices ⟨none, none, some (-1)⟩ n = some ((n : Int) - 1, -1, -1) := by
      simp [indices, Slice.stepVal]
    rw [sliceIndices_spec _ n _ _ _ h]
    have hl : rangeLen ((n : Int) - 1) (-1) (-1) = n := by
      unfold rangeLen; simp; omega
    rw [hl]
    congr 1
    apply List.ext_getElem
    · simp
    · intro i h1 h2
      simp at h1
      simp [List.getElem_reverse]
      omega

/-- Integer indices: `i` is accepted iff `-n ≤ i < n`, a negative one addresses `i + n`, everything else is an
IndexError; an accepted index is a valid position. -/
theorem index_normalisation (i : Int) (n : Nat) :
    (∀ k, normIndex i n = some k ↔ (0 ≤ i ∧ i < n ∧ (k : Int) = i) ∨ (i < 0 ∧ -(n : Int) ≤ i ∧ (k : Int) = i + n)) ∧
    (normIndex i n = none ↔ (i < -(n : Int) ∨ (n : Int) ≤ i)) ∧
    (∀ k, normIndex i n = some k → k < n) :=
  ⟨normIndex_eq_some_iff i n, normIndex_eq_none_iff i n, fun k h => normIndex_lt i n k h⟩

example : sliceIndices ⟨some 8, some (-20), some (-3)⟩ 10 = some [8, 5, 2] ∧
    sliceIndices ⟨some 2, some 100, some 4⟩ 10 = some [2, 6] ∧
    sliceIndices ⟨some 1, some 2, some 0⟩ 10 = none ∧
    normIndex (-5) 5 = some 0 ∧ normIndex (-6) 5 = none ∧ normIndex 5 5 = none := by decide

end IblVerif.C01
