/-
C10 — Sync words decode to TTL lines; fronts recover every event.

Property theorems only (helper lemmas live in `Lemmas/Sync*.lean`; the transcription of `split_sync`,
`Reader.read_sync*` and `fronts`/`rises`/`falls` is `Model/Sync.lean`).

Quantifiers: every 16-bit word and every line `k < 16` (no enumeration of words); every list / list of rows of
integers, every step; every family of 16 binary trains of every length; every recording whose rows have the
width announced by the meta data.
-/
import IblVerif.Lemmas.SyncTTL

namespace IblVerif.C10
open IblVerif.Sync

/-! ## 1. Bit layout of `split_sync` -/

/-- Every sync word is decoded into 16 lines and line `k` is bit `k` of the word. -/
theorem split_sync_bit (w : Nat) (_hw : w < 65536) (k : Nat) (hk : k < 16) :
    (splitSync w).length = 16 ∧ (splitSync w)[k]? = some (if w.testBit k then 1 else 0) := by
  refine ⟨splitSync_length w, ?_⟩
  rw [splitSync_getElem w k hk, Nat.testBit_eq_decide_div_mod_eq]
  by_cases h : w / 2 ^ k % 2 = 1
  · simp [h]
  · have : w / 2 ^ k % 2 = 0 := by omega
    simp [this]

/-- The word of a stored int16 sample is its two's-complement pattern (so line 15 is the sign bit). -/
theorem word_of_int16 (x : Int) (hx : -32768 ≤ x ∧ x ≤ 32767) :
    (wordOfInt x : Int) = (if 0 ≤ x then x else x + 65536) ∧ wordOfInt x < 65536 ∧
    (wordOfInt x).testBit 15 = decide (x < 0) := by
  unfold wordOfInt
  refine ⟨by split <;> omega, by omega, ?_⟩
  rw [Nat.testBit_eq_decide_div_mod_eq]
  by_cases h : x < 0
  · simp only [h, decide_true, decide_eq_true_eq]; omega
  · simp only [h, decide_false, decide_eq_false_iff_not]; omega

/-- Writing 16 lines into a word and decoding the stored sample returns the 16 lines. -/
theorem decode_encode (line : Nat → Bool) :
    splitSync (wordOfInt (int16OfWord (encodeWord line))) = (List.range 16).map fun k => (line k).toNat :=
  Sync.decode_encode line

/-- Decoding a whole recorded sync channel returns, sample by sample, the 16 trains. -/
theorem decode_trains (n : Nat) (train : Nat → Nat → Bool) :
    splitSyncArr (recordTTL n train) =
      (List.range n).map fun t => (List.range 16).map fun k => (train k t).toNat :=
  splitSyncArr_recordTTL n train

/-! ## 2. Front detection, 1-D -/

/-- `fronts(x, step)` returns exactly the indices `t ≥ 1` with `|x[t] − x[t−1]| ≥ step`, ascending, each with the
signed step `x[t] − x[t−1]` as its polarity. -/
theorem fronts_eq_changes (x : List Int) (step : Int) :
    (∀ t s, (t, s) ∈ frontsPairs x step ↔
      1 ≤ t ∧ ∃ a b, x[t - 1]? = some a ∧ x[t]? = some b ∧ s = b - a ∧ step ≤ ((b - a).natAbs : Int)) ∧
    (frontsPairs x step).Pairwise (fun p q => p.1 < q.1) ∧
    fronts x step = ((frontsPairs x step).map (·.1), (frontsPairs x step).map (·.2)) := by
  refine ⟨?_, shifted_where_sorted _ x, rfl⟩
  intro t s
  unfold frontsPairs
  rw [shifted_where_mem]
  simp only [decide_eq_true_eq, absV_int]
  constructor
  · rintro ⟨h1, a, b, ha, hb, hs, hp⟩; exact ⟨h1, a, b, ha, hb, hs, by rw [← hs]; exact hp⟩
  · rintro ⟨h1, a, b, ha, hb, hs, hp⟩; exact ⟨h1, a, b, ha, hb, hs, by rw [hs]; exact hp⟩

/-- On a 0/1 train (default step 1) the returned indices are exactly the samples at which the line changes; the
polarity is `+1` when it goes up and `-1` when it goes down. -/
theorem fronts_binary (x : List Int) (h01 : ∀ v ∈ x, v = 0 ∨ v = 1) (t : Nat) (s : Int) :
    (t, s) ∈ frontsPairs x 1 ↔
      1 ≤ t ∧ ∃ a b, x[t - 1]? = some a ∧ x[t]? = some b ∧ a ≠ b ∧ s = if b = 1 then 1 else -1 := by
  rw [(fronts_eq_changes x 1).1]
  constructor
  · rintro ⟨h1, a, b, ha, hb, hs, hp⟩
    have := h01 a (List.mem_of_getElem? ha)
    have := h01 b (List.mem_of_getElem? hb)
    refine ⟨h1, a, b, ha, hb, by omega, ?_⟩
    split <;> omega
  · rintro ⟨h1, a, b, ha, hb, hne, hs⟩
    have := h01 a (List.mem_of_getElem? ha)
    have := h01 b (List.mem_of_getElem? hb)
    refine ⟨h1, a, b, ha, hb, ?_, by omega⟩
    split at hs <;> omega

/-- `rises(x, step)` / `falls(x, step)` (not analog): exactly the indices with `x[t] − x[t−1] ≥ step`, resp.
`≤ step` (the default step of `falls` is `-1`), ascending. -/
theorem rises_falls_spec (x : List Int) (step : Int) :
    (∀ t, t ∈ rises x step false ↔ 1 ≤ t ∧ ∃ a b, x[t - 1]? = some a ∧ x[t]? = some b ∧ step ≤ b - a) ∧
    (∀ t, t ∈ falls x step false ↔ 1 ≤ t ∧ ∃ a b, x[t - 1]? = some a ∧ x[t]? = some b ∧ b - a ≤ step) ∧
    (rises x step false).Pairwise (· < ·) ∧ (falls x step false).Pairwise (· < ·) := by
  refine ⟨?_, ?_, shifted_where_sorted_fst _ _, shifted_where_sorted_fst _ _⟩
  · intro t
    unfold rises
    simp only [Bool.false_eq_true, if_false]
    rw [shifted_where_mem_fst]
    simp only [decide_eq_true_eq]
  · intro t
    unfold falls rises
    simp only [Bool.false_eq_true, if_false]
    rw [shifted_where_mem_fst]
    simp only [decide_eq_true_eq, List.getElem?_map]
    constructor
    · rintro ⟨h1, a, b, ha, hb, hp⟩
      cases hx : x[t - 1]? with
      | none => simp [hx] at ha
      | some a' =>
        cases hy : x[t]? with
        | none => simp [hy] at hb
        | some b' =>
          simp only [hx, hy, Option.map_some, Option.some.injEq] at ha hb
          exact ⟨h1, a', b', rfl, rfl, by omega⟩
    · rintro ⟨h1, a, b, ha, hb, hp⟩
      exact ⟨h1, -a, -b, by simp [ha], by simp [hb], by omega⟩

/-- On a 0/1 train, `rises(x)` are exactly the 0→1 samples and `falls(x)` (default step −1) the 1→0 samples. -/
theorem rises_falls_binary (x : List Int) (h01 : ∀ v ∈ x, v = 0 ∨ v = 1) (t : Nat) :
    (t ∈ rises x 1 false ↔ 1 ≤ t ∧ x[t - 1]? = some 0 ∧ x[t]? = some 1) ∧
    (t ∈ falls x (-1) false ↔ 1 ≤ t ∧ x[t - 1]? = some 1 ∧ x[t]? = some 0) := by
  rw [(rises_falls_spec x 1).1, (rises_falls_spec x (-1)).2.1]
  constructor
  · constructor
    · rintro ⟨h1, a, b, ha, hb, hp⟩
      have := h01 a (List.mem_of_getElem? ha)
      have := h01 b (List.mem_of_getElem? hb)
      have ha' : a = 0 := by omega
      have hb' : b = 1 := by omega
      subst ha' hb'; exact ⟨h1, ha, hb⟩
    · rintro ⟨h1, ha, hb⟩; exact ⟨h1, 0, 1, ha, hb, by omega⟩
  · constructor
    · rintro ⟨h1, a, b, ha, hb, hp⟩
      have := h01 a (List.mem_of_getElem? ha)
      have := h01 b (List.mem_of_getElem? hb)
      have ha' : a = 1 := by omega
      have hb' : b = 0 := by omega
      subst ha' hb'; exact ⟨h1, ha, hb⟩
    · rintro ⟨h1, ha, hb⟩; exact ⟨h1, 1, 0, ha, hb, by omega⟩

/-- Analog mode: `rises` returns exactly the samples at which the trace crosses the threshold upwards
(`x[t−1] ≤ step < x[t]`), `falls` those at which it crosses downwards (`x[t] < step ≤ x[t−1]`). -/
theorem rises_falls_analog (x : List Int) (step : Int) (t : Nat) :
    (t ∈ rises x step true ↔ 1 ≤ t ∧ ∃ a b, x[t - 1]? = some a ∧ x[t]? = some b ∧ a ≤ step ∧ step < b) ∧
    (t ∈ falls x step true ↔ 1 ≤ t ∧ ∃ a b, x[t - 1]? = some a ∧ x[t]? = some b ∧ step ≤ a ∧ b < step) := by
  constructor
  · unfold rises binarize binOne
    simp only [if_true]
    rw [shifted_where_mem_fst]
    simp only [decide_eq_true_eq, List.getElem?_map]
    constructor
    · rintro ⟨h1, a, b, ha, hb, hp⟩
      cases hx : x[t - 1]? with
      | none => simp [hx] at ha
      | some a' =>
        cases hy : x[t]? with
        | none => simp [hy] at hb
        | some b' =>
          simp only [hx, hy, Option.map_some, Option.some.injEq] at ha hb
          refine ⟨h1, a', b', rfl, rfl, ?_⟩
          subst ha hb
          split at hp <;> split at hp <;> omega
    · rintro ⟨h1, a, b, ha, hb, h2, h3⟩
      refine ⟨h1, 0, 1, ?_, ?_, by omega⟩
      · simp only [ha, Option.map_some, Option.some.injEq]; split <;> omega
      · simp only [hb, Option.map_some, Option.some.injEq]; split <;> omega
  · unfold falls rises binarize binOne
    simp only [if_true]
    rw [shifted_where_mem_fst]
    simp only [decide_eq_true_eq, List.getElem?_map, List.map_map]
    constructor
    · rintro ⟨h1, a, b, ha, hb, hp⟩
      cases hx : x[t - 1]? with
      | none => simp [hx] at ha
      | some a' =>
        cases hy : x[t]? with
        | none => simp [hy] at hb
        | some b' =>
          simp only [hx, hy, Option.map_some, Option.some.injEq, Function.comp] at ha hb
          refine ⟨h1, a', b', rfl, rfl, ?_⟩
          subst ha hb
          split at hp <;> split at hp <;> omega
    · rintro ⟨h1, a, b, ha, hb, h2, h3⟩
      refine ⟨h1, 0, 1, ?_, ?_, by omega⟩
      · simp only [ha, Option.map_some, Option.some.injEq, Function.comp]; split <;> omega
      · simp only [hb, Option.map_some, Option.some.injEq, Function.comp]; split <;> omega

/-! ## 3. Front detection, 2-D, along either axis -/

/-- `fronts(x, axis, step)` on a 2-D array (`axis` 0 or 1): exactly the positions `ij` that have a predecessor
along `axis` with `|x[ij] − x[prev ij]| ≥ step`, each with that signed step, listed in C order. -/
theorem fronts2_eq_changes (axis : Nat) (x : List (List Int)) (step : Int) :
    (∀ ij s, (ij, s) ∈ fronts2 axis x step ↔
      1 ≤ coord axis ij ∧ ∃ a b, at2 x (prevPos axis ij) = some a ∧ at2 x ij = some b ∧ s = b - a ∧
        step ≤ ((b - a).natAbs : Int)) ∧
    (fronts2 axis x step).Pairwise (fun p q => lexLt p.1 q.1) := by
  refine ⟨?_, shifted_where2_sorted _ axis x⟩
  intro ij s
  unfold fronts2
  rw [shifted_where2_mem]
  simp only [decide_eq_true_eq, absV_int]
  constructor
  · rintro ⟨h1, a, b, ha, hb, hs, hp⟩; exact ⟨h1, a, b, ha, hb, hs, by rw [← hs]; exact hp⟩
  · rintro ⟨h1, a, b, ha, hb, hs, hp⟩; exact ⟨h1, a, b, ha, hb, hs, by rw [hs]; exact hp⟩

/-- `rises` / `falls` on a 2-D array along either axis (not analog), in C order. -/
theorem rises2_falls2_spec (axis : Nat) (x : List (List Int)) (step : Int) :
    (∀ ij, ij ∈ rises2 axis x step false ↔
      1 ≤ coord axis ij ∧ ∃ a b, at2 x (prevPos axis ij) = some a ∧ at2 x ij = some b ∧ step ≤ b - a) ∧
    (∀ ij, ij ∈ falls2 axis x step false ↔
      1 ≤ coord axis ij ∧ ∃ a b, at2 x (prevPos axis ij) = some a ∧ at2 x ij = some b ∧ b - a ≤ step) ∧
    (rises2 axis x step false).Pairwise lexLt ∧ (falls2 axis x step false).Pairwise lexLt := by
  refine ⟨?_, ?_, shifted_where2_sorted_fst _ _ _, shifted_where2_sorted_fst _ _ _⟩
  · intro ij
    unfold rises2
    simp only [Bool.false_eq_true, if_false]
    rw [shifted_where2_mem_fst]
    simp only [decide_eq_true_eq]
  · intro ij
    unfold falls2 rises2
    simp only [Bool.false_eq_true, if_false]
    rw [shifted_where2_mem_fst]
    simp only [decide_eq_true_eq, at2_map_map]
    constructor
    · rintro ⟨h1, a, b, ha, hb, hp⟩
      cases hx : at2 x (prevPos axis ij) with
      | none => simp [hx] at ha
      | some a' =>
        cases hy : at2 x ij with
        | none => simp [hy] at hb
        | some b' =>
          simp only [hx, hy, Option.map_some, Option.some.injEq] at ha hb
          exact ⟨h1, a', b', rfl, rfl, by omega⟩
    · rintro ⟨h1, a, b, ha, hb, hp⟩
      exact ⟨h1, -a, -b, by simp [ha], by simp [hb], by omega⟩

/-- Analog mode on a 2-D array along either axis: upward, resp. downward, crossings of the threshold. -/
theorem rises2_falls2_analog (axis : Nat) (x : List (List Int)) (step : Int) (ij : Nat × Nat) :
    (ij ∈ rises2 axis x step true ↔
      1 ≤ coord axis ij ∧ ∃ a b, at2 x (prevPos axis ij) = some a ∧ at2 x ij = some b ∧ a ≤ step ∧ step < b) ∧
    (ij ∈ falls2 axis x step true ↔
      1 ≤ coord axis ij ∧ ∃ a b, at2 x (prevPos axis ij) = some a ∧ at2 x ij = some b ∧ step ≤ a ∧ b < step) := by
  constructor
  · unfold rises2 binarize binOne
    simp only [if_true]
    rw [shifted_where2_mem_fst]
    simp only [decide_eq_true_eq, at2_map_map]
    constructor
    · rintro ⟨h1, a, b, ha, hb, hp⟩
      cases hx : at2 x (prevPos axis ij) with
      | none => simp [hx] at ha
      | some a' =>
        cases hy : at2 x ij with
        | none => simp [hy] at hb
        | some b' =>
          simp only [hx, hy, Option.map_some, Option.some.injEq] at ha hb
          refine ⟨h1, a', b', rfl, rfl, ?_⟩
          subst ha hb
          split at hp <;> split at hp <;> omega
    · rintro ⟨h1, a, b, ha, hb, h2, h3⟩
      refine ⟨h1, 0, 1, ?_, ?_, by omega⟩
      · simp only [ha, Option.map_some, Option.some.injEq]; split <;> omega
      · simp only [hb, Option.map_some, Option.some.injEq]; split <;> omega
  · unfold falls2 rises2 binarize binOne
    simp only [if_true]
    rw [shifted_where2_mem_fst]
    simp only [decide_eq_true_eq, at2_map_map]
    constructor
    · rintro ⟨h1, a, b, ha, hb, hp⟩
      cases hx : at2 x (prevPos axis ij) with
      | none => simp [hx] at ha
      | some a' =>
        cases hy : at2 x ij with
        | none => simp [hy] at hb
        | some b' =>
          simp only [hx, hy, Option.map_some, Option.some.injEq] at ha hb
          refine ⟨h1, a', b', rfl, rfl, ?_⟩
          subst ha hb
          split at hp <;> split at hp <;> omega
    · rintro ⟨h1, a, b, ha, hb, h2, h3⟩
      refine ⟨h1, 0, 1, ?_, ?_, by omega⟩
      · simp only [ha, Option.map_some, Option.some.injEq]; split <;> omega
      · simp only [hb, Option.map_some, Option.some.injEq]; split <;> omega

/-! ## 4. Reading sync through the reader -/

/-- The two masked assignments of `read_sync` binarise a value at the threshold, for every ordered value type in
which `<` is the negation of `≥` and the threshold is positive. -/
theorem threshold_spec {α : Type} [Sub α] [LT α] [DecidableLT α] [LE α] [DecidableLE α] [OfNat α 0] [OfNat α 1]
    (hlt : ∀ a b : α, a < b ↔ ¬ b ≤ a) (thr v : α) (hthr : (0 : α) < thr) :
    threshold thr v = if thr ≤ v then 1 else 0 := by
  unfold threshold
  by_cases h : v < thr
  · have h' : ¬ thr ≤ v := (hlt v thr).mp h
    have h0 : ¬ thr ≤ (0 : α) := (hlt 0 thr).mp hthr
    simp [h, h', h0]
  · have h' : thr ≤ v := by
      by_cases h'' : thr ≤ v
      · exact h''
      · exact absurd ((hlt v thr).mpr h'') h
    simp [h, h']

/-- nidq stream with one digital word (`snsMnMaXaDw = mn,ma,xa,1`): `read_sync` returns one row per sample read;
each row is the 16 digital lines of the sample's sync word followed by the `xa` thresholded analog lines. -/
theorem read_sync_layout {α : Type} [Sub α] [LT α] [DecidableLT α] [LE α] [DecidableLE α] [OfNat α 0] [OfNat α 1]
    (conv : Int → Int → α) (pct : List (List α) → Option (List α)) (toI8 : α → Int)
    (mn ma xa ntr : Nat) (rows : List (List Int)) (thr : α) (floor : Bool) (P : List α)
    (hntr : mn + ma + xa + 1 = ntr) (hrows : ∀ r ∈ rows, r.length = ntr)
    (hpct : floor = true → rows ≠ [] → pct (rows.map (analogVolts conv mn ma xa)) = some P)
    (hP : P.length = xa) :
    readSync conv pct toI8 ntr (.nidq mn ma xa 1) rows thr floor =
      .ok (rows.map fun r => digitalLines ntr r ++ analogLines conv toI8 mn ma xa thr floor P r) ∧
    (∀ r, (digitalLines ntr r).length = 16 ∧
      (analogLines conv toI8 mn ma xa thr floor P r).length = xa) := by
  refine ⟨readSync_nidq conv pct toI8 mn ma xa ntr rows thr floor P hntr hrows hpct hP, ?_⟩
  intro r
  simp [digitalLines, analogLines, splitSync_length]

/-- imec stream (ap or lf, one sync word): `read_sync` returns one row of 16 digital lines per sample read. -/
theorem read_sync_layout_imec {α : Type} [Sub α] [LT α] [DecidableLT α] [LE α] [DecidableLE α] [OfNat α 0]
    [OfNat α 1] (conv : Int → Int → α) (pct : List (List α) → Option (List α)) (toI8 : α → Int)
    (ap lf ntr : Nat) (rows : List (List Int)) (thr : α) (floor : Bool)
    (htyp : (ap = 0 ∧ lf ≠ 0) ∨ (ap ≠ 0 ∧ lf = 0)) (hntr : 1 ≤ ntr) (hrows : ∀ r ∈ rows, r.length = ntr) :
    readSync conv pct toI8 ntr (.imec ap lf 1) rows thr floor = .ok (rows.map (digitalLines ntr)) :=
  readSync_imec conv pct toI8 ap lf ntr rows thr floor htyp hntr hrows

/-- Zero selected samples (e.g. `slice(ns, ns + 10000)`, `slice(k, k)`) give zero rows on every nidq stream, with or
without analog lines and floor, even when `np.percentile` would raise on an empty input (`pct` arbitrary): the
behaviour after the `fix:` commit that guards the floor removal with `analog.size`. -/
theorem read_sync_empty_selection {α : Type} [Sub α] [LT α] [DecidableLT α] [LE α] [DecidableLE α] [OfNat α 0]
    [OfNat α 1] (conv : Int → Int → α) (pct : List (List α) → Option (List α)) (toI8 : α → Int)
    (mn ma xa ntr : Nat) (thr : α) (floor : Bool) :
    readSync conv pct toI8 ntr (.nidq mn ma xa 1) [] thr floor = .ok [] :=
  readSync_empty conv pct toI8 mn ma xa ntr thr floor

/-- Known finding `read-sync-no-meta`, as a theorem about the model: a reader opened without meta data cannot
read the sync trace at all (`_get_sync_trace_indices_from_meta(None)`), whatever the samples. -/
theorem read_sync_no_meta_counterexample (rows : List (List Int)) :
    readSync (α := Int) (fun _ x => x) (fun _ => some []) (fun v => v) 385 .nometa rows 1 true
      = .error .attributeError := by
  simp [readSync, readSyncDigital, syncIdx]

/-- Digital line `k` of a sample is bit `k` of the word stored in the sync channel (the last channel). -/
theorem digital_line_bit (ntr : Nat) (r : List Int) (k : Nat) (hk : k < 16) :
    (digitalLines ntr r)[k]? = some (if (wordOfInt (r.getD (ntr - 1) 0)).testBit k then 1 else 0) := by
  unfold digitalLines
  have hw : wordOfInt (r.getD (ntr - 1) 0) < 65536 := by unfold wordOfInt; omega
  rw [List.getElem?_map, (split_sync_bit _ hw k hk).2]
  split <;> rfl

/-! ## 5. Every TTL event is recovered -/

/-- Any 16 binary trains written into the sync channel of a nidq recording and read back through `read_sync`:
front detection along the time axis returns, for every line `k < 16`, exactly the samples at which train `k`
changes, `+1` for a rise and `-1` for a fall; `rises` / `falls` return the two halves. -/
theorem ttl_recovered {α : Type} [Sub α] [LT α] [DecidableLT α] [LE α] [DecidableLE α] [OfNat α 0] [OfNat α 1]
    (conv : Int → Int → α) (pct : List (List α) → Option (List α)) (toI8 : α → Int)
    (mn ma xa ntr : Nat) (rows : List (List Int)) (thr : α) (floor : Bool) (P : List α)
    (hntr : mn + ma + xa + 1 = ntr) (hrows : ∀ r ∈ rows, r.length = ntr)
    (hpct : floor = true → rows ≠ [] → pct (rows.map (analogVolts conv mn ma xa)) = some P)
    (hP : P.length = xa)
    (n : Nat) (train : Nat → Nat → Bool)
    (hsync : rows.map (fun r => r.getD (ntr - 1) 0) = recordTTL n train) :
    ∃ sync, readSync conv pct toI8 ntr (.nidq mn ma xa 1) rows thr floor = .ok sync ∧ sync.length = n ∧
      ∀ t k, k < 16 →
        (∀ s, ((t, k), s) ∈ fronts2 0 sync 1 ↔
          1 ≤ t ∧ t < n ∧ train k t ≠ train k (t - 1) ∧ s = if train k t then 1 else -1) ∧
        ((t, k) ∈ rises2 0 sync 1 false ↔ 1 ≤ t ∧ t < n ∧ train k (t - 1) = false ∧ train k t = true) ∧
        ((t, k) ∈ falls2 0 sync (-1) false ↔ 1 ≤ t ∧ t < n ∧ train k (t - 1) = true ∧ train k t = false) := by
  refine ⟨_, (read_sync_layout conv pct toI8 mn ma xa ntr rows thr floor P hntr hrows hpct hP).1, ?_, ?_⟩
  · have := congrArg List.length hsync
    simpa [recordTTL_length] using this
  · intro t k hk
    exact ⟨fun s => ttl_fronts2 n ntr train rows _ hsync t k s hk,
      ttl_rises2 n ntr train rows _ hsync t k hk, ttl_falls2 n ntr train rows _ hsync t k hk⟩

/-- The same for an imec stream (ap or lf). -/
theorem ttl_recovered_imec {α : Type} [Sub α] [LT α] [DecidableLT α] [LE α] [DecidableLE α] [OfNat α 0]
    [OfNat α 1] (conv : Int → Int → α) (pct : List (List α) → Option (List α)) (toI8 : α → Int)
    (ap lf ntr : Nat) (rows : List (List Int)) (thr : α) (floor : Bool)
    (htyp : (ap = 0 ∧ lf ≠ 0) ∨ (ap ≠ 0 ∧ lf = 0)) (hntr : 1 ≤ ntr) (hrows : ∀ r ∈ rows, r.length = ntr)
    (n : Nat) (train : Nat → Nat → Bool)
    (hsync : rows.map (fun r => r.getD (ntr - 1) 0) = recordTTL n train) :
    ∃ sync, readSync conv pct toI8 ntr (.imec ap lf 1) rows thr floor = .ok sync ∧ sync.length = n ∧
      ∀ t k, k < 16 →
        (∀ s, ((t, k), s) ∈ fronts2 0 sync 1 ↔
          1 ≤ t ∧ t < n ∧ train k t ≠ train k (t - 1) ∧ s = if train k t then 1 else -1) ∧
        ((t, k) ∈ rises2 0 sync 1 false ↔ 1 ≤ t ∧ t < n ∧ train k (t - 1) = false ∧ train k t = true) ∧
        ((t, k) ∈ falls2 0 sync (-1) false ↔ 1 ≤ t ∧ t < n ∧ train k (t - 1) = true ∧ train k t = false) := by
  have hl := read_sync_layout_imec conv pct toI8 ap lf ntr rows thr floor htyp hntr hrows
  have he : rows.map (digitalLines ntr) = rows.map fun r => digitalLines ntr r ++ (fun _ => []) r := by
    simp
  rw [he] at hl
  refine ⟨_, hl, ?_, ?_⟩
  · have := congrArg List.length hsync
    simpa [recordTTL_length] using this
  · intro t k hk
    exact ⟨fun s => ttl_fronts2 n ntr train rows _ hsync t k s hk,
      ttl_rises2 n ntr train rows _ hsync t k hk, ttl_falls2 n ntr train rows _ hsync t k hk⟩

/-! ## Non-vacuity -/

example : splitSync 0x8005 = [1, 0, 1, 0, 0, 0, 0, 0, 0, 0, 0, 0, 0, 0, 0, 1] := by decide
example : wordOfInt (-32763) = 0x8005 ∧ int16OfWord 0x8005 = -32763 := by decide
example : frontsPairs [0, 1, 1, 0, 0, 1] (1 : Int) = [(1, 1), (3, -1), (5, 1)] := by decide
example : rises [0, 1, 1, 0, 0, 1] (1 : Int) false = [1, 5] ∧ falls [0, 1, 1, 0, 0, 1] (-1 : Int) false = [3] := by
  decide
example : rises [0, 3, 4, 3, 2] (3 : Int) true = [2] ∧ falls [0, 3, 4, 3, 2] (3 : Int) true = [4] := by decide
example : fronts2 0 [[0, 0], [1, 0], [1, 1]] (1 : Int) = [((1, 0), 1), ((2, 1), 1)] ∧
    fronts2 1 [[0, 0], [1, 0], [1, 1]] (1 : Int) = [((1, 1), -1)] := by decide
/-- The hypotheses of `threshold_spec` hold on `Int` with threshold 3. -/
example : threshold (3 : Int) 3 = 1 ∧ threshold (3 : Int) 2 = 0 ∧ (∀ a b : Int, a < b ↔ ¬ b ≤ a) :=
  ⟨by decide, by decide, fun a b => by omega⟩
/-- The hypotheses of `read_sync_layout` / `ttl_recovered` hold on a 3-sample nidq recording with one analog line
(line 0 rises at sample 1, line 2 is high on sample 2 only; analog channel thresholded at 5). -/
example :
    let rows : List (List Int) := [[9, 0], [2, 1], [7, 5]]
    readSync (α := Int) (fun _ x => x) (fun _ => some [2]) (fun v => v) 2 (.nidq 0 0 1 1) rows 5 true =
      .ok [[0, 0, 0, 0, 0, 0, 0, 0, 0, 0, 0, 0, 0, 0, 0, 0, 1],
           [1, 0, 0, 0, 0, 0, 0, 0, 0, 0, 0, 0, 0, 0, 0, 0, 0],
           [1, 0, 1, 0, 0, 0, 0, 0, 0, 0, 0, 0, 0, 0, 0, 0, 1]] ∧
    rows.map (fun r => r.getD (2 - 1) 0) =
      recordTTL 3 (fun k t => (k = 0 ∧ 1 ≤ t) ∨ (k = 2 ∧ t = 2)) := by
  intro rows
  exact ⟨rfl, by decide⟩

end IblVerif.C10
