/-
C10 — Sync words decode to TTL lines; fronts recover every event.

Property theorems only (helper lemmas live in `Lemmas/Sync*.lean`; the transcription of `split_sync`,
`Reader.read_sync*` and `fronts`/`rises`/`falls` is `Model/Sync.lean`).

Quantifiers: every 16-bit word and every line `k < 16` (no enumeration of words); every list / list of rows of
integers, every step; every family of 16 binary trains of every length; every recording whose rows have the
width announced by the meta data.
-/
import IblVerif.Analysis.SyncOrderedC10

namespace IblVerif.C10
open IblVerif.Sync

/-! ## 1. Bit layout of `split_sync` -/

/-- Every sync word is decoded into 16 lines and line `k` is bit `k` of the word. -/
theorem split_sync_bit (w : Nat) (_hw : w < 65536) (k : Nat) (hk : k < 16) :
    (splitSync w).length = 16 ∧ (splitSync w)[k]? = some (if w.testBit k then 1 else 0) := by
  refine ⟨splitSync_length w, ?_⟩
  rw [splitSync_getElem w k hk, Nat.testBit_eq_decide_div_mod_eq]
  by_cases h : w / 2 ^ k % 2 = 1
  · simp [h]
  · have : w / 2 ^ k % 2 = 0 := by omega
    simp [this]

/-- The word of a stored int16 sample is its two's-complement pattern (so line 15 is the sign bit). -/
theorem word_of_int16 (x : Int) (hx : -32768 ≤ x ∧ x ≤ 32767) :
    (wordOfInt x : Int) = (if 0 ≤ x then x else x + 65536) ∧ wordOfInt x < 65536 ∧
    (wordOfInt x).testBit 15 = decide (x < 0) := by
  unfold wordOfInt
  refine ⟨by split <;> omega, by omega, ?_⟩
  rw [Nat.testBit_eq_decide_div_mod_eq]
  by_cases h : x < 0
  · simp only [h, decide_true, decide_eq_true_eq]; omega
  · simp only [h, decide_false, decide_eq_false_iff_not]; omega

/-- Writing 16 lines into a word and decoding the stored sample returns the 16 lines. -/
theorem decode_encode (line : Nat → Bool) :
    splitSync (wordOfInt (int16OfWord (encodeWord line))) = (List.range 16).map fun k => (line k).toNat :=
  Sync.decode_encode line

/-- Decoding a whole recorded sync channel returns, sample by sample, the 16 trains. -/
theorem decode_trains (n : Nat) (train : Nat → Nat → Bool) :
    splitSyncArr (recordTTL n train) =
      (List.range n).map fun t => (List.range 16).map fun k => (train k t).toNat :=
  splitSyncArr_recordTTL n train

/-! ## 2. Front detection, 1-D -/

/-- `fronts(x, step)` returns exactly the indices `t ≥ 1` with `|x[t] − x[t−1]| ≥ step`, ascending, each with the
signed step `x[t] − x[t−1]` as its polarity. -/
theorem fronts_eq_changes (x : List Int) (step : Int) :
    (∀ t s, (t, s) ∈ frontsPairs x step ↔
      1 ≤ t ∧ ∃ a b, x[t - 1]? = some a ∧ x[t]? = some b ∧ s = b - a ∧ step ≤ ((b - a).natAbs : Int)) ∧
    (frontsPairs x step).Pairwise (fun p q => p.1 < q.1) ∧
    fronts x step = ((frontsPairs x step).map (·.1), (frontsPairs x step).map (·.2)) := by
  refine ⟨?_, shifted_where_sorted _ x, rfl⟩
  intro t s
  unfold frontsPairs
  rw [shifted_where_mem]
  simp only [decide_eq_true_eq, absV_int]
  constructor
  · rintro ⟨h1, a, b, ha, hb, hs, hp⟩; exact ⟨h1, a, b, ha, hb, hs, by rw [← hs]; exact hp⟩
  · rintro ⟨h1, a, b, ha, hb, hs, hp⟩; exact ⟨h1, a, b, ha, hb, hs, by rw [hs]; exact hp⟩

/-- On a 0/1 train (default step 1) the returned indices are exactly the samples at which the line changes; the
polarity is `+1` when it goes up and `-1` when it goes down. -/
theorem fronts_binary (x : List Int) (h01 : ∀ v ∈ x, v = 0 ∨ v = 1) (t : Nat) (s : Int) :
    (t, s) ∈ frontsPairs x 1 ↔
      1 ≤ t ∧ ∃ a b, x[t - 1]? = some a ∧ x[t]? = some b ∧ a ≠ b ∧ s = if b = 1 then 1 else -1 := by
  rw [(fronts_eq_changes x 1).1]
  constructor
  · rintro ⟨h1, a, b, ha, hb, hs, hp⟩
    have := h01 a (List.mem_of_getElem? ha)
    have := h01 b (List.mem_of_getElem? hb)
    refine ⟨h1, a, b, ha, hb, by omega, ?_⟩
    split <;> omega
  · rintro ⟨h1, a, b, ha, hb, hne, hs⟩
    have := h01 a (List.mem_of_getElem? ha)
    have := h01 b (List.mem_of_getElem? hb)
    refine ⟨h1, a, b, ha, hb, ?_, by omega⟩
    split at hs <;> omega

/-- `rises(x, step)` / `falls(x, step)` (not analog): exactly the indices with `x[t] − x[t−1] ≥ step`, resp.
`≤ step` (the default step of `falls` is `-1`), ascending. -/
theorem rises_falls_spec (x : List Int) (step : Int) :
    (∀ t, t ∈ rises x step false ↔ 1 ≤ t ∧ ∃ a b, x[t - 1]? = some a ∧ x[t]? = some b ∧ step ≤ b - a) ∧
    (∀ t, t ∈ falls x step false ↔ 1 ≤ t ∧ ∃ a b, x[t - 1]? = some a ∧ x[t]? = some b ∧ b - a ≤ step) ∧
    (rises x step false).Pairwise (· < ·) ∧ (falls x step false).Pairwise (· < ·) := by
  refine ⟨?_, ?_, shifted_where_sorted_fst _ _, shifted_where_sorted_fst _ _⟩
  · intro t
    unfold rises
    simp only [Bool.false_eq_true, if_false]
    rw [shifted_where_mem_fst]
    simp only [decide_eq_true_eq]
  · intro t
    unfold falls rises
    simp only [Bool.false_eq_true, if_false]
    rw [shifted_where_mem_fst]
    simp only [decide_eq_true_eq, List.getElem?_map]
    constructor
    · rintro ⟨h1, a, b, ha, hb, hp⟩
      cases hx : x[t - 1]? with
      | none => simp [hx] at ha
      | some a' =>
        cases hy : x[t]? with
        | none => simp [hy] at hb
        | some b' =>
          simp only [hx, hy, Option.map_some, Option.some.injEq] at ha hb
          exact ⟨h1, a', b', rfl, rfl, by omega⟩
    · rintro ⟨h1, a, b, ha, hb, hp⟩
      exact ⟨h1, -a, -b, by simp [ha], by simp [hb], by omega⟩

/-- On a 0/1 train, `rises(x)` are exactly the 0→1 samples and `falls(x)` (default step −1) the 1→0 samples. -/
theorem rises_falls_binary (x : List Int) (h01 : ∀ v ∈ x, v = 0 ∨ v = 1) (t : Nat) :
    (t ∈ rises x 1 false ↔ 1 ≤ t ∧ x[t - 1]? = some 0 ∧ x[t]? = some 1) ∧
    (t ∈ falls x (-1) false ↔ 1 ≤ t ∧ x[t - 1]? = some 1 ∧ x[t]? = some 0) := by
  rw [(rises_falls_spec x 1).1, (rises_falls_spec x (-1)).2.1]
  constructor
  · constructor
    · rintro ⟨h1, a, b, ha, hb, hp⟩
      have := h01 a (List.mem_of_getElem? ha)
      have := h01 b (List.mem_of_getElem? hb)
      have ha' : a = 0 := by omega
      have hb' : b = 1 := by omega
      subst ha' hb'; exact ⟨h1, ha, hb⟩
    · rintro ⟨h1, ha, hb⟩; exact ⟨h1, 0, 1, ha, hb, by omega⟩
  · constructor
    · rintro ⟨h1, a, b, ha, hb, hp⟩
      have := h01 a (List.mem_of_getElem? ha)
      have := h01 b (List.mem_of_getElem? hb)
      have ha' : a = 1 := by omega
      have hb' : b = 0 := by omega
      subst ha' hb'; exact ⟨h1, ha, hb⟩
    · rintro ⟨h1, ha, hb⟩; exact ⟨h1, 1, 0, ha, hb, by omega⟩

/-- Analog mode: `rises` returns exactly the samples at which the trace crosses the threshold upwards
(`x[t−1] ≤ step < x[t]`), `falls` those at which it crosses downwards (`x[t] < step ≤ x[t−1]`). -/
theorem rises_falls_analog (x : List Int) (step : Int) (t : Nat) :
    (t ∈ rises x step true ↔ 1 ≤ t ∧ ∃ a b, x[t - 1]? = some a ∧ x[t]? = some b ∧ a ≤ step ∧ step < b) ∧
    (t ∈ falls x step true ↔ 1 ≤ t ∧ ∃ a b, x[t - 1]? = some a ∧ x[t]? = some b ∧ step ≤ a ∧ b < step) := by
  constructor
  · unfold rises binarize binOne
    simp only [if_true]
    rw [shifted_where_mem_fst]
    simp only [decide_eq_true_eq, List.getElem?_map]
    constructor
    · rintro ⟨h1, a, b, ha, hb, hp⟩
      cases hx : x[t - 1]? with
      | none => simp [hx] at ha
      | some a' =>
        cases hy : x[t]? with
        | none => simp [hy] at hb
        | some b' =>
          simp only [hx, hy, Option.map_some, Option.some.injEq] at ha hb
          refine ⟨h1, a', b', rfl, rfl, ?_⟩
          subst ha hb
          split at hp <;> split at hp <;> omega
    · rintro ⟨h1, a, b, ha, hb, h2, h3⟩
      refine ⟨h1, 0, 1, ?_, ?_, by omega⟩
      · simp only [ha, Option.map_some, Option.some.injEq]; split <;> omega
      · simp only [hb, Option.map_some, Option.some.injEq]; split <;> omega
  · unfold falls rises binarize binOne
    simp only [if_true]
    rw [shifted_where_mem_fst]
    simp only [decide_eq_true_eq, List.getElem?_map, List.map_map]
    constructor
    · rintro ⟨h1, a, b, ha, hb, hp⟩
      cases hx : x[t - 1]? with
      | none => simp [hx] at ha
      | some a' =>
        cases hy : x[t]? with
        | none => simp [hy] at hb
        | some b' =>
          simp only [hx, hy, Option.map_some, Option.some.injEq, Function.comp] at ha hb
          refine ⟨h1, a', b', rfl, rfl, ?_⟩
          subst ha hb
          split at hp <;> split at hp <;> omega
    · rintro ⟨h1, a, b, ha, hb, h2, h3⟩
      refine ⟨h1, 0, 1, ?_, ?_, by omega⟩
      · simp only [ha, Option.map_some, Option.some.injEq, Function.comp]; split <;> omega
      · simp only [hb, Option.map_some, Option.some.injEq, Function.comp]; split <;> omega

/-! ## 3. Front detection, 2-D, along either axis -/

/-- `fronts(x, axis, step)` on a 2-D array (`axis` 0 or 1): exactly the positions `ij` that have a predecessor
along `axis` with `|x[ij] − x[prev ij]| ≥ step`, each with that signed step, listed in C order. -/
theorem fronts2_eq_changes (axis : Nat) (x : List (List Int)) (step : Int) :
    (∀ ij s, (ij, s) ∈ fronts2 axis x step ↔
      1 ≤ coord axis ij ∧ ∃ a b, at2 x (prevPos axis ij) = some a ∧ at2 x ij = some b ∧ s = b - a ∧
        step ≤ ((b - a).natAbs : Int)) ∧
    (fronts2 axis x step).Pairwise (fun p q => lexLt p.1 q.1) := by
  refine ⟨?_, shifted_where2_sorted _ axis x⟩
  intro ij s
  unfold fronts2
  rw [shifted_where2_mem]
  simp only [decide_eq_true_eq, absV_int]
  constructor
  · rintro ⟨h1, a, b, ha, hb, hs, hp⟩; exact ⟨h1, a, b, ha, hb, hs, by rw [← hs]; exact hp⟩
  · rintro ⟨h1, a, b, ha, hb, hs, hp⟩; exact ⟨h1, a, b, ha, hb, hs, by rw [hs]; exact hp⟩

/-- `rises` / `falls` on a 2-D array along either axis (not analog), in C order. -/
theorem rises2_falls2_spec (axis : Nat) (x : List (List Int)) (step : Int) :
    (∀ ij, ij ∈ rises2 axis x step false ↔
      1 ≤ coord axis ij ∧ ∃ a b, at2 x (prevPos axis ij) = some a ∧ at2 x ij = some b ∧ step ≤ b - a) ∧
    (∀ ij, ij ∈ falls2 axis x step false ↔
      1 ≤ coord axis ij ∧ ∃ a b, at2 x (prevPos axis ij) = some a ∧ at2 x ij = some b ∧ b - a ≤ step) ∧
    (rises2 axis x step false).Pairwise lexLt ∧ (falls2 axis x step false).Pairwise lexLt := by
  refine ⟨?_, ?_, shifted_where2_sorted_fst _ _ _, shifted_where2_sorted_fst _ _ _⟩
  · intro ij
    unfold rises2
    simp only [Bool.false_eq_true, if_false]
    rw [shifted_where2_mem_fst]
    simp only [decide_eq_true_eq]
  · intro ij
    unfold falls2 rises2
    simp only [Bool.false_eq_true, if_false]
    rw [shifted_where2_mem_fst]
    simp only [decide_eq_true_eq, at2_map_map]
    constructor
    · rintro ⟨h1, a, b, ha, hb, hp⟩
      cases hx : at2 x (prevPos axis ij) with
      | none => simp [hx] at ha
      | some a' =>
        cases hy : at2 x ij with
        | none => simp [hy] at hb
        | some b' =>
          simp only [hx, hy, Option.map_some, Option.some.injEq] at ha hb
          exact ⟨h1, a', b', rfl, rfl, by omega⟩
    · rintro ⟨h1, a, b, ha, hb, hp⟩
      exact ⟨h1, -a, -b, by simp [ha], by simp [hb], by omega⟩

/-- Analog mode on a 2-D array along either axis: upward, resp. downward, crossings of the threshold. -/
theorem rises2_falls2_analog (axis : Nat) (x : List (List Int)) (step : Int) (ij : Nat × Nat) :
    (ij ∈ rises2 axis x step true ↔
      1 ≤ coord axis ij ∧ ∃ a b, at2 x (prevPos axis ij) = some a ∧ at2 x ij = some b ∧ a ≤ step ∧ step < b) ∧
    (ij ∈ falls2 axis x step true ↔
      1 ≤ coord axis ij ∧ ∃ a b, at2 x (prevPos axis ij) = some a ∧ at2 x ij = some b ∧ step ≤ a ∧ b < step) := by
  constructor
  · unfold rises2 binarize binOne
    simp only [if_true]
    rw [shifted_where2_mem_fst]
    simp only [decide_eq_true_eq, at2_map_map]
    constructor
    · rintro ⟨h1, a, b, ha, hb, hp⟩
      cases hx : at2 x (prevPos axis ij) with
      | none => simp [hx] at ha
      | some a' =>
        cases hy : at2 x ij with
        | none => simp [hy] at hb
        | some b' =>
          simp only [hx, hy, Option.map_some, Option.some.injEq] at ha hb
          refine ⟨h1, a', b', rfl, rfl, ?_⟩
          subst ha hb
          split at hp <;> split at hp <;> omega
    · rintro ⟨h1, a, b, ha, hb, h2, h3⟩
      refine ⟨h1, 0, 1, ?_, ?_, by omega⟩
      · simp only [ha, Option.map_some, Option.some.injEq]; split <;> omega
      · simp only [hb, Option.map_some, Option.some.injEq]; split <;> omega
  · unfold falls2 rises2 binarize binOne
    simp only [if_true]
    rw [shifted_where2_mem_fst]
    simp only [decide_eq_true_eq, at2_map_map]
    constructor
    · rintro ⟨h1, a, b, ha, hb, hp⟩
      cases hx : at2 x (prevPos axis ij) with
      | none => simp [hx] at ha
      | some a' =>
        cases hy : at2 x ij with
        | none => simp [hy] at hb
        | some b' =>
          simp only [hx, hy, Option.map_some, Option.some.injEq] at ha hb
          refine ⟨h1, a', b', rfl, rfl, ?_⟩
          subst ha hb
          split at hp <;> split at hp <;> omega
    · rintro ⟨h1, a, b, ha, hb, h2, h3⟩
      refine ⟨h1, 0, 1, ?_, ?_, by omega⟩
      · simp only [ha, Option.map_some, Option.some.injEq]; split <;> omega
      · simp only [hb, Option.map_some, Option.some.injEq]; split <;> omega

/-! ## 4. Reading sync through the reader -/

/-- The two masked assignments of `read_sync` binarise a value at the threshold, for every ordered value type in
which `<` is the negation of `≥` and the threshold is positive. -/
theorem threshold_spec {α : Type} [Sub α] [LT α] [DecidableLT α] [LE α] [DecidableLE α] [OfNat α 0] [OfNat α 1]
    (hlt : ∀ a b : α, a < b ↔ ¬ b ≤ a) (thr v : α) (hthr : (0 : α) < thr) :
    threshold thr v = if thr ≤ v then 1 else 0 := by
  unfold threshold
  by_cases h : v < thr
  · have h' : ¬ thr ≤ v := (hlt v thr).mp h
    have h0 : ¬ thr ≤ (0 : α) := (hlt 0 thr).mp hthr
    simp [h, h', h0]
  · have h' : thr ≤ v := by
      by_cases h'' : thr ≤ v
      · exact h''
      · exact absurd ((hlt v thr).mpr h'') h
    simp [h, h']

/-- nidq stream with one digital word (`snsMnMaXaDw = mn,ma,xa,1`): `read_sync` returns one row per sample read;
each row is the 16 digital lines of the sample's sync word followed by the `xa` thresholded analog lines. -/
theorem read_sync_layout {α : Type} [Sub α] [LT α] [DecidableLT α] [LE α] [DecidableLE α] [OfNat α 0] [OfNat α 1]
    (conv : Int → Int → α) (pct : List (List α) → Option (List α)) (toI8 : α → Int)
    (mn ma xa ntr : Nat) (rows : List (List Int)) (thr : α) (floor : Bool) (P : List α)
    (hntr : mn + ma + xa + 1 = ntr) (hrows : ∀ r ∈ rows, r.length = ntr)
    (hpct : floor = true → rows ≠ [] → pct (rows.map (analogVolts conv mn ma xa)) = some P)
    (hP : P.length = xa) :
    readSync conv pct toI8 ntr (.nidq mn ma xa 1) rows thr floor =
      .ok (rows.map fun r => digitalLines ntr r ++ analogLines conv toI8 mn ma xa thr floor P r) ∧
    (∀ r, (digitalLines ntr r).length = 16 ∧
      (analogLines conv toI8 mn ma xa thr floor P r).length = xa) := by
  refine ⟨readSync_nidq conv pct toI8 mn ma xa ntr rows thr floor P hntr hrows hpct hP, ?_⟩
  intro r
  simp [digitalLines, analogLines, splitSync_length]

/-- imec stream (ap or lf, one sync word): `read_sync` returns one row of 16 digital lines per sample read. -/
theorem read_sync_layout_imec {α : Type} [Sub α] [LT α] [DecidableLT α] [LE α] [DecidableLE α] [OfNat α 0]
    [OfNat α 1] (conv : Int → Int → α) (pct : List (List α) → Option (List α)) (toI8 : α → Int)
    (ap lf ntr : Nat) (rows : List (List Int)) (thr : α) (floor : Bool)
    (htyp : (ap = 0 ∧ lf ≠ 0) ∨ (ap ≠ 0 ∧ lf = 0)) (hntr : 1 ≤ ntr) (hrows : ∀ r ∈ rows, r.length = ntr) :
    readSync conv pct toI8 ntr (.imec ap lf 1) rows thr floor = .ok (rows.map (digitalLines ntr)) :=
  readSync_imec conv pct toI8 ap lf ntr rows thr floor htyp hntr hrows

/-- Zero selected samples (e.g. `slice(ns, ns + 10000)`, `slice(k, k)`) give zero rows on every nidq stream, with or
without analog lines and floor, even when `np.percentile` would raise on an empty input (`pct` arbitrary): the
behaviour after the `fix:` commit that guards the floor removal with `analog.size`. -/
theorem read_sync_empty_selection {α : Type} [Sub α] [LT α] [DecidableLT α] [LE α] [DecidableLE α] [OfNat α 0]
    [OfNat α 1] (conv : Int → Int → α) (pct : List (List α) → Option (List α)) (toI8 : α → Int)
    (mn ma xa ntr : Nat) (thr : α) (floor : Bool) :
    readSync conv pct toI8 ntr (.nidq mn ma xa 1) [] thr floor = .ok [] :=
  readSync_empty conv pct toI8 mn ma xa ntr thr floor

/-- Known finding `read-sync-no-meta`, as a theorem about the model: a reader opened without meta data cannot
read the sync trace at all (`_get_sync_trace_indices_from_meta(None)`), whatever the samples. -/
theorem read_sync_no_meta_counterexample (rows : List (List Int)) :
    readSync (α := Int) (fun _ x => x) (fun _ => some []) (fun v => v) 385 .nometa rows 1 true
      = .error .attributeError := by
  simp [readSync, readSyncDigital, syncIdx]

/-- Digital line `k` of a sample is bit `k` of the word stored in the sync channel (the last channel). -/
theorem digital_line_bit (ntr : Nat) (r : List Int) (k : Nat) (hk : k < 16) :
    (digitalLines ntr r)[k]? = some (if (wordOfInt (r.getD (ntr - 1) 0)).testBit k then 1 else 0) := by
  unfold digitalLines
  have hw : wordOfInt (r.getD (ntr - 1) 0) < 65536 := by unfold wordOfInt; omega
  rw [List.getElem?_map, (split_sync_bit _ hw k hk).2]
  split <;> rfl

/-! ## 5. Every TTL event is recovered -/

/-- Any 16 binary trains written into the sync channel of a nidq recording and read back through `read_sync`:
front detection along the time axis returns, for every line `k < 16`, exactly the samples at which train `k`
changes, `+1` for a rise and `-1` for a fall; `rises` / `falls` return the two halves. -/
theorem ttl_recovered {α : Type} [Sub α] [LT α] [DecidableLT α] [LE α] [DecidableLE α] [OfNat α 0] [OfNat α 1]
    (conv : Int → Int → α) (pct : List (List α) → Option (List α)) (toI8 : α → Int)
    (mn ma xa ntr : Nat) (rows : List (List Int)) (thr : α) (floor : Bool) (P : List α)
    (hntr : mn + ma + xa + 1 = ntr) (hrows : ∀ r ∈ rows, r.length = ntr)
    (hpct : floor = true → rows ≠ [] → pct (rows.map (analogVolts conv mn ma xa)) = some P)
    (hP : P.length = xa)
    (n : Nat) (train : Nat → Nat → Bool)
    (hsync : rows.map (fun r => r.getD (ntr - 1) 0) = recordTTL n train) :
    ∃ sync, readSync conv pct toI8 ntr (.nidq mn ma xa 1) rows thr floor = .ok sync ∧ sync.length = n ∧
      ∀ t k, k < 16 →
        (∀ s, ((t, k), s) ∈ fronts2 0 sync 1 ↔
          1 ≤ t ∧ t < n ∧ train k t ≠ train k (t - 1) ∧ s = if train k t then 1 else -1) ∧
        ((t, k) ∈ rises2 0 sync 1 false ↔ 1 ≤ t ∧ t < n ∧ train k (t - 1) = false ∧ train k t = true) ∧
        ((t, k) ∈ falls2 0 sync (-1) false ↔ 1 ≤ t ∧ t < n ∧ train k (t - 1) = true ∧ train k t = false) := by
  refine ⟨_, (read_sync_layout conv pct toI8 mn ma xa ntr rows thr floor P hntr hrows hpct hP).1, ?_, ?_⟩
  · have := congrArg List.length hsync
    simpa [recordTTL_length] using this
  · intro t k hk
    exact ⟨fun s => ttl_fronts2 n ntr train rows _ hsync t k s hk,
      ttl_rises2 n ntr train rows _ hsync t k hk, ttl_falls2 n ntr train rows _ hsync t k hk⟩

/-- The same for an imec stream (ap or lf). -/
theorem ttl_recovered_imec {α : Type} [Sub α] [LT α] [DecidableLT α] [LE α] [DecidableLE α] [OfNat α 0]
    [OfNat α 1] (conv : Int → Int → α) (pct : List (List α) → Option (List α)) (toI8 : α → Int)
    (ap lf ntr : Nat) (rows : List (List Int)) (thr : α) (floor : Bool)
    (htyp : (ap = 0 ∧ lf ≠ 0) ∨ (ap ≠ 0 ∧ lf = 0)) (hntr : 1 ≤ ntr) (hrows : ∀ r ∈ rows, r.length = ntr)
    (n : Nat) (train : Nat → Nat → Bool)
    (hsync : rows.map (fun r => r.getD (ntr - 1) 0) = recordTTL n train) :
    ∃ sync, readSync conv pct toI8 ntr (.imec ap lf 1) rows thr floor = .ok sync ∧ sync.length = n ∧
      ∀ t k, k < 16 →
        (∀ s, ((t, k), s) ∈ fronts2 0 sync 1 ↔
          1 ≤ t ∧ t < n ∧ train k t ≠ train k (t - 1) ∧ s = if train k t then 1 else -1) ∧
        ((t, k) ∈ rises2 0 sync 1 false ↔ 1 ≤ t ∧ t < n ∧ train k (t - 1) = false ∧ train k t = true) ∧
        ((t, k) ∈ falls2 0 sync (-1) false ↔ 1 ≤ t ∧ t < n ∧ train k (t - 1) = true ∧ train k t = false) := by
  have hl := read_sync_layout_imec conv pct toI8 ap lf ntr rows thr floor htyp hntr hrows
  have he : rows.map (digitalLines ntr) = rows.map fun r => digitalLines ntr r ++ (fun _ => []) r := by
    simp
  rw [he] at hl
  refine ⟨_, hl, ?_, ?_⟩
  · have := congrArg List.length hsync
    simpa [recordTTL_length] using this
  · intro t k hk
    exact ⟨fun s => ttl_fronts2 n ntr train rows _ hsync t k s hk,
      ttl_rises2 n ntr train rows _ hsync t k hk, ttl_falls2 n ntr train rows _ hsync t k hk⟩

/-! ## 6. Growth round: the array pipeline, row-wise and column-wise detection, windows, exactly-once -/

/-- `split_sync` on a whole array, as the source computes it (cast to int16, byte view, `unpackbits`,
`reshape(size, 16)`, roll by 8 and flip along axis 1): one output row per sample, in the order of the samples, and
entry `(t, k)` is bit `k` of the word of sample `t` — for every array of samples of every length. -/
theorem split_sync_array (xs : List Int) :
    ∃ out, splitSyncFlat xs = some out ∧ out.length = xs.length ∧
      ∀ t x, xs[t]? = some x → ∀ k, k < 16 →
        at2 out (t, k) = some (if (wordOfInt x).testBit k then 1 else 0) := by
  refine ⟨splitSyncArr xs, splitSyncFlat_eq xs, by simp [splitSyncArr], ?_⟩
  intro t x hx k hk
  have hw : wordOfInt x < 65536 := by unfold wordOfInt; omega
  unfold at2 splitSyncArr
  simp only [List.getElem?_map, hx, Option.map_some]
  exact (split_sync_bit _ hw k hk).2

section Generic
variable {α : Type} [Sub α] [Neg α] [LT α] [DecidableLT α] [LE α] [DecidableLE α] [OfNat α 0] [OfNat α 1]

/-- 2-D detection along the LAST axis is the 1-D detection applied to every row, rows in order (every shape, also
ragged or empty; every value type): equality of the returned lists. -/
theorem fronts2_rowwise (x : List (List α)) (step : α) (analog : Bool) :
    fronts2 1 x step = x.zipIdx.flatMap (fun ri => (frontsPairs ri.1 step).map fun q => ((ri.2, q.1), q.2)) ∧
    rises2 1 x step analog = x.zipIdx.flatMap (fun ri => (rises ri.1 step analog).map fun t => (ri.2, t)) ∧
    falls2 1 x step analog = x.zipIdx.flatMap (fun ri => (falls ri.1 step analog).map fun t => (ri.2, t)) := by
  have hr : ∀ (y : List (List α)) (st : α) (an : Bool),
      rises2 1 y st an = y.zipIdx.flatMap (fun ri => (rises ri.1 st an).map fun t => (ri.2, t)) := by
    intro y st an
    rw [rises2_eq_sw2]
    unfold sw2
    rw [sw2_axis1_rowwise, List.zipIdx_map]
    simp only [List.map_flatMap, List.flatMap_map, List.map_map, Function.comp_def, rises_eq_sw1, Prod.map_fst,
      Prod.map_snd, id]
  refine ⟨?_, hr x step analog, ?_⟩
  · rw [fronts2_eq_sw2]
    unfold sw2
    rw [sw2_axis1_rowwise]
    rfl
  · unfold falls2 falls
    rw [hr, List.zipIdx_map]
    simp only [List.flatMap_map, Prod.map_fst, Prod.map_snd, id]

/-- 2-D detection along the FIRST axis is the 1-D detection on every column: `(i, j)` is reported iff `i` is reported
for column `j` (`col` is any list holding the entries of column `j`), with the same signed step. -/
theorem fronts2_columnwise (x : List (List α)) (col : List α) (j : Nat) (hcol : ∀ i, col[i]? = at2 x (i, j))
    (step : α) (analog : Bool) (i : Nat) :
    (∀ s, ((i, j), s) ∈ fronts2 0 x step ↔ (i, s) ∈ frontsPairs col step) ∧
    ((i, j) ∈ rises2 0 x step analog ↔ i ∈ rises col step analog) ∧
    ((i, j) ∈ falls2 0 x step analog ↔ i ∈ falls col step analog) := by
  have hr : ∀ (y : List (List α)) (cl : List α) (_ : ∀ i, cl[i]? = at2 y (i, j)) (st : α) (an : Bool),
      ((i, j) ∈ rises2 0 y st an ↔ i ∈ rises cl st an) := by
    intro y cl hcl st an
    rw [rises2_eq_sw2, rises_eq_sw1]
    have hc : ∀ i', (cl.map (if an then binOne st else id))[i']? =
        at2 (y.map fun r => r.map (if an then binOne st else id)) (i', j) := by
      intro i'; rw [at2_map_map, List.getElem?_map, hcl]
    simp only [List.mem_map, Prod.exists, exists_and_right, exists_eq_right]
    constructor
    · rintro ⟨v, hv⟩
      exact ⟨v, (sw2_axis0_col _ _ _ j hc i v).mp (by simpa using hv)⟩
    · rintro ⟨v, hv⟩
      exact ⟨v, by simpa using (sw2_axis0_col _ _ _ j hc i v).mpr hv⟩
  refine ⟨fun s => sw2_axis0_col _ x col j hcol i s, hr x col hcol step analog, ?_⟩
  unfold falls2 falls
  apply hr
  intro i'
  rw [at2_map_map, List.getElem?_map, hcol]

/-- **Window independence** (1-D).  A trace visited in consecutive windows of any sizes (also empty ones), each window
but the first read again from the last sample already seen: the detections of the windows, moved by the position of
their first sample, are exactly the detections on the whole trace — every event once, none lost on a seam.
`fronts`, and `rises` / `falls` in either mode. -/
theorem fronts_windows (ws : List (List α)) (step : α) (analog : Bool) :
    chunked (fun w => frontsPairs w step) (fun k q => (q.1 + k, q.2)) 0 none ws = frontsPairs ws.flatten step ∧
    chunked (fun w => rises w step analog) (fun k t => t + k) 0 none ws = rises ws.flatten step analog ∧
    chunked (fun w => falls w step analog) (fun k t => t + k) 0 none ws = falls ws.flatten step analog := by
  have hr : ∀ (st : α) (an : Bool) (h : α → α) (p : α → Bool),
      chunked (fun w => (sw1 p (w.map h)).map (·.1)) (fun k t => t + k) 0 none ws =
        (sw1 p (ws.flatten.map h)).map (·.1) := by
    intro _ _ h p
    have := chunked_of_seam (fun w : List α => (sw1 p (w.map h)).map (·.1)) (fun k t => t + k)
      (by simp [sw1_nil]) (by simp)
      (by
        intro l1 a l2
        simp only [List.map_append, List.map_cons, List.map_nil]
        rw [sw1_seam]
        simp [List.map_map, Function.comp_def])
      ws []
    simpa [sw1_nil] using this.symm
  refine ⟨?_, ?_, ?_⟩
  · have := chunked_of_seam (fun w : List α => frontsPairs w step) (fun k q => (q.1 + k, q.2))
      (by simp [frontsPairs_eq_sw1, sw1_nil]) (by simp)
      (by intro l1 a l2; simp only [frontsPairs_eq_sw1]; exact sw1_seam _ l1 l2 a) ws []
    simpa [frontsPairs_eq_sw1, sw1_nil] using this.symm
  · simp only [rises_eq_sw1]
    exact hr step analog _ _
  · have hf : ∀ w : List α, falls w step analog =
        (sw1 (risesPred (if analog then 1 else -step))
          (w.map ((if analog then binOne (-step) else id) ∘ fun v => -v))).map (·.1) := by
      intro w; unfold falls; rw [rises_eq_sw1, List.map_map]
    simp only [hf]
    exact hr step analog _ _

/-- **Window independence** (2-D, along the first axis: rows = samples, as for a decoded sync matrix). -/
theorem fronts2_windows (ws : List (List (List α))) (step : α) (analog : Bool) :
    chunked (fun w => fronts2 0 w step) (fun k q => ((q.1.1 + k, q.1.2), q.2)) 0 none ws = fronts2 0 ws.flatten step ∧
    chunked (fun w => rises2 0 w step analog) (fun k q => (q.1 + k, q.2)) 0 none ws = rises2 0 ws.flatten step analog ∧
    chunked (fun w => falls2 0 w step analog) (fun k q => (q.1 + k, q.2)) 0 none ws = falls2 0 ws.flatten step analog := by
  have hr : ∀ (h : α → α) (p : α → Bool),
      chunked (fun w : List (List α) => (sw2 p 0 (w.map fun r => r.map h)).map (·.1)) (fun k q => (q.1 + k, q.2)) 0 none ws =
        (sw2 p 0 (ws.flatten.map fun r => r.map h)).map (·.1) := by
    intro h p
    have := chunked_of_seam (fun w : List (List α) => (sw2 p 0 (w.map fun r => r.map h)).map (·.1))
      (fun k q => (q.1 + k, q.2)) (by simp [sw2_nil]) (by simp)
      (by
        intro l1 a l2
        simp only [List.map_append, List.map_cons, List.map_nil]
        rw [sw2_seam]
        simp [List.map_map, Function.comp_def])
      ws []
    simpa [sw2_nil] using this.symm
  refine ⟨?_, ?_, ?_⟩
  · have := chunked_of_seam (fun w : List (List α) => fronts2 0 w step) (fun k q => ((q.1.1 + k, q.1.2), q.2))
      (by simp [fronts2_eq_sw2, sw2_nil]) (by simp)
      (by intro l1 a l2; simp only [fronts2_eq_sw2]; exact sw2_seam _ l1 l2 a) ws []
    simpa [fronts2_eq_sw2, sw2_nil] using this.symm
  · simp only [rises2_eq_sw2]
    exact hr _ _
  · have hf : ∀ w : List (List α), falls2 0 w step analog =
        (sw2 (risesPred (if analog then 1 else -step)) 0
          (w.map fun r => r.map ((if analog then binOne (-step) else id) ∘ fun v => -v))).map (·.1) := by
      intro w; unfold falls2; rw [rises2_eq_sw2, List.map_map]
      simp [List.map_map, Function.comp_def]
    simp only [hf]
    exact hr _ _

/-- **Exactly once.**  `rises` and `falls` (either mode) list every detected sample exactly once. -/
theorem detected_once (x : List α) (step : α) (analog : Bool) (t : Nat) :
    (rises x step analog).count t = (if t ∈ rises x step analog then 1 else 0) ∧
    (falls x step analog).count t = (if t ∈ falls x step analog then 1 else 0) := by
  have hs : ∀ (y : List α) (st : α) (an : Bool), (rises y st an).Pairwise (· < ·) := by
    intro y st an
    unfold rises
    exact shifted_where_sorted_fst _ _
  exact ⟨count_of_sorted _ (hs x step analog) t, count_of_sorted _ (by unfold falls; exact hs _ _ _) t⟩

end Generic

/-- Analog mode: a trace that crosses the threshold between two consecutive samples yields exactly one front there —
one entry of `rises` when it goes up (`x[t−1] ≤ thr < x[t]`), one entry of `falls` when it goes down, never both, and
no entry anywhere else. -/
theorem analog_crossing_once (x : List Int) (thr : Int) (t : Nat) :
    ((rises x thr true).count t = 1 ↔ 1 ≤ t ∧ ∃ a b, x[t - 1]? = some a ∧ x[t]? = some b ∧ a ≤ thr ∧ thr < b) ∧
    ((falls x thr true).count t = 1 ↔ 1 ≤ t ∧ ∃ a b, x[t - 1]? = some a ∧ x[t]? = some b ∧ thr ≤ a ∧ b < thr) ∧
    (rises x thr true).count t ≤ 1 ∧ (falls x thr true).count t ≤ 1 ∧
    ¬ (t ∈ rises x thr true ∧ t ∈ falls x thr true) := by
  have h := detected_once x thr true t
  have ha := rises_falls_analog x thr t
  refine ⟨?_, ?_, ?_, ?_, ?_⟩
  · rw [h.1, ← ha.1]; split <;> simp_all
  · rw [h.2, ← ha.2]; split <;> simp_all
  · rw [h.1]; split <;> omega
  · rw [h.2]; split <;> omega
  · rw [ha.1, ha.2]
    rintro ⟨⟨_, a, b, h1, h2, h3, h4⟩, ⟨_, a', b', h1', h2', h3', h4'⟩⟩
    rw [h1] at h1'; rw [h2] at h2'
    cases h1'; cases h2'
    omega

/-- Column `j` of a rectangular integer matrix satisfies the hypothesis of `fronts2_columnwise`. -/
theorem fronts2_columnwise_rect (x : List (List Int)) (c j : Nat) (hrect : ∀ r ∈ x, r.length = c) (hj : j < c)
    (step : Int) (i : Nat) (s : Int) :
    ((i, j), s) ∈ fronts2 0 x step ↔ (i, s) ∈ frontsPairs (x.map fun r => r.getD j 0) step :=
  (fronts2_columnwise x _ j (col_getD x c j hrect hj) step false i).1 s

/-- Reading the sync of an imec stream window by window (each window re-reading one sample) and detecting fronts on
the decoded lines of every window recovers exactly the fronts of the whole recording: `rd` is `read_sync` (the empty
matrix when it fails, which it does not on rows of the announced width). -/
theorem read_sync_windows_imec {β : Type} [Sub β] [LT β] [DecidableLT β] [LE β] [DecidableLE β] [OfNat β 0]
    [OfNat β 1] (conv : Int → Int → β) (pct : List (List β) → Option (List β)) (toI8 : β → Int)
    (ap lf ntr : Nat) (thr : β) (floor : Bool)
    (htyp : (ap = 0 ∧ lf ≠ 0) ∨ (ap ≠ 0 ∧ lf = 0)) (hntr : 1 ≤ ntr)
    (ws : List (List (List Int))) (hrows : ∀ w ∈ ws, ∀ r ∈ w, r.length = ntr) :
    let rd := fun rows => match readSync conv pct toI8 ntr (.imec ap lf 1) rows thr floor with
      | .ok m => m
      | .error _ => []
    chunked (fun rows => fronts2 0 (rd rows) 1) (fun k q => ((q.1.1 + k, q.1.2), q.2)) 0 none ws =
      fronts2 0 (rd ws.flatten) 1 := by
  intro rd
  have hrd : ∀ rows : List (List Int), (∀ r ∈ rows, r.length = ntr) → rd rows = rows.map (digitalLines ntr) := by
    intro rows h
    simp only [rd, read_sync_layout_imec conv pct toI8 ap lf ntr rows thr floor htyp hntr h]
  rw [chunked_congr _ (fun rows : List (List Int) => fronts2 0 (rows.map (digitalLines ntr)) (1 : Int)) _
    (fun r : List Int => r.length = ntr)
    (fun l hl => by simp only [hrd l hl]) ws hrows 0 none (by simp)]
  rw [hrd ws.flatten (by
    intro r hr
    obtain ⟨w, hw, hrw⟩ := List.mem_flatten.mp hr
    exact hrows w hw r hrw)]
  have := chunked_of_seam (fun rows : List (List Int) => fronts2 0 (rows.map (digitalLines ntr)) (1 : Int))
    (fun k q => ((q.1.1 + k, q.1.2), q.2)) (by simp [fronts2_eq_sw2, sw2_nil]) (by simp)
    (by
      intro l1 a l2
      simp only [List.map_append, List.map_cons, List.map_nil, fronts2_eq_sw2]
      have := sw2_seam (α := Int) (frontsPred 1) (l1.map (digitalLines ntr)) (l2.map (digitalLines ntr))
        (digitalLines ntr a)
      rw [List.length_map] at this
      exact this) ws []
  simpa [fronts2_eq_sw2, sw2_nil] using this.symm

/-! ## 7. The same specifications over every linearly ordered commutative ring (ℤ, ℚ, ℝ) -/

section Ordered
variable {α : Type} [CommRing α] [LinearOrder α] [IsStrictOrderedRing α]

/-- `fronts` (1-D, and 2-D along either axis) for every ordered ring: exactly the positions whose predecessor along the
axis differs by at least `step` in absolute value, each with the signed difference. -/
theorem fronts_eq_changes_ordered (step : α) :
    (∀ (x : List α) t s, (t, s) ∈ frontsPairs x step ↔
      1 ≤ t ∧ ∃ a b, x[t - 1]? = some a ∧ x[t]? = some b ∧ s = b - a ∧ step ≤ |b - a|) ∧
    (∀ axis (x : List (List α)) ij s, (ij, s) ∈ fronts2 axis x step ↔
      1 ≤ coord axis ij ∧ ∃ a b, at2 x (prevPos axis ij) = some a ∧ at2 x ij = some b ∧ s = b - a ∧ step ≤ |b - a|) :=
  ⟨fun x t s => fronts_eq_changes_ord x step t s, fun axis x ij s => fronts2_eq_changes_ord axis x step ij s⟩

/-- `rises` / `falls`, digital mode, for every ordered ring. -/
theorem rises_falls_spec_ordered (x : List α) (step : α) (t : Nat) :
    (t ∈ rises x step false ↔ 1 ≤ t ∧ ∃ a b, x[t - 1]? = some a ∧ x[t]? = some b ∧ step ≤ b - a) ∧
    (t ∈ falls x step false ↔ 1 ≤ t ∧ ∃ a b, x[t - 1]? = some a ∧ x[t]? = some b ∧ b - a ≤ step) :=
  ⟨rises_spec_ord x step t, falls_spec_ord x step t⟩

/-- Analog mode for every ordered ring (at `ℝ`: the values float samples denote — every operation of the code is exact
in this mode): `rises` = the upward crossings of the threshold, `falls` = the downward crossings, 1-D and 2-D along
either axis; each crossing is listed exactly once and never as both. -/
theorem rises_falls_analog_ordered (thr : α) :
    (∀ (x : List α) t,
      (t ∈ rises x thr true ↔ 1 ≤ t ∧ ∃ a b, x[t - 1]? = some a ∧ x[t]? = some b ∧ a ≤ thr ∧ thr < b) ∧
      (t ∈ falls x thr true ↔ 1 ≤ t ∧ ∃ a b, x[t - 1]? = some a ∧ x[t]? = some b ∧ thr ≤ a ∧ b < thr) ∧
      (rises x thr true).count t ≤ 1 ∧ (falls x thr true).count t ≤ 1 ∧
      ¬ (t ∈ rises x thr true ∧ t ∈ falls x thr true)) ∧
    (∀ axis (x : List (List α)) ij,
      (ij ∈ rises2 axis x thr true ↔
        1 ≤ coord axis ij ∧ ∃ a b, at2 x (prevPos axis ij) = some a ∧ at2 x ij = some b ∧ a ≤ thr ∧ thr < b) ∧
      (ij ∈ falls2 axis x thr true ↔
        1 ≤ coord axis ij ∧ ∃ a b, at2 x (prevPos axis ij) = some a ∧ at2 x ij = some b ∧ thr ≤ a ∧ b < thr)) := by
  refine ⟨fun x t => ⟨rises_analog_ord x thr t, falls_analog_ord x thr t, ?_, ?_, ?_⟩,
    fun axis x ij => ⟨rises2_analog_ord axis x thr ij, falls2_analog_ord axis x thr ij⟩⟩
  · rw [(detected_once x thr true t).1]; split <;> omega
  · rw [(detected_once x thr true t).2]; split <;> omega
  · rw [rises_analog_ord, falls_analog_ord]
    rintro ⟨⟨_, a, b, h1, h2, h3, h4⟩, ⟨_, a', b', h1', h2', h3', h4'⟩⟩
    rw [h1] at h1'; rw [h2] at h2'
    cases h1'; cases h2'
    exact absurd (lt_of_lt_of_le h4' h3') (not_lt.mpr (le_of_lt (lt_of_le_of_lt h3 h4)))

end Ordered

/-- The hypothesis of `threshold_spec` is met by every linear order: the two masked assignments of `read_sync` turn a
value into `1` iff it is at least the (positive) threshold. -/
theorem threshold_spec_linear {α : Type} [LinearOrder α] [Sub α] [Zero α] [One α] (thr v : α) (hthr : (0 : α) < thr) :
    threshold thr v = if thr ≤ v then 1 else 0 :=
  threshold_linear thr v hthr

/-! ## Non-vacuity -/

example : splitSync 0x8005 = [1, 0, 1, 0, 0, 0, 0, 0, 0, 0, 0, 0, 0, 0, 0, 1] := by decide
example : wordOfInt (-32763) = 0x8005 ∧ int16OfWord 0x8005 = -32763 := by decide
example : frontsPairs [0, 1, 1, 0, 0, 1] (1 : Int) = [(1, 1), (3, -1), (5, 1)] := by decide
example : rises [0, 1, 1, 0, 0, 1] (1 : Int) false = [1, 5] ∧ falls [0, 1, 1, 0, 0, 1] (-1 : Int) false = [3] := by
  decide
example : rises [0, 3, 4, 3, 2] (3 : Int) true = [2] ∧ falls [0, 3, 4, 3, 2] (3 : Int) true = [4] := by decide
example : fronts2 0 [[0, 0], [1, 0], [1, 1]] (1 : Int) = [((1, 0), 1), ((2, 1), 1)] ∧
    fronts2 1 [[0, 0], [1, 0], [1, 1]] (1 : Int) = [((1, 1), -1)] := by decide
/-- The hypotheses of `threshold_spec` hold on `Int` with threshold 3. -/
example : threshold (3 : Int) 3 = 1 ∧ threshold (3 : Int) 2 = 0 ∧ (∀ a b : Int, a < b ↔ ¬ b ≤ a) :=
  ⟨by decide, by decide, fun a b => by omega⟩
/-- The hypotheses of `read_sync_layout` / `ttl_recovered` hold on a 3-sample nidq recording with one analog line
(line 0 rises at sample 1, line 2 is high on sample 2 only; analog channel thresholded at 5). -/
example :
    let rows : List (List Int) := [[9, 0], [2, 1], [7, 5]]
    readSync (α := Int) (fun _ x => x) (fun _ => some [2]) (fun v => v) 2 (.nidq 0 0 1 1) rows 5 true =
      .ok [[0, 0, 0, 0, 0, 0, 0, 0, 0, 0, 0, 0, 0, 0, 0, 0, 1],
           [1, 0, 0, 0, 0, 0, 0, 0, 0, 0, 0, 0, 0, 0, 0, 0, 0],
           [1, 0, 1, 0, 0, 0, 0, 0, 0, 0, 0, 0, 0, 0, 0, 0, 1]] ∧
    rows.map (fun r => r.getD (2 - 1) 0) =
      recordTTL 3 (fun k t => (k = 0 ∧ 1 ≤ t) ∨ (k = 2 ∧ t = 2)) := by
  intro rows
  exact ⟨rfl, by decide⟩
/-- the array pipeline on three samples (the third is negative: line 15 is the sign bit) -/
example : splitSyncFlat [1, 2, -32768] = some [[1, 0, 0, 0, 0, 0, 0, 0, 0, 0, 0, 0, 0, 0, 0, 0],
    [0, 1, 0, 0, 0, 0, 0, 0, 0, 0, 0, 0, 0, 0, 0, 0], [0, 0, 0, 0, 0, 0, 0, 0, 0, 0, 0, 0, 0, 0, 0, 1]] := by decide
/-- a trace in three windows (the second one empty), an event on each seam -/
example : chunked (fun w => frontsPairs w (1 : Int)) (fun k q => (q.1 + k, q.2)) 0 none [[0, 0], [], [1, 1], [0]] =
    [(2, 1), (4, -1)] ∧ frontsPairs [0, 0, 1, 1, 0] (1 : Int) = [(2, 1), (4, -1)] := by decide
/-- the hypothesis of `fronts2_columnwise` on a 3 x 2 matrix, column 1 -/
example : ∀ i, ([0, 0, 1] : List Int)[i]? = at2 [[0, 0], [1, 0], [1, 1]] (i, 1) := by
  intro i
  match i with
  | 0 => rfl | 1 => rfl | 2 => rfl | (n + 3) => simp [at2]
/-- the hypotheses of `read_sync_windows_imec`: two windows of a 2-channel imec-like stream -/
example : (∀ w ∈ ([[[0, 1], [0, 1]], [[0, 3]]] : List (List (List Int))), ∀ r ∈ w, r.length = 2) := by decide
example : rises [0, 3, 4, 3, 2] (3 : Int) true = [2] ∧ (rises [0, 3, 4, 3, 2] (3 : Int) true).count 2 = 1 := by decide
example : threshold (3 / 2 : ℚ) 2 = 1 ∧ (0 : ℚ) < 3 / 2 := by
  constructor
  · rw [threshold_spec_linear _ _ (by norm_num)]; norm_num
  · norm_num

end IblVerif.C10
