/-
C19 — Clock synchronisation recovers the affine map and only true event pairs (`ibldsp.utils.sync_timestamps`).

Property theorems only (helper lemmas: `Lemmas/SyncTs.lean`, `Lemmas/SyncTsSound.lean`, `Lemmas/SyncTsCoarse.lean`,
`Lemmas/SyncTsFit.lean`, `Lemmas/SyncTsClosed.lean`, `Analysis/LineFit.lean`).
All statements are about the executable model `IblVerif.SyncTs` (`Model/SyncTs.lean`: the two matching passes with the coarse
offset and the intermediate map as parameters; `Model/SyncTsFull.lean`: the closed model that computes both from
`(tsa, tsb, tbin, linear)` — section "The closed model" at the end of this file) over exact rationals and hold for
ALL trains `tsa tsb : List ℚ` (any length, any spacing), all offsets `Δ`, thresholds `θ` (= `tbin`) and intermediate
maps `fmap`; the hypotheses that the property's quantifier supplies (affine clocks, bounded jitter, minimal gap) are
explicit.  Ground truth: `Truth na nb` labels every event of either train with the underlying event it observes;
`T.pair i j` = "`(i, j)` is a true correspondence".

What is NOT proved here (measured by the ground-truth oracle of harness/props/c19.py instead): that the correlation peak
`Δ` and the fitted map are accurate enough for the separation hypotheses on every train of the quantifier, the 95 %
recovery rate, the 1 ms tolerance and the ppm accuracy under jitter.  `interp_extrapolation_counterexample` shows that
the hypothesis of `pass2_sound` can indeed fail for the interpolating mode (known finding).
-/
import IblVerif.Lemmas.SyncTsSound
import IblVerif.Lemmas.SyncTsCoarse
import IblVerif.Lemmas.SyncTsFit
import IblVerif.Lemmas.SyncTsClosed
import IblVerif.Analysis.LineFit
import Mathlib.Tactic.NormNum
import Mathlib.Tactic.IntervalCases

namespace IblVerif.C19
open IblVerif.SyncTs IblVerif.LineFit

/-! ### Coarse offset -/

/-- F16 (fixed): with the vector length `ceil((tmax - tmin)/tbin) + 1` every event time `t ∈ [tmin, tmax]` falls in a
bin inside the vector, so `x[floor((t - tmin)/tbin)] = 1` cannot raise `IndexError`. -/
theorem bin_index_in_range (tmin tmax tbin t : ℚ) (hb : 0 < tbin) (h1 : tmin ≤ t) (h2 : t ≤ tmax) :
    0 ≤ binIndex tmin tbin t ∧ binIndex tmin tbin t < nbins tmin tmax tbin := by
  unfold binIndex nbins
  constructor
  · rw [Rat.le_floor_iff]
    have : 0 ≤ (t - tmin) / tbin := div_nonneg (by linarith) hb.le
    simpa using this
  · have hle : (t - tmin) / tbin ≤ (tmax - tmin) / tbin := by
      apply div_le_div_of_nonneg_right _ hb.le
      linarith
    have h3 : ((((t - tmin) / tbin).floor : Int) : ℚ) ≤ ((((tmax - tmin) / tbin).ceil : Int) : ℚ) :=
      le_trans (Rat.floor_le _) (le_trans hle Rat.le_ceil)
    have : ((t - tmin) / tbin).floor ≤ ((tmax - tmin) / tbin).ceil := by exact_mod_cast h3
    omega

/-- Non-vacuity: the F16 witness (span 227 s, `tbin = 0.1`, last event) satisfies the hypotheses. -/
example : binIndex 0 (1/10) 227 < nbins 0 227 (1/10) :=
  (bin_index_in_range 0 227 (1/10) 227 (by norm_num) (by norm_num) (by norm_num)).2

/-- The length formula before the `fix:` commit, `int(ceil(tmax - tmin)/tbin)`: identical 1 Hz trains over 227 s with
`tbin = 0.1` put the last event in bin 2270 of a vector of length 2270 (`IndexError`); the fixed length is 2271. -/
theorem nbins_prefix_counterexample :
    binIndex 0 (1/10) 227 = 2270 ∧ nbinsPrefix 0 227 (1/10) = 2270 ∧ nbins 0 227 (1/10) = 2271 := by
  decide +kernel

/-- The sub-bin peak of `parabolic_max` stays within half a bin of the discrete maximum (`v1` is the maximum of the
vector, `v0`, `v2` its neighbours), also on a plateau and at the edges. -/
theorem parabolic_peak_within_half_bin (ns imax : Nat) (v0 v1 v2 : ℚ) (h0 : v0 ≤ v1) (h2 : v2 ≤ v1) :
    |parabolicPeak ns imax v0 v1 v2 - (imax : ℚ)| ≤ 1 / 2 := by
  unfold parabolicPeak
  split
  · simp
  · rw [add_sub_cancel_right]
    unfold parabolicOffset
    by_cases hp : (v0 - 2 * v1 + v2) / 2 = 0
    · have e0 : v0 = v1 := by
        have : v0 - 2 * v1 + v2 = 0 := by linarith
        linarith
      have e2 : v2 = v1 := by
        have : v0 - 2 * v1 + v2 = 0 := by linarith
        linarith
      simp [e0, e2]
    · simp only [hp, if_false, add_zero]
      have hneg : (v0 - 2 * v1 + v2) / 2 < 0 := lt_of_le_of_ne (by linarith) hp
      have habs : |(v2 - v0) / 2| ≤ |(v0 - 2 * v1 + v2) / 2| := by
        rw [abs_of_neg hneg, abs_le]
        constructor <;> linarith
      have hpos : 0 < |(v0 - 2 * v1 + v2) / 2| := abs_pos.mpr hp
      rw [abs_div, abs_div, abs_neg, div_div, div_le_iff₀ (by positivity)]
      have : |(2 : ℚ)| = 2 := abs_of_pos (by norm_num)
      rw [this]
      linarith

/-- Non-vacuity: row `[0, 0, 0, 0, 1, 3, 2, 0]` of the repository's unit test (`ipeak = 5.166667`). -/
example : parabolicPeak 8 5 1 3 2 = 31 / 6 ∧ |parabolicPeak 8 5 1 3 2 - (5 : ℚ)| ≤ 1 / 2 :=
  ⟨by decide +kernel, by exact_mod_cast parabolic_peak_within_half_bin 8 5 1 3 2 (by norm_num) (by norm_num)⟩

/-! ### The matching: injectivity and the threshold -/

/-! Concrete train used by the non-vacuity examples: underlying events at 0, 1, 3, 2000 s on clock A, clock B = 1.0001·A;
`tsa` sees all four, `tsb` misses the third.  `Δ = 0`, `tbin = 0.1`: the first pass matches events 0 and 1, cannot reach
the last one (0.2 s off); the second pass, with the true map as intermediate map, matches it. -/
def exA : List ℚ := [0, 1, 3, 2000]
def exB : List ℚ := [0, 1 + 1/10000, 2000 + 1/5]
def exT : Truth 4 3 :=
  ⟨id, fun j => if j = 2 then 3 else j, fun _ _ _ _ h => h, by
    intro j j' hj hj' h
    interval_cases j <;> interval_cases j' <;> simp_all⟩
theorem exP1 : pass1 0 (1/10) exA exB = [some 0, some 1, none, none] := by decide +kernel


/-- No `a` index is returned twice; with events on the `a` side at least `2·tbin` apart (the property's trains are
`≥ 0.5 s = 5·tbin` apart) no `b` index is returned twice either. -/
theorem matching_injective (Δ θ : ℚ) (tsa tsb : List ℚ) (fmap : List (Option Nat) → ℚ → ℚ)
    (hsep : ∀ (i i' : Nat) (a a' : ℚ), i < i' → tsa[i]? = some a → tsa[i']? = some a' → 2 * θ ≤ |a - a'|)
    (ps : List (Nat × Nat)) (h : sync Δ θ tsa tsb fmap = .ok ps) :
    (ps.map (·.1)).Nodup ∧ (ps.map (·.2)).Nodup := by
  rw [sync_ok h]
  refine ⟨nodup_map_fst_of_lt (pairs_pairwise _), nodup_map_snd_of_inj (pairs_pairwise _) ?_⟩
  intro i i' j hm hm'
  exact finish_pass1_b_injective hsep hm hm'

/-- Non-vacuity: the example train is more than `2·tbin` apart on the `a` side. -/
example : ((([(0, 0), (1, 1), (3, 2)] : List (Nat × Nat)).map (·.1)).Nodup ∧
    (([(0, 0), (1, 1), (3, 2)] : List (Nat × Nat)).map (·.2)).Nodup) := by
  refine matching_injective 0 (1/10) exA exB (fun _ x => (1 + 1/10000) * x) ?_ _ (by decide +kernel)
  intro i i' a a' hlt ha ha'
  have hi : i' < 4 := lt_of_get ha'
  interval_cases i' <;> interval_cases i <;> simp [exA] at ha ha' <;> subst ha ha' <;>
    (simp only [le_abs]; norm_num)

/-- Without the separation the first pass does reuse a `b` index (the single-candidate rule does not look at `ib[:m]`):
two `a` events 50 ms apart, one `b` event. -/
theorem pass1_duplicate_counterexample :
    sync 0 (1/10) [0, 1/20] [0] (fun _ x => x) = .ok [(0, 0), (1, 0)] := by
  decide +kernel

/-- Every returned pair lies within the threshold of the map that produced it: strictly inside `tbin` of the coarse
offset (first pass) or within `tbin` of the intermediate fitted map (second pass); its indices are valid. -/
theorem pairs_within_threshold (Δ θ : ℚ) (tsa tsb : List ℚ) (fmap : List (Option Nat) → ℚ → ℚ)
    (ps : List (Nat × Nat)) (h : sync Δ θ tsa tsb fmap = .ok ps) :
    ∀ p ∈ ps, ∃ a b, tsa[p.1]? = some a ∧ tsb[p.2]? = some b ∧
      (|a - Δ - b| < θ ∨ |fmap (pass1 Δ θ tsa tsb) a - b| ≤ θ) := by
  rw [sync_ok h]
  rintro ⟨i, j⟩ hm
  rcases mem_pairs_finish.mp hm with h1 | ⟨_, h2⟩
  · obtain ⟨a, b, ha, hb, hlt⟩ := pass1_some h1
    exact ⟨a, b, ha, hb, Or.inl (by rwa [qabs_eq_abs] at hlt)⟩
  · obtain ⟨f, b, ha, hb, hle⟩ := pass2Loop_mem θ _ _ i j h2
    obtain ⟨_, hf⟩ := mem_missA.mp ha
    obtain ⟨hb, _⟩ := mem_missB.mp hb
    rw [List.getElem?_map] at hf
    cases hta : tsa[i]? with
    | none => simp [hta] at hf
    | some a =>
      simp only [hta, Option.map_some, Option.some.injEq] at hf
      subst hf
      exact ⟨a, b, rfl, hb, Or.inr (by rwa [qabs_eq_abs] at hle)⟩

/-! ### Ground truth: where the separation hypotheses come from -/

/-- Affine clocks with bounded jitter and a minimal gap give the separation used below.  Event `e` is seen on clock A at
`s e + εa` and event `e'` on clock B at `(1 + d)·s e' + β + εb`; if the coarse offset is accurate to `c` at `e'`
(`|Δ + β + d·s e'| ≤ c`, i.e. offset error plus drift over the span) then the same event (`e = e'`) is within
`c + Ja + Jb` of the window centre and different events at least `g − (c + Ja + Jb)` away. -/
theorem separation_of_affine (s : ℕ → ℚ) (d β Δ c Ja Jb g εa εb : ℚ) (e e' : ℕ)
    (hgap : e ≠ e' → g ≤ |s e - s e'|) (hc : |Δ + β + d * s e'| ≤ c) (ha : |εa| ≤ Ja) (hb : |εb| ≤ Jb) :
    (e = e' → |(s e + εa) - Δ - ((1 + d) * s e' + β + εb)| ≤ c + Ja + Jb) ∧
    (e ≠ e' → g - (c + Ja + Jb) ≤ |(s e + εa) - Δ - ((1 + d) * s e' + β + εb)|) := by
  have key : (s e + εa) - Δ - ((1 + d) * s e' + β + εb) = (s e - s e') + (εa - εb - (Δ + β + d * s e')) := by ring
  have hr : |εa - εb - (Δ + β + d * s e')| ≤ c + Ja + Jb := by
    have h1 := abs_sub (εa - εb) (Δ + β + d * s e')
    have h2 := abs_sub εa εb
    linarith
  constructor
  · intro h
    rw [key, h, sub_self, zero_add]
    exact hr
  · intro h
    rw [key]
    have h1 := hgap h
    have h2 : |s e - s e'| - |εa - εb - (Δ + β + d * s e')| ≤
        |(s e - s e') + (εa - εb - (Δ + β + d * s e'))| := by
      have := abs_sub_abs_le_abs_sub (s e - s e') (-(εa - εb - (Δ + β + d * s e')))
      rwa [abs_neg, sub_neg_eq_add] at this
    linarith

/-- Non-vacuity: events 5 s apart, 100 ppm, offset 12 s, coarse offset accurate to 10 ms, jitter 0.1 ms per side:
neighbouring events are at least 4.9898 s from the window centre (`≥ tbin`), the same event within 10.2 ms (`< tbin`). -/
example : (5 : ℚ) - (1/100 + 1/10000 + 1/10000) ≤
    |((5 * (1 : ℕ) : ℚ) + 1/10000) - (-12 - 1/1000) - ((1 + 1/10000) * (5 * (2 : ℕ) : ℚ) + 12 + (-1/10000))| :=
  (separation_of_affine (fun e => 5 * (e : ℚ)) (1/10000) 12 (-12 - 1/1000) (1/100) (1/10000) (1/10000) 5
    (1/10000) (-1/10000) 1 2
    (fun _ => by norm_num [abs_of_neg]) (by norm_num [abs_of_nonneg]) (by norm_num [abs_of_pos])
    (by norm_num [abs_of_neg])).2 (by decide)

/-! ### The matching against the ground truth -/

/-- If every non-corresponding pair is at least `θ` away from the coarse window centre, every first-pass assignment is
a true correspondence (nothing is assumed about the true pairs: the coarse offset may miss them). -/
theorem pass1_only_true (Δ θ : ℚ) (tsa tsb : List ℚ) (T : Truth tsa.length tsb.length)
    (far1 : ∀ i j a b, tsa[i]? = some a → tsb[j]? = some b → T.u i ≠ T.v j → θ ≤ |a - Δ - b|)
    (i j : Nat) (h : (pass1 Δ θ tsa tsb)[i]? = some (some j)) : T.pair i j :=
  pass1_true_of_far T far1 h

/-- Under the separation hypothesis of the first pass — true pairs strictly inside the window, all other pairs outside —
the first pass assigns `j` to `i` exactly when `(i, j)` is a true correspondence; in particular every event that has a
partner gets it and every event without a partner stays unassigned. -/
theorem pass1_sound (Δ θ : ℚ) (tsa tsb : List ℚ) (T : Truth tsa.length tsb.length)
    (far1 : ∀ i j a b, tsa[i]? = some a → tsb[j]? = some b → T.u i ≠ T.v j → θ ≤ |a - Δ - b|)
    (close1 : ∀ i j a b, tsa[i]? = some a → tsb[j]? = some b → T.u i = T.v j → |a - Δ - b| < θ)
    (i j : Nat) : (pass1 Δ θ tsa tsb)[i]? = some (some j) ↔ T.pair i j :=
  pass1_exact T far1 close1 i j

/-- `pass1_sound` in the terms of the property: underlying event `e` happens at `s e` on clock A; the `a` events are
within `Ja` of it, the `b` events within `Jb` of the affine image `(1 + d)·s e + β`; the coarse offset is accurate to `c`
over the train (`|Δ + β + d·s e| ≤ c`: offset error plus drift times span); events are at least `g` apart.  If
`c + Ja + Jb < tbin` and `tbin + c + Ja + Jb ≤ g`, the first pass returns exactly the true correspondences. -/
theorem pass1_sound_affine (Δ θ : ℚ) (tsa tsb : List ℚ) (T : Truth tsa.length tsb.length)
    (s : ℕ → ℚ) (d β c Ja Jb g : ℚ)
    (hA : ∀ i a, tsa[i]? = some a → |a - s (T.u i)| ≤ Ja)
    (hB : ∀ j b, tsb[j]? = some b → |b - ((1 + d) * s (T.v j) + β)| ≤ Jb)
    (hgap : ∀ e e', e ≠ e' → g ≤ |s e - s e'|)
    (hc : ∀ e, |Δ + β + d * s e| ≤ c)
    (hin : c + Ja + Jb < θ) (hout : θ + (c + Ja + Jb) ≤ g) (i j : Nat) :
    (pass1 Δ θ tsa tsb)[i]? = some (some j) ↔ T.pair i j := by
  have sep : ∀ i j a b, tsa[i]? = some a → tsb[j]? = some b →
      (T.u i = T.v j → |a - Δ - b| ≤ c + Ja + Jb) ∧ (T.u i ≠ T.v j → g - (c + Ja + Jb) ≤ |a - Δ - b|) := by
    intro i j a b ha hb
    have h := separation_of_affine s d β Δ c Ja Jb g (a - s (T.u i)) (b - ((1 + d) * s (T.v j) + β))
      (T.u i) (T.v j) (hgap _ _) (hc _) (hA i a ha) (hB j b hb)
    simp only [add_sub_cancel] at h
    exact h
  apply pass1_exact T
  · intro i j a b ha hb huv
    have := (sep i j a b ha hb).2 huv
    linarith
  · intro i j a b ha hb huv
    have := (sep i j a b ha hb).1 huv
    linarith

def exT' : Truth 3 3 :=
  ⟨id, fun j => if j = 2 then 3 else j, fun _ _ _ _ h => h, by
    intro j j' hj hj' h
    interval_cases j <;> interval_cases j' <;> simp_all⟩

/-- Non-vacuity of `pass1_only_true` / `pass1_sound`: three events on each side, two in common (`tsa` sees events 0, 1, 2
at 0, 1, 3 s; `tsb` sees events 0, 1, 3 at 10, 11, 15 s), `Δ = -10`: the first pass returns exactly the two true pairs. -/
example : ∀ i j, (pass1 (-10) (1/10) [0, 1, 3] [10, 11, 15])[i]? = some (some j) ↔ exT'.pair i j := by
  refine pass1_sound (-10) (1/10) [0, 1, 3] [10, 11, 15] exT' ?_ ?_
  · intro i j a b ha hb huv
    have hi : i < 3 := lt_of_get ha
    have hj : j < 3 := lt_of_get hb
    interval_cases i <;> interval_cases j <;> simp at ha hb <;> subst ha hb <;>
      first
      | (exfalso; exact huv (by decide))
      | (simp only [le_abs]; norm_num)
  · intro i j a b ha hb huv
    have hi : i < 3 := lt_of_get ha
    have hj : j < 3 := lt_of_get hb
    interval_cases i <;> interval_cases j <;> simp [exT'] at ha hb huv <;> subst ha hb <;>
      (simp only [abs_lt]; norm_num)
/-- Non-vacuity of `pass1_sound_affine`: underlying events at `2·e` s, `tsa` sees events 0, 1, 2, `tsb` events 0, 1, 3 on a
clock 10 s ahead. -/
example : ∀ i j, (pass1 (-10) (1/10) [0, 2, 4] [10, 12, 16])[i]? = some (some j) ↔ exT'.pair i j := by
  refine pass1_sound_affine (-10) (1/10) [0, 2, 4] [10, 12, 16] exT' (fun e => 2 * (e : ℚ)) 0 10 0 0 0 1
    ?_ ?_ ?_ ?_ (by norm_num) (by norm_num)
  · intro i a ha
    have hi : i < 3 := lt_of_get ha
    interval_cases i <;> simp [exT'] at ha ⊢ <;> subst ha <;> norm_num
  · intro j b hb
    have hj : j < 3 := lt_of_get hb
    interval_cases j <;> simp [exT'] at hb ⊢ <;> subst hb <;> norm_num
  · intro e e' hne
    rcases Nat.lt_or_gt_of_ne hne with h | h
    · have : (e : ℚ) + 1 ≤ e' := by exact_mod_cast h
      rw [abs_sub_comm, abs_of_nonneg] <;> linarith
    · have : (e' : ℚ) + 1 ≤ e := by exact_mod_cast h
      rw [abs_of_nonneg] <;> linarith
  · intro e; simp

/-- Second pass, same with the fitted map: `ib` is a first-pass vector whose assignments are all true and `fa` the
mapped times; if the still open true pairs are within `θ` of each other under the fitted map and the open
non-corresponding pairs farther than `θ`, the pairs returned after the second pass are exactly the true
correspondences. -/
theorem pass2_sound (θ : ℚ) (ib : List (Option Nat)) (fa tsb : List ℚ) (T : Truth ib.length tsb.length)
    (hfa : fa.length = ib.length)
    (h1 : ∀ i j, ib[i]? = some (some j) → T.pair i j)
    (close2 : ∀ i j f b, ib[i]? = some none → fa[i]? = some f → tsb[j]? = some b → T.u i = T.v j → |f - b| ≤ θ)
    (far2 : ∀ i j f b, ib[i]? = some none → some j ∉ ib → fa[i]? = some f → tsb[j]? = some b →
        T.u i ≠ T.v j → θ < |f - b|)
    (i j : Nat) : (i, j) ∈ pairs (finish θ ib fa tsb) ↔ T.pair i j :=
  finish_exact T hfa h1 close2 far2 i j

/-- The whole matching: every returned index pair is a true correspondence and every true correspondence is returned,
provided (1) non-corresponding pairs are outside the coarse window and (2) under the intermediate fitted map the true
pairs the first pass left open are within `θ` and the open non-corresponding pairs beyond `θ`. -/
theorem sync_exact_pairs (Δ θ : ℚ) (tsa tsb : List ℚ) (fmap : List (Option Nat) → ℚ → ℚ)
    (T : Truth tsa.length tsb.length) (hna : tsa ≠ []) (hnb : tsb ≠ [])
    (far1 : ∀ i j a b, tsa[i]? = some a → tsb[j]? = some b → T.u i ≠ T.v j → θ ≤ |a - Δ - b|)
    (close2 : ∀ i j a b, tsa[i]? = some a → tsb[j]? = some b → T.u i = T.v j →
        (pass1 Δ θ tsa tsb)[i]? = some none → |fmap (pass1 Δ θ tsa tsb) a - b| ≤ θ)
    (far2 : ∀ i j a b, tsa[i]? = some a → tsb[j]? = some b → T.u i ≠ T.v j →
        (pass1 Δ θ tsa tsb)[i]? = some none → some j ∉ pass1 Δ θ tsa tsb →
        θ < |fmap (pass1 Δ θ tsa tsb) a - b|) :
    ∃ ps, sync Δ θ tsa tsb fmap = .ok ps ∧ ∀ i j, (i, j) ∈ ps ↔ T.pair i j := by
  refine ⟨_, sync_of_ne fmap hna hnb, ?_⟩
  have hlen := pass1_length Δ θ tsa tsb
  let T' : Truth (pass1 Δ θ tsa tsb).length tsb.length :=
    ⟨T.u, T.v, fun i i' h h' => T.u_inj i i' (hlen ▸ h) (hlen ▸ h'), T.v_inj⟩
  have hpair : ∀ i j, T'.pair i j ↔ T.pair i j := by
    intro i j
    constructor
    · rintro ⟨a, b, c⟩; exact ⟨hlen ▸ a, b, c⟩
    · rintro ⟨a, b, c⟩; exact ⟨hlen.symm ▸ a, b, c⟩
  have getmap : ∀ (i : Nat) (f : ℚ), (tsa.map (fmap (pass1 Δ θ tsa tsb)))[i]? = some f →
      ∃ a, tsa[i]? = some a ∧ f = fmap (pass1 Δ θ tsa tsb) a := by
    intro i f hf
    rw [List.getElem?_map] at hf
    cases hta : tsa[i]? with
    | none => simp [hta] at hf
    | some a =>
      simp only [hta, Option.map_some, Option.some.injEq] at hf
      exact ⟨a, rfl, hf.symm⟩
  intro i j
  rw [← hpair]
  apply finish_exact T' (by simp [hlen])
  · intro i j h
    exact (hpair i j).mpr (pass1_true_of_far T far1 h)
  · intro i j f b hn hf hb huv
    obtain ⟨a, ha, rfl⟩ := getmap i f hf
    exact close2 i j a b ha hb huv hn
  · intro i j f b hn hnot hf hb huv
    obtain ⟨a, ha, rfl⟩ := getmap i f hf
    exact far2 i j a b ha hb huv hn hnot

/-- Non-vacuity of `pass2_sound` / `sync_exact_pairs`: on the example train all three hypotheses hold, the second pass is
needed (event 3 is 0.2 s off the coarse window) and the result is exactly the three true pairs. -/
example : ∃ ps, sync 0 (1/10) exA exB (fun _ x => (1 + 1/10000) * x) = .ok ps ∧ ∀ i j, (i, j) ∈ ps ↔ exT.pair i j := by
  refine sync_exact_pairs 0 (1/10) exA exB _ exT (by decide) (by decide) ?_ ?_ ?_
  · intro i j a b ha hb huv
    have hi : i < 4 := lt_of_get ha
    have hj : j < 3 := lt_of_get hb
    interval_cases i <;> interval_cases j <;> simp [exA, exB] at ha hb <;> subst ha hb <;>
      first
      | (exfalso; exact huv (by decide))
      | (simp only [le_abs]; norm_num)
  · intro i j a b ha hb huv hn
    have hi : i < 4 := lt_of_get ha
    have hj : j < 3 := lt_of_get hb
    rw [exP1] at hn
    interval_cases i <;> interval_cases j <;> simp [exA, exB, exT] at ha hb huv hn <;> subst ha hb <;>
      (simp only [abs_le]; norm_num)
  · intro i j a b ha hb huv hn hnot
    have hi : i < 4 := lt_of_get ha
    have hj : j < 3 := lt_of_get hb
    rw [exP1] at hn hnot
    interval_cases i <;> interval_cases j <;> simp [exA, exB, exT] at ha hb huv hn hnot <;> subst ha hb <;>
      (simp only [lt_abs]; norm_num)

example : sync 0 (1/10) exA exB (fun _ x => (1 + 1/10000) * x) = .ok [(0, 0), (1, 1), (3, 2)] := by decide +kernel

/-- Known finding (model level): the interpolating mode extrapolates the chord through the last two first-pass matches.
Three events at 0, 0.5 and 2000 s, clock B = 1.0001·A (100 ppm), jitter +0.1 ms on the middle `b` event only, `Δ = 0`,
`tbin = 0.1`.  The first pass matches the first two events and cannot reach the third (0.2 s off).  The chord through
the two matches has slope 1.0003, maps 2000 to 2000.6 — 0.4 s from the partner — and the true pair `(2, 2)` is not
returned; with the true map `1.0001·x` as intermediate map it is. -/
theorem interp_extrapolation_counterexample :
    let tsa : List ℚ := [0, 1/2, 2000]
    let tsb : List ℚ := [0, 1/2 + 1/20000 + 1/10000, 2000 + 1/5]
    let chord : ℚ → ℚ := fun x => 0 + (x - 0) * ((1/2 + 1/20000 + 1/10000) - 0) / (1/2 - 0)
    sync 0 (1/10) tsa tsb (fun _ => chord) = .ok [(0, 0), (1, 1)] ∧
    sync 0 (1/10) tsa tsb (fun _ x => (1 + 1/10000) * x) = .ok [(0, 0), (1, 1), (2, 2)] := by
  decide +kernel

/-! ### The fit -/

/-- Least squares (normal equations, the minimiser `np.polyfit(x, y, 1)` computes) through at least two distinct
abscissae on exactly affine data returns slope and intercept. -/
theorem fit_exact_on_collinear {n : ℕ} (x y : Fin n → ℚ) (p q : ℚ) (hy : ∀ k, y k = p * x k + q)
    (k l : Fin n) (hkl : x k ≠ x l) : lsqSlope x y = p ∧ lsqIntercept x y = q :=
  lsq_on_collinear x y p q hy k l hkl

/-- The same for ANY minimiser of the sum of squared residuals, however it is computed (QR, SVD, …). -/
theorem lsq_minimiser_on_collinear {n : ℕ} (x y : Fin n → ℚ) (p q : ℚ) (hy : ∀ k, y k = p * x k + q)
    (k l : Fin n) (hkl : x k ≠ x l) (m c : ℚ) (hmin : ∀ m' c', sse x y m c ≤ sse x y m' c') : m = p ∧ c = q :=
  minimiser_on_collinear x y p q hy k l hkl m c hmin

/-- `_interp_fcn`, linear mode: `ab = polyfit(tsa, tsb - tsa, 1)`, `drift_ppm = ab[0]·1e6`,
`fcn_a2b(x) = x·(1 + ab[0]) + ab[1]`.  If the matched times are exactly related by `tsb = α·tsa + β` (at least two
distinct `tsa`), the reported drift is `(α − 1)·10⁶` and the returned map is the true map at EVERY `x`, in particular
at held-out events. -/
theorem drift_and_linear_map_exact {n : ℕ} (ta tb : Fin n → ℚ) (α β : ℚ) (hb : ∀ k, tb k = α * ta k + β)
    (k l : Fin n) (hkl : ta k ≠ ta l) :
    let ab0 := lsqSlope ta (fun k => tb k - ta k)
    let ab1 := lsqIntercept ta (fun k => tb k - ta k)
    ab0 * 1000000 = (α - 1) * 1000000 ∧ ∀ x : ℚ, x * (1 + ab0) + ab1 = α * x + β := by
  have h := lsq_on_collinear ta (fun k => tb k - ta k) (α - 1) β (fun k => by rw [hb k]; ring) k l hkl
  simp only
  rw [h.1, h.2]
  exact ⟨rfl, fun x => by ring⟩

/-- `_interp_fcn`, interpolating mode: `interp1d(tsa, tsb, fill_value="extrapolate")` evaluates the chord through two
neighbouring samples; on exactly affine data the chord is the true map at every `x` (inside or outside the samples). -/
theorem interp_exact_on_collinear (α β x0 x1 x : ℚ) (h : x0 ≠ x1) :
    (α * x0 + β) + (x - x0) * ((α * x1 + β) - (α * x0 + β)) / (x1 - x0) = α * x + β :=
  chord_on_line α β x0 x1 x h

/-- Non-vacuity of the fit theorems: thirty matched events one second apart on a 100 ppm clock with offset 12 s:
the reported drift is 100 ppm. -/
example : lsqSlope (fun k : Fin 30 => (k.val : ℚ))
    (fun k : Fin 30 => (1 + 1/10000) * (k.val : ℚ) + 12 - (k.val : ℚ)) * 1000000 = 100 := by
  have h := fit_exact_on_collinear (fun k : Fin 30 => (k.val : ℚ))
    (fun k : Fin 30 => (1 + 1/10000) * (k.val : ℚ) + 12 - (k.val : ℚ)) (1/10000) 12
    (fun k => by ring) 0 1 (by norm_num)
  rw [h.1]; norm_num

/-! ### The closed model: coarse offset, fit and interpolant computed inside the model (`Model/SyncTsFull.lean`) -/

/-- `np.argmax(correlate(x, y, "full"))` on 0/1 histograms, as the model computes it from the sorted differences of the
occupied bins, IS the first maximum of the correlation over ALL lags: the value returned is the coincidence count at the
returned lag, no lag has a larger count and every smaller lag has a strictly smaller one. -/
theorem corr_peak_is_first_max (A B : List Int) (hB : B.Nodup) (l : Int) (m : Nat) (h : peakLag A B = some (l, m)) :
    m = corrAt A B l ∧ 0 < m ∧ (∀ d, corrAt A B d ≤ m) ∧ (∀ d, d < l → corrAt A B d < m) :=
  peakLag_spec A B hB l m h

/-- Non-vacuity: any two non-empty sets of bins have a peak. -/
example : ∃ r, peakLag [3, 5, 8] [0, 2, 5] = some r := peakLag_isSome _ _ (by decide) (by decide)

/-- The general bound on the coarse offset, for every pair of trains: `delta_t` lies within half a bin of `lag·tbin`, where
`lag` is the first maximum of the cross-correlation of the two 0/1 histograms (bins of width `tbin` counted from the earliest
event), `v1` its value and `v0`, `v2` the values next to it. -/
theorem coarse_offset_within_half_bin (tsa tsb : List ℚ) (tbin : ℚ) (hb : 0 ≤ tbin) (c : Coarse)
    (h : coarse tsa tsb tbin = some c) :
    ∃ tmin tmax, c.n = nbins tmin tmax tbin ∧
      c.v1 = corrAt (occupied tmin tbin tsa) (occupied tmin tbin tsb) c.lag ∧ 0 < c.v1 ∧
      (∀ d, corrAt (occupied tmin tbin tsa) (occupied tmin tbin tsb) d ≤ c.v1) ∧
      (∀ d, d < c.lag → corrAt (occupied tmin tbin tsa) (occupied tmin tbin tsb) d < c.v1) ∧
      |c.delta - (c.lag : ℚ) * tbin| ≤ tbin / 2 := by
  unfold coarse at h
  split at h
  · cases h
  · split at h
    · rename_i tmin tmax _ _
      obtain ⟨h1, h2, _, _, h5, h6, h7, h8⟩ := coarseOfBins_spec _ _ _ tbin c (occupied_nodup _ _ _) hb h
      exact ⟨tmin, tmax, h1, h2, h5, h6, h7, h8⟩
    · cases h

/-- Exact copies: when `tsa` is `tsb` moved by a whole number `s` of bins, the coarse step returns `delta_t = s·tbin`
EXACTLY, for every train `tsb` (any number of events, any spacing, several events per bin allowed): the correlation has its
unique maximum at lag `s` (all occupied bins coincide; a finite set of bins is not invariant under a non-zero shift), it is
symmetric around it, so the parabolic refinement is zero. -/
theorem coarse_offset_exact_on_shifted_copy (tsb : List ℚ) (tbin : ℚ) (s : ℤ) (hb : tbin ≠ 0) (hne : tsb ≠ []) :
    ∃ c, coarse (tsb.map (· + s * tbin)) tsb tbin = some c ∧ c.lag = s ∧ c.delta = (s : ℚ) * tbin ∧ c.v0 = c.v2 ∧
      c.ties = 1 ∧ ∃ tmin, c.v1 = (occupied tmin tbin tsb).length :=
  coarse_shifted_copy tsb tbin s hb hne

/-- Non-vacuity of the last two theorems: three events, clock A 0.7 s (7 bins) ahead. -/
example : ∃ c, coarse ([0, 13/10, 5].map (· + ((7 : ℤ) : ℚ) * (1/10))) [0, 13/10, 5] (1/10) = some c ∧
    |c.delta - (c.lag : ℚ) * (1/10)| ≤ (1/10) / 2 := by
  obtain ⟨c, hc, _⟩ := coarse_offset_exact_on_shifted_copy [0, 13/10, 5] (1/10) 7 (by norm_num) (by decide)
  obtain ⟨_, _, _, _, _, _, _, h⟩ := coarse_offset_within_half_bin _ _ (1/10) (by norm_num) c hc
  exact ⟨c, hc, h⟩

/-- The closed model is the two-pass matching `sync` of the first part of this file with its two parameters filled in:
`Δ` = the coarse offset computed by `c`, `θ = tbin`, `fmap` = `_interp_fcn` on the first-pass matches.  Hence every theorem
above about `sync` (`matching_injective`, `pairs_within_threshold`, `sync_exact_pairs`) holds of the closed model's pairs;
the reported drift is `ab[0]·1e6` of the fit through the final matches.  (`co` = `coarse tsa tsb tbin` gives `syncClosed`,
the double-precision binning `coarseF` gives what the driver runs.) -/
theorem closed_is_sync (co : Option Coarse) (tsa tsb : List ℚ) (tbin : ℚ) (linear : Bool) (hna : tsa ≠ []) (hnb : tsb ≠ [])
    (ps : List (Nat × Nat)) (drift : ℚ) (nodes : List (ℚ × ℚ)) (c : Coarse)
    (h : syncClosedOf co tsa tsb tbin linear = .ok ps drift nodes c) :
    co = some c ∧ sync c.delta tbin tsa tsb (fmapClosed linear tsa tsb) = .ok ps ∧
      ∃ ab, fitAb nodes = some ab ∧ drift = driftPpm ab.1 ∧
        ∃ ib, ps = pairs ib ∧ nodes = matched tsa tsb ib := by
  unfold syncClosedOf at h
  cases co with
  | none => simp at h
  | some c' =>
    simp only at h
    cases hm : mapOf linear (matched tsa tsb (pass1 c'.delta (threshold tbin) tsa tsb)) with
    | none => simp [hm] at h
    | some f =>
      simp only [hm] at h
      cases hf : fitAb (matched tsa tsb (finish tbin (pass1 c'.delta (threshold tbin) tsa tsb) (tsa.map f) tsb)) with
      | none => simp [hf] at h
      | some ab =>
        simp only [hf, Closed.ok.injEq] at h
        obtain ⟨h1, h2, h3, h4⟩ := h
        subst h4
        refine ⟨rfl, ?_, ab, ?_, h2.symm, _, h1.symm, h3.symm⟩
        · unfold sync fmapClosed
          have : ¬ (tsa = [] ∨ tsb = []) := by simp [hna, hnb]
          simp only [this, if_false]
          unfold threshold at hm h1
          rw [hm, ← h1]
          rfl
        · rw [← h3]; exact hf

/-- `matching_injective` for the closed model (the coarse offset and the fitted map are no longer inputs). -/
theorem closed_matching_injective (tsa tsb : List ℚ) (tbin : ℚ) (linear : Bool)
    (hsep : ∀ (i i' : Nat) (a a' : ℚ), i < i' → tsa[i]? = some a → tsa[i']? = some a' → 2 * tbin ≤ |a - a'|)
    (ps : List (Nat × Nat)) (drift : ℚ) (nodes : List (ℚ × ℚ)) (c : Coarse)
    (h : syncClosed tsa tsb tbin linear = .ok ps drift nodes c) :
    (ps.map (·.1)).Nodup ∧ (ps.map (·.2)).Nodup := by
  unfold syncClosed at h
  have hne : tsa ≠ [] ∧ tsb ≠ [] := by
    by_contra hc
    have : tsa = [] ∨ tsb = [] := by
      by_cases h1 : tsa = []
      · exact Or.inl h1
      · by_cases h2 : tsb = []
        · exact Or.inr h2
        · exact absurd ⟨h1, h2⟩ hc
    unfold coarse at h
    simp only [this, if_true] at h
    simp [syncClosedOf] at h
  obtain ⟨_, hs, _⟩ := closed_is_sync _ tsa tsb tbin linear hne.1 hne.2 ps drift nodes c h
  exact matching_injective c.delta tbin tsa tsb _ hsep ps hs

/-- The whole function on the noise-free case, end to end (nothing is an input any more): `tsa` an exact copy of `tsb`
moved by a whole number `s` of bins, events at least one bin apart, at least two events.  In either mode the closed model
returns exactly the pairs `(i, i)` of ALL events, drift exactly 0 ppm, and a map that is exactly the true map
`x ↦ x − s·tbin` at every `x` (held-out or not); the coarse offset is exactly `s·tbin`. -/
theorem closed_exact_copy (tsb : List ℚ) (tbin : ℚ) (s : ℤ) (linear : Bool) (hb : 0 < tbin)
    (hgap : tsb.Pairwise (fun b b' => b + tbin ≤ b')) (hlen : 2 ≤ tsb.length) :
    ∃ c nodes ps, syncClosed (tsb.map (· + (s : ℚ) * tbin)) tsb tbin linear = .ok ps 0 nodes c ∧
      c.delta = (s : ℚ) * tbin ∧ (∀ i j, (i, j) ∈ ps ↔ (i = j ∧ i < tsb.length)) ∧
      ∃ f, mapOf linear nodes = some f ∧ ∀ x, f x = x - (s : ℚ) * tbin :=
  syncClosed_exact_copy tsb tbin s linear hb hgap hlen

/-- Non-vacuity: three events 1.3 s and 3.7 s apart, clock A 0.7 s ahead, interpolating mode. -/
example : ∃ c nodes ps, syncClosed ([0, 13/10, 5].map (· + ((7 : ℤ) : ℚ) * (1/10))) [0, 13/10, 5] (1/10) false = .ok ps 0 nodes c ∧
    c.delta = ((7 : ℤ) : ℚ) * (1/10) := by
  obtain ⟨c, nodes, ps, h, hd, _⟩ := closed_exact_copy [0, 13/10, 5] (1/10) 7 false (by norm_num)
    (by simp only [List.pairwise_cons, List.mem_cons, List.not_mem_nil, or_false, forall_eq_or_imp, forall_eq]; norm_num)
    (by decide)
  exact ⟨c, nodes, ps, h, hd⟩

/-- The executable fit the closed model (and the driver, against `np.polyfit`) runs is the solution of the normal
equations the fit theorems above are about. -/
theorem fit_is_normal_equations {n : ℕ} (x y : Fin n → ℚ) :
    fitLine (List.ofFn x) (List.ofFn y) =
      if (n : ℚ) * ∑ k, x k ^ 2 - (∑ k, x k) ^ 2 = 0 then none else some (lsqSlope x y, lsqIntercept x y) :=
  fitLine_ofFn x y

/-- Both modes on exactly affine matches: if the matched times are related by `tsb = α·tsa + β` (at least two matches, no
`tsa` twice), the model's `drift_ppm` is `(α − 1)·10⁶` and the returned map — least-squares line OR chord interpolant, sorted
or not — is the true map at every `x`; in particular linear and interpolating mode agree everywhere. -/
theorem closed_map_exact_on_collinear (nodes : List (ℚ × ℚ)) (α β : ℚ)
    (hline : ∀ p ∈ nodes, p.2 = α * p.1 + β) (hnd : (nodes.map (·.1)).Nodup) (hlen : 2 ≤ nodes.length) :
    (∃ ab, fitAb nodes = some ab ∧ driftPpm ab.1 = (α - 1) * 1000000) ∧
    ∃ f g, mapOf true nodes = some f ∧ mapOf false nodes = some g ∧ ∀ x, f x = α * x + β ∧ g x = α * x + β ∧ f x = g x := by
  obtain ⟨f, hf, hfx⟩ := mapOf_on_collinear true nodes α β hline hnd hlen
  obtain ⟨g, hg, hgx⟩ := mapOf_on_collinear false nodes α β hline hnd hlen
  refine ⟨?_, f, g, hf, hg, fun x => ⟨hfx x, hgx x, by rw [hfx, hgx]⟩⟩
  obtain ⟨p, q, rest, rfl⟩ : ∃ p q rest, nodes = p :: q :: rest := by
    match nodes, hlen with
    | p :: q :: rest, _ => exact ⟨p, q, rest, rfl⟩
  have hpq : p.1 ≠ q.1 := by
    simp only [List.map_cons, List.nodup_cons, List.mem_cons, not_or] at hnd
    exact hnd.1.1
  exact ⟨_, fitAb_on_collinear _ α β hline p q (by simp) (by simp) hpq, rfl⟩

/-- Non-vacuity: three matches on a 100 ppm clock 12 s ahead. -/
example : ∃ f g, mapOf true [(0, 12), (1, 13 + 1/10000), (3, 15 + 3/10000)] = some f ∧
    mapOf false [(0, 12), (1, 13 + 1/10000), (3, 15 + 3/10000)] = some g ∧ f 2 = g 2 := by
  obtain ⟨_, f, g, hf, hg, h⟩ := closed_map_exact_on_collinear [(0, 12), (1, 13 + 1/10000), (3, 15 + 3/10000)]
    (1 + 1/10000) 12 (by intro p hp; simp at hp; rcases hp with rfl | rfl | rfl <;> norm_num) (by decide) (by decide)
  exact ⟨f, g, hf, hg, (h 2).2.2⟩

/-- The interpolating map passes through every matched pair (samples sorted by strictly increasing `tsa`). -/
theorem interp_through_samples (nodes : List (ℚ × ℚ)) (hs : nodes.Pairwise (fun p q => p.1 < q.1))
    (hlen : 2 ≤ nodes.length) (p : ℚ × ℚ) (hp : p ∈ nodes) : interpEval nodes p.1 = some p.2 :=
  interpEval_at_node nodes hs hlen p hp

example : interpEval [(0, 12), (1, 13), (3, 16)] 1 = some 13 :=
  interp_through_samples _ (by decide) (by decide) (1, 13) (by decide)

/-- The returned linear map is strictly increasing whenever the matched `b` times increase with the matched `a` times
(which they do when the pairs are true correspondences of an increasing clock map): `1 + ab[0]` is the least-squares slope
of `tsb` on `tsa`, positive by Chebyshev's sum inequality. -/
theorem linear_map_increasing {n : ℕ} (ta tb : Fin n → ℚ) (hmono : ∀ k l, ta k < ta l → tb k < tb l)
    (k l : Fin n) (hkl : ta k < ta l) :
    let ab0 := lsqSlope ta (fun i => tb i - ta i)
    let ab1 := lsqIntercept ta (fun i => tb i - ta i)
    0 < 1 + ab0 ∧ ∀ x x' : ℚ, x < x' → x * (1 + ab0) + ab1 < x' * (1 + ab0) + ab1 := by
  simp only
  have hpos : 0 < 1 + lsqSlope ta (fun i => tb i - ta i) := by
    rw [lsqSlope_sub_self ta tb k l hkl.ne]
    have := lsqSlope_pos ta tb hmono k l hkl
    linarith
  refine ⟨hpos, fun x x' hx => ?_⟩
  have := mul_lt_mul_of_pos_right hx hpos
  linarith

example : 0 < 1 + lsqSlope (fun k : Fin 3 => (k.val : ℚ)) (fun k : Fin 3 => (2 * (k.val : ℚ) + 5) - (k.val : ℚ)) :=
  (linear_map_increasing (fun k : Fin 3 => (k.val : ℚ)) (fun k : Fin 3 => 2 * (k.val : ℚ) + 5)
    (fun k l h => by
      have h' : (k.val : ℚ) < (l.val : ℚ) := h
      show 2 * (k.val : ℚ) + 5 < 2 * (l.val : ℚ) + 5
      linarith) 0 1 (by norm_num)).1

end IblVerif.C19
