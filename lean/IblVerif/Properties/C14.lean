/-
C14 — Spike features obey their ordering, extremum and equivariance laws
(`ibldsp.waveforms.compute_spike_features`).

Property theorems only; the model is `Model/Features.lean`, the vocabulary (`smp`, `IsPeakLoc`,
`IsFirstExtremum`, `WeaklyPositive`, `WithinHalf`, `UniqueMaxChannel`, `RectBatch`) is
`Lemmas/FeaturesSpec.lean`, helper lemmas are `Lemmas/Features*.lean`.

Every statement is about `Features.batch k T ws`: the vectorised pipeline on a whole batch
`ws = arr_in[N, T, C]` (waveform `i`, channel `c`, sample `t` is `smp ws[i] c t`), for ALL batches of
rational-valued waveforms, all `N, T, C ≥ 1` and all recovery offsets `k` – the property's quantifier.

Finding F21 (positive largest deflection after which the trace never falls below two thirds of it, e.g.
a positive peak on the last sample: the swap branch used to leave the un-inverted trace in `arr_peak`)
was repaired in /repo (`fix:` 3bee7fb); the model follows the repaired code, no theorem excludes that
class any more, and `swapped_positive_peak_witness` states the repaired behaviour on the old witness.
-/
import IblVerif.Lemmas.FeaturesMain
import Mathlib.Tactic.IntervalCases

namespace IblVerif.C14
open IblVerif.Features

/-- NaN samples (`none`) are zeroed before anything else is computed: a NaN-padded channel is a flat
zero channel for every feature. -/
theorem nan_is_zero (k T : Nat) (raw : List (List (List (Option Rat)))) :
    batchRaw k T raw = batch k T (raw.map fun w => w.map fun ch => ch.map fun x => x.getD 0) := rfl

/-- Feature extraction succeeds on every batch in which no waveform has its largest deflection on the
first sample (and the recovery offset fits in the window); one row per waveform. -/
theorem succeeds (k T : Nat) (ws : List Wave) (hB : RectBatch T ws) (hk : k < T)
    (hfirst : ∀ w ∈ ws, ∀ c t, IsPeakLoc T w c t → 0 < t) :
    ∃ fs, batch k T ws = .ok fs ∧ fs.length = ws.length := by
  obtain ⟨hne, hT, hws⟩ := hB
  obtain ⟨fs, hfs⟩ := mapM_ok_of_forall (f := rowFeatures k T) (l := ws)
    (fun w hw => row_succeeds (hws w hw).2 (hws w hw).1 hk (hfirst w hw))
  have h := (batch_ok_iff_mapM k T ws hne fs).mpr hfs
  exact ⟨fs, h, batch_length hne h⟩

/-- The hypothesis of `succeeds` is needed: a batch containing a waveform whose largest deflection is a
non-positive value on sample 0 makes the whole extraction fail (`np.nanargmax` on an all-NaN row). -/
theorem fails_on_first_sample_peak (k T : Nat) (ws : List Wave) (hB : RectBatch T ws)
    (hbad : ∃ w ∈ ws, ∃ c, IsPeakLoc T w c 0 ∧ smp w c 0 ≤ 0) : ∀ fs, batch k T ws ≠ .ok fs := by
  intro fs h
  obtain ⟨hne, hT, hws⟩ := hB
  obtain ⟨w, hw, c, hloc, hneg⟩ := hbad
  obtain ⟨i, hi, rfl⟩ := List.getElem_of_mem hw
  have hl := batch_length hne h
  have := batch_row hne h (List.getElem?_eq_getElem hi) (List.getElem?_eq_getElem (by omega : i < fs.length))
  rw [row_fails_first (hws _ hw).2 (hws _ hw).1 hloc hneg] at this
  cases this

/-- … and so is the bound on the recovery offset (`ValueError: Index out of bound`). -/
theorem fails_on_offset_beyond_window (k T : Nat) (ws : List Wave) (hB : RectBatch T ws) (hk : T ≤ k) :
    ∀ fs, batch k T ws ≠ .ok fs := by
  intro fs h
  obtain ⟨hne, hT, hws⟩ := hB
  obtain ⟨w, hw⟩ := List.exists_mem_of_ne_nil ws hne
  obtain ⟨i, hi, rfl⟩ := List.getElem_of_mem hw
  have hl := batch_length hne h
  have := batch_row hne h (List.getElem?_eq_getElem hi) (List.getElem?_eq_getElem (by omega : i < fs.length))
  exact row_fails_offset (hws _ hw).2 hT (hws _ hw).1 hk _ this

/-- The reported peak is the global absolute extremum – first channel reaching it, first sample on that
channel – unless the spike is weakly positive. -/
theorem peak_is_abs_extremum (k T : Nat) (ws : List Wave) (fs : List Feat) (hB : RectBatch T ws)
    (h : batch k T ws = .ok fs) (i : Nat) (w : Wave) (f : Feat) (hw : ws[i]? = some w) (hf : fs[i]? = some f)
    (c p : Nat) (hloc : IsPeakLoc T w c p) (hnw : ¬ ∃ q, WeaklyPositive T w c p q) :
    f.peakTrace = c ∧ f.peakTime = p ∧ f.peakVal = smp w c p := by
  obtain ⟨c0, p0, hloc0, hs⟩ := batch_row_spec hB h hw hf
  obtain ⟨rfl, rfl⟩ := hloc.unique hloc0
  rcases hs.swap with ⟨hp, _⟩ | hwp
  · exact ⟨hs.trace, hp, by rw [hs.pv, hp]⟩
  · exact absurd ⟨_, hwp⟩ hnw

/-- For a weakly positive spike (positive extremum, `|peak / trough| ≤ 1.5` with the trough = first
minimum of the same channel from the extremum on) the reported peak is that trough, on the same channel. -/
theorem peak_is_swapped_trough (k T : Nat) (ws : List Wave) (fs : List Feat) (hB : RectBatch T ws)
    (h : batch k T ws = .ok fs) (i : Nat) (w : Wave) (f : Feat) (hw : ws[i]? = some w) (hf : fs[i]? = some f)
    (c p q : Nat) (hloc : IsPeakLoc T w c p) (hwp : WeaklyPositive T w c p q) :
    f.peakTrace = c ∧ f.peakTime = q ∧ f.peakVal = smp w c q := by
  obtain ⟨c0, p0, hloc0, hs⟩ := batch_row_spec hB h hw hf
  obtain ⟨rfl, rfl⟩ := hloc.unique hloc0
  rcases hs.swap with ⟨_, hno⟩ | hwp'
  · exact absurd ⟨q, hwp⟩ hno
  · have hq : f.peakTime = q := hwp'.2.1.unique hwp.2.1
    exact ⟨hs.trace, hq, by rw [hs.pv, hq]⟩

/-- tip precedes peak, peak does not follow trough, everything inside the window. -/
theorem tip_lt_peak_le_trough (k T : Nat) (ws : List Wave) (fs : List Feat) (hB : RectBatch T ws)
    (h : batch k T ws = .ok fs) (f : Feat) (hf : f ∈ fs) :
    f.tipTime < f.peakTime ∧ f.peakTime ≤ f.troughTime ∧ f.troughTime < T := by
  obtain ⟨i, hi, rfl⟩ := List.getElem_of_mem hf
  have hf' : fs[i]? = some fs[i] := List.getElem?_eq_getElem hi
  obtain ⟨w, hw⟩ := batch_wave_of_feat hB.1 h hf'
  obtain ⟨c0, p0, _, hs⟩ := batch_row_spec hB h hw hf'
  exact ⟨hs.tip_lt, hs.tr.1, hs.tr.2.1⟩

/-- The trough is the first sample from the peak on at which the peak channel is most opposite to the
peak (first maximum for a negative peak, first minimum for a positive one); `peak_val` and `trough_val`
are the samples at the reported indices and `invert_sign_peak = -sign(peak_val)`. -/
theorem trough_is_extremum_after_peak (k T : Nat) (ws : List Wave) (fs : List Feat) (hB : RectBatch T ws)
    (h : batch k T ws = .ok fs) (i : Nat) (w : Wave) (f : Feat) (hw : ws[i]? = some w) (hf : fs[i]? = some f) :
    IsFirstExtremum w f.peakTrace (flipSign f.peakVal) f.peakTime T f.troughTime ∧
    f.peakVal = smp w f.peakTrace f.peakTime ∧ f.troughVal = smp w f.peakTrace f.troughTime ∧
    f.peakVal ≠ 0 ∧ f.invertSign = flipSign f.peakVal := by
  obtain ⟨c0, p0, _, hs⟩ := batch_row_spec hB h hw hf
  rw [hs.trace]
  refine ⟨hs.tr, hs.pv, hs.trv, hs.pv_ne, ?_⟩
  rw [hs.sgn]
  have := flipSign_mul_invertSign hs.pv_ne
  have h2 := flipSign_mul_self f.peakVal
  calc invertSign f.peakVal = (flipSign f.peakVal * flipSign f.peakVal) * invertSign f.peakVal := by rw [h2]; ring
    _ = flipSign f.peakVal * (flipSign f.peakVal * invertSign f.peakVal) := by ring
    _ = flipSign f.peakVal := by rw [this]; ring

/-- The tip is the first sample before the peak at which the peak channel is most
opposite to the peak, and `tip_val` is the sample there. -/
theorem tip_is_extremum_before_peak (k T : Nat) (ws : List Wave) (fs : List Feat) (hB : RectBatch T ws)
    (h : batch k T ws = .ok fs) (i : Nat) (w : Wave) (f : Feat) (hw : ws[i]? = some w) (hf : fs[i]? = some f) :
    IsFirstExtremum w f.peakTrace (flipSign f.peakVal) 0 f.peakTime f.tipTime ∧
    f.tipVal = smp w f.peakTrace f.tipTime := by
  obtain ⟨c0, p0, hloc, hs⟩ := batch_row_spec hB h hw hf
  have hg := hs.good
  rw [hs.trace]
  exact ⟨hg.tip, hg.tipv⟩

/-- Whenever some sample on that side of the peak is back within half of the peak
value, the half-peak point is the NEAREST such sample (after: first from the peak on; before: last
before the peak), and the half-peak values are the samples at the reported indices. -/
theorem half_peak_nearest (k T : Nat) (ws : List Wave) (fs : List Feat) (hB : RectBatch T ws)
    (h : batch k T ws = .ok fs) (i : Nat) (w : Wave) (f : Feat) (hw : ws[i]? = some w) (hf : fs[i]? = some f) :
    ((∃ t, f.peakTime ≤ t ∧ t < T ∧ WithinHalf f.peakVal (smp w f.peakTrace t)) →
        f.peakTime < f.halfPost ∧ f.halfPost < T ∧ WithinHalf f.peakVal (smp w f.peakTrace f.halfPost) ∧
        ∀ u, f.peakTime ≤ u → u < f.halfPost → ¬ WithinHalf f.peakVal (smp w f.peakTrace u)) ∧
    ((∃ t, t < f.peakTime ∧ WithinHalf f.peakVal (smp w f.peakTrace t)) →
        f.halfPre < f.peakTime ∧ WithinHalf f.peakVal (smp w f.peakTrace f.halfPre) ∧
        ∀ u, f.halfPre < u → u < f.peakTime → ¬ WithinHalf f.peakVal (smp w f.peakTrace u)) ∧
    f.halfPostVal = smp w f.peakTrace f.halfPost ∧ f.halfPreVal = smp w f.peakTrace f.halfPre := by
  obtain ⟨c0, p0, hloc, hs⟩ := batch_row_spec hB h hw hf
  have hg := hs.good
  rw [hs.trace]
  refine ⟨?_, hg.half.pre_some, hg.postv, hg.prev⟩
  intro hex
  obtain ⟨h1, h2, h3, h4⟩ := hg.half.post_some hex
  refine ⟨?_, h2, h3, h4⟩
  -- the peak itself is not within half of its own (non-zero) value
  rcases Nat.lt_or_ge f.peakTime f.halfPost with hlt | hge
  · exact hlt
  · have heq : f.halfPost = f.peakTime := by omega
    rw [heq, ← hs.pv] at h3
    have hne := hs.pv_ne
    unfold WithinHalf at h3
    split at h3
    · linarith
    · have : f.peakVal < 0 := lt_of_le_of_ne (not_lt.mp ‹_›) hne
      linarith

/-- … and when no sample on a side is back within half of the peak value the code's fall-backs are
reported: sample 0 after the peak, the last sample of the window before it. -/
theorem half_peak_absent (k T : Nat) (ws : List Wave) (fs : List Feat) (hB : RectBatch T ws)
    (h : batch k T ws = .ok fs) (i : Nat) (w : Wave) (f : Feat) (hw : ws[i]? = some w) (hf : fs[i]? = some f) :
    ((¬ ∃ t, f.peakTime ≤ t ∧ t < T ∧ WithinHalf f.peakVal (smp w f.peakTrace t)) → f.halfPost = 0) ∧
    ((¬ ∃ t, t < f.peakTime ∧ WithinHalf f.peakVal (smp w f.peakTrace t)) → f.halfPre = T - 1) := by
  obtain ⟨c0, p0, hloc, hs⟩ := batch_row_spec hB h hw hf
  have hg := hs.good
  rw [hs.trace]
  exact ⟨hg.half.post_none, hg.half.pre_none⟩

/-- The recovery point is `k` samples after the trough, or the last sample of the window whenever that
runs past the end (in particular when `trough + k = T`); its value is the sample there. -/
theorem recovery_fallback (k T : Nat) (ws : List Wave) (fs : List Feat) (hB : RectBatch T ws)
    (h : batch k T ws = .ok fs) (i : Nat) (w : Wave) (f : Feat) (hw : ws[i]? = some w) (hf : fs[i]? = some f) :
    f.recTime = (if f.troughTime + k < T then f.troughTime + k else T - 1) ∧ f.recTime < T ∧
    f.recVal = smp w f.peakTrace f.recTime := by
  obtain ⟨c0, p0, hloc, hs⟩ := batch_row_spec hB h hw hf
  refine ⟨hs.recT, ?_, ?_⟩
  · rw [hs.recT]; have := hs.kT; split <;> omega
  · rw [hs.trace]
    exact hs.good.recv

/-- The guard as it stood before the `fix:` commit (`idx_all > T`): for `trough + k = T` it does not
fire and the index `T` is outside the window `[0, T)` – the `IndexError` of finding F7. -/
theorem recovery_prefix_counterexample :
    let T := 10; let trough := 5; let k := 5
    ¬ (trough + k > T) ∧ ¬ (trough + k < T) ∧ (if trough + k ≥ T then T - 1 else trough + k) = T - 1 := by
  decide

/-- The old witness of finding F21 (one channel, positive peak on the last sample, which is swapped onto
itself) under the repaired code: the tip is sample 2 (−2, the most negative sample before the peak),
`half_peak_pre_time_idx = 7` (20 is the nearest sample below half of 100; sample 8 holds 60), and tip,
half-peak and recovery values are the samples at their indices. -/
theorem swapped_positive_peak_witness :
    let w : Wave := [[0, 1, -2, 1, 0, 2, 5, 20, 60, 100]]
    WeaklyPositive 10 w 0 9 9 ∧
    ∃ f, batch 5 10 [w] = .ok [f] ∧ f.peakTime = 9 ∧ f.peakVal = 100 ∧ f.troughTime = 9 ∧
      f.tipTime = 2 ∧ f.tipVal = -2 ∧ f.halfPre = 7 ∧ f.halfPreVal = 20 ∧ WithinHalf f.peakVal (smp w 0 7) ∧
      ¬ WithinHalf f.peakVal (smp w 0 8) ∧ f.recTime = 9 ∧ f.recVal = 100 := by
  intro w
  have hb : batch 5 10 [w] = .ok [⟨0, 9, 100, -1, 9, 100, 2, -2, 0, 7, 0, 20, 9, 100⟩] := by
    decide +kernel
  refine ⟨⟨by decide +kernel, ⟨by decide, by decide, ?_, ?_⟩, by decide +kernel⟩,
    _, hb, rfl, rfl, rfl, rfl, rfl, rfl, rfl, ?_, ?_, rfl, rfl⟩
  · intro t h1 h2
    have : t = 9 := by omega
    subst this
    decide +kernel
  · intro t h1 h2; omega
  · unfold WithinHalf; decide +kernel
  · unfold WithinHalf; decide +kernel

/-- Scaling every waveform by `c > 0` scales all value columns by `c` and leaves all indices (and
whether the extraction succeeds) unchanged. -/
theorem scale_equivariant (k T : Nat) (ws : List Wave) (c : ℚ) (hc : 0 < c) :
    (batch k T (ws.map (scaleWave c))).toOption = (batch k T ws).toOption.map (List.map (Feat.scale c)) := by
  by_cases hne : ws = []
  · subst hne
    have hnil : batch k T [] = if k ≥ T then .error .offsetOOB else .ok [] := by
      unfold batch swapBlock condIdx
      by_cases hk : k ≥ T <;> simp [hk]
    rw [List.map_nil, hnil]
    split <;> rfl
  · have hne' : ws.map (scaleWave c) ≠ [] := by simpa using hne
    have e1 := toOption_congr (batch_ok_iff_mapM k T _ hne')
    have e2 := toOption_congr (batch_ok_iff_mapM k T ws hne)
    rw [e1, e2, mapM_map_comm (scaleWave c) (Feat.scale c) (rowFeatures k T) (rowFeatures k T)
      (rowFeatures_scale hc k T), toOption_map]


/-- … and for the derived columns of a feature row: the peak-to-trough ratio and the two durations are
unchanged, the three slopes scale by `c` (float division modelled with its inf / NaN results). -/
theorem scale_derived_columns (c : ℚ) (hc : 0 < c) (f : Feat) (fs : ℚ) :
    (f.scale c).ratio = f.ratio ∧
    (f.scale c).peakToTroughDuration fs = f.peakToTroughDuration fs ∧
    (f.scale c).halfPeakDuration fs = f.halfPeakDuration fs ∧
    (f.scale c).depolSlope fs = (f.depolSlope fs).scale c ∧
    (f.scale c).repolSlope fs = (f.repolSlope fs).scale c ∧
    (f.scale c).recoverySlope fs = (f.recoverySlope fs).scale c :=
  derived_scale hc f fs

/-- Permuting the channels of every waveform (each waveform may even get its own permutation) only
permutes the peak-channel index: when every waveform has a unique maximal channel, the extraction on the
permuted batch succeeds too, every column other than `peak_trace_idx` is unchanged, and the new
`peak_trace_idx` points at the same physical trace. -/
theorem channel_perm (k T : Nat) (ws ws' : List Wave) (fs : List Feat) (hB : RectBatch T ws)
    (hlen : ws'.length = ws.length)
    (hperm : ∀ (i : Nat) w w', ws[i]? = some w → ws'[i]? = some w' → w.Perm w')
    (hu : ∀ w ∈ ws, UniqueMaxChannel T w) (h : batch k T ws = .ok fs) :
    ∃ fs', batch k T ws' = .ok fs' ∧ fs'.length = fs.length ∧
      ∀ (i : Nat) w w' f f', ws[i]? = some w → ws'[i]? = some w' → fs[i]? = some f → fs'[i]? = some f' →
        { f' with peakTrace := f.peakTrace } = f ∧ w'[f'.peakTrace]? = w[f.peakTrace]? := by
  obtain ⟨hne, hT, hws⟩ := hB
  have hl := batch_length hne h
  have hne' : ws' ≠ [] := by
    intro h0; rw [h0] at hlen; exact hne (List.eq_nil_of_length_eq_zero hlen.symm)
  -- per waveform
  have hrow : ∀ (i : Nat) w w', ws[i]? = some w → ws'[i]? = some w' →
      ∃ c c' row, w[c]? = some row ∧ w'[c']? = some row ∧
        (rowFeatures k T w').map (Feat.setTrace 0) = (rowFeatures k T w).map (Feat.setTrace 0) ∧
        (∀ f, rowFeatures k T w = .ok f → f.peakTrace = c) ∧ (∀ f', rowFeatures k T w' = .ok f' → f'.peakTrace = c') := by
    intro i w w' hw hw'
    have hmem := List.mem_of_getElem? hw
    exact rowFeatures_perm k T w w' (fun r => (hperm i w w' hw hw').mem_iff) (hws w hmem).2 hT (hws w hmem).1 (hu w hmem)
  have hex : ∀ w' ∈ ws', ∃ f', rowFeatures k T w' = .ok f' := by
    intro w' hw'
    obtain ⟨i, hi, rfl⟩ := List.getElem_of_mem hw'
    have hiw : i < ws.length := by omega
    have hf := batch_row hne h (List.getElem?_eq_getElem hiw) (List.getElem?_eq_getElem (by omega : i < fs.length))
    obtain ⟨_, _, _, _, _, heq, _, _⟩ := hrow i _ _ (List.getElem?_eq_getElem hiw) (List.getElem?_eq_getElem hi)
    rw [hf] at heq
    cases hr : rowFeatures k T ws'[i] with
    | error e => rw [hr] at heq; cases heq
    | ok f' => exact ⟨f', rfl⟩
  obtain ⟨fs', hfs'⟩ := mapM_ok_of_forall hex
  have h' := (batch_ok_iff_mapM k T ws' hne' fs').mpr hfs'
  have hl' := batch_length hne' h'
  refine ⟨fs', h', by omega, ?_⟩
  intro i w w' f f' hw hw' hf hf'
  have e := batch_row hne h hw hf
  have e' := batch_row hne' h' hw' hf'
  obtain ⟨c, c', row, hc, hc', heq, hpc, hpc'⟩ := hrow i w w' hw hw'
  rw [e, e'] at heq
  have hft : f'.setTrace 0 = f.setTrace 0 := by
    simpa [Except.map] using heq
  refine ⟨?_, by rw [hpc f e, hpc' f' e', hc, hc']⟩
  obtain ⟨a1, a2, a3, a4, a5, a6, a7, a8, a9, a10, a11, a12, a13, a14⟩ := f
  obtain ⟨b1, b2, b3, b4, b5, b6, b7, b8, b9, b10, b11, b12, b13, b14⟩ := f'
  simp only [Feat.setTrace, Feat.mk.injEq] at hft
  simp only [Feat.mk.injEq, true_and]
  exact hft.2

/-- Without the unique-maximum hypothesis the law fails: with two channels `(0, 5, 0)` and `(0, -5, 0)`
of equal absolute maximum the first one is chosen in either order, so the peak channel index stays 0
while the physical trace (and the sign of `peak_val`) changes. -/
theorem channel_perm_tie_counterexample :
    let w : Wave := [[0, 5, 0], [0, -5, 0]]
    let w' : Wave := [[0, -5, 0], [0, 5, 0]]
    w.Perm w' ∧ ¬ UniqueMaxChannel 3 w ∧
    ∃ f f', batch 1 3 [w] = .ok [f] ∧ batch 1 3 [w'] = .ok [f'] ∧ f.peakTrace = 0 ∧ f'.peakTrace = 0 ∧
      f.peakVal = 5 ∧ f'.peakVal = -5 ∧ w'[f'.peakTrace]? ≠ w[f.peakTrace]? := by
  intro w w'
  refine ⟨List.Perm.swap _ _ _, ?_, ⟨0, 1, 5, -1, 2, 0, 0, 0, 2, 0, 0, 0, 2, 0⟩, ⟨0, 1, -5, 1, 2, 0, 0, 0, 2, 0, 0, 0, 2, 0⟩,
    by decide +kernel, by decide +kernel, rfl, rfl, rfl, rfl, by decide +kernel⟩
  rintro ⟨c, t, hc, ht, hlt⟩
  have hc' : c < 2 := hc
  have hc2 : c = 0 ∨ c = 1 := by omega
  have hsm : ∀ c' t', c' < 2 → t' < 3 → |smp w c' t'| ≤ 5 := by
    intro c' t' h1 h2
    interval_cases c' <;> interval_cases t' <;> decide +kernel
  rcases hc2 with rfl | rfl
  · have := hlt 1 1 (by decide) (by decide) (by decide)
    have h5 : |smp w 1 1| = 5 := by decide +kernel
    have := hsm 0 t (by decide) ht
    linarith
  · have := hlt 0 1 (by decide) (by decide) (by decide)
    have h5 : |smp w 0 1| = 5 := by decide +kernel
    have := hsm 1 t (by decide) ht
    linarith

/-- Each waveform's features do not depend on the other waveforms of the batch: the vectorised
pipeline (including the `df_index` sub-selection / write-back of the swap) succeeds on a batch exactly
when it succeeds on every waveform alone, and row `i` is what waveform `i` alone gives. -/
theorem batch_independent (k T : Nat) (ws : List Wave) (hne : ws ≠ []) (fs : List Feat) :
    batch k T ws = .ok fs ↔ fs.length = ws.length ∧
      ∀ (i : Nat) w f, ws[i]? = some w → fs[i]? = some f → batch k T [w] = .ok [f] := by
  have hsingle : ∀ w f, batch k T [w] = .ok [f] ↔ rowFeatures k T w = .ok f := by
    intro w f
    rw [batch_ok_iff_mapM k T [w] (by simp) [f]]
    simp only [List.mapM_cons, List.mapM_nil, bind_eq_ok, pure_eq_ok, Except.ok.injEq]
    constructor
    · rintro ⟨a, ha, b, hb, hab⟩
      simp only [List.cons.injEq] at hab
      rw [ha, hab.1]
    · intro h; exact ⟨f, h, [], rfl, rfl⟩
  rw [batch_ok_iff k T ws hne fs]
  constructor
  · rintro ⟨h1, h2⟩
    exact ⟨h1, fun i w f hw hf => (hsingle w f).mpr (h2 i w f hw hf)⟩
  · rintro ⟨h1, h2⟩
    exact ⟨h1, fun i w f hw hf => (hsingle w f).mp (h2 i w f hw hf)⟩

/-! ### non-vacuity: the hypotheses are satisfiable on non-trivial batches -/

/-- a two-waveform batch (one negative spike; one weakly positive two-channel spike that is swapped)
satisfying the hypotheses of `succeeds`, with its features -/
example :
    let ws : List Wave := [[[0, 1, -10, 4, 1, 0]], [[0, 1, 9, -8, 0, 0], [0, 0, 1, 1, 0, 0]]]
    RectBatch 6 ws ∧ (∀ w ∈ ws, ∀ c t, IsPeakLoc 6 w c t → 0 < t) ∧
    batch 2 6 ws = .ok [⟨0, 2, -10, 1, 3, 4, 1, 1, 3, 1, 4, 1, 5, 0⟩, ⟨0, 3, -8, 1, 4, 0, 2, 9, 4, 2, 0, 9, 5, 0⟩] := by
  intro ws
  refine ⟨⟨by decide, by decide, ?_⟩, ?_, by decide +kernel⟩
  · intro w hw
    simp only [ws, List.mem_cons, List.not_mem_nil, or_false] at hw
    rcases hw with rfl | rfl
    · exact ⟨by decide, fun r hr => by simp at hr; subst hr; rfl⟩
    · exact ⟨by decide, fun r hr => by simp at hr; rcases hr with rfl | rfl <;> rfl⟩
  · intro w hw c t hloc
    simp only [ws, List.mem_cons, List.not_mem_nil, or_false] at hw
    by_contra h0
    have ht : t = 0 := by omega
    subst ht
    rcases hw with rfl | rfl
    · have hc : c = 0 := by have := hloc.1; simp at this; omega
      subst hc
      have := hloc.2.2.1 0 2 (by decide) (by decide)
      revert this; decide +kernel
    · have hc : c < 2 := by have := hloc.1; simpa using this
      have := hloc.2.2.1 0 2 (by decide) (by decide)
      interval_cases c <;> revert this <;> decide +kernel

/-- the second waveform above is weakly positive (peak 9 on sample 2, trough −8 on sample 3) -/
example :
    let w : Wave := [[0, 1, 9, -8, 0, 0], [0, 0, 1, 1, 0, 0]]
    IsPeakLoc 6 w 0 2 ∧ WeaklyPositive 6 w 0 2 3 := by
  intro w
  refine ⟨⟨by decide, by decide, ?_, ?_, ?_⟩, ⟨by decide +kernel, ⟨by decide, by decide, ?_, ?_⟩, by decide +kernel⟩⟩
  · intro c' t' h1 h2
    have h1' : c' < 2 := h1
    interval_cases c' <;> interval_cases t' <;> decide +kernel
  · intro c' t' h1 h2; omega
  · intro t' h; interval_cases t' <;> decide +kernel
  · intro t h1 h2; interval_cases t <;> decide +kernel
  · intro t h1 h2; interval_cases t; decide +kernel

/-- … and it has a unique maximal channel, so `channel_perm` applies to it and to its channel swap -/
example :
    let w : Wave := [[0, 1, 9, -8, 0, 0], [0, 0, 1, 1, 0, 0]]
    UniqueMaxChannel 6 w ∧ w.Perm [[0, 0, 1, 1, 0, 0], [0, 1, 9, -8, 0, 0]] ∧
    batch 1 6 [[[0, 0, 1, 1, 0, 0], [0, 1, 9, -8, 0, 0]]] = .ok [⟨1, 3, -8, 1, 4, 0, 2, 9, 4, 2, 0, 9, 5, 0⟩] := by
  intro w
  refine ⟨⟨0, 2, by decide, by decide, ?_⟩, List.Perm.swap _ _ _, by decide +kernel⟩
  intro c' t' h1 h2 h3
  have h1' : c' < 2 := h1
  have : c' = 1 := by omega
  subst this
  interval_cases t' <;> decide +kernel

end IblVerif.C14
