/-
C14 — Spike features obey their ordering, extremum and equivariance laws
(`ibldsp.waveforms.compute_spike_features`).

Property theorems only; the model is `Model/Features.lean`, the vocabulary (`smp`, `IsPeakLoc`,
`IsFirstExtremum`, `WeaklyPositive`, `WithinHalf`, `UniqueMaxChannel`, `RectBatch`) is
`Lemmas/FeaturesSpec.lean`, helper lemmas are `Lemmas/Features*.lean`.

Every statement is about `Features.batch k T ws`: the vectorised pipeline on a whole batch
`ws = arr_in[N, T, C]` (waveform `i`, channel `c`, sample `t` is `smp ws[i] c t`), for ALL batches of
rational-valued waveforms, all `N, T, C ≥ 1` and all recovery offsets `k` – the property's quantifier.

Finding F21 (positive largest deflection after which the trace never falls below two thirds of it, e.g.
a positive peak on the last sample: the swap branch used to leave the un-inverted trace in `arr_peak`)
was repaired in /repo (`fix:` 3bee7fb); the model follows the repaired code, no theorem excludes that
class any more, and `swapped_positive_peak_witness` states the repaired behaviour on the old witness.
-/
import IblVerif.Lemmas.FeaturesMain
import IblVerif.Lemmas.FeaturesCall
import Mathlib.Tactic.IntervalCases

namespace IblVerif.C14
open IblVerif.Features

/-- NaN samples (`none`) are zeroed before anything else is computed: a NaN-padded channel is a flat
zero channel for every feature. -/
theorem nan_is_zero (k T : Nat) (raw : List (List (List (Option Rat)))) :
    batchRaw k T raw = batch k T (raw.map fun w => w.map fun ch => ch.map fun x => x.getD 0) := rfl

/-- Feature extraction succeeds on every batch in which no waveform has its largest deflection on the
first sample (and the recovery offset fits in the window); one row per waveform. -/
theorem succeeds (k T : Nat) (ws : List Wave) (hB : RectBatch T ws) (hk : k < T)
    (hfirst : ∀ w ∈ ws, ∀ c t, IsPeakLoc T w c t → 0 < t) :
    ∃ fs, batch k T ws = .ok fs ∧ fs.length = ws.length := by
  obtain ⟨hne, hT, hws⟩ := hB
  obtain ⟨fs, hfs⟩ := mapM_ok_of_forall (f := rowFeatures k T) (l := ws)
    (fun w hw => row_succeeds (hws w hw).2 (hws w hw).1 hk (hfirst w hw))
  have h := (batch_ok_iff_mapM k T ws hne fs).mpr hfs
  exact ⟨fs, h, batch_length hne h⟩

/-- The hypothesis of `succeeds` is needed: a batch containing a waveform whose largest deflection is a
non-positive value on sample 0 makes the whole extraction fail (`np.nanargmax` on an all-NaN row). -/
theorem fails_on_first_sample_peak (k T : Nat) (ws : List Wave) (hB : RectBatch T ws)
    (hbad : ∃ w ∈ ws, ∃ c, IsPeakLoc T w c 0 ∧ smp w c 0 ≤ 0) : ∀ fs, batch k T ws ≠ .ok fs := by
  intro fs h
  obtain ⟨hne, hT, hws⟩ := hB
  obtain ⟨w, hw, c, hloc, hneg⟩ := hbad
  obtain ⟨i, hi, rfl⟩ := List.getElem_of_mem hw
  have hl := batch_length hne h
  have := batch_row hne h (List.getElem?_eq_getElem hi) (List.getElem?_eq_getElem (by omega : i < fs.length))
  rw [row_fails_first (hws _ hw).2 (hws _ hw).1 hloc hneg] at this
  cases this

/-- … and so is the bound on the recovery offset (`ValueError: Index out of bound`). -/
theorem fails_on_offset_beyond_window (k T : Nat) (ws : List Wave) (hB : RectBatch T ws) (hk : T ≤ k) :
    ∀ fs, batch k T ws ≠ .ok fs := by
  intro fs h
  obtain ⟨hne, hT, hws⟩ := hB
  obtain ⟨w, hw⟩ := List.exists_mem_of_ne_nil ws hne
  obtain ⟨i, hi, rfl⟩ := List.getElem_of_mem hw
  have hl := batch_length hne h
  have := batch_row hne h (List.getElem?_eq_getElem hi) (List.getElem?_eq_getElem (by omega : i < fs.length))
  exact row_fails_offset (hws _ hw).2 hT (hws _ hw).1 hk _ this

/-- The reported peak is the global absolute extremum – first channel reaching it, first sample on that
channel – unless the spike is weakly positive. -/
theorem peak_is_abs_extremum (k T : Nat) (ws : List Wave) (fs : List Feat) (hB : RectBatch T ws)
    (h : batch k T ws = .ok fs) (i : Nat) (w : Wave) (f : Feat) (hw : ws[i]? = some w) (hf : fs[i]? = some f)
    (c p : Nat) (hloc : IsPeakLoc T w c p) (hnw : ¬ ∃ q, WeaklyPositive T w c p q) :
    f.peakTrace = c ∧ f.peakTime = p ∧ f.peakVal = smp w c p := by
  obtain ⟨c0, p0, hloc0, hs⟩ := batch_row_spec hB h hw hf
  obtain ⟨rfl, rfl⟩ := hloc.unique hloc0
  rcases hs.swap with ⟨hp, _⟩ | hwp
  · exact ⟨hs.trace, hp, by rw [hs.pv, hp]⟩
  · exact absurd ⟨_, hwp⟩ hnw

/-- For a weakly positive spike (positive extremum, `|peak / trough| ≤ 1.5` with the trough = first
minimum of the same channel from the extremum on) the reported peak is that trough, on the same channel. -/
theorem peak_is_swapped_trough (k T : Nat) (ws : List Wave) (fs : List Feat) (hB : RectBatch T ws)
    (h : batch k T ws = .ok fs) (i : Nat) (w : Wave) (f : Feat) (hw : ws[i]? = some w) (hf : fs[i]? = some f)
    (c p q : Nat) (hloc : IsPeakLoc T w c p) (hwp : WeaklyPositive T w c p q) :
    f.peakTrace = c ∧ f.peakTime = q ∧ f.peakVal = smp w c q := by
  obtain ⟨c0, p0, hloc0, hs⟩ := batch_row_spec hB h hw hf
  obtain ⟨rfl, rfl⟩ := hloc.unique hloc0
  rcases hs.swap with ⟨_, hno⟩ | hwp'
  · exact absurd ⟨q, hwp⟩ hno
  · have hq : f.peakTime = q := hwp'.2.1.unique hwp.2.1
    exact ⟨hs.trace, hq, by rw [hs.pv, hq]⟩

/-- tip precedes peak, peak does not follow trough, everything inside the window. -/
theorem tip_lt_peak_le_trough (k T : Nat) (ws : List Wave) (fs : List Feat) (hB : RectBatch T ws)
    (h : batch k T ws = .ok fs) (f : Feat) (hf : f ∈ fs) :
    f.tipTime < f.peakTime ∧ f.peakTime ≤ f.troughTime ∧ f.troughTime < T := by
  obtain ⟨i, hi, rfl⟩ := List.getElem_of_mem hf
  have hf' : fs[i]? = some fs[i] := List.getElem?_eq_getElem hi
  obtain ⟨w, hw⟩ := batch_wave_of_feat hB.1 h hf'
  obtain ⟨c0, p0, _, hs⟩ := batch_row_spec hB h hw hf'
  exact ⟨hs.tip_lt, hs.tr.1, hs.tr.2.1⟩

/-- The trough is the first sample from the peak on at which the peak channel is most opposite to the
peak (first maximum for a negative peak, first minimum for a positive one); `peak_val` and `trough_val`
are the samples at the reported indices and `invert_sign_peak = -sign(peak_val)`. -/
theorem trough_is_extremum_after_peak (k T : Nat) (ws : List Wave) (fs : List Feat) (hB : RectBatch T ws)
    (h : batch k T ws = .ok fs) (i : Nat) (w : Wave) (f : Feat) (hw : ws[i]? = some w) (hf : fs[i]? = some f) :
    IsFirstExtremum w f.peakTrace (flipSign f.peakVal) f.peakTime T f.troughTime ∧
    f.peakVal = smp w f.peakTrace f.peakTime ∧ f.troughVal = smp w f.peakTrace f.troughTime ∧
    f.peakVal ≠ 0 ∧ f.invertSign = flipSign f.peakVal := by
  obtain ⟨c0, p0, _, hs⟩ := batch_row_spec hB h hw hf
  rw [hs.trace]
  refine ⟨hs.tr, hs.pv, hs.trv, hs.pv_ne, ?_⟩
  rw [hs.sgn]
  have := flipSign_mul_invertSign hs.pv_ne
  have h2 := flipSign_mul_self f.peakVal
  calc invertSign f.peakVal = (flipSign f.peakVal * flipSign f.peakVal) * invertSign f.peakVal := by rw [h2]; ring
    _ = flipSign f.peakVal * (flipSign f.peakVal * invertSign f.peakVal) := by ring
    _ = flipSign f.peakVal := by rw [this]; ring

/-- The tip is the first sample before the peak at which the peak channel is most
opposite to the peak, and `tip_val` is the sample there. -/
theorem tip_is_extremum_before_peak (k T : Nat) (ws : List Wave) (fs : List Feat) (hB : RectBatch T ws)
    (h : batch k T ws = .ok fs) (i : Nat) (w : Wave) (f : Feat) (hw : ws[i]? = some w) (hf : fs[i]? = some f) :
    IsFirstExtremum w f.peakTrace (flipSign f.peakVal) 0 f.peakTime f.tipTime ∧
    f.tipVal = smp w f.peakTrace f.tipTime := by
  obtain ⟨c0, p0, hloc, hs⟩ := batch_row_spec hB h hw hf
  have hg := hs.good
  rw [hs.trace]
  exact ⟨hg.tip, hg.tipv⟩

/-- Whenever some sample on that side of the peak is back within half of the peak
value, the half-peak point is the NEAREST such sample (after: first from the peak on; before: last
before the peak), and the half-peak values are the samples at the reported indices. -/
theorem half_peak_nearest (k T : Nat) (ws : List Wave) (fs : List Feat) (hB : RectBatch T ws)
    (h : batch k T ws = .ok fs) (i : Nat) (w : Wave) (f : Feat) (hw : ws[i]? = some w) (hf : fs[i]? = some f) :
    ((∃ t, f.peakTime ≤ t ∧ t < T ∧ WithinHalf f.peakVal (smp w f.peakTrace t)) →
        f.peakTime < f.halfPost ∧ f.halfPost < T ∧ WithinHalf f.peakVal (smp w f.peakTrace f.halfPost) ∧
        ∀ u, f.peakTime ≤ u → u < f.halfPost → ¬ WithinHalf f.peakVal (smp w f.peakTrace u)) ∧
    ((∃ t, t < f.peakTime ∧ WithinHalf f.peakVal (smp w f.peakTrace t)) →
        f.halfPre < f.peakTime ∧ WithinHalf f.peakVal (smp w f.peakTrace f.halfPre) ∧
        ∀ u, f.halfPre < u → u < f.peakTime → ¬ WithinHalf f.peakVal (smp w f.peakTrace u)) ∧
    f.halfPostVal = smp w f.peakTrace f.halfPost ∧ f.halfPreVal = smp w f.peakTrace f.halfPre := by
  obtain ⟨c0, p0, hloc, hs⟩ := batch_row_spec hB h hw hf
  have hg := hs.good
  rw [hs.trace]
  refine ⟨?_, hg.half.pre_some, hg.postv, hg.prev⟩
  intro hex
  obtain ⟨h1, h2, h3, h4⟩ := hg.half.post_some hex
  refine ⟨?_, h2, h3, h4⟩
  -- the peak itself is not within half of its own (non-zero) value
  rcases Nat.lt_or_ge f.peakTime f.halfPost with hlt | hge
  · exact hlt
  · have heq : f.halfPost = f.peakTime := by omega
    rw [heq, ← hs.pv] at h3
    have hne := hs.pv_ne
    unfold WithinHalf at h3
    split at h3
    · linarith
    · have : f.peakVal < 0 := lt_of_le_of_ne (not_lt.mp ‹_›) hne
      linarith

/-- … and when no sample on a side is back within half of the peak value the code's fall-backs are
reported: sample 0 after the peak, the last sample of the window before it. -/
theorem half_peak_absent (k T : Nat) (ws : List Wave) (fs : List Feat) (hB : RectBatch T ws)
    (h : batch k T ws = .ok fs) (i : Nat) (w : Wave) (f : Feat) (hw : ws[i]? = some w) (hf : fs[i]? = some f) :
    ((¬ ∃ t, f.peakTime ≤ t ∧ t < T ∧ WithinHalf f.peakVal (smp w f.peakTrace t)) → f.halfPost = 0) ∧
    ((¬ ∃ t, t < f.peakTime ∧ WithinHalf f.peakVal (smp w f.peakTrace t)) → f.halfPre = T - 1) := by
  obtain ⟨c0, p0, hloc, hs⟩ := batch_row_spec hB h hw hf
  have hg := hs.good
  rw [hs.trace]
  exact ⟨hg.half.post_none, hg.half.pre_none⟩

/-- The recovery point is `k` samples after the trough, or the last sample of the window whenever that
runs past the end (in particular when `trough + k = T`); its value is the sample there. -/
theorem recovery_fallback (k T : Nat) (ws : List Wave) (fs : List Feat) (hB : RectBatch T ws)
    (h : batch k T ws = .ok fs) (i : Nat) (w : Wave) (f : Feat) (hw : ws[i]? = some w) (hf : fs[i]? = some f) :
    f.recTime = (if f.troughTime + k < T then f.troughTime + k else T - 1) ∧ f.recTime < T ∧
    f.recVal = smp w f.peakTrace f.recTime := by
  obtain ⟨c0, p0, hloc, hs⟩ := batch_row_spec hB h hw hf
  refine ⟨hs.recT, ?_, ?_⟩
  · rw [hs.recT]; have := hs.kT; split <;> omega
  · rw [hs.trace]
    exact hs.good.recv

/-- The guard as it stood before the `fix:` commit (`idx_all > T`): for `trough + k = T` it does not
fire and the index `T` is outside the window `[0, T)` – the `IndexError` of finding F7. -/
theorem recovery_prefix_counterexample :
    let T := 10; let trough := 5; let k := 5
    ¬ (trough + k > T) ∧ ¬ (trough + k < T) ∧ (if trough + k ≥ T then T - 1 else trough + k) = T - 1 := by
  decide

/-- The old witness of finding F21 (one channel, positive peak on the last sample, which is swapped onto
itself) under the repaired code: the tip is sample 2 (−2, the most negative sample before the peak),
`half_peak_pre_time_idx = 7` (20 is the nearest sample below half of 100; sample 8 holds 60), and tip,
half-peak and recovery values are the samples at their indices. -/
theorem swapped_positive_peak_witness :
    let w : Wave := [[0, 1, -2, 1, 0, 2, 5, 20, 60, 100]]
    WeaklyPositive 10 w 0 9 9 ∧
    ∃ f, batch 5 10 [w] = .ok [f] ∧ f.peakTime = 9 ∧ f.peakVal = 100 ∧ f.troughTime = 9 ∧
      f.tipTime = 2 ∧ f.tipVal = -2 ∧ f.halfPre = 7 ∧ f.halfPreVal = 20 ∧ WithinHalf f.peakVal (smp w 0 7) ∧
      ¬ WithinHalf f.peakVal (smp w 0 8) ∧ f.recTime = 9 ∧ f.recVal = 100 := by
  intro w
  have hb : batch 5 10 [w] = .ok [⟨0, 9, 100, -1, 9, 100, 2, -2, 0, 7, 0, 20, 9, 100⟩] := by
    decide +kernel
  refine ⟨⟨by decide +kernel, ⟨by decide, by decide, ?_, ?_⟩, by decide +kernel⟩,
    _, hb, rfl, rfl, rfl, rfl, rfl, rfl, rfl, ?_, ?_, rfl, rfl⟩
  · intro t h1 h2
    have : t = 9 := by omega
    subst this
    decide +kernel
  · intro t h1 h2; omega
  · unfold WithinHalf; decide +kernel
  · unfold WithinHalf; decide +kernel

/-- Scaling every waveform by `c > 0` scales all value columns by `c` and leaves all indices (and
whether the extraction succeeds) unchanged. -/
theorem scale_equivariant (k T : Nat) (ws : List Wave) (c : ℚ) (hc : 0 < c) :
    (batch k T (ws.map (scaleWave c))).toOption = (batch k T ws).toOption.map (List.map (Feat.scale c)) := by
  by_cases hne : ws = []
  · subst hne
    have hnil : batch k T [] = if k ≥ T then .error .offsetOOB else .ok [] := by
      unfold batch swapBlock condIdx
      by_cases hk : k ≥ T <;> simp [hk]
    rw [List.map_nil, hnil]
    split <;> rfl
  · have hne' : ws.map (scaleWave c) ≠ [] := by simpa using hne
    have e1 := toOption_congr (batch_ok_iff_mapM k T _ hne')
    have e2 := toOption_congr (batch_ok_iff_mapM k T ws hne)
    rw [e1, e2, mapM_map_comm (scaleWave c) (Feat.scale c) (rowFeatures k T) (rowFeatures k T)
      (rowFeatures_scale hc k T), toOption_map]


/-- … and for the derived columns of a feature row: the peak-to-trough ratio and the two durations are
unchanged, the three slopes scale by `c` (float division modelled with its inf / NaN results). -/
theorem scale_derived_columns (c : ℚ) (hc : 0 < c) (f : Feat) (fs : ℚ) :
    (f.scale c).ratio = f.ratio ∧
    (f.scale c).peakToTroughDuration fs = f.peakToTroughDuration fs ∧
    (f.scale c).halfPeakDuration fs = f.halfPeakDuration fs ∧
    (f.scale c).depolSlope fs = (f.depolSlope fs).scale c ∧
    (f.scale c).repolSlope fs = (f.repolSlope fs).scale c ∧
    (f.scale c).recoverySlope fs = (f.recoverySlope fs).scale c :=
  derived_scale hc f fs

/-- Permuting the channels of every waveform (each waveform may even get its own permutation) only
permutes the peak-channel index: when every waveform has a unique maximal channel, the extraction on the
permuted batch succeeds too, every column other than `peak_trace_idx` is unchanged, and the new
`peak_trace_idx` points at the same physical trace. -/
theorem channel_perm (k T : Nat) (ws ws' : List Wave) (fs : List Feat) (hB : RectBatch T ws)
    (hlen : ws'.length = ws.length)
    (hperm : ∀ (i : Nat) w w', ws[i]? = some w → ws'[i]? = some w' → w.Perm w')
    (hu : ∀ w ∈ ws, UniqueMaxChannel T w) (h : batch k T ws = .ok fs) :
    ∃ fs', batch k T ws' = .ok fs' ∧ fs'.length = fs.length ∧
      ∀ (i : Nat) w w' f f', ws[i]? = some w → ws'[i]? = some w' → fs[i]? = some f → fs'[i]? = some f' →
        { f' with peakTrace := f.peakTrace } = f ∧ w'[f'.peakTrace]? = w[f.peakTrace]? := by
  obtain ⟨hne, hT, hws⟩ := hB
  have hl := batch_length hne h
  have hne' : ws' ≠ [] := by
    intro h0; rw [h0] at hlen; exact hne (List.eq_nil_of_length_eq_zero hlen.symm)
  -- per waveform
  have hrow : ∀ (i : Nat) w w', ws[i]? = some w → ws'[i]? = some w' →
      ∃ c c' row, w[c]? = some row ∧ w'[c']? = some row ∧
        (rowFeatures k T w').map (Feat.setTrace 0) = (rowFeatures k T w).map (Feat.setTrace 0) ∧
        (∀ f, rowFeatures k T w = .ok f → f.peakTrace = c) ∧ (∀ f', rowFeatures k T w' = .ok f' → f'.peakTrace = c') := by
    intro i w w' hw hw'
    have hmem := List.mem_of_getElem? hw
    exact rowFeatures_perm k T w w' (fun r => (hperm i w w' hw hw').mem_iff) (hws w hmem).2 hT (hws w hmem).1 (hu w hmem)
  have hex : ∀ w' ∈ ws', ∃ f', rowFeatures k T w' = .ok f' := by
    intro w' hw'
    obtain ⟨i, hi, rfl⟩ := List.getElem_of_mem hw'
    have hiw : i < ws.length := by omega
    have hf := batch_row hne h (List.getElem?_eq_getElem hiw) (List.getElem?_eq_getElem (by omega : i < fs.length))
    obtain ⟨_, _, _, _, _, heq, _, _⟩ := hrow i _ _ (List.getElem?_eq_getElem hiw) (List.getElem?_eq_getElem hi)
    rw [hf] at heq
    cases hr : rowFeatures k T ws'[i] with
    | error e => rw [hr] at heq; cases heq
    | ok f' => exact ⟨f', rfl⟩
  obtain ⟨fs', hfs'⟩ := mapM_ok_of_forall hex
  have h' := (batch_ok_iff_mapM k T ws' hne' fs').mpr hfs'
  have hl' := batch_length hne' h'
  refine ⟨fs', h', by omega, ?_⟩
  intro i w w' f f' hw hw' hf hf'
  have e := batch_row hne h hw hf
  have e' := batch_row hne' h' hw' hf'
  obtain ⟨c, c', row, hc, hc', heq, hpc, hpc'⟩ := hrow i w w' hw hw'
  rw [e, e'] at heq
  have hft : f'.setTrace 0 = f.setTrace 0 := by
    simpa [Except.map] using heq
  refine ⟨?_, by rw [hpc f e, hpc' f' e', hc, hc']⟩
  obtain ⟨a1, a2, a3, a4, a5, a6, a7, a8, a9, a10, a11, a12, a13, a14⟩ := f
  obtain ⟨b1, b2, b3, b4, b5, b6, b7, b8, b9, b10, b11, b12, b13, b14⟩ := f'
  simp only [Feat.setTrace, Feat.mk.injEq] at hft
  simp only [Feat.mk.injEq, true_and]
  exact hft.2

/-- Without the unique-maximum hypothesis the law fails: with two channels `(0, 5, 0)` and `(0, -5, 0)`
of equal absolute maximum the first one is chosen in either order, so the peak channel index stays 0
while the physical trace (and the sign of `peak_val`) changes. -/
theorem channel_perm_tie_counterexample :
    let w : Wave := [[0, 5, 0], [0, -5, 0]]
    let w' : Wave := [[0, -5, 0], [0, 5, 0]]
    w.Perm w' ∧ ¬ UniqueMaxChannel 3 w ∧
    ∃ f f', batch 1 3 [w] = .ok [f] ∧ batch 1 3 [w'] = .ok [f'] ∧ f.peakTrace = 0 ∧ f'.peakTrace = 0 ∧
      f.peakVal = 5 ∧ f'.peakVal = -5 ∧ w'[f'.peakTrace]? ≠ w[f.peakTrace]? := by
  intro w w'
  refine ⟨List.Perm.swap _ _ _, ?_, ⟨0, 1, 5, -1, 2, 0, 0, 0, 2, 0, 0, 0, 2, 0⟩, ⟨0, 1, -5, 1, 2, 0, 0, 0, 2, 0, 0, 0, 2, 0⟩,
    by decide +kernel, by decide +kernel, rfl, rfl, rfl, rfl, by decide +kernel⟩
  rintro ⟨c, t, hc, ht, hlt⟩
  have hc' : c < 2 := hc
  have hc2 : c = 0 ∨ c = 1 := by omega
  have hsm : ∀ c' t', c' < 2 → t' < 3 → |smp w c' t'| ≤ 5 := by
    intro c' t' h1 h2
    interval_cases c' <;> interval_cases t' <;> decide +kernel
  rcases hc2 with rfl | rfl
  · have := hlt 1 1 (by decide) (by decide) (by decide)
    have h5 : |smp w 1 1| = 5 := by decide +kernel
    have := hsm 0 t (by decide) ht
    linarith
  · have := hlt 0 1 (by decide) (by decide) (by decide)
    have h5 : |smp w 0 1| = 5 := by decide +kernel
    have := hsm 1 t (by decide) ht
    linarith

/-- Each waveform's features do not depend on the other waveforms of the batch: the vectorised
pipeline (including the `df_index` sub-selection / write-back of the swap) succeeds on a batch exactly
when it succeeds on every waveform alone, and row `i` is what waveform `i` alone gives. -/
theorem batch_independent (k T : Nat) (ws : List Wave) (hne : ws ≠ []) (fs : List Feat) :
    batch k T ws = .ok fs ↔ fs.length = ws.length ∧
      ∀ (i : Nat) w f, ws[i]? = some w → fs[i]? = some f → batch k T [w] = .ok [f] := by
  have hsingle : ∀ w f, batch k T [w] = .ok [f] ↔ rowFeatures k T w = .ok f := by
    intro w f
    rw [batch_ok_iff_mapM k T [w] (by simp) [f]]
    simp only [List.mapM_cons, List.mapM_nil, bind_eq_ok, pure_eq_ok, Except.ok.injEq]
    constructor
    · rintro ⟨a, ha, b, hb, hab⟩
      simp only [List.cons.injEq] at hab
      rw [ha, hab.1]
    · intro h; exact ⟨f, h, [], rfl, rfl⟩
  rw [batch_ok_iff k T ws hne fs]
  constructor
  · rintro ⟨h1, h2⟩
    exact ⟨h1, fun i w f hw hf => (hsingle w f).mpr (h2 i w f hw hf)⟩
  · rintro ⟨h1, h2⟩
    exact ⟨h1, fun i w f hw hf => (hsingle w f).mp (h2 i w f hw hf)⟩


/-! ### the whole call: recovery offset, stage sequence, complete feature table (`Model/FeaturesCall.lean`)

`Features.call rdNum rdDen fs T raw` models `compute_spike_features(arr_in, fs, recovery_duration_ms = rdNum / rdDen)` as the
interpretation of the list of stage calls of the function body (`Features.stages`; `Tie/C14.lean` proves that list equal to
the event sequence generated from the source text) and returns every column of the data frame. -/

/-- The recovery offset `int(round(recovery_duration_ms * fs / 1000))` is the integer nearest to
`recovery_duration_ms · fs / 1000` (`n / d` below), the even one on an exact tie; it is non-negative for non-negative
arguments, and every integer strictly nearer than half a sample is it. -/
theorem recovery_offset_nearest (rdNum rdDen fs : Int) (hd : 0 < rdDen) :
    let k := recoveryOffset rdNum rdDen fs
    let n := rdNum * fs
    let d := rdDen * 1000
    2 * (k * d - n) ≤ d ∧ 2 * (n - k * d) ≤ d ∧
    ((2 * (k * d - n) = d ∨ 2 * (n - k * d) = d) → k % 2 = 0) ∧
    (0 ≤ rdNum → 0 ≤ fs → 0 ≤ k) ∧
    ∀ j : Int, 2 * (j * d - n) < d → 2 * (n - j * d) < d → k = j := by
  intro k n d
  have hd' : 0 < d := by show 0 < rdDen * 1000; omega
  obtain ⟨h1, h2, h3⟩ := roundHalfEven_pos n d hd'
  refine ⟨h1, h2, h3, ?_, fun j a b => roundHalfEven_unique n d j hd' a b⟩
  intro hr hf
  have hn : 0 ≤ n := Int.mul_nonneg hr hf
  by_contra hneg
  have hk : k + 1 ≤ 0 := by omega
  have : (k + 1) * d ≤ 0 * d := Int.mul_le_mul_of_nonneg_right hk (by omega)
  rw [Int.add_mul, Int.one_mul, Int.zero_mul] at this
  have h2' : 2 * (n - k * d) ≤ d := h2
  omega

/-- The call model – the stage list of `compute_spike_features` interpreted stage by stage, with the offset computed by the
model – is the batch pipeline of all theorems above followed by the derived columns of every row (errors included). -/
theorem call_is_batch_then_derived_columns (rdNum rdDen fs : Int) (T : Nat) (raw : List (List (List (Option ℚ))))
    (hk : 0 ≤ recoveryOffset rdNum rdDen fs) :
    call rdNum rdDen fs T raw =
      (liftE (batchRaw (recoveryOffset rdNum rdDen fs).toNat T raw)).map (List.map (fullRow fs)) :=
  call_eq rdNum rdDen fs T raw hk

/-- Scaling the input of the call by `c > 0` (NaN stays NaN): value columns and the three slopes × c; every index, the
peak-to-trough ratio and both durations unchanged; success unchanged. -/
theorem call_scale_equivariant (rdNum rdDen fs : Int) (T : Nat) (raw : List (List (List (Option ℚ)))) (c : ℚ) (hc : 0 < c)
    (hk : 0 ≤ recoveryOffset rdNum rdDen fs) :
    (call rdNum rdDen fs T (raw.map (scaleRaw c))).toOption =
      (call rdNum rdDen fs T raw).toOption.map (List.map (FullRow.scale c)) := by
  rw [call_eq _ _ _ _ _ hk, call_eq _ _ _ _ _ hk, toOption_map', toOption_map', toOption_liftE, toOption_liftE]
  unfold batchRaw
  have hv : (raw.map (scaleRaw c)).map validate = (raw.map validate).map (scaleWave c) := by
    simp only [List.map_map]
    apply List.map_congr_left; intro w _
    exact validate_scale c w
  rw [hv, scale_equivariant _ _ _ c hc, Option.map_map, Option.map_map]
  congr 1
  funext l
  simp only [Function.comp, List.map_map]
  apply List.map_congr_left; intro f _
  exact fullRow_scale hc fs f

/-- Batch independence of the complete table: the call succeeds on a batch exactly when it succeeds on every waveform
alone, and row `i` (all columns, derived ones included) is what waveform `i` alone gives. -/
theorem call_batch_independent (rdNum rdDen fs : Int) (T : Nat) (raw : List (List (List (Option ℚ)))) (hne : raw ≠ [])
    (hk : 0 ≤ recoveryOffset rdNum rdDen fs) (rows : List FullRow) :
    call rdNum rdDen fs T raw = .ok rows ↔ rows.length = raw.length ∧
      ∀ (i : Nat) w r, raw[i]? = some w → rows[i]? = some r → call rdNum rdDen fs T [w] = .ok [r] := by
  have hne' : raw.map validate ≠ [] := by simpa using hne
  have hsingle : ∀ w r, call rdNum rdDen fs T [w] = .ok [r] ↔
      batch (recoveryOffset rdNum rdDen fs).toNat T [validate w] = .ok [r.feat] ∧ r = fullRow fs r.feat := by
    intro w r
    rw [call_eq _ _ _ _ _ hk, liftE_map_ok_iff]
    unfold batchRaw
    simp only [List.map_cons, List.map_nil]
    constructor
    · rintro ⟨fl, hfl, hr⟩
      cases fl with
      | nil => simp at hr
      | cons f tl =>
        cases tl with
        | nil =>
          simp only [List.map_cons, List.map_nil, List.cons.injEq, and_true] at hr
          subst hr
          exact ⟨hfl, rfl⟩
        | cons g tl => simp at hr
    · rintro ⟨h1, h2⟩
      exact ⟨[r.feat], h1, by simp only [List.map_cons, List.map_nil]; rw [← h2]⟩
  rw [call_eq _ _ _ _ _ hk, liftE_map_ok_iff]
  unfold batchRaw
  constructor
  · rintro ⟨fl, hfl, rfl⟩
    obtain ⟨hl, hi⟩ := (batch_independent _ T _ hne' fl).mp hfl
    refine ⟨by simpa using hl, ?_⟩
    intro i w r hw hr
    rw [List.getElem?_map] at hr
    cases hf : fl[i]? with
    | none => rw [hf] at hr; cases hr
    | some f =>
      rw [hf] at hr
      simp only [Option.map_some, Option.some.injEq] at hr
      subst hr
      rw [hsingle]
      exact ⟨hi i (validate w) f (by rw [List.getElem?_map, hw]; rfl) hf, rfl⟩
  · rintro ⟨hl, hi⟩
    refine ⟨rows.map (·.feat), ?_, ?_⟩
    · rw [batch_independent _ T _ hne']
      refine ⟨by simpa using hl, ?_⟩
      intro i w f hw hf
      rw [List.getElem?_map] at hw hf
      cases hw0 : raw[i]? with
      | none => rw [hw0] at hw; cases hw
      | some w0 =>
        cases hr0 : rows[i]? with
        | none => rw [hr0] at hf; cases hf
        | some r0 =>
          rw [hw0] at hw; rw [hr0] at hf
          simp only [Option.map_some, Option.some.injEq] at hw hf
          subst hw hf
          exact ((hsingle w0 r0).mp (hi i w0 r0 hw0 hr0)).1
    · apply List.ext_getElem (by simp)
      intro i h1 h2
      simp only [List.getElem_map]
      have hi1 : i < raw.length := by omega
      exact ((hsingle raw[i] rows[i]).mp (hi i _ _ (List.getElem?_eq_getElem hi1) (List.getElem?_eq_getElem h1))).2

/-- Channel permutation and the complete table: under the hypotheses of `channel_perm`, the call on the permuted batch
succeeds and every column other than `peak_trace_idx` – ratio, durations and slopes included – is unchanged. -/
theorem call_channel_perm (rdNum rdDen fs : Int) (T : Nat) (raw raw' : List (List (List (Option ℚ)))) (rows : List FullRow)
    (hB : RectBatch T (raw.map validate)) (hlen : raw'.length = raw.length)
    (hperm : ∀ (i : Nat) w w', raw[i]? = some w → raw'[i]? = some w' → w.Perm w')
    (hu : ∀ w ∈ raw, UniqueMaxChannel T (validate w)) (hk : 0 ≤ recoveryOffset rdNum rdDen fs)
    (h : call rdNum rdDen fs T raw = .ok rows) :
    ∃ rows', call rdNum rdDen fs T raw' = .ok rows' ∧ rows'.length = rows.length ∧
      ∀ (i : Nat) r r', rows[i]? = some r → rows'[i]? = some r' →
        { r' with feat := { r'.feat with peakTrace := r.feat.peakTrace } } = r := by
  rw [call_eq _ _ _ _ _ hk, liftE_map_ok_iff] at h
  obtain ⟨fl, hfl, rfl⟩ := h
  unfold batchRaw at hfl
  have hp : ∀ (i : Nat) w w', (raw.map validate)[i]? = some w → (raw'.map validate)[i]? = some w' → w.Perm w' := by
    intro i w w' hw hw'
    rw [List.getElem?_map] at hw hw'
    cases h0 : raw[i]? with
    | none => rw [h0] at hw; cases hw
    | some a =>
      cases h1 : raw'[i]? with
      | none => rw [h1] at hw'; cases hw'
      | some b =>
        rw [h0] at hw; rw [h1] at hw'
        simp only [Option.map_some, Option.some.injEq] at hw hw'
        subst hw hw'
        exact (hperm i a b h0 h1).map _
  have hu' : ∀ w ∈ raw.map validate, UniqueMaxChannel T w := by
    intro w hw
    obtain ⟨a, ha, rfl⟩ := List.mem_map.mp hw
    exact hu a ha
  obtain ⟨fl', hfl', hlen', hrow⟩ := channel_perm _ T _ (raw'.map validate) fl hB (by simpa using hlen) hp hu' hfl
  refine ⟨fl'.map (fullRow fs), ?_, by simpa using hlen', ?_⟩
  · rw [call_eq _ _ _ _ _ hk, liftE_map_ok_iff]
    exact ⟨fl', hfl', rfl⟩
  · intro i r r' hr hr'
    rw [List.getElem?_map] at hr hr'
    cases hf : fl[i]? with
    | none => rw [hf] at hr; cases hr
    | some f =>
      cases hf' : fl'[i]? with
      | none => rw [hf'] at hr'; cases hr'
      | some f' =>
        rw [hf] at hr; rw [hf'] at hr'
        simp only [Option.map_some, Option.some.injEq] at hr hr'
        subst hr hr'
        have hl := batch_length hB.1 hfl
        have hi : i < fl.length := (List.getElem?_eq_some_iff.mp hf).1
        have hiw : i < (raw.map validate).length := by omega
        have hiw' : i < (raw'.map validate).length := by simp only [List.length_map] at hiw ⊢; omega
        have := (hrow i _ _ f f' (List.getElem?_eq_getElem hiw) (List.getElem?_eq_getElem hiw') hf hf').1
        show { fullRow fs f' with feat := { f' with peakTrace := f.peakTrace } } = fullRow fs f
        rw [← fullRow_setTrace, this]

/-- Signs of the two durations (`fs > 0`): the peak-to-trough duration is non-negative, zero exactly when the trough is the
peak sample; when a half-peak sample exists on both sides of the peak the half-peak duration is positive. -/
theorem durations_sign (k T : Nat) (ws : List Wave) (fs : List Feat) (hB : RectBatch T ws)
    (h : batch k T ws = .ok fs) (i : Nat) (w : Wave) (f : Feat) (hw : ws[i]? = some w) (hf : fs[i]? = some f)
    (rate : ℚ) (hr : 0 < rate) :
    0 ≤ f.peakToTroughDuration rate ∧ (f.peakToTroughDuration rate = 0 ↔ f.troughTime = f.peakTime) ∧
    ((∃ t, f.peakTime ≤ t ∧ t < T ∧ WithinHalf f.peakVal (smp w f.peakTrace t)) →
      (∃ t, t < f.peakTime ∧ WithinHalf f.peakVal (smp w f.peakTrace t)) → 0 < f.halfPeakDuration rate) := by
  obtain ⟨_, hpt, _⟩ := tip_lt_peak_le_trough k T ws fs hB h f (List.mem_of_getElem? hf)
  obtain ⟨hpost, hpre, _, _⟩ := half_peak_nearest k T ws fs hB h i w f hw hf
  have hd : (0 : ℚ) ≤ idiff f.troughTime f.peakTime := by
    unfold idiff; exact_mod_cast (by omega : (0 : Int) ≤ (f.troughTime : Int) - (f.peakTime : Int))
  refine ⟨div_nonneg hd (le_of_lt hr), ?_, ?_⟩
  · unfold Feat.peakToTroughDuration
    rw [div_eq_zero_iff]
    constructor
    · rintro (h0 | h0)
      · unfold idiff at h0
        have : (f.troughTime : Int) - (f.peakTime : Int) = 0 := by exact_mod_cast h0
        omega
      · exact absurd h0 (ne_of_gt hr)
    · intro h0; left; unfold idiff; rw [h0]; simp
  · intro e1 e2
    obtain ⟨a1, _, _, _⟩ := hpost e1
    obtain ⟨b1, _, _⟩ := hpre e2
    have : (0 : ℚ) < idiff f.halfPost f.halfPre := by
      unfold idiff; exact_mod_cast (by omega : (0 : Int) < (f.halfPost : Int) - (f.halfPre : Int))
    exact div_pos this hr

/-- When the slope columns are finite (`fs ≠ 0`): the depolarisation slope always is (tip precedes peak); the
repolarisation slope exactly when the trough is not the peak sample, the recovery slope exactly when the recovery point is
not the trough sample – otherwise the float division gives inf / NaN (`XRat.pinf / ninf / nan`), as in the code. -/
theorem slopes_finite_iff (k T : Nat) (ws : List Wave) (fs : List Feat) (hB : RectBatch T ws)
    (h : batch k T ws = .ok fs) (f : Feat) (hf : f ∈ fs) (rate : ℚ) (hr : rate ≠ 0) :
    (∃ q, f.depolSlope rate = .val q) ∧
    ((∃ q, f.repolSlope rate = .val q) ↔ f.troughTime ≠ f.peakTime) ∧
    ((∃ q, f.recoverySlope rate = .val q) ↔ f.recTime ≠ f.troughTime) := by
  obtain ⟨htip, _, _⟩ := tip_lt_peak_le_trough k T ws fs hB h f hf
  have key : ∀ (a : ℚ) (t1 t0 : Nat), (∃ q, xdiv a (idiff t1 t0 / rate) = .val q) ↔ t1 ≠ t0 := by
    intro a t1 t0
    have hz : idiff t1 t0 / rate = 0 ↔ t1 = t0 := by
      rw [div_eq_zero_iff]
      constructor
      · rintro (h0 | h0)
        · unfold idiff at h0
          have : (t1 : Int) - (t0 : Int) = 0 := by exact_mod_cast h0
          omega
        · exact absurd h0 hr
      · intro h0; left; unfold idiff; rw [h0]; simp
    unfold xdiv
    by_cases h0 : t1 = t0
    · have hzz := hz.mpr h0
      simp only [h0, ne_eq, not_true_eq_false, iff_false]
      rintro ⟨q, hq⟩
      rw [h0] at hzz
      rw [if_pos hzz] at hq
      by_cases ha : a = 0
      · rw [if_pos ha] at hq; cases hq
      · rw [if_neg ha] at hq
        by_cases hp : 0 < a
        · rw [if_pos hp] at hq; cases hq
        · rw [if_neg hp] at hq; cases hq
    · have : ¬ idiff t1 t0 / rate = 0 := fun hh => h0 (hz.mp hh)
      simp only [this, if_false, ne_eq, h0, not_false_eq_true, iff_true]
      exact ⟨_, rfl⟩
  refine ⟨(key _ _ _).mpr (by omega), key _ _ _, key _ _ _⟩

/-! ### non-vacuity: the hypotheses are satisfiable on non-trivial batches -/

/-- a two-waveform batch (one negative spike; one weakly positive two-channel spike that is swapped)
satisfying the hypotheses of `succeeds`, with its features -/
example :
    let ws : List Wave := [[[0, 1, -10, 4, 1, 0]], [[0, 1, 9, -8, 0, 0], [0, 0, 1, 1, 0, 0]]]
    RectBatch 6 ws ∧ (∀ w ∈ ws, ∀ c t, IsPeakLoc 6 w c t → 0 < t) ∧
    batch 2 6 ws = .ok [⟨0, 2, -10, 1, 3, 4, 1, 1, 3, 1, 4, 1, 5, 0⟩, ⟨0, 3, -8, 1, 4, 0, 2, 9, 4, 2, 0, 9, 5, 0⟩] := by
  intro ws
  refine ⟨⟨by decide, by decide, ?_⟩, ?_, by decide +kernel⟩
  · intro w hw
    simp only [ws, List.mem_cons, List.not_mem_nil, or_false] at hw
    rcases hw with rfl | rfl
    · exact ⟨by decide, fun r hr => by simp at hr; subst hr; rfl⟩
    · exact ⟨by decide, fun r hr => by simp at hr; rcases hr with rfl | rfl <;> rfl⟩
  · intro w hw c t hloc
    simp only [ws, List.mem_cons, List.not_mem_nil, or_false] at hw
    by_contra h0
    have ht : t = 0 := by omega
    subst ht
    rcases hw with rfl | rfl
    · have hc : c = 0 := by have := hloc.1; simp at this; omega
      subst hc
      have := hloc.2.2.1 0 2 (by decide) (by decide)
      revert this; decide +kernel
    · have hc : c < 2 := by have := hloc.1; simpa using this
      have := hloc.2.2.1 0 2 (by decide) (by decide)
      interval_cases c <;> revert this <;> decide +kernel

/-- the second waveform above is weakly positive (peak 9 on sample 2, trough −8 on sample 3) -/
example :
    let w : Wave := [[0, 1, 9, -8, 0, 0], [0, 0, 1, 1, 0, 0]]
    IsPeakLoc 6 w 0 2 ∧ WeaklyPositive 6 w 0 2 3 := by
  intro w
  refine ⟨⟨by decide, by decide, ?_, ?_, ?_⟩, ⟨by decide +kernel, ⟨by decide, by decide, ?_, ?_⟩, by decide +kernel⟩⟩
  · intro c' t' h1 h2
    have h1' : c' < 2 := h1
    interval_cases c' <;> interval_cases t' <;> decide +kernel
  · intro c' t' h1 h2; omega
  · intro t' h; interval_cases t' <;> decide +kernel
  · intro t h1 h2; interval_cases t <;> decide +kernel
  · intro t h1 h2; interval_cases t; decide +kernel

/-- … and it has a unique maximal channel, so `channel_perm` applies to it and to its channel swap -/
example :
    let w : Wave := [[0, 1, 9, -8, 0, 0], [0, 0, 1, 1, 0, 0]]
    UniqueMaxChannel 6 w ∧ w.Perm [[0, 0, 1, 1, 0, 0], [0, 1, 9, -8, 0, 0]] ∧
    batch 1 6 [[[0, 0, 1, 1, 0, 0], [0, 1, 9, -8, 0, 0]]] = .ok [⟨1, 3, -8, 1, 4, 0, 2, 9, 4, 2, 0, 9, 5, 0⟩] := by
  intro w
  refine ⟨⟨0, 2, by decide, by decide, ?_⟩, List.Perm.swap _ _ _, by decide +kernel⟩
  intro c' t' h1 h2 h3
  have h1' : c' < 2 := h1
  have : c' = 1 := by omega
  subst this
  interval_cases t' <;> decide +kernel

/-- the call model on the two-waveform batch above with a NaN-padded extra channel (`recovery_duration_ms = 2`, `fs = 1000`:
offset 2 ≥ 0, the hypothesis of the call-level theorems): all 20 columns, with an `inf` ratio (zero trough) in the second row -/
example :
    let raw : List (List (List (Option ℚ))) :=
      [[[some 0, some 1, some (-10), some 4, some 1, some 0], [none, none, none, none, none, none]],
       [[some 0, some 1, some 9, some (-8), some 0, some 0], [some 0, some 0, some 1, some 1, some 0, some 0]]]
    0 ≤ recoveryOffset 2 1 1000 ∧
    call 2 1 1000 6 raw = .ok
      [⟨⟨0, 2, -10, 1, 3, 4, 1, 1, 3, 1, 4, 1, 5, 0⟩, .val (5 / 2), 1 / 1000, 1 / 500, .val (-11000), .val 14000, .val (-2000)⟩,
       ⟨⟨0, 3, -8, 1, 4, 0, 2, 9, 4, 2, 0, 9, 5, 0⟩, .pinf, 1 / 1000, 1 / 500, .val (-17000), .val 8000, .val 0⟩] := by
  decide +kernel

/-- recovery offsets: the defaults (0.16 ms at 30 kHz: 4.8 → 5), exact ties go to the even integer (2.5 → 2, 3.5 → 4) -/
example : recoveryOffset 4 25 30000 = 5 ∧ recoveryOffset 5 2 1000 = 2 ∧ recoveryOffset 7 2 1000 = 4 ∧
    (stages 5).map Stage.event = [("find_peak", []), ("get_array_peak", []), ("invert_peak_waveform", []),
      ("find_tip_trough", []), ("peak_to_trough_duration", []), ("half_peak_point", []), ("half_peak_duration", []),
      ("recovery_point", [5]), ("polarisation_slopes", []), ("recovery_slope", [])] := by
  decide +kernel

/-- a different order of the stage calls is outside the modelled call sequences -/
example : runStages 6 1000 [.findPeak, .getArrayPeak, .invertPeakWaveform, .halfPeakPoint] (.start [[[0, 1, -10, 4, 1, 0]]])
    = .error .order := by
  decide +kernel

end IblVerif.C14
