/-
C08 — Probe geometry is a consistent, jointly permuted description of the sites.

Property theorems only (helper lemmas: `Lemmas/StableSort.lean`, `Lemmas/Geometry*.lean`,
`Lemmas/AdcTable.lean`, `Lemmas/DenseLayout.lean`).  The model `IblVerif.Geometry` transcribes
`spikeglx.geometry_from_meta` & helpers and `neuropixel.{rc2xy, xy2rc, dense_layout, adc_shifts,
trace_header, split_trace_header}` with the grid pitches, ADC parameters and NC taken from the generated
constants.  Quantifier of the property: every site table of at most NC sites, in any order, in both
metadata encodings, sorted and unsorted, every shank, every probe generation; all canonical layouts.

Vocabulary (defined in the lemma files, all executable or plain list functions):
  `renderMap hdr ts`   the string `hdr(a:b:c:d)(a:b:c:d)…` SpikeGLX writes for the tuples `ts`
  `tableOf enc ts`     the four columns of `ts` as `_map_channels_from_meta` returns them
  `g.WF n`             every column (key) of the geometry `g` that is present has length `n`
  `gatherP c idx`      `c[idx]` for in-range indices;  `g.mapCols f` applies `f` to every key of `g`
  `keyOf g i`          `(shank i, row i, -col i)`, the sort key of site `i`, compared by `lexLt`
  `Geom.SameSites a b` `a` and `b` agree on every key except `ind`
-/
import IblVerif.Lemmas.GeometryMeta
import IblVerif.Lemmas.DenseLayout
import IblVerif.Lemmas.GeomStagesC08

namespace IblVerif.C08
open IblVerif.Geometry IblVerif.StableSort IblVerif.Generated

/-! ## each recorded site is listed once -/

/-- Parsing: the regular-expression scan and the float conversion return exactly the tuples SpikeGLX
wrote — each once, in order — for every header without a colon and every tuple list. -/
theorem tuples_parsed_once (hdr : List Char) (hh : ':' ∉ hdr) (ts : List (Nat × Nat × Nat × Nat))
    (hok : ∀ t ∈ ts, fieldsOk t) :
    parseTable (findTuples (renderMap hdr ts)) = .ok (ts.map tupleRow) :=
  parseTable_renderMap hdr hh ts hok

/-- The geometry derived from a shank map of `n ≤ NC` tuples lists each site once: every attribute has
`n` entries, `ind` is `0 … n-1`, shank / row / flag are the tuple fields in file order, the column is the
tuple's column (flipped for NP1: `-2c + 2 + r mod 2`), `(x, y)` is the grid position of `(row, col)`, and
the ADC attributes are the closed forms of the POSITION in the saved list. -/
theorem sites_listed_once (hdr : List Char) (hh : ':' ∉ hdr) (ts : List (Nat × Nat × Nat × Nat))
    (hne : ts ≠ []) (hok : ∀ t ∈ ts, fieldsOk t) (hn : ts.length ≤ NC)
    (m : Meta) (hm : m.shankMap = some (renderMap hdr ts)) (hs : m.np24Shank = none)
    (v : Version) (hv : m.major = some v) (nc : Nat) :
    ∃ g, geometryFromMeta m false nc = .ok (some (g, List.range ts.length)) ∧
      g.WF ts.length ∧
      g.ind = some (natCol (List.range ts.length)) ∧
      g.shank = ts.map (Int.ofNat ·.1) ∧
      g.row = ts.map (Int.ofNat ·.2.2.1) ∧
      g.flag = some (ts.map (Int.ofNat ·.2.2.2)) ∧
      g.col = ts.map (fun t => if v = .v1 then -(Int.ofNat t.2.1) * 2 + 2 + Int.ofNat t.2.2.1 % 2
                               else Int.ofNat t.2.1) ∧
      (∀ i, i < ts.length → rc2xy v (g.row.getD i 0) (g.col.getD i 0) = (g.x.getD i 0, g.y.getD i 0)) ∧
      g.adc = some (natCol ((List.range ts.length).map (adcOf (adcParams v).1))) ∧
      g.sampleShift = some (natCol ((List.range ts.length).map (shiftOf (adcParams v).1))) := by
  have hcm := mapChannels_render_shank hdr hh ts hne hok m.geomMap
  rw [← hm] at hcm
  have hwf := tableOf_wf .shankMap ts
  rw [geometryFromMeta_map hcm, hv, hs]
  -- the unsplit geometry exists
  have hsc := siteCols_shankMap ts v
  cases hgu : geomUnsplit (tableOf .shankMap ts) (some v) with
  | error e =>
    exfalso
    simp only [geomUnsplit, hsc, adcShifts_eq] at hgu
    cases hgu
  | ok th =>
    obtain ⟨wf, hind, hshank, hflag, hss, hadc, _⟩ := geomUnsplit_spec hwf hn hgu
    have hcols : th.row = ts.map (Int.ofNat ·.2.2.1) ∧
        th.col = ts.map (fun t => if v = .v1 then -(Int.ofNat t.2.1) * 2 + 2 + Int.ofNat t.2.2.1 % 2
                               else Int.ofNat t.2.1) ∧
        th.x = ts.map (fun t => (rc2xy v 0 (if v = .v1 then -(Int.ofNat t.2.1) * 2 + 2 + Int.ofNat t.2.2.1 % 2
                               else Int.ofNat t.2.1)).1) ∧
        th.y = ts.map (fun t => (rc2xy v (Int.ofNat t.2.2.1) 0).2) := by
      simp only [geomUnsplit, hsc, adcShifts_eq, Except.ok.injEq] at hgu
      subst hgu
      exact ⟨rfl, rfl, rfl, rfl⟩
    simp only [finishGeom_none wf false, Bool.false_eq_true, if_false]
    refine ⟨withInd th, rfl, withInd_wf wf, ?_, ?_, ?_, ?_, ?_, ?_, ?_, ?_⟩
    · simp [withInd, wf.col]
    · simpa [withInd, tableOf] using hshank
    · exact hcols.1
    · simpa [withInd, tableOf] using hflag
    · exact hcols.2.1
    · intro i hi
      show rc2xy v (th.row.getD i 0) (th.col.getD i 0) = (th.x.getD i 0, th.y.getD i 0)
      rw [hcols.1, hcols.2.1, hcols.2.2.1, hcols.2.2.2]
      rw [getD_map_of_lt _ ts i (0, 0, 0, 0) 0 hi, getD_map_of_lt _ ts i (0, 0, 0, 0) 0 hi,
        getD_map_of_lt _ ts i (0, 0, 0, 0) 0 hi, getD_map_of_lt _ ts i (0, 0, 0, 0) 0 hi]
      simp [rc2xy]
    · exact hadc
    · exact hss

/-- The same for ANY metadata (both encodings, arbitrary strings, with or without the `NP2.4_shank` key):
whenever a site table of at most NC sites is parsed and the unsorted geometry is returned, every key has
the same number `n` of entries, `ind = 0 … n-1` and the returned index list is `0 … n-1`. -/
theorem unsorted_geometry_wf (m : Meta) (cm : RawMap)
    (hcm : mapChannels m.shankMap m.geomMap = .ok (some cm)) (hn : cm.c0.length ≤ NC) (nc : Nat)
    (g : Geom) (inds : List Nat) (h : geometryFromMeta m false nc = .ok (some (g, inds))) :
    ∃ n, g.WF n ∧ g.ind = some (natCol (List.range n)) ∧ inds = List.range n := by
  rw [geometryFromMeta_map hcm] at h
  cases hmv : m.major with
  | none => rw [hmv] at h; simp [geomUnsplit] at h
  | some v =>
    rw [hmv] at h
    cases hgu : geomUnsplit cm (some v) with
    | error e => rw [hgu] at h; cases h
    | ok th =>
      rw [hgu] at h
      obtain ⟨n, _, hwf⟩ := mapChannels_wf hcm
      have hn' : n ≤ NC := by rw [← hwf.c0]; exact hn
      obtain ⟨wf, _, _⟩ := geomUnsplit_spec hwf hn' hgu
      cases hsk : m.np24Shank with
      | none =>
        simp only [hsk, finishGeom_none wf false, Bool.false_eq_true, if_false, Except.ok.injEq,
          Option.some.injEq, Prod.mk.injEq] at h
        obtain ⟨rfl, rfl⟩ := h
        exact ⟨n, withInd_wf wf, by simp [withInd, wf.col], rfl⟩
      | some s =>
        simp only [hsk, finishGeom_some wf s false, Bool.false_eq_true, if_false, Except.ok.injEq,
          Option.some.injEq, Prod.mk.injEq] at h
        obtain ⟨rfl, rfl⟩ := h
        have hB : (th.mapCols (gatherP · (whereEq th.shank s))).WF (whereEq th.shank s).length :=
          wf_mapCols (fun c => length_gatherP c _)
        exact ⟨_, withInd_wf hB, by simp [withInd, hB.col], rfl⟩

/-! ## sorting: a true permutation, ordered, moving every attribute together -/

/-- The sorted geometry is the sort block applied to the unsorted geometry (same metadata). -/
theorem sorted_is_sort_of_unsorted (m : Meta) (nc : Nat) (cm : RawMap)
    (hcm : mapChannels m.shankMap m.geomMap = .ok (some cm)) (g : Geom) (inds : List Nat)
    (h : geometryFromMeta m false nc = .ok (some (g, inds))) :
    geometryFromMeta m true nc =
      match sortGeom g with
      | .error e => .error e
      | .ok r => .ok (some r) := by
  rw [geometryFromMeta_map hcm] at h ⊢
  cases hgu : geomUnsplit cm m.major with
  | error e => rw [hgu] at h; cases h
  | ok th =>
    rw [hgu] at h
    simp only at h ⊢
    cases hf : finishGeom th m.np24Shank false with
    | error e => rw [hf] at h; cases h
    | ok r =>
      rw [hf] at h
      simp only [Except.ok.injEq, Option.some.injEq] at h
      subst h
      rw [finishGeom_true_of_false hf]
      rfl

/-- Sorting never fails on a well-formed geometry and its index list is a permutation of `0 … n-1`. -/
theorem sort_perm (g : Geom) (n : Nat) (wf : g.WF n) :
    ∃ g' inds, sortGeom g = .ok (g', inds) ∧ inds.Perm (List.range n) := by
  refine ⟨_, _, sortGeom_eq wf, ?_⟩
  have := sortInds_perm g
  rwa [wf.col] at this

/-- The permutation is ordered by shank, then row, then DESCENDING column (`keyOf = (shank, row, -col)`
compared lexicographically), ties in original order: for positions `p < q` of the result, the key of
`inds[p]` is smaller than that of `inds[q]`, or the keys are equal and `inds[p] < inds[q]`. -/
theorem sort_order (g : Geom) (n : Nat) (wf : g.WF n) (g' : Geom) (inds : List Nat)
    (h : sortGeom g = .ok (g', inds)) :
    inds.Pairwise fun i j => lexLt (keyOf g i) (keyOf g j) = true ∨ (keyOf g i = keyOf g j ∧ i < j) := by
  rw [sortGeom_eq wf] at h
  simp only [Except.ok.injEq, Prod.mk.injEq] at h
  rw [← h.2]
  exact sortInds_order g

/-- Every attribute — shank, col, row, x, y, flag, sample shift, ADC group, original index — is moved by
the SAME index list: entry `p` of each sorted column is entry `inds[p]` of the unsorted one. -/
theorem sort_joint (g : Geom) (n : Nat) (wf : g.WF n) (g' : Geom) (inds : List Nat)
    (h : sortGeom g = .ok (g', inds)) :
    g'.shank = gatherP g.shank inds ∧ g'.col = gatherP g.col inds ∧ g'.row = gatherP g.row inds ∧
    g'.x = gatherP g.x inds ∧ g'.y = gatherP g.y inds ∧
    g'.flag = g.flag.map (gatherP · inds) ∧ g'.sampleShift = g.sampleShift.map (gatherP · inds) ∧
    g'.adc = g.adc.map (gatherP · inds) ∧ g'.ind = g.ind.map (gatherP · inds) ∧
    g'.shiftDen = g.shiftDen ∧ g'.WF n := by
  rw [sortGeom_eq wf] at h
  simp only [Except.ok.injEq, Prod.mk.injEq] at h
  obtain ⟨h1, h2⟩ := h
  subst h2
  subst h1
  refine ⟨rfl, rfl, rfl, rfl, rfl, rfl, rfl, rfl, rfl, rfl, ?_⟩
  apply wf_mapCols
  intro c
  rw [length_gatherP, length_sortInds, wf.col]

/-- In particular the sorted `ind` column IS the permutation (when `ind = 0 … n-1` before the sort). -/
theorem sort_ind (g : Geom) (n : Nat) (wf : g.WF n) (hind : g.ind = some (natCol (List.range n)))
    (g' : Geom) (inds : List Nat) (h : sortGeom g = .ok (g', inds)) : g'.ind = some (natCol inds) := by
  have hj := (sort_joint g n wf g' inds h).2.2.2.2.2.2.2.2.1
  obtain ⟨_, _, h2, hp⟩ := sort_perm g n wf
  rw [h] at h2
  simp only [Except.ok.injEq, Prod.mk.injEq] at h2
  rw [hj, hind, Option.map_some, gatherP_natCol_range]
  intro i hi
  rw [← h2.2] at hp
  exact List.mem_range.mp (hp.mem_iff.mp hi)

/-! ## row/column and x/y are exact inverses on the probe grid -/

/-- `xy2rc ∘ rc2xy = id` for every probe generation and every (row, col). -/
theorem rc_xy_inverse (v : Version) (r c : Int) :
    xy2rc v (rc2xy v r c).1 (rc2xy v r c).2 = some (r, c) := xy2rc_rc2xy v r c

/-- `rc2xy ∘ xy2rc = id` on the grid (wherever `xy2rc` returns integral row and column). -/
theorem xy_rc_inverse (v : Version) (x y r c : Int) (h : xy2rc v x y = some (r, c)) :
    rc2xy v r c = (x, y) := rc2xy_xy2rc v x y r c h

/-! ## the two metadata encodings agree -/

/-- For NP1, NP2 and NP2.4: a recording whose metadata carries the shank map of the tuples `ts` and one
whose metadata carries instead the geometry map SpikeGLX writes for the same sites (convention
`sglxXY`: NP1 `x = 27 + 32c − 16(r mod 2)`, `y = 20r`; NP2 `x = 27 + 32c`, `y = 15r`) have identical
geometries — every key, the index list, errors included — sorted or not, split or not. -/
theorem encodings_agree (v : Version) (hv : v ≠ .ultra) (hdr₁ hdr₂ : List Char) (h₁ : ':' ∉ hdr₁)
    (h₂ : ':' ∉ hdr₂) (ts : List (Nat × Nat × Nat × Nat)) (hok : ∀ t ∈ ts, fieldsOk t)
    (hok' : ∀ t ∈ ts, fieldsOk (toGeomTuple v t))
    (m : Meta) (hmv : m.major = some v) (hm : m.shankMap = some (renderMap hdr₁ ts)) (hg : m.geomMap = none)
    (srt : Bool) (nc : Nat) :
    geometryFromMeta { m with shankMap := none, geomMap := some (renderMap hdr₂ (ts.map (toGeomTuple v))) } srt nc =
      geometryFromMeta m srt nc := by
  by_cases hne : ts = []
  · subst hne
    have c1 : mapChannels m.shankMap m.geomMap = .ok none := by
      rw [hm, hg]; exact (mapChannels_render_nil hdr₁ h₁).1
    have e1 := geometryFromMeta_nomap (m := m) c1 srt nc
    have e2 := geometryFromMeta_nomap
      (m := { m with shankMap := none, geomMap := some (renderMap hdr₂ ([].map (toGeomTuple v))) })
      (mapChannels_render_nil hdr₂ h₂).2 srt nc
    rw [e1, e2]
    rfl
  · have hc1 := mapChannels_render_shank hdr₁ h₁ ts hne hok m.geomMap
    rw [← hm] at hc1
    have hne' : ts.map (toGeomTuple v) ≠ [] := by simpa using hne
    have hc2 := mapChannels_render_geom hdr₂ h₂ (ts.map (toGeomTuple v)) hne'
      (fun t ht => by obtain ⟨u, hu, rfl⟩ := List.mem_map.mp ht; exact hok' u hu)
    rw [geometryFromMeta_map hc1,
      geometryFromMeta_map (m := { m with shankMap := none, geomMap := some (renderMap hdr₂ (ts.map (toGeomTuple v))) }) hc2]
    have hmaj : ({ m with shankMap := none, geomMap := some (renderMap hdr₂ (ts.map (toGeomTuple v))) } : Meta).major
        = m.major := rfl
    rw [hmaj, hmv]
    have hgu : geomUnsplit (tableOf .geomMap (ts.map (toGeomTuple v))) (some v) =
        geomUnsplit (tableOf .shankMap ts) (some v) := by
      simp only [geomUnsplit, siteCols_encodings v hv ts]
      simp [tableOf, toGeomTuple, List.map_map, Function.comp_def]
    rw [hgu]

/-! ## a split shank's geometry is the restriction of its parent's -/

/-- For every metadata with a site table of at most NC sites, every shank `s`, sorted or not: the geometry
read with the key `NP2.4_shank = s` (what `NP2Converter` writes next to each split file) equals the parent
recording's geometry restricted to shank `s` (`split_trace_header`) on every key — x, y, row, col, shank,
flag, ADC group, sampling delay — and its `ind` column numbers the shank's sites in parent order:
the parent index of the split site with `ind = k` is the `k`-th parent site on that shank (`J[k]`). -/
theorem split_is_restriction (m : Meta) (hs : m.np24Shank = none) (cm : RawMap)
    (hcm : mapChannels m.shankMap m.geomMap = .ok (some cm)) (hn : cm.c0.length ≤ NC)
    (srt : Bool) (nc : Nat) (P : Geom) (indsP : List Nat)
    (h : geometryFromMeta m srt nc = .ok (some (P, indsP))) (s : Int) :
    ∃ S indsS R,
      geometryFromMeta { m with np24Shank := some s } srt nc = .ok (some (S, indsS)) ∧
      restrict P s = .ok R ∧
      R.SameSites S ∧
      S.ind = some (natCol indsS) ∧
      R.ind = some (natCol (indsS.map ((whereEq cm.c0 s).getD · 0))) := by
  have hcm' : mapChannels ({ m with np24Shank := some s } : Meta).shankMap
      ({ m with np24Shank := some s } : Meta).geomMap = .ok (some cm) := hcm
  rw [geometryFromMeta_map hcm] at h
  rw [geometryFromMeta_map hcm']
  have hmaj : ({ m with np24Shank := some s } : Meta).major = m.major := rfl
  rw [hmaj]
  cases hmv : m.major with
  | none => rw [hmv] at h; simp [geomUnsplit] at h
  | some v =>
    rw [hmv] at h
    cases hgu : geomUnsplit cm (some v) with
    | error e => rw [hgu] at h; cases h
    | ok th =>
      rw [hgu] at h
      simp only at h ⊢
      obtain ⟨n, _, hwf⟩ := mapChannels_wf hcm
      have hn' : n ≤ NC := by rw [← hwf.c0]; exact hn
      obtain ⟨wf, _, hshank, _⟩ := geomUnsplit_spec hwf hn' hgu
      obtain ⟨P', indsP', S, indsS, R, hP, hS, hR, hsame, hSind, hRind⟩ := finishGeom_split wf s srt
      rw [hs, hP] at h
      simp only [Except.ok.injEq, Option.some.injEq, Prod.mk.injEq] at h
      obtain ⟨rfl, rfl⟩ := h
      refine ⟨S, indsS, R, ?_, hR, hsame, hSind, ?_⟩
      · rw [hS]
      · rw [hRind, hshank]

/-! ## ADC groups and sampling delays -/

/-- The loop of `adc_shifts` (boolean-mask assignments over the whole probe) equals the closed forms:
for every probe generation and every `nc`, entry `i < min nc NC` is
`adc = 2·⌊i / (2a)⌋ + i mod 2`, `sample_shift = ⌊(i mod 2a) / 2⌋ / n_cycles` (`a` = channels per ADC). -/
theorem adc_loop_eq_closed (v : Version) (nc : Nat) :
    adcShifts v nc = .ok (natCol ((List.range (min nc NC)).map (shiftOf (adcParams v).1)),
                         natCol ((List.range (min nc NC)).map (adcOf (adcParams v).1))) :=
  adcShifts_eq v nc

/-- Each ADC serves exactly `a` channels at the distinct, evenly spaced delays `0/n, 1/n, …, (a-1)/n`
(all shorter than one sample): for every ADC `g` of the probe and every rank `s < a` there is exactly one
channel with that ADC and that delay numerator, and every channel's numerator is `< a ≤ n_cycles`. -/
theorem adc_table (v : Version) :
    (∀ g s, g < NC / (adcParams v).1 → s < (adcParams v).1 →
      ∃ i, i < NC ∧ adcOf (adcParams v).1 i = g ∧ shiftOf (adcParams v).1 i = s ∧
        ∀ j, adcOf (adcParams v).1 j = g → shiftOf (adcParams v).1 j = s → j = i) ∧
    (∀ i, shiftOf (adcParams v).1 i < (adcParams v).1) ∧
    (adcParams v).1 ≤ (adcParams v).2 ∧ 0 < (adcParams v).2 := by
  refine ⟨?_, fun i => (chanOf_adcOf v i).2, ?_, ?_⟩
  · intro g s hg hs
    obtain ⟨h1, h2⟩ := adcOf_chanOf v g s hs
    refine ⟨chanOf (adcParams v).1 g s, ?_, h1, h2, ?_⟩
    · rw [← adcOf_lt_iff v, h1]; exact hg
    · intro j hj1 hj2
      have := (chanOf_adcOf v j).1
      rw [hj1, hj2] at this
      exact this.symm
  · cases v <;> decide
  · cases v <;> decide

/-- The hardware numbers the delays are built from (docstring of `adc_shifts`): NP1 and NPultra have 32 ADCs
serving 12 channels each in 13 cycles per sample (12 AP slots + 1 LF slot); NP2 has 24 ADCs serving 16
channels each in 16 cycles; both account for all NC = 384 channels. -/
theorem adc_hardware :
    adcParams .v1 = (12, 13) ∧ adcParams .ultra = (12, 13) ∧ adcParams .v2 = (16, 16) ∧ adcParams .v24 = (16, 16) ∧
    NC = 32 * 12 ∧ NC = 24 * 16 := by decide

/-- PARTIAL (known finding `adc_by_position_nonprefix_subset`).  Full statement of the property: "the
ADC group and delay of a saved channel depend only on its ORIGINAL channel number `chan p` and the probe
generation", i.e. the conclusion below for every strictly increasing `chan` (the saved-channel subset
`snsSaveChanSubset`).  The code assigns them by POSITION `p` in the saved list, so this holds — and is
proved — exactly when the saved channels are a prefix `0 … n-1` of the probe (`chan p = p`). -/
theorem adc_by_channel_partial (m : Meta) (hs : m.np24Shank = none) (cm : RawMap)
    (hcm : mapChannels m.shankMap m.geomMap = .ok (some cm)) (hn : cm.c0.length ≤ NC)
    (v : Version) (hv : m.major = some v) (nc : Nat) (g : Geom) (inds : List Nat)
    (h : geometryFromMeta m false nc = .ok (some (g, inds)))
    (chan : Nat → Nat) (hprefix : ∀ p, p < cm.c0.length → chan p = p) :
    g.adc = some (natCol ((List.range cm.c0.length).map fun p => adcOf (adcParams v).1 (chan p))) ∧
    g.sampleShift = some (natCol ((List.range cm.c0.length).map fun p => shiftOf (adcParams v).1 (chan p))) ∧
    g.shiftDen = (adcParams v).2 := by
  rw [geometryFromMeta_map hcm, hv] at h
  cases hgu : geomUnsplit cm (some v) with
  | error e => rw [hgu] at h; cases h
  | ok th =>
    rw [hgu] at h
    obtain ⟨n, _, hwf⟩ := mapChannels_wf hcm
    have hn' : n ≤ NC := by rw [← hwf.c0]; exact hn
    obtain ⟨wf, _, _, _, hss, hadc, hden⟩ := geomUnsplit_spec hwf hn' hgu
    simp only [hs, finishGeom_none wf false, Bool.false_eq_true, if_false, Except.ok.injEq,
      Option.some.injEq, Prod.mk.injEq] at h
    obtain ⟨rfl, _⟩ := h
    have e1 : (List.range cm.c0.length).map (fun p => adcOf (adcParams v).1 (chan p)) =
        (List.range n).map (adcOf (adcParams v).1) := by
      rw [hwf.c0]; apply List.map_congr_left; intro p hp
      rw [hprefix p (by rw [hwf.c0]; exact List.mem_range.mp hp)]
    have e2 : (List.range cm.c0.length).map (fun p => shiftOf (adcParams v).1 (chan p)) =
        (List.range n).map (shiftOf (adcParams v).1) := by
      rw [hwf.c0]; apply List.map_congr_left; intro p hp
      rw [hprefix p (by rw [hwf.c0]; exact List.mem_range.mp hp)]
    rw [e1, e2]
    exact ⟨hadc, hss, hden⟩

/-- Witness that the full statement fails: an NP1 recording that saved only channel 192 (site row 96,
column 0).  The geometry gives it ADC 0, the ADC of channel 0; channel 192 is wired to ADC 16. -/
theorem adc_by_position_counterexample :
    ∃ g inds, geometryFromMeta { shankMap := some (renderMap "(1,2,480)".toList [(0, 0, 96, 1)]),
                                 prbType := some 0 } false = .ok (some (g, inds)) ∧
      g.adc = some [0] ∧ adcOf (adcParams .v1).1 192 = 16 := by
  have h := sites_listed_once "(1,2,480)".toList (by decide) [(0, 0, 96, 1)] (by simp)
    (by intro t ht; simp at ht; subst ht; simp [fieldsOk]) (by decide)
    { shankMap := some (renderMap "(1,2,480)".toList [(0, 0, 96, 1)]), prbType := some 0 } rfl rfl .v1 rfl 384
  obtain ⟨g, hg, _, _, _, _, _, _, _, hadc, _⟩ := h
  exact ⟨g, _, hg, by rw [hadc]; decide, by decide⟩

/-! ## canonical dense layouts -/

/-- The tile/repeat constructions of `dense_layout` equal the closed forms `denseSite` for every canonical
layout: NP1, NPultra (any `nshank`), NP2 and NP2.4 with one or four shanks; any other shank count for NP2
raises KeyError. -/
theorem dense_layouts :
    (∀ ns, denseLayout .v1 ns = .ok (denseClosed .v1 ns)) ∧
    (∀ ns, denseLayout .ultra ns = .ok (denseClosed .ultra ns)) ∧
    denseLayout .v2 1 = .ok (denseClosed .v2 1) ∧ denseLayout .v24 1 = .ok (denseClosed .v24 1) ∧
    denseLayout .v2 4 = .ok (denseClosed .v2 4) ∧ denseLayout .v24 4 = .ok (denseClosed .v24 4) ∧
    (∀ ns, ns ≠ 1 → ns ≠ 4 → denseLayout .v2 ns = .error .keyError ∧ denseLayout .v24 ns = .error .keyError) :=
  ⟨denseLayout_v1, denseLayout_ultra, denseLayout_v2_1, denseLayout_v24_1, denseLayout_v2_4,
    denseLayout_v24_4, denseLayout_other⟩

/-- `trace_header` = dense layout + the closed-form ADC columns of the whole probe. -/
theorem trace_header_eq (v : Version) (ns : Nat) (g : Geom) (h : denseLayout v ns = .ok g) :
    traceHeader v ns = .ok { g with
      sampleShift := some (natCol ((List.range NC).map (shiftOf (adcParams v).1))),
      adc := some (natCol ((List.range NC).map (adcOf (adcParams v).1))) } := by
  simp [traceHeader, h, adcShifts_eq, bind, Except.bind, pure, Except.pure, natCol, List.map_map]

/-! ## the statement program of `geometry_from_meta` (order of the fix-ups, purity) -/

/-- `geometry_from_meta` on a metadata with a site table IS the run of its statement list
(`GeomStages.stages`: parse → copy → [NP1: 70 − x] → y + 20 → xy2rc | [NP1: −2c + 2 + r mod 2] → rc2xy → ADC columns by position →
shank split → `ind` → [lexsort on (−col, row, shank) → joint gather of every key]) under the NumPy meaning `GeomStages.step` gives each
statement — for every metadata, both encodings, every probe version, split or not, sorted or not, errors included.  `Tie/C08.lean`
proves that the list generated from the source text equals `GeomStages.stages`. -/
theorem geometry_program (m : Meta) (cm : RawMap) (hcm : mapChannels m.shankMap m.geomMap = .ok (some cm))
    (sort : Bool) (nc : Nat) :
    geometryFromMeta m sort nc =
      match GeomStages.run cm m.major m.np24Shank (GeomStages.stages cm.enc (decide (m.major = some .v1)) sort) with
      | .error e => .error e
      | .ok r => .ok (some r) :=
  GeomStages.geometryFromMeta_eq_run m cm hcm sort nc

/-- Purity: the geometry is a function of the metadata alone.  Whatever an earlier derivation left behind in the variables of
the program (`cm`, `th`, `sort_keys`, `inds` — any state `st0`), deriving it again returns the same geometry, because every
variable is re-assigned from the freshly parsed table before it is read; in particular deriving it twice gives equal results. -/
theorem geometry_program_pure (cm : RawMap) (mv : Option Version) (key : Option Int) (sort : Bool) (st0 : GeomStages.St) :
    (match (GeomStages.stages cm.enc (decide (mv = some .v1)) sort).foldlM (GeomStages.step cm mv key) st0 with
      | .error e => (.error e : Except Err (Geom × List Nat))
      | .ok st => GeomStages.finish st) =
    GeomStages.run cm mv key (GeomStages.stages cm.enc (decide (mv = some .v1)) sort) :=
  GeomStages.run_from_any_state cm mv key sort st0

set_option maxRecDepth 100000 in
/-- The ORDER is part of the meaning (so the tie's order check is not idle): two NP2.4 sites on shanks 1 and 0, key
`NP2.4_shank = 0`: numbering the sites BEFORE the shank split leaves the parent index 1 in `ind`. -/
theorem program_order_matters_swapped :
    (GeomStages.run ⟨.shankMap, [1, 0], [0, 0], [0, 0], [1, 1]⟩ (some .v24) (some 0)
        [("map_channels", []), ("copy", []), ("rc2xy", []), ("adc_shifts", []), ("ind", []), ("split", []),
         ("inds_range", [])]).map (·.1.ind) = .ok (some [1]) := by decide +kernel

set_option maxRecDepth 100000 in
/-- … whereas the program of the source numbers the sites of the split shank from 0. -/
theorem program_order_matters :
    (GeomStages.run ⟨.shankMap, [1, 0], [0, 0], [0, 0], [1, 1]⟩ (some .v24) (some 0)
        (GeomStages.stages .shankMap false false)).map (·.1.ind) = .ok (some [0]) := by decide +kernel

/-! ## non-vacuity -/

/-- A small well-formed geometry in "creative" order (two shanks interleaved, a tie on (shank,row)). -/
def demoGeom : Geom :=
  { shank := [1, 0, 1, 0], col := [0, 1, 1, 1], row := [7, 5, 7, 5], x := [27, 59, 59, 59], y := [125, 95, 125, 95],
    flag := some [1, 1, 0, 1], sampleShift := some [0, 0, 1, 1], adc := some [0, 1, 0, 1], ind := some [0, 1, 2, 3],
    shiftDen := 16 }

/-- Hypotheses of `sort_perm` / `sort_order` / `sort_joint` / `sort_ind` hold for it, and the sort gives the
expected order: shank 0 first (tie kept in original order 1, 3), then shank 1 row 7 with column 1 before 0. -/
example : demoGeom.WF 4 ∧ demoGeom.ind = some (natCol (List.range 4)) ∧
    (sortGeom demoGeom).map (·.2) = .ok [1, 3, 2, 0] := by
  refine ⟨⟨rfl, rfl, rfl, rfl, rfl, ?_, ?_, ?_, ?_⟩, by decide, by decide⟩ <;>
  · intro c h; simp only [demoGeom, Option.some.injEq] at h; rw [← h]; rfl

/-- Hypotheses of `sites_listed_once`, `encodings_agree`, `split_is_restriction`, `adc_by_channel_partial`:
a header without colon, float32-exact fields (also after conversion to the geometry map), a parsed table. -/
example : ':' ∉ "(4,2,640)".toList ∧ (∀ t ∈ [(1, 0, 7, 1), (0, 1, 5, 1)], fieldsOk t) ∧
    fieldsOk (toGeomTuple .v1 (0, 1, 3, 1)) ∧ toGeomTuple .v1 (0, 1, 3, 1) = (0, 43, 60, 1) ∧
    mapChannels (some (renderMap "(4,2,640)".toList [(1, 0, 7, 1), (0, 1, 5, 1)])) none =
      .ok (some (tableOf .shankMap [(1, 0, 7, 1), (0, 1, 5, 1)])) := by
  refine ⟨by decide, ?_, by simp [fieldsOk, toGeomTuple, sglxXY], by decide, ?_⟩
  · intro t ht; simp at ht; rcases ht with rfl | rfl <;> simp [fieldsOk]
  · exact mapChannels_render_shank _ (by decide) _ (by simp)
      (by intro t ht; simp at ht; rcases ht with rfl | rfl <;> simp [fieldsOk]) none
example : xy2rc .v1 43 20 = some (0, 2) ∧ xy2rc .v1 44 20 = none := by decide

end IblVerif.C08
