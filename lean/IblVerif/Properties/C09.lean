/-
C09 — Metadata parsing, derived acquisition parameters and writing round-trip.

Property theorems only (helper lemmas live in `Lemmas/Meta*.lean`, the model in `Model/Meta.lean`).
Quantifiers: every metadata text `t : List Char`; every dictionary `d`; every IMRO table (header,
rows with arbitrary per-channel AP/LF gains), every saved-channel count and sync count.
-/
import IblVerif.Lemmas.MetaRoundTrip
import IblVerif.Lemmas.MetaGains
import IblVerif.Lemmas.MetaTables
import IblVerif.Lemmas.MetaAssemblyC09

namespace IblVerif.C09
open IblVerif.Meta

/-! ## Round trip -/

/-- **Parse → write → parse.**  For every file `t` that `read_meta_data` accepts and whose values lie in
the property's grammar — strings unrestricted; numeric scalars integer-valued or with a positional
`repr`; numeric lists integer-valued (`InGrammar`, `Lemmas/MetaDict.lean`) — `write_meta_data`
succeeds on the parsed dictionary and `read_meta_data` of what it wrote is the SAME dictionary
(same keys in the same order, same values, including the recomputed `neuropixelVersion`/`serial`).
Full strength of the statement; the only excluded numeric scalars are those of the known finding
`scientific_repr_scalar` (see `small_scalar_counterexample`). -/
theorem parse_print_parse (t : Str) (d : Dict) (h : parse t = .ok d)
    (hg : ∀ e ∈ d, InGrammar e.2) : ∃ w, printMeta d = .ok w ∧ parse w = .ok d :=
  parse_print_parse_core t d h hg

/-- The same as one equation between the two observable results. -/
theorem roundtrip_equal (t : Str) (d : Dict) (h : parse t = .ok d) (hg : ∀ e ∈ d, InGrammar e.2) :
    roundTrip t = parse t := by
  obtain ⟨w, hw, hp⟩ := parse_print_parse t d h hg
  unfold roundTrip
  simp only [h, hw, hp]

/-- Non-vacuity: a file with a tilde key, a string with '=' inside, a non-integer scalar, an integer
scalar and an integer list parses, lies in the grammar, and is written back as shown. -/
example :
    (parse "~a=x=y\nfs=2500.5\nn=385\nsy=384,0,1\n".toList).toOption.bind (fun d => (printMeta d).toOption)
      = some "a=x=y\nfs=2500.5\nn=385\nsy=384,0,1\nneuropixelVersion=None\nserial=None\n".toList := by
  decide +kernel
example : InGrammar (.num (.fin (2500 * U + U / 2))) := by
  refine Or.inr ⟨"2500.5".toList, ?_, ?_⟩ <;> decide +kernel
example : InGrammar (.list [.fin (384 * U), .fin 0, .fin U]) := by
  intro x hx
  simp only [List.mem_cons, List.not_mem_nil, or_false] at hx
  rcases hx with rfl | rfl | rfl <;> simp [IntNum]

/-- **Known finding `scientific_repr_scalar` on the model.**  The file `a=0.00005` parses to the float
0.00005, which is outside the grammar (its `repr` is `5e-05`); it is written as `a=5e-05` and read
back as the STRING "5e-05": the round trip does not return an equal dictionary. -/
theorem small_scalar_counterexample :
    let t := "a=0.00005\n".toList
    let a := "a".toList
    (parse t).toOption.bind (·.get? a) = some (.num (toDouble 5 5)) ∧
    ¬ InGrammar (.num (toDouble 5 5)) ∧
    (parse t).toOption.bind (fun d => (printMeta d).toOption)
      = some "a=5e-05\nneuropixelVersion=None\nserial=None\n".toList ∧
    (roundTrip t).toOption.bind (·.get? a) = some (.str "5e-05".toList) ∧
    (roundTrip t).toOption ≠ (parse t).toOption := by
  refine ⟨by decide +kernel, ?_, by decide +kernel, by decide +kernel, by decide +kernel⟩
  have hv : toDouble 5 5 = .fin (match toDouble 5 5 with | .fin v => v | .inf => 0) := by decide +kernel
  rw [hv]
  intro hg
  rcases hg with h0 | ⟨s, hs, hn⟩
  · revert h0; decide +kernel
  · have hr : reprFinite (match toDouble 5 5 with | .fin v => v | .inf => 0) = some "5e-05".toList := by
      decide +kernel
    rw [hr] at hs
    injection hs with hs
    subst hs
    revert hn; decide

/-! ## Decision tables of the derived quantities -/

/-- `prb_type == n` for the value stored under `imDatPrb_type` -/
def PrbType (d : Dict) (n : Nat) : Prop := ∃ p, d.get? kPrbType = some p ∧ p.eqNat n = true

/-- **Probe generation**: total decision table of `_get_neuropixel_version_from_meta`, one row per
outcome, each an equivalence (so the rows are exclusive and exhaustive). -/
theorem version_table (d : Dict) :
    (version d = some .v3A ↔ d.has kTypeEnabled = true) ∧
    (version d = some .v3B2 ↔ d.has kTypeEnabled = false ∧ PrbType d 0 ∧ (d.has kPrbPort = true ∧ d.has kPrbSlot = true)) ∧
    (version d = some .v3B1 ↔ d.has kTypeEnabled = false ∧ PrbType d 0 ∧ ¬ (d.has kPrbPort = true ∧ d.has kPrbSlot = true)) ∧
    (version d = some .np21 ↔ d.has kTypeEnabled = false ∧ (PrbType d 21 ∨ PrbType d 1030)) ∧
    (version d = some .np24 ↔ d.has kTypeEnabled = false ∧ (PrbType d 24 ∨ PrbType d 2013)) ∧
    (version d = some .npultra ↔ d.has kTypeEnabled = false ∧ PrbType d 1100) ∧
    (version d = none ↔ d.has kTypeEnabled = false ∧ ∀ n ∈ [0, 21, 1030, 24, 2013, 1100], ¬ PrbType d n) := by
  unfold version PrbType
  cases hte : d.has kTypeEnabled
  case true => simp
  case false =>
    cases hp : d.get? kPrbType with
    | none => simp
    | some p =>
      have ex := fun a b (hab : a ≠ b) => eqNat_excl p a b hab
      cases h0 : p.eqNat 0
      case true =>
        have e1 := ex 0 21 (by decide) h0
        have e2 := ex 0 1030 (by decide) h0
        have e3 := ex 0 24 (by decide) h0
        have e4 := ex 0 2013 (by decide) h0
        have e5 := ex 0 1100 (by decide) h0
        cases hport : d.has kPrbPort <;> cases hslot : d.has kPrbSlot <;> simp [e1, e2, e3, e4, e5, h0]
      case false =>
        cases h21 : p.eqNat 21
        case true =>
          have e2 := ex 21 1030 (by decide) h21
          have e3 := ex 21 24 (by decide) h21
          have e4 := ex 21 2013 (by decide) h21
          have e5 := ex 21 1100 (by decide) h21
          simp [e2, e3, e4, e5, h21, h0]
        case false =>
          cases h1030 : p.eqNat 1030
          case true =>
            have e3 := ex 1030 24 (by decide) h1030
            have e4 := ex 1030 2013 (by decide) h1030
            have e5 := ex 1030 1100 (by decide) h1030
            simp [e3, e4, e5, h21, h0, h1030]
          case false =>
            cases h24 : p.eqNat 24
            case true =>
              have e4 := ex 24 2013 (by decide) h24
              have e5 := ex 24 1100 (by decide) h24
              simp [e4, e5, h21, h0, h1030, h24]
            case false =>
              cases h2013 : p.eqNat 2013
              case true =>
                have e5 := ex 2013 1100 (by decide) h2013
                simp [e5, h21, h0, h1030, h24, h2013]
              case false =>
                cases h1100 : p.eqNat 1100 <;> simp [h21, h0, h1030, h24, h2013, h1100]

/-- Non-vacuity: the seven rows are inhabited (3B2 with port and slot, NP2.4 by its second code, …). -/
example : version [(kPrbType, .num (.fin 0)), (kPrbPort, .str []), (kPrbSlot, .str [])] = some .v3B2 := by decide +kernel
example : version [(kPrbType, .num (.fin (2013 * U)))] = some .np24 := by decide +kernel
example : version [(kPrbType, .num (.fin (1030 * U)))] = some .np21 := by decide +kernel
example : version [(kTypeEnabled, .str []), (kPrbType, .num (.fin (24 * U)))] = some .v3A := by decide +kernel
example : version [(kPrbType, .num (.fin (U / 2)))] = none := by decide +kernel

/-- **Stream type**: decision table of `_get_type_from_meta` (the value of `snsApLfSy` is the list
`[n_ap, n_lf, n_sync]`; it is absent for the nidq stream). -/
theorem type_table (d : Dict) :
    (typeOf d = .ok (some .lf) ↔
      ∃ x0 x1 rest, d.get? kApLfSy = some (.list (x0 :: x1 :: rest)) ∧ isZero x0 = true ∧ isZero x1 = false) ∧
    (typeOf d = .ok (some .ap) ↔
      ∃ x0 x1 rest, d.get? kApLfSy = some (.list (x0 :: x1 :: rest)) ∧ isZero x0 = false ∧ isZero x1 = true) ∧
    (typeOf d = .ok (some .nidq) ↔ d.get? kApLfSy = none ∧ typeThisIs d "nidq".toList = true) := by
  unfold typeOf
  split
  · rename_i h
    cases ht : typeThisIs d "nidq".toList <;> simp [h]
  · rename_i x0 x1 rest h
    cases h0 : isZero x0 <;> cases h1 : isZero x1 <;> simp [h, h0, h1] <;> exact ⟨x0, x1, ⟨rfl, rfl⟩, h0, h1⟩
  · rename_i xs hnot h
    simp only [h]
    refine ⟨⟨fun e => by simp at e, ?_⟩, ⟨fun e => by simp at e, ?_⟩, ⟨fun e => by simp at e, fun e => by simp at e⟩⟩
    · rintro ⟨x0, x1, rest, e, _⟩
      injection e with e; injection e with e
      exact absurd e (hnot x0 x1 rest)
    · rintro ⟨x0, x1, rest, e, _⟩
      injection e with e; injection e with e
      exact absurd e (hnot x0 x1 rest)
  all_goals (rename_i h; simp [h])

example : typeOf [(kApLfSy, .list [.fin (384 * U), .fin 0, .fin U])] = .ok (some .ap) := ok_of_toOption (by decide +kernel)
example : typeOf [(kApLfSy, .list [.fin 0, .fin (384 * U), .fin U])] = .ok (some .lf) := ok_of_toOption (by decide +kernel)
example : typeOf [(kTypeThis, .str "nidq".toList)] = .ok (some .nidq) := ok_of_toOption (by decide +kernel)

/-- **Channel and sync counts**: with `nc = int(nSavedChans)`, the sync traces are the LAST `nsync`
channels `[nc − nsync, nc)`, where `nsync` is the third entry of `snsApLfSy` for AP/LF streams and the
last entry of `snsMnMaXaDw` for the nidq stream; `Reader.nsync` is their number. -/
theorem counts_table (d : Dict) (t : STyp) (nc n : Int) (ht : typeOf d = .ok (some t))
    (hnc : nChannels d = .ok nc)
    (hn : (if t = .nidq then intItem (d.get? kMnMaXaDw) (-1) else intItem (d.get? kApLfSy) 2) = .ok n) :
    syncRange d = .ok (nc - n, nc) ∧ nSync d = .ok n.toNat := by
  have hs : syncRange d = .ok (nc - n, nc) := by
    unfold syncRange
    simp only [ht, hnc]
    cases t <;> simp_all
  refine ⟨hs, ?_⟩
  unfold nSync
  rw [hs]
  simp only [Functor.map, Except.map, rangeLen]
  congr 2
  omega

example : nSync [(kApLfSy, .list [.fin (384 * U), .fin 0, .fin U]), (kNSaved, .num (.fin (385 * U)))] = .ok 1 :=
  ok_of_toOption (by decide +kernel)

/-- **Maximum integer**: 512 by default on NP1-family imec streams, mandatory `imMaxInt` on NP2,
32768 by default on anything that is not an imec stream. -/
theorem max_int_table (d : Dict) :
    (typeThisIs d "imec".toList = false → maxInt d = pyInt (some ((d.get? kImMaxInt).getD (.int 32768)))) ∧
    (typeThisIs d "imec".toList = true → version d = none → maxInt d = .error .type) ∧
    (typeThisIs d "imec".toList = true → ∀ v, version d = some v → v.isNP2 = false →
      maxInt d = pyInt (some ((d.get? kImMaxInt).getD (.int 512)))) ∧
    (typeThisIs d "imec".toList = true → ∀ v, version d = some v → v.isNP2 = true →
      (d.get? kImMaxInt = none → maxInt d = .error .key) ∧
      (∀ x, d.get? kImMaxInt = some x → maxInt d = pyInt (some x))) := by
  unfold maxInt
  refine ⟨fun h => by simp only [h, ↓reduceIte, Bool.false_eq_true],
    fun h hv => by simp only [h, hv, ↓reduceIte],
    fun h v hv hn => by simp only [h, hv, hn, ↓reduceIte, Bool.false_eq_true], ?_⟩
  intro h v hv hn
  exact ⟨fun hx => by simp only [h, hv, hn, hx, ↓reduceIte], fun x hx => by simp only [h, hv, hn, hx, ↓reduceIte]⟩

/-! ## Gain vectors -/

/-- **Shape and source of the NP1-family gain vectors** (3A, 3B1, 3B2, NPultra), for EVERY IMRO table
— any header without spaces, any rows with arbitrary channel / bank / reference / AP-gain / LF-gain
(and optional sixth field) — every saved-channel count `nchn` not exceeding the table and every sync
count: the regular expression applied to the rendered text selects, for channel `i`, the 4th field
(AP gain) for the "ap" vector and the 5th field (LF gain) for the "lf" vector of ROW `i`; each vector
has one entry per saved channel followed by `nsy` sync entries equal to 1. -/
theorem gain_vector_shape_and_source (hdr : Str) (rows : List ImroRow) (nchn nsy : Nat) (i2v : Float)
    (hh : ' ' ∉ hdr) :
    np1Gains (renderImro hdr rows) (nchn : Int) nsy i2v =
      .ok [(.lf, hstackSync ((rows.take nchn).map fun r => gainOf32 (f32OfNat r.lf) i2v) nsy),
           (.ap, hstackSync ((rows.take nchn).map fun r => gainOf32 (f32OfNat r.ap) i2v) nsy)] ∧
    (nchn ≤ rows.length →
      (hstackSync ((rows.take nchn).map fun r => gainOf32 (f32OfNat r.ap) i2v) nsy).length = nchn + nsy ∧
      (hstackSync ((rows.take nchn).map fun r => gainOf32 (f32OfNat r.lf) i2v) nsy).length = nchn + nsy) := by
  constructor
  · unfold np1Gains
    simp only [findall5_renderImro hdr rows hh, pyTake_nat, ← List.map_take, np1Column_lf, np1Column_ap]
  · intro hn
    simp [hstackSync_length, Nat.min_eq_left hn]

/-- Non-vacuity: a two-row table with different AP and LF gains in each row, 3B format, one saved channel. -/
example : findall5 (renderImro "(0,2)".toList [⟨0, 0, 0, 500, 250, some 1⟩, ⟨1, 0, 1, 1000, 125, some 0⟩])
    = ["0 0 0 500 250".toList, "1 0 1 1000 125".toList] := by decide +kernel

/-- The regular expression on a rendered table returns exactly the first five fields of every row, in
row order (nothing from the header, nothing from a sixth field). -/
theorem imro_findall_rows (hdr : Str) (rows : List ImroRow) (hh : ' ' ∉ hdr) :
    findall5 (renderImro hdr rows) = rows.map fun r => joinWith ' ' (rowFields r) :=
  findall5_renderImro hdr rows hh

/-- **NP2 gain vectors**: every saved channel has the same factor `float32(int2volt / 80)`, both for
"ap" and "lf"; `nsy` sync entries equal to 1; a negative channel count is an error. -/
theorem gain_vector_np2 (nchn nsy : Nat) (i2v : Float) :
    np2Gains (nchn : Int) nsy i2v =
      .ok [(.lf, .f32 (List.replicate nchn ((i2v / 80.0).toFloat32 * 1.0) ++ List.replicate nsy 1.0)),
           (.ap, .f32 (List.replicate nchn ((i2v / 80.0).toFloat32 * 1.0) ++ List.replicate nsy 1.0))] ∧
    (Gains.f32 (List.replicate nchn ((i2v / 80.0).toFloat32 * 1.0) ++ List.replicate nsy 1.0)).length = nchn + nsy := by
  constructor
  · unfold np2Gains onesLen
    have : ¬ ((nchn : Int) < 0) := by omega
    simp [this]
  · simp [Gains.length]

/-- **nidq gain vector**: `MN` entries `(1/niMNGain)·int2volt`, then `MA` entries `(1/niMAGain)·int2volt`,
then `XA` entries `int2volt` (gain 1), then `DW` digital entries equal to 1 — in this order, for all
counts and gains. -/
theorem gain_vector_nidq (d : Dict) (mn ma xa dw : Nat) (gmn gma : Num) (i2v : Float)
    (h0 : nidqCount d 0 = .ok mn) (h1 : nidqCount d 1 = .ok ma) (h2 : nidqCount d 2 = .ok xa)
    (h3 : nidqCount d 3 = .ok dw) (hg0 : d.get? kMNGain = some (.num gmn)) (hg1 : d.get? kMAGain = some (.num gma)) :
    nidqGains d i2v = .ok [(.nidq, .f64 (List.replicate mn ((1.0 / gmn.toFloat) * i2v)
        ++ List.replicate ma ((1.0 / gma.toFloat) * i2v) ++ List.replicate xa (1.0 * i2v) ++ List.replicate dw 1.0))] ∧
    (Gains.f64 (List.replicate mn ((1.0 / gmn.toFloat) * i2v)
        ++ List.replicate ma ((1.0 / gma.toFloat) * i2v) ++ List.replicate xa (1.0 * i2v) ++ List.replicate dw 1.0)).length
      = mn + ma + xa + dw := by
  constructor
  · unfold nidqGains nidqBlock
    simp [h0, h1, h2, h3, hg0, hg1]
  · simp only [Gains.length, List.length_append, List.length_replicate]

/-- Non-vacuity of the nidq hypotheses. -/
example : nidqCount [(kMnMaXaDw, .list [.fin (2 * U), .fin 0, .fin U, .fin U])] 0 = .ok 2 :=
  ok_of_toOption (by decide +kernel)

/-! ## Assembly of the gain vectors, entry by entry (every channel count, every sync count ≥ 0) -/

/-- **Assembly `np.hstack((per-channel part, np.ones(nsync)))`.**  For every per-channel column `col` and EVERY `nsy ≥ 0`
(0 included: a recording saved without its sync word): the vector has `col.length + nsy` entries, entry `i < col.length` is the
`i`-th channel gain, and each of the last `nsy` entries is 1.  For `nsy = 0` the third clause is empty and the second says that
NO channel gain is overwritten. -/
theorem gain_assembly (col : List Float32) (nsy : Nat) :
    (hstackSync col nsy).length = col.length + nsy ∧
    (∀ i (h : i < col.length), (hstackSync col nsy).IsAt i col[i]) ∧
    (∀ j, j < nsy → (hstackSync col nsy).IsOneAt (col.length + j)) :=
  ⟨hstackSync_length col nsy, fun i h => hstackSync_channel col nsy i h, fun j h => hstackSync_sync col nsy j h⟩

/-- **NP1-family vectors entry by entry.**  For every rendered IMRO table, every saved-channel count `nchn ≤ rows` and every
sync count `nsy ≥ 0`: `_conversion_sample2v_from_meta` returns an "lf" and an "ap" vector of `nchn + nsy` entries; entry
`i < nchn` of "ap" is `float32(1)/float32(AP gain of row i) · float32(int2volt)`, of "lf" the same with the LF gain of row `i`;
entries `nchn … nchn + nsy − 1` are 1. -/
theorem gain_vector_entries (hdr : Str) (rows : List ImroRow) (nchn nsy : Nat) (i2v : Float) (hh : ' ' ∉ hdr)
    (hn : nchn ≤ rows.length) :
    ∃ lf ap, np1Gains (renderImro hdr rows) (nchn : Int) nsy i2v = .ok [(.lf, lf), (.ap, ap)] ∧
      lf.length = nchn + nsy ∧ ap.length = nchn + nsy ∧
      (∀ i (h : i < nchn), ap.IsAt i (gainOf32 (f32OfNat (rows[i]'(by omega)).ap) i2v) ∧
                           lf.IsAt i (gainOf32 (f32OfNat (rows[i]'(by omega)).lf) i2v)) ∧
      (∀ j, j < nsy → ap.IsOneAt (nchn + j) ∧ lf.IsOneAt (nchn + j)) := by
  obtain ⟨h1, h2⟩ := gain_vector_shape_and_source hdr rows nchn nsy i2v hh
  obtain ⟨hla, hll⟩ := h2 hn
  refine ⟨_, _, h1, hll, hla, ?_, ?_⟩
  · intro i h
    have hlen : ∀ f : ImroRow → Float32, ((rows.take nchn).map f).length = nchn := by
      intro f; simp [Nat.min_eq_left hn]
    have key : ∀ f : ImroRow → Float32, (hstackSync ((rows.take nchn).map f) nsy).IsAt i (f (rows[i]'(by omega))) := by
      intro f
      have := hstackSync_channel ((rows.take nchn).map f) nsy i (by rw [hlen]; exact h)
      simpa using this
    exact ⟨key (fun r => gainOf32 (f32OfNat r.ap) i2v), key (fun r => gainOf32 (f32OfNat r.lf) i2v)⟩
  · intro j h
    have key : ∀ f : ImroRow → Float32, (hstackSync ((rows.take nchn).map f) nsy).IsOneAt (nchn + j) := by
      intro f
      have := hstackSync_sync ((rows.take nchn).map f) nsy j h
      simpa [Nat.min_eq_left hn] using this
    exact ⟨key _, key _⟩

/-- Non-vacuity, the sync-less case: two rows, both saved, `nsy = 0` — the vector is the two channel gains and nothing else. -/
example (i2v : Float) : (hstackSync [gainOf32 (f32OfNat 500) i2v, gainOf32 (f32OfNat 250) i2v] 0).length = 2 := by
  simp [hstackSync_length]

/-- **NP2 vectors entry by entry**: `nchn` entries `float32(int2volt/80)·1`, then `nsy` ones — for every `nsy ≥ 0`. -/
theorem gain_vector_np2_entries (nchn nsy : Nat) (i2v : Float) :
    ∃ g, np2Gains (nchn : Int) nsy i2v = .ok [(.lf, g), (.ap, g)] ∧ g.length = nchn + nsy ∧
      (∀ i, i < nchn → g.IsAt i ((i2v / 80.0).toFloat32 * 1.0)) ∧ (∀ j, j < nsy → g.IsOneAt (nchn + j)) := by
  obtain ⟨h1, h2⟩ := gain_vector_np2 nchn nsy i2v
  refine ⟨_, h1, h2, ?_, ?_⟩
  · intro i h
    simp only [Gains.IsAt]
    rw [List.getElem?_append_left (by simpa using h)]
    simp [List.getElem?_replicate, h]
  · intro j h
    simp only [Gains.IsOneAt]
    rw [List.getElem?_append_right (by simp)]
    simp [List.getElem?_replicate, h]

/-- **Why the tail must be APPENDED, not reset.**  Writing the sync tail as `v[-nsync:] = 1` on the assembled vector is the
same vector for every `nsync > 0`, and overwrites EVERY channel gain with 1 for `nsync = 0` (Python's `v[-0:]` is the whole
vector) — the defect class of the seeded changes C01_g / C09_a / C09_e / C09_f / C09_g, excluded by `gain_assembly`. -/
theorem reset_tail_counterexample (col : List Float32) :
    (∀ k, 0 < k → resetTail (col ++ List.replicate k 1.0) k 1.0 = col ++ List.replicate k 1.0) ∧
    resetTail (col ++ List.replicate 0 1.0) 0 1.0 = List.replicate col.length 1.0 :=
  ⟨fun k hk => resetTail_pos col k 1.0 hk, resetTail_zero col 1.0⟩

/-! ## Shapes `read_meta_data` can return -/

/-- **A parsed numeric value is never a one-element list** ("scalars should not be nested"): for every file `t` that parses,
every list-valued entry has length ≠ 1.  Consequence: a dictionary holding `[x]` is not in the image of `read_meta_data`, so the
property's round trip (parse → write → parse) never meets the asymmetry of `singleton_list_counterexample`. -/
theorem parse_never_singleton_list (t : Str) (d : Dict) (h : parse t = .ok d) (k : Str) (xs : List Num)
    (he : (k, Val.list xs) ∈ d) : xs.length ≠ 1 := by
  unfold parse at h
  split at h
  · simp at h
  · rename_i d0 hpl
    simp only at h
    split at h
    · simp at h
    · rename_i sv hsv
      simp at h
      have hinv : Inv d0 := parseLines_inv _ [] d0 hpl (splitlines_noBreak _) ⟨by simp [keys], by simp⟩
      rw [← h] at he
      rcases mem_set _ _ _ _ he with h1 | h1
      · rcases serialVal_cases _ sv hsv with h0 | ⟨n, h0⟩ <;> simp [h0] at h1
      · rcases mem_set _ _ _ _ h1 with h2 | h2
        · have : versionVal d0 = Val.list xs := (Prod.mk.inj h2).2.symm
          unfold versionVal at this
          split at this <;> simp at this
        · obtain ⟨s, _, hp⟩ := (hinv.2 _ h2).2
          exact parseVal_list_length s xs hp

example : (parse "a=5\nb=1,2\n".toList).toOption.bind (·.get? "a".toList) = some (.num (.fin (5 * U))) := by decide +kernel

/-- **Known asymmetry outside the property's quantifier**: `write_meta_data` of a one-element list `[5.0]` writes `a=5`, which
`read_meta_data` returns as the SCALAR 5.0, not as the list. -/
theorem singleton_list_counterexample :
    (printMeta [("a".toList, .list [.fin (5 * U)])]).toOption = some "a=5\n".toList ∧
    (parse "a=5\n".toList).toOption.bind (·.get? "a".toList) = some (.num (.fin (5 * U))) := by
  constructor <;> decide +kernel

end IblVerif.C09
