/-
C17 — Sliding windows cover, overlap, partition and splice exactly.

Property theorems only (helper lemmas live in `Lemmas/Window*.lean`).  Every statement is for ALL
`ns`, `w` (= nswin), `ov` (= overlap) with `ov < w`, the property's own quantifier.
-/
import IblVerif.Lemmas.WindowValid
import Mathlib.Analysis.SpecialFunctions.Trigonometric.Basic

namespace IblVerif.C17
open IblVerif.Window

/-- The generator produces at least one window, the first one starts at sample 0, the last one ends at
`ns`, and every sample `t < ns` lies inside some window: no gaps. -/
theorem cover (ns w ov : Nat) (hov : ov < w) :
    (∃ l rest, firstlast ns w ov = (0, l) :: rest) ∧
    (∀ hne : firstlast ns w ov ≠ [], ((firstlast ns w ov).getLast hne).2 = ns) ∧
    (∀ t, t < ns → ∃ fl ∈ firstlast ns w ov, fl.1 ≤ t ∧ t < fl.2) := by
  unfold firstlast
  simp only [hov, if_true]
  refine ⟨aux_head ns w ov 0, ?_, ?_⟩
  · intro hne
    exact chain_last ns w ov _ (aux_chain ns w ov 0 hov (Nat.zero_le _)) hne
  · intro t ht
    exact aux_cover ns w ov 0 t hov (Nat.zero_le _) ht

/-- Consecutive windows overlap by exactly the requested amount: window `i` has the full length `w`,
is not the last one, and window `i+1` starts `ov` samples before window `i` ends. -/
theorem overlap_exact (ns w ov : Nat) (hov : ov < w) (i : Nat)
    (hi : i + 1 < (firstlast ns w ov).length) :
    ((firstlast ns w ov)[i]'(by omega)).2 = ((firstlast ns w ov)[i+1]'hi).1 + ov ∧
    ((firstlast ns w ov)[i]'(by omega)).2 = ((firstlast ns w ov)[i]'(by omega)).1 + w := by
  have hc : Chain ns w ov (firstlast ns w ov) := by
    unfold firstlast; simp only [hov, if_true]
    exact aux_chain ns w ov 0 hov (Nat.zero_le _)
  obtain ⟨h1, _, h3⟩ := chain_index ns w ov _ hc i hi
  exact ⟨by omega, h1⟩

/-- Every window is `[first, min(first + w, ns))` and starts on a multiple of the stride. -/
theorem window_shape (ns w ov : Nat) (hov : ov < w) :
    ∀ fl ∈ firstlast ns w ov, fl.2 = min (fl.1 + w) ns ∧ fl.1 % (w - ov) = 0 := by
  unfold firstlast
  simp only [hov, if_true]
  intro fl hfl
  have := aux_mem ns w ov 0 fl hfl
  exact ⟨this.2.1, by have h := this.2.2; rwa [Nat.sub_zero] at h⟩

/-- The announced window count equals the number of windows produced. -/
theorem nwin_eq_count (ns w ov : Nat) (hov : ov < w) :
    (firstlast ns w ov).length = nwin ns w ov := by
  unfold firstlast nwin
  simp only [hov, if_true]
  rw [aux_length ns w ov 0 hov]
  simp only [Nat.zero_add]

/-- The formula as it stood before the `fix:` commit (`ceil(...) + 1` without the clamp), over `Int`:
it announces 0 windows for `(ns, w, ov) = (1, 3, 2)` while one window is produced. -/
theorem nwin_unclamped_counterexample :
    (firstlast 1 3 2).length = 1 ∧ -(((3:Int) - 1) / (3 - 2)) + 1 ≠ 1 := by
  simp [firstlast, firstlastAux]

/-- The `valid` sub-windows contain every sample exactly once (overlap even, as the code asserts). -/
theorem valid_partition (ns w ov : Nat) (hov : ov < w) (he : ov % 2 = 0) (t : Nat) (ht : t < ns) :
    validCount (firstlastValid ns w ov) t = 1 := by
  unfold firstlastValid firstlast
  simp only [hov, if_true]
  rw [aux_validCount ns w ov 0 t hov he ht]
  simp [lo]

/-- Each `valid` sub-window lies inside its window. -/
theorem valid_inside (ns w ov : Nat) (_hov : ov < w) :
    ∀ v ∈ firstlastValid ns w ov, v.1 ≤ v.2.2.1 ∧ v.2.2.2 ≤ v.2.1 := by
  intro v hv
  unfold firstlastValid at hv
  obtain ⟨fl, _, rfl⟩ := List.mem_map.mp hv
  simp only [validOf]
  constructor <;> split <;> omega

/-- The time scale gives each window's centre: twice the centre index is `first + (last - 1)`. -/
theorem tscale_centre (fl : Nat × Nat) : tscaleTwice fl = (fl.1 : Int) + ((fl.2 : Int) - 1) := by
  unfold tscaleTwice; omega

/-- The Hann fade-in used by the code, `hann(2(ov+1)+1)[1+k] = ½ − ½ cos(π (k+1)/(ov+1))`. -/
noncomputable def hannRamp (ov k : Nat) : ℝ :=
  1 / 2 - 1 / 2 * Real.cos (Real.pi * ((k : ℝ) + 1) / ((ov : ℝ) + 1))

/-- Fade-in and flipped fade-out are complementary. -/
theorem hann_complement (ov j : Nat) (hj : j < ov) :
    hannRamp ov (ov - 1 - j) + hannRamp ov j = 1 := by
  unfold hannRamp
  have hov : ((ov : ℝ) + 1) ≠ 0 := by positivity
  have hcast : ((ov - 1 - j : Nat) : ℝ) = (ov : ℝ) - 1 - (j : ℝ) := by
    rw [Nat.cast_sub (by omega), Nat.cast_sub (by omega)]; simp
  have harg : Real.pi * (((ov - 1 - j : Nat) : ℝ) + 1) / ((ov : ℝ) + 1)
      = Real.pi - Real.pi * ((j : ℝ) + 1) / ((ov : ℝ) + 1) := by
    rw [hcast]; field_simp; ring
  rw [harg, Real.cos_pi_sub]
  ring

/-- For overlaps up to half a window the splicing amplitudes (Hann ramps) sum to one at every sample. -/
theorem splice_sum_one (ns w ov : Nat) (hov : ov < w) (h2 : 2 * ov ≤ w) (t : Nat) (ht : t < ns) :
    spliceSum (hannRamp ov) ns ov (firstlast ns w ov) t = 1 := by
  unfold firstlast
  simp only [hov, if_true]
  rw [aux_spliceSum (hannRamp ov) (fun x => add_zero x) ns w ov 0 t hov h2
    (hann_complement ov) (Nat.zero_le _) ht]
  simp

/-- Non-vacuity: concrete triples with a short last window, and with zero overlap. -/
example : firstlast 11 10 4 = [(0, 10), (6, 11)] ∧ nwin 11 10 4 = 2 := by
  simp [firstlast, firstlastAux, nwin]
example : firstlast 20 10 0 = [(0, 10), (10, 20)] ∧ nwin 20 10 0 = 2 := by
  simp [firstlast, firstlastAux, nwin]
example : firstlastValid 25 10 4 = [(0, 10, 0, 8), (6, 16, 8, 14), (12, 22, 14, 20), (18, 25, 20, 25)] := by
  simp [firstlastValid, firstlast, firstlastAux, validOf]

end IblVerif.C17
