/-
C11 — Truncated or inconsistent files open and expose exactly the complete sample frames.

Property theorems only.  Model: `Model/OpenSize.lean` (transcription of `Reader.open`, `Reader.ns`, `Reader.rl`,
`OnlineReader.ns`, the `np.memmap` size check).  Helper lemmas: `Lemmas/OpenSize.lean` (core Lean) and
`Analysis/OpenSizeRounding.lean` (ℝ, standard model of binary64 rounding).

Quantifier of the property: every file length (every number of complete frames and every number `0 … frame−1` of
trailing bytes), whatever the meta data claim (shorter, longer, equal), every positive sampling rate (integer or
fractional), offline and online reader.  The theorems below quantify over all `bytes`, `nc`, `itemsize`,
`fileTimeSecs`, `fs`; the only restrictions are the stated magnitude bounds (2⁵⁰ frames offline, 2⁴⁰ bytes online),
a non-empty file (an empty file cannot be mapped: `openBin … 0 = error emptyFile`, see the example), `nc, itemsize, fs > 0`,
and — the recorded finding, offline reader only — that the meta data carry `fileTimeSecs`: on the meta data of a recording
still in progress `Reader.ns` raises `TypeError` (`offline_incomplete_meta_counterexample`), while the online reader opens
them (`online_open_std` holds for an absent `fileTimeSecs`).
-/
import IblVerif.Analysis.OpenSizeRounding
import IblVerif.Analysis.OpenSizeBinary64

namespace IblVerif.C11
open IblVerif.OpenSize

variable {T : Type}

/-- [core] **Opening succeeds and the exposed sample count is the floor** — offline reader, any float arithmetic
`A` that satisfies the round-trip law for the number of frames on disk (discharged by `seconds_roundtrip`).
Whatever `fileTimeSecs` the meta data announce (consistent, too short, too long), `open` returns normally, keeps
`nc` and `fs`, and afterwards `Reader.ns = bytes // (itemsize · nc)`. -/
theorem exposed_eq_floor (A : Arith T) (nc : Nat) (fs fts : T) (itemsize bytes : Nat)
    (hnc : 0 < nc) (hsz : 0 < itemsize) (hb : 0 < bytes) (hfs : A.isZero fs = false)
    (hrt : RoundTrip A fs (framesOnDisk bytes nc itemsize)) :
    ∃ h', openBin A .offline (.ofMeta nc fs (some fts)) itemsize bytes = .ok h' ∧ h'.nc = nc ∧ h'.fs A = fs ∧
      nsOf A .offline h' itemsize bytes = .ok (framesOnDisk bytes nc itemsize) := by
  obtain ⟨fts', ho, hns, _, _⟩ := openBin_offline_meta A nc fs fts itemsize bytes hnc hsz hb hfs hrt
  exact ⟨_, ho, rfl, rfl, by simp [nsOf, Hdr.nsOffline, hns]⟩

/-- [core] **The exposed frames are exactly the complete frames and nothing lies beyond the file**: with
`ns = bytes // (itemsize · nc)` the `(ns, nc)` map fits in the file, one more frame would not, and every element
`[i, j]` of the map occupies bytes that are physically present. -/
theorem within_file (bytes nc itemsize : Nat) (hnc : 0 < nc) (hsz : 0 < itemsize) :
    framesOnDisk bytes nc itemsize * nc * itemsize ≤ bytes ∧
    bytes < (framesOnDisk bytes nc itemsize + 1) * nc * itemsize ∧
    ∀ i j, i < framesOnDisk bytes nc itemsize → j < nc → (i * nc + j + 1) * itemsize ≤ bytes := by
  refine ⟨frames_mul_le bytes nc itemsize, lt_frames_succ_mul bytes nc itemsize hnc hsz, ?_⟩
  intro i j hi hj
  have h1 := flat_lt _ nc i j hi hj
  have h2 := frames_mul_le bytes nc itemsize
  exact le_trans (Nat.mul_le_mul_right itemsize h1) h2

/-- [core] **Values equal the file's prefix**: for a file whose complete samples are `file`, every element `[i, j]`
inside the exposed shape `(ns, nc)` is defined (no `IndexError`) and is the sample at row-major position `i·nc + j`;
the rows concatenated are the first `ns · nc` samples, each row has `nc` entries; indices outside the shape raise. -/
theorem values_prefix (file : List Int) (bytes nc itemsize : Nat) (hnc : 0 < nc) (hsz : 0 < itemsize)
    (hfile : file.length = bytes / itemsize) :
    let ns := framesOnDisk bytes nc itemsize
    (∀ i j, i < ns → j < nc → ∃ v, cell (file[·]?) ns nc i j = some v ∧ file[i * nc + j]? = some v) ∧
    (exposed file ns nc).flatten = file.take (ns * nc) ∧
    (∀ r ∈ exposed file ns nc, r.length = nc) ∧
    (∀ i j, ¬ (i < ns ∧ j < nc) → cell (file[·]?) ns nc i j = none) := by
  intro ns
  have hfit : ns * nc ≤ file.length := by
    rw [hfile, Nat.le_div_iff_mul_le hsz]
    exact frames_mul_le bytes nc itemsize
  refine ⟨?_, exposed_flatten file ns nc, ?_, ?_⟩
  · intro i j hi hj
    have hlt : i * nc + j < file.length := by
      have := flat_lt ns nc i j hi hj; omega
    exact ⟨file[i * nc + j], by simp [cell, hi, hj, hlt], by simp [hlt]⟩
  · intro r hr
    simp only [exposed, List.mem_map, List.mem_range] at hr
    obtain ⟨i, hi, rfl⟩ := hr
    have : (i + 1) * nc ≤ ns * nc := Nat.mul_le_mul_right nc hi
    rw [Nat.add_mul, Nat.one_mul] at this
    simp only [row, List.length_take, List.length_drop]
    omega
  · intro i j h
    simp [cell, h]

/-- [core] **`round(fl(fl(k / fs) · fs)) = k`** in the standard model of binary64 rounding (`|δ| ≤ 2⁻⁵³`, integers up to
2⁵³ exact, any nearest-integer function), for every `k < 2⁵⁰` and every rate `fs > 0`, integer or fractional. -/
theorem seconds_roundtrip (F : StdRounding) (k : ℕ) (hk : k < 2 ^ 50) (fs : ℝ) (hfs : 0 < fs) :
    (F.rnd (F.fl (F.fl (F.fl (k : ℝ) / fs) * fs))).toNat = k :=
  roundtrip_real F k hk fs hfs

/-- The same statement for the concrete round-to-nearest function onto 53-bit significands (`fl53`, binary64 with an
unbounded exponent) and Mathlib's `round`: the standard model is not an empty abstraction. -/
theorem seconds_roundtrip_binary64 (k : ℕ) (hk : k < 2 ^ 50) (fs : ℝ) (hfs : 0 < fs) :
    (round (fl53 (fl53 (fl53 (k : ℝ) / fs) * fs))).toNat = k :=
  seconds_roundtrip binary64Rounding k hk fs hfs

/-- [core] `exposed_eq_floor` with the round-trip law discharged: in the standard model the offline reader opens every
non-empty file of fewer than 2⁵⁰ frames and exposes exactly the complete frames, for every announced duration. -/
theorem offline_open_std (F : StdRounding) (nc : Nat) (fs fts : ℝ) (itemsize bytes : Nat)
    (hnc : 0 < nc) (hsz : 0 < itemsize) (hb : 0 < bytes) (hfs : 0 < fs)
    (hk : framesOnDisk bytes nc itemsize < 2 ^ 50) :
    ∃ h', openBin (realArith F) .offline (.ofMeta nc fs (some fts)) itemsize bytes = .ok h' ∧ h'.nc = nc ∧
      nsOf (realArith F) .offline h' itemsize bytes = .ok (framesOnDisk bytes nc itemsize) := by
  obtain ⟨h', h1, h2, _, h4⟩ := exposed_eq_floor (realArith F) nc fs fts itemsize bytes hnc hsz hb
    (by simp [realArith, hfs.ne']) (roundtrip_real F _ hk fs hfs)
  exact ⟨h', h1, h2, h4⟩

/-- [core] **Online reader**: `int(size / itemsize / nc)` (two float divisions, truncation) is the floor for every size
below 2⁴⁰ bytes (standard model). -/
theorem online_floor (F : StdRounding) (nc itemsize bytes : ℕ) (hnc : 0 < nc) (hsz : 0 < itemsize)
    (hb : bytes < 2 ^ 40) (hncb : nc < 2 ^ 40) (hszb : itemsize < 2 ^ 40) :
    onlineNs (realArith F) nc itemsize bytes = .ok (bytes / (itemsize * nc)) := by
  have h := online_floor_real F nc itemsize bytes hnc hsz hb hncb hszb
  unfold OnlineFloor at h
  unfold onlineNs
  rw [if_neg (by omega), h]
  rfl

/-- [core] The online reader opens every non-empty file below 2⁴⁰ bytes and exposes exactly the complete frames —
also when `fileTimeSecs` is absent from the meta data (`fts = none`: SpikeGLX still recording), which is the property's
"recording still in progress / online reader" case. -/
theorem online_open_std (F : StdRounding) (nc : Nat) (fs : ℝ) (fts : Option ℝ) (itemsize bytes : Nat)
    (hnc : 0 < nc) (hsz : 0 < itemsize) (hb : 0 < bytes) (hfs : 0 < fs)
    (hbb : bytes < 2 ^ 40) (hncb : nc < 2 ^ 40) (hszb : itemsize < 2 ^ 40) :
    ∃ h', openBin (realArith F) .online (.ofMeta nc fs fts) itemsize bytes = .ok h' ∧ h'.nc = nc ∧
      nsOf (realArith F) .online h' itemsize bytes = .ok (framesOnDisk bytes nc itemsize) := by
  obtain ⟨fts', h1, h2, _⟩ := openBin_online_meta (realArith F) nc fs fts itemsize bytes hnc hsz hb
    (by simp [realArith, hfs.ne']) (online_floor_real F nc itemsize bytes hnc hsz hbb hncb hszb)
  exact ⟨_, h1, rfl, h2⟩

/-- **Finding (known finding `incomplete-meta-keys`, offline reader only)**: meta data without `fileTimeSecs` make
`Reader.ns` raise `TypeError` (`None * fs`) before the file size is even looked at — for every arithmetic and size.
The full-strength statement "the offline reader opens every file" is therefore false without `fileTimeSecs`. -/
theorem offline_incomplete_meta_counterexample (A : Arith T) (nc : Nat) (fs : T)
    (itemsize bytes : Nat) :
    openBin A .offline (.ofMeta nc fs none) itemsize bytes = .error .typeError := by
  simp [openBin, nsOf, Hdr.nsOffline, bind, Except.bind]

/-- [core] **The duration matches the exposed sample count**: after `open`, `rl` is the float quotient of the exposed
count by the rate, and when the meta data had to be rewritten the stored `fileTimeSecs` is that same number. -/
theorem duration_matches (A : Arith T) (nc : Nat) (fs fts : T) (itemsize bytes : Nat)
    (hnc : 0 < nc) (hsz : 0 < itemsize) (hb : 0 < bytes) (hfs : A.isZero fs = false)
    (hrt : RoundTrip A fs (framesOnDisk bytes nc itemsize)) :
    ∃ h', openBin A .offline (.ofMeta nc fs (some fts)) itemsize bytes = .ok h' ∧
      rl A .offline h' itemsize bytes = .ok (A.div (A.ofNat (framesOnDisk bytes nc itemsize)) fs) ∧
      (nc * A.rint (A.mul fts fs) * itemsize ≠ bytes →
        h'.fileTimeSecs? = some (A.div (A.ofNat (framesOnDisk bytes nc itemsize)) fs)) := by
  obtain ⟨fts', ho, hns, _, hrw⟩ := openBin_offline_meta A nc fs fts itemsize bytes hnc hsz hb hfs hrt
  refine ⟨_, ho, ?_, ?_⟩
  · simp [rl, nsOf, Hdr.nsOffline, Hdr.fs, hns, hfs, bind, Except.bind]
  · intro hne
    simp [Hdr.fileTimeSecs?, hrw hne]

/-- In the standard model the reported duration is the exact `ns / fs` up to one rounding (relative 2⁻⁵³). -/
theorem duration_close_std (F : StdRounding) (ns : ℕ) (hns : ns < 2 ^ 50) (fs : ℝ) (_hfs : 0 < fs) :
    |(realArith F).div ((realArith F).ofNat ns) fs - (ns : ℝ) / fs| ≤ u * |(ns : ℝ) / fs| := by
  simp only [realArith]
  rw [fl_nat F ns (by omega)]
  exact F.fl_rel _

/-- [core] **Compressed stream shorter or longer than announced**: the `.cbin` reader exposes the number of samples the
chunk file holds (`mtscomp.Reader.shape[0]`), whatever the `.meta` claims and **whatever sampling rate the `.ch` header
carries** (`chfs`: streams are compressed at the nominal rate, the meta rate is calibrated later). -/
theorem cbin_exposed (A : Arith T) (nc : Nat) (fs fts : T) (n : Nat) (chfs : T)
    (hfs : A.isZero fs = false) (hrt : RoundTrip A fs n) :
    ∃ h', openCbin A (.ofMeta nc fs (some fts)) ⟨n, nc, chfs⟩ = .ok h' ∧ h'.nc = nc ∧ h'.nsOffline A = .ok n := by
  obtain ⟨fts', ho, hns, _⟩ := openCbin_meta A nc fs fts n nc chfs hfs hrt
  exact ⟨_, ho, rfl, by simp [Hdr.nsOffline, hns rfl]⟩

/-- The outcome of opening a `.cbin` (sample count, duration, errors) does not depend on the `.ch` sampling rate at all. -/
theorem cbin_independent_of_ch_rate (A : Arith T) (h : Hdr T) (n cnc : Nat) (r₁ r₂ : T) :
    openCbin A h ⟨n, cnc, r₁⟩ = openCbin A h ⟨n, cnc, r₂⟩ := rfl

/-- `cbin_exposed` in the standard model: every stream of fewer than 2⁵⁰ samples, every positive meta rate. -/
theorem cbin_exposed_std (F : StdRounding) (nc : Nat) (fs fts : ℝ) (n : Nat) (chfs : ℝ)
    (hfs : 0 < fs) (hn : n < 2 ^ 50) :
    ∃ h', openCbin (realArith F) (.ofMeta nc fs (some fts)) ⟨n, nc, chfs⟩ = .ok h' ∧ h'.nc = nc ∧
      h'.nsOffline (realArith F) = .ok n :=
  cbin_exposed (realArith F) nc fs fts n chfs (by simp [realArith, hfs.ne']) (roundtrip_real F n hn fs hfs)

/-- Why the duration must be rewritten with the META rate: the variant `ftsec = n_samples / sample_rate(.ch)` exposes
12 samples for a one-sample stream compressed at 2500 Hz under 30000 Hz meta data announcing any other length —
under every rounding function — while the code as it stands exposes the one sample. -/
theorem cbin_ch_rate_counterexample (F : StdRounding) (fts : ℝ)
    (hne : (F.rnd (F.fl (fts * 30000))).toNat ≠ 1) :
    (∃ h', openCbinChRate (realArith F) (.ofMeta 1 30000 (some fts)) ⟨1, 1, 2500⟩ = .ok h' ∧
      h'.nsOffline (realArith F) = .ok 12) ∧
    (∃ h', openCbin (realArith F) (.ofMeta 1 30000 (some fts)) ⟨1, 1, 2500⟩ = .ok h' ∧
      h'.nsOffline (realArith F) = .ok 1) := by
  refine ⟨chRate_variant_wrong F fts hne, ?_⟩
  obtain ⟨h', h1, _, h3⟩ := cbin_exposed_std F 1 30000 fts 1 2500 (by norm_num) (by norm_num)
  exact ⟨h', h1, h3⟩

/-- Non-vacuity of the counterexample's hypothesis: meta data announcing 2 samples (exact arithmetic). -/
example : ((exactRounding).rnd ((exactRounding).fl ((2 / 30000 : ℝ) * 30000))).toNat ≠ 1 := by
  simp [exactRounding]

/-- [core] **Why the formula before the `fix:` commit failed** (`ftsec = size / itemsize / nc / fs`, then
`round(ftsec · fs)`): a 7-byte file with 4-byte frames (one frame + ¾ frame of trailing bytes) gives `ns = 2` under
every rounding function of the standard model, and `np.memmap` refuses the 8-byte map; the current code exposes the
one complete frame. -/
theorem round_counterexample (F : StdRounding) (fs fts : ℝ) (hfs : 0 < fs) :
    openBinOld (realArith F) (.ofMeta 2 fs (some fts)) 2 7 = .error .mmapTooLong ∧
    framesOnDisk 7 2 2 = 1 ∧
    ∃ h', openBin (realArith F) .offline (.ofMeta 2 fs (some fts)) 2 7 = .ok h' ∧
      nsOf (realArith F) .offline h' 2 7 = .ok 1 := by
  refine ⟨old_formula_fails F fs fts hfs, by decide, ?_⟩
  obtain ⟨h', h1, _, h3⟩ := offline_open_std F 2 fs fts 2 7 (by norm_num) (by norm_num) (by norm_num) hfs
    (by decide)
  exact ⟨h', h1, by simpa [framesOnDisk] using h3⟩

/-! ### Non-vacuity and error branches -/

/-- The hypotheses of `StdRounding` are satisfiable (exact arithmetic), so the `…_std` theorems are not vacuous. -/
example : ∃ h', openBin (realArith exactRounding) .offline (.ofMeta 385 30000 (some 1)) 2 (770 * 5 + 769)
      = .ok h' ∧ nsOf (realArith exactRounding) .offline h' 2 (770 * 5 + 769) = .ok 5 := by
  obtain ⟨h', h1, _, h3⟩ := offline_open_std exactRounding 385 30000 1 2 (770 * 5 + 769)
    (by norm_num) (by norm_num) (by norm_num) (by norm_num) (by decide)
  exact ⟨h', h1, by simpa [framesOnDisk] using h3⟩

/-- The same with genuine 53-bit rounding and a fractional rate. -/
example : ∃ h', openBin (realArith binary64Rounding) .offline (.ofMeta 385 30000.123456 (some 7)) 2
      (770 * 5 + 769) = .ok h' ∧ nsOf (realArith binary64Rounding) .offline h' 2 (770 * 5 + 769) = .ok 5 := by
  obtain ⟨h', h1, _, h3⟩ := offline_open_std binary64Rounding 385 30000.123456 7 2 (770 * 5 + 769)
    (by norm_num) (by norm_num) (by norm_num) (by norm_num) (by decide)
  exact ⟨h', h1, by simpa [framesOnDisk] using h3⟩

/-- Floor arithmetic on a truncated 385-channel file: 5 complete frames and 769 trailing bytes. -/
example : framesOnDisk (770 * 5 + 769) 385 2 = 5 := by decide

/-- Rows of a 7-sample file viewed as `(2, 3)`: the trailing sample is not exposed. -/
example : exposed [1, 2, 3, 4, 5, 6, 7] 2 3 = [[1, 2, 3], [4, 5, 6]] := by decide

/-- Error branches of the model: an empty file cannot be mapped (`ValueError: cannot mmap an empty file`), whatever
the meta data say; a flat reader (no meta data) told too many samples is refused by `np.memmap`. -/
example (A : Arith T) (nc : Nat) (fs fts : T) (itemsize : Nat) (hnc : 0 < nc) (hsz : 0 < itemsize)
    (hfs : A.isZero fs = false) (hrt : RoundTrip A fs 0) :
    openBin A .offline (.ofMeta nc fs (some fts)) itemsize 0 = .error .emptyFile := by
  have hpos : itemsize * nc ≠ 0 := Nat.pos_iff_ne_zero.mp (Nat.mul_pos hsz hnc)
  by_cases hc : nc * A.rint (A.mul fts fs) * itemsize = 0
  · have h0 : A.rint (A.mul fts fs) = 0 := by
      rcases Nat.mul_eq_zero.mp hc with h | h
      · rcases Nat.mul_eq_zero.mp h with h | h <;> omega
      · omega
    simp [openBin, nsOf, Hdr.nsOffline, Hdr.nc, memmap, h0, bind, Except.bind]
  · unfold RoundTrip at hrt
    simp [openBin, nsOf, Hdr.nsOffline, Hdr.nc, Hdr.fs, Hdr.setFileTimeSecs, framesOnDisk, memmap, hc,
      hpos, hfs, hrt, bind, Except.bind, pure, Except.pure]
example (A : Arith T) (hz : A.isZero (A.ofNat 30000) = false) :
    openBin A .offline (.flat 3 10 30000) 2 23 = .error .mmapTooLong := by
  simp [openBin, nsOf, Hdr.nsOffline, Hdr.nc, Hdr.fs, Hdr.setFileTimeSecs, memmap, hz, bind,
    Except.bind, pure, Except.pure]

/-- Recording in progress (the shipped fixture's situation: no `fileTimeSecs`, 10 frames and 400 trailing bytes):
the online reader opens it and exposes the 10 complete frames. -/
example : ∃ h', openBin (realArith binary64Rounding) .online (.ofMeta 385 30000 none) 2 8100 = .ok h' ∧
    nsOf (realArith binary64Rounding) .online h' 2 8100 = .ok 10 := by
  obtain ⟨h', h1, _, h3⟩ := online_open_std binary64Rounding 385 30000 none 2 8100 (by norm_num)
    (by norm_num) (by norm_num) (by norm_num) (by norm_num) (by norm_num) (by norm_num)
  exact ⟨h', h1, by simpa [framesOnDisk] using h3⟩

end IblVerif.C11
