/-
C11 — Truncated or inconsistent files open and expose exactly the complete sample frames.

Property theorems only.  Model: `Model/OpenSize.lean` (transcription of `Reader.open`, `Reader.ns`, `Reader.rl`,
`OnlineReader.ns`, the `np.memmap` size check).  Helper lemmas: `Lemmas/OpenSize.lean` (core Lean) and
`Analysis/OpenSizeRounding.lean` (ℝ, standard model of binary64 rounding).

Quantifier of the property: every file length (every number of complete frames and every number `0 … frame−1` of
trailing bytes), whatever the meta data claim (shorter, longer, equal), every positive sampling rate (integer or
fractional), offline and online reader.  The theorems below quantify over all `bytes`, `nc`, `itemsize`,
`fileTimeSecs`, `fs`; the only restrictions are the stated magnitude bounds (2⁵⁰ frames offline, 2⁴⁰ bytes online),
a non-empty file (an empty file cannot be mapped: `openBin … 0 = error emptyFile`, see the example), `nc, itemsize, fs > 0`,
and — the recorded finding, offline reader only — that the meta data carry `fileTimeSecs`: on the meta data of a recording
still in progress `Reader.ns` raises `TypeError` (`offline_incomplete_meta_counterexample`), while the online reader opens
them (`online_open_std` holds for an absent `fileTimeSecs`).
-/
import IblVerif.Analysis.OpenSizeRounding
import IblVerif.Analysis.OpenSizeBinary64
import IblVerif.Lemmas.OpenSizeLifecycle

namespace IblVerif.C11
open IblVerif.OpenSize

variable {T : Type}

/-- [core] **Opening succeeds and the exposed sample count is the floor** — offline reader, any float arithmetic
`A` that satisfies the round-trip law for the number of frames on disk (discharged by `seconds_roundtrip`).
Whatever `fileTimeSecs` the meta data announce (consistent, too short, too long), `open` returns normally, keeps
`nc` and `fs`, and afterwards `Reader.ns = bytes // (itemsize · nc)`. -/
theorem exposed_eq_floor (A : Arith T) (nc : Nat) (fs fts : T) (itemsize bytes : Nat)
    (hnc : 0 < nc) (hsz : 0 < itemsize) (hb : 0 < bytes) (hfs : A.isZero fs = false)
    (hrt : RoundTrip A fs (framesOnDisk bytes nc itemsize)) :
    ∃ h', openBin A .offline (.ofMeta nc fs (some fts)) itemsize bytes = .ok h' ∧ h'.nc = nc ∧ h'.fs A = fs ∧
      nsOf A .offline h' itemsize bytes = .ok (framesOnDisk bytes nc itemsize) := by
  obtain ⟨fts', ho, hns, _, _⟩ := openBin_offline_meta A nc fs fts itemsize bytes hnc hsz hb hfs hrt
  exact ⟨_, ho, rfl, rfl, by simp [nsOf, Hdr.nsOffline, hns]⟩

/-- [core] **The exposed frames are exactly the complete frames and nothing lies beyond the file**: with
`ns = bytes // (itemsize · nc)` the `(ns, nc)` map fits in the file, one more frame would not, and every element
`[i, j]` of the map occupies bytes that are physically present. -/
theorem within_file (bytes nc itemsize : Nat) (hnc : 0 < nc) (hsz : 0 < itemsize) :
    framesOnDisk bytes nc itemsize * nc * itemsize ≤ bytes ∧
    bytes < (framesOnDisk bytes nc itemsize + 1) * nc * itemsize ∧
    ∀ i j, i < framesOnDisk bytes nc itemsize → j < nc → (i * nc + j + 1) * itemsize ≤ bytes := by
  refine ⟨frames_mul_le bytes nc itemsize, lt_frames_succ_mul bytes nc itemsize hnc hsz, ?_⟩
  intro i j hi hj
  have h1 := flat_lt _ nc i j hi hj
  have h2 := frames_mul_le bytes nc itemsize
  exact le_trans (Nat.mul_le_mul_right itemsize h1) h2

/-- [core] **Values equal the file's prefix**: for a file whose complete samples are `file`, every element `[i, j]`
inside the exposed shape `(ns, nc)` is defined (no `IndexError`) and is the sample at row-major position `i·nc + j`;
the rows concatenated are the first `ns · nc` samples, each row has `nc` entries; indices outside the shape raise. -/
theorem values_prefix (file : List Int) (bytes nc itemsize : Nat) (hnc : 0 < nc) (hsz : 0 < itemsize)
    (hfile : file.length = bytes / itemsize) :
    let ns := framesOnDisk bytes nc itemsize
    (∀ i j, i < ns → j < nc → ∃ v, cell (file[·]?) ns nc i j = some v ∧ file[i * nc + j]? = some v) ∧
    (exposed file ns nc).flatten = file.take (ns * nc) ∧
    (∀ r ∈ exposed file ns nc, r.length = nc) ∧
    (∀ i j, ¬ (i < ns ∧ j < nc) → cell (file[·]?) ns nc i j = none) := by
  intro ns
  have hfit : ns * nc ≤ file.length := by
    rw [hfile, Nat.le_div_iff_mul_le hsz]
    exact frames_mul_le bytes nc itemsize
  refine ⟨?_, exposed_flatten file ns nc, ?_, ?_⟩
  · intro i j hi hj
    have hlt : i * nc + j < file.length := by
      have := flat_lt ns nc i j hi hj; omega
    exact ⟨file[i * nc + j], by simp [cell, hi, hj, hlt], by simp [hlt]⟩
  · intro r hr
    simp only [exposed, List.mem_map, List.mem_range] at hr
    obtain ⟨i, hi, rfl⟩ := hr
    have : (i + 1) * nc ≤ ns * nc := Nat.mul_le_mul_right nc hi
    rw [Nat.add_mul, Nat.one_mul] at this
    simp only [row, List.length_take, List.length_drop]
    omega
  · intro i j h
    simp [cell, h]

/-- [core] **`round(fl(fl(k / fs) · fs)) = k`** in the standard model of binary64 rounding (`|δ| ≤ 2⁻⁵³`, integers up to
2⁵³ exact, any nearest-integer function), for every `k < 2⁵⁰` and every rate `fs > 0`, integer or fractional. -/
theorem seconds_roundtrip (F : StdRounding) (k : ℕ) (hk : k < 2 ^ 50) (fs : ℝ) (hfs : 0 < fs) :
    (F.rnd (F.fl (F.fl (F.fl (k : ℝ) / fs) * fs))).toNat = k :=
  roundtrip_real F k hk fs hfs

/-- The same statement for the concrete round-to-nearest function onto 53-bit significands (`fl53`, binary64 with an
unbounded exponent) and Mathlib's `round`: the standard model is not an empty abstraction. -/
theorem seconds_roundtrip_binary64 (k : ℕ) (hk : k < 2 ^ 50) (fs : ℝ) (hfs : 0 < fs) :
    (round (fl53 (fl53 (fl53 (k : ℝ) / fs) * fs))).toNat = k :=
  seconds_roundtrip binary64Rounding k hk fs hfs

/-- [core] `exposed_eq_floor` with the round-trip law discharged: in the standard model the offline reader opens every
non-empty file of fewer than 2⁵⁰ frames and exposes exactly the complete frames, for every announced duration. -/
theorem offline_open_std (F : StdRounding) (nc : Nat) (fs fts : ℝ) (itemsize bytes : Nat)
    (hnc : 0 < nc) (hsz : 0 < itemsize) (hb : 0 < bytes) (hfs : 0 < fs)
    (hk : framesOnDisk bytes nc itemsize < 2 ^ 50) :
    ∃ h', openBin (realArith F) .offline (.ofMeta nc fs (some fts)) itemsize bytes = .ok h' ∧ h'.nc = nc ∧
      nsOf (realArith F) .offline h' itemsize bytes = .ok (framesOnDisk bytes nc itemsize) := by
  obtain ⟨h', h1, h2, _, h4⟩ := exposed_eq_floor (realArith F) nc fs fts itemsize bytes hnc hsz hb
    (by simp [realArith, hfs.ne']) (roundtrip_real F _ hk fs hfs)
  exact ⟨h', h1, h2, h4⟩

/-- [core] **Online reader**: `int(size / itemsize / nc)` (two float divisions, truncation) is the floor for every size
below 2⁴⁰ bytes (standard model). -/
theorem online_floor (F : StdRounding) (nc itemsize bytes : ℕ) (hnc : 0 < nc) (hsz : 0 < itemsize)
    (hb : bytes < 2 ^ 40) (hncb : nc < 2 ^ 40) (hszb : itemsize < 2 ^ 40) :
    onlineNs (realArith F) nc itemsize bytes = .ok (bytes / (itemsize * nc)) := by
  have h := online_floor_real F nc itemsize bytes hnc hsz hb hncb hszb
  unfold OnlineFloor at h
  unfold onlineNs
  rw [if_neg (by omega), h]
  rfl

/-- [core] The online reader opens every non-empty file below 2⁴⁰ bytes and exposes exactly the complete frames —
also when `fileTimeSecs` is absent from the meta data (`fts = none`: SpikeGLX still recording), which is the property's
"recording still in progress / online reader" case. -/
theorem online_open_std (F : StdRounding) (nc : Nat) (fs : ℝ) (fts : Option ℝ) (itemsize bytes : Nat)
    (hnc : 0 < nc) (hsz : 0 < itemsize) (hb : 0 < bytes) (hfs : 0 < fs)
    (hbb : bytes < 2 ^ 40) (hncb : nc < 2 ^ 40) (hszb : itemsize < 2 ^ 40) :
    ∃ h', openBin (realArith F) .online (.ofMeta nc fs fts) itemsize bytes = .ok h' ∧ h'.nc = nc ∧
      nsOf (realArith F) .online h' itemsize bytes = .ok (framesOnDisk bytes nc itemsize) := by
  obtain ⟨fts', h1, h2, _⟩ := openBin_online_meta (realArith F) nc fs fts itemsize bytes hnc hsz hb
    (by simp [realArith, hfs.ne']) (online_floor_real F nc itemsize bytes hnc hsz hbb hncb hszb)
  exact ⟨_, h1, rfl, h2⟩

/-- **Finding (known finding `incomplete-meta-keys`, offline reader only)**: meta data without `fileTimeSecs` make
`Reader.ns` raise `TypeError` (`None * fs`) before the file size is even looked at — for every arithmetic and size.
The full-strength statement "the offline reader opens every file" is therefore false without `fileTimeSecs`. -/
theorem offline_incomplete_meta_counterexample (A : Arith T) (nc : Nat) (fs : T)
    (itemsize bytes : Nat) :
    openBin A .offline (.ofMeta nc fs none) itemsize bytes = .error .typeError := by
  simp [openBin, nsOf, Hdr.nsOffline, bind, Except.bind]

/-- [core] **The duration matches the exposed sample count**: after `open`, `rl` is the float quotient of the exposed
count by the rate, and when the meta data had to be rewritten the stored `fileTimeSecs` is that same number. -/
theorem duration_matches (A : Arith T) (nc : Nat) (fs fts : T) (itemsize bytes : Nat)
    (hnc : 0 < nc) (hsz : 0 < itemsize) (hb : 0 < bytes) (hfs : A.isZero fs = false)
    (hrt : RoundTrip A fs (framesOnDisk bytes nc itemsize)) :
    ∃ h', openBin A .offline (.ofMeta nc fs (some fts)) itemsize bytes = .ok h' ∧
      rl A .offline h' itemsize bytes = .ok (A.div (A.ofNat (framesOnDisk bytes nc itemsize)) fs) ∧
      (nc * A.rint (A.mul fts fs) * itemsize ≠ bytes →
        h'.fileTimeSecs? = some (A.div (A.ofNat (framesOnDisk bytes nc itemsize)) fs)) := by
  obtain ⟨fts', ho, hns, _, hrw⟩ := openBin_offline_meta A nc fs fts itemsize bytes hnc hsz hb hfs hrt
  refine ⟨_, ho, ?_, ?_⟩
  · simp [rl, nsOf, Hdr.nsOffline, Hdr.fs, hns, hfs, bind, Except.bind]
  · intro hne
    simp [Hdr.fileTimeSecs?, hrw hne]

/-- In the standard model the reported duration is the exact `ns / fs` up to one rounding (relative 2⁻⁵³). -/
theorem duration_close_std (F : StdRounding) (ns : ℕ) (hns : ns < 2 ^ 50) (fs : ℝ) (_hfs : 0 < fs) :
    |(realArith F).div ((realArith F).ofNat ns) fs - (ns : ℝ) / fs| ≤ u * |(ns : ℝ) / fs| := by
  simp only [realArith]
  rw [fl_nat F ns (by omega)]
  exact F.fl_rel _

/-- [core] **Compressed stream shorter or longer than announced**: the `.cbin` reader exposes the number of samples the
chunk file holds (`mtscomp.Reader.shape[0]`), whatever the `.meta` claims and **whatever sampling rate the `.ch` header
carries** (`chfs`: streams are compressed at the nominal rate, the meta rate is calibrated later). -/
theorem cbin_exposed (A : Arith T) (nc : Nat) (fs fts : T) (n : Nat) (chfs : T)
    (hfs : A.isZero fs = false) (hrt : RoundTrip A fs n) :
    ∃ h', openCbin A (.ofMeta nc fs (some fts)) ⟨n, nc, chfs⟩ = .ok h' ∧ h'.nc = nc ∧ h'.nsOffline A = .ok n := by
  obtain ⟨fts', ho, hns, _⟩ := openCbin_meta A nc fs fts n nc chfs hfs hrt
  exact ⟨_, ho, rfl, by simp [Hdr.nsOffline, hns rfl]⟩

/-- The outcome of opening a `.cbin` (sample count, duration, errors) does not depend on the `.ch` sampling rate at all. -/
theorem cbin_independent_of_ch_rate (A : Arith T) (h : Hdr T) (n cnc : Nat) (r₁ r₂ : T) :
    openCbin A h ⟨n, cnc, r₁⟩ = openCbin A h ⟨n, cnc, r₂⟩ := rfl

/-- `cbin_exposed` in the standard model: every stream of fewer than 2⁵⁰ samples, every positive meta rate. -/
theorem cbin_exposed_std (F : StdRounding) (nc : Nat) (fs fts : ℝ) (n : Nat) (chfs : ℝ)
    (hfs : 0 < fs) (hn : n < 2 ^ 50) :
    ∃ h', openCbin (realArith F) (.ofMeta nc fs (some fts)) ⟨n, nc, chfs⟩ = .ok h' ∧ h'.nc = nc ∧
      h'.nsOffline (realArith F) = .ok n :=
  cbin_exposed (realArith F) nc fs fts n chfs (by simp [realArith, hfs.ne']) (roundtrip_real F n hn fs hfs)

/-- Why the duration must be rewritten with the META rate: the variant `ftsec = n_samples / sample_rate(.ch)` exposes
12 samples for a one-sample stream compressed at 2500 Hz under 30000 Hz meta data announcing any other length —
under every rounding function — while the code as it stands exposes the one sample. -/
theorem cbin_ch_rate_counterexample (F : StdRounding) (fts : ℝ)
    (hne : (F.rnd (F.fl (fts * 30000))).toNat ≠ 1) :
    (∃ h', openCbinChRate (realArith F) (.ofMeta 1 30000 (some fts)) ⟨1, 1, 2500⟩ = .ok h' ∧
      h'.nsOffline (realArith F) = .ok 12) ∧
    (∃ h', openCbin (realArith F) (.ofMeta 1 30000 (some fts)) ⟨1, 1, 2500⟩ = .ok h' ∧
      h'.nsOffline (realArith F) = .ok 1) := by
  refine ⟨chRate_variant_wrong F fts hne, ?_⟩
  obtain ⟨h', h1, _, h3⟩ := cbin_exposed_std F 1 30000 fts 1 2500 (by norm_num) (by norm_num)
  exact ⟨h', h1, h3⟩

/-- Non-vacuity of the counterexample's hypothesis: meta data announcing 2 samples (exact arithmetic). -/
example : ((exactRounding).rnd ((exactRounding).fl ((2 / 30000 : ℝ) * 30000))).toNat ≠ 1 := by
  simp [exactRounding]

/-- [core] **Why the formula before the `fix:` commit failed** (`ftsec = size / itemsize / nc / fs`, then
`round(ftsec · fs)`): a 7-byte file with 4-byte frames (one frame + ¾ frame of trailing bytes) gives `ns = 2` under
every rounding function of the standard model, and `np.memmap` refuses the 8-byte map; the current code exposes the
one complete frame. -/
theorem round_counterexample (F : StdRounding) (fs fts : ℝ) (hfs : 0 < fs) :
    openBinOld (realArith F) (.ofMeta 2 fs (some fts)) 2 7 = .error .mmapTooLong ∧
    framesOnDisk 7 2 2 = 1 ∧
    ∃ h', openBin (realArith F) .offline (.ofMeta 2 fs (some fts)) 2 7 = .ok h' ∧
      nsOf (realArith F) .offline h' 2 7 = .ok 1 := by
  refine ⟨old_formula_fails F fs fts hfs, by decide, ?_⟩
  obtain ⟨h', h1, _, h3⟩ := offline_open_std F 2 fs fts 2 7 (by norm_num) (by norm_num) (by norm_num) hfs
    (by decide)
  exact ⟨h', h1, by simpa [framesOnDisk] using h3⟩

/-! ### Non-vacuity and error branches -/

/-- The hypotheses of `StdRounding` are satisfiable (exact arithmetic), so the `…_std` theorems are not vacuous. -/
example : ∃ h', openBin (realArith exactRounding) .offline (.ofMeta 385 30000 (some 1)) 2 (770 * 5 + 769)
      = .ok h' ∧ nsOf (realArith exactRounding) .offline h' 2 (770 * 5 + 769) = .ok 5 := by
  obtain ⟨h', h1, _, h3⟩ := offline_open_std exactRounding 385 30000 1 2 (770 * 5 + 769)
    (by norm_num) (by norm_num) (by norm_num) (by norm_num) (by decide)
  exact ⟨h', h1, by simpa [framesOnDisk] using h3⟩

/-- The same with genuine 53-bit rounding and a fractional rate. -/
example : ∃ h', openBin (realArith binary64Rounding) .offline (.ofMeta 385 30000.123456 (some 7)) 2
      (770 * 5 + 769) = .ok h' ∧ nsOf (realArith binary64Rounding) .offline h' 2 (770 * 5 + 769) = .ok 5 := by
  obtain ⟨h', h1, _, h3⟩ := offline_open_std binary64Rounding 385 30000.123456 7 2 (770 * 5 + 769)
    (by norm_num) (by norm_num) (by norm_num) (by norm_num) (by decide)
  exact ⟨h', h1, by simpa [framesOnDisk] using h3⟩

/-- Floor arithmetic on a truncated 385-channel file: 5 complete frames and 769 trailing bytes. -/
example : framesOnDisk (770 * 5 + 769) 385 2 = 5 := by decide

/-- Rows of a 7-sample file viewed as `(2, 3)`: the trailing sample is not exposed. -/
example : exposed [1, 2, 3, 4, 5, 6, 7] 2 3 = [[1, 2, 3], [4, 5, 6]] := by decide

/-- Error branches of the model: an empty file cannot be mapped (`ValueError: cannot mmap an empty file`), whatever
the meta data say; a flat reader (no meta data) told too many samples is refused by `np.memmap`. -/
example (A : Arith T) (nc : Nat) (fs fts : T) (itemsize : Nat) (hnc : 0 < nc) (hsz : 0 < itemsize)
    (hfs : A.isZero fs = false) (hrt : RoundTrip A fs 0) :
    openBin A .offline (.ofMeta nc fs (some fts)) itemsize 0 = .error .emptyFile := by
  have hpos : itemsize * nc ≠ 0 := Nat.pos_iff_ne_zero.mp (Nat.mul_pos hsz hnc)
  by_cases hc : nc * A.rint (A.mul fts fs) * itemsize = 0
  · have h0 : A.rint (A.mul fts fs) = 0 := by
      rcases Nat.mul_eq_zero.mp hc with h | h
      · rcases Nat.mul_eq_zero.mp h with h | h <;> omega
      · omega
    simp [openBin, nsOf, Hdr.nsOffline, Hdr.nc, memmap, h0, bind, Except.bind]
  · unfold RoundTrip at hrt
    simp [openBin, nsOf, Hdr.nsOffline, Hdr.nc, Hdr.fs, Hdr.setFileTimeSecs, framesOnDisk, memmap, hc,
      hpos, hfs, hrt, bind, Except.bind, pure, Except.pure]
example (A : Arith T) (hz : A.isZero (A.ofNat 30000) = false) :
    openBin A .offline (.flat 3 10 30000) 2 23 = .error .mmapTooLong := by
  simp [openBin, nsOf, Hdr.nsOffline, Hdr.nc, Hdr.fs, Hdr.setFileTimeSecs, memmap, hz, bind,
    Except.bind, pure, Except.pure]

/-- Recording in progress (the shipped fixture's situation: no `fileTimeSecs`, 10 frames and 400 trailing bytes):
the online reader opens it and exposes the 10 complete frames. -/
example : ∃ h', openBin (realArith binary64Rounding) .online (.ofMeta 385 30000 none) 2 8100 = .ok h' ∧
    nsOf (realArith binary64Rounding) .online h' 2 8100 = .ok 10 := by
  obtain ⟨h', h1, _, h3⟩ := online_open_std binary64Rounding 385 30000 none 2 8100 (by norm_num)
    (by norm_num) (by norm_num) (by norm_num) (by norm_num) (by norm_num) (by norm_num)
  exact ⟨h', h1, by simpa [framesOnDisk] using h3⟩

/-! ### Round h: steps of `open`, re-opening, growing files, the constructor without meta data
(model `Model/OpenSizeLifecycle.lean`; the step lists are tied to the source text by `Tie/C11.lean`) -/

/-- [core] **When `open` rewrites the duration, warns, maps** — for every channel count, sample count, item size and
`self.nbytes`: `fileTimeSecs` is rewritten exactly when the size test fires on a reader that has meta data, whatever
`ignore_warnings` says; `ignore_warnings` removes the warning and nothing else; the warning of the uncompressed branch never
subscripts the meta data (whose `fileSizeBytes` / `fileTimeSecs` may be absent); the memory map is the last step. -/
theorem open_steps_spec (hasMeta iw : Bool) (nc ns itemsize nbytes : Nat) :
    (Step.setFileTimeSecs ∈ openBinSteps hasMeta iw nc ns itemsize nbytes ↔
      (nc * ns * itemsize ≠ nbytes ∧ hasMeta = true)) ∧
    (openBinSteps hasMeta iw nc ns itemsize nbytes).filter (fun s => decide (s ≠ Step.warn false))
      = openBinSteps hasMeta true nc ns itemsize nbytes ∧
    Step.warn true ∉ openBinSteps hasMeta iw nc ns itemsize nbytes ∧
    (openBinSteps hasMeta iw nc ns itemsize nbytes).getLast? = some (Step.memmap nc) := by
  refine ⟨mem_openBinSteps_set hasMeta iw nc ns itemsize nbytes, ?_, ?_, ?_⟩
  · unfold openBinSteps
    by_cases h : nc * ns * itemsize ≠ nbytes ∧ hasMeta = true <;> cases iw <;> simp [h]
  · unfold openBinSteps
    by_cases h : nc * ns * itemsize ≠ nbytes ∧ hasMeta = true <;> cases iw <;> simp [h]
  · unfold openBinSteps
    simp

/-- [core] **The step model and the value model agree**: when `openBin` returns, the step list exists; without the rewrite
step the header is returned unchanged, with it the stored duration is the complete frames on disk over the rate — for both
readers, every arithmetic, every header with meta data, warnings ignored or not. -/
theorem steps_agree_with_open (A : Arith T) (k : Kind) (nc : Nat) (fs : T) (fts : Option T) (iw : Bool)
    (itemsize bytes : Nat) (h' : Hdr T)
    (ho : openBin A k (.ofMeta nc fs fts) itemsize bytes = .ok h') :
    ∃ l, stepsOf A k (.ofMeta nc fs fts) iw itemsize bytes bytes = some l ∧
      (Step.setFileTimeSecs ∉ l → h' = .ofMeta nc fs fts) ∧
      (Step.setFileTimeSecs ∈ l →
        h'.fileTimeSecs? = some (A.div (A.ofNat (framesOnDisk bytes nc itemsize)) fs)) := by
  unfold openBin at ho
  cases hns : nsOf A k (.ofMeta nc fs fts) itemsize bytes with
  | error e => simp [hns, bind, Except.bind] at ho
  | ok ns =>
    refine ⟨openBinSteps true iw nc ns itemsize bytes, by simp [stepsOf, hns, Hdr.nc], ?_, ?_⟩
    · intro hno
      have hc : nc * ns * itemsize = bytes := by
        have := (mem_openBinSteps_set true iw nc ns itemsize bytes).not.mp hno
        simpa using this
      simp only [hns, bind, Except.bind, Hdr.nc, hc, ne_eq, not_true_eq_false, if_false] at ho
      cases hm : memmap bytes ns nc itemsize with
      | error e => simp [hm, pure, Except.pure] at ho
      | ok u => simp [hm, pure, Except.pure] at ho; exact ho.symm
    · intro hyes
      have hc : nc * ns * itemsize ≠ bytes :=
        ((mem_openBinSteps_set true iw nc ns itemsize bytes).mp hyes).1
      simp only [hns, bind, Except.bind, Hdr.nc, Hdr.fs, ne_eq, hc, not_false_eq_true, if_true] at ho
      by_cases hz : itemsize * nc = 0
      · simp [hz] at ho
      · by_cases hf : A.isZero fs = true
        · simp [hz, hf] at ho
        · simp only [hz, hf, if_false, Hdr.setFileTimeSecs] at ho
          cases hn2 : nsOf A k (.ofMeta nc fs (some (A.div (A.ofNat (framesOnDisk bytes nc itemsize)) fs)))
              itemsize bytes with
          | error e => simp [hn2] at ho
          | ok ns2 =>
            simp only [hn2] at ho
            cases hm : memmap bytes ns2 nc itemsize with
            | error e => simp [hm, Hdr.nc, pure, Except.pure] at ho
            | ok u =>
              simp [hm, Hdr.nc, pure, Except.pure] at ho
              rw [← ho]; rfl

/-- [core] **Re-opening after `close` exposes the same frames** (offline reader): the second `open` of the same object on
the unchanged file returns the header of the first and the sample count is still the complete frames on disk. -/
theorem reopen_same_offline (A : Arith T) (nc : Nat) (fs fts : T) (itemsize bytes : Nat)
    (hnc : 0 < nc) (hsz : 0 < itemsize) (hb : 0 < bytes) (hfs : A.isZero fs = false)
    (hrt : RoundTrip A fs (framesOnDisk bytes nc itemsize)) :
    ∃ h', openBin A .offline (.ofMeta nc fs (some fts)) itemsize bytes = .ok h' ∧
      reopen A .offline (.ofMeta nc fs (some fts)) itemsize bytes bytes = .ok h' ∧
      nsOf A .offline h' itemsize bytes = .ok (framesOnDisk bytes nc itemsize) := by
  obtain ⟨fts', h1, h2, hns⟩ := openBin_offline_idem A nc fs fts itemsize bytes hnc hsz hb hfs hrt
  refine ⟨_, h1, ?_, by simp [nsOf, Hdr.nsOffline, hns]⟩
  simp [reopen, h1, openBinAt_self, h2, bind, Except.bind]

/-- `reopen_same_offline` in the standard model of rounding. -/
theorem reopen_same_offline_std (F : StdRounding) (nc : Nat) (fs fts : ℝ) (itemsize bytes : Nat)
    (hnc : 0 < nc) (hsz : 0 < itemsize) (hb : 0 < bytes) (hfs : 0 < fs)
    (hk : framesOnDisk bytes nc itemsize < 2 ^ 50) :
    ∃ h', openBin (realArith F) .offline (.ofMeta nc fs (some fts)) itemsize bytes = .ok h' ∧
      reopen (realArith F) .offline (.ofMeta nc fs (some fts)) itemsize bytes bytes = .ok h' ∧
      nsOf (realArith F) .offline h' itemsize bytes = .ok (framesOnDisk bytes nc itemsize) :=
  reopen_same_offline (realArith F) nc fs fts itemsize bytes hnc hsz hb (by simp [realArith, hfs.ne'])
    (roundtrip_real F _ hk fs hfs)

/-- [core] **A file that grows between two opens of an `OnlineReader`** (recording in progress): the re-opened object
exposes exactly the complete frames of the file as it is now — at least as many as before, `m` more for `m` more complete
frames — whatever `self.nbytes` it remembers from its construction. -/
theorem online_reopen_grown (A : Arith T) (nc : Nat) (fs : T) (fts : Option T) (itemsize b0 b1 : Nat)
    (hnc : 0 < nc) (hsz : 0 < itemsize) (hb0 : 0 < b0) (hle : b0 ≤ b1) (hfs : A.isZero fs = false)
    (hon0 : OnlineFloor A nc itemsize b0) (hon1 : OnlineFloor A nc itemsize b1) :
    ∃ h', reopen A .online (.ofMeta nc fs fts) itemsize b0 b1 = .ok h' ∧ h'.nc = nc ∧
      nsOf A .online h' itemsize b1 = .ok (framesOnDisk b1 nc itemsize) ∧
      framesOnDisk b0 nc itemsize ≤ framesOnDisk b1 nc itemsize ∧
      ∀ m, b1 = b0 + m * (itemsize * nc) → framesOnDisk b1 nc itemsize = framesOnDisk b0 nc itemsize + m := by
  obtain ⟨f0, h0, _, _⟩ := openBin_online_meta A nc fs fts itemsize b0 hnc hsz hb0 hfs hon0
  obtain ⟨f1, h1, hns1, _⟩ := openBinAt_online_meta A nc fs f0 itemsize b0 b1 hnc hsz (by omega) hfs hon1
  refine ⟨_, by simp [reopen, h0, h1, bind, Except.bind], rfl, hns1, frames_mono b0 b1 nc itemsize hle, ?_⟩
  intro m hm
  rw [hm]; exact frames_add_mul b0 m nc itemsize hnc hsz

/-- `online_reopen_grown` in the standard model: every file below 2⁴⁰ bytes. -/
theorem online_reopen_grown_std (F : StdRounding) (nc : Nat) (fs : ℝ) (fts : Option ℝ) (itemsize b0 b1 : Nat)
    (hnc : 0 < nc) (hsz : 0 < itemsize) (hb0 : 0 < b0) (hle : b0 ≤ b1) (hfs : 0 < fs)
    (hb1 : b1 < 2 ^ 40) (hncb : nc < 2 ^ 40) (hszb : itemsize < 2 ^ 40) :
    ∃ h', reopen (realArith F) .online (.ofMeta nc fs fts) itemsize b0 b1 = .ok h' ∧ h'.nc = nc ∧
      nsOf (realArith F) .online h' itemsize b1 = .ok (framesOnDisk b1 nc itemsize) ∧
      framesOnDisk b0 nc itemsize ≤ framesOnDisk b1 nc itemsize := by
  obtain ⟨h', h1, h2, h3, h4, _⟩ := online_reopen_grown (realArith F) nc fs fts itemsize b0 b1 hnc hsz hb0 hle
    (by simp [realArith, hfs.ne'])
    (online_floor_real F nc itemsize b0 hnc hsz (by omega) hncb hszb)
    (online_floor_real F nc itemsize b1 hnc hsz hb1 hncb hszb)
  exact ⟨h', h1, h2, h3, h4⟩

/-- [core] **Appending never changes what was already exposed**: the frames that were complete before the file grew keep
their values (the view of the longer file restricted to the old row count is the old view). -/
theorem grown_prefix_stable (file extra : List Int) (bytes nc itemsize : Nat) (hsz : 0 < itemsize)
    (hfile : file.length = bytes / itemsize) :
    exposed (file ++ extra) (framesOnDisk bytes nc itemsize) nc = exposed file (framesOnDisk bytes nc itemsize) nc := by
  apply exposed_append
  rw [hfile, Nat.le_div_iff_mul_le hsz]
  exact frames_mul_le bytes nc itemsize

/-- **Finding (candidate known finding `offline-reopen-stale-size`, offline reader only)**: `self.nbytes` is read once in
`__init__`.  An offline `Reader` object that agreed with its file when constructed and is re-opened after the file has grown
keeps its header: it still exposes the OLD number of frames, for every growth — the full-strength "every open exposes the
frames physically present" is false for a re-opened offline object (a NEW `Reader`, and the `OnlineReader`, are right). -/
theorem offline_reopen_stale_counterexample (A : Arith T) (nc : Nat) (fs fts : T) (itemsize b0 b1 : Nat)
    (hc : nc * A.rint (A.mul fts fs) * itemsize = b0) (hb0 : 0 < b0) (hle : b0 ≤ b1) :
    ∃ h', reopen A .offline (.ofMeta nc fs (some fts)) itemsize b0 b1 = .ok h' ∧
      nsOf A .offline h' itemsize b1 = .ok (A.rint (A.mul fts fs)) :=
  ⟨_, reopen_offline_stale A nc fs fts itemsize b0 b1 hc hb0 hle, by simp [nsOf, Hdr.nsOffline]⟩

/-- Non-vacuity, exact arithmetic: 4 frames of 3 int16 channels announced and present (24 bytes); the file grows to 6
frames (36 bytes); the re-opened offline object still says 4, the file holds 6. -/
example : (∃ h', reopen (realArith exactRounding) .offline (.ofMeta 3 30000 (some (4 / 30000))) 2 24 36 = .ok h' ∧
    nsOf (realArith exactRounding) .offline h' 2 36 = .ok 4) ∧ framesOnDisk 36 3 2 = 6 := by
  have h4 : (realArith exactRounding).rint ((realArith exactRounding).mul (4 / 30000) 30000) = 4 := by
    simp [realArith, exactRounding]
  refine ⟨?_, by decide⟩
  have := offline_reopen_stale_counterexample (realArith exactRounding) 3 30000 (4 / 30000) 2 24 36
    (by rw [h4]) (by norm_num) (by norm_num)
  rw [h4] at this
  exact this

/-- [core] **Constructor without meta data, size a multiple of 768 bytes**: 384 channels, no sync channel, `size/768`
samples at 30 kHz are inferred; they reproduce the file size exactly, `open` maps the whole file without touching anything
and the sample count is the complete frames on disk. -/
theorem nometa_768 (A : Arith T) (size : Nat) (h : size % 768 = 0) (hpos : 0 < size) :
    inferFlat size ⟨none, none, none, none⟩ = .ok ⟨384, size / 768, 30000, 0⟩ ∧
    384 * (size / 768) * 2 = size ∧
    framesOnDisk size 384 2 = size / 768 ∧
    openBin A .offline (FlatHdr.toHdr ⟨384, size / 768, 30000, 0⟩) 2 size = .ok (.flat 384 (size / 768) 30000) := by
  have hsz : 384 * (size / 768) * 2 = size := by omega
  refine ⟨inferFlat_768 size h hpos, hsz, by unfold framesOnDisk; omega, ?_⟩
  have hm : memmap size (size / 768) 384 2 = .ok () := memmap_ok _ _ _ _ hpos (by omega)
  simp [openBin, FlatHdr.toHdr, nsOf, Hdr.nsOffline, Hdr.nc, hsz, hm, bind, Except.bind, pure, Except.pure]

/-- [core] **… a multiple of 770 bytes but not of 768**: 385 channels, one sync channel, `size/770` samples. -/
theorem nometa_770 (A : Arith T) (size : Nat) (h8 : size % 768 ≠ 0) (h : size % 770 = 0) :
    inferFlat size ⟨none, none, none, none⟩ = .ok ⟨385, size / 770, 30000, 1⟩ ∧
    385 * (size / 770) * 2 = size ∧
    framesOnDisk size 385 2 = size / 770 ∧
    openBin A .offline (FlatHdr.toHdr ⟨385, size / 770, 30000, 1⟩) 2 size = .ok (.flat 385 (size / 770) 30000) := by
  have hsz : 385 * (size / 770) * 2 = size := by omega
  have hpos : 0 < size := by omega
  refine ⟨inferFlat_770 size h8 h, hsz, by unfold framesOnDisk; omega, ?_⟩
  have hm : memmap size (size / 770) 385 2 = .ok () := memmap_ok _ _ _ _ hpos (by omega)
  simp [openBin, FlatHdr.toHdr, nsOf, Hdr.nsOffline, Hdr.nc, hsz, hm, bind, Except.bind, pure, Except.pure]

/-- **A multiple of both** (every multiple of 295 680 = 770·384 = 768·385 bytes, e.g. a 385-channel recording of 384·m
samples): the 384 branch is tested first and wins — the file is read as 384 channels × 385·m samples without a sync channel.
The exposed frames still cover the file exactly; the channel count is not recoverable from the size alone. -/
theorem nometa_both_384_wins (size : Nat) (hpos : 0 < size) :
    (size % 768 = 0 ∧ size % 770 = 0 ↔ size % 295680 = 0) ∧
    (size % 295680 = 0 → inferFlat size ⟨none, none, none, none⟩ = .ok ⟨384, size / 768, 30000, 0⟩) := by
  refine ⟨by omega, fun h => inferFlat_768 size (by omega) hpos⟩

/-- Neither: the constructor refuses (`AssertionError`: channel count and rate have to be given). -/
theorem nometa_neither (size : Nat) (h8 : size % 768 ≠ 0) (h : size % 770 ≠ 0) :
    inferFlat size ⟨none, none, none, none⟩ = .error .assertion :=
  inferFlat_neither size h8 h

/-- Non-vacuity: 5 frames of 384 channels; 5 frames of 385 channels; 384 frames of 385 channels read as 385 × 384; 7 bytes. -/
example : inferFlat 3840 ⟨none, none, none, none⟩ = .ok ⟨384, 5, 30000, 0⟩ ∧
    inferFlat 3850 ⟨none, none, none, none⟩ = .ok ⟨385, 5, 30000, 1⟩ ∧
    inferFlat (384 * 385 * 2) ⟨none, none, none, none⟩ = .ok ⟨384, 385, 30000, 0⟩ ∧
    inferFlat 7 ⟨none, none, none, none⟩ = .error .assertion := by decide

/-- Non-vacuity of the growth theorem (53-bit rounding): 10 frames + 400 bytes of a 385-channel file grow by 1200 bytes. -/
example : ∃ h', reopen (realArith binary64Rounding) .online (.ofMeta 385 30000 none) 2 8100 9300 = .ok h' ∧
    nsOf (realArith binary64Rounding) .online h' 2 9300 = .ok 12 := by
  obtain ⟨h', h1, _, h3, _⟩ := online_reopen_grown_std binary64Rounding 385 30000 none 2 8100 9300 (by norm_num)
    (by norm_num) (by norm_num) (by norm_num) (by norm_num) (by norm_num) (by norm_num) (by norm_num)
  exact ⟨h', h1, by simpa [framesOnDisk] using h3⟩

/-- Steps of a truncated file with meta data, warnings on / ignored; of a consistent one; of a flat reader. -/
example : openBinSteps true false 385 5 2 (770 * 5 + 769) = [.warn false, .setFileTimeSecs, .memmap 385] ∧
    openBinSteps true true 385 5 2 (770 * 5 + 769) = [.setFileTimeSecs, .memmap 385] ∧
    openBinSteps true false 385 5 2 (770 * 5) = [.memmap 385] ∧
    openBinSteps false false 385 5 2 (770 * 5 + 769) = [.memmap 385] := by decide

end IblVerif.C11
