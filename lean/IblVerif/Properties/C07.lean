/-
C07 — Fourier time shift is an exact, composable delay (`ibldsp.fourier.fshift`, `ibldsp.utils.parabolic_max`).

Property theorems only.  They are about the model of `Model/FShift.lean` instantiated at `ℝ` (`realTrig`), i.e. the very
definitions the driver runs at `Float`.  Every statement is for ALL traces `x : Array ℝ` of every length ≥ 2 (odd, even,
prime, …), all real shifts, both axes.  Helper lemmas: `Lemmas/FShift.lean` (arrays), `Analysis/FShiftDFT.lean` (DFT),
`Analysis/FShift.lean` (the rfft/irfft pipeline = two-sided form `𝓕⁻(μ_s·𝓕x)`), `Analysis/FShiftArray.lean`,
`Analysis/FShiftPeak.lean`; round h: `Model/FShiftND.lean` (arrays of any dimension), `Lemmas/FShiftPlan.lean` (stage list,
frequency-domain entry point, vectorised `parabolic_max`, N-d layout; generic in the scalar type), `Analysis/FShiftPeak2.lean`,
`Analysis/FShiftCorrmax.lean` (autocorrelation peak, exact whole-sample delay estimate).  The integer / stage-order skeleton
the model shares with the source (`planReal`, `planFreq`, `impulseLen`, `shiftExtentAlongAxis`, `pmaxPlan`, `corrmaxShift`,
`shiftWaveformPlan`) is proved equal to the translation of the current source text in `Tie/C07.lean`.

Not provable (numeric, checked by the oracle each run → the property is "partial" on this clause): the accuracy of the
delay estimate `wave_shift_corrmax` for FRACTIONAL delays ("within a few hundredths of a sample") — it depends on how well a
parabola fits the peak of the sampled correlation.  For whole-sample delays it is exact: `corrmax_integer_delay`.
-/
import IblVerif.Analysis.FShiftArray
import IblVerif.Analysis.FShiftPeak
import IblVerif.Analysis.FShiftPeak2
import IblVerif.Analysis.FShiftCorrmax

open scoped Real

namespace IblVerif.C07
open IblVerif.FShift

/-! ### Domain: the error branches of the code -/

/-- A trace shorter than two samples is rejected (`np.put(dephas, 1, 1)` raises), whatever the shift. -/
theorem fshift_short_rejected (x : Array ℝ) (s : Shift ℝ) (axis : Int) (hn : x.size < 2) :
    fshift1 realTrig x s axis = .error .indexError := by
  unfold fshift1; split <;> simp_all

/-- An axis the 1-D array does not have is rejected. -/
theorem fshift_bad_axis_rejected (x : Array ℝ) (s : Shift ℝ) (axis : Int) (hax : ¬ (axis = 0 ∨ axis = -1)) :
    fshift1 realTrig x s axis = .error .indexError := by
  unfold fshift1; simp [hax]

/-- A per-trace shift vector whose size is not the number of traces is rejected (`s.reshape(s_shape)`). -/
theorem fshift_pertrace_size_rejected (w : Array (Array ℝ)) (ncol : Nat) (a : Array ℝ) (hn : 2 ≤ ncol)
    (hsz : a.size ≠ w.size) : fshift2 realTrig w ncol (.perTrace a) 1 = .error .valueError := by
  have h3 : ¬ (ncol < 2) := by omega
  simp [fshift2, h3, hsz]

/-! ### Integer shift = circular roll; zero shift = identity; shape -/

/-- **Shifting by an integer number of samples equals a circular roll** (`np.roll(x, m)`), for every length ≥ 2 and
every integer `m`, including `|m| ≥ n`; along the only axis of a 1-D array, named `0` or `-1`. -/
theorem fshift_int_eq_roll (x : Array ℝ) (hn : 2 ≤ x.size) (m : ℤ) (axis : Int) (hax : axis = 0 ∨ axis = -1) :
    fshift1 realTrig x (.scalar (m : ℝ)) axis = .ok (roll x m) := by
  have h3 : ¬ (x.size < 2) := by omega
  simp only [fshift1, hax, not_true_eq_false, if_false, h3]
  rw [fshiftCore_int x hn]

/-- **Shifting by zero is the identity.** -/
theorem fshift_zero (x : Array ℝ) (hn : 2 ≤ x.size) (axis : Int) (hax : axis = 0 ∨ axis = -1) :
    fshift1 realTrig x (.scalar 0) axis = .ok x := by
  have h := fshift_int_eq_roll x hn 0 axis hax
  have hr : roll x 0 = x := by
    apply Array.ext
    · simp
    · intro t h1 h2
      have hidx : (((t : ℤ) - 0) % (x.size : ℤ)).toNat = t := by
        rw [sub_zero, Int.emod_eq_of_lt (by omega) (by exact_mod_cast h2)]
        omega
      rw [roll_getElem, hidx, at0_eq_getElem x t h2]
  rw [hr] at h
  simpa using h

/-- **Shape is preserved**: the output trace has the length of the input trace (all lengths, all shifts). -/
theorem fshift_shape (x : Array ℝ) (s : ℝ) : (fshiftCore realTrig x s).size = x.size :=
  fshiftCore_size realTrig x s

/-! ### Successive shifts add up — exactly where that is true -/

/-- **Composition with its exact defect.**  For every trace, all real `a`, `b` and every sample `t`:
two successive shifts equal the single shift by `a + b` plus, for even length only,
`X_{n/2} · sin(πa) · sin(πb) · (-1)^t / n`, where `X_{n/2} = Σ_j (-1)^j x_j` is the Nyquist coefficient. -/
theorem fshift_add_defect (x : Array ℝ) (hn : 2 ≤ x.size) (a b : ℝ) (t : ℕ) (ht : t < x.size) :
    at0 (fshiftCore realTrig (fshiftCore realTrig x a) b) t = at0 (fshiftCore realTrig x (a + b)) t
      + (if x.size % 2 = 0 then nyquist x * (Real.sin (π * a) * Real.sin (π * b)) * (-1 : ℝ) ^ t / x.size else 0) :=
  fshiftCore_comp_getElem x hn a b t ht

/-- **Successive shifts add up** whenever the length is odd, or one of the two shifts is a whole number of samples, or
the trace has no energy at the Nyquist frequency.  (The complement — even length ∧ both shifts fractional ∧ Nyquist
coefficient ≠ 0 — is finding F13, see `fshift_add_counterexample`; full-strength statement without the hypothesis `h` is
false.) -/
theorem fshift_add (x : Array ℝ) (hn : 2 ≤ x.size) (a b : ℝ)
    (h : x.size % 2 = 1 ∨ (∃ m : ℤ, a = m) ∨ (∃ m : ℤ, b = m) ∨ nyquist x = 0) :
    fshiftCore realTrig (fshiftCore realTrig x a) b = fshiftCore realTrig x (a + b) := by
  apply Array.ext
  · simp
  · intro t h1 h2
    have ht : t < x.size := by simpa using h2
    have hd := fshift_add_defect x hn a b t ht
    rw [at0_eq_getElem _ _ h1, at0_eq_getElem _ _ h2] at hd
    rw [hd]
    rcases h with h | ⟨m, rfl⟩ | ⟨m, rfl⟩ | h
    · rw [if_neg (by omega), add_zero]
    · rw [mul_comm π (m : ℝ), Real.sin_int_mul_pi]; simp
    · rw [mul_comm π (m : ℝ), Real.sin_int_mul_pi]; simp
    · rw [h]; simp

/-- **Counterexample (finding F13)**: on the two-sample trace `[1, 0]`, shifting twice by half a sample gives
`[1/2, 1/2]` at sample 0 where the single shift by one sample gives `0`: the two differ by exactly `1/2`. -/
theorem fshift_add_counterexample :
    at0 (fshiftCore realTrig (fshiftCore realTrig #[1, 0] (1 / 2)) (1 / 2)) 0
      = at0 (fshiftCore realTrig #[1, 0] (1 / 2 + 1 / 2)) 0 + 1 / 2 := by
  have h := fshift_add_defect #[1, 0] (by simp) (1 / 2) (1 / 2) 0 (by simp)
  rw [h]
  have hs : Real.sin (π * (1 / 2)) = 1 := by rw [mul_one_div, Real.sin_pi_div_two]
  have hny : nyquist #[1, 0] = 1 := by
    simp [nyquist, Finset.sum_range_succ, at0, Array.getD]
  rw [hs, hny]
  norm_num

/-! ### Band-limited signals: the fractional shift is the analytic delay -/

/-- **For signals below Nyquist a fractional shift equals the analytically delayed signal**: the samples of a
trigonometric polynomial `p` with harmonics `1 … K`, `2K < n`, shifted by ANY real `s`, are the samples of `p(· - s)`. -/
theorem fshift_bandlimited (n K : ℕ) (hn : 2 ≤ n) (hK : 2 * K < n) (c : ℝ) (a b : ℕ → ℝ) (s : ℝ) :
    fshiftCore realTrig (Array.ofFn (n := n) fun j => trigPoly n K c a b (j.val : ℝ)) s
      = Array.ofFn (n := n) fun t => trigPoly n K c a b ((t.val : ℝ) - s) :=
  fshiftCore_bandlimited n K hn hK c a b s

/-! ### Linearity: the impulse basis determines the operator -/

/-- `fshift` is linear in the trace. -/
theorem fshift_linear (x y : Array ℝ) (hn : 2 ≤ x.size) (hxy : y.size = x.size) (α β s : ℝ) :
    fshiftCore realTrig (Array.ofFn (n := x.size) fun j => α * at0 x j.val + β * at0 y j.val) s
      = Array.ofFn (n := x.size) fun t =>
          α * at0 (fshiftCore realTrig x s) t.val + β * at0 (fshiftCore realTrig y s) t.val :=
  fshiftCore_linear x y hn hxy α β s

/-- **The full impulse basis determines the operator**: the shifted trace is the superposition of the shifted unit
impulses weighted by the samples (this is what licenses verifying "all signals" on the `n` impulses). -/
theorem fshift_impulse_basis (x : Array ℝ) (hn : 2 ≤ x.size) (s : ℝ) (t : ℕ) (ht : t < x.size) :
    at0 (fshiftCore realTrig x s) t
      = ∑ j ∈ Finset.range x.size, at0 x j * at0 (fshiftCore realTrig (unitImpulse x.size j) s) t :=
  fshiftCore_impulse_basis x hn s t ht

/-! ### Per-trace shifts along either axis -/

/-- **Each trace receives its own shift along the last axis**: row `i` of the result is row `i` of the input shifted by
the `i`-th entry of `s` (or by the scalar).  `w` is any array of rows, `ncol ≥ 2` their length. -/
theorem fshift_pertrace_rows (w : Array (Array ℝ)) (ncol : Nat) (s : Shift ℝ) (axis : Int)
    (hax : axis = 1 ∨ axis = -1) (hn : 2 ≤ ncol) (hs : s.fits w.size) :
    fshift2 realTrig w ncol s axis
      = .ok (Array.ofFn (n := w.size) fun i => fshiftCore realTrig (w.getD i.val #[]) (s.get i.val)) :=
  fshift2_lastAxis realTrig w ncol s axis hax hn hs

/-- **… and along the first axis**: entry `(i, j)` of the result is sample `i` of column `j` shifted by the `j`-th
entry of `s`. -/
theorem fshift_pertrace_cols (w : Array (Array ℝ)) (ncol : Nat) (s : Shift ℝ) (axis : Int)
    (hax : axis = 0 ∨ axis = -2) (hn : 2 ≤ w.size) (hs : s.fits ncol) :
    ∃ y, fshift2 realTrig w ncol s axis = .ok y ∧ y.size = w.size ∧
      ∀ i j, i < w.size → j < ncol →
        at0 (y.getD i #[]) j = at0 (fshiftCore realTrig (column w j) (s.get j)) i := by
  refine ⟨_, fshift2_firstAxis realTrig w ncol s axis hax hn hs, by simp [transpose], ?_⟩
  intro i j hi hj
  rw [at0_transpose _ _ _ _ _ hi hj, getD_ofFn _ _ _ hj, transpose_getD w w.size ncol j hj rfl]

/-! ### `parabolic_max` -/

/-- `np.argmax` returns a valid index of a maximal sample, the first one. -/
theorem argmax_first_max (x : Array ℝ) (hx : 0 < x.size) :
    argmax realLt x < x.size ∧ (∀ j, j < x.size → at0 x j ≤ at0 x (argmax realLt x))
      ∧ (∀ j, j < argmax realLt x → at0 x j < at0 x (argmax realLt x)) :=
  argmax_spec x hx

/-- **Exact vertex**: when the maximum is interior and its three neighbouring samples lie on a parabola
`A (t - c)² + B`, `parabolic_max` returns the vertex `(c, B)` exactly. -/
theorem parabolic_max_exact_vertex (x : Array ℝ) (A B c : ℝ) (hA : A ≠ 0)
    (hi : ¬ (argmax realLt x = 0 ∨ argmax realLt x = x.size - 1))
    (hm : at0 x (argmax realLt x - 1) = A * (((argmax realLt x : ℕ) : ℝ) - c - 1) ^ 2 + B)
    (h0 : at0 x (argmax realLt x) = A * (((argmax realLt x : ℕ) : ℝ) - c) ^ 2 + B)
    (hp : at0 x (argmax realLt x + 1) = A * (((argmax realLt x : ℕ) : ℝ) - c + 1) ^ 2 + B) :
    parabolicMaxR x = (c, B) :=
  parabolicMaxR_parabola x A B c hA hi hm h0 hp

/-- **Edge fallback**: a maximum on the first or last sample is returned without interpolation. -/
theorem parabolic_max_edge (x : Array ℝ) (h : argmax realLt x = 0 ∨ argmax realLt x = x.size - 1) :
    parabolicMaxR x = (((argmax realLt x : ℕ) : ℝ), at0 x (argmax realLt x)) :=
  parabolicMaxR_edge x h

/-! ### Round h — the source's stage list, the frequency-domain entry point, arrays of any dimension -/

/-- **The stage list of the source, executed with the model's primitives, is the function all theorems above are about.**
`planReal` is proved equal to the translation of the CURRENT source text by `Tie.C07.fshift_scalar_eq` /
`fshift_pertrace_eq` (impulse value 1 at flat position 1, both forward transforms along the axis, inverse transform to
`ns` samples along the axis, in this order). -/
theorem fshift_plan (x : Array ℝ) (s : ℝ) (perTrace : Bool) (axis : Int) :
    runPlan realTrig x s (planReal perTrace axis (x.size : Int)) = some (fshiftCore realTrig x s) :=
  runPlan_planReal realTrig x s perTrace axis

/-- **`fshift` of a real trace = inverse real transform of `fshift(rfft(w), s, ns=n)`** (the frequency-domain entry point
applied between the two transforms), for every trace and every real shift. -/
theorem fshift_freq_eq_time (x : Array ℝ) (s : ℝ) :
    fshiftCore realTrig x s = irfft realTrig (fshiftFreq realTrig (rfft realTrig x) x.size s) x.size :=
  fshiftCore_eq_freq realTrig x s

/-- the frequency-domain call accepts exactly a half spectrum of `ns // 2 + 1` bins with `ns ≥ 2` and preserves its size -/
theorem fshift_freq_shape (W : Array (ℝ × ℝ)) (ns : ℕ) (s : ℝ) (hn : 2 ≤ ns) (hW : W.size = ns / 2 + 1) :
    ∃ Y, fshiftFreq1 realTrig W ns s = .ok Y ∧ Y.size = W.size :=
  ⟨_, fshiftFreq1_ok realTrig W ns s hn hW, by simp⟩

/-- **In the frequency domain successive shifts add up for EVERY length and all real shifts** (no Nyquist exception: the
defect of `fshift_add_defect` is created by the inverse real transform, which keeps only the real part of the Nyquist bin). -/
theorem fshift_freq_add (W : Array (ℝ × ℝ)) (n : ℕ) (a b : ℝ) :
    fshiftFreq realTrig (fshiftFreq realTrig W n a) n b = fshiftFreq realTrig W n (a + b) :=
  fshiftFreq_add W n a b

/-- **Each trace of an array of ANY dimension receives its own shift along ANY axis** (negative axes included): for the
normalised axis `ax` with extent `n ≥ 2`, `outer`/`inner` the products of the extents before/after it, and a scalar shift or a
vector with one entry per trace, the call succeeds, preserves the size, and sample `(o, t, i)` of the result is sample `t` of the
1-D shift of trace `(o, i)` by entry `o * inner + i`.  With `fshift_int_eq_roll`, `fshift_zero`, `fshift_add`,
`fshift_bandlimited` (statements about `fshiftCore` on one trace) this carries every clause to every trace of an N-d array. -/
theorem fshift_nd_pertrace (shape : List ℕ) (data : Array ℝ) (s : Shift ℝ) (axis : Int) (ax : ℕ)
    (hax : normAxis shape.length axis = some ax) (hn : 2 ≤ shape.getD ax 0)
    (hs : s.fitsND (extentProd (shape.take ax)) (extentProd (shape.drop (ax + 1)))) :
    ∃ y, fshiftND realTrig shape data s axis = .ok y
      ∧ y.size = extentProd (shape.take ax) * shape.getD ax 0 * extentProd (shape.drop (ax + 1))
      ∧ ∀ o t i, o < extentProd (shape.take ax) → t < shape.getD ax 0 → i < extentProd (shape.drop (ax + 1)) →
          at0 y ((o * shape.getD ax 0 + t) * extentProd (shape.drop (ax + 1)) + i)
            = at0 (fshiftCore realTrig (traceND data (shape.getD ax 0) (extentProd (shape.drop (ax + 1))) o i)
                (s.get (o * extentProd (shape.drop (ax + 1)) + i))) t :=
  fshiftND_spec realTrig shape data s axis ax hax hn hs

/-- on a 1-D array the N-d model is `fshift1`, error branches included -/
theorem fshift_nd_one_dim (x : Array ℝ) (s : Shift ℝ) (axis : Int) :
    fshiftND realTrig [x.size] x s axis = fshift1 realTrig x s axis :=
  fshiftND_one_dim realTrig x s axis

/-- on a rectangular 2-D array, along the last axis, the N-d model shifts row `i` by its own entry — the same trace-wise result
as `fshift2` (`fshift_pertrace_rows`) -/
theorem fshift_nd_two_dim_rows (w : Array (Array ℝ)) (ncol : ℕ) (hrect : ∀ i (h : i < w.size), w[i].size = ncol)
    (s : Shift ℝ) (axis : Int) (hax : axis = 1 ∨ axis = -1) (hn : 2 ≤ ncol) (hs : s.fits w.size) :
    ∃ y, fshiftND realTrig [w.size, ncol] (flatten2 w ncol) s axis = .ok y ∧ y.size = w.size * ncol ∧
      ∀ i t, i < w.size → t < ncol → at0 y (i * ncol + t) = at0 (fshiftCore realTrig (w.getD i #[]) (s.get i)) t :=
  fshiftND_two_dim_rows realTrig w ncol hrect s axis hax hn hs

/-- … and along the first axis column `j` by its own entry — the same as `fshift2` (`fshift_pertrace_cols`) -/
theorem fshift_nd_two_dim_cols (w : Array (Array ℝ)) (ncol : ℕ) (s : Shift ℝ) (axis : Int) (hax : axis = 0 ∨ axis = -2)
    (hn : 2 ≤ w.size) (hs : s.fits ncol) :
    ∃ y, fshiftND realTrig [w.size, ncol] (flatten2 w ncol) s axis = .ok y ∧ y.size = w.size * ncol ∧
      ∀ i j, i < w.size → j < ncol → at0 y (i * ncol + j) = at0 (fshiftCore realTrig (column w j) (s.get j)) i :=
  fshiftND_two_dim_cols realTrig w ncol s axis hax hn hs

/-! ### Round h — undoing a shift; exactly when successive shifts add up -/

theorem fshiftCore_zero (x : Array ℝ) (hn : 2 ≤ x.size) : fshiftCore realTrig x 0 = x := by
  have h := fshift_zero x hn 0 (Or.inl rfl)
  have h3 : ¬ (x.size < 2) := by omega
  simpa [fshift1, h3] using h

/-- **Undoing a shift, with the exact defect**: `fshift(fshift(x, a), -a)` is `x` minus, for even length only,
`X_{n/2} · sin²(πa) · (-1)^t / n` (this is the composition `channel_shift` / destriping relies on: `fshift(x, -sample_shift)`
undoes `fshift(x, sample_shift)`). -/
theorem fshift_inverse_defect (x : Array ℝ) (hn : 2 ≤ x.size) (a : ℝ) (t : ℕ) (ht : t < x.size) :
    at0 (fshiftCore realTrig (fshiftCore realTrig x a) (-a)) t = at0 x t
      - (if x.size % 2 = 0 then nyquist x * Real.sin (π * a) ^ 2 * (-1 : ℝ) ^ t / x.size else 0) := by
  rw [fshift_add_defect x hn a (-a) t ht, add_neg_cancel, fshiftCore_zero x hn, mul_neg, Real.sin_neg]
  split <;> ring

/-- **A shift is undone exactly by the opposite shift** whenever the length is odd, or the shift is a whole number of
samples, or the trace has no energy at the Nyquist frequency. -/
theorem fshift_inverse (x : Array ℝ) (hn : 2 ≤ x.size) (a : ℝ)
    (h : x.size % 2 = 1 ∨ (∃ m : ℤ, a = m) ∨ nyquist x = 0) :
    fshiftCore realTrig (fshiftCore realTrig x a) (-a) = x := by
  rw [fshift_add x hn a (-a) (by rcases h with h | h | h <;> simp [h]), add_neg_cancel, fshiftCore_zero x hn]

/-- **Characterisation: successive shifts add up IF AND ONLY IF the length is odd, or one of the shifts is a whole number of
samples, or the Nyquist coefficient vanishes.**  The hypothesis of `fshift_add` is necessary as well as sufficient, i.e. the
known finding F13 (`fshift_add_counterexample`) is the exact complement: even length ∧ both shifts fractional ∧ Nyquist energy. -/
theorem fshift_add_iff (x : Array ℝ) (hn : 2 ≤ x.size) (a b : ℝ) :
    fshiftCore realTrig (fshiftCore realTrig x a) b = fshiftCore realTrig x (a + b)
      ↔ (x.size % 2 = 1 ∨ (∃ m : ℤ, a = m) ∨ (∃ m : ℤ, b = m) ∨ nyquist x = 0) := by
  refine ⟨fun heq => ?_, fshift_add x hn a b⟩
  by_contra hne
  simp only [not_or] at hne
  obtain ⟨hodd, ha, hb, hny⟩ := hne
  have heven : x.size % 2 = 0 := by omega
  have hd := fshift_add_defect x hn a b 0 (by omega)
  rw [heq, if_pos heven, pow_zero, mul_one] at hd
  have hx : (x.size : ℝ) ≠ 0 := by
    have : 0 < x.size := by omega
    positivity
  have hz : nyquist x * (Real.sin (π * a) * Real.sin (π * b)) = 0 := by
    have : nyquist x * (Real.sin (π * a) * Real.sin (π * b)) / x.size = 0 := by linarith
    rcases div_eq_zero_iff.mp this with h | h
    · exact h
    · exact absurd h hx
  have hint : ∀ c : ℝ, Real.sin (π * c) = 0 → ∃ m : ℤ, c = m := by
    intro c hc
    obtain ⟨m, hm⟩ := Real.sin_eq_zero_iff.mp hc
    refine ⟨m, ?_⟩
    have hpi : (π : ℝ) ≠ 0 := Real.pi_ne_zero
    have : π * c = π * m := by rw [← hm]; ring
    exact mul_left_cancel₀ hpi this
  rcases mul_eq_zero.mp hz with h | h
  · exact hny h
  · rcases mul_eq_zero.mp h with h | h
    · exact ha (hint a h)
    · exact hb (hint b h)

/-- the defect of undoing a shift is non-zero exactly on the complement: a concrete instance (`[1, 0]`, half a sample) -/
theorem fshift_inverse_counterexample :
    at0 (fshiftCore realTrig (fshiftCore realTrig #[1, 0] (1 / 2)) (-(1 / 2))) 0 = 1 / 2 := by
  rw [fshift_inverse_defect #[1, 0] (by simp) (1 / 2) 0 (by simp)]
  have hs : Real.sin (π * (1 / 2)) = 1 := by rw [mul_one_div, Real.sin_pi_div_two]
  have hny : nyquist #[1, 0] = 1 := by
    simp [nyquist, Finset.sum_range_succ, at0, Array.getD]
  rw [hs, hny]
  simp [at0, Array.getD]
  norm_num

/-! ### Round h — vectorised `parabolic_max` -/

/-- **The 2-D branch of `parabolic_max` is the 1-D function applied to every row** (rows of at least one sample): clipped
positions and the overwrite of edge rows included.  (The same statement holds for the `Float` twin, NaN samples included:
`Lemmas/FShiftPlan.parabolicMax2_eq_map` is generic in the scalar type.) -/
theorem parabolic_max_rows (w : Array (Array ℝ)) (hw : ∀ i (h : i < w.size), 0 < w[i].size) :
    parabolicMax2 (1 / 2 : ℝ) realIsZero realLt w = w.map parabolicMaxR :=
  parabolicMax2_eq_map _ _ _ w hw

/-- the interpolation is `0.5 * [[1,-2,1],[-1,0,1],[0,2,0]]` applied to the three samples (`pmaxMatrix` is tied to the
literal in the source by `Tie.C07.pmax_1d_eq` / `pmax_2d_eq`) -/
theorem parabolic_max_matrix (vm v0 vp : ℝ) :
    parabolicVertex (1 / 2 : ℝ) realIsZero vm v0 vp =
      (let p0 := 1 / 2 * pmaxRowDot 0 vm v0 vp
       let p1 := 1 / 2 * pmaxRowDot 1 vm v0 vp
       let p2 := 1 / 2 * pmaxRowDot 2 vm v0 vp
       let ipeak := -p1 / (p0 + if p0 = 0 then 1 else 0) / 2
       (ipeak, p2 + ipeak * p1 + ipeak * ipeak * p0)) :=
  parabolicVertex_matrix vm v0 vp

/-! ### Round h — the delay estimate is exact for whole-sample delays -/

/-- **Estimating the delay between a waveform and its copy delayed by a whole number of samples returns exactly the applied
shift and re-aligns the copy exactly.**  Model of `waveforms.wave_shift_corrmax` = `scipy.signal.correlate(mode='same')`
(its defining sum) → `parabolic_max` → `(ipeak - floor(n/2)) * -1` → `fshift(spike2, -shift)`.  For every waveform `x` with a
non-zero sample and every integer delay `m` such that the delayed waveform does not wrap around the window (`NoWrap`) and the
correlation peak `n/2 - m` is an interior sample: `wave_shift_corrmax(x, roll(x, m)) = (x, m)`; by `fshift_int_eq_roll`,
`roll x m` is `fshift(x, m)`.  (Proof: the correlation is the autocorrelation `R` centred at `n/2 - m`; `R(k) < R(0)` for
`k ≠ 0` because `Σ (x_{u+k} - x_u)² > 0` for a finitely supported non-zero sequence; `R` is even, so the parabola through
`R(-1), R(0), R(1)` peaks on the sample.)  Fractional delays: numeric oracle only. -/
theorem corrmax_integer_delay (x : Array ℝ) (m : ℤ) (hne : ∃ i, i < x.size ∧ at0 x i ≠ 0) (hw : NoWrap x m)
    (hin : 0 < ((x.size / 2 : ℕ) : ℤ) - m ∧ ((x.size / 2 : ℕ) : ℤ) - m < (x.size : ℤ) - 1) :
    waveShiftCorrmax realTrig (1 / 2 : ℝ) realIsZero realLt x (roll x m) = (x, (m : ℝ)) :=
  waveShiftCorrmax_integer_delay x m hne hw hin

/-- the cross-correlation the estimate is computed from: autocorrelation of the zero-extended waveform at lag `j - n/2 + m` -/
theorem corrmax_correlation (x : Array ℝ) (m : ℤ) (hw : NoWrap x m) (j : ℕ) (hj : j < x.size) :
    at0 (correlateSame x (roll x m)) j = acorr (zext x) ((j : ℤ) - ((x.size / 2 : ℕ) : ℤ) + m) :=
  correlateSame_roll x m hw j hj

/-- the autocorrelation of a non-zero finitely supported sequence is even and has its strict maximum at lag 0 -/
theorem autocorrelation_peak (f : ℤ → ℝ) (hf : (Function.support f).Finite) (hne : ∃ i, f i ≠ 0) (k : ℤ) (hk : k ≠ 0) :
    acorr f k < acorr f 0 ∧ acorr f (-k) = acorr f k :=
  ⟨acorr_lt f hf hne k hk, acorr_neg f k⟩

/-! ### Non-vacuity of the hypotheses -/

/-- `corrmax_integer_delay`: the 7-sample waveform `[0, 0, 1, 2, 1, 0, 0]` delayed by one sample satisfies all hypotheses -/
example : (∃ i, i < (#[0, 0, 1, 2, 1, 0, 0] : Array ℝ).size ∧ at0 (#[0, 0, 1, 2, 1, 0, 0] : Array ℝ) i ≠ 0)
    ∧ NoWrap (#[0, 0, 1, 2, 1, 0, 0] : Array ℝ) 1
    ∧ (0 < (((#[0, 0, 1, 2, 1, 0, 0] : Array ℝ).size / 2 : ℕ) : ℤ) - 1
        ∧ (((#[0, 0, 1, 2, 1, 0, 0] : Array ℝ).size / 2 : ℕ) : ℤ) - 1 < ((#[0, 0, 1, 2, 1, 0, 0] : Array ℝ).size : ℤ) - 1) := by
  refine ⟨⟨2, by simp, by simp [at0, Array.getD]⟩, ?_, by simp⟩
  intro i hi hx
  have hi7 : i < 7 := by simpa using hi
  interval_cases i <;> simp_all [at0, Array.getD]
/-- `fshift_nd_pertrace`: a 2 × 3 × 4 array shifted along its middle axis named `-2`, one shift per trace (2 · 4 = 8 entries) -/
example : normAxis [2, 3, 4].length (-2) = some 1 ∧ 2 ≤ [2, 3, 4].getD 1 0
    ∧ (Shift.perTrace (#[1, 2, 3, 4, 5, 6, 7, 8] : Array ℝ)).fitsND (extentProd ([2, 3, 4].take 1)) (extentProd ([2, 3, 4].drop (1 + 1))) := by
  refine ⟨by decide, by decide, ?_⟩
  simp [Shift.fitsND, extentProd]
/-- `fshift_nd_two_dim_rows`: a rectangular 2 × 3 array -/
example : ∀ i (h : i < (#[#[1, 2, 3], #[4, 5, 6]] : Array (Array ℝ)).size), (#[#[1, 2, 3], #[4, 5, 6]] : Array (Array ℝ))[i].size = 3 := by
  intro i h
  have h2 : i < 2 := by simpa using h
  interval_cases i <;> simp
/-- `fshift_freq_shape`: a half spectrum of 3 bins goes with 4 (or 5) samples -/
example : (2 ≤ 4) ∧ (#[(1, 0), (0, 1), (2, 0)] : Array (ℝ × ℝ)).size = 4 / 2 + 1 := by simp
/-- `fshift_inverse`: each disjunct is inhabited (odd length; whole shift; Nyquist-free trace) -/
example : (#[1, 2, 3] : Array ℝ).size % 2 = 1 ∨ (∃ m : ℤ, (0.5 : ℝ) = m) ∨ nyquist #[1, 2, 3] = 0 := Or.inl (by simp)
/-- `parabolic_max_rows`: a 2-row array with non-empty rows -/
example : ∀ i (h : i < (#[#[1, 3, 2], #[5, 4]] : Array (Array ℝ)).size), 0 < (#[#[1, 3, 2], #[5, 4]] : Array (Array ℝ))[i].size := by
  intro i h
  have h2 : i < 2 := by simpa using h
  interval_cases i <;> simp

/-- odd length, with Nyquist-free and integer-shift alternatives: each disjunct of `fshift_add`'s hypothesis is inhabited -/
example : (#[1, 2, 3] : Array ℝ).size % 2 = 1 := by simp
example : nyquist #[1, 1] = 0 := by simp [nyquist, Finset.sum_range_succ, at0, Array.getD]
example : nyquist #[1, 0] ≠ 0 := by simp [nyquist, Finset.sum_range_succ, at0, Array.getD]
example : ∃ m : ℤ, (3 : ℝ) = m := ⟨3, by simp⟩
/-- a per-trace shift vector that fits a 2 × 3 array along the last axis -/
example : (Shift.perTrace #[(1 : ℝ), 2]).fits (#[#[1, 2, 3], #[4, 5, 6]] : Array (Array ℝ)).size := by
  simp [Shift.fits]
/-- band-limited hypothesis: one harmonic in four samples -/
example : 2 * 1 < 4 := by decide
/-- a genuine instance of the integer-shift theorem: `[1, 2, 3]` shifted by one sample is `[3, 1, 2]` -/
example : fshift1 realTrig #[1, 2, 3] (.scalar ((1 : ℤ) : ℝ)) (-1) = .ok #[3, 1, 2] := by
  rw [fshift_int_eq_roll _ (by simp) 1 (-1) (by simp)]
  have hr : roll (#[1, 2, 3] : Array ℝ) 1 = #[3, 1, 2] := by
    apply Array.ext (by simp)
    intro i h1 h2
    have h3 : i < 3 := by simpa using h2
    rw [roll_getElem]
    interval_cases i <;> simp [at0, Array.getD]
  rw [hr]

end IblVerif.C07
