/-
C07 — Fourier time shift is an exact, composable delay (`ibldsp.fourier.fshift`, `ibldsp.utils.parabolic_max`).

Property theorems only.  They are about the model of `Model/FShift.lean` instantiated at `ℝ` (`realTrig`), i.e. the very
definitions the driver runs at `Float`.  Every statement is for ALL traces `x : Array ℝ` of every length ≥ 2 (odd, even,
prime, …), all real shifts, both axes.  Helper lemmas: `Lemmas/FShift.lean` (arrays), `Analysis/FShiftDFT.lean` (DFT),
`Analysis/FShift.lean` (the rfft/irfft pipeline = two-sided form `𝓕⁻(μ_s·𝓕x)`), `Analysis/FShiftArray.lean`,
`Analysis/FShiftPeak.lean`.

Not provable (numeric, checked by the oracle each run → the property is "partial" on this clause): the accuracy of the
delay estimate `wave_shift_corrmax` ("within a few hundredths of a sample") — it depends on `scipy.signal.correlate`
of a sampled wavelet and on how well a parabola fits the correlation peak.
-/
import IblVerif.Analysis.FShiftArray
import IblVerif.Analysis.FShiftPeak

open scoped Real

namespace IblVerif.C07
open IblVerif.FShift

/-! ### Domain: the error branches of the code -/

/-- A trace shorter than two samples is rejected (`np.put(dephas, 1, 1)` raises), whatever the shift. -/
theorem fshift_short_rejected (x : Array ℝ) (s : Shift ℝ) (axis : Int) (hn : x.size < 2) :
    fshift1 realTrig x s axis = .error .indexError := by
  unfold fshift1; split <;> simp_all

/-- An axis the 1-D array does not have is rejected. -/
theorem fshift_bad_axis_rejected (x : Array ℝ) (s : Shift ℝ) (axis : Int) (hax : ¬ (axis = 0 ∨ axis = -1)) :
    fshift1 realTrig x s axis = .error .indexError := by
  unfold fshift1; simp [hax]

/-- A per-trace shift vector whose size is not the number of traces is rejected (`s.reshape(s_shape)`). -/
theorem fshift_pertrace_size_rejected (w : Array (Array ℝ)) (ncol : Nat) (a : Array ℝ) (hn : 2 ≤ ncol)
    (hsz : a.size ≠ w.size) : fshift2 realTrig w ncol (.perTrace a) 1 = .error .valueError := by
  have h3 : ¬ (ncol < 2) := by omega
  simp [fshift2, h3, hsz]

/-! ### Integer shift = circular roll; zero shift = identity; shape -/

/-- **Shifting by an integer number of samples equals a circular roll** (`np.roll(x, m)`), for every length ≥ 2 and
every integer `m`, including `|m| ≥ n`; along the only axis of a 1-D array, named `0` or `-1`. -/
theorem fshift_int_eq_roll (x : Array ℝ) (hn : 2 ≤ x.size) (m : ℤ) (axis : Int) (hax : axis = 0 ∨ axis = -1) :
    fshift1 realTrig x (.scalar (m : ℝ)) axis = .ok (roll x m) := by
  have h3 : ¬ (x.size < 2) := by omega
  simp only [fshift1, hax, not_true_eq_false, if_false, h3]
  rw [fshiftCore_int x hn]

/-- **Shifting by zero is the identity.** -/
theorem fshift_zero (x : Array ℝ) (hn : 2 ≤ x.size) (axis : Int) (hax : axis = 0 ∨ axis = -1) :
    fshift1 realTrig x (.scalar 0) axis = .ok x := by
  have h := fshift_int_eq_roll x hn 0 axis hax
  have hr : roll x 0 = x := by
    apply Array.ext
    · simp
    · intro t h1 h2
      have hidx : (((t : ℤ) - 0) % (x.size : ℤ)).toNat = t := by
        rw [sub_zero, Int.emod_eq_of_lt (by omega) (by exact_mod_cast h2)]
        omega
      rw [roll_getElem, hidx, at0_eq_getElem x t h2]
  rw [hr] at h
  simpa using h

/-- **Shape is preserved**: the output trace has the length of the input trace (all lengths, all shifts). -/
theorem fshift_shape (x : Array ℝ) (s : ℝ) : (fshiftCore realTrig x s).size = x.size :=
  fshiftCore_size realTrig x s

/-! ### Successive shifts add up — exactly where that is true -/

/-- **Composition with its exact defect.**  For every trace, all real `a`, `b` and every sample `t`:
two successive shifts equal the single shift by `a + b` plus, for even length only,
`X_{n/2} · sin(πa) · sin(πb) · (-1)^t / n`, where `X_{n/2} = Σ_j (-1)^j x_j` is the Nyquist coefficient. -/
theorem fshift_add_defect (x : Array ℝ) (hn : 2 ≤ x.size) (a b : ℝ) (t : ℕ) (ht : t < x.size) :
    at0 (fshiftCore realTrig (fshiftCore realTrig x a) b) t = at0 (fshiftCore realTrig x (a + b)) t
      + (if x.size % 2 = 0 then nyquist x * (Real.sin (π * a) * Real.sin (π * b)) * (-1 : ℝ) ^ t / x.size else 0) :=
  fshiftCore_comp_getElem x hn a b t ht

/-- **Successive shifts add up** whenever the length is odd, or one of the two shifts is a whole number of samples, or
the trace has no energy at the Nyquist frequency.  (The complement — even length ∧ both shifts fractional ∧ Nyquist
coefficient ≠ 0 — is finding F13, see `fshift_add_counterexample`; full-strength statement without the hypothesis `h` is
false.) -/
theorem fshift_add (x : Array ℝ) (hn : 2 ≤ x.size) (a b : ℝ)
    (h : x.size % 2 = 1 ∨ (∃ m : ℤ, a = m) ∨ (∃ m : ℤ, b = m) ∨ nyquist x = 0) :
    fshiftCore realTrig (fshiftCore realTrig x a) b = fshiftCore realTrig x (a + b) := by
  apply Array.ext
  · simp
  · intro t h1 h2
    have ht : t < x.size := by simpa using h2
    have hd := fshift_add_defect x hn a b t ht
    rw [at0_eq_getElem _ _ h1, at0_eq_getElem _ _ h2] at hd
    rw [hd]
    rcases h with h | ⟨m, rfl⟩ | ⟨m, rfl⟩ | h
    · rw [if_neg (by omega), add_zero]
    · rw [mul_comm π (m : ℝ), Real.sin_int_mul_pi]; simp
    · rw [mul_comm π (m : ℝ), Real.sin_int_mul_pi]; simp
    · rw [h]; simp

/-- **Counterexample (finding F13)**: on the two-sample trace `[1, 0]`, shifting twice by half a sample gives
`[1/2, 1/2]` at sample 0 where the single shift by one sample gives `0`: the two differ by exactly `1/2`. -/
theorem fshift_add_counterexample :
    at0 (fshiftCore realTrig (fshiftCore realTrig #[1, 0] (1 / 2)) (1 / 2)) 0
      = at0 (fshiftCore realTrig #[1, 0] (1 / 2 + 1 / 2)) 0 + 1 / 2 := by
  have h := fshift_add_defect #[1, 0] (by simp) (1 / 2) (1 / 2) 0 (by simp)
  rw [h]
  have hs : Real.sin (π * (1 / 2)) = 1 := by rw [mul_one_div, Real.sin_pi_div_two]
  have hny : nyquist #[1, 0] = 1 := by
    simp [nyquist, Finset.sum_range_succ, at0, Array.getD]
  rw [hs, hny]
  norm_num

/-! ### Band-limited signals: the fractional shift is the analytic delay -/

/-- **For signals below Nyquist a fractional shift equals the analytically delayed signal**: the samples of a
trigonometric polynomial `p` with harmonics `1 … K`, `2K < n`, shifted by ANY real `s`, are the samples of `p(· - s)`. -/
theorem fshift_bandlimited (n K : ℕ) (hn : 2 ≤ n) (hK : 2 * K < n) (c : ℝ) (a b : ℕ → ℝ) (s : ℝ) :
    fshiftCore realTrig (Array.ofFn (n := n) fun j => trigPoly n K c a b (j.val : ℝ)) s
      = Array.ofFn (n := n) fun t => trigPoly n K c a b ((t.val : ℝ) - s) :=
  fshiftCore_bandlimited n K hn hK c a b s

/-! ### Linearity: the impulse basis determines the operator -/

/-- `fshift` is linear in the trace. -/
theorem fshift_linear (x y : Array ℝ) (hn : 2 ≤ x.size) (hxy : y.size = x.size) (α β s : ℝ) :
    fshiftCore realTrig (Array.ofFn (n := x.size) fun j => α * at0 x j.val + β * at0 y j.val) s
      = Array.ofFn (n := x.size) fun t =>
          α * at0 (fshiftCore realTrig x s) t.val + β * at0 (fshiftCore realTrig y s) t.val :=
  fshiftCore_linear x y hn hxy α β s

/-- **The full impulse basis determines the operator**: the shifted trace is the superposition of the shifted unit
impulses weighted by the samples (this is what licenses verifying "all signals" on the `n` impulses). -/
theorem fshift_impulse_basis (x : Array ℝ) (hn : 2 ≤ x.size) (s : ℝ) (t : ℕ) (ht : t < x.size) :
    at0 (fshiftCore realTrig x s) t
      = ∑ j ∈ Finset.range x.size, at0 x j * at0 (fshiftCore realTrig (unitImpulse x.size j) s) t :=
  fshiftCore_impulse_basis x hn s t ht

/-! ### Per-trace shifts along either axis -/

/-- **Each trace receives its own shift along the last axis**: row `i` of the result is row `i` of the input shifted by
the `i`-th entry of `s` (or by the scalar).  `w` is any array of rows, `ncol ≥ 2` their length. -/
theorem fshift_pertrace_rows (w : Array (Array ℝ)) (ncol : Nat) (s : Shift ℝ) (axis : Int)
    (hax : axis = 1 ∨ axis = -1) (hn : 2 ≤ ncol) (hs : s.fits w.size) :
    fshift2 realTrig w ncol s axis
      = .ok (Array.ofFn (n := w.size) fun i => fshiftCore realTrig (w.getD i.val #[]) (s.get i.val)) :=
  fshift2_lastAxis realTrig w ncol s axis hax hn hs

/-- **… and along the first axis**: entry `(i, j)` of the result is sample `i` of column `j` shifted by the `j`-th
entry of `s`. -/
theorem fshift_pertrace_cols (w : Array (Array ℝ)) (ncol : Nat) (s : Shift ℝ) (axis : Int)
    (hax : axis = 0 ∨ axis = -2) (hn : 2 ≤ w.size) (hs : s.fits ncol) :
    ∃ y, fshift2 realTrig w ncol s axis = .ok y ∧ y.size = w.size ∧
      ∀ i j, i < w.size → j < ncol →
        at0 (y.getD i #[]) j = at0 (fshiftCore realTrig (column w j) (s.get j)) i := by
  refine ⟨_, fshift2_firstAxis realTrig w ncol s axis hax hn hs, by simp [transpose], ?_⟩
  intro i j hi hj
  rw [at0_transpose _ _ _ _ _ hi hj, getD_ofFn _ _ _ hj, transpose_getD w w.size ncol j hj rfl]

/-! ### `parabolic_max` -/

/-- `np.argmax` returns a valid index of a maximal sample, the first one. -/
theorem argmax_first_max (x : Array ℝ) (hx : 0 < x.size) :
    argmax realLt x < x.size ∧ (∀ j, j < x.size → at0 x j ≤ at0 x (argmax realLt x))
      ∧ (∀ j, j < argmax realLt x → at0 x j < at0 x (argmax realLt x)) :=
  argmax_spec x hx

/-- **Exact vertex**: when the maximum is interior and its three neighbouring samples lie on a parabola
`A (t - c)² + B`, `parabolic_max` returns the vertex `(c, B)` exactly. -/
theorem parabolic_max_exact_vertex (x : Array ℝ) (A B c : ℝ) (hA : A ≠ 0)
    (hi : ¬ (argmax realLt x = 0 ∨ argmax realLt x = x.size - 1))
    (hm : at0 x (argmax realLt x - 1) = A * (((argmax realLt x : ℕ) : ℝ) - c - 1) ^ 2 + B)
    (h0 : at0 x (argmax realLt x) = A * (((argmax realLt x : ℕ) : ℝ) - c) ^ 2 + B)
    (hp : at0 x (argmax realLt x + 1) = A * (((argmax realLt x : ℕ) : ℝ) - c + 1) ^ 2 + B) :
    parabolicMaxR x = (c, B) :=
  parabolicMaxR_parabola x A B c hA hi hm h0 hp

/-- **Edge fallback**: a maximum on the first or last sample is returned without interpolation. -/
theorem parabolic_max_edge (x : Array ℝ) (h : argmax realLt x = 0 ∨ argmax realLt x = x.size - 1) :
    parabolicMaxR x = (((argmax realLt x : ℕ) : ℝ), at0 x (argmax realLt x)) :=
  parabolicMaxR_edge x h

/-! ### Non-vacuity of the hypotheses -/

/-- odd length, with Nyquist-free and integer-shift alternatives: each disjunct of `fshift_add`'s hypothesis is inhabited -/
example : (#[1, 2, 3] : Array ℝ).size % 2 = 1 := by simp
example : nyquist #[1, 1] = 0 := by simp [nyquist, Finset.sum_range_succ, at0, Array.getD]
example : nyquist #[1, 0] ≠ 0 := by simp [nyquist, Finset.sum_range_succ, at0, Array.getD]
example : ∃ m : ℤ, (3 : ℝ) = m := ⟨3, by simp⟩
/-- a per-trace shift vector that fits a 2 × 3 array along the last axis -/
example : (Shift.perTrace #[(1 : ℝ), 2]).fits (#[#[1, 2, 3], #[4, 5, 6]] : Array (Array ℝ)).size := by
  simp [Shift.fits]
/-- band-limited hypothesis: one harmonic in four samples -/
example : 2 * 1 < 4 := by decide
/-- a genuine instance of the integer-shift theorem: `[1, 2, 3]` shifted by one sample is `[3, 1, 2]` -/
example : fshift1 realTrig #[1, 2, 3] (.scalar ((1 : ℤ) : ℝ)) (-1) = .ok #[3, 1, 2] := by
  rw [fshift_int_eq_roll _ (by simp) 1 (-1) (by simp)]
  have hr : roll (#[1, 2, 3] : Array ℝ) 1 = #[3, 1, 2] := by
    apply Array.ext (by simp)
    intro i h1 h2
    have h3 : i < 3 := by simpa using h2
    rw [roll_getElem]
    interval_cases i <;> simp [at0, Array.getD]
  rw [hr]

end IblVerif.C07
