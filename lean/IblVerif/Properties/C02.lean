/-
C02 — Compression is transparent, lossless and atomically published (src/spikeglx.py:
`Reader.compress_file`, `decompress_file`, `decompress_to_scratch`, `Reader.__init__`/`open`).

Property theorems only; the model is `Model/FsCompress.lean` (file-state machine with fault points),
`Model/FsCompressEffects.lean` (the ORDER of file-system effects of the three functions as call lists — tied to the source
text by `Tie/C02.lean` — and their refinement into primitive effects; interruption between any two effects),
`Model/FsCompressPath.lean` (path-name logic: `with_suffix`, `is_mtscomp`, companion files) and
`Model/ChunkRead.lean` (chunked read path); helper lemmas are in `Lemmas/FsCompress.lean`, `Lemmas/FsCompressEffects.lean`,
`Lemmas/FsCompressPath.lean`, `Lemmas/ChunkRead.lean`.

Quantifiers.  `α`/`γ`: arbitrary types of uncompressed / compressed chunks; `c : Codec α γ` an arbitrary
codec with the contract `c.Lossless : ∀ a, dec (enc a) = a`; `b : List α` an arbitrary recording (any
number of chunks, any content); `ops : List Op` an arbitrary sequence of calls, each by an arbitrary reader
(`fb` = its `file_bin`, fresh or stale), `keep_original ∈ {true, false}`, with or without a fault at an
arbitrary chunk; `s` an arbitrary directory (every existence pattern of every file).
-/
import IblVerif.Lemmas.FsCompress
import IblVerif.Lemmas.ChunkRead
import IblVerif.Lemmas.FsCompressEffects
import IblVerif.Lemmas.FsCompressPath

namespace IblVerif.C02
open IblVerif.FsCompress IblVerif.ChunkRead

variable {α γ : Type}

/-! ## Atomic publication (trace theorems: induction over arbitrary call/fault sequences) -/

/-- In every state reachable from a directory holding the recording `b` (uncompressed, compressed, or both —
any `Published` directory) by any sequence of calls in scope with arbitrary fault points, every file carrying
a final name is absent or complete: `x.cbin` is the whole compressed recording and `x.ch` describes it,
`x.bin` and `scratch/x.bin` (the files `decompress_to_scratch` publishes, in place or in a scratch
directory) are the whole recording.  Partial files only ever exist under `.cbin_tmp` / `.bin_temp`. -/
theorem final_names_complete [DecidableEq α] [DecidableEq γ] (c : Codec α γ) (hc : c.Lossless)
    (b : List α) (s0 : Fs α γ) (h0 : Published c b s0) (ops : List Op) (hops : ∀ o ∈ ops, o.inScope) :
    let s := run c s0 ops
    (s.cbin = none ∨ (s.cbin = some (b.map c.enc) ∧ s.ch = some (b.map c.enc))) ∧
    (s.bin = none ∨ s.bin = some b) ∧
    (s.sbin = none ∨ s.sbin = some b) := by
  intro s
  have h : Published c b s := published_run c hc b ops s0 h0 hops
  refine ⟨?_, h.bin, h.sbin⟩
  rcases h.cbin with hn | hs
  · exact Or.inl hn
  · exact Or.inr ⟨hs, by have := h.hdr (by simp [hs]); rw [this, hs]⟩

/-- Histories in which `x.bin` is REPLACED between calls (same shape, other content) while outputs of earlier calls
(`x.cbin`/`x.ch`, `x.cbin_tmp`, `scratch/x.bin`) are still on disk.  In every state reachable by any sequence of
rewrites and calls in scope with arbitrary fault points, the CURRENT content of the recording (`Hist.cur`: what the
last rewrite — or the last successful `decompress_file` — put into `x.bin`) is held by a complete file: `x.bin`
itself, or the complete `x.cbin` with its header, which then decode to the current content, never to a stale one.
The source is never removed before a replacement *of its current content* is complete. -/
theorem source_outlives_replacement [DecidableEq α] [DecidableEq γ] (c : Codec α γ) (hc : c.Lossless)
    (b : List α) (s0 : Fs α γ) (h0 : Published c b s0) (evs : List (Event α)) (hev : ∀ e ∈ evs, e.inScope) :
    let g := runE c { fs := s0, versions := [b], cur := b } evs
    recording c g.fs .bin = some g.cur ∨ recording c g.fs .cbin = some g.cur := by
  intro g
  have h : Versioned c g := versioned_run c hc evs _ (versioned_of_published c b s0 h0) hev
  rcases h.held with hb | ⟨hcb, hch⟩
  · exact Or.inl hb
  · right
    simp [recording, hcb, hch, map_dec_enc c hc g.cur]

/-- ...and every file under a final name is absent or the COMPLETE image of some version of the recording (possibly a
stale one, never a torn one); `x.bin`, when present, has the current content.  For `x.cbin`, `x.bin`, `scratch/x.bin`
this holds for every fault point, including a failing rename / move; that `x.ch` describes `x.cbin` needs that no
rename of `compress_file` failed (`renameOk`): mtscomp writes `x.ch` under its final name before the rename, see
`rename_failure_next_to_stale_cbin_counterexample`. -/
theorem final_names_complete_after_rewrites [DecidableEq α] [DecidableEq γ] (c : Codec α γ) (hc : c.Lossless)
    (b : List α) (s0 : Fs α γ) (h0 : Published c b s0) (evs : List (Event α)) (hev : ∀ e ∈ evs, e.inScope) :
    let g := runE c { fs := s0, versions := [b], cur := b } evs
    (g.fs.cbin = none ∨ ∃ v ∈ g.versions, g.fs.cbin = some (v.map c.enc) ∧
      ((∀ e ∈ evs, e.renameOk) → g.fs.ch = some (v.map c.enc))) ∧
    (g.fs.bin = none ∨ g.fs.bin = some g.cur) ∧
    (g.fs.sbin = none ∨ ∃ v ∈ g.versions, g.fs.sbin = some v) := by
  intro g
  have h : Versioned c g := versioned_run c hc evs _ (versioned_of_published c b s0 h0) hev
  refine ⟨?_, h.bin, h.sbin⟩
  rcases h.cbin with hn | ⟨v, hv, hs⟩
  · exact Or.inl hn
  · refine Or.inr ⟨v, hv, hs, fun hro => ?_⟩
    have h0' : HdrOk s0 := by
      intro cs hcs
      have := h0.hdr (by simp [hcs])
      rw [this, hcs]
    exact hdrOk_runE c hc evs _ h0' hro _ hs

/-- Why `renameOk` is needed for the header: compress (keeping the original), rewrite `x.bin`, compress again with the
rename failing: the stale `x.cbin` is still there, complete, but `x.ch` now describes the new `x.cbin_tmp`.  The source
is intact and the current content is held by `x.bin`; the OLD compressed copy has lost its header. -/
theorem rename_failure_next_to_stale_cbin_counterexample :
    let c : Codec Nat Nat := ⟨(· + 10), (· - 10)⟩
    let g := runE c { fs := initBin [1, 2], versions := [[1, 2]], cur := [1, 2] }
      [.call (.compress .bin true none false), .rewrite [7, 8], .call (.compress .bin false none true)]
    g.fs.bin = some [7, 8] ∧ g.fs.cbin = some [11, 12] ∧ g.fs.ch = some [17, 18] ∧ g.fs.cbinTmp = some [17, 18] := by
  decide

/-- Whatever is already in the directory — in particular a complete but STALE `x.cbin`/`x.ch` of an earlier content of
`x.bin`, or a left-over `x.cbin_tmp` — a `compress_file` that returns normally has published the compressed image of
the CURRENT `x.bin` (content `l` at the time of the call): `x.cbin` and `x.ch` are those of `l` and decode to `l`. -/
theorem compress_publishes_current_content [DecidableEq α] [DecidableEq γ] (c : Codec α γ) (hc : c.Lossless)
    (s : Fs α γ) (fb : DataName) (keep : Bool) (fault : Option Nat) (rf : Bool)
    (hok : (compressFile c s fb keep fault rf).2.2 = .ok) :
    ∃ l, s.bin = some l ∧ (compressFile c s fb keep fault rf).1.cbin = some (l.map c.enc) ∧
      (compressFile c s fb keep fault rf).1.ch = some (l.map c.enc) ∧
      recording c (compressFile c s fb keep fault rf).1 .cbin = some l ∧
      (compressFile c s fb keep fault rf).1.cbinTmp = none := by
  have hcases := compressFile_cases c hc s fb keep fault rf
  simp only at hcases
  rcases hcases with ⟨hr, _⟩ | ⟨l, j, _, _, _, _, _, hr⟩ | ⟨l, _, hl, _, _, hr⟩ | ⟨l, _, _, _, _, hr⟩
  · rw [hr] at hok; simp at hok
  · rw [hr] at hok; simp at hok
  · exact ⟨l, hl, by simp [hr], by simp [hr], by simp [hr, recording, map_dec_enc c hc], by simp [hr]⟩
  · rw [hr] at hok; simp at hok

/-- Non-vacuity of the histories with rewrites: compress (keeping the original), rewrite `x.bin`, compress in place
again: the stale `x.cbin` is replaced by the image of the new content before the new `x.bin` is removed. -/
example :
    let c : Codec Nat Nat := ⟨(· + 10), (· - 10)⟩
    let evs : List (Event Nat) := [.call (.compress .bin true none false), .rewrite [7, 8, 9], .call (.compress .bin false none false)]
    let g0 : Hist Nat Nat := { fs := initBin [1, 2, 3], versions := [[1, 2, 3]], cur := [1, 2, 3] }
    (∀ e ∈ evs, e.inScope) ∧
    (runE c g0 (evs.take 2)).fs.cbin = some [11, 12, 13] ∧ (runE c g0 (evs.take 2)).fs.bin = some [7, 8, 9] ∧
    (runE c g0 evs).fs.cbin = some [17, 18, 19] ∧ (runE c g0 evs).fs.bin = none ∧ (runE c g0 evs).cur = [7, 8, 9] := by
  refine ⟨?_, by decide, by decide, by decide, by decide, by decide⟩
  intro e he
  simp at he
  rcases he with rfl | rfl | rfl <;> simp [Event.inScope, Op.inScope]

/-- The two directories a recording normally starts from satisfy the hypothesis of the trace theorems. -/
theorem clean_directories_published (c : Codec α γ) (b : List α) :
    Published c b (initBin b : Fs α γ) ∧ Published c b (initCbin c b) :=
  ⟨published_initBin c b, published_initCbin c b⟩

/-- `x.ch` describes `x.cbin` after EVERY sequence of calls with chunk faults anywhere, including inside the plain
`decompress_file`, and with failing moves of `decompress_to_scratch` — as long as no rename of `compress_file` fails
(then the model's `corruptHeader` branch is unreachable). -/
theorem hdr_consistent [DecidableEq α] [DecidableEq γ] (c : Codec α γ) (hc : c.Lossless)
    (s0 : Fs α γ) (h0 : ∀ cs, s0.cbin = some cs → s0.ch = some cs) (ops : List Op) (hro : ∀ o ∈ ops, o.renameOk) :
    ∀ cs, (run c s0 ops).cbin = some cs → (run c s0 ops).ch = some cs :=
  hdrOk_run c hc ops s0 h0 hro

/-! ## Atomic publication (step theorems: ANY directory, any reader, any fault) -/

/-- When `compress_file` fails — refused, interrupted at any chunk, or at the very rename that publishes `x.cbin` —
the source `x.bin` is untouched (for both values of `keep_original`), no `x.cbin` was created or altered, the reader
still points at the source, and nothing but `x.cbin_tmp` differs; except that after a failing rename `x.ch` (written
by mtscomp under its final name before the rename) is the header of the complete `x.cbin_tmp`. -/
theorem compress_failure_touches_only_tmp [DecidableEq α] (c : Codec α γ) (hc : c.Lossless) (s : Fs α γ)
    (fb : DataName) (keep : Bool) (fault : Option Nat) (rf : Bool) (e : Err)
    (h : (compressFile c s fb keep fault rf).2.2 = .err e) :
    let s' := (compressFile c s fb keep fault rf).1
    s'.bin = s.bin ∧ s'.cbin = s.cbin ∧ (e ≠ .osError → s'.ch = s.ch) ∧ (e = .osError → s'.ch = s'.cbinTmp) ∧
    s'.binTemp = s.binTemp ∧ s'.sbin = s.sbin ∧
    s'.sbinTemp = s.sbinTemp ∧ s'.smeta = s.smeta ∧ (compressFile c s fb keep fault rf).2.1 = fb := by
  have hcases := compressFile_cases c hc s fb keep fault rf
  simp only at hcases
  rcases hcases with ⟨hr, _⟩ | ⟨l, j, _, _, _, _, _, hr⟩ | ⟨l, _, _, _, _, hr⟩ | ⟨l, _, _, _, _, hr⟩
  · rw [hr] at h ⊢; simp at h; simp [← h]
  · rw [hr] at h ⊢; simp at h; simp [← h]
  · rw [hr] at h; simp at h
  · rw [hr] at h ⊢; simp at h; simp [← h]

/-- When `decompress_to_scratch` fails — refused, interrupted at any chunk, or at the very move that publishes the
decompressed file — only the `.bin_temp` file of the target directory (and the copied `scratch/x.meta`) differ: source
`x.cbin`/`x.ch` untouched, no `x.bin` / `scratch/x.bin` created or altered. -/
theorem toScratch_failure_touches_only_temp [DecidableEq γ] (c : Codec α γ) (s : Fs α γ)
    (fb : DataName) (scratch : Bool) (fault : Option Nat) (mf : Bool) (e : Err)
    (h : (toScratch c s fb scratch fault mf).2 = .err e) :
    let s' := (toScratch c s fb scratch fault mf).1
    s'.bin = s.bin ∧ s'.cbin = s.cbin ∧ s'.ch = s.ch ∧ s'.cbinTmp = s.cbinTmp ∧ s'.sbin = s.sbin ∧
    (scratch = true → s'.binTemp = s.binTemp) ∧ (scratch = false → s'.sbinTemp = s.sbinTemp ∧ s'.smeta = s.smeta) := by
  have hcases := toScratch_cases c s fb scratch fault mf
  simp only at hcases
  rcases hcases with ⟨hr, _⟩ | ⟨e', _, hr, _⟩ | ⟨cs, j, _, _, _, _, _, _, hr⟩ | ⟨cs, _, _, _, _, _, hr⟩ |
    ⟨cs, _, _, _, _, _, hr⟩
  · rw [hr] at h; simp at h
  · rw [hr]; cases scratch <;> simp
  · rw [hr]; cases scratch <;> simp
  · rw [hr] at h; simp at h
  · rw [hr]; cases scratch <;> simp

/-- A failing `decompress_file` (also the plain one) leaves its source `x.cbin` / `x.ch` untouched. -/
theorem decompress_failure_keeps_source [DecidableEq γ] (c : Codec α γ) (s : Fs α γ) (fb : DataName)
    (keep : Bool) (out : OutName) (overwrite : Bool) (fault : Option Nat) (e : Err)
    (h : (decompressFile c s fb keep out overwrite fault).2 = .err e) :
    (decompressFile c s fb keep out overwrite fault).1.cbin = s.cbin ∧
    (decompressFile c s fb keep out overwrite fault).1.ch = s.ch := by
  have hcases := decompressFile_cases c s fb keep out overwrite fault
  simp only at hcases
  rcases hcases with ⟨e', _, hr⟩ | ⟨cs, j, _, _, _, _, _, hr⟩ | ⟨cs, _, _, _, _, hr⟩
  · simp [hr]
  · rw [hr]; cases out <;> simp [Fs.setOut]
  · rw [hr] at h; cases keep <;> simp at h

/-- In-place compression (`keep_original=False`): if the call removed the source `x.bin` (content `l`), then
it succeeded and `x.cbin` is the complete compressed image of `l`, described by `x.ch`, and decodes to `l` — for every
fault point, including a failure of the rename itself (the code renames first and unlinks afterwards). -/
theorem inplace_compress_removes_source_only_after_complete [DecidableEq α] [DecidableEq γ]
    (c : Codec α γ) (hc : c.Lossless) (s : Fs α γ) (fb : DataName) (keep : Bool) (fault : Option Nat) (rf : Bool)
    (l : List α) (hsrc : s.bin = some l) (hgone : (compressFile c s fb keep fault rf).1.bin = none) :
    let r := compressFile c s fb keep fault rf
    r.2.2 = .ok ∧ keep = false ∧ r.1.cbin = some (l.map c.enc) ∧ r.1.ch = some (l.map c.enc) ∧
    recording c r.1 .cbin = some l ∧ r.2.1 = .cbin := by
  have hcases := compressFile_cases c hc s fb keep fault rf
  simp only at hcases
  rcases hcases with ⟨hr, _⟩ | ⟨l', j, _, _, _, _, _, hr⟩ | ⟨l', _, hl', _, _, hr⟩ | ⟨l', _, _, _, _, hr⟩
  · rw [hr] at hgone; simp [hsrc] at hgone
  · rw [hr] at hgone; simp [hsrc] at hgone
  · have : l' = l := by simp_all
    subst this
    cases keep
    · simp [hr, recording, map_dec_enc c hc]
    · rw [hr] at hgone; simp at hgone
  · rw [hr] at hgone; simp [hsrc] at hgone

/-- In-place decompression (`keep_original=False`): if the call removed the source `x.cbin` (stream `cs`), then
it succeeded and `x.bin` is the complete decoded recording. -/
theorem inplace_decompress_removes_source_only_after_complete [DecidableEq γ]
    (c : Codec α γ) (s : Fs α γ) (fb : DataName) (keep overwrite : Bool) (fault : Option Nat)
    (cs : List γ) (hsrc : s.cbin = some cs)
    (hgone : (decompressFile c s fb keep .bin overwrite fault).1.cbin = none) :
    let r := decompressFile c s fb keep .bin overwrite fault
    r.2 = .ok ∧ keep = false ∧ r.1.bin = some (cs.map c.dec) := by
  have hcases := decompressFile_cases c s fb keep .bin overwrite fault
  simp only at hcases
  rcases hcases with ⟨e', _, hr⟩ | ⟨cs', j, _, _, _, _, _, hr⟩ | ⟨cs', _, hcs', _, _, hr⟩
  · rw [hr] at hgone; simp [hsrc] at hgone
  · rw [hr] at hgone; simp [Fs.setOut, hsrc] at hgone
  · have : cs' = cs := by simp_all
    subst this
    cases keep
    · simp [hr, Fs.setOut]
    · rw [hr] at hgone; simp [Fs.setOut, hsrc] at hgone

/-! ## Lossless round trip -/

/-- `compress_file` followed by `decompress_file` reproduces the CURRENT content `b` of `x.bin` chunk for chunk (byte
for byte), from ANY directory `s` — whatever stale `x.cbin`/`x.ch`/`x.cbin_tmp` of an earlier content it holds —
for both values of `keep_original` on either side; when the original was kept the decompression needs
`overwrite=True` (otherwise mtscomp refuses with `ValueError` and nothing changes). -/
theorem roundtrip [DecidableEq α] [DecidableEq γ] (c : Codec α γ) (hc : c.Lossless) (s : Fs α γ)
    (b : List α) (hb : s.bin = some b) (hne : b ≠ []) (keep₁ keep₂ overwrite : Bool)
    (hov : keep₁ = true → overwrite = true) :
    let s₁ := (step c s (.compress .bin keep₁ none false))
    let s₂ := (step c s₁.1 (.decompress .cbin keep₂ overwrite none))
    s₁.2.2 = .ok ∧ s₂.2.2 = .ok ∧ s₂.1.bin = some b ∧
    s₁.1.cbin = some (b.map c.enc) ∧ s₁.1.ch = some (b.map c.enc) ∧
    (keep₁ = false → s₁.1.bin = none) ∧ (keep₂ = false → s₂.1.cbin = none ∧ s₂.1.ch = none) := by
  have hd := map_dec_enc c hc b
  cases b with
  | nil => exact absurd rfl hne
  | cons a t =>
    cases keep₁ <;> cases keep₂ <;> cases overwrite <;>
      simp_all [step, compressFile, decompressFile, writeChunks, Fs.setOut, Fs.getOut]

/-- Without `overwrite`, decompressing next to a kept original is refused and changes nothing. -/
theorem decompress_refuses_existing_output [DecidableEq γ] (c : Codec α γ) (s : Fs α γ) (keep : Bool)
    (fault : Option Nat) (cs : List γ) (l : List α) (h1 : s.cbin = some cs) (h2 : s.ch = some cs)
    (h3 : s.bin = some l) :
    decompressFile c s .cbin keep .bin false fault = (s, .err .valueError) := by
  simp [decompressFile, h1, h2, h3, Fs.getOut]

/-! ## Path resolution -/

/-- `Reader(x.meta)` resolves to a data file iff one exists. -/
theorem resolve_meta_iff_data_exists (s : Fs α γ) :
    (∃ d, resolve s .metaFile = .ok (some d)) ↔ (s.bin.isSome ∨ s.cbin.isSome) := by
  constructor
  · rintro ⟨d, hd⟩
    cases hb : s.bin <;> cases hc : s.cbin <;> simp_all [resolve]
  · intro h
    cases hb : s.bin <;> cases hc : s.cbin <;> simp_all [resolve]

/-- ...and then to exactly the file that handing that data file to the reader resolves to (`x.cbin` only when
there is no `x.bin`). -/
theorem resolve_meta_same_file (s : Fs α γ) (d : DataName) (h : resolve s .metaFile = .ok (some d)) :
    resolve s d.toEntry = .ok (some d) ∧
    (d = .cbin → s.bin = none) := by
  cases d <;> cases hb : s.bin <;> cases hc : s.cbin <;> simp [resolve, hb, hc, DataName.toEntry] at h ⊢

/-- ...and when it opens, the data file opens directly too and both readers see the same recording. -/
theorem resolve_meta_same_recording [DecidableEq γ] (c : Codec α γ) (s : Fs α γ) (d : DataName)
    (h : openReader s .metaFile = .ok (some d)) :
    openReader s d.toEntry = .ok (some d) ∧
    recordingVia c s .metaFile = recordingVia c s d.toEntry := by
  rcases openReader_some s _ d h with ⟨rfl, ⟨a, t, hb⟩, _⟩ | ⟨rfl, hc, hh, he⟩
  · have := openReader_bin_of s a t hb
    simp [recordingVia, this, DataName.toEntry]
  · have hb : s.bin = none := by
      rcases he with he | ⟨_, hb⟩
      · cases he
      · exact hb
    have := openReader_cbin_of s hb hc hh
    simp [recordingVia, this, DataName.toEntry]

/-- For every directory (every existence pattern and content of `x.bin`, `x.cbin`, `x.ch`; metadata present): opening
through the metadata file resolves to a data file iff one exists; it resolves to exactly the file that opening that
data file directly resolves to; and the recording seen through the two entry points is the same. -/
theorem resolve_agree [DecidableEq γ] (c : Codec α γ) (s : Fs α γ) :
    ((∃ d, resolve s .metaFile = .ok (some d)) ↔ (s.bin.isSome ∨ s.cbin.isSome)) ∧
    (∀ d, resolve s .metaFile = .ok (some d) → resolve s d.toEntry = .ok (some d) ∧ (d = .cbin → s.bin = none)) ∧
    (∀ d, openReader s .metaFile = .ok (some d) →
      openReader s d.toEntry = .ok (some d) ∧ recordingVia c s .metaFile = recordingVia c s d.toEntry) :=
  ⟨resolve_meta_iff_data_exists s, resolve_meta_same_file s, resolve_meta_same_recording c s⟩

/-- In every reachable state of the trace theorems, every entry point that opens yields the recording `b`,
and the metadata entry point always opens (for a non-empty recording): the compressed recording, its
uncompressed original and the metadata path are indistinguishable through `recordingVia`. -/
theorem all_entries_same_recording [DecidableEq α] [DecidableEq γ] (c : Codec α γ) (hc : c.Lossless)
    (b : List α) (hne : b ≠ []) (s0 : Fs α γ) (h0 : Published c b s0) (ops : List Op)
    (hops : ∀ o ∈ ops, o.inScope) :
    let s := run c s0 ops
    recordingVia c s .metaFile = some b ∧
    (∀ e d, openReader s e = .ok (some d) → recordingVia c s e = some b) := by
  intro s
  have h : Published c b s := published_run c hc b ops s0 h0 hops
  have hd := map_dec_enc c hc b
  have key : ∀ e d, openReader s e = .ok (some d) → recordingVia c s e = some b := by
    intro e d he
    simp only [recordingVia, he]
    rcases openReader_some s e d he with ⟨rfl, ⟨a, t, hb⟩, _⟩ | ⟨rfl, hcb, hh, _⟩
    · rcases h.bin with hn | hs
      · simp [hn] at hb
      · simp [recording, hs]
    · have hch := h.hdr hcb
      rcases h.cbin with hn | hs
      · simp [hn] at hcb
      · simp [recording, hs, hch, hd]
  refine ⟨?_, key⟩
  obtain ⟨a, t, rfl⟩ : ∃ a t, b = a :: t := by
    cases b with
    | nil => exact absurd rfl hne
    | cons a t => exact ⟨a, t, rfl⟩
  rcases h.bin with hn | hs
  · rcases h.held with hb | ⟨hcb, hch⟩
    · simp [hn] at hb
    · exact key _ _ (openReader_cbin_of s hn (by simp [hcb]) (by simp [hch])).1
  · exact key _ _ (openReader_bin_of s a t hs).1

/-! ## Transparency of reads

`Reader.read` is `post (self._raw[nsel, :])` with the same `post` (cast, channel selection, gains, sync) for both
backends; `_raw` is the memory map of `x.bin` (rows = concatenation of the chunks) or the mtscomp reader of
`x.cbin` (chunks decoded on demand).  A chunk is a non-empty list of rows (`ρ` arbitrary). -/

/-- For every recording (any number of chunks of any sizes, any content), every lossless codec, every
post-processing and every sample selector with a positive or absent step (any start/stop: negative, `None`,
beyond the end, on, next to or across chunk bounds) or an integer `≥ -n`: reading the compressed file gives
exactly what reading the uncompressed original gives — the same rows, or the same error. -/
theorem transparent_read {ρ γ β : Type} (c : Codec (List ρ) γ) (hc : c.Lossless)
    (chunks : List (List ρ)) (hne : ∀ ch ∈ chunks, ch ≠ []) (post : Block ρ → β) (nsel : NSel)
    (hsel : nsel.transparent chunks.flatten.length) :
    readM (rawCbin ((chunks.map c.enc).map c.dec)) post nsel = readM (rawBin chunks.flatten) post nsel := by
  rw [map_dec_enc c hc chunks]
  cases nsel with
  | index i => simp only [readM, rawCbin, rawBin, mtsIndex_eq_npIndex chunks hne i hsel]
  | slice a b st => simp only [readM, rawCbin, rawBin, mtsSlice_eq_npSlice chunks hne a b st hsel]

/-- Same shape: the compressed reader reports the number of rows of the original. -/
theorem transparent_shape {ρ γ : Type} (c : Codec (List ρ) γ) (hc : c.Lossless) (chunks : List (List ρ)) :
    ((chunks.map c.enc).map c.dec).flatten.length = chunks.flatten.length := by
  rw [map_dec_enc c hc chunks]

/-- Same shape under a possibly INCONSISTENT metadata file: whatever sample count `x.meta` announces (more or fewer
samples than are on disk), the reader of `x.cbin` and the reader of `x.bin` expose the same sample count — the number
of complete frames on disk (`frame` bytes per sample, `extra < frame` trailing bytes of an incomplete frame in
`x.bin`): the `.ch` sample count for the compressed file, C11's floor rule for the binary. -/
theorem transparent_shape_any_meta {ρ γ : Type} (c : Codec (List ρ) γ) (hc : c.Lossless) (chunks : List (List ρ))
    (metaNs frame extra : Nat) (hextra : extra < frame) :
    openNsCbin metaNs ((chunks.map c.enc).map c.dec).flatten.length = chunks.flatten.length ∧
    openNsBin metaNs frame (chunks.flatten.length * frame + extra) = chunks.flatten.length := by
  rw [map_dec_enc c hc chunks]
  have hf : 0 < frame := by omega
  have hdiv : (chunks.flatten.length * frame + extra) / frame = chunks.flatten.length := by
    rw [Nat.mul_comm, Nat.mul_add_div hf, Nat.div_eq_of_lt hextra, Nat.add_zero]
  refine ⟨by unfold openNsCbin; split <;> simp_all, ?_⟩
  unfold openNsBin
  split
  · exact hdiv
  · rename_i h
    have h' : metaNs * frame = chunks.flatten.length * frame + extra := by simpa using h
    have := congrArg (· / frame) h'
    simp only [Nat.mul_div_cancel _ hf, hdiv] at this
    exact this

/-- Non-vacuity: a 7-sample recording whose metadata announces 9 (and 5) samples. -/
example : openNsCbin 9 7 = 7 ∧ openNsBin 9 6 42 = 7 ∧ openNsCbin 5 7 = 7 ∧ openNsBin 5 6 (42 + 3) = 7 ∧ openNsBin 7 6 42 = 7 := by
  decide

/-- F17 (known finding `cbin_negative_step_sample_slice`): with a negative step the compressed backend returns
no rows at all, for every recording and every start/stop … -/
theorem negative_step_empty_on_cbin {ρ : Type} (chunks : List (List ρ)) (start stop : Option Int) (step : Int)
    (h : step < 0) : rawCbin chunks (.slice start stop (some step)) = .ok (.rows []) := by
  simp [rawCbin, mtsSlice_neg_step chunks start stop step h, Except.map]

/-- … while the uncompressed one returns the reversed rows: `sr[::-1]` on three samples in two chunks. -/
theorem negative_step_counterexample :
    rawCbin [[1, 2], [3]] (.slice none none (some (-1))) = .ok (.rows []) ∧
    rawBin [1, 2, 3] (.slice none none (some (-1))) = .ok (.rows [3, 2, 1]) :=
  ⟨rfl, rfl⟩

/-- Known finding `cbin_int_sample_index_below_minus_ns_wraps`: an integer below `-n` is wrapped modulo `n` by the
compressed backend (`sr[-4]` on three samples is the last row) and is an `IndexError` on the uncompressed one. -/
theorem int_below_minus_n_counterexample :
    rawCbin [[1, 2], [3]] (.index (-4)) = .ok (.row 3) ∧
    rawBin [1, 2, 3] (.index (-4)) = .error .indexError :=
  ⟨rfl, rfl⟩

/-- Non-vacuity of `transparent_read`: a slice across a chunk bound with a step, and a negative integer. -/
example : rawCbin [[1, 2, 3], [4, 5], [6]] (.slice (some (-5)) none (some 2)) = .ok (.rows [2, 4, 6]) ∧
    rawBin [1, 2, 3, 4, 5, 6] (.slice (some (-5)) none (some 2)) = .ok (.rows [2, 4, 6]) ∧
    rawCbin [[1, 2, 3], [4, 5], [6]] (.index (-6)) = .ok (.row 1) ∧
    (NSel.slice (some (-5)) none (some 2)).transparent 6 ∧ (NSel.index (-6)).transparent 6 :=
  ⟨rfl, rfl, rfl, by simp [NSel.transparent], by simp [NSel.transparent]⟩

/-! ## Scope of the atomicity claim (why faults inside the plain `decompress_file` are excluded) -/

/-- The plain `decompress_file` is not atomic: a fault leaves a partial file under the final name `x.bin`
(the property does not claim otherwise; `decompress_to_scratch` is the atomic variant). -/
theorem plain_decompress_not_atomic :
    let c : Codec Nat Nat := ⟨id, id⟩
    (step c (initCbin c [1, 2, 3]) (.decompress .cbin true false (some 1))).1.bin = some [1] := by
  decide

/-- ...and a later in-place compression of that torn `x.bin` replaces the complete `x.cbin`: after
`[decompress_file (fault after 1 chunk), compress_file(keep_original=False)]` only a compressed file of the
first chunk is left.  Each call honours its own contract (its source was the torn file); the sequence loses
data, which is why `Op.inScope` excludes faults of the non-atomic call. -/
theorem torn_bin_recompressed_counterexample :
    let c : Codec Nat Nat := ⟨id, id⟩
    let s := run c (initCbin c [1, 2, 3]) [.decompress .cbin true false (some 1), .compress .bin false none false]
    s.bin = none ∧ s.cbin = some [1] := by
  decide

/-! ## The order of effects; interruption between ANY two effects

`compressCalls`, `decompressCalls`, `toScratchCalls` are the call lists of the three functions (equal to the event sequences
regenerated from the source text on every run: `IblVerif.Tie.C02`); `prims` refines them into primitive effects on the
directory; `crashCompress … k` etc. is the directory after exactly `k` primitive effects (power loss, `kill -9`, or an
exception raised by whatever comes next). -/

/-- The step functions of the file-state machine — what the correspondence run compares with the real code and what the
trace theorems above are about — ARE the interpretation of the effect lists: for every directory, reader, flag and every
fault point (chunk `j`, failing rename / move) the directory they return is the one reached by the corresponding prefix of
the primitive effects. -/
theorem steps_interpret_effect_lists [DecidableEq α] [DecidableEq γ] (c : Codec α γ) (hc : c.Lossless) (s : Fs α γ)
    (fb : DataName) (keep ov scratch : Bool) (fault : Option Nat) (pf : Bool) :
    (∀ l, s.bin = some l →
      (compressFile c s fb keep fault pf).1 = crashCompress c s fb keep (compressCrashPoint l.length fault pf)) ∧
    (∀ n, HdrOk s → (∀ cs, s.cbin = some cs → n = cs.length) →
      (toScratch c s fb scratch fault pf).1 = crashToScratch c s fb scratch
        (toScratchCrashPoint scratch (s.getOut (if scratch then .sbinTemp else .binTemp)).isSome n fault pf) ∧
      (decompressFile c s fb keep .bin ov fault).1 = crashDecompress c s fb keep ov
        (decompressCrashPoint (ov && s.bin.isSome) n fault)) :=
  ⟨fun l hl => compressFile_eq_crash c hc s fb keep fault pf l hl,
   fun n hh hn => ⟨toScratch_eq_crash c s fb scratch fault pf hh n hn, decompressFile_eq_crash c s fb keep ov fault hh n hn⟩⟩

/-- `compress_file` interrupted after ANY number `k` of primitive effects (inside the chunk loop, between the last chunk and the
header, between the header and the rename, between the rename and the removal of the source, …), from any directory, for
both values of `keep_original`:
the source `x.bin` is intact — or it has been removed, and then (in-place variant only) `x.cbin` is already the complete
compressed image described by `x.ch` and no `x.cbin_tmp` is left: the source is removed only AFTER the rename;
`x.cbin` is the file that was there before or the complete new one, never a partial one;
nothing but `x.cbin_tmp`, `x.cbin`, `x.ch`, `x.bin` is touched. -/
theorem compress_interrupted_anywhere (c : Codec α γ) (s : Fs α γ) (fb : DataName) (keep : Bool) (k : Nat)
    (l : List α) (hl : s.bin = some l) :
    let s' := crashCompress c s fb keep k
    (s'.bin = some l ∨
      (keep = false ∧ s'.bin = none ∧ s'.cbin = some (l.map c.enc) ∧ s'.ch = some (l.map c.enc) ∧ s'.cbinTmp = none)) ∧
    (s'.cbin = s.cbin ∨ (s'.cbin = some (l.map c.enc) ∧ s'.ch = some (l.map c.enc) ∧ s'.cbinTmp = none)) ∧
    (s'.ch = s.ch ∨ s'.ch = some (l.map c.enc)) ∧
    s'.binTemp = s.binTemp ∧ s'.sbin = s.sbin ∧ s'.sbinTemp = s.sbinTemp ∧ s'.smeta = s.smeta := by
  intro s'
  have h := crashCompress_cases c s fb keep k
  simp only at h
  rcases h with h | ⟨l', _, hl', _, h⟩
  · have : s' = s := h
    rw [this]; simp [hl]
  · have e : l' = l := by rw [hl] at hl'; exact (Option.some.inj hl').symm
    subst e
    rcases h with ⟨m, _, h⟩ | h | h | ⟨hk, h⟩
    · have : s' = _ := h
      rw [this]; simp [hl]
    · have : s' = _ := h
      rw [this]; simp [hl]
    · have : s' = _ := h
      rw [this]; simp [hl]
    · have : s' = _ := h
      rw [this]; simp [hk]

/-- `decompress_to_scratch` (in place or to a scratch directory) interrupted after ANY number of primitive effects: the
compressed source and its header are untouched, the files of the other directory are untouched, and the target `.bin` is
what it was before — or (after the very last effect, the move) the complete decompressed recording: no file carrying the
final name exists unless it is complete. -/
theorem toScratch_interrupted_anywhere (c : Codec α γ) (s : Fs α γ) (fb : DataName) (scratch : Bool) (k : Nat) :
    let s' := crashToScratch c s fb scratch k
    s'.cbin = s.cbin ∧ s'.ch = s.ch ∧
    (scratch = true → s'.bin = s.bin ∧
      (s'.sbin = s.sbin ∨ (s.sbin = none ∧ ∃ cs, s.cbin = some cs ∧ s'.sbin = some (cs.map c.dec) ∧ s'.sbinTemp = none))) ∧
    (scratch = false → s'.sbin = s.sbin ∧
      (s'.bin = s.bin ∨ (s.bin = none ∧ ∃ cs, s.cbin = some cs ∧ s'.bin = some (cs.map c.dec) ∧ s'.binTemp = none))) := by
  intro s'
  have h := crashToScratch_spec c s fb scratch k
  simp only at h
  rcases h with h | ⟨cs, _, hcb, _, hpres, h1, h2, h3⟩
  · exact ⟨h.cbin, h.ch, fun _ => ⟨h.bin, Or.inl h.sbin⟩, fun _ => ⟨h.sbin, Or.inl h.bin⟩⟩
  · refine ⟨h1, h2, ?_, ?_⟩
    · intro hs; subst hs
      simp only [if_true] at h3 hpres
      exact ⟨h3.1, Or.inr ⟨hpres, cs, hcb, h3.2.1, h3.2.2⟩⟩
    · intro hs; subst hs
      simp only [Bool.false_eq_true, if_false] at h3 hpres
      exact ⟨h3.1, Or.inr ⟨hpres, cs, hcb, h3.2.1, h3.2.2⟩⟩

/-- `decompress_file` (default output `x.bin`) interrupted after ANY number of primitive effects: the compressed source
`x.cbin` and its header `x.ch` are intact — or (in-place variant only) `x.cbin` has been removed and `x.bin` is already the
complete decoded recording: the in-place variant removes its source only once the replacement is complete. -/
theorem decompress_interrupted_anywhere (c : Codec α γ) (s : Fs α γ) (fb : DataName) (keep ov : Bool) (k : Nat) :
    let s' := crashDecompress c s fb keep ov k
    (s'.cbin = s.cbin ∧ s'.ch = s.ch) ∨
    (keep = false ∧ ∃ cs, s.cbin = some cs ∧ s'.bin = some (cs.map c.dec) ∧ s'.cbin = none) :=
  crashDecompress_spec c s fb keep ov k

/-- The trace theorem with interruptions between ANY two effects: in every state reachable from a directory holding the
recording `b` by any sequence of calls in scope — each running to its end, or stopped at one of the injected fault points,
or (compression, decompression to scratch) stopped after an arbitrary number of primitive effects — every file carrying a
final name is absent or complete, and the recording is held by a complete file. -/
theorem final_names_complete_any_interruption [DecidableEq α] [DecidableEq γ] (c : Codec α γ) (hc : c.Lossless)
    (b : List α) (s0 : Fs α γ) (h0 : Published c b s0) (ops : List XOp) (hops : ∀ o ∈ ops, o.inScope) :
    let s := runX c s0 ops
    (s.cbin = none ∨ (s.cbin = some (b.map c.enc) ∧ s.ch = some (b.map c.enc))) ∧
    (s.bin = none ∨ s.bin = some b) ∧
    (s.sbin = none ∨ s.sbin = some b) ∧
    (recording c s .bin = some b ∨ recording c s .cbin = some b) := by
  intro s
  have h : Published c b s := published_runX c hc b ops s0 h0 hops
  refine ⟨?_, h.bin, h.sbin, ?_⟩
  · rcases h.cbin with hn | hs
    · exact Or.inl hn
    · exact Or.inr ⟨hs, by have := h.hdr (by simp [hs]); rw [this, hs]⟩
  · rcases h.held with hb | ⟨hcb, hch⟩
    · exact Or.inl hb
    · right; simp [recording, hcb, hch, map_dec_enc c hc b]

/-- Why the header is not part of `compress_interrupted_anywhere`'s "old or complete" statement for `x.cbin`: mtscomp writes
`x.ch` under its final name BEFORE the rename.  Compress (keeping the original), rewrite `x.bin`, compress again and stop after
the header was written (4 = 2 chunks + create + header): the stale `x.cbin` is complete and still there, `x.ch` now describes
the new `x.cbin_tmp` (known finding, same mechanism as `rename_failure_next_to_stale_cbin_counterexample`). -/
theorem interrupted_after_header_next_to_stale_cbin_counterexample :
    let c : Codec Nat Nat := ⟨(· + 10), (· - 10)⟩
    let g := runE c { fs := initBin [1, 2], versions := [[1, 2]], cur := [1, 2] }
      [.call (.compress .bin true none false), .rewrite [7, 8]]
    let s := crashCompress c g.fs .bin true 4
    s.bin = some [7, 8] ∧ s.cbin = some [11, 12] ∧ s.ch = some [17, 18] ∧ s.cbinTmp = some [17, 18] := by
  decide

/-- The order of the calls, as data (complete finite tables): in `compress_file` the rename of `x.cbin_tmp` precedes the
removal of the source and follows the compression; in `decompress_file` the decompression precedes the removal of `x.cbin`,
which precedes that of `x.ch`; in `decompress_to_scratch` the metadata copy and the decompression to the temporary name
precede the move, and nothing is done to an existing target beyond the copy. -/
theorem call_order :
    (∀ keep, (compressCalls keep).idxOf .mtsCompress < (compressCalls keep).idxOf .renameTmp ∧
      ((compressCalls keep).idxOf .renameTmp < (compressCalls keep).idxOf .unlinkBin ∨ Call.unlinkBin ∉ compressCalls keep)) ∧
    (∀ keep out ov, (decompressCalls keep out ov).idxOf (.mtsDecompress out ov) < (decompressCalls keep out ov).idxOf .unlinkCbin ∧
      ((decompressCalls keep out ov).idxOf .unlinkCbin < (decompressCalls keep out ov).idxOf .unlinkCh ∨
        Call.unlinkCbin ∉ decompressCalls keep out ov)) ∧
    (∀ scratch, (toScratchCalls scratch false).idxOf (.decompressFile true (if scratch then .sbinTemp else .binTemp) true)
        < (toScratchCalls scratch false).idxOf (.moveTemp scratch) ∧
      toScratchCalls scratch true = (if scratch then [.mkdirScratch, .copyMeta] else [])) := by
  refine ⟨fun keep => ?_, fun keep out ov => ?_, fun scratch => ?_⟩
  · cases keep <;> decide
  · cases keep <;> cases out <;> cases ov <;> decide
  · cases scratch <;> decide

/-! ## Path names (every recording name `x.<ext>`: any non-empty stem `x`, dots allowed inside; `FsPath`) -/

/-- The names the three functions derive with `with_suffix` are SIBLINGS of the recording: from `x.<ext>`,
`file_tmp = x.cbin_tmp`, `file_out = file_tmp.with_suffix(".cbin") = x.cbin` (the very name `file_bin.with_suffix(".cbin")`
a reader of `x.meta` looks for), the header `x.ch`; from `x.cbin`, the target `x.bin`, its temporary sibling `x.bin_temp`
and the copied `x.meta` — also when the stem contains dots (`rec_g0_t0.imec0.ap`) or the word `cbin`. -/
theorem derived_names_are_siblings (x t : FsPath.Name) (hx : x ≠ []) (ht : t ≠ []) (hd : FsPath.Dotless t) :
    FsPath.withSuffix (x ++ '.' :: t) FsPath.sCbinTmp = some (x ++ FsPath.sCbinTmp) ∧
    FsPath.withSuffix (x ++ FsPath.sCbinTmp) FsPath.sCbin = some (x ++ FsPath.sCbin) ∧
    FsPath.withSuffix (x ++ '.' :: t) FsPath.sCbin = some (x ++ FsPath.sCbin) ∧
    FsPath.withSuffix (x ++ '.' :: t) FsPath.sCh = some (x ++ FsPath.sCh) ∧
    FsPath.withSuffix (x ++ '.' :: t) FsPath.sBin = some (x ++ FsPath.sBin) ∧
    FsPath.withSuffix (x ++ FsPath.sBin) FsPath.sBinTemp = some (x ++ FsPath.sBinTemp) ∧
    FsPath.withSuffix (x ++ FsPath.sBin) FsPath.sMeta = some (x ++ FsPath.sMeta) := by
  have h := FsPath.withSuffix_literals x t hx ht hd
  have h1 := FsPath.withSuffix_literals x ['c', 'b', 'i', 'n', '_', 't', 'm', 'p'] hx (by decide) (by decide)
  have h2 := FsPath.withSuffix_literals x ['b', 'i', 'n'] hx (by decide) (by decide)
  exact ⟨h.2.2.1, h1.2.1, h.2.1, h.2.2.2.1, h.1, h2.2.2.2.2.1, h2.2.2.2.2.2⟩

/-- `Reader.is_mtscomp` (`"cbin" in suffix`) on the derived names, for every stem — in particular a stem that itself
contains `cbin` does not make `x.bin` a compressed file.  (The temporary `x.cbin_tmp` also answers `True`.) -/
theorem is_mtscomp_on_derived_names (x : FsPath.Name) (hx : x ≠ []) :
    FsPath.isMtscomp (x ++ FsPath.sCbin) = true ∧ FsPath.isMtscomp (x ++ FsPath.sBin) = false ∧
    FsPath.isMtscomp (x ++ FsPath.sMeta) = false ∧ FsPath.isMtscomp (x ++ FsPath.sCh) = false ∧
    FsPath.isMtscomp (x ++ FsPath.sBinTemp) = false ∧ FsPath.isMtscomp (x ++ FsPath.sCbinTmp) = true :=
  FsPath.isMtscomp_literals x hx

/-- Companion lookup: from the data file, the compressed file or the metadata file of the same recording (any extension
`<ext>`), `_get_companion_file(·, '.meta')` is the same `x.meta` whenever it exists, and `Reader.open` finds the header
`x.ch` of `x.cbin` whenever it exists (no glob involved, whatever else the directory holds). -/
theorem companions_agree (dir : List FsPath.Name) (x t st : FsPath.Name) (hx : x ≠ []) (ht : t ≠ [])
    (hd : FsPath.Dotless t) :
    ((x ++ FsPath.sMeta) ∈ dir → FsPath.companion dir (x ++ '.' :: t) FsPath.sMeta st = some (x ++ FsPath.sMeta)) ∧
    ((x ++ FsPath.sCh) ∈ dir → FsPath.chFile dir (x ++ FsPath.sCbin) st = some (x ++ FsPath.sCh)) :=
  ⟨fun h => FsPath.companion_direct dir x t _ st hx ht hd (by decide) h,
   fun h => FsPath.companion_direct dir x ['c', 'b', 'i', 'n'] _ st hx (by decide) (by decide) (by decide) h⟩

/-- The data file `Reader.__init__` chooses, on NAMES, is the abstract `resolve` of the file-state machine: for every
directory state `s` of the recording `x` (listing `dirOf x s`), handing `x.meta` yields `x.bin` if it exists, else `x.cbin`
if it exists, else no data file; handing an existing data file yields that file. -/
theorem resolve_on_names (x st : FsPath.Name) (hx : x ≠ []) (s : Fs α γ) :
    (∀ fbo, resolve s .metaFile = .ok fbo →
      FsPath.resolveName (FsPath.dirOf x s) (x ++ FsPath.sMeta) st = some (fbo.map (FsPath.dataName x))) ∧
    (∀ d : DataName, FsPath.resolveName (FsPath.dirOf x s) (FsPath.dataName x d) st = some (some (FsPath.dataName x d))) := by
  have hm := FsPath.mem_dirOf x s
  constructor
  · intro fbo h
    rw [FsPath.resolveName_meta _ x st hx hm.1]
    have hb := hm.2.1
    have hcb := hm.2.2.1
    cases h1 : s.bin <;> cases h2 : s.cbin <;> simp [resolve, h1, h2] at h hb hcb <;> subst h <;>
      simp [hb, hcb, FsPath.dataName]
  · intro d
    cases d
    · exact FsPath.resolveName_data _ x ['b', 'i', 'n'] st hx (by decide) (by decide) (by decide) hm.1
    · exact FsPath.resolveName_data _ x ['c', 'b', 'i', 'n'] st hx (by decide) (by decide) (by decide) hm.1

/-! ## Non-vacuity -/

/-- A three-chunk recording: in-place compression interrupted at chunk 2, then failing at the rename (source and reader
untouched, `x.cbin_tmp` complete), then completed; decompression to scratch interrupted at chunk 1, then failing at the
move (`scratch/x.bin_temp` complete, nothing published), then completed. -/
example :
    let c : Codec Nat Nat := ⟨(· + 10), (· - 10)⟩
    let ops : List Op := [.compress .bin false (some 2) false, .compress .bin false none true, .compress .bin false none false,
                          .toScratch .cbin true (some 1) false, .toScratch .cbin true none true, .toScratch .cbin true none false]
    let st (n : Nat) := run c (initBin [1, 2, 3]) (ops.take n)
    c.Lossless ∧ (∀ o ∈ ops, o.inScope) ∧
    (st 1).cbinTmp = some [11, 12] ∧ (st 1).cbin = none ∧
    (st 2).bin = some [1, 2, 3] ∧ (st 2).cbin = none ∧ (st 2).cbinTmp = some [11, 12, 13] ∧
    (step c (st 1) (.compress .bin false none true)).2 = (.bin, .err .osError) ∧
    (st 3).bin = none ∧ (st 3).cbin = some [11, 12, 13] ∧
    (st 4).sbinTemp = some [1] ∧ (st 4).sbin = none ∧
    (st 5).sbinTemp = some [1, 2, 3] ∧ (st 5).sbin = none ∧
    (st 6).sbin = some [1, 2, 3] := by
  refine ⟨fun a => by simp, by decide, by decide, by decide, by decide, by decide, by decide, by decide, by decide,
    by decide, by decide, by decide, by decide, by decide, by decide⟩

example : recordingVia (⟨id, id⟩ : Codec Nat Nat) (initCbin ⟨id, id⟩ [1, 2]) .metaFile = some [1, 2] := by decide

/-- Non-vacuity of the interruption theorems: a three-chunk recording compressed in place and stopped after 4 effects (all
chunks written, no header yet), after 5 (header written, not renamed), after 6 (renamed, source still there), after 7 (done);
and a history mixing a crash between the rename and the unlink with a later complete call. -/
example :
    let c : Codec Nat Nat := ⟨(· + 10), (· - 10)⟩
    let s0 : Fs Nat Nat := initBin [1, 2, 3]
    (crashCompress c s0 .bin false 4).cbinTmp = some [11, 12, 13] ∧ (crashCompress c s0 .bin false 4).ch = none ∧
    (crashCompress c s0 .bin false 5).ch = some [11, 12, 13] ∧ (crashCompress c s0 .bin false 5).cbin = none ∧
    (crashCompress c s0 .bin false 6).cbin = some [11, 12, 13] ∧ (crashCompress c s0 .bin false 6).bin = some [1, 2, 3] ∧
    (crashCompress c s0 .bin false 7).bin = none ∧
    (runX c s0 [.crashCompress .bin false 6, .op (.compress .bin false none false), .crashToScratch .cbin true 3,
                .op (.toScratch .cbin true none false)]).sbin = some [1, 2, 3] ∧
    (∀ o ∈ [XOp.crashCompress .bin false 6, .op (.compress .bin false none false)], o.inScope) := by
  refine ⟨by decide, by decide, by decide, by decide, by decide, by decide, by decide, by decide, ?_⟩
  intro o ho
  simp at ho
  rcases ho with rfl | rfl <;> simp [XOp.inScope, Op.inScope]

/-- Non-vacuity of the path theorems: `rec_g0_t0.imec0.ap.bin`-like names (several dots) and a stem containing `cbin`. -/
example :
    FsPath.withSuffix "rec.imec0.ap.bin".toList FsPath.sCbinTmp = some "rec.imec0.ap.cbin_tmp".toList ∧
    FsPath.isMtscomp "my.cbin.ap.bin".toList = false ∧ FsPath.isMtscomp "my.cbin.ap.cbin".toList = true ∧
    FsPath.suffix "rec.".toList = [] ∧ FsPath.suffix ".bin".toList = [] := by
  refine ⟨by decide, by decide, by decide, by decide, by decide⟩

end IblVerif.C02
