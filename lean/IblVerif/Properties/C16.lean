/-
C16 — Saturation flags follow the proportion rule and the mute gain covers them
(`ibldsp.voltage.saturation`, model in `Model/Saturation.lean`).

Property theorems only; helper lemmas are in `Lemmas/Saturation.lean`, `Lemmas/SaturationBatch.lean`,
`Lemmas/SaturationFullScale.lean`, `Analysis/Mute.lean` and `Analysis/MuteShape.lean`.

* Flags: for EVERY `[nc, ns]` array `x`, every scalar or per-channel range and every instance `ops` of the
  element-wise arithmetic (so in particular the four IEEE instances the driver executes, `ops6464` …).
* Mute gain: over ℝ, for EVERY non-negative window, every flag vector and every sample.
-/
import IblVerif.Lemmas.Saturation
import IblVerif.Analysis.Mute
import IblVerif.Lemmas.SaturationBatch
import IblVerif.Lemmas.SaturationFullScale
import IblVerif.Analysis.MuteShape
import IblVerif.Generated.Constants

namespace IblVerif.C16
open IblVerif.Saturation

variable {α μ φ : Type}

/-- **Flags follow the proportion rule.**  The function returns one flag per sample, and sample `t` is flagged
exactly when the fraction of channels with `|x c t| > 0.98·range c` is greater than the proportion, or
(`t` not the last sample) the fraction of channels whose step into sample `t+1` reaches the slew limit is.
(For the last sample the code compares the literal `0` with the proportion — never true for a proportion ≥ 0.) -/
theorem flag_iff_rule (ops : Ops α μ φ) {nc ns : Nat} (x : Fin nc → Fin ns → α) (rg : Range μ nc) :
    ∃ fl, flags ops ns (toRows x) rg.toList = .ok fl ∧ fl.length = ns ∧
      ∀ (t : Nat) (ht : t < ns) (hl : t < fl.length),
        (fl[t] = true ↔
          ops.gt (ops.mean (countOver ops x rg.at ⟨t, ht⟩) nc) = true ∨
          (∃ h : t + 1 < ns, ops.gt (ops.mean (countSlew ops x t h) nc) = true) ∨
          (t + 1 = ns ∧ ops.gt ops.zero = true)) := by
  refine ⟨_, flags_eq_rule ops x rg, by simp, ?_⟩
  intro t ht hl
  simp only [List.getElem_ofFn, rule, Bool.or_eq_true]
  by_cases hn : t + 1 < ns
  · have hne : ¬ t + 1 = ns := by omega
    simp [hn, hne]
  · have : t + 1 = ns := by omega
    simp [this]

/-- The theorem applies verbatim to the IEEE instances the driver executes, e.g. float32 data against a float64
range (the production call): the mean is `Float.ofNat count / Float.ofNat nc`, compared with `> p`. -/
example (d64 vr : Bool) (factor fs v p : Float) {nc ns : Nat} (x : Fin nc → Fin ns → Float32) (rg : Range Float nc) :
    ∃ fl, flags (ops3264 d64 vr factor fs v p) ns (toRows x) rg.toList = .ok fl ∧ fl.length = ns ∧
      ∀ (t : Nat) (ht : t < ns) (hl : t < fl.length),
        (fl[t] = true ↔
          decide (Float.ofNat (countOver (ops3264 d64 vr factor fs v p) x rg.at ⟨t, ht⟩) / Float.ofNat nc > p) = true ∨
          (∃ h : t + 1 < ns, decide (Float.ofNat (countSlew (ops3264 d64 vr factor fs v p) x t h) / Float.ofNat nc > p) = true) ∨
          (t + 1 = ns ∧ decide ((0 : Float) > p) = true)) :=
  flag_iff_rule (ops3264 d64 vr factor fs v p) x rg

/-- The same with the proportion `a/b` tested in exact integers: "more than `a/b` of the `nc` channels"
is `count · b > a · nc`; the last sample is flagged by the 98 % criterion only. -/
theorem flag_iff_exact_rule (over : α → μ → Bool) (slew : α → α → Bool) (a b : Nat)
    {nc ns : Nat} (x : Fin nc → Fin ns → α) (rg : Range μ nc) :
    ∃ fl, flags (opsExact over slew a b) ns (toRows x) rg.toList = .ok fl ∧ fl.length = ns ∧
      ∀ (t : Nat) (ht : t < ns) (hl : t < fl.length),
        (fl[t] = true ↔
          countOver (opsExact over slew a b) x rg.at ⟨t, ht⟩ * b > a * nc ∨
          ∃ h : t + 1 < ns, countSlew (opsExact over slew a b) x t h * b > a * nc) := by
  obtain ⟨fl, h1, h2, h3⟩ := flag_iff_rule (opsExact over slew a b) x rg
  refine ⟨fl, h1, h2, ?_⟩
  intro t ht hl
  rw [h3 t ht hl]
  simp [opsExact]

/-- In the standard model of rounding (`fl` monotone with relative error ≤ `u`; float64: `u = 2⁻⁵³`) the test
the code performs, `fl(k/n) > fl(a/b)`, decides exactly `k·b > a·n` whenever `2·u·n·b < 1` — so for every
channel count the float64 instance of `flag_iff_rule` states the exact rational rule of `flag_iff_exact_rule`. -/
theorem proportion_test_exact (fl : ℝ → ℝ) (u : ℝ) (hmono : Monotone fl)
    (herr : ∀ x, |fl x - x| ≤ u * |x|) (k n a b : Nat) (hn : 0 < n) (hb : 0 < b) (hk : k ≤ n) (hab : a ≤ b)
    (hsmall : 2 * u * ((n : ℝ) * b) < 1) :
    fl ((k : ℝ) / n) > fl ((a : ℝ) / b) ↔ k * b > a * n :=
  rounded_mean_gt_iff fl u hmono herr k n a b hn hb hk hab hsmall

/-- non-vacuity of the rounding hypotheses: exact arithmetic is a rounding function with `u = 0` -/
example : (1 : ℝ) / 5 < 2 / 5 ∧ ((id : ℝ → ℝ) (((2 : Nat) : ℝ) / ((5 : Nat) : ℝ)) > id (((1 : Nat) : ℝ) / ((5 : Nat) : ℝ)) ↔ 2 * 5 > 1 * 5) :=
  ⟨by norm_num, proportion_test_exact id 0 monotone_id (by simp) 2 5 1 5 (by omega) (by omega) (by omega)
    (by omega) (by norm_num)⟩

/-- a 2-channel, 3-sample array in the exact arithmetic over ℤ (range 10 → threshold 9, slew limit 5,
proportion 1/2): only sample 1 has both channels over the threshold (flag 1); the step 0→1 is steep on both (flag 0);
the last sample is under the threshold and has no next sample. -/
example : flags (opsExact (fun (v m : Int) => v.natAbs > m.natAbs - 1) (fun a b => (b - a).natAbs ≥ 5) 1 2) 3
    [[0, 10, 0], [0, -10, 0]] [10] = .ok [true, true, false] := by decide

/-- **The mute gain lies in [0, 1]** (one value per sample), for every non-negative window. -/
theorem mute_range (win : List ℝ) (hw : ∀ w ∈ win, 0 ≤ w) (flags : List Bool) :
    (mute win flags).length = flags.length ∧
    ∀ (t : Nat) (h : t < (mute win flags).length), 0 ≤ (mute win flags)[t] ∧ (mute win flags)[t] ≤ 1 := by
  refine ⟨mute_length win flags, ?_⟩
  intro t h
  rw [mute_getElem]
  have := convSame_nonneg win hw flags t
  exact ⟨le_max_left _ _, max_le (by norm_num) (by linarith)⟩

/-- **The mute gain is 0 on every flagged sample** when the window is non-negative and its centre weight
`win[(M−1)/2]` (the one SciPy's `same` alignment puts on the sample itself) is at least 1. -/
theorem mute_zero_on_flag (win : List ℝ) (hw : ∀ w ∈ win, 0 ≤ w)
    (hc : 1 ≤ win.getD ((win.length - 1) / 2) 0) (flags : List Bool)
    (t : Nat) (ht : t < flags.length) (hf : flags[t] = true) (h : t < (mute win flags).length) :
    (mute win flags)[t] = 0 := by
  rw [mute_getElem]
  have hM : (win.length - 1) / 2 < win.length := by
    by_contra hlt
    rw [List.getD_eq_getElem?_getD, List.getElem?_eq_none (by omega)] at hc
    norm_num at hc
  have hfd : flags.getD t false = true := by
    rw [List.getD_eq_getElem?_getD, List.getElem?_eq_getElem ht]; simpa using hf
  have h1 := convTerm_le_convSame win hw flags t _ hM
  rw [convTerm_centre win flags t hfd] at h1
  exact max_eq_left (by linarith)

/-- the hypotheses of `mute_range` / `mute_zero_on_flag` are satisfiable: the default window (width 7) -/
example : (∀ w ∈ cosineWin 7, 0 ≤ w) ∧ 1 ≤ (cosineWin 7).getD (((cosineWin 7).length - 1) / 2) 0 :=
  ⟨cosineWin_nonneg 7, by rw [cosineWin_length]; exact le_of_eq (cosineWin_centre_odd 3).symm⟩

/-- The cosine window of every odd width satisfies both hypotheses (`sin(π/2) = 1` at the centre), so with the
window the code uses and an odd `mute_window_samples` every flagged sample is muted completely. -/
theorem mute_zero_on_flag_cosine (h : Nat) (flags : List Bool) (t : Nat) (ht : t < flags.length)
    (hf : flags[t] = true) (hl : t < (mute (cosineWin (2 * h + 1)) flags).length) :
    (mute (cosineWin (2 * h + 1)) flags)[t] = 0 :=
  mute_zero_on_flag _ (cosineWin_nonneg _)
    (by rw [cosineWin_length]; exact le_of_eq (cosineWin_centre_odd h).symm) flags t ht hf hl

/-- **Known finding F9 (even widths).**  For every even `mute_window_samples = 2h + 2` the centre weight is
`cos(π/(2M)) < 1`, so an isolated flagged sample keeps the gain `1 − cos(π/(2M)) > 0` (0.0192 for `M = 8`):
`mute_zero_on_flag` does not extend to even widths. -/
theorem even_width_counterexample (h : Nat) (flags : List Bool) (t : Nat)
    (hiso : ∀ u, flags.getD u false = true ↔ u = t) (hl : t < (mute (cosineWin (2 * h + 2)) flags).length) :
    (mute (cosineWin (2 * h + 2)) flags)[t] = 1 - Real.cos (Real.pi / (2 * ((2 * h + 2 : Nat) : ℝ))) ∧
    0 < (mute (cosineWin (2 * h + 2)) flags)[t] := by
  rw [mute_getElem, convSame_isolated _ flags t (by simp) hiso, cosineWin_length]
  obtain ⟨e, hlt⟩ := cosineWin_centre_even h
  rw [e]
  have : 0 < 1 - Real.cos (Real.pi / (2 * ((2 * h + 2 : Nat) : ℝ))) := by linarith
  rw [max_eq_right (le_of_lt this)]
  exact ⟨rfl, this⟩

/-- the hypothesis of `even_width_counterexample` is satisfiable: one flagged sample in the middle of five -/
example : ∀ u, [false, false, true, false, false].getD u false = true ↔ u = 2 := by
  intro u
  match u with
  | 0 | 1 | 2 | 3 | 4 => simp
  | n + 5 => simp

/-- **The mute gain is 1 away from the flags** (sharp form): if no flagged sample lies in the footprint
`[t − (M−1−c), t + c]`, `c = (M−1)/2`, of the window centred on `t`, the gain at `t` is exactly 1.
No hypothesis on the window. -/
theorem mute_one_far (win : List ℝ) (flags : List Bool) (t : Nat)
    (hfar : ∀ u, flags.getD u false = true →
      u + (win.length - 1 - (win.length - 1) / 2) < t ∨ t + (win.length - 1) / 2 < u)
    (h : t < (mute win flags).length) :
    (mute win flags)[t] = 1 := by
  rw [mute_getElem, convSame_far win flags t hfar]
  norm_num

/-- In the property's words: farther than the taper half-width `M/2` from every flagged sample the gain is 1
(any width, odd or even). -/
theorem mute_one_beyond_half_width (win : List ℝ) (flags : List Bool) (t : Nat)
    (hfar : ∀ u, flags.getD u false = true → u + win.length / 2 < t ∨ t + win.length / 2 < u)
    (h : t < (mute win flags).length) :
    (mute win flags)[t] = 1 := by
  apply mute_one_far win flags t _ h
  intro u hu
  have := hfar u hu
  omega

/-- the far hypothesis is satisfiable: width 3, flag at sample 0, `t = 4` -/
example : ∀ u, [true, false, false, false, false].getD u false = true → u + 3 / 2 < 4 ∨ 4 + 3 / 2 < u := by
  intro u
  match u with
  | 0 | 1 | 2 | 3 | 4 => simp
  | n + 5 => simp

/-- For valid arguments (`mute_window_samples ≥ 0`, non-empty window) the function returns the flags of
`flag_iff_rule` together with `mute window flags`: the second return value is computed from the first. -/
theorem saturation_returns {β : Type} [OfNat β 0] [OfNat β 1] [Add β] [Mul β] [Sub β] [Max β]
    (ops : Ops α μ φ) (winOf : Nat → List β) {nc ns : Nat} (x : Fin nc → Fin ns → α) (rg : Range μ nc)
    (M : Int) (hM : 0 ≤ M) (hwin : winOf M.toNat ≠ []) :
    saturation ops winOf ns (toRows x) rg.toList M =
      .ok (List.ofFn (rule ops x rg.at), mute (winOf M.toNat) (List.ofFn (rule ops x rg.at))) := by
  unfold saturation
  rw [flags_eq_rule]
  have : ¬ M < 0 := by omega
  simp [this, hwin]

/-- **The mute gain depends on nothing but the flags**: two calls — any data, ranges, slew limits, sampling
rates, proportions, even different precisions — that produce the same flags produce the same gain (for the
same window). -/
theorem mute_function_of_flags {α' μ' φ' β : Type} [OfNat β 0] [OfNat β 1] [Add β] [Mul β] [Sub β] [Max β]
    (ops : Ops α μ φ) (ops' : Ops α' μ' φ') (winOf : Nat → List β) (M : Int)
    (ns ns' : Nat) (data : List (List α)) (data' : List (List α')) (mv : List μ) (mv' : List μ')
    (f f' : List Bool) (g g' : List β)
    (h : saturation ops winOf ns data mv M = .ok (f, g))
    (h' : saturation ops' winOf ns' data' mv' M = .ok (f', g')) (hf : f = f') : g = g' := by
  rw [saturation_mute_eq ops winOf ns data mv M f g h, saturation_mute_eq ops' winOf ns' data' mv' M f' g' h', hf]

/-- Error branches as coded: a negative width and an empty window are rejected after the flags are computed. -/
theorem saturation_rejects (ops : Ops α μ φ) (winOf : Nat → List ℝ) {nc ns : Nat} (x : Fin nc → Fin ns → α)
    (rg : Range μ nc) :
    (∀ M : Int, M < 0 → saturation ops winOf ns (toRows x) rg.toList M = .error .negativeWindow) ∧
    (winOf 0 = [] → saturation ops winOf ns (toRows x) rg.toList 0 = .error .emptyWindow) := by
  constructor
  · intro M hM
    unfold saturation
    rw [flags_eq_rule]
    simp [hM]
  · intro h0
    unfold saturation
    rw [flags_eq_rule]
    simp [h0]

/-! ## Batch-wise use (`decompress_destripe_cbin` calls `saturation` on overlapping batches `data[:, a:b]`) -/

/-- **A flag depends on its own sample and the next one only.**  The flags of a batch `data[:, a:b]` equal the flags
of the whole recording at every sample of the batch that has its next sample inside the batch; when the batch ends
with the recording, at all of its samples. -/
theorem flags_window_interior (ops : Ops α μ φ) {nc ns : Nat} (x : Fin nc → Fin ns → α) (rg : Range μ nc)
    (a b : Nat) (hb : b ≤ ns) :
    ∃ wf W, flagsWindow ops (toRows x) rg.toList (a, b) = .ok wf ∧ flags ops ns (toRows x) rg.toList = .ok W ∧
      wf.length = b - a ∧ W.length = ns ∧
      (∀ i, a + i + 1 < b → wf.getD i false = W.getD (a + i) false) ∧
      (b = ns → ∀ i, a + i < ns → wf.getD i false = W.getD (a + i) false) := by
  refine ⟨_, _, flagsWindow_eq_rule ops x rg a b hb, flags_eq_rule ops x rg, by simp, by simp, ?_, ?_⟩
  · intro i hi
    rw [getD_ofFn_rule, getD_ofFn_rule]
    exact rule_slice_interior ops x rg.at a b hb i hi
  · intro hbn i hi
    subst hbn
    rw [getD_ofFn_rule, getD_ofFn_rule]
    exact rule_slice_to_end ops x rg.at a i hi

/-- **The last sample of a batch** is judged by the over-98 % criterion alone: its slew term is the literal `0` the
code appends, whatever the step into the next sample of the recording is. -/
theorem flags_window_last (ops : Ops α μ φ) {nc ns : Nat} (x : Fin nc → Fin ns → α) (rg : Range μ nc)
    (a b : Nat) (hb : b ≤ ns) (i : Nat) (hi : a + i + 1 = b) :
    ∃ wf, flagsWindow ops (toRows x) rg.toList (a, b) = .ok wf ∧
      wf.getD i false = (ops.gt (ops.mean (countOver ops x rg.at ⟨a + i, by omega⟩) nc) || ops.gt ops.zero) := by
  refine ⟨_, flagsWindow_eq_rule ops x rg a b hb, ?_⟩
  rw [getD_ofFn_rule, rule_slice_last ops x rg.at a b hb i hi]
  have : a + i < ns := by omega
  simp [overAt, this]

/-- so a batch that stops short of a steep step misses the flag the whole recording has there: one channel,
samples `0, 0, 10` (slew limit 5, range 100, proportion 1/2): sample 1 is flagged in the recording, not in `data[:, 0:2]` -/
theorem window_seam_counterexample :
    flags (opsExact (fun (v m : Int) => v.natAbs > m.natAbs) (fun a b => (b - a).natAbs ≥ 5) 1 2) 3 [[0, 0, 10]] [100]
      = .ok [false, true, false] ∧
    flagsWindow (opsExact (fun (v m : Int) => v.natAbs > m.natAbs) (fun a b => (b - a).natAbs ≥ 5) 1 2) [[0, 0, 10]] [100] (0, 2)
      = .ok [false, false] := by decide

/-- **Batch-wise = whole recording.**  Batches written in order over a zero-initialised vector give exactly the
flags of one call on the whole recording, provided every batch starts at or before the last sample of the part
already final (`Chain`: consecutive batches overlap by at least one sample, the first starts at 0, one ends at `ns`). -/
theorem batched_eq_whole (ops : Ops α μ φ) {nc ns : Nat} (x : Fin nc → Fin ns → α) (rg : Range μ nc)
    (wins : List (Nat × Nat)) (h : Chain ns 0 wins) :
    batched ops ns (toRows x) rg.toList wins = flags ops ns (toRows x) rg.toList := by
  obtain ⟨out, h1, h2, h3⟩ := batchedFrom_chain ops x rg wins 0 (List.replicate ns false) (by simp)
    (fun t ht => by omega) h
  unfold batched
  rw [h1, flags_eq_rule]
  congr 1
  apply List.ext_getElem
  · simp [h2]
  · intro t ht1 ht2
    have ht : t < ns := by omega
    have e1 := h3 t ht
    rw [← getD_ofFn_rule] at e1
    rw [List.getD_eq_getElem?_getD, List.getD_eq_getElem?_getD, List.getElem?_eq_getElem ht1,
      List.getElem?_eq_getElem ht2] at e1
    simpa using e1

/-- the chain hypothesis is satisfiable: three overlapping batches over 6 samples -/
example : Chain 6 0 [(0, 3), (2, 5), (4, 6)] := by simp [Chain]

/-- **The batches of the code** (`last_s = min(N + first_s, ns)`, stride `N − 2T`, one worker) satisfy the hypothesis
whenever `1 ≤ 2T < N`: the recording-long vector `decompress_destripe_cbin` saves equals one call on the whole recording. -/
theorem destripe_batched_eq_whole (ops : Ops α μ φ) {nc ns : Nat} (x : Fin nc → Fin ns → α) (rg : Range μ nc)
    (N T : Nat) (hns : 0 < ns) (hT : 1 ≤ 2 * T) (hN : 2 * T < N) :
    batched ops ns (toRows x) rg.toList (schedule ns N T) = flags ops ns (toRows x) rg.toList :=
  batched_eq_whole ops x rg _ (schedule_chain ns N T hns hT hN)

/-- the batch length and taper of the source (re-extracted on every run) satisfy `1 ≤ 2T < N` -/
theorem destripe_constants_overlap :
    1 ≤ 2 * Generated.DESTRIPE_TAPER ∧ 2 * Generated.DESTRIPE_TAPER < Generated.DESTRIPE_NBATCH := by decide

/-- Without the overlap, or with the batches written in the other order, the flag of a seam sample is lost:
samples `0, 0, 10` again, whole recording `[false, true, false]`. -/
theorem batched_seam_counterexample :
    batched (opsExact (fun (v m : Int) => v.natAbs > m.natAbs) (fun a b => (b - a).natAbs ≥ 5) 1 2) 3 [[0, 0, 10]] [100]
      [(0, 2), (1, 3)] = .ok [false, true, false] ∧
    batched (opsExact (fun (v m : Int) => v.natAbs > m.natAbs) (fun a b => (b - a).natAbs ≥ 5) 1 2) 3 [[0, 0, 10]] [100]
      [(0, 2), (2, 3)] = .ok [false, false, false] ∧
    batched (opsExact (fun (v m : Int) => v.natAbs > m.natAbs) (fun a b => (b - a).natAbs ≥ 5) 1 2) 3 [[0, 0, 10]] [100]
      [(1, 3), (0, 2)] = .ok [false, false, false] := by decide

/-- **The mute gain of a batch equals the mute gain of the whole recording away from the batch edges**: at local
sample `i` of the batch `[a, b)` when the window footprint `[i − (M−1−c), i + c]` and one more sample to the right
lie inside the batch (nothing is required on a side where the batch ends with the recording).  Any window. -/
theorem mute_window_eq_whole (ops : Ops α μ φ) {nc ns : Nat} (x : Fin nc → Fin ns → α) (rg : Range μ nc)
    (win : List ℝ) (a b : Nat) (hb : b ≤ ns) (wf W : List Bool)
    (hwf : flagsWindow ops (toRows x) rg.toList (a, b) = .ok wf) (hW : flags ops ns (toRows x) rg.toList = .ok W)
    (i : Nat) (hleft : a = 0 ∨ win.length - 1 ≤ i + (win.length - 1) / 2)
    (hright : b = ns ∨ a + i + (win.length - 1) / 2 + 1 < b)
    (h1 : i < (mute win wf).length) (h2 : a + i < (mute win W).length) :
    (mute win wf)[i] = (mute win W)[a + i] := by
  rw [flagsWindow_eq_rule ops x rg a b hb] at hwf
  rw [flags_eq_rule] at hW
  injection hwf with hwf
  injection hW with hW
  subst hwf hW
  rw [mute_getElem, mute_getElem, convSame_shift win _ _ a i _ hleft]
  intro j hj
  rw [getD_ofFn_rule, getD_ofFn_rule]
  rcases hright with hbn | hr
  · subst hbn
    by_cases hin : a + j < b
    · exact rule_slice_to_end ops x rg.at a j hin
    · have h3 : ¬ j < b - a := by omega
      simp [ruleAt, hin, h3]
  · exact rule_slice_interior ops x rg.at a b hb j (by omega)

/-- In the code's terms: the rows of a batch that are kept (`[T, N − T)`, from 0 in the first batch, to the end in
the last) are multiplied by the whole-recording gain, for every window not longer than the taper `T`. -/
theorem mute_kept_rows_eq_whole (ops : Ops α μ φ) {nc ns : Nat} (x : Fin nc → Fin ns → α) (rg : Range μ nc)
    (win : List ℝ) (T : Nat) (hT : 1 ≤ T) (hM : win.length ≤ T) (a b : Nat) (hb : b ≤ ns) (wf W : List Bool)
    (hwf : flagsWindow ops (toRows x) rg.toList (a, b) = .ok wf) (hW : flags ops ns (toRows x) rg.toList = .ok W)
    (i : Nat) (hleft : a = 0 ∨ T ≤ i) (hright : b = ns ∨ a + i + T < b)
    (h1 : i < (mute win wf).length) (h2 : a + i < (mute win W).length) :
    (mute win wf)[i] = (mute win W)[a + i] := by
  apply mute_window_eq_whole ops x rg win a b hb wf W hwf hW i _ _ h1 h2
  · rcases hleft with h | h
    · exact Or.inl h
    · right; omega
  · rcases hright with h | h
    · exact Or.inl h
    · right; omega

/-- the margins of `mute_kept_rows_eq_whole` are satisfiable: default window 7, taper 8, batch `[10, 40)` of 100 -/
example : (7 : Nat) ≤ 8 ∧ ((10 : Nat) = 0 ∨ 8 ≤ 12) ∧ ((40 : Nat) = 100 ∨ 10 + 12 + 8 < 40) := by omega

/-! ## Shape of the mute gain -/

/-- **More flags never raise the gain** (non-negative window): if every sample flagged in `f` is flagged in `g`,
the gain for `g` is at most the gain for `f` everywhere. -/
theorem mute_antitone_flags (win : List ℝ) (hw : ∀ w ∈ win, 0 ≤ w) (f g : List Bool)
    (hfg : ∀ u, f.getD u false = true → g.getD u false = true)
    (t : Nat) (h1 : t < (mute win g).length) (h2 : t < (mute win f).length) :
    (mute win g)[t] ≤ (mute win f)[t] := by
  rw [mute_getElem, mute_getElem]
  have := convSame_mono win hw f g hfg t
  exact max_le_max (le_refl _) (by linarith)

/-- **Around any flagged sample the gain is at most the taper**: with sample `s` flagged, the gain at `t` is at most
`1 − win[t + c − s]` (clipped at 0), whatever else is flagged. -/
theorem mute_le_taper_near_flag (win : List ℝ) (hw : ∀ w ∈ win, 0 ≤ w) (flags : List Bool) (s t : Nat)
    (hs : flags.getD s false = true) (hst : s ≤ t + (win.length - 1) / 2)
    (h : t < (mute win flags).length) :
    (mute win flags)[t] ≤ max 0 (1 - win.getD (t + (win.length - 1) / 2 - s) 0) := by
  rw [mute_getElem]
  apply max_le_max (le_refl _)
  by_cases hin : t + (win.length - 1) / 2 - s < win.length
  · have h1 := convTerm_le_convSame win hw flags t _ hin
    have h2 : convTerm win flags t (t + (win.length - 1) / 2 - s) = win.getD (t + (win.length - 1) / 2 - s) 0 := by
      unfold convTerm
      have hle : t + (win.length - 1) / 2 - s ≤ t + (win.length - 1) / 2 := by omega
      have hidx : t + (win.length - 1) / 2 - (t + (win.length - 1) / 2 - s) = s := by omega
      simp only [hle, if_true, hidx, hs, b2]
      simp
    linarith
  · have : win.getD (t + (win.length - 1) / 2 - s) 0 = 0 := by
      rw [List.getD_eq_getElem?_getD, List.getElem?_eq_none (by omega)]
      rfl
    have := convSame_nonneg win hw flags t
    linarith

/-- **One flagged sample `s`**: the gain at `t` is one minus the window weight `win[t + c − s]` — the window read
off its centre (1 where that index falls outside the window). -/
theorem mute_isolated_profile (win : List ℝ) (flags : List Bool) (s t : Nat)
    (hiso : ∀ u, flags.getD u false = true ↔ u = s) (h : t < (mute win flags).length) :
    (mute win flags)[t] =
      max 0 (1 - (if s ≤ t + (win.length - 1) / 2 then win.getD (t + (win.length - 1) / 2 - s) 0 else 0)) := by
  rw [mute_getElem, convSame_single win flags s t hiso]

/-- For the cosine window of odd width the gain around an isolated flag is **symmetric** … -/
theorem mute_isolated_symmetric (h : Nat) (flags : List Bool) (s d : Nat) (hd : d ≤ s)
    (hiso : ∀ u, flags.getD u false = true ↔ u = s)
    (h1 : s + d < (mute (cosineWin (2 * h + 1)) flags).length)
    (h2 : s - d < (mute (cosineWin (2 * h + 1)) flags).length) :
    (mute (cosineWin (2 * h + 1)) flags)[s + d] = (mute (cosineWin (2 * h + 1)) flags)[s - d] := by
  rw [mute_isolated_profile _ flags s (s + d) hiso, mute_isolated_profile _ flags s (s - d) hiso]
  simp only [cosineWin_length]
  have hc : (2 * h + 1 - 1) / 2 = h := by omega
  rw [hc]
  by_cases hdh : d ≤ h
  · have e1 : s ≤ s + d + h := by omega
    have e2 : s ≤ s - d + h := by omega
    have i1 : s + d + h - s = h + d := by omega
    have i2 : s - d + h - s = h - d := by omega
    simp only [e1, e2, if_true, i1, i2, cosineWin_odd_symm h d hdh]
  · have e1 : s ≤ s + d + h := by omega
    have e2 : ¬ s ≤ s - d + h := by omega
    have i1 : s + d + h - s = h + d := by omega
    have z : (cosineWin (2 * h + 1)).getD (h + d) 0 = 0 := by
      rw [List.getD_eq_getElem?_getD, List.getElem?_eq_none (by simp; omega)]
      rfl
    simp only [e1, e2, if_true, if_false, i1, z]

/-- … and **non-decreasing away from the flag**: from 0 on the flag up to 1 beyond the half-width. -/
theorem mute_isolated_monotone (h : Nat) (flags : List Bool) (s d d' : Nat) (hdd : d ≤ d')
    (hiso : ∀ u, flags.getD u false = true ↔ u = s)
    (h1 : s + d < (mute (cosineWin (2 * h + 1)) flags).length)
    (h2 : s + d' < (mute (cosineWin (2 * h + 1)) flags).length) :
    (mute (cosineWin (2 * h + 1)) flags)[s + d] ≤ (mute (cosineWin (2 * h + 1)) flags)[s + d'] := by
  rw [mute_isolated_profile _ flags s (s + d) hiso, mute_isolated_profile _ flags s (s + d') hiso]
  simp only [cosineWin_length]
  have hc : (2 * h + 1 - 1) / 2 = h := by omega
  rw [hc]
  have e1 : s ≤ s + d + h := by omega
  have e2 : s ≤ s + d' + h := by omega
  have i1 : s + d + h - s = h + d := by omega
  have i2 : s + d' + h - s = h + d' := by omega
  simp only [e1, e2, if_true, i1, i2]
  have := cosineWin_odd_anti h d d' hdd
  exact max_le_max (le_refl _) (by linarith)

/-- the isolated-flag hypothesis is satisfiable (see the `example` after `even_width_counterexample`), and the
profile for the default width 7 is `0` on the flag: -/
example (flags : List Bool) (s : Nat) (hiso : ∀ u, flags.getD u false = true ↔ u = s)
    (hl : s + 0 < (mute (cosineWin (2 * 3 + 1)) flags).length) :
    (mute (cosineWin (2 * 3 + 1)) flags)[s + 0] = 0 :=
  mute_zero_on_flag_cosine 3 flags s (by
    have := (hiso s).mpr rfl
    by_contra hn
    rw [List.getD_eq_getElem?_getD, List.getElem?_eq_none (by omega)] at this
    simp at this) (by
    have h1 := (hiso s).mpr rfl
    have hlt : s < flags.length := by
      by_contra hn
      rw [List.getD_eq_getElem?_getD, List.getElem?_eq_none (by omega)] at h1
      simp at h1
    rw [List.getD_eq_getElem?_getD, List.getElem?_eq_getElem hlt] at h1
    simpa using h1) hl

/-! ## Full-scale voltage (`Reader.range_volts`, `_get_max_int_from_meta`) -/

/-- **"98 % of full scale" is a statement about raw ADC counts.**  For a recording read as `raw · sample2volts`
(positive per-channel factors) and `max_voltage = range_volts = sample2volts · maxInt`, the flags (slew criterion
off, exact arithmetic) are those of the rule `50 · |raw| > 49 · maxInt` on more than `a/b` of the channels:
independent of the gains. -/
theorem flags_fullscale_counts (a b : Nat) {nc ns : Nat} (raw : Fin nc → Fin ns → Int) (s : Fin nc → ℚ)
    (hs : ∀ c, 0 < s c) (maxInt : Int) :
    flags (opsVolts a b) ns (toRows fun c t => (raw c t : ℚ) * s c)
        (Range.perChannel fun c => rangeVolts (s c) (maxInt : ℚ)).toList
      = flags (opsCounts a b) ns (toRows raw) (Range.scalar maxInt : Range Int nc).toList := by
  rw [flags_eq_rule, flags_eq_rule]
  congr 2
  funext t
  exact rule_volts_eq_counts a b raw s hs maxInt t

/-- non-vacuity: two channels with gains 1/500 and 1/250, maxInt 512 (threshold 501.76 counts), proportion 1/5:
sample 0 (`502`, `-100`) is flagged, sample 1 (`501`, `501`) is not -/
example : flags (opsCounts 1 5) 2 [[502, 501], [-100, 501]] [512] = .ok [true, false] := by decide

/-- **Alignment is needed** (a defect of a caller observed while modelling, outside the property).  The hypothesis of `flags_fullscale_counts` — channel `c` of the data
and entry `c` of `max_voltage` carry the SAME factor — is needed: two channels at 400 of 512 counts (78 %) with
factors 1 and 1/60 are not flagged against their own full scales, and are flagged when the two ranges are swapped
(what `saturation(sr[:, :ncv].T, sr.range_volts[:ncv])` does on a probe that is read in sorted channel order while
`range_volts` stays in file order). -/
theorem fullscale_misaligned_counterexample :
    flags (opsVolts 1 5) 1 [[(400 : ℚ) * 1], [(400 : ℚ) * (1 / 60)]]
      [rangeVolts (1 : ℚ) 512, rangeVolts (1 / 60 : ℚ) 512] = .ok [false] ∧
    flags (opsVolts 1 5) 1 [[(400 : ℚ) * 1], [(400 : ℚ) * (1 / 60)]]
      [rangeVolts (1 / 60 : ℚ) 512, rangeVolts (1 : ℚ) 512] = .ok [true] := by
  decide +kernel

/-- **The full-scale integer** as `_get_max_int_from_meta` decides it: the meta value when present; otherwise 512
for an imec probe that is not a 2.0 probe, 32768 for a non-imec stream; a 2.0 probe without the key and an imec
stream of unknown probe type raise. -/
theorem fullScaleInt_table (v : Int) :
    fullScaleInt .imecNP2 (some v) = some v ∧ fullScaleInt .imecOther (some v) = some v ∧
    fullScaleInt .notImec (some v) = some v ∧
    fullScaleInt .imecOther none = some 512 ∧ fullScaleInt .notImec none = some 32768 ∧
    fullScaleInt .imecNP2 none = none ∧ fullScaleInt .imecUnknown (some v) = none ∧
    fullScaleInt .imecUnknown none = none := by
  simp [fullScaleInt]

/-- 0.98 of none of the default full scales (nor of 8192, the 2.0 value) is a whole number of counts: on such probes no
raw sample sits exactly on the threshold, so `>` and `≥` flag the same samples there. -/
theorem fullscale_no_tie (raw : Int) : ∀ m ∈ [(512 : Int), 8192, 32768], 50 * (raw.natAbs : Int) ≠ 49 * m := by
  intro m hm
  simp only [List.mem_cons, List.not_mem_nil, or_false] at hm
  rcases hm with rfl | rfl | rfl <;> omega


end IblVerif.C16
