/-
C16 — Saturation flags follow the proportion rule and the mute gain covers them
(`ibldsp.voltage.saturation`, model in `Model/Saturation.lean`).

Property theorems only; helper lemmas are in `Lemmas/Saturation.lean` and `Analysis/Mute.lean`.

* Flags: for EVERY `[nc, ns]` array `x`, every scalar or per-channel range and every instance `ops` of the
  element-wise arithmetic (so in particular the four IEEE instances the driver executes, `ops6464` …).
* Mute gain: over ℝ, for EVERY non-negative window, every flag vector and every sample.
-/
import IblVerif.Lemmas.Saturation
import IblVerif.Analysis.Mute

namespace IblVerif.C16
open IblVerif.Saturation

variable {α μ φ : Type}

/-- **Flags follow the proportion rule.**  The function returns one flag per sample, and sample `t` is flagged
exactly when the fraction of channels with `|x c t| > 0.98·range c` is greater than the proportion, or
(`t` not the last sample) the fraction of channels whose step into sample `t+1` reaches the slew limit is.
(For the last sample the code compares the literal `0` with the proportion — never true for a proportion ≥ 0.) -/
theorem flag_iff_rule (ops : Ops α μ φ) {nc ns : Nat} (x : Fin nc → Fin ns → α) (rg : Range μ nc) :
    ∃ fl, flags ops ns (toRows x) rg.toList = .ok fl ∧ fl.length = ns ∧
      ∀ (t : Nat) (ht : t < ns) (hl : t < fl.length),
        (fl[t] = true ↔
          ops.gt (ops.mean (countOver ops x rg.at ⟨t, ht⟩) nc) = true ∨
          (∃ h : t + 1 < ns, ops.gt (ops.mean (countSlew ops x t h) nc) = true) ∨
          (t + 1 = ns ∧ ops.gt ops.zero = true)) := by
  refine ⟨_, flags_eq_rule ops x rg, by simp, ?_⟩
  intro t ht hl
  simp only [List.getElem_ofFn, rule, Bool.or_eq_true]
  by_cases hn : t + 1 < ns
  · have hne : ¬ t + 1 = ns := by omega
    simp [hn, hne]
  · have : t + 1 = ns := by omega
    simp [this]

/-- The theorem applies verbatim to the IEEE instances the driver executes, e.g. float32 data against a float64
range (the production call): the mean is `Float.ofNat count / Float.ofNat nc`, compared with `> p`. -/
example (d64 vr : Bool) (factor fs v p : Float) {nc ns : Nat} (x : Fin nc → Fin ns → Float32) (rg : Range Float nc) :
    ∃ fl, flags (ops3264 d64 vr factor fs v p) ns (toRows x) rg.toList = .ok fl ∧ fl.length = ns ∧
      ∀ (t : Nat) (ht : t < ns) (hl : t < fl.length),
        (fl[t] = true ↔
          decide (Float.ofNat (countOver (ops3264 d64 vr factor fs v p) x rg.at ⟨t, ht⟩) / Float.ofNat nc > p) = true ∨
          (∃ h : t + 1 < ns, decide (Float.ofNat (countSlew (ops3264 d64 vr factor fs v p) x t h) / Float.ofNat nc > p) = true) ∨
          (t + 1 = ns ∧ decide ((0 : Float) > p) = true)) :=
  flag_iff_rule (ops3264 d64 vr factor fs v p) x rg

/-- The same with the proportion `a/b` tested in exact integers: "more than `a/b` of the `nc` channels"
is `count · b > a · nc`; the last sample is flagged by the 98 % criterion only. -/
theorem flag_iff_exact_rule (over : α → μ → Bool) (slew : α → α → Bool) (a b : Nat)
    {nc ns : Nat} (x : Fin nc → Fin ns → α) (rg : Range μ nc) :
    ∃ fl, flags (opsExact over slew a b) ns (toRows x) rg.toList = .ok fl ∧ fl.length = ns ∧
      ∀ (t : Nat) (ht : t < ns) (hl : t < fl.length),
        (fl[t] = true ↔
          countOver (opsExact over slew a b) x rg.at ⟨t, ht⟩ * b > a * nc ∨
          ∃ h : t + 1 < ns, countSlew (opsExact over slew a b) x t h * b > a * nc) := by
  obtain ⟨fl, h1, h2, h3⟩ := flag_iff_rule (opsExact over slew a b) x rg
  refine ⟨fl, h1, h2, ?_⟩
  intro t ht hl
  rw [h3 t ht hl]
  simp [opsExact]

/-- In the standard model of rounding (`fl` monotone with relative error ≤ `u`; float64: `u = 2⁻⁵³`) the test
the code performs, `fl(k/n) > fl(a/b)`, decides exactly `k·b > a·n` whenever `2·u·n·b < 1` — so for every
channel count the float64 instance of `flag_iff_rule` states the exact rational rule of `flag_iff_exact_rule`. -/
theorem proportion_test_exact (fl : ℝ → ℝ) (u : ℝ) (hmono : Monotone fl)
    (herr : ∀ x, |fl x - x| ≤ u * |x|) (k n a b : Nat) (hn : 0 < n) (hb : 0 < b) (hk : k ≤ n) (hab : a ≤ b)
    (hsmall : 2 * u * ((n : ℝ) * b) < 1) :
    fl ((k : ℝ) / n) > fl ((a : ℝ) / b) ↔ k * b > a * n :=
  rounded_mean_gt_iff fl u hmono herr k n a b hn hb hk hab hsmall

/-- non-vacuity of the rounding hypotheses: exact arithmetic is a rounding function with `u = 0` -/
example : (1 : ℝ) / 5 < 2 / 5 ∧ ((id : ℝ → ℝ) (((2 : Nat) : ℝ) / ((5 : Nat) : ℝ)) > id (((1 : Nat) : ℝ) / ((5 : Nat) : ℝ)) ↔ 2 * 5 > 1 * 5) :=
  ⟨by norm_num, proportion_test_exact id 0 monotone_id (by simp) 2 5 1 5 (by omega) (by omega) (by omega)
    (by omega) (by norm_num)⟩

/-- a 2-channel, 3-sample array in the exact arithmetic over ℤ (range 10 → threshold 9, slew limit 5,
proportion 1/2): only sample 1 has both channels over the threshold (flag 1); the step 0→1 is steep on both (flag 0);
the last sample is under the threshold and has no next sample. -/
example : flags (opsExact (fun (v m : Int) => v.natAbs > m.natAbs - 1) (fun a b => (b - a).natAbs ≥ 5) 1 2) 3
    [[0, 10, 0], [0, -10, 0]] [10] = .ok [true, true, false] := by decide

/-- **The mute gain lies in [0, 1]** (one value per sample), for every non-negative window. -/
theorem mute_range (win : List ℝ) (hw : ∀ w ∈ win, 0 ≤ w) (flags : List Bool) :
    (mute win flags).length = flags.length ∧
    ∀ (t : Nat) (h : t < (mute win flags).length), 0 ≤ (mute win flags)[t] ∧ (mute win flags)[t] ≤ 1 := by
  refine ⟨mute_length win flags, ?_⟩
  intro t h
  rw [mute_getElem]
  have := convSame_nonneg win hw flags t
  exact ⟨le_max_left _ _, max_le (by norm_num) (by linarith)⟩

/-- **The mute gain is 0 on every flagged sample** when the window is non-negative and its centre weight
`win[(M−1)/2]` (the one SciPy's `same` alignment puts on the sample itself) is at least 1. -/
theorem mute_zero_on_flag (win : List ℝ) (hw : ∀ w ∈ win, 0 ≤ w)
    (hc : 1 ≤ win.getD ((win.length - 1) / 2) 0) (flags : List Bool)
    (t : Nat) (ht : t < flags.length) (hf : flags[t] = true) (h : t < (mute win flags).length) :
    (mute win flags)[t] = 0 := by
  rw [mute_getElem]
  have hM : (win.length - 1) / 2 < win.length := by
    by_contra hlt
    rw [List.getD_eq_getElem?_getD, List.getElem?_eq_none (by omega)] at hc
    norm_num at hc
  have hfd : flags.getD t false = true := by
    rw [List.getD_eq_getElem?_getD, List.getElem?_eq_getElem ht]; simpa using hf
  have h1 := convTerm_le_convSame win hw flags t _ hM
  rw [convTerm_centre win flags t hfd] at h1
  exact max_eq_left (by linarith)

/-- the hypotheses of `mute_range` / `mute_zero_on_flag` are satisfiable: the default window (width 7) -/
example : (∀ w ∈ cosineWin 7, 0 ≤ w) ∧ 1 ≤ (cosineWin 7).getD (((cosineWin 7).length - 1) / 2) 0 :=
  ⟨cosineWin_nonneg 7, by rw [cosineWin_length]; exact le_of_eq (cosineWin_centre_odd 3).symm⟩

/-- The cosine window of every odd width satisfies both hypotheses (`sin(π/2) = 1` at the centre), so with the
window the code uses and an odd `mute_window_samples` every flagged sample is muted completely. -/
theorem mute_zero_on_flag_cosine (h : Nat) (flags : List Bool) (t : Nat) (ht : t < flags.length)
    (hf : flags[t] = true) (hl : t < (mute (cosineWin (2 * h + 1)) flags).length) :
    (mute (cosineWin (2 * h + 1)) flags)[t] = 0 :=
  mute_zero_on_flag _ (cosineWin_nonneg _)
    (by rw [cosineWin_length]; exact le_of_eq (cosineWin_centre_odd h).symm) flags t ht hf hl

/-- **Known finding F9 (even widths).**  For every even `mute_window_samples = 2h + 2` the centre weight is
`cos(π/(2M)) < 1`, so an isolated flagged sample keeps the gain `1 − cos(π/(2M)) > 0` (0.0192 for `M = 8`):
`mute_zero_on_flag` does not extend to even widths. -/
theorem even_width_counterexample (h : Nat) (flags : List Bool) (t : Nat)
    (hiso : ∀ u, flags.getD u false = true ↔ u = t) (hl : t < (mute (cosineWin (2 * h + 2)) flags).length) :
    (mute (cosineWin (2 * h + 2)) flags)[t] = 1 - Real.cos (Real.pi / (2 * ((2 * h + 2 : Nat) : ℝ))) ∧
    0 < (mute (cosineWin (2 * h + 2)) flags)[t] := by
  rw [mute_getElem, convSame_isolated _ flags t (by simp) hiso, cosineWin_length]
  obtain ⟨e, hlt⟩ := cosineWin_centre_even h
  rw [e]
  have : 0 < 1 - Real.cos (Real.pi / (2 * ((2 * h + 2 : Nat) : ℝ))) := by linarith
  rw [max_eq_right (le_of_lt this)]
  exact ⟨rfl, this⟩

/-- the hypothesis of `even_width_counterexample` is satisfiable: one flagged sample in the middle of five -/
example : ∀ u, [false, false, true, false, false].getD u false = true ↔ u = 2 := by
  intro u
  match u with
  | 0 | 1 | 2 | 3 | 4 => simp
  | n + 5 => simp

/-- **The mute gain is 1 away from the flags** (sharp form): if no flagged sample lies in the footprint
`[t − (M−1−c), t + c]`, `c = (M−1)/2`, of the window centred on `t`, the gain at `t` is exactly 1.
No hypothesis on the window. -/
theorem mute_one_far (win : List ℝ) (flags : List Bool) (t : Nat)
    (hfar : ∀ u, flags.getD u false = true →
      u + (win.length - 1 - (win.length - 1) / 2) < t ∨ t + (win.length - 1) / 2 < u)
    (h : t < (mute win flags).length) :
    (mute win flags)[t] = 1 := by
  rw [mute_getElem, convSame_far win flags t hfar]
  norm_num

/-- In the property's words: farther than the taper half-width `M/2` from every flagged sample the gain is 1
(any width, odd or even). -/
theorem mute_one_beyond_half_width (win : List ℝ) (flags : List Bool) (t : Nat)
    (hfar : ∀ u, flags.getD u false = true → u + win.length / 2 < t ∨ t + win.length / 2 < u)
    (h : t < (mute win flags).length) :
    (mute win flags)[t] = 1 := by
  apply mute_one_far win flags t _ h
  intro u hu
  have := hfar u hu
  omega

/-- the far hypothesis is satisfiable: width 3, flag at sample 0, `t = 4` -/
example : ∀ u, [true, false, false, false, false].getD u false = true → u + 3 / 2 < 4 ∨ 4 + 3 / 2 < u := by
  intro u
  match u with
  | 0 | 1 | 2 | 3 | 4 => simp
  | n + 5 => simp

/-- For valid arguments (`mute_window_samples ≥ 0`, non-empty window) the function returns the flags of
`flag_iff_rule` together with `mute window flags`: the second return value is computed from the first. -/
theorem saturation_returns {β : Type} [OfNat β 0] [OfNat β 1] [Add β] [Mul β] [Sub β] [Max β]
    (ops : Ops α μ φ) (winOf : Nat → List β) {nc ns : Nat} (x : Fin nc → Fin ns → α) (rg : Range μ nc)
    (M : Int) (hM : 0 ≤ M) (hwin : winOf M.toNat ≠ []) :
    saturation ops winOf ns (toRows x) rg.toList M =
      .ok (List.ofFn (rule ops x rg.at), mute (winOf M.toNat) (List.ofFn (rule ops x rg.at))) := by
  unfold saturation
  rw [flags_eq_rule]
  have : ¬ M < 0 := by omega
  simp [this, hwin]

/-- **The mute gain depends on nothing but the flags**: two calls — any data, ranges, slew limits, sampling
rates, proportions, even different precisions — that produce the same flags produce the same gain (for the
same window). -/
theorem mute_function_of_flags {α' μ' φ' β : Type} [OfNat β 0] [OfNat β 1] [Add β] [Mul β] [Sub β] [Max β]
    (ops : Ops α μ φ) (ops' : Ops α' μ' φ') (winOf : Nat → List β) (M : Int)
    (ns ns' : Nat) (data : List (List α)) (data' : List (List α')) (mv : List μ) (mv' : List μ')
    (f f' : List Bool) (g g' : List β)
    (h : saturation ops winOf ns data mv M = .ok (f, g))
    (h' : saturation ops' winOf ns' data' mv' M = .ok (f', g')) (hf : f = f') : g = g' := by
  rw [saturation_mute_eq ops winOf ns data mv M f g h, saturation_mute_eq ops' winOf ns' data' mv' M f' g' h', hf]

/-- Error branches as coded: a negative width and an empty window are rejected after the flags are computed. -/
theorem saturation_rejects (ops : Ops α μ φ) (winOf : Nat → List ℝ) {nc ns : Nat} (x : Fin nc → Fin ns → α)
    (rg : Range μ nc) :
    (∀ M : Int, M < 0 → saturation ops winOf ns (toRows x) rg.toList M = .error .negativeWindow) ∧
    (winOf 0 = [] → saturation ops winOf ns (toRows x) rg.toList 0 = .error .emptyWindow) := by
  constructor
  · intro M hM
    unfold saturation
    rw [flags_eq_rule]
    simp [hM]
  · intro h0
    unfold saturation
    rw [flags_eq_rule]
    simp [h0]

end IblVerif.C16
