/-
C15 — Bad-channel repair touches only bad channels; detection finds injected faults.

Property theorems only (helper lemmas: `Lemmas/BadChannelsInterp.lean`, `Lemmas/BadChannelsLabels.lean`,
`Analysis/Interp.lean`).  Model: `Model/BadChannels.lean` (transcription of `interpolate_bad_channels`, of
the recommendation part of `detect_bad_channels` and of the mode in `detect_bad_channels_cbin`).

Quantifier: every channel count `nc`, every label vector `labels : ℕ → ℕ` (in particular all vectors over
{0,1,2,3}, clusters of adjacent bad channels, bad channels at the probe ends), every geometry — which enters
only through the raw weight matrix `W i j = exp(-(dist(i,j)/20)^1.3)`, here an ARBITRARY real matrix —,
every cut-off `thr > 0` (0.005 in the code) and all data.  Section "Weights" instantiates `W` with the code's
`exp(-(dist/krig)^p)` over ℝ (every `p > 0`, `krig > 0`, every geometry) and, for the default parameters, with the NP1 / NP2
lattices; section "Batches" places the batches of `detect_bad_channels_cbin` for every file length, rate, duration and batch
count.  The detection of injected faults on synthetic recordings is numeric only (oracle in `harness/props/c15.py`), not a
theorem.
-/
import IblVerif.Analysis.Interp
import IblVerif.Analysis.InterpWeightsC15
import IblVerif.Analysis.BatchPlacementC15
import IblVerif.Lemmas.BadChannelsLabels
import IblVerif.Lemmas.BadChannelsLatticeC15
import IblVerif.Lemmas.BadChannelsDetrendC15

namespace IblVerif.C15
open IblVerif.BadChannels

/-! ## Repair -/

/-- Channels labelled neither dead (1) nor noisy (2) are returned identical.  Stated for EVERY scalar type
with the operations the code uses — in particular for IEEE `Float`, where it reads "bit-identical". -/
theorem good_rows_bit_identical {α : Type} [Zero α] [Add α] [Mul α] [Div α] [LT α] [DecidableLT α]
    (nc : Nat) (thr : α) (labels : Nat → Nat) (W : Nat → Nat → α) (data : Nat → Nat → α)
    (c : Nat) (h1 : labels c ≠ 1) (h2 : labels c ≠ 2) :
    interpolate nc thr labels W data c = data c := by
  apply interpolateOrd_not_mem
  intro hmem
  have := (mem_badChannels.mp hmem).2
  simp [isBad, h1, h2] at this

/-- The sequential in-place loop computes every bad row from the ORIGINAL data: a repaired channel is never
a donor (`weights[bad_channels] = 0`), so earlier writes are never read. -/
theorem sequential_eq_parallel (nc : Nat) (thr : ℝ) (labels : Nat → Nat) (W : Nat → Nat → ℝ)
    (data : Nat → Nat → ℝ) (c : Nat) (hc : c < nc) (hbad : labels c = 1 ∨ labels c = 2) :
    interpolate nc thr labels W data c = repairRow nc thr labels (W c) data := by
  have hb : isBad labels c = true := by rcases hbad with h | h <;> simp [isBad, h]
  have := interpolateOrd_eq real_hdiv nc thr labels W data (badChannels nc labels)
    (fun i hi => (mem_badChannels.mp hi).2) data (fun _ _ => rfl) c
  rw [interpolate, this, if_pos (mem_badChannels.mpr ⟨hc, hb⟩)]

/-- Hence the order in which the bad channels are visited does not matter (any list of bad channels that
visits the same set, repetitions allowed, gives the same result as the code's increasing order). -/
theorem order_irrelevant (nc : Nat) (thr : ℝ) (labels : Nat → Nat) (W : Nat → Nat → ℝ)
    (data : Nat → Nat → ℝ) (ord : List Nat) (hord : ∀ i, i ∈ ord ↔ i ∈ badChannels nc labels) :
    interpolateOrd nc thr labels W ord data = interpolate nc thr labels W data := by
  funext c
  have h1 := interpolateOrd_eq real_hdiv nc thr labels W data ord
    (fun i hi => (mem_badChannels.mp ((hord i).mp hi)).2) data (fun _ _ => rfl) c
  have h2 := interpolateOrd_eq real_hdiv nc thr labels W data (badChannels nc labels)
    (fun i hi => (mem_badChannels.mp hi).2) data (fun _ _ => rfl) c
  rw [interpolate, h1, h2]
  by_cases h : c ∈ ord
  · rw [if_pos h, if_pos ((hord c).mp h)]
  · rw [if_neg h, if_neg (fun h' => h ((hord c).mpr h'))]

/-- The repaired row reads ONLY the donor rows: two data matrices that agree on the donors of bad channel `c`
(`imult`, the channels with a positive normalised weight) give the same repaired row — whatever the other
rows hold, in particular the bad channels themselves (NaN, ±inf, …).  For EVERY scalar type in which `0 / s`
is never positive (true in ℝ, see below, and of IEEE floats, where `0 / s ∈ {±0, NaN}`); the row-level
statement `repairRow_congr` needs no hypothesis at all. -/
theorem repair_depends_only_on_donors {α : Type} [Zero α] [Add α] [Mul α] [Div α] [LT α] [DecidableLT α]
    (hdiv : ∀ s : α, ¬ (0 : α) < 0 / s)
    (nc : Nat) (thr : α) (labels : Nat → Nat) (W : Nat → Nat → α) (data data' : Nat → Nat → α)
    (c : Nat) (hc : c < nc) (hbad : labels c = 1 ∨ labels c = 2)
    (hagree : ∀ j ∈ imult nc thr labels (W c) (weightSum nc thr labels (W c)), data j = data' j) :
    interpolate nc thr labels W data c = interpolate nc thr labels W data' c := by
  have hb : isBad labels c = true := by rcases hbad with h | h <;> simp [isBad, h]
  have hmem := mem_badChannels.mpr ⟨hc, hb⟩
  have h1 := interpolateOrd_eq hdiv nc thr labels W data (badChannels nc labels)
    (fun i hi => (mem_badChannels.mp hi).2) data (fun _ _ => rfl) c
  have h2 := interpolateOrd_eq hdiv nc thr labels W data' (badChannels nc labels)
    (fun i hi => (mem_badChannels.mp hi).2) data' (fun _ _ => rfl) c
  rw [interpolate, interpolate, h1, h2, if_pos hmem, if_pos hmem]
  exact repairRow_congr nc thr labels (W c) data data' hagree

/-- Over ℝ, with the donors spelled out: data that agree on the channels `j < nc` labelled neither 1 nor 2
whose raw weight reaches the cut-off give the same repaired row. -/
theorem repair_depends_only_on_donors_real (nc : Nat) (thr : ℝ) (labels : Nat → Nat) (W : Nat → Nat → ℝ)
    (data data' : Nat → Nat → ℝ) (c : Nat) (hc : c < nc) (hbad : labels c = 1 ∨ labels c = 2)
    (hagree : ∀ j, j < nc → labels j ≠ 1 → labels j ≠ 2 → thr ≤ W c j → data j = data' j) :
    interpolate nc thr labels W data c = interpolate nc thr labels W data' c := by
  apply repair_depends_only_on_donors real_hdiv nc thr labels W data data' c hc hbad
  intro j hj
  simp only [imult, List.mem_filter, List.mem_range, decide_eq_true_eq] at hj
  rcases cutWeight_cases thr labels (W c) j with h0 | ⟨_, h2, h3⟩
  · have := hj.2
    unfold normWeight at this
    rw [h0] at this; simp at this
  · simp only [isBad, Bool.or_eq_false_iff, beq_eq_false_iff_ne] at h2
    exact hagree j hj.1 h2.1 h2.2 h3

/-- A bad channel that has at least one donor — a channel `j < nc` labelled neither 1 nor 2 whose raw weight
reaches the cut-off — is replaced by a convex combination of such donors: coefficients `lam j ≥ 0`, non-zero
only on donors (which are good or outside-brain channels: never dead/noisy, never a repaired one, and
"nearby" in the sense `thr ≤ W c j`), summing to one. -/
theorem repair_is_convex (nc : Nat) (thr : ℝ) (hthr : 0 < thr) (labels : Nat → Nat) (W : Nat → Nat → ℝ)
    (data : Nat → Nat → ℝ) (c : Nat) (hc : c < nc) (hbad : labels c = 1 ∨ labels c = 2)
    (hdonor : ∃ j, j < nc ∧ labels j ≠ 1 ∧ labels j ≠ 2 ∧ thr ≤ W c j) :
    ∃ lam : Nat → ℝ,
      (∀ j, 0 ≤ lam j) ∧
      (∀ j, lam j ≠ 0 → j < nc ∧ labels j ≠ 1 ∧ labels j ≠ 2 ∧ thr ≤ W c j) ∧
      ((List.range nc).map lam).sum = 1 ∧
      ∀ t, interpolate nc thr labels W data c t = ((List.range nc).map fun j => lam j * data j t).sum := by
  obtain ⟨j0, hj0, hl1, hl2, hw⟩ := hdonor
  have hb0 : isBad labels j0 = false := by simp [isBad, hl1, hl2]
  refine ⟨coeff nc thr labels (W c), coeff_nonneg nc thr hthr labels (W c), ?_, ?_, ?_⟩
  · intro j hj
    obtain ⟨h1, h2, h3⟩ := coeff_ne_zero nc thr labels (W c) j hj
    simp only [isBad, Bool.or_eq_false_iff, beq_eq_false_iff_ne] at h2
    exact ⟨h1, h2.1, h2.2, h3⟩
  · exact coeff_sum nc thr labels (W c) (weightSum_pos nc thr hthr labels (W c) j0 hj0 hb0 hw)
  · intro t
    rw [sequential_eq_parallel nc thr labels W data c hc hbad]
    exact repairRow_eq_sum nc thr hthr labels (W c) data j0 hj0 hb0 hw t

/-- … so at every sample the repaired value lies within the range of its donors: between any two bounds
that hold for all donors (in particular their minimum and maximum). -/
theorem repair_within_donor_range (nc : Nat) (thr : ℝ) (hthr : 0 < thr) (labels : Nat → Nat)
    (W : Nat → Nat → ℝ) (data : Nat → Nat → ℝ) (c : Nat) (hc : c < nc) (hbad : labels c = 1 ∨ labels c = 2)
    (hdonor : ∃ j, j < nc ∧ labels j ≠ 1 ∧ labels j ≠ 2 ∧ thr ≤ W c j)
    (t : Nat) (lo hi : ℝ)
    (hrange : ∀ j, j < nc → labels j ≠ 1 → labels j ≠ 2 → thr ≤ W c j → lo ≤ data j t ∧ data j t ≤ hi) :
    lo ≤ interpolate nc thr labels W data c t ∧ interpolate nc thr labels W data c t ≤ hi := by
  obtain ⟨lam, h0, hsupp, hsum, hrep⟩ := repair_is_convex nc thr hthr labels W data c hc hbad hdonor
  have := convex_bounds (List.range nc) lam (fun j => data j t) lo hi (fun j _ => h0 j)
    (fun j _ hj => by
      obtain ⟨a, b, c', d⟩ := hsupp j hj
      exact hrange j a b c' d)
  rw [hsum, mul_one, mul_one] at this
  rw [hrep t]
  exact this

/-- A bad channel without any donor is replaced by zeros. -/
theorem no_donor_zero (nc : Nat) (thr : ℝ) (labels : Nat → Nat) (W : Nat → Nat → ℝ)
    (data : Nat → Nat → ℝ) (c : Nat) (hc : c < nc) (hbad : labels c = 1 ∨ labels c = 2)
    (hnone : ∀ j, j < nc → labels j ≠ 1 → labels j ≠ 2 → W c j < thr) (t : Nat) :
    interpolate nc thr labels W data c t = 0 := by
  rw [sequential_eq_parallel nc thr labels W data c hc hbad]
  apply repairRow_no_donor
  intro j hj hb
  simp only [isBad, Bool.or_eq_false_iff, beq_eq_false_iff_ne] at hb
  exact hnone j hj hb.1 hb.2

/-- The donor selection as it stood before the `fix:` commit (cut-off re-applied AFTER normalising) was not
convex: with a bad channel 0 and two donors of raw weights 1 and 0.005 the kept coefficients sum to
`1/1.005 < 1`, so a constant field was repaired to a smaller value (finding F8, now fixed in /repo). -/
theorem prefix_selection_counterexample :
    let labels : Nat → Nat := fun j => if j = 0 then 1 else 0
    let w : Nat → ℝ := fun j => if j = 2 then 1 / 200 else 1
    let s := weightSum 3 (1 / 200 : ℝ) labels w
    ((imultPreFix 3 (1 / 200 : ℝ) labels w s).map (normWeight (1 / 200 : ℝ) labels w s)).sum < 1 := by
  intro labels w s
  have c0 : cutWeight (1 / 200 : ℝ) labels w 0 = 0 := by simp [cutWeight, isBad, labels]
  have c1 : cutWeight (1 / 200 : ℝ) labels w 1 = 1 := by
    simp only [cutWeight, isBad, labels, w]; norm_num
  have c2 : cutWeight (1 / 200 : ℝ) labels w 2 = 1 / 200 := by
    simp only [cutWeight, isBad, labels, w]; norm_num
  have hs : s = 201 / 200 := by
    simp only [s, weightSum, List.range, List.range.loop, List.map_cons, List.map_nil, List.sum_cons,
      List.sum_nil, c0, c1, c2]
    norm_num
  rw [hs]
  have n0 : ¬ ((1 / 200 : ℝ) < normWeight (1 / 200 : ℝ) labels w (201 / 200) 0) := by
    rw [normWeight, c0]; norm_num
  have n1 : (1 / 200 : ℝ) < normWeight (1 / 200 : ℝ) labels w (201 / 200) 1 := by
    rw [normWeight, c1]; norm_num
  have n2 : ¬ ((1 / 200 : ℝ) < normWeight (1 / 200 : ℝ) labels w (201 / 200) 2) := by
    rw [normWeight, c2]; norm_num
  simp only [imultPreFix, List.range, List.range.loop, List.filter_cons, List.filter_nil, n0, n1, n2,
    decide_true, decide_false, if_true, if_false, Bool.false_eq_true, List.map_cons, List.map_nil,
    List.sum_cons, List.sum_nil]
  rw [normWeight, c1]; norm_num

/-! ## Labels -/

/-- Precedence noisy (2) over dead (1) over outside-brain (3): a channel whose noise test fires is 2 whatever
else holds; otherwise a channel whose dead test fires is 1; otherwise it is 3 or 0. -/
theorem label_precedence (nc : Nat) (dead noisy low : Nat → Bool) (j : Nat) (hj : j < nc) :
    (noisy j = true → detectLabels nc dead noisy low j = 2) ∧
    (noisy j = false → dead j = true → detectLabels nc dead noisy low j = 1) ∧
    (noisy j = false → dead j = false →
      detectLabels nc dead noisy low j = 3 ∨ detectLabels nc dead noisy low j = 0) := by
  simp only [detectLabels, assign, List.contains_iff_mem, List.mem_filter, List.mem_range, hj, true_and]
  refine ⟨fun h => by simp [h], fun h1 h2 => by simp [h1, h2], fun h1 h2 => ?_⟩
  simp only [h1, h2, Bool.false_eq_true, if_false]
  split <;> simp

/-- Label 3 is given exactly to the channels from which EVERY channel up to the top of the probe is below
the low-frequency coherence threshold (and that are neither noisy nor dead): the contiguous top block.
A low-coherence stretch that does not reach the last channel, or that is separated from the top run by a
single channel above the threshold, gets no label 3. -/
theorem outside_block_contiguous_top (nc : Nat) (dead noisy low : Nat → Bool) (j : Nat) (hj : j < nc) :
    detectLabels nc dead noisy low j = 3 ↔
      noisy j = false ∧ dead j = false ∧ ∀ u, j ≤ u → u < nc → low u = true := by
  simp only [detectLabels, assign, List.contains_iff_mem, List.mem_filter, List.mem_range, hj, true_and,
    mem_outsideBlock]
  cases noisy j <;> cases dead j <;> simp

/-- The block labelled 3 before the dead/noisy overrides is an upper interval of the probe: it contains,
with a channel, every channel above it, and when it is not empty it contains the last channel. -/
theorem outside_block_upper_interval (nc : Nat) (low : Nat → Bool) :
    (∀ j k, j ∈ outsideBlock nc low → j ≤ k → k < nc → k ∈ outsideBlock nc low) ∧
    (∀ j, j ∈ outsideBlock nc low → nc - 1 ∈ outsideBlock nc low) := by
  simp only [mem_outsideBlock]
  refine ⟨fun j k ⟨_, h⟩ hjk hk => ⟨hk, fun u hku hu => h u (by omega) hu⟩, ?_⟩
  rintro j ⟨hj, h⟩
  exact ⟨by omega, fun u hu1 hu2 => h u (by omega) hu2⟩

/-- Every other channel is clear: label 0 exactly when no test fires and the channel is not in the top block. -/
theorem clear_iff (nc : Nat) (dead noisy low : Nat → Bool) (j : Nat) (hj : j < nc) :
    detectLabels nc dead noisy low j = 0 ↔
      noisy j = false ∧ dead j = false ∧ ¬ (∀ u, j ≤ u → u < nc → low u = true) := by
  simp only [detectLabels, assign, List.contains_iff_mem, List.mem_filter, List.mem_range, hj, true_and,
    mem_outsideBlock]
  cases noisy j <;> cases dead j <;> simp

/-- The complete decision rule in terms of the feature vectors and thresholds, for every ordered scalar type
(in particular IEEE `Float`, which the driver executes): 2 ⇔ the noise test fires; 1 ⇔ it does not and the
coherence is below `thr0`; 3 ⇔ neither, and every channel from `j` to the top has `xcor_lf` below `lfThr`. -/
theorem feature_rule {α : Type} [LT α] [DecidableLT α] (nc : Nat) (thr0 thr1 psdThr lfThr : α)
    (xcorHf xcorLf psdHf : Nat → α) (j : Nat) (hj : j < nc) :
    (detectFromFeatures nc thr0 thr1 psdThr lfThr xcorHf xcorLf psdHf j = 2 ↔
      (psdThr < psdHf j ∨ thr1 < xcorHf j)) ∧
    (detectFromFeatures nc thr0 thr1 psdThr lfThr xcorHf xcorLf psdHf j = 1 ↔
      ¬ (psdThr < psdHf j ∨ thr1 < xcorHf j) ∧ xcorHf j < thr0) ∧
    (detectFromFeatures nc thr0 thr1 psdThr lfThr xcorHf xcorLf psdHf j = 3 ↔
      ¬ (psdThr < psdHf j ∨ thr1 < xcorHf j) ∧ ¬ (xcorHf j < thr0) ∧
        ∀ u, j ≤ u → u < nc → xcorLf u < lfThr) := by
  unfold detectFromFeatures
  have hn : noisyTest psdThr thr1 psdHf xcorHf j = true ↔ (psdThr < psdHf j ∨ thr1 < xcorHf j) := by
    simp [noisyTest]
  have hd : deadTest thr0 xcorHf j = true ↔ xcorHf j < thr0 := by simp [deadTest]
  have hl : ∀ u, lowTest lfThr xcorLf u = true ↔ xcorLf u < lfThr := by intro u; simp [lowTest]
  obtain ⟨p1, p2, p3⟩ := label_precedence nc (deadTest thr0 xcorHf) (noisyTest psdThr thr1 psdHf xcorHf)
    (lowTest lfThr xcorLf) j hj
  have h3 := outside_block_contiguous_top nc (deadTest thr0 xcorHf) (noisyTest psdThr thr1 psdHf xcorHf)
    (lowTest lfThr xcorLf) j hj
  simp only [hl] at h3
  rw [← hn, ← hd]
  cases hN : noisyTest psdThr thr1 psdHf xcorHf j <;> cases hD : deadTest thr0 xcorHf j
  · rcases p3 hN hD with h | h
    · have hall := (h3.mp h).2.2
      rw [h]; simp; exact hall
    · have hnot : ¬ ∀ u, j ≤ u → u < nc → xcorLf u < lfThr := by
        intro hall
        have h' := h3.mpr ⟨hN, hD, hall⟩
        rw [h] at h'; cases h'
      rw [h]; simp; simpa using hnot
  · rw [p2 hN hD]; simp
  · rw [p1 hN]; simp
  · rw [p1 hN]; simp

/-- The labels computed from a file are the per-channel mode over its batches: the returned label occurs
among the channel's batch labels, no label occurs more often, and among equally frequent labels it is the
smallest (`scipy.stats.mode`). -/
theorem labels_are_mode (batches : List (Nat → Nat)) (hne : batches ≠ []) (c : Nat) :
    ∃ m, fileLabels batches c = some m ∧
      m ∈ batches.map (· c) ∧
      (∀ v, (batches.map (· c)).count v ≤ (batches.map (· c)).count m) ∧
      (∀ v, (batches.map (· c)).count v = (batches.map (· c)).count m → m ≤ v) := by
  unfold fileLabels
  exact modeOf_spec _ (by simpa using hne)

/-- No label 3 at all unless the guard of the rule holds, and the guard (`ioutside.size > 0 and ioutside[-1] == nc - 1`,
tied to the source text by `Tie.C15.detect_events_eq`) holds exactly when the LAST channel is itself below the threshold. -/
theorem outside_rule_guard (nc : Nat) (dead noisy low : Nat → Bool) :
    (topGuard nc ((List.range nc).filter low) = true ↔ 0 < nc ∧ low (nc - 1) = true) ∧
    (topGuard nc ((List.range nc).filter low) = false → ∀ j, detectLabels nc dead noisy low j ≠ 3) := by
  refine ⟨topGuard_iff nc low, fun h j => ?_⟩
  have hnil := outsideBlock_of_guard_false nc low h
  simp only [detectLabels, assign, hnil, List.contains_iff_mem, List.mem_filter, List.mem_range, List.not_mem_nil,
    if_false]
  split
  · simp
  · split <;> simp

/-- A label held by more than half of the batches is the file's label; in particular a label on which all batches agree. -/
theorem labels_majority (batches : List (Nat → Nat)) (c v : Nat)
    (hmaj : batches.length < 2 * (batches.map (· c)).count v) : fileLabels batches c = some v := by
  have hne : batches ≠ [] := by
    intro e; subst e; simp at hmaj
  obtain ⟨m, hm, _, hmax, _⟩ := labels_are_mode batches hne c
  rw [hm]
  by_cases e : m = v
  · rw [e]
  · exfalso
    have h1 := count_add_count_le (batches.map (· c)) v m (fun e' => e e'.symm)
    have h2 := hmax v
    simp only [List.length_map] at h1
    omega

theorem labels_unanimous (batches : List (Nat → Nat)) (hne : batches ≠ []) (c v : Nat)
    (hall : ∀ b ∈ batches, b c = v) : fileLabels batches c = some v := by
  apply labels_majority
  have : (batches.map (· c)).count v = batches.length := by
    rw [List.count_eq_length.mpr]
    · simp
    · intro x hx
      obtain ⟨b, hb, rfl⟩ := List.mem_map.mp hx
      exact (hall b hb).symm
  have := List.length_pos_iff.mpr hne
  omega

/-- One flag per analysed (non-sync) channel (`nc = sr.nc - sr.nsync`, tied to the source by `Tie.C15.cbin_nc_eq`). -/
theorem file_label_vector_length (ncTotal nsync : Nat) (batches : List (Nat → Nat)) (l : List Nat)
    (h : fileLabelVector ncTotal nsync batches = some l) : l.length = ncTotal - nsync := by
  unfold fileLabelVector analysedChannels at h
  rw [mapM_option_length _ _ _ h, List.length_range]

/-! ## `detrend` (the median-filter residual behind `xcor_hf` / `xcor_lf`) -/

/-- `detrend(x, nmed)` keeps the length; the median window of output `k` never touches the zero padding of
`scipy.signal.medfilt` (`ntap = ⌈nmed/2⌉ ≥ nmed/2`, tied to the source by `Tie.C15.detrend_ntap_eq / _covers`) and reads
`x[clamp(k + q − nmed/2)]`, `q < nmed`: a window centred on `k`, the vector being continued by its first / last value.
Every scalar type, every length, every window size. -/
theorem detrend_centred_edge_replicated {α : Type} [Inhabited α] [Zero α] [Sub α] [LT α] [DecidableLT α]
    (x : List α) (hx : x ≠ []) (nmed k q : Nat) (hk : k < x.length) (hq : q < nmed) (d : α) :
    (detrend x nmed).length = x.length ∧
    nmed / 2 ≤ k + detrendTaps nmed + q ∧
    k + detrendTaps nmed + q - nmed / 2 < (edgePad (detrendTaps nmed) x).length ∧
    (edgePad (detrendTaps nmed) x).getD (k + detrendTaps nmed + q - nmed / 2) d =
      x.getD (min (x.length - 1) (k + q - nmed / 2)) d := by
  have ht := detrendTaps_ge nmed
  have hup : nmed - 1 - nmed / 2 ≤ detrendTaps nmed := by unfold detrendTaps; omega
  have hlen := edgePad_length (detrendTaps nmed) x
  refine ⟨by simp [detrend], by omega, by omega, ?_⟩
  rw [edgePad_getD (detrendTaps nmed) x hx _ (by omega) d]
  congr 2
  omega

/-! ## Weights: `exp(-(distance / krig)^p)` -/

/-- The raw weight is a function of the distance between the two sites only, and symmetric. -/
theorem weights_depend_on_distance_only (p krig : ℝ) (x y : Nat → ℝ) (i j k : Nat) :
    (dist2 x y i j = dist2 x y i k → rawWeightR p krig x y i j = rawWeightR p krig x y i k) ∧
    rawWeightR p krig x y i j = rawWeightR p krig x y j i := by
  refine ⟨fun h => ?_, ?_⟩
  · rw [rawWeightR_eq_decay, rawWeightR_eq_decay, h]
  · rw [rawWeightR_eq_decay, rawWeightR_eq_decay, dist2_symm]

/-- Raw weights lie in (0, 1], a site has weight 1 with itself, and a farther site never weighs more. -/
theorem weights_decay_with_distance (p krig : ℝ) (hp : 0 < p) (hk : 0 < krig) (x y : Nat → ℝ) (i j k : Nat) :
    0 < rawWeightR p krig x y i j ∧ rawWeightR p krig x y i j ≤ 1 ∧ rawWeightR p krig x y i i = 1 ∧
    (dist2 x y i j ≤ dist2 x y i k → rawWeightR p krig x y i k ≤ rawWeightR p krig x y i j) := by
  simp only [rawWeightR_eq_decay, dist2_self]
  exact ⟨decay_pos _ _ _, decay_le_one _ _ _ hk, decay_zero _ _ (ne_of_gt hp),
    fun h => decay_antitone _ _ _ _ hp.le hk h⟩

/-- The repaired row with its coefficients spelled out: `coeff` is the cut weight over the sum of the cut weights. -/
theorem repair_eq_coeff_sum (nc : Nat) (thr : ℝ) (hthr : 0 < thr) (labels : Nat → Nat) (W : Nat → Nat → ℝ)
    (data : Nat → Nat → ℝ) (c : Nat) (hc : c < nc) (hbad : labels c = 1 ∨ labels c = 2)
    (hdonor : ∃ j, j < nc ∧ labels j ≠ 1 ∧ labels j ≠ 2 ∧ thr ≤ W c j) (t : Nat) :
    interpolate nc thr labels W data c t =
      ((List.range nc).map fun j => coeff nc thr labels (W c) j * data j t).sum := by
  obtain ⟨j0, hj0, hl1, hl2, hw⟩ := hdonor
  have hb0 : isBad labels j0 = false := by simp [isBad, hl1, hl2]
  rw [sequential_eq_parallel nc thr labels W data c hc hbad]
  exact repairRow_eq_sum nc thr hthr labels (W c) data j0 hj0 hb0 hw t

/-- Donors at the same distance from the bad channel (mirror images, the two neighbours of a row …) enter the repair with
EQUAL coefficients, and of two channels the nearer one never has the smaller coefficient (every geometry, `p > 0`). -/
theorem symmetric_donors_equal_weight (nc : Nat) (thr p krig : ℝ) (hthr : 0 < thr) (hp : 0 < p) (hk : 0 < krig)
    (labels : Nat → Nat) (x y : Nat → ℝ) (c j k : Nat) (hj : j < nc) (hkn : k < nc)
    (hbj : labels j ≠ 1 ∧ labels j ≠ 2) :
    (labels k ≠ 1 ∧ labels k ≠ 2 → dist2 x y c j = dist2 x y c k →
      coeff nc thr labels (rawWeightR p krig x y c) j = coeff nc thr labels (rawWeightR p krig x y c) k) ∧
    (dist2 x y c j ≤ dist2 x y c k →
      coeff nc thr labels (rawWeightR p krig x y c) k ≤ coeff nc thr labels (rawWeightR p krig x y c) j) := by
  have hb : isBad labels j = false := by simp [isBad, hbj.1, hbj.2]
  refine ⟨fun hbk hd => ?_, fun hd => ?_⟩
  · have hb' : isBad labels k = false := by simp [isBad, hbk.1, hbk.2]
    apply coeff_eq_of_weight_eq nc thr labels _ j k hj hkn hb hb'
    rw [rawWeightR_eq_decay, rawWeightR_eq_decay, hd]
  · apply coeff_mono nc thr hthr labels _ j k hj hkn hb
    rw [rawWeightR_eq_decay, rawWeightR_eq_decay]
    exact decay_antitone _ _ _ _ hp.le hk hd

/-- "Nearby": the channels that contribute to the repair of bad channel `c` are exactly the channels labelled neither 1
nor 2 within the radius `krig · log(1/thr)^(1/p)` of it (72.12 µm for the defaults). -/
theorem repair_uses_exactly_nearby (nc : Nat) (thr p krig : ℝ) (hthr : 0 < thr) (hthr1 : thr ≤ 1) (hp : 0 < p)
    (hk : 0 < krig) (labels : Nat → Nat) (x y : Nat → ℝ) (c j : Nat) :
    coeff nc thr labels (rawWeightR p krig x y c) j ≠ 0 ↔
      j < nc ∧ labels j ≠ 1 ∧ labels j ≠ 2 ∧
        Real.sqrt (dist2 x y c j) ≤ krig * (Real.log (1 / thr)) ^ p⁻¹ := by
  rw [coeff_ne_zero_iff nc thr hthr, rawWeightR_eq_decay, decay_ge_iff p krig thr _ hp hk hthr hthr1]
  simp only [isBad, Bool.or_eq_false_iff, beq_eq_false_iff_ne, ne_eq, and_assoc]

/-- Coordinates of a lattice as real vectors. -/
noncomputable def siteX (site : Nat → Int × Int) (j : Nat) : ℝ := ((site j).1 : ℝ)
noncomputable def siteY (site : Nat → Int × Int) (j : Nat) : ℝ := ((site j).2 : ℝ)

theorem dist2_site (site : Nat → Int × Int) (i j : Nat) :
    dist2 (siteX site) (siteY site) i j = ((sqDist (site i) (site j) : Int) : ℝ) := by
  simp only [dist2, siteX, siteY, sqDist]
  push_cast
  ring

/-- On a lattice whose squared site distances avoid the gap (4624, 5625) µm², the default parameters
(p = 1.3, 20 µm, cut-off 0.005) make `j` a donor of `c` iff it is labelled neither 1 nor 2 and within 68 µm. -/
theorem default_donors_on_lattice (site : Nat → Int × Int)
    (hgap : ∀ i j, sqDist (site i) (site j) ≤ 4624 ∨ 5625 ≤ sqDist (site i) (site j))
    (nc : Nat) (labels : Nat → Nat) (c j : Nat) :
    coeff nc (1 / 200) labels (rawWeightR (13 / 10) 20 (siteX site) (siteY site) c) j ≠ 0 ↔
      j ∈ latticeDonors site nc labels c := by
  rw [coeff_ne_zero_iff nc (1 / 200) (by norm_num), rawWeightR_eq_decay, dist2_site]
  simp only [latticeDonors, List.mem_filter, List.mem_range, Bool.and_eq_true, Bool.not_eq_true',
    defaultDonorSq]
  constructor
  · rintro ⟨h1, h2, h3⟩
    refine ⟨h1, h2, ?_⟩
    rcases hgap c j with h | h
    · exact decide_eq_true h
    · exfalso
      have : ((5625 : Int) : ℝ) ≤ ((sqDist (site c) (site j) : Int) : ℝ) := by exact_mod_cast h
      have := default_decay_lt _ (by simpa using this)
      linarith
  · rintro ⟨h1, h2, h3⟩
    refine ⟨h1, h2, ?_⟩
    have : ((sqDist (site c) (site j) : Int) : ℝ) ≤ ((4624 : Int) : ℝ) := by exact_mod_cast of_decide_eq_true h3
    exact default_decay_ge _ (by simpa using this)

/-- Neuropixels 2.0 (two columns, 15 µm rows): with the default parameters the donors of a bad channel are the channels
labelled neither 1 nor 2 at most FOUR rows away, in either column. -/
theorem np2_default_donors (nc : Nat) (labels : Nat → Nat) (c j : Nat) :
    coeff nc (1 / 200) labels (rawWeightR (13 / 10) 20 (siteX np2Site) (siteY np2Site) c) j ≠ 0 ↔
      j < nc ∧ labels j ≠ 1 ∧ labels j ≠ 2 ∧ -4 ≤ siteRow j - siteRow c ∧ siteRow j - siteRow c ≤ 4 := by
  rw [default_donors_on_lattice np2Site (fun i j => (np2_sqDist i j).2)]
  simp only [latticeDonors, List.mem_filter, List.mem_range, Bool.and_eq_true, Bool.not_eq_true',
    decide_eq_true_eq, (np2_sqDist c j).1, isBad, Bool.or_eq_false_iff, beq_eq_false_iff_ne, ne_eq, and_assoc]

/-- Neuropixels 1.0 (four staggered columns, 20 µm rows): the donors are the channels labelled neither 1 nor 2 at most TWO
rows away, or three rows away and at most 32 µm sideways. -/
theorem np1_default_donors (nc : Nat) (labels : Nat → Nat) (c j : Nat) :
    coeff nc (1 / 200) labels (rawWeightR (13 / 10) 20 (siteX np1Site) (siteY np1Site) c) j ≠ 0 ↔
      j < nc ∧ labels j ≠ 1 ∧ labels j ≠ 2 ∧
        ((-2 ≤ siteRow j - siteRow c ∧ siteRow j - siteRow c ≤ 2) ∨
          ((siteRow j - siteRow c = 3 ∨ siteRow j - siteRow c = -3) ∧
            ((np1Site j).1 - (np1Site c).1) ^ 2 ≤ 1024)) := by
  rw [default_donors_on_lattice np1Site (fun i j => (np1_sqDist i j).2)]
  simp only [latticeDonors, List.mem_filter, List.mem_range, Bool.and_eq_true, Bool.not_eq_true',
    decide_eq_true_eq, (np1_sqDist c j).1, isBad, Bool.or_eq_false_iff, beq_eq_false_iff_ne, ne_eq, and_assoc]

/-! ## Batches of `detect_bad_channels_cbin` (exact arithmetic; the float evaluation is compared with the code) -/

/-- No batch reaches beyond the file: for a file of `ns` samples at least one batch long, every batch slice satisfies
`0 ≤ start ≤ stop ≤ ns` — every length, rate, duration, batch count. -/
theorem batches_inside_file (ns nb i : Nat) (fs dur : ℝ) (hfs : 0 < fs) (hdur : 0 ≤ dur) (hlen : dur * fs ≤ ns)
    (hi : i < nb) :
    0 ≤ (batchSliceR ns fs dur nb i).1 ∧ (batchSliceR ns fs dur nb i).1 ≤ (batchSliceR ns fs dur nb i).2 ∧
      (batchSliceR ns fs dur nb i).2 ≤ ns := by
  rw [batchSliceR_eq ns fs dur nb i hfs hdur hlen]
  have h0 := batchPos_nonneg ns fs dur nb i hlen
  have h1 := batchPos_add_le ns fs dur nb i hlen hi
  have hD : 0 ≤ dur * fs := mul_nonneg hdur hfs.le
  refine ⟨Int.floor_nonneg.mpr h0, Int.floor_mono (by linarith), ?_⟩
  have : (⌊batchPos ns fs dur nb i + dur * fs⌋ : ℝ) ≤ (ns : ℝ) := le_trans (Int.floor_le _) h1
  exact_mod_cast this

/-- The first batch starts at the first sample; with at least two batches the last one ends exactly at the last sample. -/
theorem batches_span_file (ns nb : Nat) (fs dur : ℝ) (hfs : 0 < fs) (hdur : 0 ≤ dur) (hlen : dur * fs ≤ ns) :
    (batchSliceR ns fs dur nb 0).1 = 0 ∧ (2 ≤ nb → (batchSliceR ns fs dur nb (nb - 1)).2 = ns) := by
  refine ⟨?_, fun hnb => ?_⟩
  · rw [batchSliceR_eq ns fs dur nb 0 hfs hdur hlen]
    have : batchPos ns fs dur nb 0 = 0 := by unfold batchPos; split <;> simp
    simp [this]
  · rw [batchSliceR_eq ns fs dur nb (nb - 1) hfs hdur hlen]
    have h2 : (2 : ℝ) ≤ (nb : ℝ) := by exact_mod_cast hnb
    have hc : ((nb - 1 : Nat) : ℝ) = (nb : ℝ) - 1 := by rw [Nat.cast_sub (by omega)]; simp
    have : batchPos ns fs dur nb (nb - 1) + dur * fs = (ns : ℝ) := by
      unfold batchPos
      rw [if_neg (by omega), hc]
      have hne : (nb : ℝ) - 1 ≠ 0 := by intro h; linarith
      field_simp
      ring
    show ⌊batchPos ns fs dur nb (nb - 1) + dur * fs⌋ = (ns : ℤ)
    rw [this]
    exact Int.floor_natCast ns

/-- The batches are evenly spaced (consecutive starts differ by the constant `(ns − dur·fs)/(nb − 1)` up to the one sample
of truncation) and each is `dur·fs` samples long up to one sample. -/
theorem batches_evenly_spaced (ns nb i : Nat) (fs dur : ℝ) (hfs : 0 < fs) (hdur : 0 ≤ dur) (hlen : dur * fs ≤ ns)
    (hi : i + 1 < nb) :
    |(((batchSliceR ns fs dur nb (i + 1)).1 - (batchSliceR ns fs dur nb i).1 : ℤ) : ℝ) -
        ((ns : ℝ) - dur * fs) / ((nb : ℝ) - 1)| < 1 ∧
    |(((batchSliceR ns fs dur nb i).2 - (batchSliceR ns fs dur nb i).1 : ℤ) : ℝ) - dur * fs| < 1 := by
  rw [batchSliceR_eq ns fs dur nb i hfs hdur hlen, batchSliceR_eq ns fs dur nb (i + 1) hfs hdur hlen]
  have hstep : batchPos ns fs dur nb (i + 1) - batchPos ns fs dur nb i = ((ns : ℝ) - dur * fs) / ((nb : ℝ) - 1) := by
    unfold batchPos
    rw [if_neg (by omega), if_neg (by omega)]
    push_cast
    ring
  have a1 := Int.floor_le (batchPos ns fs dur nb i)
  have a2 := Int.lt_floor_add_one (batchPos ns fs dur nb i)
  have b1 := Int.floor_le (batchPos ns fs dur nb (i + 1))
  have b2 := Int.lt_floor_add_one (batchPos ns fs dur nb (i + 1))
  have c1 := Int.floor_le (batchPos ns fs dur nb i + dur * fs)
  have c2 := Int.lt_floor_add_one (batchPos ns fs dur nb i + dur * fs)
  push_cast
  constructor <;> rw [abs_lt] <;> constructor <;> linarith

/-! ## Non-vacuity -/

/-- Hypotheses of `repair_is_convex` on a concrete probe: channel 1 dead between two good channels. -/
example : ∃ j, j < 3 ∧ (fun j => if j = 1 then 1 else 0 : Nat → Nat) j ≠ 1 ∧
    (fun j => if j = 1 then 1 else 0 : Nat → Nat) j ≠ 2 ∧ (1 / 200 : ℝ) ≤ (fun _ _ => (1 : ℝ)) 1 j :=
  ⟨0, by norm_num, by simp, by simp, by norm_num⟩

/-- … of `order_irrelevant`: the decreasing order visits the same channels as the code's increasing order. -/
example : ∀ i, i ∈ (badChannels 5 (fun j => if j = 1 ∨ j = 3 then 2 else 0)).reverse ↔
    i ∈ badChannels 5 (fun j => if j = 1 ∨ j = 3 then 2 else 0) := by
  intro i; simp

example : badChannels 5 (fun j => if j = 1 ∨ j = 3 then 2 else 0) = [1, 3] := by decide

/-- … and of `no_donor_zero`: every channel bad. -/
example : ∀ j, j < 2 → (fun _ => 1 : Nat → Nat) j ≠ 1 → (fun _ => 1 : Nat → Nat) j ≠ 2 →
    (fun _ _ => (1 : ℝ)) 0 j < (1 / 200 : ℝ) := by
  intro j _ h; exact absurd rfl h

/-- Two separated low-coherence runs, the upper one reaching the top: only that one is labelled 3; a dead
channel inside it is 1, a noisy-and-dead channel is 2. -/
example :
    (List.range 10).map (detectLabels 10 (fun j => j == 8 || j == 2) (fun j => j == 2 || j == 4)
      (fun j => j == 1 || j == 2 || j == 3 || j ≥ 6)) = [0, 0, 2, 0, 2, 0, 3, 3, 1, 3] := by
  decide

/-- A low-coherence run that does not reach the last channel gives no label 3. -/
example : (List.range 6).map (detectLabels 6 (fun _ => false) (fun _ => false) (fun j => 2 ≤ j && j ≤ 4))
    = [0, 0, 0, 0, 0, 0] := by
  decide

example : modeOf [3, 0, 3, 0, 1] = some 0 ∧ modeOf [3, 3, 0, 1, 3] = some 3 ∧ modeOf [] = none := by
  decide

/-- Hypotheses of `batches_inside_file` / `batches_evenly_spaced`: 10 batches of 0.3 s at 30 kHz in a 60 s file. -/
example : (0 : ℝ) < 30000 ∧ (0 : ℝ) ≤ 3 / 10 ∧ (3 / 10 : ℝ) * 30000 ≤ ((1800000 : Nat) : ℝ) ∧ 3 + 1 < 10 := by
  norm_num

/-- … of `labels_majority`: 3 of 5 batches say 2. -/
example : ([fun _ => 2, fun _ => 0, fun _ => 2, fun _ => 1, fun _ => 2] : List (Nat → Nat)).length <
    2 * (([fun _ => 2, fun _ => 0, fun _ => 2, fun _ => 1, fun _ => 2] : List (Nat → Nat)).map (· 7)).count 2 := by
  decide

/-- … of `default_donors_on_lattice` (its hypothesis is `np2_sqDist` / `np1_sqDist`), and the donor rule evaluated: on an
NP2 shank the donors of dead channel 10 (row 5) among 24 good channels are rows 1..9 without itself; on NP1 rows 2..8 minus
the two far corners (channels 5 and 17: three rows away and 48 µm sideways). -/
example : latticeDonors np2Site 24 (fun j => if j = 10 then 1 else 0) 10 =
    [2, 3, 4, 5, 6, 7, 8, 9, 11, 12, 13, 14, 15, 16, 17, 18, 19] := by decide
example : latticeDonors np1Site 24 (fun j => if j = 10 then 1 else 0) 10 =
    [4, 6, 7, 8, 9, 11, 12, 13, 14, 15, 16] := by decide

/-- `detrend` executed: a step profile, window 3 (the residual is non-zero only next to the step). -/
example : detrend ([1, 1, 1, 5, 5, 5] : List Int) 3 = [0, 0, 0, 0, 0, 0] ∧
    detrend ([1, 1, 9, 1, 1] : List Int) 3 = [0, 0, 8, 0, 0] ∧ detrendTaps 11 = 6 := by decide

example : topGuard 6 ((List.range 6).filter fun j => j == 1 || j ≥ 4) = true ∧
    topGuard 6 ((List.range 6).filter fun j => j == 1 || j == 4) = false := by decide

end IblVerif.C15
