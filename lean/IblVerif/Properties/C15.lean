/-
C15 — Bad-channel repair touches only bad channels; detection finds injected faults.

Property theorems only (helper lemmas: `Lemmas/BadChannelsInterp.lean`, `Lemmas/BadChannelsLabels.lean`,
`Analysis/Interp.lean`).  Model: `Model/BadChannels.lean` (transcription of `interpolate_bad_channels`, of
the recommendation part of `detect_bad_channels` and of the mode in `detect_bad_channels_cbin`).

Quantifier: every channel count `nc`, every label vector `labels : ℕ → ℕ` (in particular all vectors over
{0,1,2,3}, clusters of adjacent bad channels, bad channels at the probe ends), every geometry — which enters
only through the raw weight matrix `W i j = exp(-(dist(i,j)/20)^1.3)`, here an ARBITRARY real matrix —,
every cut-off `thr > 0` (0.005 in the code) and all data.  The detection of injected faults on synthetic
recordings is numeric only (oracle in `harness/props/c15.py`), not a theorem.
-/
import IblVerif.Analysis.Interp
import IblVerif.Lemmas.BadChannelsLabels

namespace IblVerif.C15
open IblVerif.BadChannels

/-! ## Repair -/

/-- Channels labelled neither dead (1) nor noisy (2) are returned identical.  Stated for EVERY scalar type
with the operations the code uses — in particular for IEEE `Float`, where it reads "bit-identical". -/
theorem good_rows_bit_identical {α : Type} [Zero α] [Add α] [Mul α] [Div α] [LT α] [DecidableLT α]
    (nc : Nat) (thr : α) (labels : Nat → Nat) (W : Nat → Nat → α) (data : Nat → Nat → α)
    (c : Nat) (h1 : labels c ≠ 1) (h2 : labels c ≠ 2) :
    interpolate nc thr labels W data c = data c := by
  apply interpolateOrd_not_mem
  intro hmem
  have := (mem_badChannels.mp hmem).2
  simp [isBad, h1, h2] at this

/-- The sequential in-place loop computes every bad row from the ORIGINAL data: a repaired channel is never
a donor (`weights[bad_channels] = 0`), so earlier writes are never read. -/
theorem sequential_eq_parallel (nc : Nat) (thr : ℝ) (labels : Nat → Nat) (W : Nat → Nat → ℝ)
    (data : Nat → Nat → ℝ) (c : Nat) (hc : c < nc) (hbad : labels c = 1 ∨ labels c = 2) :
    interpolate nc thr labels W data c = repairRow nc thr labels (W c) data := by
  have hb : isBad labels c = true := by rcases hbad with h | h <;> simp [isBad, h]
  have := interpolateOrd_eq real_hdiv nc thr labels W data (badChannels nc labels)
    (fun i hi => (mem_badChannels.mp hi).2) data (fun _ _ => rfl) c
  rw [interpolate, this, if_pos (mem_badChannels.mpr ⟨hc, hb⟩)]

/-- Hence the order in which the bad channels are visited does not matter (any list of bad channels that
visits the same set, repetitions allowed, gives the same result as the code's increasing order). -/
theorem order_irrelevant (nc : Nat) (thr : ℝ) (labels : Nat → Nat) (W : Nat → Nat → ℝ)
    (data : Nat → Nat → ℝ) (ord : List Nat) (hord : ∀ i, i ∈ ord ↔ i ∈ badChannels nc labels) :
    interpolateOrd nc thr labels W ord data = interpolate nc thr labels W data := by
  funext c
  have h1 := interpolateOrd_eq real_hdiv nc thr labels W data ord
    (fun i hi => (mem_badChannels.mp ((hord i).mp hi)).2) data (fun _ _ => rfl) c
  have h2 := interpolateOrd_eq real_hdiv nc thr labels W data (badChannels nc labels)
    (fun i hi => (mem_badChannels.mp hi).2) data (fun _ _ => rfl) c
  rw [interpolate, h1, h2]
  by_cases h : c ∈ ord
  · rw [if_pos h, if_pos ((hord c).mp h)]
  · rw [if_neg h, if_neg (fun h' => h ((hord c).mpr h'))]

/-- The repaired row reads ONLY the donor rows: two data matrices that agree on the donors of bad channel `c`
(`imult`, the channels with a positive normalised weight) give the same repaired row — whatever the other
rows hold, in particular the bad channels themselves (NaN, ±inf, …).  For EVERY scalar type in which `0 / s`
is never positive (true in ℝ, see below, and of IEEE floats, where `0 / s ∈ {±0, NaN}`); the row-level
statement `repairRow_congr` needs no hypothesis at all. -/
theorem repair_depends_only_on_donors {α : Type} [Zero α] [Add α] [Mul α] [Div α] [LT α] [DecidableLT α]
    (hdiv : ∀ s : α, ¬ (0 : α) < 0 / s)
    (nc : Nat) (thr : α) (labels : Nat → Nat) (W : Nat → Nat → α) (data data' : Nat → Nat → α)
    (c : Nat) (hc : c < nc) (hbad : labels c = 1 ∨ labels c = 2)
    (hagree : ∀ j ∈ imult nc thr labels (W c) (weightSum nc thr labels (W c)), data j = data' j) :
    interpolate nc thr labels W data c = interpolate nc thr labels W data' c := by
  have hb : isBad labels c = true := by rcases hbad with h | h <;> simp [isBad, h]
  have hmem := mem_badChannels.mpr ⟨hc, hb⟩
  have h1 := interpolateOrd_eq hdiv nc thr labels W data (badChannels nc labels)
    (fun i hi => (mem_badChannels.mp hi).2) data (fun _ _ => rfl) c
  have h2 := interpolateOrd_eq hdiv nc thr labels W data' (badChannels nc labels)
    (fun i hi => (mem_badChannels.mp hi).2) data' (fun _ _ => rfl) c
  rw [interpolate, interpolate, h1, h2, if_pos hmem, if_pos hmem]
  exact repairRow_congr nc thr labels (W c) data data' hagree

/-- Over ℝ, with the donors spelled out: data that agree on the channels `j < nc` labelled neither 1 nor 2
whose raw weight reaches the cut-off give the same repaired row. -/
theorem repair_depends_only_on_donors_real (nc : Nat) (thr : ℝ) (labels : Nat → Nat) (W : Nat → Nat → ℝ)
    (data data' : Nat → Nat → ℝ) (c : Nat) (hc : c < nc) (hbad : labels c = 1 ∨ labels c = 2)
    (hagree : ∀ j, j < nc → labels j ≠ 1 → labels j ≠ 2 → thr ≤ W c j → data j = data' j) :
    interpolate nc thr labels W data c = interpolate nc thr labels W data' c := by
  apply repair_depends_only_on_donors real_hdiv nc thr labels W data data' c hc hbad
  intro j hj
  simp only [imult, List.mem_filter, List.mem_range, decide_eq_true_eq] at hj
  rcases cutWeight_cases thr labels (W c) j with h0 | ⟨_, h2, h3⟩
  · have := hj.2
    unfold normWeight at this
    rw [h0] at this; simp at this
  · simp only [isBad, Bool.or_eq_false_iff, beq_eq_false_iff_ne] at h2
    exact hagree j hj.1 h2.1 h2.2 h3

/-- A bad channel that has at least one donor — a channel `j < nc` labelled neither 1 nor 2 whose raw weight
reaches the cut-off — is replaced by a convex combination of such donors: coefficients `lam j ≥ 0`, non-zero
only on donors (which are good or outside-brain channels: never dead/noisy, never a repaired one, and
"nearby" in the sense `thr ≤ W c j`), summing to one. -/
theorem repair_is_convex (nc : Nat) (thr : ℝ) (hthr : 0 < thr) (labels : Nat → Nat) (W : Nat → Nat → ℝ)
    (data : Nat → Nat → ℝ) (c : Nat) (hc : c < nc) (hbad : labels c = 1 ∨ labels c = 2)
    (hdonor : ∃ j, j < nc ∧ labels j ≠ 1 ∧ labels j ≠ 2 ∧ thr ≤ W c j) :
    ∃ lam : Nat → ℝ,
      (∀ j, 0 ≤ lam j) ∧
      (∀ j, lam j ≠ 0 → j < nc ∧ labels j ≠ 1 ∧ labels j ≠ 2 ∧ thr ≤ W c j) ∧
      ((List.range nc).map lam).sum = 1 ∧
      ∀ t, interpolate nc thr labels W data c t = ((List.range nc).map fun j => lam j * data j t).sum := by
  obtain ⟨j0, hj0, hl1, hl2, hw⟩ := hdonor
  have hb0 : isBad labels j0 = false := by simp [isBad, hl1, hl2]
  refine ⟨coeff nc thr labels (W c), coeff_nonneg nc thr hthr labels (W c), ?_, ?_, ?_⟩
  · intro j hj
    obtain ⟨h1, h2, h3⟩ := coeff_ne_zero nc thr labels (W c) j hj
    simp only [isBad, Bool.or_eq_false_iff, beq_eq_false_iff_ne] at h2
    exact ⟨h1, h2.1, h2.2, h3⟩
  · exact coeff_sum nc thr labels (W c) (weightSum_pos nc thr hthr labels (W c) j0 hj0 hb0 hw)
  · intro t
    rw [sequential_eq_parallel nc thr labels W data c hc hbad]
    exact repairRow_eq_sum nc thr hthr labels (W c) data j0 hj0 hb0 hw t

/-- … so at every sample the repaired value lies within the range of its donors: between any two bounds
that hold for all donors (in particular their minimum and maximum). -/
theorem repair_within_donor_range (nc : Nat) (thr : ℝ) (hthr : 0 < thr) (labels : Nat → Nat)
    (W : Nat → Nat → ℝ) (data : Nat → Nat → ℝ) (c : Nat) (hc : c < nc) (hbad : labels c = 1 ∨ labels c = 2)
    (hdonor : ∃ j, j < nc ∧ labels j ≠ 1 ∧ labels j ≠ 2 ∧ thr ≤ W c j)
    (t : Nat) (lo hi : ℝ)
    (hrange : ∀ j, j < nc → labels j ≠ 1 → labels j ≠ 2 → thr ≤ W c j → lo ≤ data j t ∧ data j t ≤ hi) :
    lo ≤ interpolate nc thr labels W data c t ∧ interpolate nc thr labels W data c t ≤ hi := by
  obtain ⟨lam, h0, hsupp, hsum, hrep⟩ := repair_is_convex nc thr hthr labels W data c hc hbad hdonor
  have := convex_bounds (List.range nc) lam (fun j => data j t) lo hi (fun j _ => h0 j)
    (fun j _ hj => by
      obtain ⟨a, b, c', d⟩ := hsupp j hj
      exact hrange j a b c' d)
  rw [hsum, mul_one, mul_one] at this
  rw [hrep t]
  exact this

/-- A bad channel without any donor is replaced by zeros. -/
theorem no_donor_zero (nc : Nat) (thr : ℝ) (labels : Nat → Nat) (W : Nat → Nat → ℝ)
    (data : Nat → Nat → ℝ) (c : Nat) (hc : c < nc) (hbad : labels c = 1 ∨ labels c = 2)
    (hnone : ∀ j, j < nc → labels j ≠ 1 → labels j ≠ 2 → W c j < thr) (t : Nat) :
    interpolate nc thr labels W data c t = 0 := by
  rw [sequential_eq_parallel nc thr labels W data c hc hbad]
  apply repairRow_no_donor
  intro j hj hb
  simp only [isBad, Bool.or_eq_false_iff, beq_eq_false_iff_ne] at hb
  exact hnone j hj hb.1 hb.2

/-- The donor selection as it stood before the `fix:` commit (cut-off re-applied AFTER normalising) was not
convex: with a bad channel 0 and two donors of raw weights 1 and 0.005 the kept coefficients sum to
`1/1.005 < 1`, so a constant field was repaired to a smaller value (finding F8, now fixed in /repo). -/
theorem prefix_selection_counterexample :
    let labels : Nat → Nat := fun j => if j = 0 then 1 else 0
    let w : Nat → ℝ := fun j => if j = 2 then 1 / 200 else 1
    let s := weightSum 3 (1 / 200 : ℝ) labels w
    ((imultPreFix 3 (1 / 200 : ℝ) labels w s).map (normWeight (1 / 200 : ℝ) labels w s)).sum < 1 := by
  intro labels w s
  have c0 : cutWeight (1 / 200 : ℝ) labels w 0 = 0 := by simp [cutWeight, isBad, labels]
  have c1 : cutWeight (1 / 200 : ℝ) labels w 1 = 1 := by
    simp only [cutWeight, isBad, labels, w]; norm_num
  have c2 : cutWeight (1 / 200 : ℝ) labels w 2 = 1 / 200 := by
    simp only [cutWeight, isBad, labels, w]; norm_num
  have hs : s = 201 / 200 := by
    simp only [s, weightSum, List.range, List.range.loop, List.map_cons, List.map_nil, List.sum_cons,
      List.sum_nil, c0, c1, c2]
    norm_num
  rw [hs]
  have n0 : ¬ ((1 / 200 : ℝ) < normWeight (1 / 200 : ℝ) labels w (201 / 200) 0) := by
    rw [normWeight, c0]; norm_num
  have n1 : (1 / 200 : ℝ) < normWeight (1 / 200 : ℝ) labels w (201 / 200) 1 := by
    rw [normWeight, c1]; norm_num
  have n2 : ¬ ((1 / 200 : ℝ) < normWeight (1 / 200 : ℝ) labels w (201 / 200) 2) := by
    rw [normWeight, c2]; norm_num
  simp only [imultPreFix, List.range, List.range.loop, List.filter_cons, List.filter_nil, n0, n1, n2,
    decide_true, decide_false, if_true, if_false, Bool.false_eq_true, List.map_cons, List.map_nil,
    List.sum_cons, List.sum_nil]
  rw [normWeight, c1]; norm_num

/-! ## Labels -/

/-- Precedence noisy (2) over dead (1) over outside-brain (3): a channel whose noise test fires is 2 whatever
else holds; otherwise a channel whose dead test fires is 1; otherwise it is 3 or 0. -/
theorem label_precedence (nc : Nat) (dead noisy low : Nat → Bool) (j : Nat) (hj : j < nc) :
    (noisy j = true → detectLabels nc dead noisy low j = 2) ∧
    (noisy j = false → dead j = true → detectLabels nc dead noisy low j = 1) ∧
    (noisy j = false → dead j = false →
      detectLabels nc dead noisy low j = 3 ∨ detectLabels nc dead noisy low j = 0) := by
  simp only [detectLabels, assign, List.contains_iff_mem, List.mem_filter, List.mem_range, hj, true_and]
  refine ⟨fun h => by simp [h], fun h1 h2 => by simp [h1, h2], fun h1 h2 => ?_⟩
  simp only [h1, h2, Bool.false_eq_true, if_false]
  split <;> simp

/-- Label 3 is given exactly to the channels from which EVERY channel up to the top of the probe is below
the low-frequency coherence threshold (and that are neither noisy nor dead): the contiguous top block.
A low-coherence stretch that does not reach the last channel, or that is separated from the top run by a
single channel above the threshold, gets no label 3. -/
theorem outside_block_contiguous_top (nc : Nat) (dead noisy low : Nat → Bool) (j : Nat) (hj : j < nc) :
    detectLabels nc dead noisy low j = 3 ↔
      noisy j = false ∧ dead j = false ∧ ∀ u, j ≤ u → u < nc → low u = true := by
  simp only [detectLabels, assign, List.contains_iff_mem, List.mem_filter, List.mem_range, hj, true_and,
    mem_outsideBlock]
  cases noisy j <;> cases dead j <;> simp

/-- The block labelled 3 before the dead/noisy overrides is an upper interval of the probe: it contains,
with a channel, every channel above it, and when it is not empty it contains the last channel. -/
theorem outside_block_upper_interval (nc : Nat) (low : Nat → Bool) :
    (∀ j k, j ∈ outsideBlock nc low → j ≤ k → k < nc → k ∈ outsideBlock nc low) ∧
    (∀ j, j ∈ outsideBlock nc low → nc - 1 ∈ outsideBlock nc low) := by
  simp only [mem_outsideBlock]
  refine ⟨fun j k ⟨_, h⟩ hjk hk => ⟨hk, fun u hku hu => h u (by omega) hu⟩, ?_⟩
  rintro j ⟨hj, h⟩
  exact ⟨by omega, fun u hu1 hu2 => h u (by omega) hu2⟩

/-- Every other channel is clear: label 0 exactly when no test fires and the channel is not in the top block. -/
theorem clear_iff (nc : Nat) (dead noisy low : Nat → Bool) (j : Nat) (hj : j < nc) :
    detectLabels nc dead noisy low j = 0 ↔
      noisy j = false ∧ dead j = false ∧ ¬ (∀ u, j ≤ u → u < nc → low u = true) := by
  simp only [detectLabels, assign, List.contains_iff_mem, List.mem_filter, List.mem_range, hj, true_and,
    mem_outsideBlock]
  cases noisy j <;> cases dead j <;> simp

/-- The complete decision rule in terms of the feature vectors and thresholds, for every ordered scalar type
(in particular IEEE `Float`, which the driver executes): 2 ⇔ the noise test fires; 1 ⇔ it does not and the
coherence is below `thr0`; 3 ⇔ neither, and every channel from `j` to the top has `xcor_lf` below `lfThr`. -/
theorem feature_rule {α : Type} [LT α] [DecidableLT α] (nc : Nat) (thr0 thr1 psdThr lfThr : α)
    (xcorHf xcorLf psdHf : Nat → α) (j : Nat) (hj : j < nc) :
    (detectFromFeatures nc thr0 thr1 psdThr lfThr xcorHf xcorLf psdHf j = 2 ↔
      (psdThr < psdHf j ∨ thr1 < xcorHf j)) ∧
    (detectFromFeatures nc thr0 thr1 psdThr lfThr xcorHf xcorLf psdHf j = 1 ↔
      ¬ (psdThr < psdHf j ∨ thr1 < xcorHf j) ∧ xcorHf j < thr0) ∧
    (detectFromFeatures nc thr0 thr1 psdThr lfThr xcorHf xcorLf psdHf j = 3 ↔
      ¬ (psdThr < psdHf j ∨ thr1 < xcorHf j) ∧ ¬ (xcorHf j < thr0) ∧
        ∀ u, j ≤ u → u < nc → xcorLf u < lfThr) := by
  unfold detectFromFeatures
  have hn : noisyTest psdThr thr1 psdHf xcorHf j = true ↔ (psdThr < psdHf j ∨ thr1 < xcorHf j) := by
    simp [noisyTest]
  have hd : deadTest thr0 xcorHf j = true ↔ xcorHf j < thr0 := by simp [deadTest]
  have hl : ∀ u, lowTest lfThr xcorLf u = true ↔ xcorLf u < lfThr := by intro u; simp [lowTest]
  obtain ⟨p1, p2, p3⟩ := label_precedence nc (deadTest thr0 xcorHf) (noisyTest psdThr thr1 psdHf xcorHf)
    (lowTest lfThr xcorLf) j hj
  have h3 := outside_block_contiguous_top nc (deadTest thr0 xcorHf) (noisyTest psdThr thr1 psdHf xcorHf)
    (lowTest lfThr xcorLf) j hj
  simp only [hl] at h3
  rw [← hn, ← hd]
  cases hN : noisyTest psdThr thr1 psdHf xcorHf j <;> cases hD : deadTest thr0 xcorHf j
  · rcases p3 hN hD with h | h
    · have hall := (h3.mp h).2.2
      rw [h]; simp; exact hall
    · have hnot : ¬ ∀ u, j ≤ u → u < nc → xcorLf u < lfThr := by
        intro hall
        have h' := h3.mpr ⟨hN, hD, hall⟩
        rw [h] at h'; cases h'
      rw [h]; simp; simpa using hnot
  · rw [p2 hN hD]; simp
  · rw [p1 hN]; simp
  · rw [p1 hN]; simp

/-- The labels computed from a file are the per-channel mode over its batches: the returned label occurs
among the channel's batch labels, no label occurs more often, and among equally frequent labels it is the
smallest (`scipy.stats.mode`). -/
theorem labels_are_mode (batches : List (Nat → Nat)) (hne : batches ≠ []) (c : Nat) :
    ∃ m, fileLabels batches c = some m ∧
      m ∈ batches.map (· c) ∧
      (∀ v, (batches.map (· c)).count v ≤ (batches.map (· c)).count m) ∧
      (∀ v, (batches.map (· c)).count v = (batches.map (· c)).count m → m ≤ v) := by
  unfold fileLabels
  exact modeOf_spec _ (by simpa using hne)

/-! ## Non-vacuity -/

/-- Hypotheses of `repair_is_convex` on a concrete probe: channel 1 dead between two good channels. -/
example : ∃ j, j < 3 ∧ (fun j => if j = 1 then 1 else 0 : Nat → Nat) j ≠ 1 ∧
    (fun j => if j = 1 then 1 else 0 : Nat → Nat) j ≠ 2 ∧ (1 / 200 : ℝ) ≤ (fun _ _ => (1 : ℝ)) 1 j :=
  ⟨0, by norm_num, by simp, by simp, by norm_num⟩

/-- … of `order_irrelevant`: the decreasing order visits the same channels as the code's increasing order. -/
example : ∀ i, i ∈ (badChannels 5 (fun j => if j = 1 ∨ j = 3 then 2 else 0)).reverse ↔
    i ∈ badChannels 5 (fun j => if j = 1 ∨ j = 3 then 2 else 0) := by
  intro i; simp

example : badChannels 5 (fun j => if j = 1 ∨ j = 3 then 2 else 0) = [1, 3] := by decide

/-- … and of `no_donor_zero`: every channel bad. -/
example : ∀ j, j < 2 → (fun _ => 1 : Nat → Nat) j ≠ 1 → (fun _ => 1 : Nat → Nat) j ≠ 2 →
    (fun _ _ => (1 : ℝ)) 0 j < (1 / 200 : ℝ) := by
  intro j _ h; exact absurd rfl h

/-- Two separated low-coherence runs, the upper one reaching the top: only that one is labelled 3; a dead
channel inside it is 1, a noisy-and-dead channel is 2. -/
example :
    (List.range 10).map (detectLabels 10 (fun j => j == 8 || j == 2) (fun j => j == 2 || j == 4)
      (fun j => j == 1 || j == 2 || j == 3 || j ≥ 6)) = [0, 0, 2, 0, 2, 0, 3, 3, 1, 3] := by
  decide

/-- A low-coherence run that does not reach the last channel gives no label 3. -/
example : (List.range 6).map (detectLabels 6 (fun _ => false) (fun _ => false) (fun j => 2 ≤ j && j ≤ 4))
    = [0, 0, 0, 0, 0, 0] := by
  decide

example : modeOf [3, 0, 3, 0, 1] = some 0 ∧ modeOf [3, 3, 0, 1, 3] = some 3 ∧ modeOf [] = none := by
  decide

end IblVerif.C15
