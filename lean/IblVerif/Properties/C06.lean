/-
C06 — Chunked destripe-to-file writes every sample exactly once, for any worker count.

Property theorems only (helper lemmas: `Lemmas/DestripeSched.lean`, `Lemmas/DestripeFile.lean`; the model:
`Model/DestripeSched.lean`).  Every statement is for ALL configurations `c` (recording length `ns`, batch
size `N`, taper `T`, worker count `P`, row size, append offsets, padding) in the domain

    InDomain c :  2·T < N  ∧  0 < rb  ∧  1 ≤ P  ∧  (P·N ≤ ns  ∨  (P = 1 ∧ T ≤ ns ∧ 0 < ns))

Outside it (recording shorter than `nprocesses × NBATCH`) the property is false — finding F14,
`short_recording_counterexample`.  The reference batch list is the window generator's own
`firstlast_valid` for `(ns, N, overlap = 2·T)` (model and theorems of C17).
-/
import IblVerif.Lemmas.DestripeFile

namespace IblVerif.C06
open IblVerif.Window IblVerif.DestripeSched

/-- No worker crashes (no chunk shorter than the taper, no padding without a row to repeat). -/
theorem no_worker_fails (c : Cfg) (h : InDomain c) : ∀ i, i < c.P → ∃ l, worker c i = .ok l := by
  intro i hi
  obtain ⟨l, hl, _⟩ := worker_ok c h i hi
  exact ⟨l, hl⟩

/-- Every sample exactly once, at its own position.
(a) every write of every worker is an entry `(first, last, first_valid, last_valid)` of the reference list
    `firstlast_valid(ns, N, 2T)` — batch-wise destriping with the documented taper margins — and lands at
    byte `offset + first_valid · rowbytes`;
(b) every entry of the reference list is written by some worker;
(c) the valid ranges of the reference list contain every sample exactly once. -/
theorem writes_partition (c : Cfg) (h : InDomain c) :
    (∀ i, i < c.P → ∀ l, worker c i = .ok l → ∀ w ∈ l,
        (w.firstS, w.lastS, w.firstS + w.lo, w.firstS + w.hi) ∈ firstlastValid c.ns c.N (2 * c.T) ∧
        w.pos = c.offset + (w.firstS + w.lo) * c.rb) ∧
    (∀ q ∈ firstlastValid c.ns c.N (2 * c.T), ∃ i, i < c.P ∧ ∃ l, worker c i = .ok l ∧
        ∃ w ∈ l, (w.firstS, w.lastS, w.firstS + w.lo, w.firstS + w.hi) = q) ∧
    (∀ t, t < c.ns → validCount (firstlastValid c.ns c.N (2 * c.T)) t = 1) := by
  have hs : 2 * c.T < c.N := h.1
  refine ⟨?_, ?_, ?_⟩
  · intro i hi l hl w hw
    obtain ⟨l', hl', hcan, _⟩ := worker_ok c h i hi
    rw [hl] at hl'; cases hl'
    have hc := hcan w hw
    refine ⟨canon_mem_ref c hs w hc, ?_⟩
    obtain ⟨b, -, -, -, -, -, -, hpos, -⟩ := hc
    exact hpos
  · intro q hq
    obtain ⟨b, hleg, hqb⟩ := (mem_ref_iff c hs q).mp hq
    obtain ⟨i, hi, l, hl, w, hwl, hwf⟩ := cover_batches c h b hleg
    obtain ⟨l', hl', hcan, _⟩ := worker_ok c h i hi
    rw [hl] at hl'; cases hl'
    obtain ⟨hquad, _⟩ := canon_quad c w (hcan w hwl)
    exact ⟨i, hi, l, hl, w, hwl, by rw [hqb, ← hwf]; exact hquad⟩
  · intro t ht
    unfold firstlastValid firstlast
    simp only [hs, if_true]
    rw [aux_validCount c.ns c.N (2 * c.T) 0 t hs (Nat.mul_mod_right 2 c.T) ht]
    simp [lo]

/-- After ANY execution of the run (the workers' writes in any order or interleaving) the output file is the
reference file: untouched below the append offset, row `t < ns` holds sample `t` as processed in the one
batch whose valid range contains it, followed by `ns2add` copies of row `ns - 1`, nothing beyond. -/
theorem final_file (c : Cfg) (h : InDomain c) (f0 : File) (ws : List Write) (hws : ExecutionOf c ws) :
    applyAll c f0 ws = refFile c f0 :=
  funext (final_pointwise c h f0 ws hws)

/-- Byte-identical for any number of workers and any schedule: two runs of the same recording with worker
counts `P` and `P'` (both in the domain), each executed in an arbitrary order, leave the same file. -/
theorem output_independent_of_workers (c : Cfg) (P' : Nat) (h : InDomain c) (h' : InDomain { c with P := P' })
    (f0 : File) (ws ws' : List Write) (hws : ExecutionOf c ws) (hws' : ExecutionOf { c with P := P' } ws') :
    applyAll c f0 ws = applyAll { c with P := P' } f0 ws' := by
  rw [final_file c h f0 ws hws, final_file _ h' f0 ws' hws']
  rfl

/-- Append mode concatenates runs: below the old end of file nothing changes, and from there on the file
holds exactly what a fresh run (offset 0, empty file) of the same recording produces. -/
theorem append_concatenates (c : Cfg) (h : InDomain c) (f0 : File) (ws ws0 : List Write)
    (hws : ExecutionOf c ws) (hws0 : ExecutionOf { c with offset := 0 } ws0) :
    (∀ x, x < c.offset → applyAll c f0 ws x = f0 x) ∧
    (∀ y, y < (c.ns + c.ns2add) * c.rb →
      applyAll c f0 ws (c.offset + y) = applyAll { c with offset := 0 } (fun _ => none) ws0 y) := by
  have h0 : InDomain { c with offset := 0 } := h
  rw [final_file c h f0 ws hws, final_file _ h0 _ ws0 hws0]
  refine ⟨fun x hx => by unfold refFile; rw [if_pos hx], fun y hy => ?_⟩
  have hrb : 0 < c.rb := h.2.1
  have ht : y / c.rb < c.ns + c.ns2add := (Nat.div_lt_iff_lt_mul hrb).mpr hy
  obtain ⟨hy', hj⟩ := byte_decomp c.rb 0 y hrb (Nat.zero_le _)
  rw [Nat.sub_zero] at hy' hj
  generalize y / c.rb = t at hy' ht
  generalize y % c.rb = j at hy' hj
  subst hy'
  have e1 : c.offset + (0 + t * c.rb + j) = c.offset + t * c.rb + j := by omega
  have r0 := refFile_at { c with offset := 0 } (fun _ => none) hrb t j hj
  rw [e1, refFile_at c f0 hrb t j hj, r0]
  by_cases h1 : t < c.ns
  · simp only [h1, if_true]; rfl
  · simp only [h1, ht, if_true, if_false]; rfl

/-- The sync columns are copied from the source: if the processing puts, in the sync bytes of a row, the
source bytes of the same sample whatever the batch (lines `np.r_[chunk, _sr[first_s:last_s, ncv:].T]` and the
mute restricted to `[:, :ncv]`), then after any execution every sync byte of row `t` is the source byte of
sample `t`. -/
theorem sync_columns_copied {β : Type} (c : Cfg) (h : InDomain c) (f0 : File) (ws : List Write)
    (hws : ExecutionOf c ws) (isSync : Nat → Prop) (val : Cell → β) (src : Nat → Nat → β)
    (hval : ∀ v : Cell, isSync v.j → val v = src v.t v.j)
    (t j : Nat) (ht : t < c.ns) (hj : j < c.rb) (hsync : isSync j) :
    (applyAll c f0 ws (c.offset + t * c.rb + j)).map val = some (src t j) := by
  have hs : 2 * c.T < c.N := h.1
  rw [final_file c h f0 ws hws, refFile_at c f0 h.2.1 t j hj, if_pos ht]
  obtain ⟨q, hq, hqt⟩ := valid_exists c.ns c.N (2 * c.T) hs (Nat.mul_mod_right 2 c.T) t ht
  rw [batchOf_eq c hs q hq t ht hqt]
  simp only [Option.map_some]
  rw [hval _ hsync]

/-- Quality files.  RMS / timestamp: every pass of every worker writes its row at the index of its batch,
`rms_offset + b · rowbytes`, `b` below the window count, and every batch index below the window count is
written — one entry per batch (after those of earlier runs when appending).  Saturation vector (`ns` entries,
`np.zeros(sr.ns)`): every pass writes flags for a non-empty range inside `[0, ns)` and every sample is inside
the range of some pass — one entry per sample. -/
theorem qc_sizes (c : Cfg) (h : InDomain c) :
    (∀ i, i < c.P → ∀ l, worker c i = .ok l → ∀ w ∈ l,
        w.firstS / (c.N - 2 * c.T) < nwin c.ns c.N (2 * c.T) ∧
        w.rmsPos = c.rmsOff + w.firstS / (c.N - 2 * c.T) * c.rrow ∧
        w.timePos = c.timeOff + w.firstS / (c.N - 2 * c.T) * c.trow ∧
        w.firstS < w.lastS ∧ w.lastS ≤ c.ns) ∧
    (∀ b, b < nwin c.ns c.N (2 * c.T) → ∃ i, i < c.P ∧ ∃ l, worker c i = .ok l ∧
        ∃ w ∈ l, w.firstS / (c.N - 2 * c.T) = b) ∧
    (∀ t, t < c.ns → ∃ i, i < c.P ∧ ∃ l, worker c i = .ok l ∧ ∃ w ∈ l, w.firstS ≤ t ∧ t < w.lastS) := by
  have hs : 2 * c.T < c.N := h.1
  refine ⟨?_, ?_, ?_⟩
  · intro i hi l hl w hw
    obtain ⟨l', hl', hcan, _⟩ := worker_ok c h i hi
    rw [hl] at hl'; cases hl'
    have hc := hcan w hw
    obtain ⟨h1, h2, h3⟩ := canon_batch_index c hs w hc
    obtain ⟨hb1, hb2, hb3, hb4⟩ := canon_bounds c hs w hc
    obtain ⟨_, hle⟩ := canon_quad c w hc
    refine ⟨h1, h2, h3, ?_, hle⟩
    obtain ⟨b, -, -, hl, -, hhi, hlt, -⟩ := hc
    by_cases hn : w.lastS = c.ns
    · rw [if_pos hn] at hhi; omega
    · omega
  · intro b hb
    obtain ⟨i, hi, l, hl, w, hwl, hwf⟩ := cover_batches c h b ((lt_nwin_iff c hs b).mp hb)
    exact ⟨i, hi, l, hl, w, hwl, by rw [hwf]; exact Nat.mul_div_cancel_left b (by omega)⟩
  · intro t ht
    have hall : ExecutionOf c ((List.range c.P).flatMap fun i => match worker c i with | .ok l => l | .error _ => []) := by
      intro w
      rw [List.mem_flatMap]
      constructor
      · rintro ⟨i, hi, hw⟩
        rw [List.mem_range] at hi
        obtain ⟨l, hl⟩ := no_worker_fails c h i hi
        rw [hl] at hw
        exact ⟨i, hi, l, hl, hw⟩
      · rintro ⟨i, hi, l, hl, hw⟩
        exact ⟨i, List.mem_range.mpr hi, by rw [hl]; exact hw⟩
    obtain ⟨w, hw, hc, _, hlo, hhi⟩ := execution_has c h _ hall t ht
    obtain ⟨i, hi, l, hl, hwl⟩ := (hall w).mp hw
    obtain ⟨_, hle⟩ := canon_quad c w hc
    obtain ⟨b, -, -, hlast, -, hhi', -⟩ := hc
    refine ⟨i, hi, l, hl, w, hwl, by omega, ?_⟩
    by_cases hn : w.lastS = c.ns
    · omega
    · rw [if_neg hn] at hhi'; omega

/-- Non-vacuity: a configuration in the domain with several workers, batches and padding; its three
workers, and the reference list. -/
example : InDomain ⟨19, 6, 2, 3, 1, 0, 1, 1, 0, 0, 2⟩ := by decide
example : firstlastValid 19 6 4 = [(0, 6, 0, 4), (2, 8, 4, 6), (4, 10, 6, 8), (6, 12, 8, 10), (8, 14, 10, 12),
    (10, 16, 12, 14), (12, 18, 14, 16), (14, 19, 16, 19)] := by
  simp [firstlastValid, firstlast, firstlastAux, validOf]
example : (worker ⟨19, 6, 2, 3, 1, 0, 1, 1, 0, 0, 2⟩ 1).toOption.map (·.map fun w => (w.pos, w.firstS, w.lastS)) =
    some [(4, 2, 8), (6, 4, 10), (8, 6, 12)] := by
  simp [worker, startBatch, chunkSize, maxS, loop, lastOf, mkWrite, Write.rows, Except.toOption]
example : ∃ ws, ExecutionOf ⟨19, 6, 2, 1, 1, 0, 1, 1, 0, 0, 0⟩ ws :=
  ⟨match worker ⟨19, 6, 2, 1, 1, 0, 1, 1, 0, 0, 0⟩ 0 with | .ok l => l | .error _ => [], by
    intro w
    obtain ⟨l, hl⟩ := no_worker_fails ⟨19, 6, 2, 1, 1, 0, 1, 1, 0, 0, 0⟩ (by decide) 0 (by decide)
    rw [hl]
    constructor
    · intro hw; exact ⟨0, by decide, l, hl, hw⟩
    · rintro ⟨i, hi, l', hl', hw⟩
      have : i = 0 := by simp only at hi; omega
      subst this
      rw [hl] at hl'; cases hl'; exact hw⟩

/-- Finding F14 (recording shorter than `nprocesses × NBATCH`).  With `N = 6`, `T = 2`, two workers:
`ns = 6`: nobody crashes, but worker 1 starts on a batch the reference list does not contain (window `[2, 6)`)
and re-writes rows 4–5 with it; executed after worker 0 the file differs from the reference at byte 4, executed
before worker 0 it does not — the bytes depend on the worker count and on the schedule.
`ns = 3`: worker 1 reads a chunk shorter than the taper and crashes. -/
theorem short_recording_counterexample :
    ¬ InDomain ⟨6, 6, 2, 2, 1, 0, 1, 1, 0, 0, 0⟩ ∧
    worker ⟨6, 6, 2, 2, 1, 0, 1, 1, 0, 0, 0⟩ 0 = .ok [⟨0, 0, 6, 0, 6, 0, 0, 0⟩] ∧
    worker ⟨6, 6, 2, 2, 1, 0, 1, 1, 0, 0, 0⟩ 1 = .ok [⟨4, 2, 6, 2, 4, 1, 1, 0⟩] ∧
    (2, 6, 4, 6) ∉ firstlastValid 6 6 4 ∧
    applyAll ⟨6, 6, 2, 2, 1, 0, 1, 1, 0, 0, 0⟩ (fun _ => none) [⟨0, 0, 6, 0, 6, 0, 0, 0⟩, ⟨4, 2, 6, 2, 4, 1, 1, 0⟩] 4
      ≠ refFile ⟨6, 6, 2, 2, 1, 0, 1, 1, 0, 0, 0⟩ (fun _ => none) 4 ∧
    applyAll ⟨6, 6, 2, 2, 1, 0, 1, 1, 0, 0, 0⟩ (fun _ => none) [⟨4, 2, 6, 2, 4, 1, 1, 0⟩, ⟨0, 0, 6, 0, 6, 0, 0, 0⟩] 4
      = refFile ⟨6, 6, 2, 2, 1, 0, 1, 1, 0, 0, 0⟩ (fun _ => none) 4 ∧
    worker ⟨3, 6, 2, 2, 1, 0, 1, 1, 0, 0, 0⟩ 1 = .error .shortChunk := by
  refine ⟨by decide, ?_, ?_, ?_, ?_, ?_, ?_⟩
  · simp [worker, startBatch, chunkSize, maxS, loop, lastOf, mkWrite, Write.rows]
  · simp [worker, startBatch, chunkSize, maxS, loop, lastOf, mkWrite, Write.rows]
  · simp [firstlastValid, firstlast, firstlastAux, validOf]
  · simp [applyAll, applyWrite, writeCell, Write.rows, refFile, batchOf, firstlastValid, firstlast, firstlastAux, validOf]
  · simp [applyAll, applyWrite, writeCell, Write.rows, refFile, batchOf, firstlastValid, firstlast, firstlastAux, validOf]
  · simp [worker, startBatch, chunkSize, maxS, loop, lastOf, mkWrite, Write.rows]

/-- Preparation of the output files: whatever the destination held before (`before` — an earlier, possibly LONGER, output when
the run does not append), every worker seeks from the END of what the preparation leaves: each offset equals the size of
its file.  With `final_file` (nothing beyond `offset + (ns + ns2add)·rb` is written, everything below `offset` is kept) the
finished file therefore has exactly `size kept + (ns + ns2add)·rb` bytes: no stale tail survives a non-append run, and an
append run starts right after the earlier one. -/
theorem prepare_offsets_at_end (append : Bool) (before : Sizes) :
    let p := prepare append before
    p.offset = p.sizes.out ∧ p.rmsOff = p.sizes.rms ∧ p.timeOff = p.sizes.time ∧
    (append = false → p.sizes = ⟨0, 0, 0⟩) ∧ (append = true → p.sizes = before) := by
  cases append <;> simp [prepare]

end IblVerif.C06
