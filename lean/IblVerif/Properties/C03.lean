/-
C03 — NP2.4 shank splitting is lossless and reconstruction is its exact inverse.

Property theorems only (helper lemmas: `Lemmas/Split*.lean`, `Analysis/ScaleRoundtrip.lean`).  The model is
`Model/Split.lean`; it is instantiated with the constants the translator extracts from `init_params`
(`samples_overlap = 576`, `samples_taper = int(576 / 4)`), so a change of those constants reaches the proofs.

Quantifiers: every recording length `ns`, every window `w` above the overlap, every sample matrix `M` with
int16 entries, every assignment `smap` of the AP channels to shank numbers, every gain (through the codec
hypothesis, discharged by `scale_unscale_roundtrip`).
-/
import IblVerif.Lemmas.SplitCompose
import IblVerif.Lemmas.SplitStepsC03
import IblVerif.Analysis.ScaleRoundtrip
import IblVerif.Generated.Constants

namespace IblVerif.C03
open IblVerif.Split IblVerif.Window IblVerif.Generated

/-- `self.samples_overlap` -/
abbrev OV : Nat := CONV_OVERLAP
/-- `self.samples_taper = int(self.samples_overlap / 4)` -/
abbrev TAPER : Nat := taperOf CONV_OVERLAP CONV_TAPER_DIV

/-- The int16 range. -/
def IsInt16 (x : Int) : Prop := -32768 ≤ x ∧ x ≤ 32767

/-- "volts and back" returns the sample: the only fact about the float codec that the structural theorems
use.  It is `scale_unscale_roundtrip` (every gain, standard rounding model) and is checked bit for bit
on all 65 536 values × 9 SpikeGLX gain pairs by the correspondence run. -/
def CodecId (conv : Nat → Int → Int) : Prop := ∀ c x, IsInt16 x → conv c x = x

/-- `init_params` accepts exactly the windows that are multiples of `fs_ap / fs_lf = 12` (the overlap 576
and the taper 144 are multiples of 12). -/
theorem init_params_accepts (w : Nat) :
    initParams (ratio CONV_FS_AP CONV_FS_LF) w OV TAPER = .ok () ↔ w % 12 = 0 := by
  have h1 : ratio CONV_FS_AP CONV_FS_LF = 12 := by decide
  have h2 : OV % 12 = 0 := by decide
  have h3 : TAPER % 12 = 0 := by decide
  unfold initParams
  rw [h1]
  simp only [h2, h3, ne_eq, not_true_eq_false, if_false]
  by_cases h : w % 12 = 0 <;> simp [h]

/-- **Kept sub-ranges partition the recording.**  Over all windows of the overlapping window loop, the
samples kept by `_ind2save` (`[2·taper, w − 2·taper)`, from 0 in the first window, to the end in the last)
are `0, 1, …, ns − 1`: every sample exactly once, in the original order — for every length and every
window size above the overlap. -/
theorem kept_ranges_partition (ns w : Nat) (hw : OV < w) : keptAll ns w OV TAPER = List.range ns :=
  keptAll_eq_range ns w OV TAPER hw (by decide)

/-- **Per-shank channel lists.**  The AP channels of shank `sh` are exactly the channels mapped to `sh`,
in increasing (original) order; the list written for the shank is those followed by the sync
indices; the shanks processed are exactly the shank numbers that occur, in increasing order. -/
theorem shank_channels_spec (smap : List Nat) (sh nc nsync : Nat) :
    shankChans smap sh nc nsync = apChans smap sh ++ List.range' (nc - nsync) nsync ∧
    (∀ c, c ∈ apChans smap sh ↔ c < smap.length ∧ smap[c]? = some sh) ∧
    (apChans smap sh).Pairwise (· < ·) ∧
    (∀ s, s ∈ shankIds smap ↔ s ∈ smap) ∧ (shankIds smap).Pairwise (· < ·) :=
  ⟨rfl, mem_apChans smap sh, apChans_sorted smap sh, mem_shankIds smap, shankIds_sorted smap⟩

/-- **Each shank file is a column subset of the original.**  For every sample matrix with int16 entries,
every shank map, every window size above the overlap and every recording not shorter than the LF taper:
the frames written for shank `sh` are, for `t = 0 … ns−1` in order, the original samples `M t c` of that
shank's channels followed by the sync column(s) — given that the codec returns every int16 sample. -/
theorem split_is_column_subset (conv : Nat → Int → Int) (M : Mat) (ns nc w nsync : Nat) (smap : List Nat)
    (sh : Nat) (hw : OV < w) (hns : TAPER ≤ ns) (hnc : smap.length + nsync ≤ nc)
    (hconv : CodecId conv) (hM : ∀ t c, IsInt16 (M t c)) :
    splitShank conv M ns nc w OV TAPER (shankChans smap sh nc nsync)
      = .ok ((List.range ns).map (fun t => (shankChans smap sh nc nsync).map (fun c => M t c))) := by
  have hlt : ∀ c ∈ shankChans smap sh nc nsync, c < nc := by
    intro c hc
    rcases List.mem_append.mp hc with hc | hc
    · have := ((mem_apChans smap sh c).mp hc).1; omega
    · simp only [syncIdx, List.mem_range'_1] at hc; omega
  rw [splitShank_ok conv M ns nc w OV TAPER _ hw (by decide) hns hlt]
  simp only [fun t c => hconv c (M t c) (hM t c)]

/-- Non-vacuity: the hypotheses of `split_is_column_subset` / `reconstruct_split_id` hold for the smallest window
the converter accepts, the shortest admissible recording and a 3-channel map on shanks 1, 0, 1. -/
example : OV < 588 ∧ TAPER ≤ 144 ∧ ([1, 0, 1] : List Nat).length + 1 ≤ 4 ∧ CodecId (fun _ x => x) ∧
    (∀ s ∈ ([1, 0, 1] : List Nat), s < 10) :=
  ⟨by decide, by decide, by decide, fun _ _ _ => rfl, by decide⟩

/-- The model on a concrete 2-shank recording of 3 columns + sync: frame 7 of shank 1. -/
example : selectRow (fun _ x => x) (fun t c => (t : Int) * 10 + c) 4 (shankChans [1, 0, 1] 1 4 1) 7
    = .ok [70, 72, 73] := by decide

/-- **Scale / unscale round trip.**  In the standard model of float32 rounding (`|δ| ≤ 2⁻²⁴` per operation),
for every gain `g ≠ 0` and every integer sample `|n| ≤ 32768`: the quotient `y = fl(fl(n·g)/g)` is strictly
within ½ of `n`; hence every integer nearest to `y` — the result of `np.rint` whatever the tie rule — is `n`
itself, for all gains, not only the listed ones. -/
theorem scale_unscale_roundtrip (g d1 d2 : ℝ) (n : ℤ) (hg : g ≠ 0) (hn : |(n : ℝ)| ≤ 32768)
    (h1 : |d1| ≤ 1 / 2 ^ 24) (h2 : |d2| ≤ 1 / 2 ^ 24) :
    |(n : ℝ) * g * (1 + d1) / g * (1 + d2) - n| < 1 / 2 ∧
    (∀ m : ℤ, |(n : ℝ) * g * (1 + d1) / g * (1 + d2) - m| ≤ 1 / 2 → m = n) ∧
    round ((n : ℝ) * g * (1 + d1) / g * (1 + d2)) = n := by
  have h := Analysis.scale_unscale_close g n d1 d2 hg hn h1 h2
  exact ⟨h, fun m hm => Analysis.nearest_int_unique _ n m h hm, Analysis.round_eq_of_close _ n h⟩

/-- Non-vacuity: the hypotheses hold e.g. for `g = 0.62/2048/80`, `n = 3`, maximal errors. -/
example : ((0.62 / 2048 / 80 : ℝ) ≠ 0) ∧ |((3 : ℤ) : ℝ)| ≤ 32768 ∧ |(1 / 2 ^ 24 : ℝ)| ≤ 1 / 2 ^ 24 := by
  refine ⟨by norm_num, by norm_num, by rw [abs_of_pos] <;> norm_num⟩

/-- **The code as it is now** (`np.rint`): sample 3 at gain 0.62/2048/80 is written as 3
(bit-exact Float32 evaluation in the kernel). -/
theorem round_roundtrip_witness :
    convF32 gain_062_2048 3 = 3 ∧ convF32 gain_062_2048 (-3) = -3 ∧ convF32 gain_062_2048 32767 = 32767 := by
  decide +kernel

/-- **The code before the fix** (`astype(np.int16)` truncating): the same sample was written as 2 — the
round trip is not the identity under truncation, so the rounding is necessary. -/
theorem trunc_roundtrip_counterexample :
    convTruncF32 gain_062_2048 3 = 2 ∧ convTruncF32 gain_062_2048 (-3) = -2 := by
  decide +kernel

/-- **Channel subset string.**  Parsing the groups printed for a channel list gives the list back, for every
non-empty list (single-element groups and the bare last element included). -/
theorem subset_parse_print (chns : List Nat) (h : chns ≠ []) :
    ∃ t, subsetToks chns = .ok t ∧ parseToks t = chns :=
  parse_subsetToks chns h

example : subsetToks [0, 1, 5, 7, 8, 384] =
    .ok [Grp.range 0 1, Grp.range 5 5, Grp.range 7 8, Grp.single 384] := by decide
example : parseToks [Grp.range 0 1, Grp.range 5 5, Grp.range 7 8, Grp.single 384] = [0, 1, 5, 7, 8, 384] := by
  decide

/-- **Reconstruction is the exact inverse of splitting.**  For every sample matrix with int16 entries, every
non-empty assignment of the AP channels to (single-digit) shank numbers, every window size above the
overlap, every length ≥ the taper and every reconstruction window `W > 0`: the splitter succeeds, writes one
folder per shank number that occurs, and the reconstructor applied to those folders returns exactly the
original frames (all `smap.length + 1` columns, sync included). -/
theorem reconstruct_split_id (conv : Nat → Int → Int) (M : Mat) (ns w W : Nat) (smap : List Nat) (m : Meta)
    (a b : Int) (t1 t2 : List Int)
    (hw : OV < w) (hns : TAPER ≤ ns) (hW : 0 < W) (hne : smap ≠ []) (hdig : ∀ s ∈ smap, s < 10)
    (hconv : CodecId conv) (hM : ∀ t c, IsInt16 (M t c))
    (h1 : m.get "acqApLfSy" = some (.ints (a :: t1))) (h2 : m.get "snsApLfSy" = some (.ints (b :: t2))) :
    ∃ files, splitFiles conv M ns (smap.length + 1) w OV TAPER smap 1 m = .ok files ∧
      files.map (·.sh) = shankIds smap ∧
      reconstruct smap files W = .ok (origRows M ns (smap.length + 1)) :=
  recon_of_split conv M ns w OV TAPER W smap m a b t1 t2 hw (by decide) hns hW hne hdig
    (fun t c => hconv c (M t c) (hM t c)) h1 h2

/-- Non-vacuity: a 2-sample "recording" with 3 AP columns on shanks 1, 0, 1 scatters back to itself. -/
example : assignShanks 0 true (Array.replicate 4 0)
    [{ chns := [1, 3], rows := #[[11, 13]] }, { chns := [0, 2, 3], rows := #[[10, 12, 13]] }]
    = .ok #[10, 11, 12, 13] := by decide

/-- **Metadata round trip.**  If the original metadata describe a file of `nch` columns and `size` bytes
(and carry none of the converter's own keys), then the metadata written for any shank, passed through the
reconstructor's rewrite, have every original field unchanged; the only difference is the added
provenance flag `original_meta=False`. -/
theorem meta_roundtrip_fields (m : Meta) (chns : List Nat) (sh shsize nch size : Nat) (t1 t2 : List Int)
    (hch : chns ≠ [])
    (h1 : m.get "acqApLfSy" = some (.ints (((nch : Int) - 1) :: t1)))
    (h2 : m.get "snsApLfSy" = some (.ints (((nch : Int) - 1) :: t2)))
    (h3 : m.get "nSavedChans" = some (.int nch))
    (h4 : m.get "fileSizeBytes" = some (.int size))
    (h5 : m.get "snsSaveChanSubset" = some (.subset [Grp.range 0 (nch - 1)]))
    (h6 : m.get "NP2.4_shank" = none) (h7 : m.get "snsSaveChanSubset_orig" = none) :
    ∃ ms mr, splitMeta m chns sh shsize = .ok ms ∧ reconMeta ms nch size = .ok mr ∧
      ∀ k, mr.get k = if k = "original_meta" then some (.atom "False") else m.get k := by
  obtain ⟨tk, e1, _⟩ := parse_subsetToks chns hch
  obtain ⟨mr, e2, e3⟩ := recon_split_meta m chns.length sh shsize nch size t1 t2 tk h1 h2 h3 h4 h5 h6 h7
  exact ⟨_, mr, splitMeta_eq m chns sh shsize _ _ t1 t2 tk h1 h2 e1, e2, e3⟩

/-- **Known finding `save-subset-all`** (the reason for hypothesis `h5`): SpikeGLX may record that all channels
were saved as `snsSaveChanSubset=all`; the reconstructor always writes `0:<nch-1>`, so that field does not
come back (witness: a 2-column shank of a 385-column file). -/
theorem meta_subset_all_counterexample :
    ∃ ms mr, splitMeta
        [("acqApLfSy", .ints [384, 0, 1]), ("snsApLfSy", .ints [384, 0, 1]), ("nSavedChans", .int 385),
         ("fileSizeBytes", .int 770), ("snsSaveChanSubset", .atom "all")] [0, 384] 0 4 = .ok ms ∧
      reconMeta ms 385 770 = .ok mr ∧
      mr.get "snsSaveChanSubset" = some (.subset [Grp.range 0 384]) ∧
      mr.get "snsSaveChanSubset" ≠ some (.atom "all") := by
  refine ⟨_, _, rfl, rfl, ?_, ?_⟩ <;> decide

/-- **Reconstructed metadata, end to end.**  For the files the splitter writes from a recording whose
metadata describe it (`smap.length + 1` columns, `2·(smap.length + 1)·ns` bytes, subset `0:smap.length`, none
of the converter's own keys), the metadata the reconstructor writes next to the reconstructed file
(`rows` = its `ns` frames) have every original field unchanged plus `original_meta=False`. -/
theorem reconstruct_meta_id (conv : Nat → Int → Int) (M : Mat) (ns w : Nat) (smap : List Nat) (m : Meta)
    (t1 t2 : List Int) (files : List ShankFile)
    (hw : OV < w) (hns : TAPER ≤ ns) (hne : smap ≠ [])
    (hconv : CodecId conv) (hM : ∀ t c, IsInt16 (M t c))
    (h1 : m.get "acqApLfSy" = some (.ints ((((smap.length + 1 : Nat) : Int) - 1) :: t1)))
    (h2 : m.get "snsApLfSy" = some (.ints ((((smap.length + 1 : Nat) : Int) - 1) :: t2)))
    (h3 : m.get "nSavedChans" = some (.int (smap.length + 1 : Nat)))
    (h4 : m.get "fileSizeBytes" = some (.int (2 * (smap.length + 1) * ns : Nat)))
    (h5 : m.get "snsSaveChanSubset" = some (.subset [Grp.range 0 (smap.length + 1 - 1)]))
    (h6 : m.get "NP2.4_shank" = none) (h7 : m.get "snsSaveChanSubset_orig" = none)
    (hfiles : splitFiles conv M ns (smap.length + 1) w OV TAPER smap 1 m = .ok files) :
    ∃ mr, reconstructMeta files (origRows M ns (smap.length + 1)) = .ok mr ∧
      ∀ k, mr.get k = if k = "original_meta" then some (.atom "False") else m.get k :=
  recon_meta_of_split conv M ns w OV TAPER smap m t1 t2 _ hw (by decide) hns hne
    (fun t c => hconv c (M t c) (hM t c)) (by simp [origRows]) h1 h2 h3 h4 h5 h6 h7 files hfiles

/-- Non-vacuity of the metadata hypotheses. -/
example : ∃ m : Meta, m.get "acqApLfSy" = some (.ints ((((385 : Nat) : Int) - 1) :: [0, 1])) ∧
    m.get "nSavedChans" = some (.int (385 : Nat)) ∧ m.get "NP2.4_shank" = none :=
  ⟨[("acqApLfSy", .ints [384, 0, 1]), ("nSavedChans", .int 385)], by decide, by decide, by decide⟩

/-! ### round h: the loop as the source orders it, the folder set-up, the text of the channel-subset string -/

/-- **The window loop, step by step, appends every sample exactly once and in order.**  `apSteps` is the AP half of
`_process_NP24` as the source orders it (`Tie.C03.p24_windows_eq`: per window read AP columns and sync columns of the same
rows, `_ind2save` with ratio 1, append; close; metadata); the rows its `keep` steps retain, window by window at the window's
own number, are `0 … ns − 1` — for every length, every window above the overlap, every column split. -/
theorem ap_steps_write_every_row (ns w napch isync : Nat) (hw : OV < w) :
    apAppended w TAPER (nwin ns w OV) 0 (apSteps ns w OV napch isync) = List.range ns := by
  rw [apSteps_rows]
  exact kept_ranges_partition ns w hw

example : apSteps 600 588 576 384 384 =
    [.wg 600 588 576, .readAp 0 588 384, .readSync 0 588 384, .keep 1, .append,
     .readAp 12 600 384, .readSync 12 600 384, .keep 1, .append, .close, .writeMeta] := by
  simp [apSteps, apWindow, firstlast, firstlastAux]

/-- **Folder set-up.**  `_prepare_files_NP24` makes one entry per shank number that occurs, in increasing order, registered
under its own number, with that shank's channel list; the folder letters `chr(97 + sh)` are strictly increasing, so the
reconstructor's `sorted(folders)` meets the shanks in the same order. -/
theorem prepare_folders_spec (smap : List Nat) (nc nsync : Nat) :
    (prepAll smap nc nsync).map (·.key) = shankIds smap ∧
    (prepAll smap nc nsync).map (·.chns) = (shankIds smap).map (fun sh => shankChans smap sh nc nsync) ∧
    (prepAll smap nc nsync).map (·.letter) = (shankIds smap).map (97 + ·) ∧
    ((prepAll smap nc nsync).map (·.letter)).Pairwise (· < ·) := by
  refine ⟨by simp [prepAll, prepShank, Function.comp_def], by simp [prepAll, prepShank, Function.comp_def],
    by simp [prepAll, prepShank, Function.comp_def], ?_⟩
  have h : (prepAll smap nc nsync).map (·.letter) = (shankIds smap).map (97 + ·) := by
    simp [prepAll, prepShank, Function.comp_def]
  rw [h, List.pairwise_map]
  exact (shankIds_sorted smap).imp (by intro a b hab; omega)

example : (prepAll [1, 3, 1] 4 1).map (fun p => (p.key, p.letter, p.chns)) = [(1, 98, [0, 2, 3]), (3, 100, [1, 3])] := by
  decide

/-- **The channel-subset string of two or more channels always contains a colon** (its first token is `a:b` because
`chn_grps[0] = 0 < len(chns) − 1`), so the metadata parser keeps it a string; and it still parses back to the list. -/
theorem subset_string_has_colon (chns : List Nat) (h : 2 ≤ chns.length) :
    ∃ t, subsetToks chns = .ok t ∧ ':' ∈ (renderToks t).toList ∧ parseToks t = chns := by
  match chns, h with
  | a :: b :: rest, _ =>
    obtain ⟨e, ts, he⟩ := subsetToks_head_range a b rest
    obtain ⟨t, ht, hp⟩ := parse_subsetToks (a :: b :: rest) (by simp)
    rw [he] at ht
    cases ht
    exact ⟨_, he, render_range_has_colon a e ts, hp⟩

example : (2 : Nat) ≤ ([5, 384] : List Nat).length := by decide

/-- **Every shank file's `snsSaveChanSubset_orig` contains a colon**: a shank number that occurs has at least one channel,
and with at least one sync column the written list has two or more members — single-channel shanks included. -/
theorem shank_subset_has_colon (smap : List Nat) (sh nc nsync : Nat) (hsh : sh ∈ smap) (hs : 1 ≤ nsync) :
    ∃ t, subsetToks (shankChans smap sh nc nsync) = .ok t ∧ ':' ∈ (renderToks t).toList ∧
      parseToks t = shankChans smap sh nc nsync := by
  apply subset_string_has_colon
  obtain ⟨i, hi⟩ := List.mem_iff_getElem?.mp hsh
  have hlt : i < smap.length := by
    rcases Nat.lt_or_ge i smap.length with h | h
    · exact h
    · rw [List.getElem?_eq_none h] at hi; cases hi
  have hm : i ∈ apChans smap sh := (mem_apChans smap sh i).mpr ⟨hlt, hi⟩
  have h1 : 1 ≤ (apChans smap sh).length := List.length_pos_of_mem hm
  simp only [shankChans, syncIdx, List.length_append, List.length_range']
  omega

example : (1 : Nat) ∈ ([0, 1, 0] : List Nat) ∧ subsetToks (shankChans [0, 1, 0] 1 4 1) = .ok [Grp.range 1 1, Grp.single 3] := by
  decide

/-- **The exact class without a colon: a single channel** (only reachable for a recording saved without its sync word and
a shank holding one channel — outside the 384 + 1 layout the converter is used on): the text is the bare number, which the
metadata parser re-reads as a number. -/
theorem subset_single_bare_counterexample :
    (∀ a, subsetToks [a] = .ok [Grp.single a]) ∧ renderToks [Grp.single 5] = "5" ∧
      ':' ∉ (renderToks [Grp.single 5]).toList := by
  refine ⟨subsetToks_single, by decide, by decide⟩

/-- round trip on the shapes named in the property's anchors: single element, all isolated, ending at 383 + sync -/
example : subsetToks [7] = .ok [Grp.single 7] ∧ parseToks [Grp.single 7] = [7] := by decide
example : subsetToks [1, 3, 5, 384] = .ok [Grp.range 1 1, Grp.range 3 3, Grp.range 5 5, Grp.single 384] := by decide
example : subsetToks [382, 383, 384] = .ok [Grp.range 382 384] ∧ parseToks [Grp.range 382 384] = [382, 383, 384] := by
  decide
example : renderToks [Grp.range 0 1, Grp.range 5 5, Grp.single 384] = "0:1,5:5,384" := by decide


end IblVerif.C03
