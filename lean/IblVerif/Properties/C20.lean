/-
C20 — Denoising, smoothing and counting utilities conserve what they must.

Property theorems only; helper lemmas live in `Lemmas/{Venn,Stack,SmoothIdx,Cadzow,C20Index,C20CadzowNp1,C20VennChunks}.lean` and
`Analysis/{Rank,Trajectory,Savgol,SmoothConst,C20CadzowNp1}.lean`.
Models: `Model/{Venn,Stack,SmoothIdx,Savgol,Cadzow,C20CadzowNp1}.lean`.
The integer expressions of the models are tied to the current source text by `Tie/C20.lean` (translator tie).

Not provable here (numeric, checked by the oracle of `harness/props/c20.py` only):
  "rank reduction reduces added noise when the requested rank is below the rank of the data" and
  "`smooth_interpolate_savgol` returns finite values in the NaN gaps" (`scipy.interpolate.interp1d` is external).
-/
import IblVerif.Lemmas.Venn
import IblVerif.Lemmas.Stack
import IblVerif.Analysis.SmoothConst
import IblVerif.Analysis.Savgol
import IblVerif.Analysis.Trajectory
import IblVerif.Lemmas.C20Index
import IblVerif.Lemmas.C20VennChunks
import IblVerif.Analysis.C20CadzowNp1

namespace IblVerif.C20

/-! ## Spike-coincidence counting (`spiketrains.spikes_venn2/3`) -/
section Venn
open IblVerif.Venn

/-- Every spike of every sorter is attributed to exactly one Venn region, regardless of chunking: for any number
of sorters, any spike trains, any bin sizes and ANY chunk size, whenever the routine returns (no `ValueError`),
the entries of the returned dictionary whose key has a `1` at sorter `j`'s position add up to the number of
spikes of sorter `j`. -/
theorem venn_conservation (sorters : List (List Spike)) (sbin cbin nch chunk : Nat) (res : List Nat)
    (h : venn sorters sbin cbin nch chunk = .ok res) (j : Nat) (hj : j < sorters.length) :
    regionSum sorters.length j res = sorters[j].length :=
  venn_conservation_aux sorters sbin cbin nch chunk res h j hj

/-- The same with Python's defaults (`samples_binsize=None`, `chunk_size=None`). -/
theorem venn_conservation_defaults (sorters : List (List Spike)) (sbin cbin fs nch chunk : Nat) (res : List Nat)
    (h : vennDefaults sorters sbin cbin fs nch chunk = .ok res) (j : Nat) (hj : j < sorters.length) :
    regionSum sorters.length j res = sorters[j].length :=
  venn_conservation_aux sorters _ cbin nch _ res h j hj

/-- Every increment goes to a genuine region (a non-empty subset of the sorters: code in `[1, 2^k)`), and the
dictionary total is the sum over chunks and bins of the largest per-sorter count in the bin. -/
theorem venn_total (sorters : List (List Spike)) (sbin cbin nch chunk : Nat) (res : List Nat)
    (h : venn sorters sbin cbin nch chunk = .ok res) :
    ∃ mx colss, maxSample sorters = some mx ∧
      allSome ((List.range (mx / chunk + 1)).map
        (fun ch => chunkColumns sbin cbin nch chunk (ch * chunk) sorters)) = some colss ∧
      (∀ cols ∈ colss, ∀ c ∈ peel cols, 1 ≤ c ∧ c < 2 ^ sorters.length) ∧
      res.sum = (colss.map (fun cols => (cols.map maxL).sum)).sum :=
  venn_total_aux sorters sbin cbin nch chunk res h

/-- On a time-ordered train the spikes processed in the chunk starting at `off` are exactly those with
`off ≤ sample < off + chunk` (so every spike is processed in exactly one chunk, the one containing it). -/
theorem venn_chunk_exact (sp : List Spike) (off chunk : Nat) (hs : sp.Pairwise (fun p q => p.1 ≤ q.1)) :
    chunkOf off chunk sp
      = (sp.filter (fun p => off ≤ p.1 ∧ p.1 < off + chunk)).map (fun p => (p.1 - off, p.2)) := by
  unfold chunkOf
  simp only
  rw [slice_eq_filter sp off (off + chunk) hs]

/-- "Regardless of chunking", at full strength for chunk sizes that are whole multiples of the sample bin size: the
returned dictionary is then a sum over the GLOBAL bin grid (`sample // sbin`, `channel // cbin`) in which the chunk size
does not occur — region `r + 1` gets, from every global bin, the number of peeling levels of that bin's per-sorter counts
whose membership code is `r + 1`. -/
theorem venn_global_bins (sorters : List (List Spike)) (sbin cbin nch c : Nat) (res : List Nat)
    (hsorted : ∀ sp ∈ sorters, sp.Pairwise (fun p q => p.1 ≤ q.1))
    (h : venn sorters sbin cbin nch (c * sbin) = .ok res) : vennGlobal sorters sbin cbin nch = .ok res :=
  venn_eq_vennGlobal sorters sbin cbin nch c res hsorted h

/-- Hence any two such chunk sizes give the same dictionary (time-ordered trains, any number of sorters). -/
theorem venn_chunk_invariant (sorters : List (List Spike)) (sbin cbin nch c₁ c₂ : Nat) (res₁ res₂ : List Nat)
    (hsorted : ∀ sp ∈ sorters, sp.Pairwise (fun p q => p.1 ≤ q.1))
    (h₁ : venn sorters sbin cbin nch (c₁ * sbin) = .ok res₁) (h₂ : venn sorters sbin cbin nch (c₂ * sbin) = .ok res₂) :
    res₁ = res₂ := by
  have e₁ := venn_eq_vennGlobal sorters sbin cbin nch c₁ res₁ hsorted h₁
  have e₂ := venn_eq_vennGlobal sorters sbin cbin nch c₂ res₂ hsorted h₂
  rw [e₁] at e₂
  exact Res.ok.inj e₂

/-- Non-vacuity, and the reason for the alignment hypothesis: with a chunk that is not a multiple of the bin size the
bins of later chunks are shifted, and two spikes in different global bins can fall into one chunk-relative bin. -/
example : venn [[(3, 0)], [(4, 0)]] 4 1 1 8 = .ok [1, 1, 0] ∧ venn [[(3, 0)], [(4, 0)]] 4 1 1 4 = .ok [1, 1, 0] ∧
    venn [[(3, 0)], [(4, 0)]] 4 1 1 3 = .ok [0, 0, 1] ∧ vennGlobal [[(3, 0)], [(4, 0)]] 4 1 1 = .ok [1, 1, 0] := by decide

/-- Non-vacuity: three sorters, two chunks, a shared bin and a doubly occupied bin. -/
example : venn [[(1, 0), (2, 0), (9, 3)], [(1, 1), (8, 3)], [(30, 2)]] 4 2 4 16
    = .ok [1, 0, 0, 1, 0, 2, 0] := by decide
example : regionSum 3 0 [1, 0, 0, 1, 0, 2, 0] = 3 ∧ regionSum 3 1 [1, 0, 0, 1, 0, 2, 0] = 2 ∧
    regionSum 3 2 [1, 0, 0, 1, 0, 2, 0] = 1 := by decide
/-- The error branches are real: an empty sorter and a channel beyond the last bin raise. -/
example : venn [[(1, 0)], []] 4 2 4 16 = .err "ValueError" := by decide
example : venn [[(1, 9)], [(1, 0)]] 4 2 4 16 = .err "ValueError" := by decide

end Venn

/-! ## Stacking by label (`voltage.stack`) and the per-collection rank of `svd_denoise_npx` -/
section Stack
open IblVerif.Stack

/-- `stack` returns per-label aggregates with the right fold: the groups are the distinct labels in strictly
ascending order; `fold[s]` is the multiplicity of label `group[s]` and the folds add up to the number of traces;
row `s` of the stack is the aggregate of exactly the rows labelled `group[s]`, in their original order. -/
theorem stack_fold {ρ σ : Type} (agg : List ρ → σ) (data : List ρ) (word : List Int)
    (hlen : data.length = word.length) :
    ∃ r, stack agg data word = some r ∧
      r.group.Pairwise (· < ·) ∧ (∀ a, a ∈ r.group ↔ a ∈ word) ∧
      r.fold = r.group.map (fun a => word.count a) ∧ r.fold.sum = word.length ∧
      r.rows.length = r.group.length ∧
      ∀ s (hs : s < r.group.length) (hs' : s < r.rows.length),
        r.rows[s] = agg (((word.zip data).filter (fun p => p.1 == r.group[s])).map (·.2)) := by
  have hne : ¬ data.length ≠ word.length := by omega
  refine ⟨{ group := unique word, fold := counts (unique word) word,
            rows := (List.range (unique word).length).map
              (fun sind => agg (select (inverse (unique word) word) data sind)) },
    by simp only [stack, hne, if_false], sorted_unique word, mem_unique word, rfl, sum_counts word, by simp, ?_⟩
  intro s hs hs'
  simp only [List.getElem_map, List.getElem_range]
  rw [select_eq word data s hs]

/-- A length mismatch between labels and traces is an error, never a silent truncation. -/
theorem stack_mismatch {ρ σ : Type} (agg : List ρ → σ) (data : List ρ) (word : List Int)
    (h : data.length ≠ word.length) : stack agg data word = none := by simp [stack, h]

/-- `svd_denoise_npx` at full rank (`rank = nc`) allots to every collection its own size, i.e. full rank. -/
theorem svd_full_rank_allotment (size nc : Nat) (hnc : 0 < nc) : collRank nc size nc = size := by
  unfold collRank
  rw [Nat.mul_comm]
  exact Nat.mul_div_cancel _ hnc

/-- General allotment: for every requested rank (Python's falsy `rank` resolved to `nc // 4`) every collection is
denoised on exactly its own rows with rank `⌊rank · size / nc⌋`, computed in exact integers. -/
theorem svd_allotment (rank : Nat) (collection : List Int) :
    ∀ e ∈ svdPlan rank collection,
      e.2.1 = whereEq collection e.1 ∧
      e.2.2 = (if rank = 0 then collection.length / 4 else rank) * e.2.1.length / collection.length := by
  intro e he
  simp only [svdPlan, List.mem_map] at he
  obtain ⟨col, _, rfl⟩ := he
  exact ⟨rfl, rfl⟩

/-- A single collection receives exactly the requested rank (no rounding loss: `⌊r · nc / nc⌋ = r`), so by
`svd_denoise_id_of_rank_le` data of rank ≤ `r` are returned unchanged at requested rank `r`. -/
theorem svd_single_collection_allotment (r nc : Nat) (hnc : 0 < nc) : collRank r nc nc = r := by
  unfold collRank
  exact Nat.mul_div_cancel _ hnc

/-- … and every trace belongs to exactly one collection. -/
theorem svd_collections_partition (collection : List Int) :
    ((unique collection).map (fun col => collection.count col)).sum = collection.length :=
  sum_counts collection

example : (stack (sumCols 2) [[1, 2], [10, 20], [100, 200], [5, 5]] [7, -1, 7, 3]).map
    (fun r => (r.group, r.fold, r.rows)) = some ([-1, 3, 7], [1, 1, 2], [[10, 20], [5, 5], [101, 202]]) := by
  decide

end Stack

/-! ## Smoothers (`smooth.rolling_window`, `smooth.lp`) -/
section Smooth
open IblVerif.Smooth

/-- `rolling_window` keeps the input length for every window length `3 ≤ wl ≤ n` (odd or even; the parity of
`wl` and of `wl // 2` decide how Python's round-half-to-even places the two slice bounds). -/
theorem rolling_len (n wl : Nat) (h3 : 3 ≤ wl) (hn : wl ≤ n) : rollingLen n wl = .ok n :=
  rollingLen_eq n wl h3 hn

/-- The generic model returns exactly `rollingLen` samples, hence `n`. -/
theorem rolling_len_values {α : Type} [Add α] [Mul α] [Div α] [OfNat α 0] (w x out : List α)
    (h3 : 3 ≤ w.length) (hn : w.length ≤ x.length) (h : rollingWindow w x = .ok out) :
    out.length = x.length := by
  have := rollingWindow_length w x out h
  rw [rollingLen_eq _ _ h3 hn] at this
  exact (Res.ok.inj this).symm

/-- `window_len < 3` returns the input itself; an input shorter than the window is a `ValueError`. -/
theorem rolling_short {α : Type} [Add α] [Mul α] [Div α] [OfNat α 0] (w x : List α) :
    (x.length < w.length → rollingWindow w x = .err "ValueError") ∧
    (w.length ≤ x.length → w.length < 3 → rollingWindow w x = .ok x) := by
  constructor
  · intro h; simp [rollingWindow, h]
  · intro h1 h2
    have : ¬ x.length < w.length := by omega
    simp [rollingWindow, this, h2]

/-- `rolling_window` returns constants unchanged (window samples not summing to zero). -/
theorem rolling_const (w : List ℝ) (n : ℕ) (c : ℝ) (h3 : 3 ≤ w.length) (hn : w.length ≤ n)
    (hW : sumL w ≠ 0) : rollingWindow w (List.replicate n c) = .ok (List.replicate n c) :=
  rollingWindow_const w n c h3 hn hW

/-- `lp` keeps the input length — provided at least one sample of padding is added (`lpad ≥ 1`).
FULL-STRENGTH statement ("for every `pad ≥ 0`") is FALSE for the code: see `lp_len_counterexample`. -/
theorem lp_len_partial {α : Type} (F : List α → List α) (hF : ∀ y, (F y).length = y.length) (x : List α)
    (l : Nat) (hx : x ≠ []) (hl : 0 < l) : ∃ out, lp F x l = .ok out ∧ out.length = x.length := by
  obtain ⟨out, h1, h2⟩ := lp_length F hF x l hx
  have : ¬ l = 0 := by omega
  exact ⟨out, h1, by simpa [this] using h2⟩

/-- `pad = 0` (or any `pad` with `ceil(n·pad) = 0`): `ts_[0:-0]` is empty, the output has no sample at all. -/
theorem lp_len_counterexample {α : Type} (F : List α → List α) (hF : ∀ y, (F y).length = y.length)
    (x : List α) (hx : x ≠ []) : ∃ out, lp F x 0 = .ok out ∧ out.length = 0 := by
  obtain ⟨out, h1, h2⟩ := lp_length F hF x 0 hx
  exact ⟨out, h1, by simpa using h2⟩

/-- `lp` returns constants unchanged when the frequency-domain filter does (any `lpad ≥ 1`). -/
theorem lp_const {α : Type} (F : List α → List α) (c : α)
    (hF : ∀ m, F (List.replicate m c) = List.replicate m c) (n l : Nat) (hn : 0 < n) (hl : 0 < l) :
    lp F (List.replicate n c) l = .ok (List.replicate n c) :=
  IblVerif.Smooth.lp_const F c hF n l hn hl

/-- `lp` keeps the input length for every `pad = num / den > 0`: `lpad = ⌈n · pad⌉` (the expression the translator tie reads
off the source, `Tie.C20.lp_lpad_eq`) is then at least 1. -/
theorem lp_len_of_pad {α : Type} (F : List α → List α) (hF : ∀ y, (F y).length = y.length) (x : List α)
    (num den : Nat) (hx : x ≠ []) (hnum : 0 < num) (hden : 0 < den) :
    ∃ out, lp F x (lpadRat x.length num den) = .ok out ∧ out.length = x.length := by
  apply lp_len_partial F hF x _ hx
  rw [lpadRat_pos_iff _ _ _ hden]
  have : 0 < x.length := List.length_pos_iff.mpr hx
  exact Nat.mul_pos this hnum

/-- … and the empty output of the recorded finding is exactly the class `n · pad = 0`. -/
theorem lpad_zero_iff (n num den : Nat) (hden : 0 < den) : lpadRat n num den = 0 ↔ n * num = 0 := by
  have := lpadRat_pos_iff n num den hden
  omega

example : lpadRat 10 1 5 = 2 ∧ lpadRat 3 1 5 = 1 ∧ lpadRat 25 7 25 = 7 ∧ lpadRat 10 0 5 = 0 := by decide
/-- Non-vacuity of `lp_len_of_pad`: three samples, `pad = 1/5`, the identity as filter. -/
example : ∃ out, lp (fun y : List Nat => y) [1, 2, 3] (lpadRat 3 1 5) = .ok out ∧ out.length = 3 :=
  lp_len_of_pad _ (fun _ => rfl) [1, 2, 3] 1 5 (by simp) (by omega) (by omega)

/-- … which a multiplication of the spectrum by a response with `H 0 = 1` does (`ft.lp`: `1 - fcn_cosine(b)(0) = 1`
for positive band edges). -/
theorem freq_filter_fixes_constants {N : ℕ} [NeZero N] (H : ZMod N → ℂ) (h0 : H 0 = 1) (c : ℂ) :
    ZMod.dft.symm (fun k => ZMod.dft (fun _ : ZMod N => c) k * H k) = fun _ => c :=
  freq_filter_const H h0 c

example : rollingLen 20 11 = .ok 20 ∧ rollingLen 5 5 = .ok 5 ∧ rollingLen 4 5 = .err "ValueError" := by
  decide
example : pyRoundHalf 9 = 4 ∧ pyRoundHalf 11 = 6 ∧ pyRoundHalf (-11) = -6 ∧ pyRoundHalf (-9) = -4 := by decide
example : lp (fun y : List Nat => y) [1, 2, 3] 2 = .ok [1, 2, 3] ∧ lp (fun y : List Nat => y) [1, 2, 3] 0 = .ok [] := by
  decide

end Smooth

/-! ## Non-uniform Savitzky–Golay (`smooth.non_uniform_savgol`, `smooth_interpolate_savgol`) -/
section Savgol
open IblVerif.Savgol Polynomial

/-- The filter reproduces every polynomial of degree ≤ `polynom` exactly, at interior points and at both
borders, for ANY pairwise distinct abscissae (any spacing, any order), any odd window `2h+1 > polynom` and any
number of samples `n > 2h+1` (or `n ≥ 1` when the window is 1).  `np.linalg.inv` is a parameter obeying `InvLaw`. -/
theorem savgol_reproduces (inv : ℕ → Table ℝ → Table ℝ) (hinv : InvLaw inv) (x : List ℝ) (hx : x.Nodup)
    (h polynom : ℕ) (P : ℝ[X]) (hdeg : P.natDegree ≤ polynom) (hpw : polynom < 2 * h + 1)
    (hn : 2 * h + 1 ≤ x.length) (hb : ¬ (x.length = 2 * h + 1 ∧ 0 < h)) :
    savgol inv x (x.map (fun v => P.eval v)) (2 * h + 1) polynom = .ok (x.map (fun v => P.eval v)) :=
  savgol_poly inv hinv x hx h polynom P hdeg hpw hn hb

/-- The excluded class is a defect of the code, not of the mathematics: with exactly `window ≥ 3` samples the
function raises (`last_coeffs` is never assigned) although its own size check admits the input. -/
theorem savgol_window_eq_len_counterexample {α : Type} [Add α] [Sub α] [Mul α] [OfNat α 0] [OfNat α 1]
    (inv : ℕ → Table α → Table α) (x y : List α) (h polynom : ℕ) (hh : 0 < h)
    (hx : x.length = 2 * h + 1) (hy : y.length = 2 * h + 1) (hp : polynom < 2 * h + 1) :
    savgol inv x y (2 * h + 1) polynom = .err "UnboundLocalError" := by
  unfold savgol
  have e3 : ¬ (2 * h + 1) % 2 = 0 := by omega
  have e4 : ¬ polynom ≥ 2 * h + 1 := by omega
  have e5 : (2 * h + 1) / 2 = h := by omega
  simp only [hx, hy, ne_eq, not_true_eq_false, Nat.lt_irrefl, e3, e4, e5, if_false, hh, and_self, if_true]

/-- With NaN gaps: the positions of the non-NaN samples are pairwise distinct abscissae for every NaN pattern, so
when those samples lie on a polynomial of degree ≤ `order` the smoothing step hands the interpolator exactly the
unmodified samples. -/
theorem smooth_interp_poly (inv : ℕ → Table ℝ → Table ℝ) (hinv : InvLaw inv)
    (interp : List ℕ → List ℝ → ℕ → List ℝ) (signal : List (Option ℝ)) (h order : ℕ) (P : ℝ[X])
    (hdeg : P.natDegree ≤ order) (hpw : order < 2 * h + 1)
    (hgood : ∀ p ∈ goodIdx signal, p.2 = P.eval ((p.1 : ℕ) : ℝ))
    (hn : 2 * h + 1 < (goodIdx signal).length) :
    smoothInterp inv (fun n => (n : ℝ)) interp signal (2 * h + 1) order
      = .ok (interp ((goodIdx signal).map (·.1)) ((goodIdx signal).map (·.2)) signal.length) :=
  smoothInterp_poly inv hinv interp signal h order P hdeg hpw hgood hn

/-- Window index ranges at both borders, for every length `n ≥ window = 2 h + 1`: the left-border loop `range(0, h)`, the
centre loop `range(h, n - h)` and the right-border loop `range(n - h, n)` write every output sample exactly once (no `nan`
of `np.full(len(y), np.nan)` survives), and every array read of the three loops (`x[i + j - h]`, `y[i + j - h]`, `y[j]`,
`y[n - window + j]`, `x[h]`, `x[-h - 1]`) has an index in `[0, n)` — Python never wraps a negative index here. -/
theorem savgol_index_ranges (n h : Nat) (hn : 2 * h + 1 ≤ n) :
    (∀ i, i < n → ((i < h ∧ ¬ (h ≤ i ∧ i < n - h) ∧ ¬ (n - h ≤ i)) ∨ (¬ i < h ∧ (h ≤ i ∧ i < n - h) ∧ ¬ (n - h ≤ i)) ∨
      (¬ i < h ∧ ¬ (h ≤ i ∧ i < n - h) ∧ n - h ≤ i))) ∧
    (∀ i j, h ≤ i → i < n - h → j < 2 * h + 1 → h ≤ i + j ∧ i + j - h < n) ∧
    (∀ j, j < 2 * h + 1 → j < n ∧ n - (2 * h + 1) + j < n) ∧ h < n ∧ n - h - 1 < n ∧
    (h ≤ n - h - 1 ∧ (n - h - 1 < n - h)) :=
  index_ranges n h hn

example := savgol_index_ranges 7 2 (by omega)

/-- The model's output has one sample per input sample whenever it returns (it does return: `savgol_reproduces`). -/
theorem savgol_length {α : Type} [Add α] [Sub α] [Mul α] [OfNat α 0] [OfNat α 1]
    (inv : ℕ → Table α → Table α) (x y out : List α) (window polynom : ℕ)
    (h : savgol inv x y window polynom = .ok out) : out.length = x.length := by
  unfold savgol at h
  simp only at h
  repeat' split at h
  all_goals (cases h; try simp)

/-- NaN handling of `smooth_interpolate_savgol` as index logic: `good_idxs` is strictly increasing (a valid abscissa
vector for `interp1d`) and consists of exactly the positions holding a number, for every NaN pattern. -/
theorem smooth_interp_nodes {α : Type} (signal : List (Option α)) :
    ((goodIdx signal).map (·.1)).Pairwise (· < ·) ∧
    (∀ i v, (i, v) ∈ goodIdx signal ↔ i < signal.length ∧ signal.getD i none = some v) ∧
    (goodIdx signal).length ≤ signal.length := by
  refine ⟨goodIdx_increasing signal, mem_goodIdx signal, ?_⟩
  have : ((goodIdx signal).map (·.1)).length ≤ (List.range signal.length).length := by
    rw [map_fst_goodIdx]; exact List.length_filter_le _ _
  simpa using this

example : goodIdx [some (1 : Nat), none, none, some 4, none] = [(0, 1), (3, 4)] := by decide

/-- Non-vacuity of `InvLaw`: Mathlib's matrix inverse (tabulated) satisfies it. -/
example : ∃ inv : ℕ → Table ℝ → Table ℝ, InvLaw inv := by
  classical
  refine ⟨fun p M => table p p (fun k l =>
    if h : k < p ∧ l < p then (Matrix.of fun (a b : Fin p) => M.get a b)⁻¹ ⟨k, h.1⟩ ⟨l, h.2⟩ else 0), ?_⟩
  intro p M ⟨N, hN⟩ k m hk hm
  set G : Matrix (Fin p) (Fin p) ℝ := Matrix.of fun a b => M.get a b with hG
  have hleft : (Matrix.of fun (a b : Fin p) => N a b) * G = 1 := by
    ext a b
    rw [Matrix.mul_apply, Matrix.one_apply]
    have := hN a b a.2 b.2
    rw [Finset.sum_range] at this
    simpa [Fin.ext_iff, hG] using this
  have hdet : IsUnit G.det := Matrix.isUnit_det_of_left_inverse hleft
  have hmul := Matrix.nonsing_inv_mul G hdet
  have hkm := congrFun (congrFun hmul ⟨k, hk⟩) ⟨m, hm⟩
  rw [Matrix.mul_apply, Matrix.one_apply] at hkm
  simp only [Fin.mk.injEq] at hkm
  rw [← hkm, Finset.sum_range]
  apply Finset.sum_congr rfl
  intro l _
  rw [get_table _ _ _ _ _ hk l.2]
  simp [hk, hG]

end Savgol

/-! ## Rank reduction (`cadzow.derank/denoise`, `voltage._svd_denoise`) -/
section Rank
open IblVerif.Rank IblVerif.Cadzow Matrix

/-- Plain SVD denoising returns its input unchanged whenever the requested rank is at least the rank of the
data (for any SVD routine obeying `SVDLaw`). -/
theorem svd_denoise_id_of_rank_le {R C m : ℕ} (T : Matrix (Fin R) (Fin C) ℂ) (U : Matrix (Fin R) (Fin m) ℂ)
    (s : Fin m → ℝ) (Vh : Matrix (Fin m) (Fin C) ℂ) (h : SVDLaw T U s Vh) (r : ℕ) (hr : T.rank ≤ r) :
    derankOf r U s Vh = T :=
  derank_of_rank_le T U s Vh h r hr

/-- Non-vacuity of `SVDLaw`: the 1 × 1 matrix `(2)`. -/
example : SVDLaw (m := 1) (Matrix.of ![![(2 : ℂ)]]) 1 (fun _ => 2) 1 := by
  refine ⟨?_, by simp, by simp, fun _ => by norm_num, fun _ _ _ => le_refl _⟩
  ext i j
  fin_cases i; fin_cases j
  simp

/-- `svd_denoise_npx` per collection: a collection of `size` channels out of `nc` whose data have rank at most its
share `⌊rank · size / nc⌋` of the requested rank is returned unchanged. -/
theorem svd_allotment_identity {R C m : ℕ} (T : Matrix (Fin R) (Fin C) ℂ) (U : Matrix (Fin R) (Fin m) ℂ)
    (s : Fin m → ℝ) (Vh : Matrix (Fin m) (Fin C) ℂ) (h : SVDLaw T U s Vh) (rank nc : ℕ)
    (hr : T.rank ≤ IblVerif.Stack.collRank rank R nc) :
    derankOf (IblVerif.Stack.collRank rank R nc) U s Vh = T :=
  derank_of_rank_le T U s Vh h _ hr

/-- Full rank needs nothing but the decomposition itself. -/
theorem derank_full {R C m : ℕ} (r : ℕ) (T : Matrix (Fin R) (Fin C) ℂ) (U : Matrix (Fin R) (Fin m) ℂ)
    (s : Fin m → ℝ) (Vh : Matrix (Fin m) (Fin C) ℂ)
    (hT : T = U * diagonal (fun i => (s i : ℂ)) * Vh) (hr : m ≤ r) : derankOf r U s Vh = T :=
  IblVerif.Rank.derank_full r T U s Vh hT hr

/-- Sites at pairwise distinct coordinates form a valid layout for `trajectory(x, y)` (ranks of the coordinates
among the distinct values lie inside the grid and no two sites share a grid position). -/
theorem layout_valid (x y : List Int) (hlen : x.length = y.length)
    (hd : ∀ c c' (h : c < x.length) (h' : c' < x.length), x[c] = x[c'] → y[c] = y[c'] → c = c') :
    Valid (inverse x) (inverse y) (IblVerif.Stack.unique x).length (IblVerif.Stack.unique y).length :=
  trajectory_valid x y hlen hd

/-- Anti-diagonal averaging undoes the trajectory embedding: on every layout without two sites at the same grid
position (each trace then occurs at least once: `trcount > 0`), if the rank reduction leaves the trajectory
matrix of this frequency unchanged then `denoise` returns the samples unchanged. -/
theorem traj_average_id {K : Type} [Field K] [CharZero K] (ix iy : List Nat) (nx ny : Nat)
    (hv : Valid ix iy nx ny) (d : List K) (hd : d.length = ix.length)
    (derank : (Nat → Nat → K) → (Nat → Nat → K))
    (hder : ∀ A B, A < nrows nx * nrows ny → B < ncols nx * ncols ny →
      derank (fill (trajOfIdx ix iy nx ny) d) A B = fill (trajOfIdx ix iy nx ny) d A B) :
    denoiseCol derank (fun k => (k : K)) (trajOfIdx ix iy nx ny) d = .ok d :=
  denoiseCol_id ix iy nx ny hv d hd derank hder

/-- Trajectory-matrix denoising at full rank (`r ≥ min(T.shape)`) returns its input, for every valid layout and
every SVD routine that returns a decomposition. -/
theorem cadzow_full_rank (ix iy : List Nat) (nx ny m : Nat) (hv : Valid ix iy nx ny) (d : List ℂ)
    (hd : d.length = ix.length)
    (svd : (ℕ → ℕ → ℂ) → Matrix (Fin (nrows nx * nrows ny)) (Fin m) ℂ × (Fin m → ℝ) ×
      Matrix (Fin m) (Fin (ncols nx * ncols ny)) ℂ)
    (hsvd : let T := fill (trajOfIdx ix iy nx ny) d
      matOf _ _ T = (svd T).1 * diagonal (fun i => ((svd T).2.1 i : ℂ)) * (svd T).2.2)
    (r : ℕ) (hr : m ≤ r) :
    denoiseCol (derankVia svd r) (fun k => (k : ℂ)) (trajOfIdx ix iy nx ny) d = .ok d := by
  apply denoiseCol_id ix iy nx ny hv d hd
  intro A B hA hB
  exact derankVia_eq svd r _ (IblVerif.Rank.derank_full r _ _ _ _ hsvd hr) A B hA hB

/-- A single plane wave `amp · zx^ix · zy^iy` on a dense rectangular layout survives rank one: its trajectory
matrix is an outer product of two geometric sequences, so truncation at `r = 1` and averaging return it. -/
theorem cadzow_plane_wave_rank_one (ix iy : List Nat) (nx ny m : Nat) (hv : Valid ix iy nx ny)
    (hdense : Dense ix iy nx ny) (amp zx zy : ℂ) (d : List ℂ) (hd : d.length = ix.length)
    (hpw : ∀ c, c < ix.length → d.getD c 0 = amp * zx ^ ix.getD c 0 * zy ^ iy.getD c 0)
    (svd : (ℕ → ℕ → ℂ) → Matrix (Fin (nrows nx * nrows ny)) (Fin m) ℂ × (Fin m → ℝ) ×
      Matrix (Fin m) (Fin (ncols nx * ncols ny)) ℂ)
    (hsvd : let T := fill (trajOfIdx ix iy nx ny) d
      SVDLaw (matOf _ _ T) (svd T).1 (svd T).2.1 (svd T).2.2) :
    denoiseCol (derankVia svd 1) (fun k => (k : ℂ)) (trajOfIdx ix iy nx ny) d = .ok d := by
  apply denoiseCol_id ix iy nx ny hv d hd
  intro A B hA hB
  apply derankVia_eq svd 1 _ _ A B hA hB
  have hout : matOf (nrows nx * nrows ny) (ncols nx * ncols ny) (fill (trajOfIdx ix iy nx ny) d)
      = vecMulVec (fun A : Fin (nrows nx * nrows ny) => amp * zx ^ ((A : ℕ) / nrows ny) * zy ^ ((A : ℕ) % nrows ny))
          (fun B : Fin (ncols nx * ncols ny) =>
            zx ^ (ncols nx - 1 - (B : ℕ) / ncols ny) * zy ^ (ncols ny - 1 - (B : ℕ) % ncols ny)) := by
    ext A' B'
    simp only [matOf, Matrix.of_apply, vecMulVec_apply]
    exact fill_plane_wave ix iy nx ny hv hdense amp zx zy d hpw A' B' A'.2 B'.2
  have hlaw := hsvd
  simp only at hlaw
  rw [hout] at hlaw ⊢
  exact derank_outer _ _ _ _ _ hlaw

/-- The whole `denoise` (all frequencies, `imax=None`, any `niter ≥ 1`) returns `WAV` unchanged whenever the rank
reduction leaves every frequency's trajectory matrix unchanged (full rank, or one plane wave per frequency at
rank one by the two theorems above). -/
theorem denoise_all_id {K : Type} [Field K] [CharZero K] (ix iy : List Nat) (nx ny : Nat)
    (hv : Valid ix iy nx ny) (wav : List (List K)) (hd : ∀ col ∈ wav, col.length = ix.length)
    (derank : (Nat → Nat → K) → (Nat → Nat → K))
    (hder : ∀ col ∈ wav, ∀ A B, A < nrows nx * nrows ny → B < ncols nx * ncols ny →
      derank (fill (trajOfIdx ix iy nx ny) col) A B = fill (trajOfIdx ix iy nx ny) col A B)
    (niter : ℕ) (hn : 1 ≤ niter) :
    denoiseAll derank (fun k => (k : K)) (trajOfIdx ix iy nx ny) (imaxOf wav.length 0) wav niter = .ok wav := by
  apply denoiseAll_id _ _ _ _ _ _ (by simp [imaxOf]) niter hn
  intro col hcol
  exact denoiseCol_id ix iy nx ny hv col (hd col hcol) derank (hder col hcol)

/-- Non-vacuity: the 2 × 3 dense layout is valid and dense; the NP1-style checkerboard is valid but NOT dense
(the rank-one statement does not apply to it). -/
example : Valid [0, 1, 0, 1, 0, 1] [0, 0, 1, 1, 2, 2] 2 3 ∧ Dense [0, 1, 0, 1, 0, 1] [0, 0, 1, 1, 2, 2] 2 3 := by
  refine ⟨⟨rfl, ?_, ?_⟩, ?_⟩
  · intro c hc
    have : c < 6 := hc
    interval_cases c <;> decide
  · intro c c' hc hc'
    have : c < 6 := hc
    have : c' < 6 := hc'
    interval_cases c <;> interval_cases c' <;> simp
  · intro p q hp hq
    interval_cases p <;> interval_cases q <;> decide
example : ¬ Dense [0, 2, 1, 3] [0, 0, 1, 1] 4 2 := by
  intro h
  obtain ⟨c, hc, h1, h2⟩ := h 1 0 (by omega) (by omega)
  have : c < 4 := hc
  interval_cases c <;> simp at h1 h2

end Rank

/-! ## Channel windowing of `cadzow.cadzow_np1` -/
section Np1
open IblVerif.CadzowNp1

/-- On the documented domain of `cadzow_np1` ("ntr - nswx has to be a multiple of nswx - ovx", no padding, `2 ovx ≤ nswx`)
the function hands `(ntr - nswx) / (nswx - ovx) + 1` windows of exactly `nswx` channels to `denoise`, every window lies
inside `[0, ntr)`, and every channel belongs to at least one window. -/
theorem np1_windows (ntr nswx ovx : Nat) (ho : 2 ≤ ovx) (hw : 2 * ovx ≤ nswx) (hn : nswx ≤ ntr)
    (hm : (ntr - nswx) % (nswx - ovx) = 0) :
    ∃ ws, windows ntr nswx ovx 0 = .ok ws ∧ ws.length = (ntr - nswx) / (nswx - ovx) + 1 ∧
      (∀ w ∈ ws, w.2.1 = w.1 + nswx ∧ w.2.1 ≤ ntr) ∧ (∀ i, i < ntr → ∃ w ∈ ws, w.1 ≤ i ∧ i < w.2.1) := by
  have hp := domain_param ntr nswx ovx hn hm
  generalize (ntr - nswx) / (nswx - ovx) = m at hp ⊢
  subst hp
  refine ⟨_, windows_ok nswx ovx m ho hw, by simp, ?_, ?_⟩
  · intro w hw'
    simp only [List.mem_map, List.mem_range] at hw'
    obtain ⟨k, hk, rfl⟩ := hw'
    exact ⟨rfl, (windows_inside nswx ovx m k (by omega) (by omega)).1⟩
  · intro i hi
    have hs : 0 < nswx - ovx := by omega
    generalize hS : nswx - ovx = s at *
    have hdm := Nat.div_add_mod i s
    have hr := Nat.mod_lt i hs
    rw [Nat.mul_comm] at hdm
    by_cases hq : i / s ≤ m
    · refine ⟨_, List.mem_map.mpr ⟨i / s, List.mem_range.mpr (by omega), rfl⟩, ?_⟩
      simp only [firstx, lastx, hS]; omega
    · refine ⟨_, List.mem_map.mpr ⟨m, List.mem_range.mpr (by omega), rfl⟩, ?_⟩
      have := mul_step_le (s := s) (show m < i / s by omega)
      simp only [firstx, lastx, hS]; omega

/-- Every channel is reconstructed with total weight 1: on the documented domain with at least two windows
(`nswx < ntr`), for every taper that splices (`h t + h (ovx - 1 - t) = 1`, the function's own `assert`), the gain windows
of all channel windows containing a channel add up to exactly 1 — for every `ntr`, `nswx`, `ovx`.  With `denoise` the
identity on every window (requested rank ≥ the rank of its trajectory matrices: `cadzow_full_rank`) `cadzow_np1` therefore
returns the spectrum it was given. -/
theorem np1_weight_one (h : ℕ → ℝ) (ntr nswx ovx : ℕ) (ho : 2 ≤ ovx) (hw : 2 * ovx ≤ nswx) (hn : nswx < ntr)
    (hm : (ntr - nswx) % (nswx - ovx) = 0) (hh : ∀ t, t < ovx → h t + h (ovx - 1 - t) = 1) (i : ℕ) (hi : i < ntr) :
    weightAt h ntr nswx ovx 0 i = 1 := by
  have hp := domain_param ntr nswx ovx (by omega) hm
  have hm1 : 1 ≤ (ntr - nswx) / (nswx - ovx) := by
    rw [Nat.one_le_div_iff (by omega)]
    exact Nat.le_of_dvd (by omega) (Nat.dvd_of_mod_eq_zero hm)
  generalize (ntr - nswx) / (nswx - ovx) = m at hp hm1
  subst hp
  exact weightAt_eq_one h nswx ovx m (by omega) hw hm1 hh i hi

/-- The taper the code uses (`scipy.signal.windows.hann(2 ovx - 1)[0:ovx]`) splices, so all output weights are 1. -/
theorem np1_weight_one_hann (ntr nswx ovx : ℕ) (ho : 2 ≤ ovx) (hw : 2 * ovx ≤ nswx) (hn : nswx < ntr)
    (hm : (ntr - nswx) % (nswx - ovx) = 0) :
    outputWeights (hann ovx) ntr nswx ovx 0 = List.replicate ntr 1 := by
  unfold outputWeights
  rw [List.eq_replicate_iff]
  refine ⟨by simp, ?_⟩
  intro b hb
  simp only [List.mem_map, List.mem_range] at hb
  obtain ⟨i, hi, rfl⟩ := hb
  exact np1_weight_one (hann ovx) ntr nswx ovx ho hw hn hm (fun t ht => hann_splice ovx t ho ht) i hi

/-- FULL-STRENGTH statement (`nswx ≤ ntr`) is false for the code: a recording of exactly one window (`ntr = nswx`) takes the
`firstx == 0` branch, whose gain window fades out, and nothing fades in: the last channel gets weight `h 0`, which is 0 for
the Hann taper. -/
theorem np1_single_window_counterexample (h : ℕ → ℝ) (nswx ovx : ℕ) (ho : 1 ≤ ovx) (hov : ovx < nswx) :
    weightAt h nswx nswx ovx 0 (nswx - 1) = h 0 := by
  have hnw : nwinx nswx nswx ovx 0 = 1 := by
    have := nwinx_eq nswx ovx 0 hov
    simpa using this
  rw [weightAt_eq, hnw]
  have e : nswx - 1 - (nswx - 1) = 0 := by omega
  have : ¬ nswx - 1 < nswx - ovx := by omega
  simp [term, firstx, lastx, kindOf, gw, this, e]
  omega

theorem np1_single_window_hann (nswx ovx : ℕ) (ho : 1 ≤ ovx) (hov : ovx < nswx) :
    weightAt (hann ovx) nswx nswx ovx 0 (nswx - 1) = 0 := by
  rw [np1_single_window_counterexample _ _ _ ho hov, hann_zero]

/-- With padding (`npad > 0`) the test `lastx == ntr` singles out a window in the MIDDLE of the padded rows: it gets no
fade-out although the next window fades in, and the rows in between are counted twice (witness: `ntr = 64`, `nswx = 16`,
`ovx = 8`, `npad = 4`, padded row 57 = channel 53 gets weight `1 + h 1`). -/
theorem np1_npad_counterexample (h : ℕ → ℝ) : weightAt h 64 16 8 4 57 = 1 + h 1 := by
  rw [weightAt_eq]
  have : nwinx 64 16 8 4 = 8 := by decide
  rw [this]
  simp [Finset.sum_range_succ, term, firstx, lastx, kindOf, gw]

/-- Non-vacuity: NP1 defaults (384 channels, windows of 32, overlap 16) are on the domain: 23 windows. -/
example : (384 - 32) % (32 - 16) = 0 ∧ nwinx 384 32 16 0 = 23 ∧ kindOf 384 32 16 0 = .first ∧ kindOf 384 32 16 22 = .last ∧
    kindOf 384 32 16 7 = .mid := by decide
example : windows 64 16 8 0 = .ok [(0, 16, .first), (8, 24, .mid), (16, 32, .mid), (24, 40, .mid), (32, 48, .mid),
    (40, 56, .mid), (48, 64, .last)] := by decide
example : windows 48 16 4 0 = .err "ValueError" ∧ windows 64 16 10 0 = .err "ValueError" := by decide

end Np1

end IblVerif.C20
