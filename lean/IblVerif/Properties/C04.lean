/-
C04 — Conversion never loses the original and is idempotent over run histories.

Property theorems only (the model is `Model/Converter.lean`, the predicates are in `Lemmas/ConverterSpec.lean`, the
helper lemmas in `Lemmas/Converter.lean`).  A history is a list of calls from a state `st = ⟨disk, live converter object⟩`;
each call either builds a new `NP2Converter` (any option triple; on the original or on an already split shank file) and
calls `process`, or (`reuse`) calls `process` once more on the object of the previous step, whose fields persist.
Quantifier of every statement: ALL configurations `cfg` (probe kind, any number of shanks `n ≥ 1`, any `ns`, window,
overlap), ALL calls (options, `overwrite`, new or same object, an interruption at ANY call index of any of the five steps
or none, an altered sample in any shank / window or none) and -- for the invariant -- ALL histories of any length from ANY
consistent state in which the original is recoverable (every intermediate state is covered: each prefix is a history).
`actingObj cfg call st = some ob` names the object whose `process` the call runs (the new one, or the kept one).
`StOk st`: the live object, if any, is consistent with the disk (an invariant of `run`, true of every start state).

Second half of the file: every run as a LIST OF ATOMIC EFFECTS (`Model/ConverterSteps.lean`: `effectsObj`, `applyEffs`), the
expansion of the step order that the translator tie (`Tie/C04.lean`) proves equal to the source text.  `uninterrupted_run_is_effect_list`
and `interrupted_run_is_prefix` show that the state machine above IS that sequential semantics (whole list; a prefix for every
named interruption); `prefix_recoverable`, `original_recoverable_any_prefix`, `original_removed_only_after_check`,
`rerun_after_any_prefix_completes` then quantify over ALL prefixes (an interruption between any two effects), `status_table` is
the total decision table of the return status.  Hypothesis `cfg.ov < cfg.w` there: the window generator terminates (the code
fixes the overlap at 576 and asserts the window is a multiple of 12; a window ≤ 576 never returns).
-/
import IblVerif.Lemmas.Converter
import IblVerif.Lemmas.ConverterSteps

namespace IblVerif.C04
open IblVerif.Converter

/-- **Safety invariant.**  Across every sequence of conversion runs -- on new objects and on the same object, in any
mix -- the original samples stay recoverable byte for byte: from the original's own data file (`.bin`, or `.cbin` + `.ch`),
or -- once an NP2.4 run has removed it -- from the ap files and metadata of all shank folders, each bit-identical
(`good cfg.c`) to its columns. -/
theorem original_recoverable (cfg : Cfg) (hn : 0 < cfg.n) (st0 : St) (hs : StOk st0)
    (h0 : Recoverable cfg st0.disk) (calls : List Call) :
    Recoverable cfg (runs cfg st0 calls).disk :=
  runs_recoverable cfg hn calls st0 hs h0

/-- **The original is removed only after the split output has been verified bit-identical.**  If one call (new or same
object) makes the original's data file unreadable/absent, then it was an NP2.4 run on the original by an object with
`post_check` and `delete_original`, EVERY shank of the probe was converted (no partial `nshank` selection: a verification
that passes on a subset of the shanks does not establish that the original can be rebuilt), the split of THIS run was faithful for every shank (so this run's `check_NP24`
compared equal in every window), the run returned 1, and every shank folder holds a complete ap and lf stream (compressed
or not, as requested) with metadata.  A `check_completed` left over from an earlier call of the same object never suffices. -/
theorem delete_requires_check (cfg : Cfg) (call : Call) (st : St) (hs : StOk st)
    (h0 : OrigHolds st.disk) (h1 : ¬ OrigHolds (run cfg call st).1.disk) :
    ∃ ob, actingObj cfg call st = some ob ∧ cfg.kind = .np24 ∧ ob.onShank = false ∧
      ob.opts.postCheck = true ∧ ob.opts.deleteOriginal = true ∧
      (cfg.partialSel = false ∧ ∀ i, i < cfg.n → altered cfg call i = false) ∧
      (run cfg call st).2 = .ret 1 ∧ Complete cfg ob.opts.compress (run cfg call st).1.disk := by
  cases ha : actingObj cfg call st with
  | none => rw [(run_noacting cfg call st ha).1] at h1; exact absurd h0 h1
  | some ob =>
    have hok := acting_objOk cfg call st ob hs ha
    rw [run_acting cfg call st ob ha] at h1 ⊢
    cases ho : ob.onShank
    case true => rw [processObj_onShank cfg ob call _ ho] at h1; exact absurd h0 h1
    have he := apFileExists_of_holds _ ob hok ho h0
    cases hk : cfg.kind
    · rw [processObj_np24 cfg ob call _ ho hk he] at h1 ⊢
      rcases process24_orig cfg ob call st.disk hok.1 with ⟨a, b⟩ | ⟨a, b, c, d, _, e⟩
      · exact absurd (origHolds_of_eq h0 a b) h1
      · exact ⟨ob, rfl, rfl, ho, a, b, (splitDiffers_false_iff cfg call).mp c, d, by simp only [Complete, hk]; exact e⟩
    · rw [processObj_np21 cfg ob call _ ho hk he] at h1
      exact absurd (process21_keeps cfg ob call _ h0) h1
    · rw [processObj_np1 cfg ob call _ ho hk he] at h1; exact absurd h0 h1

/-- **Single-shank probes: the `.bin` is removed only after it has been losslessly compressed in place.**  An NP2.1
run changes the original's data file in one way only: `.bin` → published `.cbin` together with its `.ch` (mtscomp
checks the round trip before `compress_file` renames the temporary file), and only with `compress` set. -/
theorem np21_compressed_in_place (cfg : Cfg) (hk : cfg.kind = .np21) (call : Call) (st : St) (hs : StOk st)
    (h : (run cfg call st).1.disk.orig ≠ st.disk.orig) :
    st.disk.orig = .bin ∧ (run cfg call st).1.disk.orig = .cbin ∧ (run cfg call st).1.disk.och = true ∧
    ∃ ob, actingObj cfg call st = some ob ∧ ob.opts.compress = true := by
  cases ha : actingObj cfg call st with
  | none => rw [(run_noacting cfg call st ha).1] at h; exact absurd rfl h
  | some ob =>
    have hok := acting_objOk cfg call st ob hs ha
    rw [run_acting cfg call st ob ha] at h ⊢
    cases he : apFileExists ob st.disk
    case false => rw [processObj_missing cfg ob call _ he] at h; exact absurd rfl h
    cases ho : ob.onShank
    case true => rw [processObj_onShank cfg ob call _ ho] at h; exact absurd rfl h
    rw [processObj_np21 cfg ob call _ ho hk he] at h ⊢
    have hl := (hok.2.1 ho ((apFileExists_iff _ ob hok ho).mp he)).1
    obtain ⟨a, b, c, d⟩ := process21_orig_change cfg ob call st.disk hl h
    exact ⟨a, b, c, ob, rfl, d⟩

/-- **An interrupted run keeps the original.**  Whatever exception ends a call (the environment's, at any point, or the
failed verification), the original's data file is still readable afterwards (for NP2.1 possibly as the `.cbin` that
replaced the `.bin` after a complete, checked compression). -/
theorem interrupted_run_keeps_original (cfg : Cfg) (call : Call) (st : St) (h0 : OrigHolds st.disk) (e : Err)
    (h1 : (run cfg call st).2 = .raised e) : OrigHolds (run cfg call st).1.disk := by
  cases ha : actingObj cfg call st with
  | none => rw [(run_noacting cfg call st ha).1]; exact h0
  | some ob =>
    rw [run_acting cfg call st ob ha] at h1 ⊢
    cases he : apFileExists ob st.disk
    case false => rw [processObj_missing cfg ob call _ he]; exact h0
    cases ho : ob.onShank
    case true => rw [processObj_onShank cfg ob call _ ho]; exact h0
    cases hk : cfg.kind
    · rw [processObj_np24 cfg ob call _ ho hk he] at h1 ⊢
      obtain ⟨a, b⟩ := process24_raised cfg ob call st.disk e h1
      exact origHolds_of_eq h0 a b
    · rw [processObj_np21 cfg ob call _ ho hk he]; exact process21_keeps cfg ob call _ h0
    · rw [processObj_np1 cfg ob call _ ho hk he]; exact h0

/-- **A run without overwrite on existing output changes nothing on disk and reports that it did nothing** -- on a new
object or on the same one, for every option triple and whatever interruption or alteration the environment has prepared. -/
theorem rerun_noop (cfg : Cfg) (call : Call) (st : St) (ob : Obj) (ha : actingObj cfg call st = some ob)
    (ho : ob.onShank = false) (he : OutputExists cfg st.disk) (hw : call.overwrite = false) :
    (run cfg call st).1.disk = st.disk ∧ (run cfg call st).2 = .ret 0 := by
  rw [run_acting cfg call st ob ha]
  cases hf : apFileExists ob st.disk
  case false => rw [processObj_missing cfg ob call _ hf]; exact ⟨rfl, rfl⟩
  cases hk : cfg.kind
  · rw [processObj_np24 cfg ob call _ ho hk hf]
    simp only [OutputExists, hk] at he
    exact process24_rerun_noop cfg ob call st.disk he.1 he.2 hw
  · rw [processObj_np21 cfg ob call _ ho hk hf]
    simp only [OutputExists, hk] at he
    exact process21_rerun_noop cfg ob call st.disk he hw
  · simp [OutputExists, hk] at he

/-- **Once an object has deleted the original, calling it again does nothing** -- with or without `overwrite`, whatever
the environment has prepared: status 0, the disk (the valid shank files) untouched.  More generally: `process` of an
object built on the original when no original data file is left. -/
theorem rerun_after_delete_noop (cfg : Cfg) (call : Call) (st : St) (hs : StOk st) (ob : Obj)
    (ha : actingObj cfg call st = some ob) (ho : ob.onShank = false) (hgone : st.disk.orig = .absent) :
    (run cfg call st).1.disk = st.disk ∧ (run cfg call st).2 = .ret 0 := by
  have hok := acting_objOk cfg call st ob hs ha
  rw [run_acting cfg call st ob ha]
  have hf : apFileExists ob st.disk = false := by
    cases h : apFileExists ob st.disk
    · rfl
    · exact absurd hgone ((apFileExists_iff _ ob hok ho).mp h)
  rw [processObj_missing cfg ob call _ hf]; exact ⟨rfl, rfl⟩

/-- Every run on the original of an NP2 probe -- completed or interrupted anywhere, new or same object -- leaves output
behind (all expected shank folders; the lf file), so that the next run without overwrite is a repeated run. -/
theorem run_creates_output (cfg : Cfg) (hn : 0 < cfg.n) (call : Call) (st : St) (hs : StOk st) (h0 : OrigHolds st.disk)
    (ob : Obj) (ha : actingObj cfg call st = some ob) (h : OnOriginalNP2 cfg ob) :
    OutputExists cfg (run cfg call st).1.disk := by
  have hok := acting_objOk cfg call st ob hs ha
  rw [run_acting cfg call st ob ha]
  obtain ⟨ho, hk | hk⟩ := h
  · rw [processObj_np24 cfg ob call _ ho hk (apFileExists_of_holds _ ob hok ho h0)]; simp only [OutputExists, hk]
    exact ⟨hn, fun i hi => process24_creates_output cfg ob call st.disk i hi⟩
  · rw [processObj_np21 cfg ob call _ ho hk (apFileExists_of_holds _ ob hok ho h0)]; simp only [OutputExists, hk]
    exact process21_creates_output cfg ob call st.disk

/-- **A repeated run without overwrite changes nothing on disk and returns 0**, whatever the first run was (any options,
completed, interrupted at any step, unfaithful split), whether it is repeated on the same object or on a new one. -/
theorem repeated_run_noop (cfg : Cfg) (hn : 0 < cfg.n) (first again : Call) (st : St) (hs : StOk st)
    (h0 : OrigHolds st.disk) (ob1 ob2 : Obj)
    (h1 : actingObj cfg first st = some ob1) (hn1 : OnOriginalNP2 cfg ob1)
    (h2 : actingObj cfg again (run cfg first st).1 = some ob2) (ho2 : ob2.onShank = false)
    (hw : again.overwrite = false) :
    (run cfg again (run cfg first st).1).1.disk = (run cfg first st).1.disk ∧
    (run cfg again (run cfg first st).1).2 = .ret 0 :=
  rerun_noop cfg again _ ob2 h2 ho2 (run_creates_output cfg hn first st hs h0 ob1 h1 hn1) hw

/-- **A forced re-run ends with a complete, valid set of per-shank files whether or not earlier output exists**: from
ANY consistent state with a readable original (no output, complete output, partial files of an interrupted run, stale
`.cbin`/`.cbin_tmp`, altered files …), `process(overwrite=True)` left alone by the environment -- on a new object or on
the same one -- returns 1 and every stream of every shank is complete (compressed or not, as requested); the original is
still readable unless this very run verified and deleted it.  (`htr`: an NP2.1 `.bin` that ends with a partial frame
cannot be compressed in place, see `np21_trailing_compress_counterexample`.) -/
theorem forced_rerun_completes (cfg : Cfg) (call : Call) (st : St) (ob : Obj) (hs : StOk st)
    (h0 : OrigHolds st.disk) (ha : actingObj cfg call st = some ob) (h : OnOriginalNP2 cfg ob)
    (htr : cfg.kind = .np21 → cfg.trailing = false) (hw : call.overwrite = true) (hf : NoFault cfg call) :
    (run cfg call st).2 = .ret 1 ∧ Complete cfg ob.opts.compress (run cfg call st).1.disk ∧
    (OrigHolds (run cfg call st).1.disk ∨
      (cfg.kind = .np24 ∧ ob.opts.postCheck = true ∧ ob.opts.deleteOriginal = true)) := by
  have hok := acting_objOk cfg call st ob hs ha
  rw [run_acting cfg call st ob ha]
  obtain ⟨ho, hk | hk⟩ := h
  · rw [processObj_np24 cfg ob call _ ho hk (apFileExists_of_holds _ ob hok ho h0)]
    have hae : alreadyExists24 cfg.n call.overwrite st.disk = false := (alreadyExists24_false_iff _ _ _).mpr (Or.inl hw)
    obtain ⟨a, b, c⟩ := process24_completes cfg ob call st.disk hae hf
    refine ⟨a, by simp only [Complete, hk]; exact b, ?_⟩
    rcases c with ⟨c1, c2⟩ | ⟨c1, c2⟩
    · exact Or.inl (origHolds_of_eq h0 c1 c2)
    · refine Or.inr ⟨hk, ?_, c2⟩
      cases hcc : ob.checkCompleted
      · simpa [hcc] using c1
      · exact hok.1 hcc
  · rw [processObj_np21 cfg ob call _ ho hk (apFileExists_of_holds _ ob hok ho h0)]
    have hl := (hok.2.1 ho (origReadable_ne_absent h0)).1
    obtain ⟨a, b, c⟩ := process21_completes cfg ob call st.disk h0 hl (htr hk) (Or.inr hw) hf.1
    exact ⟨a, by simp only [Complete, hk]; exact ⟨b, c⟩, Or.inl (process21_keeps cfg ob call _ h0)⟩

/-- **First run**: without earlier output, `process()` of a new object left alone by the environment completes in the
same sense. -/
theorem first_run_completes (cfg : Cfg) (call : Call) (st : St) (ob : Obj) (hr : call.reuse = false)
    (ha : actingObj cfg call st = some ob) (h : OnOriginalNP2 cfg ob) (htr : cfg.kind = .np21 → cfg.trailing = false)
    (hno : NoOutput cfg st.disk) (hf : NoFault cfg call) :
    (run cfg call st).2 = .ret 1 ∧ Complete cfg ob.opts.compress (run cfg call st).1.disk ∧
    (OrigHolds (run cfg call st).1.disk ∨
      (cfg.kind = .np24 ∧ ob.opts.postCheck = true ∧ ob.opts.deleteOriginal = true)) := by
  obtain ⟨_, _, hcc, hlink, _⟩ := construct_ok cfg call st.disk ob (acting_fresh cfg call st ob hr ha)
  rw [run_acting cfg call st ob ha]
  obtain ⟨ho, hk | hk⟩ := h
  · have h0 : OrigHolds st.disk := (hlink ho).1
    have he : apFileExists ob st.disk = true := by simp [apFileExists, (hlink ho).2]
    rw [processObj_np24 cfg ob call _ ho hk he]
    simp only [NoOutput, hk] at hno
    have hae : alreadyExists24 cfg.n call.overwrite st.disk = false := (alreadyExists24_false_iff _ _ _).mpr (Or.inr hno)
    obtain ⟨a, b, c⟩ := process24_completes cfg ob call st.disk hae hf
    refine ⟨a, by simp only [Complete, hk]; exact b, ?_⟩
    rcases c with ⟨c1, c2⟩ | ⟨c1, c2⟩
    · exact Or.inl (origHolds_of_eq h0 c1 c2)
    · exact Or.inr ⟨hk, by simpa [hcc] using c1, c2⟩
  · have h0 : OrigHolds st.disk := (hlink ho).1
    have he : apFileExists ob st.disk = true := by simp [apFileExists, (hlink ho).2]
    rw [processObj_np21 cfg ob call _ ho hk he]
    simp only [NoOutput, hk] at hno
    have hl : lfExists st.disk = false := by simp [lfExists, hno.1, hno.2]
    obtain ⟨a, b, c⟩ := process21_completes cfg ob call st.disk h0 (hlink ho).2 (htr hk) (Or.inl hl) hf.1
    exact ⟨a, by simp only [Complete, hk]; exact ⟨b, c⟩, Or.inl (process21_keeps cfg ob call _ h0)⟩

/-- **Run interrupted at any processing step and then retried with overwrite** -- on the same object or on a new one:
the retry completes. -/
theorem interrupted_then_forced_completes (cfg : Cfg) (first retry : Call) (st : St) (hs : StOk st)
    (h0 : OrigHolds st.disk) (e : Err) (h1 : (run cfg first st).2 = .raised e) (ob : Obj)
    (ha : actingObj cfg retry (run cfg first st).1 = some ob) (h : OnOriginalNP2 cfg ob)
    (htr : cfg.kind = .np21 → cfg.trailing = false) (hw : retry.overwrite = true) (hf : NoFault cfg retry) :
    (run cfg retry (run cfg first st).1).2 = .ret 1 ∧
    Complete cfg ob.opts.compress (run cfg retry (run cfg first st).1).1.disk :=
  let h2 := interrupted_run_keeps_original cfg first st h0 e h1
  let r := forced_rerun_completes cfg retry _ ob (run_stOk cfg first st hs) h2 ha h htr hw hf
  ⟨r.1, r.2.1⟩

/-- **Input that is not an NP2 probe, or is an already split shank**: status -1 resp. 0, nothing on disk changes --
for every option triple, with or without overwrite, on a new object or again on the same one. -/
theorem not_np2_or_split_untouched (cfg : Cfg) (call : Call) (st : St) (hs : StOk st) (ob : Obj)
    (ha : actingObj cfg call st = some ob) :
    (cfg.kind = .np1 → ob.onShank = false → OrigHolds st.disk →
      (run cfg call st).1.disk = st.disk ∧ (run cfg call st).2 = .ret (-1)) ∧
    (ob.onShank = true → (run cfg call st).1.disk = st.disk ∧ (run cfg call st).2 = .ret 0) := by
  have hok := acting_objOk cfg call st ob hs ha
  rw [run_acting cfg call st ob ha]
  refine ⟨fun hk ho h0 => ?_, fun ho => ?_⟩
  · rw [processObj_np1 cfg ob call _ ho hk (apFileExists_of_holds _ ob hok ho h0)]; exact ⟨rfl, rfl⟩
  · rw [processObj_onShank cfg ob call _ ho]; exact ⟨rfl, rfl⟩

/-- **Finding `np21-trailing-bytes-compress`** (the hypothesis `htr`).  An NP2.1 `.bin` with trailing bytes after its last complete
frame: the lf file and its metadata are written, then `compress_NP21` hands the original to mtscomp, which refuses the file
size with a ValueError; `process()` raises instead of returning 1 (the original is untouched, the output is not the
compressed set that was asked for).  For every configuration and window size. -/
theorem np21_trailing_compress_counterexample (cfg : Cfg) (hk : cfg.kind = .np21) (htr : cfg.trailing = true) (call : Call)
    (hr : call.reuse = false) (hs : call.onShank = false) (hc : call.opts.compress = true) (hi : call.interrupt = none)
    (hw : call.overwrite = true) :
    (run cfg call (St.start (fresh .bin))).2 = .raised .valueError ∧ OrigHolds (run cfg call (St.start (fresh .bin))).1.disk := by
  have ha : actingObj cfg call (St.start (fresh .bin)) =
      some { opts := call.opts, onShank := false, srForm := .bin, checkCompleted := false, alreadyExists := false } := by
    simp [actingObj, hr, construct, hs, St.start, fresh, origReadable, Except.toOption]
  have h1 : (run cfg call (St.start (fresh .bin))).2 = .raised .valueError := by
    rw [run_acting cfg call _ _ ha]
    simp [processObj, apFileExists, St.start, fresh, hk, process21, hw, hi, hc, origCompressFails, htr, lfExists, FileSet.empty]
  exact ⟨h1, interrupted_run_keeps_original cfg call _ rfl _ h1⟩

/-! ### Runs as effect sequences: interruption between ANY two effects (`Model/ConverterSteps.lean`)

`effectsObj cfg ob call s` is the list of atomic effects `process` of the object `ob` performs on the disk `s` when the
environment raises nowhere -- the expansion of the step order `steps24` / `steps21` that the translator tie
(`Tie/C04.lean`) proves equal to the order of the calls in the source text.  `applyEffs cfg call pre (s, ob)` is the state
after the effects `pre`, one after the other; an interruption between any two effects is a prefix `pre <+: effectsObj …`. -/

/-- **The history model IS this sequential semantics (uninterrupted runs), and the status is the total decision table
`statusObj`.**  `process` left alone by the environment -- any configuration, object, options, `overwrite`, unfaithful split
-- leaves exactly the state after ALL effects of `effectsObj`, applied in order, and returns `statusObj`: 0 when the object's
file is gone, 0 on an already split shank, -1 when the probe is not an NP2, 0 when `_prepare_files_*` found earlier output and
`overwrite` is false, else 1 -- or the error the run's own stopping effect raises (failed verification; mtscomp on an NP2.1
original with a trailing partial frame). -/
theorem uninterrupted_run_is_effect_list (cfg : Cfg) (hov : cfg.ov < cfg.w) (ob : Obj) (call : Call) (s : Disk)
    (hi : call.interrupt = none) :
    applyEffs cfg call (effectsObj cfg ob call s) (s, ob) = ((processObj cfg ob call s).1, (processObj cfg ob call s).2.1) ∧
    (processObj cfg ob call s).2.2 = statusObj cfg ob call s := by
  unfold effectsObj statusObj processObj
  cases he : apFileExists ob s
  · simp [dispatch, applyEffs_nil]
  cases ho : ob.onShank
  · cases hk : cfg.kind
    · simpa [dispatch] using process24_uninterrupted cfg hov ob call s hi
    · simpa [dispatch] using process21_uninterrupted cfg hov ob call s hi
    · simp [dispatch, applyEffs_nil]
  · cases hk : cfg.kind <;> simp [dispatch, applyEffs_nil]

/-- The status table spelled out for the branches that do not run the pipeline. -/
theorem status_table (cfg : Cfg) (ob : Obj) (call : Call) (s : Disk) :
    (apFileExists ob s = false → statusObj cfg ob call s = .ret 0) ∧
    (ob.onShank = true → statusObj cfg ob call s = .ret 0) ∧
    (apFileExists ob s = true → ob.onShank = false → cfg.kind = .np1 → statusObj cfg ob call s = .ret (-1)) ∧
    (apFileExists ob s = true → ob.onShank = false → cfg.kind = .np24 → alreadyExists24 cfg.n call.overwrite s = true →
      statusObj cfg ob call s = .ret 0) ∧
    (apFileExists ob s = true → ob.onShank = false → cfg.kind = .np21 → alreadyExists21 call.overwrite s = true →
      statusObj cfg ob call s = .ret 0) ∧
    (apFileExists ob s = true → ob.onShank = false → cfg.kind = .np24 → alreadyExists24 cfg.n call.overwrite s = false →
      (ob.opts.postCheck = true → splitDiffers cfg call = false) → statusObj cfg ob call s = .ret 1) ∧
    (apFileExists ob s = true → ob.onShank = false → cfg.kind = .np24 → alreadyExists24 cfg.n call.overwrite s = false →
      ob.opts.postCheck = true → splitDiffers cfg call = true → statusObj cfg ob call s = .raised .assertion) := by
  refine ⟨?_, ?_, ?_, ?_, ?_, ?_, ?_⟩
  · intro h; simp [statusObj, dispatch, h]
  · intro h; unfold statusObj; cases dispatch (apFileExists ob s) cfg.kind <;> simp [h]
  · intro h1 h2 h3; simp [statusObj, dispatch, h1, h2, h3]
  · intro h1 h2 h3 h4
    simp only [statusObj, dispatch, h1, h2, h3, Bool.not_true, Bool.false_eq_true, if_false]
    rw [effects24_eq]; simp [h4, finish, Eff.stops]
  · intro h1 h2 h3 h4
    simp only [statusObj, dispatch, h1, h2, h3, Bool.not_true, Bool.false_eq_true, if_false]
    rw [effects21_eq]; simp [h4, finish, Eff.stops]
  · intro h1 h2 h3 h4 h5
    simp only [statusObj, dispatch, h1, h2, h3, Bool.not_true, Bool.false_eq_true, if_false, h4]
    exact finish_effects24_ok cfg ob call s h4 h5
  · intro h1 h2 h3 h4 h5 h6
    simp only [statusObj, dispatch, h1, h2, h3, Bool.not_true, Bool.false_eq_true, if_false, h4]
    rw [effects24_eq]
    simp only [h4, Bool.false_eq_true, if_false, verify24, h5, h6, if_true]
    rw [show Eff.prepare :: (List.map Eff.split (List.range (2 * nproc cfg)) ++ (List.map Eff.md (List.range (2 * cfg.n)) ++
        (List.map Eff.read (List.range (verifyReads cfg call)) ++ [Eff.assertFail]))) =
        (Eff.prepare :: (List.map Eff.split (List.range (2 * nproc cfg)) ++ (List.map Eff.md (List.range (2 * cfg.n)) ++
        List.map Eff.read (List.range (verifyReads cfg call))))) ++ [Eff.assertFail] from by simp]
    rw [finish_stop _ _ _ rfl]; rfl

/-- **Every named interruption point is a prefix.**  Whatever interruption the history model injects into a call (the
`j`-th `_split2shanks` / `write_meta_data` / `Reader.read` of the verification / `compress_file` call, `delete_NP24`) and
however the call ends, the state it leaves is the state after some prefix of the run's effect list: the theorems below,
stated for ALL prefixes, contain every theorem about interrupted runs above as a special case.  (`htr`: mtscomp refuses an
NP2.1 original with a trailing partial frame before the `.cbin_tmp` that the point `compress 0` presupposes exists.) -/
theorem interrupted_run_is_prefix (cfg : Cfg) (hov : cfg.ov < cfg.w) (htr : cfg.kind = .np21 → cfg.trailing = false)
    (ob : Obj) (call : Call) (s : Disk) :
    ∃ pre, pre <+: effectsObj cfg ob call s ∧
      applyEffs cfg call pre (s, ob) = ((processObj cfg ob call s).1, (processObj cfg ob call s).2.1) := by
  unfold effectsObj processObj
  cases he : apFileExists ob s
  · exact ⟨[], by simp [dispatch], by simp [applyEffs_nil]⟩
  cases ho : ob.onShank
  · cases hk : cfg.kind
    · simpa [dispatch, Reach] using process24_reach cfg hov ob call s
    · simpa [dispatch, Reach] using process21_reach cfg hov (htr hk) ob call s
    · exact ⟨[], by simp [dispatch], by simp [applyEffs_nil]⟩
  · exact ⟨[], by cases cfg.kind <;> simp [dispatch], by simp [applyEffs_nil]⟩

/-- **Safety for an interruption between ANY two effects.**  After every prefix of the effects of `process` -- not only at
the named interruption points: also between the unlink of a stale `.cbin` and `compress_file`, between the publication of a
`.cbin` and the unlink of its `.bin`, between the end of the verification and the first compression … -- the original samples
are recoverable byte for byte (from the original's data file, or from the verified shank files once the guarded delete, the
LAST effect of a run, has removed it). -/
theorem prefix_recoverable (cfg : Cfg) (hn : 0 < cfg.n) (hov : cfg.ov < cfg.w) (ob : Obj) (call : Call) (s : Disk)
    (hok : ObjOk s ob) (h0 : Recoverable cfg s) (pre : List Eff) (hpre : pre <+: effectsObj cfg ob call s) :
    Recoverable cfg (applyEffs cfg call pre (s, ob)).1 := by
  unfold effectsObj at hpre
  have hnil : pre <+: [] → Recoverable cfg (applyEffs cfg call pre (s, ob)).1 := by
    intro h; rw [List.prefix_nil.mp h]; exact h0
  cases hd : dispatch (apFileExists ob s) cfg.kind <;> simp only [hd] at hpre
  · exact hnil hpre
  · -- NP2.4
    cases ho : ob.onShank
    case true => simp only [ho, if_true] at hpre; exact hnil hpre
    simp only [ho, Bool.false_eq_true, if_false] at hpre
    obtain ⟨he, hk⟩ := dispatch_np24 hd
    have hoh : OrigHolds s := (hok.2.1 ho ((apFileExists_iff _ ob hok ho).mp he)).2
    obtain ⟨A, hA, hE | ⟨hE, _⟩⟩ := effects24_split cfg ob call s
    · rw [hE] at hpre
      obtain ⟨t, rfl⟩ := hpre
      exact Or.inl (applyEffs_keeps_origHolds cfg call pre (fun e h => hA e (List.mem_append_left _ h)) _ hoh)
    · rw [hE] at hpre
      rcases List.prefix_concat_iff.mp hpre with hw | hp
      · -- the whole list: the uninterrupted run
        have hu := (process24_uninterrupted cfg hov ob { call with interrupt := none } s rfl).1
        rw [effects24_interrupt, applyEffs_interrupt, hE, ← hw] at hu
        rw [hu]
        rcases process24_orig cfg ob { call with interrupt := none } s hok.1 with ⟨a, b⟩ | ⟨_, _, hsd, _, _, e⟩
        · exact Or.inl (origHolds_of_eq hoh a b)
        · right
          refine ⟨hk, ((splitDiffers_false_iff cfg _).mp hsd).1, hn, fun i hi => ?_⟩
          obtain ⟨sh, a, b, _⟩ := e i hi
          exact ⟨sh, a, b.holds.1, b.holds.2⟩
      · obtain ⟨t, rfl⟩ := hp
        exact Or.inl (applyEffs_keeps_origHolds cfg call pre (fun e h => hA e (List.mem_append_left _ h)) _ hoh)
  · -- NP2.1
    cases ho : ob.onShank
    case true => simp only [ho, if_true] at hpre; exact hnil hpre
    simp only [ho, Bool.false_eq_true, if_false] at hpre
    obtain ⟨he, hk⟩ := dispatch_np21 hd
    have hoh : OrigHolds s := (hok.2.1 ho ((apFileExists_iff _ ob hok ho).mp he)).2
    obtain ⟨t, ht⟩ := hpre
    exact Or.inl (applyEffs_keeps_origHolds cfg call pre
      (fun e h => noDelete_effects21 cfg ob call s e (ht ▸ List.mem_append_left _ h)) _ hoh)
  · exact hnil hpre

/-- … over histories: after any sequence of calls (each completed or interrupted at a named point, on new objects or on the
same one) followed by a call interrupted between any two of its effects, the original is recoverable. -/
theorem original_recoverable_any_prefix (cfg : Cfg) (hn : 0 < cfg.n) (hov : cfg.ov < cfg.w) (st0 : St) (hs : StOk st0)
    (h0 : Recoverable cfg st0.disk) (calls : List Call) (last : Call) (ob : Obj)
    (ha : actingObj cfg last (runs cfg st0 calls) = some ob) (pre : List Eff)
    (hpre : pre <+: effectsObj cfg ob last (runs cfg st0 calls).disk) :
    Recoverable cfg (applyEffs cfg last pre ((runs cfg st0 calls).disk, ob)).1 :=
  prefix_recoverable cfg hn hov ob last _ (acting_objOk cfg last _ ob (runs_stOk cfg calls st0 hs) ha)
    (runs_recoverable cfg hn calls st0 hs h0) pre hpre

/-- **`delete_original` is only reachable after `check_completed`.**  If the original is readable before a run and is not
after some prefix of its effects, then that prefix is the WHOLE effect list of an NP2.4 run (the delete is its last effect),
the list contains this run's own `check_completed = True` before the delete, `post_check` and `delete_original` are set, every
shank of the probe was converted (no partial `nshank` selection), the split of this run is faithful for every shank, and every
shank folder holds a complete ap and lf stream with metadata. -/
theorem original_removed_only_after_check (cfg : Cfg) (hov : cfg.ov < cfg.w) (ob : Obj) (call : Call) (s : Disk)
    (hok : ObjOk s ob) (h0 : OrigHolds s) (pre : List Eff) (hpre : pre <+: effectsObj cfg ob call s)
    (h1 : ¬ OrigHolds (applyEffs cfg call pre (s, ob)).1) :
    pre = effectsObj cfg ob call s ∧ cfg.kind = .np24 ∧ ob.onShank = false ∧
    (∃ A, pre = A ++ [.delete] ∧ Eff.checked ∈ A ∧ ∀ e ∈ A, e ≠ .delete) ∧
    ob.opts.postCheck = true ∧ ob.opts.deleteOriginal = true ∧
    (cfg.partialSel = false ∧ ∀ i, i < cfg.n → altered cfg call i = false) ∧
    Complete cfg ob.opts.compress (applyEffs cfg call pre (s, ob)).1 := by
  have hnil : pre <+: [] → False := by
    intro h; rw [List.prefix_nil.mp h] at h1; exact h1 h0
  unfold effectsObj at hpre
  cases hd : dispatch (apFileExists ob s) cfg.kind <;> simp only [hd] at hpre
  · exact absurd hpre hnil
  · cases ho : ob.onShank
    case true => simp only [ho, if_true] at hpre; exact absurd hpre hnil
    simp only [ho, Bool.false_eq_true, if_false] at hpre
    obtain ⟨he, hk⟩ := dispatch_np24 hd
    have hEO : effectsObj cfg ob call s = effects24 cfg ob call s := by simp [effectsObj, hd, ho]
    obtain ⟨A, hA, hE | ⟨hE, hae, hdl, hchk⟩⟩ := effects24_split cfg ob call s
    · rw [hE] at hpre
      obtain ⟨t, rfl⟩ := hpre
      exact absurd (applyEffs_keeps_origHolds cfg call pre (fun e h => hA e (List.mem_append_left _ h)) _ h0) h1
    · rw [hE] at hpre
      rcases List.prefix_concat_iff.mp hpre with hw | hp
      · have hu := (process24_uninterrupted cfg hov ob { call with interrupt := none } s rfl).1
        rw [effects24_interrupt, applyEffs_interrupt, hE, ← hw] at hu
        rw [hu] at h1 ⊢
        rcases process24_orig cfg ob { call with interrupt := none } s hok.1 with ⟨a, b⟩ | ⟨hpc, _, hsd, _, _, e⟩
        · exact absurd (origHolds_of_eq h0 a b) h1
        · refine ⟨by rw [hEO, hE, hw], hk, rfl, ⟨A, hw, (hchk hpc).2, hA⟩, hpc, hdl,
            (splitDiffers_false_iff cfg _).mp hsd, ?_⟩
          simp only [Complete, hk]; exact e
      · obtain ⟨t, rfl⟩ := hp
        exact absurd (applyEffs_keeps_origHolds cfg call pre (fun e h => hA e (List.mem_append_left _ h)) _ h0) h1
  · cases ho : ob.onShank
    case true => simp only [ho, if_true] at hpre; exact absurd hpre hnil
    simp only [ho, Bool.false_eq_true, if_false] at hpre
    obtain ⟨t, ht⟩ := hpre
    exact absurd (applyEffs_keeps_origHolds cfg call pre
      (fun e h => noDelete_effects21 cfg ob call s e (ht ▸ List.mem_append_left _ h)) _ h0) h1
  · exact absurd hpre hnil

/-- **A run interrupted between ANY two effects, then retried with `overwrite=True`, ends in the complete state.**  From the
disk a genuinely interrupted run leaves (any strict prefix of its effects: partial files, half-compressed streams, stale
`.cbin` / `.cbin_tmp`, metadata of some shanks only …), `process(overwrite=True)` of a NEW converter object left alone by the
environment returns 1 and every stream of every shank is complete (compressed or not, as requested). -/
theorem rerun_after_any_prefix_completes (cfg : Cfg) (hov : cfg.ov < cfg.w) (hnp : cfg.kind = .np24 ∨ cfg.kind = .np21)
    (htr : cfg.kind = .np21 → cfg.trailing = false) (ob : Obj) (call : Call) (s : Disk) (hok : ObjOk s ob) (h0 : OrigHolds s)
    (pre : List Eff) (hpre : pre <+: effectsObj cfg ob call s) (hstrict : pre ≠ effectsObj cfg ob call s)
    (retry : Call) (hr : retry.reuse = false) (hsh : retry.onShank = false) (hw : retry.overwrite = true)
    (hf : NoFault cfg retry) :
    (run cfg retry ⟨(applyEffs cfg call pre (s, ob)).1, none⟩).2 = .ret 1 ∧
    Complete cfg retry.opts.compress (run cfg retry ⟨(applyEffs cfg call pre (s, ob)).1, none⟩).1.disk := by
  have hkeep : OrigHolds (applyEffs cfg call pre (s, ob)).1 := by
    by_cases hc : OrigHolds (applyEffs cfg call pre (s, ob)).1
    · exact hc
    · exact absurd (original_removed_only_after_check cfg hov ob call s hok h0 pre hpre hc).1 hstrict
  have ha : actingObj cfg retry ⟨(applyEffs cfg call pre (s, ob)).1, none⟩ =
      some { opts := retry.opts, onShank := false, srForm := (applyEffs cfg call pre (s, ob)).1.orig,
             checkCompleted := false, alreadyExists := false } := by
    have : origReadable (applyEffs cfg call pre (s, ob)).1 = true := hkeep
    simp [actingObj, hr, construct, hsh, this, Except.toOption]
  have r := forced_rerun_completes cfg retry ⟨(applyEffs cfg call pre (s, ob)).1, none⟩ _ (by intro ob' h; cases h) hkeep ha
    ⟨rfl, hnp⟩ htr hw hf
  exact ⟨r.1, r.2.1⟩

/-- **A partial shank selection never costs the original.**  With `init_params(nshank=[…])` naming a proper subset of the
probe's shanks, whatever the options, `overwrite`, interruption or alteration, on a new object or on the same one, over any
history: every call leaves the original's data file readable -- `check_NP24` cannot pass on a buffer that lacks the other
shanks' channels, so `check_completed` is never set and the guard of `delete_NP24` never opens. -/
theorem partial_selection_keeps_original (cfg : Cfg) (hp : cfg.partialSel = true) (st0 : St) (hs : StOk st0)
    (h0 : OrigHolds st0.disk) (calls : List Call) : OrigHolds (runs cfg st0 calls).disk := by
  induction calls generalizing st0 with
  | nil => exact h0
  | cons c cs ih =>
    refine ih _ (run_stOk cfg c st0 hs) ?_
    by_cases h1 : OrigHolds (run cfg c st0).1.disk
    · exact h1
    · obtain ⟨_, _, _, _, _, _, ⟨hps, _⟩, _⟩ := delete_requires_check cfg c st0 hs h0 h1
      rw [hp] at hps; cases hps

/-! ### Non-vacuity, and the counterexample of the known finding -/

/-- a two-shank NP2.4 recording of 2000 samples, windows of 1200 with overlap 576: 3 processing windows -/
def cfg24 : Cfg := { kind := .np24, n := 2, ns := 2000, w := 1200, ov := 576, c := 7 }
def cfg21 : Cfg := { cfg24 with kind := .np21, n := 1 }
def dflt (ow : Bool) : Call :=
  { opts := ⟨true, true, false⟩, overwrite := ow, interrupt := none, corrupt := none, onShank := false, reuse := false }
/-- verify, do not compress, delete the original -/
def deleting : Call := { dflt false with opts := ⟨true, false, true⟩ }
def start24 : St := St.start (fresh .bin)

example : nproc cfg24 = 3 ∧ nverif cfg24 = 2 := by
  simp [nproc, nverif, cfg24, Window.firstlast, Window.firstlastAux]

example : StOk start24 ∧ OrigHolds start24.disk ∧ Recoverable cfg24 start24.disk ∧ NoOutput cfg24 start24.disk ∧
    NoFault cfg24 (dflt false) := by
  refine ⟨by simp [StOk, start24, St.start], rfl, Or.inl rfl, ?_, ⟨rfl, rfl, ?_⟩⟩
  · intro i _; rfl
  · intro i _; simp [dflt, altered]

/-- The hypothesis "ALL expected folders exist" of `rerun_noop` cannot be weakened to "some folder exists" (finding
`partial-folders-rerun`): with folder `a` present and folder `b` missing, `process()` returns 0 ("nothing to do") and
nevertheless creates folder `b` with two empty files.  No history over the property's interruption points reaches
such a disk (`run_creates_output`: every run creates all folders before its first window). -/
theorem rerun_partial_folders_counterexample :
    (run cfg24 (dflt false) (St.start (freshWith .bin 1))).2 = .ret 0 ∧ (freshWith .bin 1).shanks 1 = none ∧
    (run cfg24 (dflt false) (St.start (freshWith .bin 1))).1.disk.shanks 1 = some ⟨openWb FileSet.empty, openWb FileSet.empty⟩ := by
  simp [run, construct, processObj, St.start, cfg24, dflt, process24, fresh, freshWith, origReadable, apFileExists, alreadyExists24,
    prepare24, onShanks, prepShank, List.range, List.range.loop]

/-- the deleting branch is reachable, and afterwards the same object does nothing even with overwrite: the verified run
removes the original and returns 1; `process(overwrite=True)` on the same object returns 0 and leaves the disk alone -/
example : (run cfg24 deleting start24).2 = .ret 1 ∧ (run cfg24 deleting start24).1.disk.orig = .absent ∧
    (run cfg24 { deleting with reuse := true, overwrite := true } (run cfg24 deleting start24).1).2 = .ret 0 ∧
    (run cfg24 { deleting with reuse := true, overwrite := true } (run cfg24 deleting start24).1).1.disk =
      (run cfg24 deleting start24).1.disk := by
  have e1 : (run cfg24 deleting start24).2 = .ret 1 ∧ (run cfg24 deleting start24).1.disk.orig = .absent ∧
      ∃ ob, (run cfg24 deleting start24).1.obj = some ob ∧ ob.onShank = false := by
    simp [run, construct, processObj, St.start, start24, cfg24, deleting, dflt, process24, fresh, origReadable,
      apFileExists, alreadyExists24, stopAt, splitDiffers, altered, verifyReads, List.range, List.range.loop]
  obtain ⟨a, b, ob, c, d⟩ := e1
  have hs : StOk (run cfg24 deleting start24).1 := run_stOk _ _ _ (by simp [StOk, start24, St.start])
  have r := rerun_after_delete_noop cfg24 { deleting with reuse := true, overwrite := true } _ hs ob
    (by simp [actingObj, c]) d b
  exact ⟨a, b, r.2, r.1⟩

/-- an interruption that fires: the 4th `_split2shanks` call of a first run raises, partial files remain -/
example : (run cfg24 { dflt false with interrupt := some (.split 3) } start24).2 = .raised .injected := by
  simp [run, construct, processObj, start24, St.start, cfg24, dflt, process24, fresh, origReadable, apFileExists, alreadyExists24,
    stopAt, Point.splitIdx, nproc, Window.firstlast, Window.firstlastAux]

/-- the unfaithful split is caught by the verification in whichever window the altered sample lies: here shank 1, a
row of the FIRST processing and FIRST verification window (the run spans 3 processing and 2 verification windows) -/
example : (run cfg24 { dflt false with corrupt := some ⟨1, 0, 0⟩ } start24).2 = .raised .assertion := by
  simp [run, construct, processObj, start24, St.start, cfg24, dflt, process24, fresh, origReadable, apFileExists, alreadyExists24,
    stopAt, splitDiffers, altered, verifyReads, nproc, Window.firstlast, Window.firstlastAux, List.range,
    List.range.loop]

/-- … and the `assert` of that first window comes before the reads of the second one: an exception injected at read 3
(the first read of verification window 1) is never reached, one at read 2 is -/
example : (run cfg24 { dflt false with corrupt := some ⟨1, 0, 0⟩, interrupt := some (.verify 3) } start24).2 = .raised .assertion ∧
    (run cfg24 { dflt false with corrupt := some ⟨1, 0, 0⟩, interrupt := some (.verify 2) } start24).2 = .raised .injected := by
  constructor <;>
  simp [run, construct, processObj, start24, St.start, cfg24, dflt, process24, fresh, origReadable, apFileExists, alreadyExists24,
    stopAt, splitDiffers, altered, verifyReads, nproc, nverif, Window.firstlast, Window.firstlastAux,
    List.range, List.range.loop, Point.splitIdx, Point.metaIdx, Point.verifyIdx, Point.compressIdx]

/-- the same object called three times: process() → 1, process() → 0, process(overwrite=True) → 1 -/
example : (run cfg24 (dflt false) start24).2 = .ret 1 ∧
    (run cfg24 { dflt false with reuse := true } (run cfg24 (dflt false) start24).1).2 = .ret 0 ∧
    (run cfg24 { dflt true with reuse := true }
      (run cfg24 { dflt false with reuse := true } (run cfg24 (dflt false) start24).1).1).2 = .ret 1 := by
  simp [run, construct, processObj, start24, St.start, cfg24, dflt, process24, fresh, origReadable, apFileExists, alreadyExists24,
    stopAt, splitDiffers, altered, verifyReads, List.range, List.range.loop, prepare24, onShanks, prepShank,
    windows24, metas24, compress24]

/-! ### non-vacuity of the effect-sequence theorems -/

/-- the object `NP2Converter(ap_file, post_check=True, compress=True, delete_original=False)` builds on the fresh disk -/
def ob0 : Obj := { opts := ⟨true, true, false⟩, onShank := false, srForm := .bin, checkCompleted := false, alreadyExists := false }
/-- … with `post_check=True, compress=False, delete_original=True` -/
def obD : Obj := { ob0 with opts := ⟨true, false, true⟩ }

example : cfg24.ov < cfg24.w ∧ 0 < cfg24.n ∧ ObjOk (fresh .bin) ob0 ∧ ObjOk (fresh .bin) obD ∧ OrigHolds (fresh .bin) ∧
    NoFault cfg24 (dflt true) := by
  refine ⟨by decide, by decide, ?_, ?_, rfl, rfl, rfl, ?_⟩
  · simp [ObjOk, ob0, fresh, origReadable]
  · simp [ObjOk, obD, ob0, fresh, origReadable]
  · intro i _; simp [dflt, altered]

/-- the run of the default object on the fresh two-shank recording: 1 + 6 + 4 + (6 + 1) + 16 = 34 effects; `[prepare]` and
"everything up to the publication of the first `.cbin`" are strict prefixes (the second one is not a named interruption point) -/
example : (effectsObj cfg24 ob0 (dflt false) (fresh .bin)).length = 34 ∧
    [Eff.prepare] <+: effectsObj cfg24 ob0 (dflt false) (fresh .bin) ∧
    (effectsObj cfg24 ob0 (dflt false) (fresh .bin)).take 21 <+: effectsObj cfg24 ob0 (dflt false) (fresh .bin) ∧
    ((effectsObj cfg24 ob0 (dflt false) (fresh .bin)).take 21).getLast? = some (Eff.publish (.shankAp 0)) := by
  have h : effectsObj cfg24 ob0 (dflt false) (fresh .bin) = effects24 cfg24 ob0 (dflt false) (fresh .bin) := by
    simp [effectsObj, dispatch, apFileExists, fresh, cfg24, ob0]
  have hn : nproc cfg24 = 3 := by simp [nproc, cfg24, Window.firstlast, Window.firstlastAux]
  have hv : verifyReads cfg24 (dflt false) = 6 := by
    simp [verifyReads, dflt, nverif, cfg24, Window.firstlast, Window.firstlastAux]
  have hae : alreadyExists24 2 (dflt false).overwrite (fresh .bin) = false := by
    simp [alreadyExists24, fresh, dflt]
  have hsd : splitDiffers cfg24 (dflt false) = false := by simp [splitDiffers, altered, dflt, cfg24]
  have hn2 : cfg24.n = 2 := rfl
  have hl : effects24 cfg24 ob0 (dflt false) (fresh .bin) =
      Eff.prepare :: ((List.range 6).map Eff.split ++ ((List.range 4).map Eff.md ++ ((List.range 6).map Eff.read ++
        (Eff.checked :: (List.range 2).flatMap compShank)))) := by
    rw [effects24_eq]
    simp only [hae, hn, hv, hsd, hn2, verify24, tail24, ob0, Bool.false_eq_true, if_false, if_true, List.append_nil]
  rw [h, hl]
  decide

/-- the verified deleting run: its whole effect list removes the original (and only the whole list does) -/
example : ¬ OrigHolds (applyEffs cfg24 deleting (effectsObj cfg24 obD deleting (fresh .bin)) (fresh .bin, obD)).1 := by
  rw [(uninterrupted_run_is_effect_list cfg24 (by decide) obD deleting (fresh .bin) rfl).1]
  simp [processObj, obD, ob0, cfg24, deleting, dflt, process24, fresh, origReadable, OrigHolds,
    apFileExists, alreadyExists24, stopAt, splitDiffers, altered, verifyReads, List.range, List.range.loop]

/-- with post_check the verification of a partial selection fails (status: the AssertionError of `check_NP24`), in the first
verification window, after one read of the original and one per selected shank -/
def cfgP : Cfg := { cfg24 with n := 1, partialSel := true }
example : (run cfgP deleting start24).2 = .raised .assertion ∧ verifyReads cfgP deleting = 2 ∧
    (run cfgP deleting start24).1.disk.orig = .bin := by
  simp [cfgP, run, construct, processObj, St.start, start24, cfg24, deleting, dflt, process24, fresh, origReadable,
    apFileExists, alreadyExists24, stopAt, splitDiffers, altered, verifyReads, nverif, Window.firstlast,
    Window.firstlastAux, List.range, List.range.loop]
  rfl

end IblVerif.C04
