/-
C04 — Conversion never loses the original and is idempotent over run histories.

Property theorems only (the model is `Model/Converter.lean`, the predicates are in `Lemmas/ConverterSpec.lean`, the
helper lemmas in `Lemmas/Converter.lean`).  Quantifier of every statement: ALL configurations `cfg` (probe kind,
any number of shanks `n ≥ 1`, any `ns`, window, overlap), ALL calls (the three constructor options, `overwrite`, an
interruption at ANY call index of any of the five steps or none, an unfaithful split of any shank or none, a call
on an already split shank file) and -- for the invariant -- ALL histories, of any length, from ANY disk on which
the original is recoverable (so every intermediate disk of a history is covered: each prefix is a history).
-/
import IblVerif.Lemmas.Converter

namespace IblVerif.C04
open IblVerif.Converter

/-- **Safety invariant.**  Across every sequence of conversion runs the original samples stay recoverable byte for
byte: from the original's own data file (`.bin`, or `.cbin` + `.ch`), or -- once an NP2.4 run has removed it --
from the ap files and metadata of all shank folders, each bit-identical (`good cfg.c`) to its columns. -/
theorem original_recoverable (cfg : Cfg) (hn : 0 < cfg.n) (s0 : Disk) (h0 : Recoverable cfg s0)
    (calls : List Call) : Recoverable cfg (runs cfg s0 calls) :=
  runs_recoverable cfg hn calls s0 h0

/-- **The original is removed only after the split output has been verified bit-identical.**  If one call makes the
original's data file unreadable/absent, then it was an NP2.4 run on the original with `post_check` and
`delete_original` set, the split was faithful for every shank (so `check_NP24` compared equal), the run returned 1, and
every shank folder holds a complete ap and lf stream (compressed or not, as requested) with metadata. -/
theorem delete_requires_check (cfg : Cfg) (call : Call) (s : Disk)
    (h0 : OrigHolds s) (h1 : ¬ OrigHolds (run cfg call s).1) :
    cfg.kind = .np24 ∧ call.onShank = false ∧
    call.opts.postCheck = true ∧ call.opts.deleteOriginal = true ∧
    (∀ i, i < cfg.n → altered cfg call i = false) ∧
    (run cfg call s).2 = .ret 1 ∧ Complete cfg call.opts.compress (run cfg call s).1 := by
  cases hs : call.onShank
  case true => rw [run_onShank_state cfg call s hs] at h1; exact absurd h0 h1
  cases hk : cfg.kind
  · rw [run_np24 cfg call s hk hs] at h1 ⊢
    obtain ⟨a, b, c, d, e⟩ := process24_delete cfg call s h0 h1
    refine ⟨rfl, rfl, a, b, c, d, ?_⟩
    simp only [Complete, hk]; exact e
  · rw [run_np21 cfg call s hk hs] at h1
    exact absurd (process21_keeps cfg call s h0) h1
  · rw [run_np1_state cfg call s hk] at h1; exact absurd h0 h1

/-- **Single-shank probes: the `.bin` is removed only after it has been losslessly compressed in place.**  An NP2.1
run changes the original's data file in one way only: `.bin` → published `.cbin` together with its `.ch` (mtscomp
checks the round trip before `compress_file` renames the temporary file), and only with `compress` set; the options
`post_check` / `delete_original` have no effect on this path. -/
theorem np21_compressed_in_place (cfg : Cfg) (hk : cfg.kind = .np21) (call : Call) (s : Disk)
    (h : (run cfg call s).1.orig ≠ s.orig) :
    s.orig = .bin ∧ (run cfg call s).1.orig = .cbin ∧ (run cfg call s).1.och = true ∧ call.opts.compress = true := by
  cases hs : call.onShank
  case true => rw [run_onShank_state cfg call s hs] at h; exact absurd rfl h
  rw [run_np21 cfg call s hk hs] at h ⊢
  exact process21_orig_change cfg call s h

/-- **An interrupted run keeps the original.**  Whatever exception ends a call (the environment's, at any point, or
the failed verification), the original's data file is still readable afterwards (for NP2.1 possibly as the `.cbin`
that replaced the `.bin` after a complete, checked compression). -/
theorem interrupted_run_keeps_original (cfg : Cfg) (call : Call) (s : Disk) (h0 : OrigHolds s) (e : Err)
    (h1 : (run cfg call s).2 = .raised e) : OrigHolds (run cfg call s).1 := by
  cases hs : call.onShank
  case true => rw [run_onShank_state cfg call s hs]; exact h0
  cases hk : cfg.kind
  · rw [run_np24 cfg call s hk hs] at h1 ⊢; exact process24_raised cfg call s h0 e h1
  · rw [run_np21 cfg call s hk hs]; exact process21_keeps cfg call s h0
  · rw [run_np1_state cfg call s hk]; exact h0

/-- **A run without overwrite on existing output changes nothing and reports that it did nothing.**  For every
option triple and whatever interruption or unfaithfulness the environment has prepared. -/
theorem rerun_noop (cfg : Cfg) (call : Call) (s : Disk) (h0 : OrigHolds s) (he : OutputExists cfg s)
    (hs : call.onShank = false) (hw : call.overwrite = false) : run cfg call s = (s, .ret 0) := by
  cases hk : cfg.kind
  · rw [run_np24 cfg call s hk hs]
    simp only [OutputExists, hk] at he
    exact process24_rerun_noop cfg call s h0 he.1 he.2 hw
  · rw [run_np21 cfg call s hk hs]
    simp only [OutputExists, hk] at he
    exact process21_rerun_noop cfg call s h0 he hw
  · simp [OutputExists, hk] at he

/-- Every run on the original of an NP2 probe -- completed or interrupted anywhere -- leaves output behind (all
expected shank folders; the lf file), so that the next run without overwrite is a repeated run. -/
theorem run_creates_output (cfg : Cfg) (hn : 0 < cfg.n) (call : Call) (s : Disk) (h0 : OrigHolds s)
    (h : OnOriginalNP2 cfg call) : OutputExists cfg (run cfg call s).1 := by
  obtain ⟨hs, hk | hk⟩ := h
  · rw [run_np24 cfg call s hk hs]; simp only [OutputExists, hk]
    exact ⟨hn, fun i hi => process24_creates_output cfg call s h0 i hi⟩
  · rw [run_np21 cfg call s hk hs]; simp only [OutputExists, hk]
    exact process21_creates_output cfg call s h0

/-- **A repeated run without overwrite changes nothing on disk and returns 0**, whatever the first run was (any
options, completed, interrupted at any step, unfaithful split), as long as the original is still there. -/
theorem repeated_run_noop (cfg : Cfg) (hn : 0 < cfg.n) (first again : Call) (s : Disk) (h0 : OrigHolds s)
    (h1 : OnOriginalNP2 cfg first) (h2 : OrigHolds (run cfg first s).1)
    (hs : again.onShank = false) (hw : again.overwrite = false) :
    run cfg again (run cfg first s).1 = ((run cfg first s).1, .ret 0) :=
  rerun_noop cfg again _ h2 (run_creates_output cfg hn first s h0 h1) hs hw

/-- **A forced re-run ends with a complete, valid set of per-shank files whether or not earlier output exists**: from
ANY disk `s` with a readable original (no output, complete output, partial files of an interrupted run, stale
`.cbin`/`.cbin_tmp`, altered files …), `process(overwrite=True)` left alone by the environment returns 1 and every
stream of every shank is complete (compressed or not, as requested); the original is still readable unless this
very run verified and deleted it. -/
theorem forced_rerun_completes (cfg : Cfg) (call : Call) (s : Disk) (h0 : OrigHolds s)
    (h : OnOriginalNP2 cfg call) (hw : call.overwrite = true) (hf : NoFault cfg call) :
    (run cfg call s).2 = .ret 1 ∧ Complete cfg call.opts.compress (run cfg call s).1 ∧
    (OrigHolds (run cfg call s).1 ∨
      (cfg.kind = .np24 ∧ call.opts.postCheck = true ∧ call.opts.deleteOriginal = true)) := by
  obtain ⟨hs, hk | hk⟩ := h
  · rw [run_np24 cfg call s hk hs]
    have hae : alreadyExists24 cfg.n call.overwrite s = false := (alreadyExists24_false_iff _ _ _).mpr (Or.inl hw)
    obtain ⟨a, b, c⟩ := process24_completes cfg call s h0 hae hf
    refine ⟨a, by simp only [Complete, hk]; exact b, c.imp id fun c => ⟨hk, c⟩⟩
  · rw [run_np21 cfg call s hk hs]
    obtain ⟨a, b, c⟩ := process21_completes cfg call s h0 (Or.inr hw) hf.1
    exact ⟨a, by simp only [Complete, hk]; exact ⟨b, c⟩, Or.inl (process21_keeps cfg call s h0)⟩

/-- **First run**: without earlier output, `process()` left alone by the environment completes in the same sense. -/
theorem first_run_completes (cfg : Cfg) (call : Call) (s : Disk) (h0 : OrigHolds s)
    (h : OnOriginalNP2 cfg call) (hno : NoOutput cfg s) (hf : NoFault cfg call) :
    (run cfg call s).2 = .ret 1 ∧ Complete cfg call.opts.compress (run cfg call s).1 ∧
    (OrigHolds (run cfg call s).1 ∨
      (cfg.kind = .np24 ∧ call.opts.postCheck = true ∧ call.opts.deleteOriginal = true)) := by
  obtain ⟨hs, hk | hk⟩ := h
  · rw [run_np24 cfg call s hk hs]
    simp only [NoOutput, hk] at hno
    have hae : alreadyExists24 cfg.n call.overwrite s = false := (alreadyExists24_false_iff _ _ _).mpr (Or.inr hno)
    obtain ⟨a, b, c⟩ := process24_completes cfg call s h0 hae hf
    refine ⟨a, by simp only [Complete, hk]; exact b, c.imp id fun c => ⟨hk, c⟩⟩
  · rw [run_np21 cfg call s hk hs]
    simp only [NoOutput, hk] at hno
    have hl : lfExists s = false := by simp [lfExists, hno.1, hno.2]
    obtain ⟨a, b, c⟩ := process21_completes cfg call s h0 (Or.inl hl) hf.1
    exact ⟨a, by simp only [Complete, hk]; exact ⟨b, c⟩, Or.inl (process21_keeps cfg call s h0)⟩

/-- **Run interrupted at any processing step and then retried with overwrite**: the retry completes. -/
theorem interrupted_then_forced_completes (cfg : Cfg) (first retry : Call) (s : Disk) (h0 : OrigHolds s) (e : Err)
    (h1 : (run cfg first s).2 = .raised e)
    (h : OnOriginalNP2 cfg retry) (hw : retry.overwrite = true) (hf : NoFault cfg retry) :
    (run cfg retry (run cfg first s).1).2 = .ret 1 ∧
    Complete cfg retry.opts.compress (run cfg retry (run cfg first s).1).1 :=
  let h2 := interrupted_run_keeps_original cfg first s h0 e h1
  ⟨(forced_rerun_completes cfg retry _ h2 h hw hf).1, (forced_rerun_completes cfg retry _ h2 h hw hf).2.1⟩

/-- **Input that is not an NP2 probe, or is an already split shank**: status -1 resp. 0, nothing on disk changes --
for every option triple, with or without overwrite. -/
theorem not_np2_or_split_untouched (cfg : Cfg) (call : Call) (s : Disk) :
    (cfg.kind = .np1 → call.onShank = false → OrigHolds s → run cfg call s = (s, .ret (-1))) ∧
    (cfg.kind = .np24 → call.onShank = true → targetComplete s = true → run cfg call s = (s, .ret 0)) := by
  refine ⟨fun hk hs h0 => ?_, fun hk hs ht => ?_⟩
  · have h0' : origReadable s = true := h0
    simp [run, hk, hs, h0']
  · simp [run, hk, hs, ht]

/-! ### Non-vacuity: the hypotheses are satisfiable and the interesting branches are taken -/

/-- a two-shank NP2.4 recording of 2000 samples, windows of 1200 with overlap 576: 3 processing windows -/
def cfg24 : Cfg := { kind := .np24, n := 2, ns := 2000, w := 1200, ov := 576, c := 7 }
def cfg21 : Cfg := { cfg24 with kind := .np21, n := 1 }
def dflt (ow : Bool) : Call := { opts := ⟨true, true, false⟩, overwrite := ow, interrupt := none, corrupt := none, onShank := false }
def deleting : Call := { dflt true with opts := ⟨true, true, true⟩ }

/-- The hypothesis "ALL expected folders exist" of `rerun_noop` cannot be weakened to "some folder exists" (finding
`partial-folders-rerun`): with folder `a` present and folder `b` missing, `process()` returns 0 ("nothing to do") and
nevertheless creates folder `b` with two empty files.  No history over the property's interruption points reaches
such a disk (`run_creates_output`: every run creates all folders before its first window). -/
theorem rerun_partial_folders_counterexample :
    (run cfg24 (dflt false) (freshWith .bin 1)).2 = .ret 0 ∧ (freshWith .bin 1).shanks 1 = none ∧
    (run cfg24 (dflt false) (freshWith .bin 1)).1.shanks 1 = some ⟨openWb FileSet.empty, openWb FileSet.empty⟩ := by
  simp [run, cfg24, dflt, process24, fresh, freshWith, origReadable, alreadyExists24, prepare24, onShanks, prepShank,
    List.range, List.range.loop]

example : nproc cfg24 = 3 ∧ nverif cfg24 = 2 := by
  simp [nproc, nverif, cfg24, Window.firstlast, Window.firstlastAux]

example : OrigHolds (fresh .bin) ∧ Recoverable cfg24 (fresh .bin) ∧ NoOutput cfg24 (fresh .bin) ∧
    NoFault cfg24 (dflt false) ∧ OnOriginalNP2 cfg24 (dflt false) := by
  refine ⟨rfl, Or.inl rfl, ?_, ⟨rfl, ?_⟩, ⟨rfl, Or.inl rfl⟩⟩
  · intro i _; rfl
  · intro i _; simp [dflt, altered]

/-- the deleting branch is reachable: a verified forced run removes the original and returns 1 -/
example : (run cfg24 deleting (fresh .bin)).2 = .ret 1 ∧ ¬ OrigHolds (run cfg24 deleting (fresh .bin)).1 := by
  have h := forced_rerun_completes cfg24 deleting (fresh .bin) rfl ⟨rfl, Or.inl rfl⟩ rfl ⟨rfl, by intro i _; simp [deleting, dflt, altered]⟩
  refine ⟨h.1, ?_⟩
  have e := process24_exit cfg24 deleting (fresh .bin)
  rw [← run_np24 cfg24 deleting (fresh .bin) rfl rfl] at e
  generalize run cfg24 deleting (fresh .bin) = r at e h
  cases e <;> simp_all [OrigHolds, origReadable, deleting, dflt, fresh, cfg24, stopAt, splitDiffers]

/-- an interruption that fires: the 4th `_split2shanks` call of a first run raises, partial files remain -/
example : (run cfg24 { dflt false with interrupt := some (.split 3) } (fresh .bin)).2 = .raised .injected := by
  simp [run, cfg24, dflt, process24, fresh, origReadable, alreadyExists24, stopAt, Point.splitIdx, nproc,
    Window.firstlast, Window.firstlastAux]

/-- the unfaithful split is caught by the verification in whichever window the altered sample lies: here shank 1, a
row of the FIRST processing and FIRST verification window (the run spans 3 processing and 2 verification windows) -/
example : (run cfg24 { dflt false with corrupt := some ⟨1, 0, 0⟩ } (fresh .bin)).2 = .raised .assertion := by
  simp [run, cfg24, dflt, process24, fresh, origReadable, alreadyExists24, stopAt, splitDiffers, altered, verifyReads,
    nproc, Window.firstlast, Window.firstlastAux, List.range, List.range.loop]

/-- … and the `assert` of that first window comes before the reads of the second one: an exception injected at read 3
(the first read of verification window 1) is never reached, one at read 2 is -/
example : (run cfg24 { dflt false with corrupt := some ⟨1, 0, 0⟩, interrupt := some (.verify 3) } (fresh .bin)).2 = .raised .assertion ∧
    (run cfg24 { dflt false with corrupt := some ⟨1, 0, 0⟩, interrupt := some (.verify 2) } (fresh .bin)).2 = .raised .injected := by
  constructor <;>
  simp [run, cfg24, dflt, process24, fresh, origReadable, alreadyExists24, stopAt, splitDiffers, altered, verifyReads,
    nproc, nverif, Window.firstlast, Window.firstlastAux, List.range, List.range.loop, Point.splitIdx, Point.metaIdx,
    Point.verifyIdx, Point.compressIdx]

/-- NP2.1: compression in place replaces the `.bin` by the `.cbin` -/
example : (run cfg21 (dflt false) (fresh .bin)).1.orig = .cbin ∧ (run cfg21 (dflt false) (fresh .bin)).2 = .ret 1 := by
  have h := first_run_completes cfg21 (dflt false) (fresh .bin) rfl ⟨rfl, Or.inr rfl⟩ ⟨rfl, rfl⟩ ⟨rfl, by intro i _; simp [dflt, altered]⟩
  exact ⟨(h.2.1.2 rfl).1, h.1⟩

end IblVerif.C04
