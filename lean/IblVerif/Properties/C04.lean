/-
C04 — Conversion never loses the original and is idempotent over run histories.

Property theorems only (the model is `Model/Converter.lean`, the predicates are in `Lemmas/ConverterSpec.lean`, the
helper lemmas in `Lemmas/Converter.lean`).  A history is a list of calls from a state `st = ⟨disk, live converter object⟩`;
each call either builds a new `NP2Converter` (any option triple; on the original or on an already split shank file) and
calls `process`, or (`reuse`) calls `process` once more on the object of the previous step, whose fields persist.
Quantifier of every statement: ALL configurations `cfg` (probe kind, any number of shanks `n ≥ 1`, any `ns`, window,
overlap), ALL calls (options, `overwrite`, new or same object, an interruption at ANY call index of any of the five steps
or none, an altered sample in any shank / window or none) and -- for the invariant -- ALL histories of any length from ANY
consistent state in which the original is recoverable (every intermediate state is covered: each prefix is a history).
`actingObj cfg call st = some ob` names the object whose `process` the call runs (the new one, or the kept one).
`StOk st`: the live object, if any, is consistent with the disk (an invariant of `run`, true of every start state).
-/
import IblVerif.Lemmas.Converter

namespace IblVerif.C04
open IblVerif.Converter

/-- **Safety invariant.**  Across every sequence of conversion runs -- on new objects and on the same object, in any
mix -- the original samples stay recoverable byte for byte: from the original's own data file (`.bin`, or `.cbin` + `.ch`),
or -- once an NP2.4 run has removed it -- from the ap files and metadata of all shank folders, each bit-identical
(`good cfg.c`) to its columns. -/
theorem original_recoverable (cfg : Cfg) (hn : 0 < cfg.n) (st0 : St) (hs : StOk st0)
    (h0 : Recoverable cfg st0.disk) (calls : List Call) :
    Recoverable cfg (runs cfg st0 calls).disk :=
  runs_recoverable cfg hn calls st0 hs h0

/-- **The original is removed only after the split output has been verified bit-identical.**  If one call (new or same
object) makes the original's data file unreadable/absent, then it was an NP2.4 run on the original by an object with
`post_check` and `delete_original`, the split of THIS run was faithful for every shank (so this run's `check_NP24`
compared equal in every window), the run returned 1, and every shank folder holds a complete ap and lf stream (compressed
or not, as requested) with metadata.  A `check_completed` left over from an earlier call of the same object never suffices. -/
theorem delete_requires_check (cfg : Cfg) (call : Call) (st : St) (hs : StOk st)
    (h0 : OrigHolds st.disk) (h1 : ¬ OrigHolds (run cfg call st).1.disk) :
    ∃ ob, actingObj cfg call st = some ob ∧ cfg.kind = .np24 ∧ ob.onShank = false ∧
      ob.opts.postCheck = true ∧ ob.opts.deleteOriginal = true ∧
      (∀ i, i < cfg.n → altered cfg call i = false) ∧
      (run cfg call st).2 = .ret 1 ∧ Complete cfg ob.opts.compress (run cfg call st).1.disk := by
  cases ha : actingObj cfg call st with
  | none => rw [(run_noacting cfg call st ha).1] at h1; exact absurd h0 h1
  | some ob =>
    have hok := acting_objOk cfg call st ob hs ha
    rw [run_acting cfg call st ob ha] at h1 ⊢
    cases ho : ob.onShank
    case true => rw [processObj_onShank cfg ob call _ ho] at h1; exact absurd h0 h1
    have he := apFileExists_of_holds _ ob hok ho h0
    cases hk : cfg.kind
    · rw [processObj_np24 cfg ob call _ ho hk he] at h1 ⊢
      rcases process24_orig cfg ob call st.disk hok.1 with ⟨a, b⟩ | ⟨a, b, c, d, _, e⟩
      · exact absurd (origHolds_of_eq h0 a b) h1
      · exact ⟨ob, rfl, rfl, ho, a, b, (splitDiffers_false_iff cfg call).mp c, d, by simp only [Complete, hk]; exact e⟩
    · rw [processObj_np21 cfg ob call _ ho hk he] at h1
      exact absurd (process21_keeps cfg ob call _ h0) h1
    · rw [processObj_np1 cfg ob call _ ho hk he] at h1; exact absurd h0 h1

/-- **Single-shank probes: the `.bin` is removed only after it has been losslessly compressed in place.**  An NP2.1
run changes the original's data file in one way only: `.bin` → published `.cbin` together with its `.ch` (mtscomp
checks the round trip before `compress_file` renames the temporary file), and only with `compress` set. -/
theorem np21_compressed_in_place (cfg : Cfg) (hk : cfg.kind = .np21) (call : Call) (st : St) (hs : StOk st)
    (h : (run cfg call st).1.disk.orig ≠ st.disk.orig) :
    st.disk.orig = .bin ∧ (run cfg call st).1.disk.orig = .cbin ∧ (run cfg call st).1.disk.och = true ∧
    ∃ ob, actingObj cfg call st = some ob ∧ ob.opts.compress = true := by
  cases ha : actingObj cfg call st with
  | none => rw [(run_noacting cfg call st ha).1] at h; exact absurd rfl h
  | some ob =>
    have hok := acting_objOk cfg call st ob hs ha
    rw [run_acting cfg call st ob ha] at h ⊢
    cases he : apFileExists ob st.disk
    case false => rw [processObj_missing cfg ob call _ he] at h; exact absurd rfl h
    cases ho : ob.onShank
    case true => rw [processObj_onShank cfg ob call _ ho] at h; exact absurd rfl h
    rw [processObj_np21 cfg ob call _ ho hk he] at h ⊢
    have hl := (hok.2.1 ho ((apFileExists_iff _ ob hok ho).mp he)).1
    obtain ⟨a, b, c, d⟩ := process21_orig_change cfg ob call st.disk hl h
    exact ⟨a, b, c, ob, rfl, d⟩

/-- **An interrupted run keeps the original.**  Whatever exception ends a call (the environment's, at any point, or the
failed verification), the original's data file is still readable afterwards (for NP2.1 possibly as the `.cbin` that
replaced the `.bin` after a complete, checked compression). -/
theorem interrupted_run_keeps_original (cfg : Cfg) (call : Call) (st : St) (h0 : OrigHolds st.disk) (e : Err)
    (h1 : (run cfg call st).2 = .raised e) : OrigHolds (run cfg call st).1.disk := by
  cases ha : actingObj cfg call st with
  | none => rw [(run_noacting cfg call st ha).1]; exact h0
  | some ob =>
    rw [run_acting cfg call st ob ha] at h1 ⊢
    cases he : apFileExists ob st.disk
    case false => rw [processObj_missing cfg ob call _ he]; exact h0
    cases ho : ob.onShank
    case true => rw [processObj_onShank cfg ob call _ ho]; exact h0
    cases hk : cfg.kind
    · rw [processObj_np24 cfg ob call _ ho hk he] at h1 ⊢
      obtain ⟨a, b⟩ := process24_raised cfg ob call st.disk e h1
      exact origHolds_of_eq h0 a b
    · rw [processObj_np21 cfg ob call _ ho hk he]; exact process21_keeps cfg ob call _ h0
    · rw [processObj_np1 cfg ob call _ ho hk he]; exact h0

/-- **A run without overwrite on existing output changes nothing on disk and reports that it did nothing** -- on a new
object or on the same one, for every option triple and whatever interruption or alteration the environment has prepared. -/
theorem rerun_noop (cfg : Cfg) (call : Call) (st : St) (ob : Obj) (ha : actingObj cfg call st = some ob)
    (ho : ob.onShank = false) (he : OutputExists cfg st.disk) (hw : call.overwrite = false) :
    (run cfg call st).1.disk = st.disk ∧ (run cfg call st).2 = .ret 0 := by
  rw [run_acting cfg call st ob ha]
  cases hf : apFileExists ob st.disk
  case false => rw [processObj_missing cfg ob call _ hf]; exact ⟨rfl, rfl⟩
  cases hk : cfg.kind
  · rw [processObj_np24 cfg ob call _ ho hk hf]
    simp only [OutputExists, hk] at he
    exact process24_rerun_noop cfg ob call st.disk he.1 he.2 hw
  · rw [processObj_np21 cfg ob call _ ho hk hf]
    simp only [OutputExists, hk] at he
    exact process21_rerun_noop cfg ob call st.disk he hw
  · simp [OutputExists, hk] at he

/-- **Once an object has deleted the original, calling it again does nothing** -- with or without `overwrite`, whatever
the environment has prepared: status 0, the disk (the valid shank files) untouched.  More generally: `process` of an
object built on the original when no original data file is left. -/
theorem rerun_after_delete_noop (cfg : Cfg) (call : Call) (st : St) (hs : StOk st) (ob : Obj)
    (ha : actingObj cfg call st = some ob) (ho : ob.onShank = false) (hgone : st.disk.orig = .absent) :
    (run cfg call st).1.disk = st.disk ∧ (run cfg call st).2 = .ret 0 := by
  have hok := acting_objOk cfg call st ob hs ha
  rw [run_acting cfg call st ob ha]
  have hf : apFileExists ob st.disk = false := by
    cases h : apFileExists ob st.disk
    · rfl
    · exact absurd hgone ((apFileExists_iff _ ob hok ho).mp h)
  rw [processObj_missing cfg ob call _ hf]; exact ⟨rfl, rfl⟩

/-- Every run on the original of an NP2 probe -- completed or interrupted anywhere, new or same object -- leaves output
behind (all expected shank folders; the lf file), so that the next run without overwrite is a repeated run. -/
theorem run_creates_output (cfg : Cfg) (hn : 0 < cfg.n) (call : Call) (st : St) (hs : StOk st) (h0 : OrigHolds st.disk)
    (ob : Obj) (ha : actingObj cfg call st = some ob) (h : OnOriginalNP2 cfg ob) :
    OutputExists cfg (run cfg call st).1.disk := by
  have hok := acting_objOk cfg call st ob hs ha
  rw [run_acting cfg call st ob ha]
  obtain ⟨ho, hk | hk⟩ := h
  · rw [processObj_np24 cfg ob call _ ho hk (apFileExists_of_holds _ ob hok ho h0)]; simp only [OutputExists, hk]
    exact ⟨hn, fun i hi => process24_creates_output cfg ob call st.disk i hi⟩
  · rw [processObj_np21 cfg ob call _ ho hk (apFileExists_of_holds _ ob hok ho h0)]; simp only [OutputExists, hk]
    exact process21_creates_output cfg ob call st.disk

/-- **A repeated run without overwrite changes nothing on disk and returns 0**, whatever the first run was (any options,
completed, interrupted at any step, unfaithful split), whether it is repeated on the same object or on a new one. -/
theorem repeated_run_noop (cfg : Cfg) (hn : 0 < cfg.n) (first again : Call) (st : St) (hs : StOk st)
    (h0 : OrigHolds st.disk) (ob1 ob2 : Obj)
    (h1 : actingObj cfg first st = some ob1) (hn1 : OnOriginalNP2 cfg ob1)
    (h2 : actingObj cfg again (run cfg first st).1 = some ob2) (ho2 : ob2.onShank = false)
    (hw : again.overwrite = false) :
    (run cfg again (run cfg first st).1).1.disk = (run cfg first st).1.disk ∧
    (run cfg again (run cfg first st).1).2 = .ret 0 :=
  rerun_noop cfg again _ ob2 h2 ho2 (run_creates_output cfg hn first st hs h0 ob1 h1 hn1) hw

/-- **A forced re-run ends with a complete, valid set of per-shank files whether or not earlier output exists**: from
ANY consistent state with a readable original (no output, complete output, partial files of an interrupted run, stale
`.cbin`/`.cbin_tmp`, altered files …), `process(overwrite=True)` left alone by the environment -- on a new object or on
the same one -- returns 1 and every stream of every shank is complete (compressed or not, as requested); the original is
still readable unless this very run verified and deleted it.  (`htr`: an NP2.1 `.bin` that ends with a partial frame
cannot be compressed in place, see `np21_trailing_compress_counterexample`.) -/
theorem forced_rerun_completes (cfg : Cfg) (call : Call) (st : St) (ob : Obj) (hs : StOk st)
    (h0 : OrigHolds st.disk) (ha : actingObj cfg call st = some ob) (h : OnOriginalNP2 cfg ob)
    (htr : cfg.kind = .np21 → cfg.trailing = false) (hw : call.overwrite = true) (hf : NoFault cfg call) :
    (run cfg call st).2 = .ret 1 ∧ Complete cfg ob.opts.compress (run cfg call st).1.disk ∧
    (OrigHolds (run cfg call st).1.disk ∨
      (cfg.kind = .np24 ∧ ob.opts.postCheck = true ∧ ob.opts.deleteOriginal = true)) := by
  have hok := acting_objOk cfg call st ob hs ha
  rw [run_acting cfg call st ob ha]
  obtain ⟨ho, hk | hk⟩ := h
  · rw [processObj_np24 cfg ob call _ ho hk (apFileExists_of_holds _ ob hok ho h0)]
    have hae : alreadyExists24 cfg.n call.overwrite st.disk = false := (alreadyExists24_false_iff _ _ _).mpr (Or.inl hw)
    obtain ⟨a, b, c⟩ := process24_completes cfg ob call st.disk hae hf
    refine ⟨a, by simp only [Complete, hk]; exact b, ?_⟩
    rcases c with ⟨c1, c2⟩ | ⟨c1, c2⟩
    · exact Or.inl (origHolds_of_eq h0 c1 c2)
    · refine Or.inr ⟨hk, ?_, c2⟩
      cases hcc : ob.checkCompleted
      · simpa [hcc] using c1
      · exact hok.1 hcc
  · rw [processObj_np21 cfg ob call _ ho hk (apFileExists_of_holds _ ob hok ho h0)]
    have hl := (hok.2.1 ho (origReadable_ne_absent h0)).1
    obtain ⟨a, b, c⟩ := process21_completes cfg ob call st.disk h0 hl (htr hk) (Or.inr hw) hf.1
    exact ⟨a, by simp only [Complete, hk]; exact ⟨b, c⟩, Or.inl (process21_keeps cfg ob call _ h0)⟩

/-- **First run**: without earlier output, `process()` of a new object left alone by the environment completes in the
same sense. -/
theorem first_run_completes (cfg : Cfg) (call : Call) (st : St) (ob : Obj) (hr : call.reuse = false)
    (ha : actingObj cfg call st = some ob) (h : OnOriginalNP2 cfg ob) (htr : cfg.kind = .np21 → cfg.trailing = false)
    (hno : NoOutput cfg st.disk) (hf : NoFault cfg call) :
    (run cfg call st).2 = .ret 1 ∧ Complete cfg ob.opts.compress (run cfg call st).1.disk ∧
    (OrigHolds (run cfg call st).1.disk ∨
      (cfg.kind = .np24 ∧ ob.opts.postCheck = true ∧ ob.opts.deleteOriginal = true)) := by
  obtain ⟨_, _, hcc, hlink, _⟩ := construct_ok cfg call st.disk ob (acting_fresh cfg call st ob hr ha)
  rw [run_acting cfg call st ob ha]
  obtain ⟨ho, hk | hk⟩ := h
  · have h0 : OrigHolds st.disk := (hlink ho).1
    have he : apFileExists ob st.disk = true := by simp [apFileExists, (hlink ho).2]
    rw [processObj_np24 cfg ob call _ ho hk he]
    simp only [NoOutput, hk] at hno
    have hae : alreadyExists24 cfg.n call.overwrite st.disk = false := (alreadyExists24_false_iff _ _ _).mpr (Or.inr hno)
    obtain ⟨a, b, c⟩ := process24_completes cfg ob call st.disk hae hf
    refine ⟨a, by simp only [Complete, hk]; exact b, ?_⟩
    rcases c with ⟨c1, c2⟩ | ⟨c1, c2⟩
    · exact Or.inl (origHolds_of_eq h0 c1 c2)
    · exact Or.inr ⟨hk, by simpa [hcc] using c1, c2⟩
  · have h0 : OrigHolds st.disk := (hlink ho).1
    have he : apFileExists ob st.disk = true := by simp [apFileExists, (hlink ho).2]
    rw [processObj_np21 cfg ob call _ ho hk he]
    simp only [NoOutput, hk] at hno
    have hl : lfExists st.disk = false := by simp [lfExists, hno.1, hno.2]
    obtain ⟨a, b, c⟩ := process21_completes cfg ob call st.disk h0 (hlink ho).2 (htr hk) (Or.inl hl) hf.1
    exact ⟨a, by simp only [Complete, hk]; exact ⟨b, c⟩, Or.inl (process21_keeps cfg ob call _ h0)⟩

/-- **Run interrupted at any processing step and then retried with overwrite** -- on the same object or on a new one:
the retry completes. -/
theorem interrupted_then_forced_completes (cfg : Cfg) (first retry : Call) (st : St) (hs : StOk st)
    (h0 : OrigHolds st.disk) (e : Err) (h1 : (run cfg first st).2 = .raised e) (ob : Obj)
    (ha : actingObj cfg retry (run cfg first st).1 = some ob) (h : OnOriginalNP2 cfg ob)
    (htr : cfg.kind = .np21 → cfg.trailing = false) (hw : retry.overwrite = true) (hf : NoFault cfg retry) :
    (run cfg retry (run cfg first st).1).2 = .ret 1 ∧
    Complete cfg ob.opts.compress (run cfg retry (run cfg first st).1).1.disk :=
  let h2 := interrupted_run_keeps_original cfg first st h0 e h1
  let r := forced_rerun_completes cfg retry _ ob (run_stOk cfg first st hs) h2 ha h htr hw hf
  ⟨r.1, r.2.1⟩

/-- **Input that is not an NP2 probe, or is an already split shank**: status -1 resp. 0, nothing on disk changes --
for every option triple, with or without overwrite, on a new object or again on the same one. -/
theorem not_np2_or_split_untouched (cfg : Cfg) (call : Call) (st : St) (hs : StOk st) (ob : Obj)
    (ha : actingObj cfg call st = some ob) :
    (cfg.kind = .np1 → ob.onShank = false → OrigHolds st.disk →
      (run cfg call st).1.disk = st.disk ∧ (run cfg call st).2 = .ret (-1)) ∧
    (ob.onShank = true → (run cfg call st).1.disk = st.disk ∧ (run cfg call st).2 = .ret 0) := by
  have hok := acting_objOk cfg call st ob hs ha
  rw [run_acting cfg call st ob ha]
  refine ⟨fun hk ho h0 => ?_, fun ho => ?_⟩
  · rw [processObj_np1 cfg ob call _ ho hk (apFileExists_of_holds _ ob hok ho h0)]; exact ⟨rfl, rfl⟩
  · rw [processObj_onShank cfg ob call _ ho]; exact ⟨rfl, rfl⟩

/-- **Finding `np21-trailing-bytes-compress`** (the hypothesis `htr`).  An NP2.1 `.bin` with trailing bytes after its last complete
frame: the lf file and its metadata are written, then `compress_NP21` hands the original to mtscomp, which refuses the file
size with a ValueError; `process()` raises instead of returning 1 (the original is untouched, the output is not the
compressed set that was asked for).  For every configuration and window size. -/
theorem np21_trailing_compress_counterexample (cfg : Cfg) (hk : cfg.kind = .np21) (htr : cfg.trailing = true) (call : Call)
    (hr : call.reuse = false) (hs : call.onShank = false) (hc : call.opts.compress = true) (hi : call.interrupt = none)
    (hw : call.overwrite = true) :
    (run cfg call (St.start (fresh .bin))).2 = .raised .valueError ∧ OrigHolds (run cfg call (St.start (fresh .bin))).1.disk := by
  have ha : actingObj cfg call (St.start (fresh .bin)) =
      some { opts := call.opts, onShank := false, srForm := .bin, checkCompleted := false, alreadyExists := false } := by
    simp [actingObj, hr, construct, hs, St.start, fresh, origReadable, Except.toOption]
  have h1 : (run cfg call (St.start (fresh .bin))).2 = .raised .valueError := by
    rw [run_acting cfg call _ _ ha]
    simp [processObj, apFileExists, St.start, fresh, hk, process21, hw, hi, hc, origCompressFails, htr, lfExists, FileSet.empty]
  exact ⟨h1, interrupted_run_keeps_original cfg call _ rfl _ h1⟩

/-! ### Non-vacuity, and the counterexample of the known finding -/

/-- a two-shank NP2.4 recording of 2000 samples, windows of 1200 with overlap 576: 3 processing windows -/
def cfg24 : Cfg := { kind := .np24, n := 2, ns := 2000, w := 1200, ov := 576, c := 7 }
def cfg21 : Cfg := { cfg24 with kind := .np21, n := 1 }
def dflt (ow : Bool) : Call :=
  { opts := ⟨true, true, false⟩, overwrite := ow, interrupt := none, corrupt := none, onShank := false, reuse := false }
/-- verify, do not compress, delete the original -/
def deleting : Call := { dflt false with opts := ⟨true, false, true⟩ }
def start24 : St := St.start (fresh .bin)

example : nproc cfg24 = 3 ∧ nverif cfg24 = 2 := by
  simp [nproc, nverif, cfg24, Window.firstlast, Window.firstlastAux]

example : StOk start24 ∧ OrigHolds start24.disk ∧ Recoverable cfg24 start24.disk ∧ NoOutput cfg24 start24.disk ∧
    NoFault cfg24 (dflt false) := by
  refine ⟨by simp [StOk, start24, St.start], rfl, Or.inl rfl, ?_, ⟨rfl, ?_⟩⟩
  · intro i _; rfl
  · intro i _; simp [dflt, altered]

/-- The hypothesis "ALL expected folders exist" of `rerun_noop` cannot be weakened to "some folder exists" (finding
`partial-folders-rerun`): with folder `a` present and folder `b` missing, `process()` returns 0 ("nothing to do") and
nevertheless creates folder `b` with two empty files.  No history over the property's interruption points reaches
such a disk (`run_creates_output`: every run creates all folders before its first window). -/
theorem rerun_partial_folders_counterexample :
    (run cfg24 (dflt false) (St.start (freshWith .bin 1))).2 = .ret 0 ∧ (freshWith .bin 1).shanks 1 = none ∧
    (run cfg24 (dflt false) (St.start (freshWith .bin 1))).1.disk.shanks 1 = some ⟨openWb FileSet.empty, openWb FileSet.empty⟩ := by
  simp [run, construct, processObj, St.start, cfg24, dflt, process24, fresh, freshWith, origReadable, apFileExists, alreadyExists24,
    prepare24, onShanks, prepShank, List.range, List.range.loop]

/-- the deleting branch is reachable, and afterwards the same object does nothing even with overwrite: the verified run
removes the original and returns 1; `process(overwrite=True)` on the same object returns 0 and leaves the disk alone -/
example : (run cfg24 deleting start24).2 = .ret 1 ∧ (run cfg24 deleting start24).1.disk.orig = .absent ∧
    (run cfg24 { deleting with reuse := true, overwrite := true } (run cfg24 deleting start24).1).2 = .ret 0 ∧
    (run cfg24 { deleting with reuse := true, overwrite := true } (run cfg24 deleting start24).1).1.disk =
      (run cfg24 deleting start24).1.disk := by
  have e1 : (run cfg24 deleting start24).2 = .ret 1 ∧ (run cfg24 deleting start24).1.disk.orig = .absent ∧
      ∃ ob, (run cfg24 deleting start24).1.obj = some ob ∧ ob.onShank = false := by
    simp [run, construct, processObj, St.start, start24, cfg24, deleting, dflt, process24, fresh, origReadable,
      apFileExists, alreadyExists24, stopAt, splitDiffers, altered, verifyReads, List.range, List.range.loop]
  obtain ⟨a, b, ob, c, d⟩ := e1
  have hs : StOk (run cfg24 deleting start24).1 := run_stOk _ _ _ (by simp [StOk, start24, St.start])
  have r := rerun_after_delete_noop cfg24 { deleting with reuse := true, overwrite := true } _ hs ob
    (by simp [actingObj, c]) d b
  exact ⟨a, b, r.2, r.1⟩

/-- an interruption that fires: the 4th `_split2shanks` call of a first run raises, partial files remain -/
example : (run cfg24 { dflt false with interrupt := some (.split 3) } start24).2 = .raised .injected := by
  simp [run, construct, processObj, start24, St.start, cfg24, dflt, process24, fresh, origReadable, apFileExists, alreadyExists24,
    stopAt, Point.splitIdx, nproc, Window.firstlast, Window.firstlastAux]

/-- the unfaithful split is caught by the verification in whichever window the altered sample lies: here shank 1, a
row of the FIRST processing and FIRST verification window (the run spans 3 processing and 2 verification windows) -/
example : (run cfg24 { dflt false with corrupt := some ⟨1, 0, 0⟩ } start24).2 = .raised .assertion := by
  simp [run, construct, processObj, start24, St.start, cfg24, dflt, process24, fresh, origReadable, apFileExists, alreadyExists24,
    stopAt, splitDiffers, altered, verifyReads, nproc, Window.firstlast, Window.firstlastAux, List.range,
    List.range.loop]

/-- … and the `assert` of that first window comes before the reads of the second one: an exception injected at read 3
(the first read of verification window 1) is never reached, one at read 2 is -/
example : (run cfg24 { dflt false with corrupt := some ⟨1, 0, 0⟩, interrupt := some (.verify 3) } start24).2 = .raised .assertion ∧
    (run cfg24 { dflt false with corrupt := some ⟨1, 0, 0⟩, interrupt := some (.verify 2) } start24).2 = .raised .injected := by
  constructor <;>
  simp [run, construct, processObj, start24, St.start, cfg24, dflt, process24, fresh, origReadable, apFileExists, alreadyExists24,
    stopAt, splitDiffers, altered, verifyReads, nproc, nverif, Window.firstlast, Window.firstlastAux,
    List.range, List.range.loop, Point.splitIdx, Point.metaIdx, Point.verifyIdx, Point.compressIdx]

/-- the same object called three times: process() → 1, process() → 0, process(overwrite=True) → 1 -/
example : (run cfg24 (dflt false) start24).2 = .ret 1 ∧
    (run cfg24 { dflt false with reuse := true } (run cfg24 (dflt false) start24).1).2 = .ret 0 ∧
    (run cfg24 { dflt true with reuse := true }
      (run cfg24 { dflt false with reuse := true } (run cfg24 (dflt false) start24).1).1).2 = .ret 1 := by
  simp [run, construct, processObj, start24, St.start, cfg24, dflt, process24, fresh, origReadable, apFileExists, alreadyExists24,
    stopAt, splitDiffers, altered, verifyReads, List.range, List.range.loop, prepare24, onShanks, prepShank,
    windows24, metas24, compress24]

end IblVerif.C04
