/-
C12 — LFP extraction equals low-pass plus decimation, independent of windowing.

Property theorems only (helper lemmas live in `Lemmas/Lfp.lean`).  Every statement is for ALL recording
lengths `ns` (at least one taper long: the code raises below that, `lf_short_recording_error`) and ALL
processing windows `w` that are a multiple of 12 and longer than the overlap, with the converter's own
constants (`Generated.Constants`: overlap 576, taper = overlap / 4).

What is NOT proved here (numeric oracle only, see harness/props/c12.py): that the taper + Butterworth
`sosfiltfilt` of a window is, at distance ≥ 2 tapers from the window's interior edges, within 1 LSB of the
filtered whole trace.  `lf_values_of_local` states exactly what follows once that locality is granted.
-/
import IblVerif.Lemmas.Lfp

namespace IblVerif.C12
open IblVerif.Lfp IblVerif.Window IblVerif.Generated

/-- `self.samples_taper` of the repo. -/
abbrev taper : Nat := CONV_OVERLAP / CONV_TAPER_DIV

/-- Number of LF samples: for every length and every admissible window the conversion succeeds and writes
exactly `⌈ns / 12⌉` rows. -/
theorem lf_count (w ns : Nat) (hw : w % 12 = 0) (hgt : CONV_OVERLAP < w) (hns : taper ≤ ns) :
    ∃ p es, initParams w = .ok p ∧ lfEntries p ns = .ok es ∧ es.length = (ns + 11) / 12 := by
  have h0 : w ≠ 0 := by omega
  obtain ⟨es, _, h1, _, _, h4, _⟩ := column_spec _ (repo_wf w hw hgt) ns hns (fun _ _ => ())
  exact ⟨_, es, initParams_ok w h0 hw, h1, by simpa [decimLen] using h4⟩

/-- Window independence of the index map: the `m`-th LF sample is computed from AP sample `12 m`, inside a
window `(first, last)` of the generator that contains it, and at more than two tapers (288 samples) from
each edge of that window that is not an end of the recording. -/
theorem lf_index_map (w ns : Nat) (hw : w % 12 = 0) (hgt : CONV_OVERLAP < w) (hns : taper ≤ ns) :
    ∃ p es, initParams w = .ok p ∧ lfEntries p ns = .ok es ∧
      ∀ m (hm : m < es.length),
        (es[m]).src = 12 * m ∧
        ((es[m]).first, (es[m]).last) ∈ firstlast ns w CONV_OVERLAP ∧
        (es[m]).first ≤ 12 * m ∧ 12 * m < (es[m]).last ∧
        ((es[m]).first = 0 ∨ (es[m]).first + 2 * taper ≤ 12 * m) ∧
        ((es[m]).last = ns ∨ 12 * m + 2 * taper < (es[m]).last) := by
  have h0 : w ≠ 0 := by omega
  obtain ⟨es, col, h1, _, hc, he, h5⟩ := column_spec _ (repo_wf w hw hgt) ns hns (fun _ _ => ())
  refine ⟨_, es, initParams_ok w h0 hw, h1, ?_⟩
  intro m hm
  obtain ⟨_, hs, hmem, hg1, hg2, _, hg4, hg5⟩ := h5 m hm (by omega)
  rw [hs] at hg1 hg2 hg5
  refine ⟨hs, hmem, hg1, hg2, ?_, hg5⟩
  rcases hg4 with h | h
  · exact Or.inl h
  · right
    have : (es[m]).first + (es[m]).off = 12 * m := hs
    show (es[m]).first + 2 * (CONV_OVERLAP / CONV_TAPER_DIV) ≤ 12 * m
    have h' : 2 * (CONV_OVERLAP / CONV_TAPER_DIV) ≤ (es[m]).off := h
    omega

/-- The sync column of the LF file is exactly every 12th AP sync word, `⌈ns/12⌉` of them, whatever the
window. -/
theorem lf_sync {α : Type} (w ns : Nat) (hw : w % 12 = 0) (hgt : CONV_OVERLAP < w) (hns : taper ≤ ns)
    (sync : Nat → α) :
    ∃ p, initParams w = .ok p ∧
      lfSync p ns sync = .ok ((List.range ((ns + 11) / 12)).map (fun m => sync (12 * m))) := by
  have h0 : w ≠ 0 := by omega
  obtain ⟨es, h1, h2, _⟩ := entries_spec _ (repo_wf w hw hgt) ns hns
  refine ⟨_, initParams_ok w h0 hw, ?_⟩
  have : es.map (fun e => sync (e.first + e.off)) = (es.map Entry.src).map sync := by
    simp [List.map_map, Entry.src, Function.comp_def]
  simp only [lfSync, lfColumn, h1, Except.map, this, h2, range'_eq_map, List.map_map, decimLen]
  rfl

/-- Window independence of everything that does not pass through the filter: for any two admissible
window sizes the conversion writes the same number of LF samples, sitting on the same AP samples, and the
same sync column. -/
theorem lf_window_independent {α : Type} (w₁ w₂ ns : Nat) (hw₁ : w₁ % 12 = 0) (hw₂ : w₂ % 12 = 0)
    (hgt₁ : CONV_OVERLAP < w₁) (hgt₂ : CONV_OVERLAP < w₂) (hns : taper ≤ ns) (sync : Nat → α) :
    ∃ p₁ p₂, initParams w₁ = .ok p₁ ∧ initParams w₂ = .ok p₂ ∧
      lfSources p₁ ns = lfSources p₂ ns ∧ lfSync p₁ ns sync = lfSync p₂ ns sync := by
  obtain ⟨p₁, a₁, b₁⟩ := lf_sync w₁ ns hw₁ hgt₁ hns sync
  obtain ⟨p₂, a₂, b₂⟩ := lf_sync w₂ ns hw₂ hgt₂ hns sync
  obtain ⟨q₁, c₁, d₁⟩ := lf_sync w₁ ns hw₁ hgt₁ hns id
  obtain ⟨q₂, c₂, d₂⟩ := lf_sync w₂ ns hw₂ hgt₂ hns id
  rw [a₁] at c₁; cases c₁
  rw [a₂] at c₂; cases c₂
  exact ⟨p₁, p₂, a₁, a₂, by unfold lfSources; rw [d₁, d₂], by rw [b₁, b₂]⟩

/-- What the voltage columns are, given filter locality: let `G (first, last) off` be the processed value
(taper, filter) of window `(first, last)` at local offset `off` and `H t` the processed whole trace at AP
sample `t`.  If `G` is `R`-close to `H` at every position of a generator window that is at least two tapers
away from the window's interior edges, then every LF sample `m` is `R`-close to `H (12 m)` — for every
admissible window size, hence independently of it. -/
theorem lf_values_of_local {α : Type} (w ns : Nat) (hw : w % 12 = 0) (hgt : CONV_OVERLAP < w)
    (hns : taper ≤ ns) (G : Nat × Nat → Nat → α) (H : Nat → α) (R : α → α → Prop)
    (hloc : ∀ f l off, (f, l) ∈ firstlast ns w CONV_OVERLAP → f + off < l →
      (f = 0 ∨ 2 * taper ≤ off) → (l = ns ∨ f + off + 2 * taper < l) → R (G (f, l) off) (H (f + off))) :
    ∃ p col, initParams w = .ok p ∧ lfColumn p ns G = .ok col ∧ col.length = (ns + 11) / 12 ∧
      ∀ m (hm : m < col.length), R col[m] (H (12 * m)) := by
  have h0 : w ≠ 0 := by omega
  obtain ⟨es, col, _, h2, hc, he, h5⟩ := column_spec _ (repo_wf w hw hgt) ns hns G
  refine ⟨_, col, initParams_ok w h0 hw, h2, by simpa [decimLen] using hc, ?_⟩
  intro m hm
  obtain ⟨hv, hs, hmem, _, hg2, _, hg4, hg5⟩ := h5 m (by omega) hm
  rw [hv, ← hs]
  exact hloc _ _ _ hmem hg2 hg4 hg5

/-- A recording shorter than one taper (144 samples, 4.8 ms) cannot be converted: the first chunk has too
few columns for the taper (`ValueError`), for every window. -/
theorem lf_short_recording_error (w ns : Nat) (hw : w % 12 = 0) (hgt : CONV_OVERLAP < w) (hns : ns < taper) :
    ∃ p, initParams w = .ok p ∧ lfEntries p ns = .error .valueErrorTaper := by
  have h0 : w ≠ 0 := by omega
  exact ⟨_, initParams_ok w h0 hw, entries_short _ hgt ns hns⟩

/-- LF metadata of one shank file written with that shank's own channel list `chns` (`n = len(chns)`
columns) and `rows` rows: 2 500 Hz, type "lf", the declared channel counts add up to the `n` channels written
(`0 + (n-1) + 1`, in `snsApLfSy` and `acqApLfSy` alike), `nSavedChans = n` (rewritten for NP2.4 together with
`snsSaveChanSubset = 0:n-1` and `snsSaveChanSubset_orig` = the original indices `chns`; for NP2.1 the file
keeps every saved channel, hypothesis `h21`), the declared size is the size written, and a reader that
derives `ns` from the size and `nSavedChans` maps exactly `rows × n`. -/
theorem lf_meta (v : Version) (m : Meta) (chns : List Nat) (rows sh : Nat) (hn : 2 ≤ chns.length)
    (hsy : m.sns.2.2 = 1) (h21 : v = .np21 → m.nSavedChans = chns.length) :
    let n := chns.length
    let m' := writeMetaLf v m chns (rows * n * 2) sh
    m'.sampRate = (2500, 1) ∧ metaType m' = "lf" ∧
    m'.sns = (0, n - 1, 1) ∧ m'.acq.1 = 0 ∧ m'.acq.2.1 = n - 1 ∧
    m'.sns.1 + m'.sns.2.1 + m'.sns.2.2 = n ∧ m'.nSavedChans = n ∧
    (v = .np24 → m'.subset = some (0, n - 1) ∧ m'.subsetOrig = some chns) ∧ m'.shank = some sh ∧
    m'.fileSizeBytes = rows * m'.nSavedChans * 2 ∧ openShape m' (rows * n * 2) = (rows, n) := by
  intro n
  have hN : (writeMetaLf v m chns (rows * n * 2) sh).nSavedChans = n := by
    cases v with
    | np21 => simpa [writeMetaLf] using h21 rfl
    | np24 => simp [writeMetaLf, n]
  have h2500 : CONV_FS_LF = 2500 := by decide
  refine ⟨by simp [writeMetaLf, h2500], ?_, ?_, by simp [writeMetaLf], by simp [writeMetaLf, n], ?_, hN,
    ?_, by simp [writeMetaLf], ?_, ?_⟩
  · have : n - 1 ≠ 0 := by omega
    simp [metaType, writeMetaLf, this, n] at *
  · simp only [writeMetaLf, hsy]; rfl
  · simp only [writeMetaLf, hsy]; omega
  · intro hv; subst hv; simp [writeMetaLf, n]
  · rw [hN]; simp [writeMetaLf]
  · simp only [openShape, hN]
    have : rows * n * 2 = rows * (2 * n) := by
      rw [Nat.mul_assoc, Nat.mul_comm n 2]
    rw [this, Nat.mul_div_cancel _ (by omega)]

/-- The files of a whole conversion (NP2.4: one per shank present in the shank map; NP2.1: the single
shank): when the conversion succeeds, every LF file has `⌈ns/12⌉` rows, as many columns as its channel list,
`rows · columns · 2` bytes, and metadata built by `writeMetaLf` from THAT shank's own channel list and size
(so `lf_meta` applies to it shank by shank, whatever the distribution of the channels over the shanks). -/
theorem lf_files (v : Version) (w ns : Nat) (hw : w % 12 = 0) (hgt : CONV_OVERLAP < w) (hns : taper ≤ ns)
    (m : Meta) (shankMap : List Nat) (fs : List LfFile) :
    ∀ p, initParams w = .ok p → lfFiles v p ns m shankMap = .ok fs →
      fs.length = (shanksOf shankMap).length ∧
      ∀ f ∈ fs, f.rows = (ns + 11) / 12 ∧ f.nbytes = f.rows * f.chns.length * 2 ∧
        f.chns = shankChns shankMap f.sh m.nSavedChans m.sns.2.2 ∧
        f.md = writeMetaLf v m f.chns f.nbytes f.sh := by
  intro p hp hfs
  have h0 : w ≠ 0 := by omega
  rw [initParams_ok w h0 hw] at hp
  cases hp
  obtain ⟨es, _, h1, _, _, h4, _⟩ := column_spec _ (repo_wf w hw hgt) ns hns (fun _ _ => ())
  unfold lfFiles at hfs
  split at hfs
  · cases hfs
  · simp only [h1] at hfs
    obtain ⟨hl, hi⟩ := mapM_ok _ _ _ hfs
    refine ⟨hl, ?_⟩
    intro f hf
    obtain ⟨i, hi2, rfl⟩ := List.getElem_of_mem hf
    obtain ⟨a, b, c, d, e⟩ := lfFileOf_ok _ _ _ _ _ _ (hi i (by omega) hi2)
    exact ⟨by rw [a]; simpa [decimLen] using h4, c, by rw [d, b], e⟩

/-- "The file opens with a shape matching its content": every LF file of a successful conversion with at
least one voltage channel and one sync channel (`snsApLfSy[2] = 1`), which for NP2.1 keeps every saved
channel, is declared as 2 500 Hz LF data and maps as `⌈ns/12⌉ × len(chns)`. -/
theorem lf_file_opens (v : Version) (w ns : Nat) (hw : w % 12 = 0) (hgt : CONV_OVERLAP < w)
    (hns : taper ≤ ns) (m : Meta) (shankMap : List Nat) (fs : List LfFile) (hsy : m.sns.2.2 = 1)
    (p : Params) (hp : initParams w = .ok p) (hfs : lfFiles v p ns m shankMap = .ok fs) :
    ∀ f ∈ fs, 2 ≤ f.chns.length → (v = .np21 → m.nSavedChans = f.chns.length) →
      f.md.sampRate = (2500, 1) ∧ metaType f.md = "lf" ∧
      openShape f.md f.nbytes = ((ns + 11) / 12, f.chns.length) := by
  intro f hf h2 h21
  obtain ⟨_, hall⟩ := lf_files v w ns hw hgt hns m shankMap fs p hp hfs
  obtain ⟨hr, hb, _, hmd⟩ := hall f hf
  have := lf_meta v m f.chns f.rows f.sh h2 hsy h21
  simp only at this
  rw [← hb, ← hmd] at this
  obtain ⟨a, b, _, _, _, _, _, _, _, _, e⟩ := this
  exact ⟨a, b, by rw [e, hr]⟩

/-- Non-vacuity (relative to the extracted constants; with overlap 576: a 700-sample recording, window 588
— the smallest admissible one —, 11 windows, 59 LF samples sitting on AP samples 0, 12, …, 696). -/
example : ∃ p, initParams (CONV_OVERLAP + 12) = .ok p ∧
    lfSources p (CONV_OVERLAP + 124) = .ok ((List.range ((CONV_OVERLAP + 124 + 11) / 12)).map (12 * ·)) := by
  obtain ⟨p, h1, h2⟩ := lf_sync (CONV_OVERLAP + 12) (CONV_OVERLAP + 124) (by decide) (by decide) (by decide) id
  exact ⟨p, h1, h2⟩
example : (firstlast (CONV_OVERLAP + 124) (CONV_OVERLAP + 12) CONV_OVERLAP).length = 11 := by
  rw [show (firstlast (CONV_OVERLAP + 124) (CONV_OVERLAP + 12) CONV_OVERLAP).length
      = nwin (CONV_OVERLAP + 124) (CONV_OVERLAP + 12) CONV_OVERLAP from by
    unfold firstlast nwin; simp only [show CONV_OVERLAP < CONV_OVERLAP + 12 by decide, if_true]
    rw [aux_length _ _ _ 0 (by decide), Nat.zero_add]]
  decide
/-- The error branch is reachable: a 100-sample recording. -/
example : ∃ p, initParams (CONV_OVERLAP + 12) = .ok p ∧ lfEntries p (taper - 44) = .error .valueErrorTaper :=
  lf_short_recording_error _ _ (by decide) (by decide) (by decide)
/-- `lf_meta` on the NP2.4 fixture's numbers (97 channels per shank file) and on NP2.1 (385). -/
example : let m : Meta := ⟨(384, 0, 1), (384, 0, 1), 385, 23100000, (30000, 1), none, none, none, true⟩
    (writeMetaLf .np24 m (List.range 97) (2500 * 97 * 2) 3).sns = (0, 96, 1) ∧
    openShape (writeMetaLf .np24 m (List.range 97) (2500 * 97 * 2) 3) (2500 * 97 * 2) = (2500, 97) ∧
    openShape (writeMetaLf .np21 m (List.range 385) (2500 * 385 * 2) 0) (2500 * 385 * 2) = (2500, 385) := by
  decide
/-- Uneven shanks (scaled-down 144 / 48 / 96 / 96 layout: 12 / 4 / 8 / 8 channels + sync): every file has its own width. -/
example :
    let sm := List.replicate 12 0 ++ List.replicate 4 1 ++ List.replicate 8 2 ++ List.replicate 8 3
    (shanksOf sm).map (fun sh => (shankChns sm sh 33 1).length) = [13, 5, 9, 9] := by
  decide

end IblVerif.C12
