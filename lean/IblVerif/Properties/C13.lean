/-
C13 — Extracted waveforms equal the source data and the saved files agree row by row.

Property theorems only; helper lemmas live in `Lemmas/Waveforms*.lean`, the real-number bridge in
`Analysis/WaveformsRadius.lean`, the model in `Model/Waveforms.lean`.

Reading of the model objects
* `Arr` — a recording: `val channel sample : Option Int`, `none` = NaN; `Arr.addNan` appends the NaN row.
* `channelIndex geom r2 pad` — `make_channel_index(geom, radius, pad_val)` with `r2 = ⌊radius²⌋`.
* `extract arr cn df off len` — `extract_wfs_array(arr, df, cn, off, len)` (`df` = (sample, peak channel) pairs).
* `makeTable choose sp ns off len maxWf` — `_make_wfs_table`; `choose` is the random generator, `Lawful` its law.
* `writeChunk`, `extractBin … cs sched` — `write_wfs_chunk`, `extract_wfs_cbin(preprocess_steps=[])` with chunk
  size `cs`, the chunks executed in the order `sched` (joblib); the chunk job hands the caller's `off`, `len` to
  `extract_wfs_array` (commit "extract_wfs_cbin honours trough_offset and spike_length_samples in its chunk jobs").
* `Domain` — the input domain: lawful generator, spikes sorted in time, peak channels on the probe,
  `off ≤ len`, `off ≤ cs`, some valid spike, `sched` a permutation of the chunk numbers.
* `gw rec cn off len row` — the waveform of a table row cut from the WHOLE recording (`extract` semantics).
-/
import IblVerif.Lemmas.WaveformsSpec
import IblVerif.Lemmas.WaveformsTemplates
import IblVerif.Lemmas.WaveformsC13Purity
import IblVerif.Analysis.WaveformsRadius
import IblVerif.Generated.Constants

namespace IblVerif.C13
open IblVerif.Waveforms

/-- **Neighbour table.**  For every geometry with at least one site, every squared radius and pad value: the
table has one row per site; row `c` is the strictly ascending list of exactly the sites within the radius of
site `c` (it contains `c`), followed by the pad value (default: the number of sites = index of the NaN row) up to
the common width, and the width is the size of the largest neighbourhood (no row is truncated, no spare column). -/
theorem neighbours_exact (geom : Array Pt) (r2 : Nat) (pad : Option Nat) (hne : geom.size ≠ 0) :
    ∃ rows, channelIndex geom r2 pad = .ok rows ∧ rows.length = geom.size ∧
      (∀ c, c < geom.size → ∃ nb : List Nat,
          rows[c]? = some (nb ++ List.replicate (nbWidth geom r2 - nb.length) (pad.getD geom.size)) ∧
          nb.Pairwise (· < ·) ∧
          (∀ j, j ∈ nb ↔ ∃ p q, geom[c]? = some p ∧ geom[j]? = some q ∧ dist2 p q ≤ r2) ∧
          c ∈ nb ∧ nb.length ≤ nbWidth geom r2) ∧
      (∃ c, c < geom.size ∧ (nbList geom r2 c).length = nbWidth geom r2) := by
  refine ⟨_, channelIndex_ok geom r2 pad hne, by simp, ?_, nbWidth_attained geom r2 hne⟩
  intro c hc
  refine ⟨nbList geom r2 c, ?_, nbList_sorted geom r2 c, mem_nbList geom r2 c, self_mem_nbList geom r2 c hc,
    nbList_length_le geom r2 c hc⟩
  rw [List.getElem?_map, List.getElem?_range hc]
  rfl

/-- The radius test of the code, `sqrt(d²) <= radius` over the reals, is the integer test of the model for
integer squared distances. -/
theorem within_radius_iff (d2 : ℕ) (r : ℝ) (hr : 0 ≤ r) : Real.sqrt (d2 : ℝ) ≤ r ↔ d2 ≤ ⌊r ^ 2⌋₊ :=
  sqrt_le_radius_iff d2 r hr

/-- **Extraction equals the source.**  For every array, neighbour table, window (`off`, `len`) and non-empty
list of spikes whose windows `[s − off, s − off + len)` lie inside the recording (the code's own condition
`s + (len − off) < ns`) and whose peak channels are rows of the table: `extract_wfs_array` succeeds and
waveform `i`, row `k`, sample `t` is the array at row `cn[peak_i][k]`, sample `s_i − off + t`. -/
theorem extract_eq_source (arr : Arr) (cn : List (List Nat)) (df : List (Int × Int)) (off len : Nat)
    (hne : df ≠ [])
    (hwin : ∀ sp ∈ df, (off : Int) ≤ sp.1 ∧ sp.1 + ((len : Int) - off) < arr.ns)
    (hpk : ∀ sp ∈ df, 0 ≤ sp.2 ∧ sp.2 < cn.length)
    (hcn : ∀ row ∈ cn, ∀ c ∈ row, c < arr.nrows) :
    extract arr cn df off len = .ok (df.map fun sp =>
      (cn.getD sp.2.toNat []).map fun c => (List.range len).map fun t => arr.val c ((sp.1 - (off : Int)).toNat + t)) := by
  obtain ⟨last, hlast⟩ : ∃ l, df.getLast? = some l := by
    cases h : df.getLast? with
    | none => exact absurd (List.getLast?_eq_none_iff.mp h) hne
    | some l => exact ⟨l, rfl⟩
  rw [extract_ok arr cn df off len last hlast (hwin last (List.mem_of_getLast? hlast)).2
    (fun sp hsp => spikeOk_of_window arr cn off len sp (hwin sp hsp).1 (Int.le_of_lt (hwin sp hsp).2)
      (hpk sp hsp).1 (hpk sp hsp).2 hcn)]
  congr 1
  apply List.map_congr_left
  intro sp hsp
  exact waveform_of_window arr cn off len sp (hwin sp hsp).1 (hpk sp hsp).1

/-- **…on the channels within the radius, ascending, padded with NaN.**  With the NaN row appended to the data
and the neighbour table of the geometry (default pad): the waveform of a spike at sample `s`, peak channel `p`
is the list of source windows `data[c][s − off … s − off + len)` for the sites `c` within the radius of `p` in
ascending order, followed by all-NaN rows up to the table width. -/
theorem waveform_is_neighbourhood_window (data : Arr) (geom : Array Pt) (r2 off len : Nat) (s : Int) (p : Nat)
    (hg : geom.size = data.nrows) (hp : p < geom.size) (hs : (off : Int) ≤ s)
    (he : s + ((len : Int) - off) < data.ns) :
    ∃ cn, channelIndex geom r2 none = .ok cn ∧
      extract data.addNan cn [(s, (p : Int))] off len = .ok
        [(nbList geom r2 p).map (fun c => (List.range len).map fun t => data.val c ((s - (off : Int)).toNat + t))
          ++ List.replicate (nbWidth geom r2 - (nbList geom r2 p).length) (List.replicate len none)] := by
  have hne : geom.size ≠ 0 := by omega
  refine ⟨_, channelIndex_ok geom r2 none hne, ?_⟩
  simp only [Option.getD_none]
  have hcn : ∀ row ∈ (List.range geom.size).map (fun c => padRow (nbWidth geom r2) geom.size (nbList geom r2 c)),
      ∀ c ∈ row, c < data.addNan.nrows := by
    intro row hrow c hc
    rw [List.mem_map] at hrow
    obtain ⟨c', _, rfl⟩ := hrow
    unfold padRow at hc
    simp only [Arr.addNan, ← hg]
    rcases List.mem_append.mp hc with h | h
    · have := (mem_nbList geom r2 c' c).mp h
      obtain ⟨_, q, _, hq, _⟩ := this
      by_cases hlt : c < geom.size
      · omega
      · simp [Array.getElem?_eq_none (Nat.le_of_not_lt hlt)] at hq
    · rw [List.mem_replicate] at h; omega
  rw [extract_ok data.addNan _ [(s, (p : Int))] off len (s, (p : Int)) rfl (by simpa [Arr.addNan] using he)
    (fun sp hsp => by
      rw [List.mem_singleton] at hsp; subst hsp
      exact spikeOk_of_window _ _ off len _ hs (by simp only [Arr.addNan]; omega) (by simp)
        (by simp; exact hp) hcn)]
  simp only [List.map_cons, List.map_nil]
  rw [waveform_neighbourhood data geom r2 off len s p hg hp hs]

/-- **Chunking does not move the window.**  For every chunk size `cs ≥ off`, chunk number `i` inside the recording
and every list of table rows handed to that job whose samples lie in the chunk `[i·cs, end_i)` and are valid:
the job succeeds and writes, at memmap row `waveform_index`, the waveform cut from the WHOLE recording over
`[sample − off, sample − off + len)` — chunk-local sample numbers, the lead-in of the snippet and its clipping
at the end of the file cancel (so the snippet never leaves the recording).  For every window `off ≤ len`. -/
theorem chunk_independent (rec : Arr) (cn : List (List Nat)) (off len cs nchunks i : Nat) (rows : List Row)
    (hol : off ≤ len) (hoc : off ≤ cs) (hi : i * cs < rec.ns)
    (hcn : ∀ row ∈ cn, ∀ c ∈ row, c < rec.nrows + 1)
    (hrows : ∀ r ∈ rows, ((i * cs : Nat) : Int) ≤ r.sample ∧ r.sample < (chunkEnd rec.ns cs nchunks i : Nat) ∧
        allowed rec.ns off len r.sample = true ∧ 0 ≤ r.peak ∧ r.peak < cn.length) :
    writeChunk rec cn off len cs rec.ns nchunks i rows
      = .ok (rows.map fun r => (r.wi, waveform rec.addNan cn off len (r.sample, r.peak))) :=
  writeChunk_eq_global rec cn off len cs nchunks i rows hol hoc hi hcn hrows

/-- **Per-unit counts.**  For every spike train, window, `max_wf` and every lawful random choice: the table is
produced, and for every unit `u` the rows of `u` are, in order, the (sample, channel) of a strictly ascending
list `idxs` of spike indices, each a spike of `u` farther than the margins from both ends
(`off < s < ns − (len − off)`), and there are exactly `min(max_wf, number of such spikes of u)` of them. -/
theorem per_unit_count (choose : Choose) (sp : List Spike) (ns off len maxWf : Nat)
    (hlaw : Lawful choose sp ns off len maxWf) (u : Int) (hu : u ∈ unitIds sp) :
    ∃ rows, makeTable choose sp ns off len maxWf = .ok rows ∧ ∃ idxs : List Nat,
      idxs.Pairwise (· < ·) ∧
      (∀ j ∈ idxs, ∃ s, sp[j]? = some s ∧ s.cluster = u ∧ (off : Int) < s.sample ∧
        s.sample < (ns : Int) - ((len : Int) - off)) ∧
      idxs.length = min maxWf (sp.filter fun s => decide (s.cluster = u) && allowed ns off len s.sample).length ∧
      (rows.filter fun r => decide (r.cluster = u)).map (fun r => (r.sample, r.peak))
        = idxs.map fun j => ((sp.getD j default).sample, (sp.getD j default).chan) := by
  refine ⟨_, makeTable_ok choose sp ns off len maxWf hlaw,
    (wfIdx choose sp ns off len maxWf).filter (fun j => decide ((sp.getD j default).cluster = u)), ?_, ?_, ?_, ?_⟩
  · exact (wfIdx_sorted choose sp ns off len maxWf hlaw).sublist List.filter_sublist
  · intro j hj
    have hperm := unit_idx_perm choose sp ns off len maxWf hlaw u hu
    have hjc := hperm.mem_iff.mp hj
    have := ((lawfulChoice_iff _ _ _).mp (hlaw u hu)).2.1 j hjc
    obtain ⟨s, hs, hc, ha⟩ := (mem_candidates _ _ _ _ _ _).mp this
    exact ⟨s, hs, hc, ((allowed_iff _ _ _ _).mp ha).1, ((allowed_iff _ _ _ _).mp ha).2⟩
  · rw [(unit_idx_perm choose sp ns off len maxWf hlaw u hu).length_eq,
      ((lawfulChoice_iff _ _ _).mp (hlaw u hu)).1, ← candidates_map, List.length_map]
  · have h := tableRows_proj sp (wfIdx choose sp ns off len maxWf)
    have h2 : ((tableRows sp (wfIdx choose sp ns off len maxWf)).filter fun r => decide (r.cluster = u)).map
        (fun r => (r.sample, r.cluster, r.peak))
        = ((wfIdx choose sp ns off len maxWf).filter (fun j => decide ((sp.getD j default).cluster = u))).map
          (fun j => ((sp.getD j default).sample, (sp.getD j default).cluster, (sp.getD j default).chan)) := by
      have e1 := List.filter_map (f := fun r : Row => (r.sample, r.cluster, r.peak))
        (p := fun t : Int × Int × Int => decide (t.2.1 = u)) (l := tableRows sp (wfIdx choose sp ns off len maxWf))
      have e2 := List.filter_map (f := fun j : Nat => ((sp.getD j default).sample, (sp.getD j default).cluster, (sp.getD j default).chan))
        (p := fun t : Int × Int × Int => decide (t.2.1 = u)) (l := wfIdx choose sp ns off len maxWf)
      rw [h] at e1
      rw [e1] at e2
      exact e2
    have h3 := congrArg (List.map fun t : Int × Int × Int => (t.1, t.2.2)) h2
    simpa only [List.map_map, Function.comp_def] using h3

/-- **Row by row.**  On the whole input domain, for every chunk size and execution order: `extract_wfs_cbin`
succeeds; traces row `k` is the waveform (source window on the peak channel's neighbourhood) of table row `k`;
channel-map row `k` is the neighbour row of table row `k`'s peak channel; table row `k` carries
`waveform_index = k`; the rows are ordered by cluster then sample; and the rows are exactly the chosen spikes
(the lawful choice, see `per_unit_count`).  For every window `(off, len)` with `off ≤ len`, `off ≤ cs`. -/
theorem rows_agree (choose : Choose) (rec : Arr) (cn : List (List Nat)) (sp : List Spike)
    (off len maxWf cs : Nat) (sched : List Nat) (d : Domain choose rec cn sp off len maxWf cs sched) :
    ∃ o, extractBin choose rec cn sp off len maxWf cs sched = .ok o ∧
      o.traces = o.table.map (fun r => waveform rec.addNan cn off len (r.sample, r.peak)) ∧
      o.chans = o.table.map (fun r => cn.getD (pyIdx cn.length r.peak) []) ∧
      o.table.map (·.wi) = List.range o.table.length ∧
      o.table.Pairwise (fun a b => a.cluster < b.cluster ∨ (a.cluster = b.cluster ∧ a.sample ≤ b.sample)) ∧
      (o.table.map fun r => (r.sample, r.cluster, r.peak)).Perm
        ((wfIdx choose sp rec.ns off len maxWf).map fun j =>
          ((sp.getD j default).sample, (sp.getD j default).cluster, (sp.getD j default).chan)) := by
  refine ⟨_, extractBin_spec choose rec cn sp off len maxWf cs sched d, rfl, rfl, ?_,
    spec_table_sorted choose rec cn sp off len maxWf cs sched d,
    spec_table_perm choose rec cn sp off len maxWf cs sched d⟩
  have h := spec_table_wi choose rec cn sp off len maxWf cs sched d
  have hl := congrArg List.length h
  simp only [List.length_map, List.length_range] at hl
  rw [h, hl]

/-- **Independence of chunk size and worker count.**  Two runs on the same input (same random choice) with any two
chunk sizes and any two execution orders of the chunks return the same table, traces, channel map and templates. -/
theorem schedule_and_chunk_independent (choose : Choose) (rec : Arr) (cn : List (List Nat)) (sp : List Spike)
    (off len maxWf cs cs' : Nat) (sched sched' : List Nat)
    (d : Domain choose rec cn sp off len maxWf cs sched) (d' : Domain choose rec cn sp off len maxWf cs' sched') :
    extractBin choose rec cn sp off len maxWf cs sched
      = extractBin choose rec cn sp off len maxWf cs' sched' := by
  rw [extractBin_spec choose rec cn sp off len maxWf cs sched d,
    extractBin_spec choose rec cn sp off len maxWf cs' sched' d']

/-- **Templates.**  On the domain: template row `i` for `i` below the number of clusters that have waveforms is the
point-wise NaN-median (doubled) over exactly the traces rows whose table row belongs to the `i`-th such cluster
(ascending cluster id); the remaining template rows are NaN; the cluster list is the ascending list of cluster ids
in the table. -/
theorem templates_are_cluster_medians (choose : Choose) (rec : Arr) (cn : List (List Nat)) (sp : List Spike)
    (off len maxWf cs : Nat) (sched : List Nat) (d : Domain choose rec cn sp off len maxWf cs sched) :
    ∃ o, extractBin choose rec cn sp off len maxWf cs sched = .ok o ∧
      o.templates2.length = (unitIds sp).length ∧
      o.clusters.map (·.cluster) = unique (o.table.map (·.cluster)) ∧
      (∀ (i : Nat) (a : ClusterAgg), o.clusters[i]? = some a →
        o.templates2[i]? = some (template2 (cn.headD []).length len
          (((o.table.zip o.traces).filter fun p => decide (p.1.cluster = a.cluster)).map (·.2)))) ∧
      (∀ i : Nat, o.clusters.length ≤ i → i < (unitIds sp).length →
        o.templates2[i]? = some (List.replicate (cn.headD []).length (List.replicate len none))) :=
  ⟨_, extractBin_spec choose rec cn sp off len maxWf cs sched d,
    spec_templates choose rec cn sp off len maxWf cs sched d⟩

/-- **Template row i is unit i** — proved under the extra hypothesis that every unit has a valid spike (the
statement without it is false for the code as it stands, see `templates_shifted_counterexample`): then the
clusters with waveforms are all units, in the order of `np.unique(spike_clusters)`. -/
theorem templates_rows_are_units_partial (choose : Choose) (rec : Arr) (cn : List (List Nat)) (sp : List Spike)
    (off len maxWf cs : Nat) (sched : List Nat) (d : Domain choose rec cn sp off len maxWf cs sched)
    (hall : ∀ u ∈ unitIds sp, ∃ s ∈ sp, s.cluster = u ∧ allowed rec.ns off len s.sample = true) :
    ∃ o, extractBin choose rec cn sp off len maxWf cs sched = .ok o ∧
      o.clusters.map (·.cluster) = unitIds sp :=
  ⟨_, extractBin_spec choose rec cn sp off len maxWf cs sched d,
    spec_clusters_all choose rec cn sp off len maxWf cs sched d hall⟩

/-- Units 1 (its only spike is too close to the start), 2 and 3: template row 0 is the median of unit 2's
waveform and row 2 is NaN, although `np.unique(spike_clusters) = [1, 2, 3]` (window 2/4 instead of 42/128). -/
theorem templates_shifted_counterexample :
    unitIds [⟨1, 1, 0⟩, ⟨10, 2, 0⟩, ⟨20, 3, 0⟩] = [1, 2, 3] ∧
    (match extractBin (fun _ cand _ => cand) ⟨1, 100, fun _ t => some (t : Int)⟩ [[0]]
        [⟨1, 1, 0⟩, ⟨10, 2, 0⟩, ⟨20, 3, 0⟩] 2 4 5 50 [0, 1] with
      | .ok o => some o.templates2
      | .error _ => none)
      = some [[[some 16, some 18, some 20, some 22]], [[some 36, some 38, some 40, some 42]],
        [[none, none, none, none]]] := by
  decide +kernel

/-- **Loader.**  For every saved record, labels and indices: `load_waveforms` returns, in ascending row order,
exactly the rows whose cluster is among the labels (all clusters when none is given) and whose
`index_within_clusters` is among the indices (all when none is given), each with the traces row, the table row
and the channel-map row saved at that position. -/
theorem loader_returns_saved (o : Output) (labels indices : Option (List Int)) :
    (loadRows o labels indices).Pairwise (· < ·) ∧
    (∀ k, k ∈ loadRows o labels indices ↔ ∃ r, o.table[k]? = some r ∧
      r.cluster ∈ labels.getD (o.clusters.map (·.cluster)) ∧ (∀ ix, indices = some ix → r.iwc ∈ ix)) ∧
    load o labels indices = (loadRows o labels indices).map fun k => (o.traces[k]?, o.table[k]?, o.chans[k]?) := by
  refine ⟨List.Pairwise.sublist List.filter_sublist List.pairwise_lt_range, ?_, rfl⟩
  intro k
  unfold loadRows
  rw [List.mem_filter, List.mem_range]
  constructor
  · rintro ⟨hk, h⟩
    rw [List.getElem?_eq_getElem hk] at h
    refine ⟨o.table[k], List.getElem?_eq_getElem hk, ?_⟩
    cases indices <;> simp_all
  · rintro ⟨r, hr, h1, h2⟩
    have hk : k < o.table.length := by
      by_cases h : k < o.table.length
      · exact h
      · rw [List.getElem?_eq_none (Nat.le_of_not_lt h)] at hr; cases hr
    refine ⟨hk, ?_⟩
    rw [hr]
    cases indices <;> simp_all

/-! ### Round h: purity, chunk list, single-waveform templates -/

/-- **The result is a function of the CURRENT file content.**  Two recordings of the same dimensions whose values agree
inside those dimensions (whatever a `val` function says elsewhere, e.g. about an earlier file at the same path) give the same
saved table, traces, channel map, templates and cluster aggregate, for every spike train, window, `max_wf`, chunk size and
execution order of the domain — and the second recording is in the domain as soon as the first is. -/
theorem extraction_depends_on_content_only (choose : Choose) (rec rec' : Arr) (cn : List (List Nat)) (sp : List Spike)
    (off len maxWf cs cs' : Nat) (sched sched' : List Nat)
    (d : Domain choose rec cn sp off len maxWf cs sched) (d' : Domain choose rec' cn sp off len maxWf cs' sched')
    (hr : rec'.nrows = rec.nrows) (hn : rec'.ns = rec.ns)
    (hv : ∀ c t, c < rec.nrows → t < rec.ns → rec'.val c t = rec.val c t) :
    extractBin choose rec' cn sp off len maxWf cs' sched' = extractBin choose rec cn sp off len maxWf cs sched := by
  rw [extractBin_spec choose rec cn sp off len maxWf cs sched d,
    extractBin_spec choose rec' cn sp off len maxWf cs' sched' d',
    specOutput_content choose rec rec' cn sp off len maxWf cs sched d hr hn hv]

/-- **No state between calls.**  In a process that performs any list of extractions one after the other
(`runHistory`), the result of a call is `extractBin` of its OWN arguments, whatever calls (on the same path or not) were
made before or are made after it.  This is the statement the call-sequence cases of the correspondence run (same argument
objects twice, an unrelated recording extracted from the same path first, one loader serving several loads) are tied to. -/
theorem history_independent (pre post : List Call) (c : Call) :
    (runHistory (pre ++ c :: post))[pre.length]? = some (extractBin c.choose c.file c.cn c.sp c.off c.len c.maxWf c.cs c.sched) :=
  runHistory_at pre post c

/-- **The chunks partition the recording**, for EVERY chunk size `cs ≥ 1` and recording length `ns ≥ 1` (also when `cs` does
not divide `ns`, when the last chunk is shorter than a window, when `cs ≥ ns`): there are `⌈ns/cs⌉ ≥ 1` chunks, chunk `i` is
the non-empty range `[i·cs, chunkEnd i)` with `chunkEnd i = (i+1)·cs` except for the last chunk whose end is `ns`, and every
sample of the recording lies in exactly one chunk (number `s / cs`). -/
theorem chunks_partition_recording (ns cs : Nat) (hns : 0 < ns) (hcs : 0 < cs) :
    0 < (chunkStarts ns cs).length ∧
    chunkEnd ns cs (chunkStarts ns cs).length ((chunkStarts ns cs).length - 1) = ns ∧
    (∀ i, i + 1 < (chunkStarts ns cs).length → chunkEnd ns cs (chunkStarts ns cs).length i = (i + 1) * cs) ∧
    (∀ i, i < (chunkStarts ns cs).length →
      i * cs < chunkEnd ns cs (chunkStarts ns cs).length i ∧ chunkEnd ns cs (chunkStarts ns cs).length i ≤ ns) ∧
    (∀ s, s < ns → s / cs < (chunkStarts ns cs).length ∧ (s / cs) * cs ≤ s ∧
      s < chunkEnd ns cs (chunkStarts ns cs).length (s / cs) ∧
      ∀ j, j < (chunkStarts ns cs).length → j * cs ≤ s → s < chunkEnd ns cs (chunkStarts ns cs).length j → j = s / cs) := by
  have hpos : 0 < (chunkStarts ns cs).length := by
    rw [nchunks_eq]; exact Nat.div_pos (by omega) hcs
  refine ⟨hpos, ?_, ?_, ?_, ?_⟩
  · unfold chunkEnd
    have : (chunkStarts ns cs).length - 1 + 1 = (chunkStarts ns cs).length := by omega
    simp [this]
  · intro i hi
    unfold chunkEnd
    have : ¬ (i + 1 = (chunkStarts ns cs).length) := by omega
    simp only [this, if_false]
    rw [Nat.add_mul]; omega
  · intro i hi
    have := chunkEnd_le ns cs i hcs hi
    exact ⟨this.2.2, this.1⟩
  · intro s hs
    have h1 : s / cs * cs ≤ s := Nat.div_mul_le_self s cs
    have hlt : s / cs < (chunkStarts ns cs).length := by
      rw [nchunks_eq, lt_nchunks_iff ns cs _ hcs]; omega
    refine ⟨hlt, h1, ?_, ?_⟩
    · have h2 : s < cs * (s / cs + 1) := Nat.lt_mul_div_succ s hcs
      have h3 : cs * (s / cs + 1) = s / cs * cs + cs := by rw [Nat.mul_add, Nat.mul_comm]; omega
      unfold chunkEnd
      split
      · exact hs
      · omega
    · intro j hj hjs hse
      have hje := (chunkEnd_le ns cs j hcs hj).2.1
      have ha : j ≤ s / cs := (Nat.le_div_iff_mul_le hcs).mpr hjs
      have hb : s / cs < j + 1 := (Nat.div_lt_iff_lt_mul hcs).mpr (by rw [Nat.add_mul]; omega)
      omega

/-- **Template of a unit with ONE waveform** is that waveform (doubled, as all model templates are; NaN stays NaN): for every
waveform of `nnb` rows of `len` samples. -/
theorem template_single_waveform (nnb len : Nat) (w : Wf) (hw : w.length = nnb) (hrow : ∀ r ∈ w, r.length = len) :
    template2 nnb len [w] = w.map (fun r => r.map (fun x => x.map (2 * ·))) := by
  unfold template2
  apply List.ext_getElem
  · simp [hw]
  · intro c h1 h2
    have hc : c < w.length := by simpa using h2
    simp only [List.getElem_map, List.getElem_range, List.map_cons, List.map_nil, nanmedian2_single]
    have hl : (w[c]).length = len := hrow _ (List.getElem_mem hc)
    apply List.ext_getElem
    · simp [hl]
    · intro t h3 h4
      have ht : t < (w[c]).length := by simpa using h4
      simp [List.getD_eq_getElem?_getD, List.getElem?_eq_getElem hc, List.getElem?_eq_getElem ht]

/-! ### Non-vacuity: the hypotheses are satisfiable on non-trivial values -/

/-- a 4-site column with 20 µm pitch, radius 20: interior sites have 3 neighbours, the ends 2 + padding -/
example : channelIndex #[(0, 0), (0, 20), (0, 40), (0, 60)] 400 none
    = .ok [[0, 1, 4], [0, 1, 2], [1, 2, 3], [2, 3, 4]] := by decide +kernel

/-- two spikes, the second one's window ends at the last sample the assertion accepts -/
example : extract (Arr.addNan ⟨2, 12, fun c t => some ((10 * t + c : Nat) : Int)⟩) [[0, 1], [0, 1]]
    [(2, 0), (9, 1)] 2 4 = .ok [[[some 0, some 10, some 20, some 30], [some 1, some 11, some 21, some 31]],
      [[some 70, some 80, some 90, some 100], [some 71, some 81, some 91, some 101]]] := by decide +kernel

/-- the domain is inhabited: two units (one above `max_wf`), a spike on a chunk boundary, two chunks executed in
reverse order -/
example : Domain (fun _ cand k => cand.take k) ⟨1, 100, fun _ t => some (t : Int)⟩ [[0]]
    [⟨5, 1, 0⟩, ⟨50, 2, 0⟩, ⟨50, 1, 0⟩, ⟨60, 1, 0⟩, ⟨97, 1, 0⟩] 2 4 2 50 [1, 0] where
  law := (lawfulAll_iff _ _ _ _ _ _).mp (by decide +kernel)
  sortedInTime := by decide
  peaks := by decide
  table := by decide
  offLen := by decide
  offCs := by decide
  csPos := by decide
  maxWfPos := by decide
  someValid := ⟨⟨5, 1, 0⟩, by decide, by decide⟩
  sched := by decide +kernel

/-- the whole pipeline on that input: rows ordered by unit then time, numbered consecutively, `index_within_clusters`
restarting at every unit; unit 1 has three valid spikes (50, 60, 97 is too late, 5 is valid) and `max_wf = 2` -/
example : (match extractBin (fun _ cand k => cand.take k) ⟨1, 100, fun _ t => some (t : Int)⟩ [[0]]
      [⟨5, 1, 0⟩, ⟨50, 2, 0⟩, ⟨50, 1, 0⟩, ⟨60, 1, 0⟩, ⟨97, 1, 0⟩] 2 4 2 50 [1, 0] with
    | .ok o => some (o.table.map (fun r => [r.sample, r.cluster, (r.wi : Int), r.iwc]), o.traces)
    | .error _ => none)
    = some ([[5, 1, 0, 0], [50, 1, 1, 1], [50, 2, 2, 0]],
        [[[some 3, some 4, some 5, some 6]], [[some 48, some 49, some 50, some 51]],
         [[some 48, some 49, some 50, some 51]]]) := by decide +kernel

/-- `chunk_independent`: chunk 1 of 2 (samples 50…99), two rows, the second window ends at the last sample allowed -/
example : writeChunk ⟨1, 100, fun _ t => some (t : Int)⟩ [[0]] 2 4 50 100 2 1
      [⟨0, 50, 1, 0, 0, 0⟩, ⟨1, 97, 1, 0, 1, 0⟩]
    = .ok [(0, [[some 48, some 49, some 50, some 51]]), (1, [[some 95, some 96, some 97, some 98]])] := by
  decide +kernel

/-- `templates_rows_are_units_partial`: in the domain example every unit has a valid spike -/
example : ∀ u ∈ unitIds [⟨5, 1, 0⟩, ⟨50, 2, 0⟩, ⟨50, 1, 0⟩, ⟨60, 1, 0⟩, ⟨97, 1, 0⟩],
    ∃ s ∈ [(⟨5, 1, 0⟩ : Spike), ⟨50, 2, 0⟩, ⟨50, 1, 0⟩, ⟨60, 1, 0⟩, ⟨97, 1, 0⟩],
      s.cluster = u ∧ allowed 100 2 4 s.sample = true := by decide +kernel

/-- `extraction_depends_on_content_only`: the domain example and a recording that differs only OUTSIDE its dimensions
(row 7, sample 500) — both in the domain, same result -/
example : Domain (fun _ cand k => cand.take k) ⟨1, 100, fun c t => if c < 1 ∧ t < 100 then some (t : Int) else some 77⟩ [[0]]
    [⟨5, 1, 0⟩, ⟨50, 2, 0⟩, ⟨50, 1, 0⟩, ⟨60, 1, 0⟩, ⟨97, 1, 0⟩] 2 4 2 50 [1, 0] :=
  Domain.content (rec := ⟨1, 100, fun _ t => some (t : Int)⟩)
    { law := (lawfulAll_iff _ _ _ _ _ _).mp (by decide +kernel), sortedInTime := by decide, peaks := by decide,
      table := by decide, offLen := by decide, offCs := by decide, csPos := by decide, maxWfPos := by decide,
      someValid := ⟨⟨5, 1, 0⟩, by decide, by decide⟩, sched := by decide +kernel } _ rfl rfl

/-- `chunks_partition_recording`: 1001 samples in chunks of 500 — three chunks, the last one of a single sample -/
example : (chunkStarts 1001 500).length = 3 ∧ chunkEnd 1001 500 3 2 = 1001 ∧ chunkEnd 1001 500 3 1 = 1000 := by decide

/-- `template_single_waveform`: one waveform of 2 rows x 2 samples with a NaN -/
example : template2 2 2 [[[some 3, none], [some (-1), some 4]]] = [[some 6, none], [some (-2), some 8]] := by decide +kernel

/-- the constants the code owns: defaults of `_make_wfs_table` (the correspondence run also asserts that
`extract_wfs_array` and `extract_wfs_cbin` carry the same defaults) -/
example : Generated.WF_TROUGH_OFFSET ≤ Generated.WF_LENGTH ∧ Generated.WF_TROUGH_OFFSET ≤ 500 := by decide

end IblVerif.C13
