/-
C05 — Destriping removes ADC-skewed common noise and keeps local spikes.

Property theorems only (helper lemmas: `Lemmas/Destripe.lean`, `Analysis/Destripe.lean`).  They are the exact
(algebraic) part of the property, proved over ℝ for the definitions of `Model/Destripe.lean` that the
`Float` driver executes:

  * referencing leaves a zero median / mean at every sample within each channel group   car_zero_median, car_zero_mean
  * filtering with channel groups = filtering each group on its own, same settings       groups_eq_per_group (+ car/kfilt/fk instances)
  * gain control returns data and gain whose product is the input                         agc_product
  * channels labelled outside the brain are excluded from the spatial filter              outside_rows_untouched
  * a disturbance that is common to all channels once re-aligned is removed exactly       car_kills_common_mode, kfilt_kills_common_mode,
                                                                                          destripe_removes_aligned_common_mode
  * the re-alignment by +sample_shift makes an ADC-skewed band-limited disturbance common aligned_common_mode,
                                                                                          destripe_removes_adc_skewed_stripe
  * the ADC delays are sub-sample fractions, shared by the channels of one ADC cycle slot adc_shift_lt_one, adc_same_slot_same_shift

Growth round (mechanisms that were only compared numerically or assumed before):
  * mirrored padding of kfilt / fk as Python list operations: length, index map, stripping = identity      pad_strip_identity, pad_rows_index_map
  * padding + taper + un-padding leave the recorded channels untouched (identity filter)                   kfilt_pad_taper_strip_identity, taper_range
  * agc: gain > 0 on every row that is not identically zero, dead rows = zero rows, epsilon rule, window    agc_gain_positive, agc_dead_iff_zero_row,
                                                                                                           agc_epsilon_rule, agc_window
  * scipy's sosfiltfilt (odd extension, sosfilt_zi, both passes) removes constants when a section has      sosfiltfilt_removes_constants,
    zero DC gain: the law `KillsConst` is proved for the modelled filter                                   kfilt_sos_kills_common_mode
  * the functional models carry the stage order that the translator tie reads off the source               kfilt_stage_order, destripe_stage_order

Not provable as theorems (kept numeric, checked by the oracle in `harness/props/c05.py` every run):
  -- attenuation_ge_40dB : a stripe s(t + d_c) is attenuated by ≥ 40 dB by destripe / destripe_lfp (both spatial variants, all probes)
  -- spike_retention_ge_90 : a spike on ≤ 3 neighbouring channels keeps ≥ 90 % of its high-passed amplitude
these depend on the Butterworth responses and on edge effects of the finite window.
-/
import IblVerif.Analysis.Destripe
import IblVerif.Analysis.DestripeAlign
import IblVerif.Analysis.DestripeGain
import IblVerif.Analysis.DestripeSos
import IblVerif.Generated.Constants

namespace IblVerif.C05
open IblVerif.Destripe

/-! ### channel groups -/

/-- **Filtering with channel groups equals filtering each group on its own.**  For any per-group function `f`
(the same closure — hence the same operator / filter / gain-control settings — for every group):
if the grouped call succeeds, row `i` of the result is the row of `f (x[group of i, :])` that holds channel `i`;
and the grouped call fails only if `f` fails on some group, with that error. -/
theorem groups_eq_per_group {α : Type} [OfNat α 0] (f : Nat → Mat α → Except Err (Mat α)) (nc ns : Nat)
    (coll : Nat → Int) (x : Mat α) :
    (∀ y, grouped f nc ns coll x = .ok y → ∀ i, i < nc → ∀ t,
      ∃ yg, f (selIdx nc (groupSel coll (coll i))).length (subRows (selIdx nc (groupSel coll (coll i))) ns x) = .ok yg ∧
        y.get i t = yg.get (rank (groupSel coll (coll i)) i) t) ∧
    (∀ err, grouped f nc ns coll x = .error err → ∃ i, i < nc ∧
      f (selIdx nc (groupSel coll (coll i))).length (subRows (selIdx nc (groupSel coll (coll i))) ns x) = .error err) :=
  ⟨fun y h i hi t => grouped_ok f nc ns coll x y h i hi t, fun err h => grouped_error f nc ns coll x err h⟩

/-- The sub-array handed to the per-group function really is the group: its row `rank i` is row `i` of `x`,
and all its rows are rows of channels with the same group value. -/
theorem group_rows {α : Type} (nc ns : Nat) (coll : Nat → Int) (x : Mat α) (i : Nat) (hi : i < nc) (t : Nat) :
    (subRows (selIdx nc (groupSel coll (coll i))) ns x).get (rank (groupSel coll (coll i)) i) t = x.get i t ∧
    ∀ j ∈ selIdx nc (groupSel coll (coll i)), j < nc ∧ coll j = coll i := by
  refine ⟨subRows_rank _ nc ns i t x hi (by simp [groupSel]), ?_⟩
  intro j hj
  simpa [selIdx, groupSel] using hj

/-- `car(x, collection, operator)` restricted to a group = `car(x[group], operator)` with the same operator. -/
theorem car_groups_eq_per_group (op : Operator) (nc ns : Nat) (g : Nat → Int) (x : Mat ℝ) :
    ∃ y, car realEnv op nc ns (some g) x = .ok y ∧ ∀ i, i < nc → ∀ t,
      ∃ yg, car realEnv op (selIdx nc (groupSel g (g i))).length ns none (subRows (selIdx nc (groupSel g (g i))) ns x) = .ok yg ∧
        y.get i t = yg.get (rank (groupSel g (g i)) i) t := by
  cases h : car realEnv op nc ns (some g) x with
  | error err =>
    simp only [car] at h
    obtain ⟨i, _, hf⟩ := grouped_error _ nc ns g x err h
    simp at hf
  | ok y =>
    refine ⟨y, rfl, ?_⟩
    intro i hi t
    simp only [car] at h
    obtain ⟨yg, hyg, hget⟩ := grouped_ok _ nc ns g x y h i hi t
    exact ⟨yg, by simpa [car, groupArg] using hyg, hget⟩

/-- `kfilt(x, collection, …)` restricted to a group = `kfilt(x[group], …)` with the caller's filter (`L`, `padlen`)
and gain-control length (`lagc`); the code fixes the per-group padding to `ntr_pad=0, ntr_tap=None`. -/
theorem kfilt_groups_eq_per_group (s : KSet ℝ) (nc ns : Nat) (g : Nat → Int) (x y : Mat ℝ)
    (h : kfilt realEnv s nc ns (some g) x = .ok y) (i : Nat) (hi : i < nc) (t : Nat) :
    ∃ yg, kfilt realEnv { ntrPad := 0, ntrTap := none, lagc := s.lagc, L := s.L, padlen := s.padlen }
            (selIdx nc (groupSel g (g i))).length ns none (subRows (selIdx nc (groupSel g (g i))) ns x) = .ok yg ∧
      y.get i t = yg.get (rank (groupSel g (g i)) i) t := by
  simp only [kfilt] at h
  obtain ⟨yg, hyg, hget⟩ := grouped_ok _ nc ns g x y h i hi t
  exact ⟨yg, by simpa [kfilt, groupArg] using hyg, hget⟩

/-- `fk(x, collection, **settings)` restricted to a group = `fk(x[group], **settings)`: every setting is forwarded. -/
theorem fk_groups_eq_per_group (fk1 : Nat → Mat ℝ → Except Err (Mat ℝ)) (nc ns : Nat) (g : Nat → Int) (x y : Mat ℝ)
    (h : fk fk1 nc ns (some g) x = .ok y) (i : Nat) (hi : i < nc) (t : Nat) :
    ∃ yg, fk fk1 (selIdx nc (groupSel g (g i))).length ns none (subRows (selIdx nc (groupSel g (g i))) ns x) = .ok yg ∧
      y.get i t = yg.get (rank (groupSel g (g i)) i) t := by
  simp only [fk] at h
  obtain ⟨yg, hyg, hget⟩ := grouped_ok _ nc ns g x y h i hi t
  exact ⟨yg, by simpa [fk, groupArg] using hyg, hget⟩

/-! ### referencing -/

/-- **Median referencing leaves a zero median at every sample within each channel group** (the whole array when no
groups are given). -/
theorem car_zero_median (nc ns : Nat) (coll : Option (Nat → Int)) (x y : Mat ℝ)
    (h : car realEnv .median nc ns coll x = .ok y) (i : Nat) (hi : i < nc) (t : Nat) :
    median realEnv ((groupMembers nc coll i).map (fun j => y.get j t)) = 0 := by
  have hm := car_member .median nc ns coll x y h i t
  have hne : (groupMembers nc coll i).map (fun k => x.get k t) ≠ [] := by
    intro h0
    have := mem_groupMembers_self nc coll i hi
    rw [List.map_eq_nil_iff] at h0
    rw [h0] at this; cases this
  have : (groupMembers nc coll i).map (fun j => y.get j t)
      = ((groupMembers nc coll i).map (fun k => x.get k t)).map
          (· - median realEnv ((groupMembers nc coll i).map (fun k => x.get k t))) := by
    rw [List.map_map]
    exact List.map_congr_left (fun j hj => by simpa [centre] using hm j hj)
  rw [this, median_map_sub _ _ hne, sub_self]

/-- **Mean referencing leaves a zero mean at every sample within each channel group.** -/
theorem car_zero_mean (nc ns : Nat) (coll : Option (Nat → Int)) (x y : Mat ℝ)
    (h : car realEnv .average nc ns coll x = .ok y) (i : Nat) (hi : i < nc) (t : Nat) :
    mean realEnv ((groupMembers nc coll i).map (fun j => y.get j t)) = 0 := by
  have hm := car_member .average nc ns coll x y h i t
  have hne : (groupMembers nc coll i).map (fun k => x.get k t) ≠ [] := by
    intro h0
    have := mem_groupMembers_self nc coll i hi
    rw [List.map_eq_nil_iff] at h0
    rw [h0] at this; cases this
  have : (groupMembers nc coll i).map (fun j => y.get j t)
      = ((groupMembers nc coll i).map (fun k => x.get k t)).map
          (· - mean realEnv ((groupMembers nc coll i).map (fun k => x.get k t))) := by
    rw [List.map_map]
    exact List.map_congr_left (fun j hj => by simpa [centre] using hm j hj)
  rw [this, mean_map_sub _ hne, sub_self]

/-- `car` never fails, and an operator string that is neither 'median' nor 'average' returns the input. -/
theorem car_other_is_identity (nc ns : Nat) (x : Mat ℝ) : car realEnv .other nc ns none x = .ok x := rfl

/-! ### gain control -/

/-- **Gain control returns data and gain whose product is the input**, at every sample of every row
(`epsilon > 0`, any window length; rows the code calls dead are all-zero rows and are returned unchanged). -/
theorem agc_product (nc ns lagc : Nat) (eps : ℝ) (heps : 0 < eps) (x : Mat ℝ) (c t : Nat) (ht : t < ns) :
    (agc realEnv nc ns lagc eps x).data.get c t * (agc realEnv nc ns lagc eps x).gain.get c t = x.get c t ∧
    ((agc realEnv nc ns lagc eps x).dead.get c = true → (agc realEnv nc ns lagc eps x).data.get c t = x.get c t) := by
  refine ⟨agc_product_real nc ns lagc eps heps x c t ht, ?_⟩
  intro hd
  unfold agc at *
  rw [agcW_data, hd]; rfl

/-! ### channels outside the brain -/

/-- **Channels labelled 3 are excluded from the spatial filter**: with labels, `destripe` hands the spatial function
exactly the rows with label ≠ 3 (every row of its argument is such a row, in order), writes its result back to those
rows only, and returns the rows labelled 3 as they were after the temporal filter, re-alignment and interpolation. -/
theorem outside_rows_untouched {α : Type} (d : DSet α) (nc ns : Nat) (ss : Nat → α) (lab : Nat → Nat) (x y : Mat α)
    (h : destripe d nc ns ss (some lab) x = .ok y) :
    ∃ ys, d.spatial (selIdx nc (insideSel lab)).length
            (subRows (selIdx nc (insideSel lab)) ns (d.interp lab (aligned d nc ns ss x))) = .ok ys ∧
      (∀ i t, lab i = 3 → y.get i t = (d.interp lab (aligned d nc ns ss x)).get i t) ∧
      (∀ i t, lab i ≠ 3 → y.get i t = ys.get (rank (insideSel lab) i) t) ∧
      (∀ k, k < (selIdx nc (insideSel lab)).length → ∃ i, i < nc ∧ lab i ≠ 3 ∧ ∀ t,
        (subRows (selIdx nc (insideSel lab)) ns (d.interp lab (aligned d nc ns ss x))).get k t
          = (d.interp lab (aligned d nc ns ss x)).get i t) := by
  simp only [destripe] at h
  cases hs : d.spatial (selIdx nc (insideSel lab)).length
      (subRows (selIdx nc (insideSel lab)) ns (d.interp lab (aligned d nc ns ss x))) with
  | error err => rw [hs] at h; simp at h
  | ok ys =>
    rw [hs] at h
    simp only [Except.ok.injEq] at h
    subst h
    refine ⟨ys, rfl, ?_, ?_, ?_⟩
    · intro i t hl; rw [assignRows_get]; simp [insideSel, hl]
    · intro i t hl; rw [assignRows_get]; simp [insideSel, hl]
    · intro k hk
      have hmem : (selIdx nc (insideSel lab))[k] ∈ selIdx nc (insideSel lab) := List.getElem_mem hk
      simp only [selIdx, insideSel, List.mem_filter, List.mem_range, bne_iff_ne, ne_eq] at hmem
      refine ⟨(selIdx nc (insideSel lab))[k], hmem.1, hmem.2, ?_⟩
      intro t
      rw [subRows_get, List.getD_eq_getElem?_getD, List.getElem?_eq_getElem hk]; rfl

/-! ### a disturbance common to all channels is removed exactly -/

/-- **Referencing removes a common mode**: if at sample `t` all channels of the group of `i` carry the same value
(the stripe after re-alignment), median and mean referencing return 0 there. -/
theorem car_kills_common_mode (op : Operator) (hop : op ≠ .other) (nc ns : Nat) (coll : Option (Nat → Int))
    (x y : Mat ℝ) (h : car realEnv op nc ns coll x = .ok y) (i : Nat) (hi : i < nc) (t : Nat) (r : ℝ)
    (hx : ∀ j ∈ groupMembers nc coll i, x.get j t = r) : y.get i t = 0 := by
  have hself := mem_groupMembers_self nc coll i hi
  have hm := car_member op nc ns coll x y h i t i hself
  have hrep : (groupMembers nc coll i).map (fun k => x.get k t)
      = List.replicate (groupMembers nc coll i).length r := by
    rw [List.eq_replicate_iff]
    refine ⟨by simp, ?_⟩
    intro b hb
    obtain ⟨j, hj, rfl⟩ := List.mem_map.mp hb
    exact hx j hj
  have hpos : 0 < (groupMembers nc coll i).length := List.length_pos_of_mem hself
  rw [hm, hrep, hx i hself]
  cases op with
  | median => simp [centre, median_replicate _ hpos]
  | average => simp [centre, mean_replicate _ hpos]
  | other => exact absurd rfl hop

/-- **The k-filter removes a common mode** (no taper, as in `destripe`'s defaults; with or without gain control;
any mirror padding), provided the spatial high-pass removes constants (`KillsConst`, zero DC gain — assumed of
`scipy.signal.sosfiltfilt` and measured by the harness). -/
theorem kfilt_kills_common_mode (s : KSet ℝ) (hL : KillsConst s.L) (htap : tapOf s = 0) (nx ns : Nat)
    (x y : Mat ℝ) (h : kfilt realEnv s nx ns none x = .ok y) (r : Nat → ℝ)
    (hx : ∀ c, c < nx → ∀ t, t < ns → x.get c t = r t) (c : Nat) (hc : c < nx) (t : Nat) (ht : t < ns) :
    y.get c t = 0 := by
  simp only [kfilt, kfilt1] at h
  split at h
  · simp at h
  · rename_i hpad
    split at h
    · simp at h
    · have hpad' : s.ntrPad ≤ nx := by omega
      cases hl : lagcOn s.lagc with
      | none =>
        rw [hl] at h
        simp only [Except.ok.injEq] at h
        subst h
        exact kfiltCore_common_mode s hL htap nx ns x none hpad' t
          (fun c' hc' => by rw [hx c' hc' t ht, hx 0 (by omega) t ht]) c hc
      | some l =>
        rw [hl] at h
        simp only [Except.ok.injEq] at h
        subst h
        apply kfiltCore_common_mode s hL htap nx ns _ _ hpad' t _ c hc
        intro c' hc'
        exact (agcW_row_congr nx ns _ _ _ x c' 0
          (fun j hj => by rw [hx c' hc' j hj, hx 0 (by omega) j hj]) t ht).1

/-- **Destriping removes a disturbance that is common to all channels once re-aligned** (no labels): if the
temporally filtered, re-aligned rows all equal one trace `r` — which is what the re-alignment by each channel's ADC
delay achieves for a disturbance hitting all channels at the same instant (property C07) — the output is 0 for
median / mean referencing and for the k-filter (under the hypotheses of `kfilt_kills_common_mode`). -/
theorem destripe_removes_aligned_common_mode (d : DSet ℝ) (nc ns : Nat) (ss : Nat → ℝ) (x y : Mat ℝ) (r : Nat → ℝ)
    (hal : ∀ c, c < nc → ∀ t, t < ns → (aligned d nc ns ss x).get c t = r t)
    (h : destripe d nc ns ss none x = .ok y) :
    (∀ op, op ≠ Operator.other → d.spatial = (fun n z => car realEnv op n ns none z) →
        ∀ c, c < nc → ∀ t, t < ns → y.get c t = 0) ∧
    (∀ s : KSet ℝ, KillsConst s.L → tapOf s = 0 → d.spatial = (fun n z => kfilt realEnv s n ns none z) →
        ∀ c, c < nc → ∀ t, t < ns → y.get c t = 0) := by
  simp only [destripe] at h
  constructor
  · intro op hop hsp c hc t ht
    rw [hsp] at h
    exact car_kills_common_mode op hop nc ns none _ y h c hc t (r t)
      (fun j hj => hal j (List.mem_range.mp hj) t ht)
  · intro s hL htap hsp c hc t ht
    rw [hsp] at h
    exact kfilt_kills_common_mode s hL htap nc ns _ y h r hal c hc t ht

/-- **The re-alignment makes an ADC-skewed disturbance common to all channels.**  If, after the temporal filter,
channel `c` holds a band-limited periodic waveform sampled `ss c` samples late (its ADC delay: the disturbance hits all
channels at the same physical instant, channel `c` is read `ss c` of a sample later), then shifting row `c` by
`+ss c` with the kernel of `fourier.fshift` gives every channel the waveform sampled on time: all rows are equal.
(With the opposite sign of the shift the rows would be `2 ss c` apart instead.) -/
theorem aligned_common_mode (d : DSet ℝ) (nc ns : Nat) (ss : Nat → ℝ) (x : Mat ℝ) (w : Wave) (hw : BandLimited ns w)
    (hshift : d.shift = some (fshiftRow realEnv ns))
    (hrec : ∀ c, c < nc → ∀ j, j < ns → (d.hp (x.row c)).get j = waveAt ns w ((j : ℝ) + ss c)) :
    ∀ c, c < nc → ∀ t, t < ns → (aligned d nc ns ss x).get c t = waveAt ns w (t : ℝ) := by
  intro c hc t ht
  simp only [aligned, hshift, Mat.get_tab, Vec.get_tab]
  exact fshiftRow_wave ns (ss c) w hw _ (hrec c hc) t ht

/-- **Destriping removes an ADC-skewed common disturbance exactly** (over ℝ, periodic band-limited idealisation, no
labels): the composition of `aligned_common_mode` and `destripe_removes_aligned_common_mode`. -/
theorem destripe_removes_adc_skewed_stripe (d : DSet ℝ) (nc ns : Nat) (ss : Nat → ℝ) (x y : Mat ℝ) (w : Wave)
    (hw : BandLimited ns w) (hshift : d.shift = some (fshiftRow realEnv ns))
    (hrec : ∀ c, c < nc → ∀ j, j < ns → (d.hp (x.row c)).get j = waveAt ns w ((j : ℝ) + ss c))
    (h : destripe d nc ns ss none x = .ok y) :
    (∀ op, op ≠ Operator.other → d.spatial = (fun n z => car realEnv op n ns none z) →
        ∀ c, c < nc → ∀ t, t < ns → y.get c t = 0) ∧
    (∀ s : KSet ℝ, KillsConst s.L → tapOf s = 0 → d.spatial = (fun n z => kfilt realEnv s n ns none z) →
        ∀ c, c < nc → ∀ t, t < ns → y.get c t = 0) :=
  destripe_removes_aligned_common_mode d nc ns ss x y (fun t => waveAt ns w (t : ℝ))
    (aligned_common_mode d nc ns ss x w hw hshift hrec) h

/-! ### ADC delays -/

/-- The ADC delay of every channel is a proper fraction of a sample, `0 ≤ num / n_cycles < 1`, whenever an ADC
serves at most `n_cycles` channels. -/
theorem adc_shift_lt_one (adcChannels nCycles c : Nat) (h0 : 0 < adcChannels) (h : adcChannels ≤ nCycles) :
    (adcShift adcChannels nCycles c).1 < (adcShift adcChannels nCycles c).2 := by
  simp only [adcShift]
  have : c % (2 * adcChannels) < 2 * adcChannels := Nat.mod_lt _ (by omega)
  omega

/-- The tables in the source satisfy that condition (NP1 / NPultra: 12 channels per ADC, 13 cycles; NP2: 16, 16). -/
theorem adc_tables_valid :
    0 < Generated.ADC_NP1_CHANNELS ∧ Generated.ADC_NP1_CHANNELS ≤ Generated.ADC_NP1_CYCLES ∧
    0 < Generated.ADC_NP2_CHANNELS ∧ Generated.ADC_NP2_CHANNELS ≤ Generated.ADC_NP2_CYCLES := by
  decide

/-- Channels `c` and `c + 1` of an even `c` (the two ADCs of a pair) and channels one ADC block apart are sampled at
the same instant: equal delays, different ADCs. -/
theorem adc_same_slot_same_shift (a n c : Nat) (h0 : 0 < a) (hc : c % 2 = 0) :
    adcShift a n (c + 1) = adcShift a n c ∧ adcShift a n (c + 2 * a) = adcShift a n c ∧
    adcIndex a (c + 1) ≠ adcIndex a c ∧ adcIndex a (c + 2 * a) ≠ adcIndex a c := by
  have hmod : (c + 1) % (2 * a) = c % (2 * a) + 1 := by
    have h1 : c % (2 * a) % 2 = 0 := by
      rw [Nat.mod_mod_of_dvd c (Dvd.intro a rfl)]; exact hc
    have h2 : c % (2 * a) < 2 * a := Nat.mod_lt _ (by omega)
    have h3 : c % (2 * a) + 1 < 2 * a := by omega
    rw [Nat.add_mod, Nat.mod_eq_of_lt (by omega : 1 < 2 * a)]
    exact Nat.mod_eq_of_lt h3
  have hdiv : (c + 2 * a) / (2 * a) = c / (2 * a) + 1 := Nat.add_div_right c (by omega)
  have hdiv1 : (c + 1) / (2 * a) = c / (2 * a) := by
    have h1 : c % (2 * a) % 2 = 0 := by
      rw [Nat.mod_mod_of_dvd c (Dvd.intro a rfl)]; exact hc
    have h2 : c % (2 * a) < 2 * a := Nat.mod_lt _ (by omega)
    have := Nat.div_add_mod c (2 * a)
    apply Nat.div_eq_of_lt_le
    · calc c / (2 * a) * (2 * a) ≤ c := Nat.div_mul_le_self c (2 * a)
        _ ≤ c + 1 := Nat.le_succ c
    · have : c + 1 < (c / (2 * a) + 1) * (2 * a) := by
        rw [Nat.add_mul, Nat.one_mul, Nat.mul_comm (c / (2 * a))]; omega
      exact this
  refine ⟨?_, ?_, ?_, ?_⟩
  · simp only [adcShift, hmod, Prod.mk.injEq, and_true]
    have h1 : c % (2 * a) % 2 = 0 := by
      rw [Nat.mod_mod_of_dvd c (Dvd.intro a rfl)]; exact hc
    omega
  · simp only [adcShift, Nat.add_mod_right]
  · simp only [adcIndex, hdiv1]; omega
  · simp only [adcIndex, hdiv]; omega

/-! ### growth round: mirrored padding -/

/-- **Stripping the padding returns exactly the original rows** — `xf[ntr_pad:-ntr_pad]` of
`np.r_[np.flipud(xf[:ntr_pad]), xf, np.flipud(xf[-ntr_pad:])]` with their guards `if ntr_pad > 0`, Python slice
semantics, for every list of rows and every `ntr_pad ≤ nc` (`ntr_pad = 0` included). -/
theorem pad_strip_identity {β : Type} (pad : Nat) (rows : List β) (h : pad ≤ rows.length) :
    stripRowsIf pad (padRowsIf pad rows) = rows :=
  strip_padRowsIf pad rows h

/-- **The padded array**: `nx + 2·ntr_pad` rows; row `p` is row `mirrorIdx nx pad p` of the data (the index map the
functional model `kfiltCore` uses), always a valid row; the recorded channels sit at `pad … pad + nx - 1`; the padding
mirrors about the array edges, `k` rows out = row `k` resp. `nx - 1 - k`. -/
theorem pad_rows_index_map (nx pad : Nat) (h : pad ≤ nx) :
    (padIdx nx pad).length = nx + pad * 2 ∧
    (∀ p, p < nx + pad * 2 → (padIdx nx pad)[p]? = some (mirrorIdx nx pad p) ∧ mirrorIdx nx pad p < nx) ∧
    (∀ c, c < nx → mirrorIdx nx pad (c + pad) = c) ∧
    (∀ k, k < pad → mirrorIdx nx pad (pad - 1 - k) = k ∧ mirrorIdx nx pad (pad + nx + k) = nx - 1 - k) := by
  refine ⟨padIdx_length nx pad h, ?_, fun c hc => mirrorIdx_inner nx pad c hc, fun k hk => mirrorIdx_edges nx pad k hk⟩
  intro p hp
  refine ⟨padIdx_getElem? nx pad h p hp, ?_⟩
  unfold mirrorIdx; split
  · omega
  · split <;> omega

/-- The guard `if ntr_pad > 0` is needed: `xf[-0:]` is the whole array, the unguarded statement would append a mirrored copy. -/
theorem pad_guard_needed {β : Type} (rows : List β) : padRows 0 rows = rows ++ rows.reverse := padRows_zero rows

/-- the cosine taper of `kfilt` / `fk` takes values in [0, 1] and is exactly 1 on rows `ntr_tap … nxp - ntr_tap` -/
theorem taper_range (nxp tap p : Nat) :
    0 ≤ taper realEnv nxp tap p ∧ taper realEnv nxp tap p ≤ 1 ∧
    (0 < tap → tap ≤ p → p + tap ≤ nxp → taper realEnv nxp tap p = 1) :=
  ⟨(taper_bounds nxp tap p).1, (taper_bounds nxp tap p).2, taper_inside_one nxp tap p⟩

/-- **Padding, taper and un-padding leave the recorded channels untouched**: with the identity in place of the spatial
filter and gain control off, `kfilt` returns its input, for every `ntr_pad ≤ nc` and every taper not longer than the
padding (`ntr_tap = None`, i.e. `ntr_pad`, or 0, or anything in between). -/
theorem kfilt_pad_taper_strip_identity (s : KSet ℝ) (hL : ∀ n v, s.L n v = v) (hlagc : lagcOn s.lagc = none)
    (htap : tapOf s ≤ s.ntrPad) (nx ns : Nat) (x y : Mat ℝ) (h : kfilt realEnv s nx ns none x = .ok y)
    (c : Nat) (hc : c < nx) (t : Nat) : y.get c t = x.get c t := by
  simp only [kfilt, kfilt1] at h
  split at h
  · simp at h
  · split at h
    · simp at h
    · rw [hlagc] at h
      simp only [Except.ok.injEq] at h
      subst h
      exact kfiltCore_identity s hL htap nx ns x c hc t

/-! ### growth round: gain control -/

/-- **The gain of `agc` is strictly positive at every sample of every row that is not identically zero** (`epsilon > 0`),
and such a row is not treated as dead (so `data = x / gain` there). -/
theorem agc_gain_positive (nc ns lagc : Nat) (eps : ℝ) (heps : 0 < eps) (x : Mat ℝ) (c : Nat)
    (hlive : ∃ t, t < ns ∧ x.get c t ≠ 0) :
    (∀ t, 0 < (agc realEnv nc ns lagc eps x).gain.get c t) ∧ (agc realEnv nc ns lagc eps x).dead.get c = false := by
  obtain ⟨h1, h2, h3⟩ := agc_window_ok lagc
  unfold agc
  refine ⟨fun t => agcW_gain_pos ns _ _ eps x h1 h2 h3 heps nc c hlive t, ?_⟩
  cases hd : (agcW realEnv nc ns (agcWin lagc) (hanning realEnv (agcWin lagc)) eps x).dead.get c with
  | false => rfl
  | true =>
    obtain ⟨t, ht, hx⟩ := hlive
    exact absurd ((agcW_dead_iff ns _ _ eps x h1 h2 h3 heps nc c).mp hd t ht) hx

/-- **The rows `agc` leaves alone (`dead_channels`) are exactly the all-zero rows**; their gain is 0. -/
theorem agc_dead_iff_zero_row (nc ns lagc : Nat) (eps : ℝ) (heps : 0 < eps) (x : Mat ℝ) (c : Nat) :
    ((agc realEnv nc ns lagc eps x).dead.get c = true ↔ ∀ t, t < ns → x.get c t = 0) ∧
    ((∀ t, t < ns → x.get c t = 0) → ∀ t, (agc realEnv nc ns lagc eps x).gain.get c t = 0) := by
  obtain ⟨h1, h2, h3⟩ := agc_window_ok lagc
  unfold agc
  exact ⟨agcW_dead_iff ns _ _ eps x h1 h2 h3 heps nc c, fun hz t => agcW_zero_row ns _ _ eps x h1 h2 h3 nc c hz t⟩

/-- **The epsilon rule**: `gain[c, t] ≥ epsilon · mean_t(envelope[c, ·])` — the whitening term is a floor under the gain. -/
theorem agc_epsilon_rule (nc ns lagc : Nat) (eps : ℝ) (x : Mat ℝ) (c t : Nat) :
    sumTo ns (env0 ns (agcWin lagc) (hanning realEnv (agcWin lagc)) x c) * eps / (ns : ℝ)
      ≤ (agc realEnv nc ns lagc eps x).gain.get c t := by
  obtain ⟨h1, h2, h3⟩ := agc_window_ok lagc
  unfold agc
  exact agcW_gain_ge ns _ _ eps x h1 h2 h3 nc c t

/-- the window of `agc(x, wl=lagc, si=1.0)`: the general formula at `wl / si = lagc`, odd, between `lagc` and `lagc + 2` -/
theorem agc_window (lagc : Nat) :
    agcWin lagc = agcWinQ lagc 1 1 1 ∧ agcWin lagc % 2 = 1 ∧ lagc ≤ agcWin lagc ∧ agcWin lagc ≤ lagc + 2 := by
  refine ⟨agcWin_eq_Q lagc, ?_, ?_, ?_⟩ <;> (unfold agcWin roundHalf; split <;> (try split) <;> omega)

/-! ### growth round: the spatial high-pass removes constants -/

/-- **`scipy.signal.sosfiltfilt` (as modelled: odd extension, `sosfilt_zi`, forward and backward pass, un-padding)
maps a constant signal to 0** whenever one section has a numerator summing to 0 and no section has `a.sum() = 0`. -/
theorem sosfiltfilt_removes_constants (secs : List (Sec ℝ)) (hreg : ∀ s ∈ secs, s.regular) (hz : ∃ s ∈ secs, s.zeroDC)
    (edge : Nat) (x : List ℝ) (a : ℝ) (hx : ∀ v ∈ x, v = a) : ∀ v ∈ sosfiltfilt realEnv secs edge x, v = 0 :=
  sosfiltfilt_kills_const secs hreg hz edge x a hx

/-- **The k-filter removes a common mode, with the spatial filter modelled** (no assumed law left but the section
coefficients): `kfilt_kills_common_mode` with `L = sosfiltfilt` of sections of which one has zero DC gain. -/
theorem kfilt_sos_kills_common_mode (secs : List (Sec ℝ)) (hreg : ∀ s ∈ secs, s.regular) (hz : ∃ s ∈ secs, s.zeroDC)
    (s : KSet ℝ) (hs : s.L = sosL realEnv secs s.padlen) (htap : tapOf s = 0) (nx ns : Nat)
    (x y : Mat ℝ) (h : kfilt realEnv s nx ns none x = .ok y) (r : Nat → ℝ)
    (hx : ∀ c, c < nx → ∀ t, t < ns → x.get c t = r t) (c : Nat) (hc : c < nx) (t : Nat) (ht : t < ns) :
    y.get c t = 0 :=
  kfilt_kills_common_mode s (by rw [hs]; exact sosL_killsConst secs hreg hz s.padlen) htap nx ns x y h r hx c hc t ht

/-! ### growth round: the stage order carried by the functional models -/

/-- `kfilt` (no collection) performs the stages `kfiltStages`: copy or `agc(si = 1)`, taper iff `ntr_tap > 0`, filter along
the channels — the list the translator tie proves equal to the source's own sequence of calls. -/
theorem kfilt_stage_order (s : KSet ℝ) (nx ns : Nat) (x : Mat ℝ) (h : s.ntrPad ≤ nx) :
    (kfilt1T realEnv s nx ns x).1 = kfilt realEnv s nx ns none x ∧
    (kfilt1T realEnv s nx ns x).2 = kfiltStages (lagcOn s.lagc).isSome nx s.ntrPad (tapArg s.ntrPad s.ntrTap) := by
  refine ⟨kfilt1T_fst realEnv s nx ns x, ?_⟩
  rw [kfilt1T_snd realEnv s nx ns x h, tapOf_eq_tapArg]

/-- `destripe` performs the stages `destripeStages`: temporal filter, `fshift(+sample_shift)` iff a probe version is
given, then interpolation + spatial stage on the inside rows (labels) or the spatial stage on everything (no labels). -/
theorem destripe_stage_order (d : DSet ℝ) (nc ns : Nat) (ss : Nat → ℝ) (labels : Option (Nat → Nat)) (x : Mat ℝ) :
    (destripeT d nc ns ss labels x).1 = destripe d nc ns ss labels x ∧
    (destripeT d nc ns ss labels x).2 = destripeStages d.shift.isSome labels.isSome :=
  ⟨destripeT_fst d nc ns ss labels x, destripeT_snd d nc ns ss labels x⟩

/-! ### non-vacuity -/

/-- a spatial operator that removes constants but is not zero: difference to the first channel -/
noncomputable def diffFirst : Nat → Vec ℝ → Vec ℝ := fun n v => Vec.tab n (fun i => v.get i - v.get 0)

example : KillsConst diffFirst := by
  intro n v a hv i hi
  simp only [diffFirst, Vec.get_tab]
  rw [hv i hi, hv 0 (by omega), sub_self]

example : tapOf ({ ntrPad := 60, ntrTap := some 0, lagc := some 3000, L := diffFirst, padlen := 12 } : KSet ℝ) = 0 := rfl

/-- groups: channels 0,2 in group 5 and channel 1 in group -1; `np.unique` sorts them -/
example : unique [5, -1, 5] = [-1, 5] ∧ selIdx 3 (groupSel (fun i => [5, -1, 5].getD i 0) 5) = [0, 2] ∧
    rank (groupSel (fun i => [5, -1, 5].getD i 0) 5) 2 = 1 := by decide

example : (List.range 30).map (fun c => (adcShift 12 13 c).1) =
    [0, 0, 1, 1, 2, 2, 3, 3, 4, 4, 5, 5, 6, 6, 7, 7, 8, 8, 9, 9, 10, 10, 11, 11, 0, 0, 1, 1, 2, 2] := by decide

/-- a band-limited waveform: harmonics 1 and 3 of a 16-sample period -/
example : BandLimited 16 [(1, 1, 0), (3, 1 / 2, 1)] := by
  intro h hm
  simp only [List.mem_cons, List.not_mem_nil, or_false] at hm
  rcases hm with rfl | rfl <;> decide

/-- the hypotheses of `aligned_common_mode` / `destripe_removes_adc_skewed_stripe` are satisfiable: rows that are the
waveform sampled `ss c` late, identity temporal filter -/
example (ns : Nat) (w : Wave) (ss : Nat → ℝ) (c j : Nat) :
    (({ hp := id, shift := some (fshiftRow realEnv ns), interp := fun _ z => z,
        spatial := fun n z => car realEnv .median n ns none z } : DSet ℝ).hp
      ((Mat.ofFn (fun c j => waveAt ns w ((j : ℝ) + ss c))).row c)).get j = waveAt ns w ((j : ℝ) + ss c) := by
  simp

example : agcWin 3000 = 3001 ∧ agcWin 3 = 5 ∧ agcWin 5 = 5 ∧ agcWin 1 = 1 := by decide

example : defaultKKwargs 30000 = (60, 0, some 3000) ∧ defaultKKwargs 2500 = (60, 0, none) := by decide

/-- padding 2 rows of a 3-row array: rows 1,0 | 0,1,2 | 2,1 -/
example : padIdx 3 2 = [1, 0, 0, 1, 2, 2, 1] ∧ stripRowsIf 2 (padIdx 3 2) = [0, 1, 2] ∧ padIdx 3 0 = [0, 1, 2] := by decide

/-- an identity spatial filter, no gain control, default taper (= padding): the hypotheses of `kfilt_pad_taper_strip_identity` -/
example : (∀ n v, ({ ntrPad := 2, ntrTap := none, lagc := none, L := fun _ v => v, padlen := 0 } : KSet ℝ).L n v = v) ∧
    lagcOn ({ ntrPad := 2, ntrTap := none, lagc := none, L := fun _ v => v, padlen := 0 } : KSet ℝ).lagc = none ∧
    tapOf ({ ntrPad := 2, ntrTap := none, lagc := none, L := fun _ v => v, padlen := 0 } : KSet ℝ) ≤ 2 :=
  ⟨fun _ _ => rfl, rfl, by simp [tapOf]⟩

/-- … and `kfilt` succeeds on such settings (3 channels, 2 mirrored on each side) -/
example (x : Mat ℝ) : ∃ y, kfilt realEnv ({ ntrPad := 2, ntrTap := none, lagc := none, L := fun _ v => v, padlen := 0 } : KSet ℝ) 3 1 none x = .ok y := by
  simp [kfilt, kfilt1, lagcOn]

/-- a live row: the hypothesis of `agc_gain_positive` -/
example : ∃ t, t < 4 ∧ (Mat.ofFn (fun _ t => if t = 2 then (1 : ℝ) else 0)).get 0 t ≠ 0 := ⟨2, by omega, by simp⟩

/-- the sections of `butter(3, ·, 'highpass')` have the shape `g·(1, -1, 0)` and `(1, -2, 1)`: both have zero DC gain;
with poles inside the unit circle they are regular -/
example : (⟨1 / 2, -(1 / 2), 0, -(9 / 10), 0⟩ : Sec ℝ).zeroDC ∧ (⟨1, -2, 1, -(19 / 10), 19 / 20⟩ : Sec ℝ).zeroDC ∧
    (⟨1 / 2, -(1 / 2), 0, -(9 / 10), 0⟩ : Sec ℝ).regular ∧ (⟨1, -2, 1, -(19 / 10), 19 / 20⟩ : Sec ℝ).regular := by
  refine ⟨?_, ?_, ?_, ?_⟩ <;> simp only [Sec.zeroDC, Sec.regular] <;> norm_num

example : agcWinQ 1 2 2 1000 = 251 ∧ agcWinQ 3000 1 1 1 = 3001 ∧ agcWinQ 5 1 2 1 = 3 ∧ agcWinQ 1 1 1 1 = 1 ∧ agcWinQ 3 1 1 1 = 5 ∧ agcWinQ 7 1 2 1 = 5 := by decide

example : destripeStages true true = [("temporal", []), ("fshift", [1, 1]), ("interpolate", []), ("spatial", [1])] ∧
    kfiltStages true 384 60 0 = [("agc", [1]), ("sosfiltfilt", [0])] ∧
    kfiltStages false 10 2 2 = [("copy", []), ("taper_up", [0, 2, 14]), ("sosfiltfilt", [0])] := by decide

end IblVerif.C05
