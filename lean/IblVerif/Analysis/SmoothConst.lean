/-
Smoothers return constants unchanged (ℝ/ℂ, Mathlib).
* `rolling_window`: reflected padding of a constant is constant and the window is normalised by its sum.
* `lp`: a frequency-domain multiplier with gain 1 at DC leaves constants alone (`ZMod.dft`); combined with the edge
  padding / cropping model in `Lemmas/SmoothIdx.lean` (`lp_const`).
-/
import IblVerif.Lemmas.SmoothIdx
import Mathlib.Data.Real.Basic
import Mathlib.Analysis.Fourier.ZMod
import Mathlib.NumberTheory.LegendreSymbol.AddCharacter
import Mathlib.Tactic.FieldSimp
import Mathlib.Tactic.Ring

namespace IblVerif.Smooth

theorem foldl_add_eq (l : List ℝ) (a : ℝ) : l.foldl (· + ·) a = a + l.foldl (· + ·) 0 := by
  induction l generalizing a with
  | nil => simp
  | cons x t ih => simp only [List.foldl_cons]; rw [ih (a + x), ih (0 + x)]; ring

theorem sumL_cons (x : ℝ) (t : List ℝ) : sumL (x :: t) = x + sumL t := by
  unfold sumL; simp only [List.foldl_cons]; rw [foldl_add_eq]; ring

theorem sumL_map_scale (l : List ℝ) (W c : ℝ) : sumL (l.map (fun x => x / W * c)) = sumL l / W * c := by
  induction l with
  | nil => simp [sumL]
  | cons x t ih => rw [List.map_cons, sumL_cons, sumL_cons, ih]; ring

theorem getD_replicate_lt (n i : ℕ) (c z : ℝ) (h : i < n) : (List.replicate n c).getD i z = c := by
  simp [List.getD_eq_getElem?_getD, h]

theorem reflectPad_const (n wl : ℕ) (c : ℝ) (h : wl ≤ n) :
    reflectPad 0 (List.replicate n c) wl = List.replicate ((wl - 1) + n + (wl - 1)) c := by
  unfold reflectPad
  have e1 : (List.range (wl - 1)).map (fun t => (List.replicate n c).getD (wl - 1 - t) 0)
      = List.replicate (wl - 1) c := by
    apply List.ext_getElem
    · simp
    · intro i h1 h2
      simp only [List.length_map, List.length_range] at h1
      simp only [List.getElem_map, List.getElem_range, List.getElem_replicate]
      exact getD_replicate_lt _ _ _ _ (by omega)
  have e2 : (List.range (wl - 1)).map
      (fun u => (List.replicate n c).getD ((List.replicate n c).length - 1 - u) 0)
      = List.replicate (wl - 1) c := by
    apply List.ext_getElem
    · simp
    · intro i h1 h2
      simp only [List.length_map, List.length_range] at h1
      simp only [List.getElem_map, List.getElem_range, List.getElem_replicate, List.length_replicate]
      exact getD_replicate_lt _ _ _ _ (by omega)
  rw [e1, e2, List.replicate_append_replicate, List.replicate_append_replicate]

/-- `rolling_window` returns a constant input unchanged (any window whose samples do not sum to zero). -/
theorem rollingWindow_const (w : List ℝ) (n : ℕ) (c : ℝ) (h3 : 3 ≤ w.length) (hn : w.length ≤ n)
    (hW : sumL w ≠ 0) : rollingWindow w (List.replicate n c) = .ok (List.replicate n c) := by
  unfold rollingWindow
  have e1 : ¬ (List.replicate n c).length < w.length := by simp; omega
  have e2 : ¬ w.length < 3 := by omega
  simp only [e1, e2, if_false]
  congr 1
  rw [reflectPad_const n w.length c hn]
  set m := (w.length - 1) + n + (w.length - 1) with hm
  have hconv : convValid (w.map (· / sumL w)) (List.replicate m c)
      = List.replicate (m - w.length + 1) c := by
    unfold convValid
    apply List.ext_getElem
    · simp
    · intro k h1 h2
      simp only [List.length_map, List.length_range, List.length_replicate] at h1
      simp only [List.getElem_map, List.getElem_range, List.getElem_replicate, List.length_map,
        List.length_replicate]
      have hmap : (List.range w.length).map
            (fun j => (w.map (· / sumL w)).getD j 0 * (List.replicate m c).getD (k + (w.length - 1) - j) 0)
          = w.map (fun x => x / sumL w * c) := by
        apply List.ext_getElem
        · simp
        · intro j hj1 hj2
          simp only [List.length_map, List.length_range] at hj1
          simp only [List.getElem_map, List.getElem_range]
          rw [getD_replicate_lt _ _ _ _ (by omega)]
          simp [List.getD_eq_getElem?_getD, hj1]
      rw [hmap, sumL_map_scale]
      field_simp
  rw [hconv]
  have hlen := rollingLen_eq n w.length h3 hn
  unfold rollingLen at hlen
  have e1' : ¬ n < w.length := by omega
  simp only [e1', e2, if_false, Res.ok.injEq] at hlen
  unfold pySlice
  simp only [List.length_replicate, List.take_replicate, List.drop_replicate]
  congr 1
  have := normIdx_le (m - w.length + 1) (pyRoundHalf (-(w.length : Int)))
  rw [← hm] at hlen
  omega

section DFT
open ZMod AddChar
open scoped ZMod
variable {N : ℕ} [NeZero N]

theorem dft_const_fun (c : ℂ) (k : ZMod N) :
    𝓕 (fun _ : ZMod N => c) k = if k = 0 then (N : ℂ) * c else 0 := by
  rw [dft_apply]
  simp only [smul_eq_mul]
  rw [← Finset.sum_mul]
  have h := AddChar.sum_mulShift (-k) (ZMod.isPrimitive_stdAddChar N)
  have e : ∑ j : ZMod N, (stdAddChar (-(j * k)) : ℂ) = ∑ j : ZMod N, (stdAddChar (j * -k) : ℂ) := by
    apply Finset.sum_congr rfl; intro j _; rw [mul_neg]
  rw [e, h]
  simp only [neg_eq_zero, ZMod.card]
  split <;> simp

/-- A frequency-domain multiplier with unit gain at DC returns constants unchanged. -/
theorem freq_filter_const (H : ZMod N → ℂ) (h0 : H 0 = 1) (c : ℂ) :
    𝓕⁻ (fun k => 𝓕 (fun _ : ZMod N => c) k * H k) = fun _ => c := by
  have : (fun k => 𝓕 (fun _ : ZMod N => c) k * H k) = 𝓕 (fun _ : ZMod N => c) := by
    funext k
    rw [dft_const_fun]
    split
    · rename_i hk; rw [hk, h0, mul_one]
    · simp
  rw [this]
  exact LinearEquiv.symm_apply_apply _ _

end DFT

end IblVerif.Smooth
