/-
C15, where `detect_bad_channels_cbin` places its batches, over ℝ:

    for i, t0 in enumerate(np.linspace(0, sr.rl - batch_duration, n_batches)):
        sl = slice(int(t0 * sr.fs), int((t0 + batch_duration) * sr.fs))

`batchSliceR` is the ℝ instance (exact arithmetic, `int` = truncation toward zero) of the SAME definitions `linspace0` /
`batchSlice` the driver executes in `Float`.  With `S i = i · (ns − dur·fs) / (nb − 1)` (`batchPos`) the slice of batch `i` is
`(⌊S i⌋, ⌊S i + dur·fs⌋)`; for a file at least one batch long every slice lies inside `[0, ns]`.  Helper lemmas for
`Properties/C15.lean`.  The floating-point evaluation of the same expressions is compared exactly with the code on every run.
-/
import IblVerif.Model.BadChannels
import Mathlib.Data.Real.Basic
import Mathlib.Algebra.Order.Archimedean.Real.Basic
import Mathlib.Algebra.Order.Floor.Ring
import Mathlib.Tactic.Linarith
import Mathlib.Tactic.FieldSimp
import Mathlib.Tactic.Ring
import Mathlib.Tactic.Positivity

namespace IblVerif.BadChannels

/-- Python's `int` on a real number: truncation toward zero. -/
noncomputable def truncR (v : ℝ) : ℤ := if 0 ≤ v then ⌊v⌋ else ⌈v⌉

/-- `np.linspace(0, stop, n)[i]` over ℝ. -/
noncomputable def linspace0R (stop : ℝ) (n i : Nat) : ℝ := linspace0 (fun k : Nat => (k : ℝ)) stop n i

/-- The sample slice of batch `i` over ℝ. -/
noncomputable def batchSliceR (ns : Nat) (fs dur : ℝ) (nb i : Nat) : ℤ × ℤ :=
  batchSlice (fun k : Nat => (k : ℝ)) truncR ns fs dur nb i

/-- Start of batch `i` in (real-valued) samples: `i · (ns − dur·fs) / (nb − 1)`; `0` for a single batch. -/
noncomputable def batchPos (ns : Nat) (fs dur : ℝ) (nb i : Nat) : ℝ :=
  if nb ≤ 1 then 0 else (i : ℝ) * ((ns : ℝ) - dur * fs) / ((nb : ℝ) - 1)

theorem truncR_of_nonneg {v : ℝ} (h : 0 ≤ v) : truncR v = ⌊v⌋ := by simp [truncR, h]

theorem linspace0R_eq (stop : ℝ) (n i : Nat) (hn : 2 ≤ n) :
    linspace0R stop n i = (i : ℝ) * stop / ((n : ℝ) - 1) := by
  have hn1 : ((n - 1 : Nat) : ℝ) = (n : ℝ) - 1 := by
    rw [Nat.cast_sub (by omega)]; simp
  have hne : (n : ℝ) - 1 ≠ 0 := by
    have : (2 : ℝ) ≤ (n : ℝ) := by exact_mod_cast hn
    intro h; linarith
  unfold linspace0R linspace0
  rw [if_neg (by omega)]
  by_cases hi : i + 1 = n
  · rw [if_pos hi]
    have : (i : ℝ) = (n : ℝ) - 1 := by
      have : ((i + 1 : Nat) : ℝ) = (n : ℝ) := by rw [hi]
      push_cast at this; linarith
    rw [this]; field_simp
  · rw [if_neg hi]
    simp only [hn1]
    split
    · field_simp; ring
    · field_simp; ring

theorem linspace0R_one (stop : ℝ) (n i : Nat) (hn : n ≤ 1) : linspace0R stop n i = 0 := by
  unfold linspace0R linspace0
  rw [if_pos hn]; ring

/-- `t0 · fs = batchPos`. -/
theorem start_eq_batchPos (ns : Nat) (fs dur : ℝ) (nb i : Nat) (hfs : 0 < fs) :
    linspace0R ((ns : ℝ) / fs - dur) nb i * fs = batchPos ns fs dur nb i := by
  unfold batchPos
  by_cases h : nb ≤ 1
  · rw [if_pos h, linspace0R_one _ _ _ h]; ring
  · rw [if_neg h, linspace0R_eq _ _ _ (by omega)]
    have hne : (nb : ℝ) - 1 ≠ 0 := by
      have : (2 : ℝ) ≤ (nb : ℝ) := by exact_mod_cast (by omega : 2 ≤ nb)
      intro h'; linarith
    field_simp

theorem batchPos_nonneg (ns : Nat) (fs dur : ℝ) (nb i : Nat) (hlen : dur * fs ≤ ns) :
    0 ≤ batchPos ns fs dur nb i := by
  unfold batchPos
  split
  · exact le_refl _
  · rename_i h
    have : (2 : ℝ) ≤ (nb : ℝ) := by exact_mod_cast (by omega : 2 ≤ nb)
    apply div_nonneg (mul_nonneg (Nat.cast_nonneg _) (by linarith)) (by linarith)

theorem batchPos_add_le (ns : Nat) (fs dur : ℝ) (nb i : Nat) (hlen : dur * fs ≤ ns) (hi : i < nb) :
    batchPos ns fs dur nb i + dur * fs ≤ ns := by
  unfold batchPos
  split
  · linarith
  · rename_i h
    have h2 : (2 : ℝ) ≤ (nb : ℝ) := by exact_mod_cast (by omega : 2 ≤ nb)
    have hi' : (i : ℝ) ≤ (nb : ℝ) - 1 := by
      have : ((i + 1 : Nat) : ℝ) ≤ (nb : ℝ) := by exact_mod_cast hi
      push_cast at this; linarith
    have hpos : 0 < (nb : ℝ) - 1 := by linarith
    have : (i : ℝ) * ((ns : ℝ) - dur * fs) / ((nb : ℝ) - 1) ≤ (ns : ℝ) - dur * fs := by
      rw [div_le_iff₀ hpos]
      nlinarith
    linarith

/-- The slice of batch `i`, in closed form. -/
theorem batchSliceR_eq (ns : Nat) (fs dur : ℝ) (nb i : Nat) (hfs : 0 < fs) (hdur : 0 ≤ dur)
    (hlen : dur * fs ≤ ns) :
    batchSliceR ns fs dur nb i =
      (⌊batchPos ns fs dur nb i⌋, ⌊batchPos ns fs dur nb i + dur * fs⌋) := by
  have h0 := batchPos_nonneg ns fs dur nb i hlen
  have hD : 0 ≤ dur * fs := mul_nonneg hdur hfs.le
  have hs := start_eq_batchPos ns fs dur nb i hfs
  unfold batchSliceR batchSlice
  simp only
  have e1 : linspace0 (fun k : Nat => (k : ℝ)) ((ns : ℝ) / fs - dur) nb i * fs = batchPos ns fs dur nb i := hs
  have e2 : (linspace0 (fun k : Nat => (k : ℝ)) ((ns : ℝ) / fs - dur) nb i + dur) * fs =
      batchPos ns fs dur nb i + dur * fs := by rw [add_mul, e1]
  rw [e1, e2, truncR_of_nonneg h0, truncR_of_nonneg (by linarith)]

end IblVerif.BadChannels
