/-
Rank reduction by truncated SVD (ℂ, Mathlib): `cadzow.derank` and `voltage._svd_denoise`.

    u, s, v = np.linalg.svd(T);  T_ = Σ_{i < r} s[i] * np.outer(u.T[i], v[i])
    U, sigma, V = np.linalg.svd(datr, full_matrices=False);  U[:, :rank] @ np.diag(sigma[:rank]) @ V[:rank, :]

LAPACK's SVD is a parameter: it is assumed to return `T = U · diag(s) · Vh` with orthonormal columns of `U`,
orthonormal rows of `Vh` and non-negative, non-increasing `s` (`SVDLaw`).
-/
import Mathlib.LinearAlgebra.Matrix.Rank
import Mathlib.LinearAlgebra.Matrix.Diagonal
import Mathlib.Data.Complex.Basic
import Mathlib.Analysis.Complex.Basic
import Mathlib.Tactic.Ring
import Mathlib.Tactic.Linarith

open Matrix Finset

namespace IblVerif.Rank

variable {R C m : ℕ}

/-- The assumed contract of `np.linalg.svd` (thin form: `m = min(R, C)` singular triplets). -/
structure SVDLaw (T : Matrix (Fin R) (Fin C) ℂ) (U : Matrix (Fin R) (Fin m) ℂ) (s : Fin m → ℝ)
    (Vh : Matrix (Fin m) (Fin C) ℂ) : Prop where
  decomp : T = U * diagonal (fun i => (s i : ℂ)) * Vh
  orthoU : Uᴴ * U = 1
  orthoV : Vh * Vhᴴ = 1
  nonneg : ∀ i, 0 ≤ s i
  antitone : ∀ i j : Fin m, i ≤ j → s j ≤ s i

/-- `derank(T, r)` / `_svd_denoise(·, r)`: the sum of the first `r` singular triplets. -/
noncomputable def derankOf (r : ℕ) (U : Matrix (Fin R) (Fin m) ℂ) (s : Fin m → ℝ)
    (Vh : Matrix (Fin m) (Fin C) ℂ) : Matrix (Fin R) (Fin C) ℂ :=
  ∑ i : Fin m, if (i : ℕ) < r then (s i : ℂ) • vecMulVec (fun a => U a i) (Vh i) else 0

theorem derankOf_eq (r : ℕ) (U : Matrix (Fin R) (Fin m) ℂ) (s : Fin m → ℝ) (Vh : Matrix (Fin m) (Fin C) ℂ) :
    derankOf r U s Vh = U * diagonal (fun i : Fin m => if (i : ℕ) < r then (s i : ℂ) else 0) * Vh := by
  ext a b
  rw [Matrix.mul_apply]
  simp only [derankOf, Matrix.sum_apply, Matrix.mul_diagonal]
  apply Finset.sum_congr rfl
  intro i _
  split
  · simp [vecMulVec_apply]; ring
  · simp

/-- Truncation changes nothing when every dropped singular value is zero. -/
theorem derankOf_of_tail_zero (r : ℕ) (T : Matrix (Fin R) (Fin C) ℂ) (U : Matrix (Fin R) (Fin m) ℂ)
    (s : Fin m → ℝ) (Vh : Matrix (Fin m) (Fin C) ℂ)
    (hT : T = U * diagonal (fun i => (s i : ℂ)) * Vh) (hz : ∀ i : Fin m, r ≤ (i : ℕ) → s i = 0) :
    derankOf r U s Vh = T := by
  rw [derankOf_eq, hT]
  congr 2
  ext i j
  by_cases hij : i = j
  · subst hij
    simp only [diagonal_apply_eq]
    split
    · rfl
    · rw [hz i (by omega)]; simp
  · simp [diagonal_apply_ne _ hij]

/-- Full rank: keeping every singular triplet returns the matrix (any decomposition, no orthogonality needed). -/
theorem derank_full (r : ℕ) (T : Matrix (Fin R) (Fin C) ℂ) (U : Matrix (Fin R) (Fin m) ℂ)
    (s : Fin m → ℝ) (Vh : Matrix (Fin m) (Fin C) ℂ)
    (hT : T = U * diagonal (fun i => (s i : ℂ)) * Vh) (hr : m ≤ r) : derankOf r U s Vh = T :=
  derankOf_of_tail_zero r T U s Vh hT (fun i hi => absurd i.2 (by omega))

/-- The rank of the data is the number of non-zero singular values. -/
theorem rank_eq_card_nonzero (T : Matrix (Fin R) (Fin C) ℂ) (U : Matrix (Fin R) (Fin m) ℂ) (s : Fin m → ℝ)
    (Vh : Matrix (Fin m) (Fin C) ℂ) (h : SVDLaw T U s Vh) :
    T.rank = Fintype.card {i : Fin m // (s i : ℂ) ≠ 0} := by
  rw [← rank_diagonal]
  set D := diagonal (fun i : Fin m => (s i : ℂ)) with hD
  apply le_antisymm
  · rw [h.decomp]
    exact (rank_mul_le_left _ _).trans (rank_mul_le_right _ _)
  · have e : D = Uᴴ * T * Vhᴴ := by
      rw [h.decomp]
      calc D = 1 * D * 1 := by simp
        _ = (Uᴴ * U) * D * (Vh * Vhᴴ) := by rw [h.orthoU, h.orthoV]
        _ = Uᴴ * (U * D * Vh) * Vhᴴ := by simp only [Matrix.mul_assoc]
    rw [e]
    exact (rank_mul_le_left _ _).trans (rank_mul_le_right _ _)

/-- With non-increasing, non-negative singular values: all of them beyond the rank of the data vanish. -/
theorem tail_zero_of_rank_le (T : Matrix (Fin R) (Fin C) ℂ) (U : Matrix (Fin R) (Fin m) ℂ) (s : Fin m → ℝ)
    (Vh : Matrix (Fin m) (Fin C) ℂ) (h : SVDLaw T U s Vh) (r : ℕ) (hr : T.rank ≤ r) :
    ∀ i : Fin m, r ≤ (i : ℕ) → s i = 0 := by
  intro i hi
  by_contra hne
  have hpos : 0 < s i := lt_of_le_of_ne (h.nonneg i) (Ne.symm hne)
  -- the first `i+1` singular values are all non-zero
  let f : Fin ((i : ℕ) + 1) → {j : Fin m // (s j : ℂ) ≠ 0} := fun k =>
    ⟨⟨k, by have := k.2; have := i.2; omega⟩, by
      have hk : (⟨k, by have := k.2; have := i.2; omega⟩ : Fin m) ≤ i := by
        apply Fin.mk_le_of_le_val; have := k.2; simp; omega
      have := h.antitone _ _ hk
      have : 0 < s ⟨k, by have := k.2; have := i.2; omega⟩ := lt_of_lt_of_le hpos this
      exact_mod_cast this.ne'⟩
  have hf : Function.Injective f := by
    intro a b hab
    simp only [f, Subtype.mk.injEq, Fin.mk.injEq] at hab
    exact Fin.ext hab
  have hc := Fintype.card_le_of_injective f hf
  rw [Fintype.card_fin, ← rank_eq_card_nonzero T U s Vh h] at hc
  omega

/-- Rank reduction returns its input whenever the requested rank is at least the rank of the data. -/
theorem derank_of_rank_le (T : Matrix (Fin R) (Fin C) ℂ) (U : Matrix (Fin R) (Fin m) ℂ) (s : Fin m → ℝ)
    (Vh : Matrix (Fin m) (Fin C) ℂ) (h : SVDLaw T U s Vh) (r : ℕ) (hr : T.rank ≤ r) :
    derankOf r U s Vh = T :=
  derankOf_of_tail_zero r T U s Vh h.decomp (tail_zero_of_rank_le T U s Vh h r hr)

/-- A matrix of the form `a_A · b_B` (a single plane wave embedded in a dense trajectory matrix) survives rank one. -/
theorem derank_outer (a : Fin R → ℂ) (b : Fin C → ℂ) (U : Matrix (Fin R) (Fin m) ℂ) (s : Fin m → ℝ)
    (Vh : Matrix (Fin m) (Fin C) ℂ) (h : SVDLaw (vecMulVec a b) U s Vh) :
    derankOf 1 U s Vh = vecMulVec a b :=
  derank_of_rank_le _ U s Vh h 1 (rank_vecMulVec_le a b)

end IblVerif.Rank
