/-
Round h, C07: the delay estimate `waveforms.wave_shift_corrmax` (model `waveShiftCorrmax` of `Model/FShift.lean`) is EXACT for
whole-sample delays of a compactly supported waveform: when `spike2` is `spike` delayed by `m` samples without wrapping around the
window, the `mode='same'` cross-correlation is the autocorrelation of the waveform centred at `n / 2 - m`; the autocorrelation of a
non-zero finitely supported sequence has its strict, unique maximum at lag 0 and is even, so `np.argmax` finds `n / 2 - m`, the
three-point parabola through `(R(-1), R(0), R(1))` has its vertex exactly on the sample, `shift_computed = m`, and
`fshift(spike2, -m)` is the circular roll that restores `spike`.

(For fractional delays the estimate is only checked numerically: its error is the distance between the vertex of a parabola and
the maximum of the band-limited interpolation of the correlation, a property of the waveform.)
-/
import IblVerif.Analysis.FShiftArray
import IblVerif.Analysis.FShiftPeak
import Mathlib.Algebra.BigOperators.Finprod

open Finset
open scoped Real

namespace IblVerif.FShift

section acorr
variable (f : ℤ → ℝ)

/-- autocorrelation at lag `k` of a finitely supported sequence -/
noncomputable def acorr (k : ℤ) : ℝ := ∑ᶠ u : ℤ, f (u + k) * f u

theorem acorr_neg (k : ℤ) : acorr f (-k) = acorr f k := by
  unfold acorr
  rw [← finsum_comp_equiv (Equiv.addRight k)]
  refine finsum_congr fun u => ?_
  simp only [Equiv.coe_addRight]
  rw [show u + k + -k = u by ring, mul_comm]

theorem supp_shift (hf : (Function.support f).Finite) (k : ℤ) : (Function.support fun u => f (u + k)).Finite := by
  have : (fun u => f (u + k)) = f ∘ (Equiv.addRight k) := rfl
  rw [this, Function.support_comp_eq_preimage]
  exact hf.preimage (Equiv.injective _).injOn

theorem acorr_lt (hf : (Function.support f).Finite) (hne : ∃ i, f i ≠ 0) (k : ℤ) (hk : k ≠ 0) :
    acorr f k < acorr f 0 := by
  have h1 := supp_shift f hf k
  have hA : (Function.support fun u => f (u + k) * f u).Finite :=
    hf.subset fun u hu => by
      simp only [Function.mem_support, ne_eq, mul_eq_zero, not_or] at hu ⊢; exact hu.2
  have hE : (Function.support fun u => f u * f u).Finite :=
    hf.subset fun u hu => by
      simp only [Function.mem_support, ne_eq, mul_eq_zero, not_or] at hu ⊢; exact hu.2
  have hEk : (Function.support fun u => f (u + k) * f (u + k)).Finite :=
    h1.subset fun u hu => by
      simp only [Function.mem_support, ne_eq, mul_eq_zero, not_or] at hu ⊢; exact hu.2
  -- a lag at which f is not k-periodic
  obtain ⟨u0, hu0⟩ : ∃ u0, f (u0 + k) ≠ f u0 := by
    by_contra h
    have hper : ∀ u, f (u + k) = f u := by
      intro u; by_contra h'; exact h ⟨u, h'⟩
    obtain ⟨i, hi⟩ := hne
    have hrep : ∀ j : ℕ, f (i + j * k) = f i := by
      intro j
      induction j with
      | zero => simp
      | succ j ih =>
        rw [show i + ((j + 1 : ℕ) : ℤ) * k = (i + j * k) + k by push_cast; ring, hper, ih]
    have hinf : (Function.support f).Infinite := by
      refine Set.infinite_of_injective_forall_mem (f := fun j : ℕ => i + (j : ℤ) * k) ?_ ?_
      · intro a b hab
        simp only [add_right_inj] at hab
        have := mul_right_cancel₀ hk hab
        exact_mod_cast this
      · intro j; simp only [Function.mem_support]; rw [hrep]; exact hi
    exact hinf hf
  -- the sum of squared differences
  have hS : ∑ᶠ u : ℤ, (f (u + k) - f u) * (f (u + k) - f u)
      = (∑ᶠ u : ℤ, f (u + k) * f (u + k)) + (∑ᶠ u : ℤ, f u * f u) - 2 * ∑ᶠ u : ℤ, f (u + k) * f u := by
    have e : ∀ u, (f (u + k) - f u) * (f (u + k) - f u)
        = (f (u + k) * f (u + k) + f u * f u) - 2 * (f (u + k) * f u) := fun u => by ring
    simp only [e]
    rw [finsum_sub_distrib (hEk.union hE |>.subset ?_) ?_, finsum_add_distrib hEk hE, ← mul_finsum]
    · intro u hu
      simp only [Function.mem_support, ne_eq, Set.mem_union] at hu ⊢
      by_contra h
      push Not at h
      apply hu; rw [h.1, h.2]; simp
    · refine hA.subset fun u hu => ?_
      simp only [Function.mem_support, ne_eq, mul_eq_zero, not_or] at hu ⊢
      exact hu.2
  have hshift : (∑ᶠ u : ℤ, f (u + k) * f (u + k)) = ∑ᶠ u : ℤ, f u * f u :=
    finsum_comp_equiv (Equiv.addRight k) (f := fun u => f u * f u)
  have h0 : acorr f 0 = ∑ᶠ u : ℤ, f u * f u := by
    unfold acorr; simp
  have hpos : 0 < ∑ᶠ u : ℤ, (f (u + k) - f u) * (f (u + k) - f u) := by
    have hfin : (Function.support fun u => (f (u + k) - f u) * (f (u + k) - f u)).Finite := by
      refine (h1.union hf).subset fun u hu => ?_
      simp only [Function.mem_support, ne_eq, Set.mem_union] at hu ⊢
      by_contra h
      push Not at h
      apply hu; rw [h.1, h.2]; simp
    have hle := single_le_finsum u0 hfin (fun u => mul_self_nonneg _)
    have : 0 < (f (u0 + k) - f u0) * (f (u0 + k) - f u0) :=
      mul_self_pos.mpr (sub_ne_zero.mpr hu0)
    linarith
  rw [hS, hshift] at hpos
  rw [h0]
  unfold acorr
  linarith

end acorr

/-- zero extension of a trace to all integer positions -/
noncomputable def zext (x : Array ℝ) (i : ℤ) : ℝ := if 0 ≤ i ∧ i < (x.size : ℤ) then at0 x i.toNat else 0

theorem at0_of_size_le (x : Array ℝ) (t : ℕ) (h : x.size ≤ t) : at0 x t = 0 := by
  simp [at0, Array.getD, Nat.not_lt.mpr h]

theorem zext_natCast (x : Array ℝ) (t : ℕ) : zext x (t : ℤ) = at0 x t := by
  unfold zext
  by_cases h : t < x.size
  · have : (0 : ℤ) ≤ t ∧ (t : ℤ) < x.size := ⟨by omega, by exact_mod_cast h⟩
    simp [this]
  · have : ¬ ((0 : ℤ) ≤ t ∧ (t : ℤ) < x.size) := by omega
    rw [if_neg this, at0_of_size_le x t (by omega)]

theorem zext_ne_zero (x : Array ℝ) (i : ℤ) (h : zext x i ≠ 0) :
    0 ≤ i ∧ i < (x.size : ℤ) ∧ at0 x i.toNat ≠ 0 := by
  unfold zext at h
  by_cases hc : 0 ≤ i ∧ i < (x.size : ℤ)
  · rw [if_pos hc] at h; exact ⟨hc.1, hc.2, h⟩
  · rw [if_neg hc] at h; exact absurd rfl h

theorem zext_support_finite (x : Array ℝ) : (Function.support (zext x)).Finite := by
  refine (Set.finite_Ico (0 : ℤ) (x.size : ℤ)).subset fun i hi => ?_
  have := zext_ne_zero x i hi
  exact ⟨this.1, this.2.1⟩

/-- the waveform delayed by `m` samples stays inside the window: every non-zero sample `i` has `0 ≤ i + m < n` -/
def NoWrap (x : Array ℝ) (m : ℤ) : Prop := ∀ i : ℕ, i < x.size → at0 x i ≠ 0 → 0 ≤ (i : ℤ) + m ∧ (i : ℤ) + m < (x.size : ℤ)

/-- without wrap-around the circular roll is the plain (zero-filled) delay -/
theorem at0_roll_nowrap (x : Array ℝ) (m : ℤ) (hw : NoWrap x m) (t : ℕ) (ht : t < x.size) :
    at0 (roll x m) t = zext x ((t : ℤ) - m) := by
  rw [at0_eq_getElem _ _ (by simpa using ht), roll_getElem]
  have hn : (0 : ℤ) < x.size := by omega
  have hr0 : 0 ≤ ((t : ℤ) - m) % (x.size : ℤ) := Int.emod_nonneg _ (by omega)
  have hr1 : ((t : ℤ) - m) % (x.size : ℤ) < x.size := Int.emod_lt_of_pos _ hn
  by_cases hc : 0 ≤ (t : ℤ) - m ∧ (t : ℤ) - m < (x.size : ℤ)
  · rw [Int.emod_eq_of_lt hc.1 hc.2]
    unfold zext; rw [if_pos hc]
  · have hz : zext x ((t : ℤ) - m) = 0 := by unfold zext; rw [if_neg hc]
    rw [hz]
    by_contra hne
    set r := ((t : ℤ) - m) % (x.size : ℤ) with hr
    have hlt : r.toNat < x.size := by omega
    obtain ⟨h1, h2⟩ := hw r.toNat hlt hne
    have hrr : ((r.toNat : ℕ) : ℤ) = r := Int.toNat_of_nonneg hr0
    rw [hrr] at h1 h2
    have e1 : (r + m) % (x.size : ℤ) = (t : ℤ) % (x.size : ℤ) := by
      rw [hr, Int.emod_add_emod]; congr 1; ring
    rw [Int.emod_eq_of_lt h1 h2, Int.emod_eq_of_lt (by omega) (by exact_mod_cast ht)] at e1
    apply hc; constructor <;> omega

/-- **The `mode='same'` cross-correlation of a waveform with its non-wrapping delayed copy is the autocorrelation, centred at
`n / 2 - m`.** -/
theorem correlateSame_roll (x : Array ℝ) (m : ℤ) (hw : NoWrap x m) (j : ℕ) (hj : j < x.size) :
    at0 (correlateSame x (roll x m)) j = acorr (zext x) ((j : ℤ) - ((x.size / 2 : ℕ) : ℤ) + m) := by
  unfold correlateSame
  rw [at0_ofFn _ _ hj, sumN_eq_sum, roll_size]
  -- each term, on integer positions
  have hterm : ∀ t ∈ range x.size,
      (if x.size / 2 ≤ t + j then at0 x (t + j - x.size / 2) else ((0 : ℕ) : ℝ)) * at0 (roll x m) t
        = (fun u : ℤ => zext x (u + ((j : ℤ) - ((x.size / 2 : ℕ) : ℤ))) * zext x (u - m)) (t : ℤ) := by
    intro t ht
    have ht' : t < x.size := Finset.mem_range.mp ht
    simp only
    rw [at0_roll_nowrap x m hw t ht']
    congr 1
    by_cases hc : x.size / 2 ≤ t + j
    · rw [if_pos hc, ← zext_natCast]; congr 1; omega
    · rw [if_neg hc]
      unfold zext
      have : ¬ (0 ≤ (t : ℤ) + ((j : ℤ) - ((x.size / 2 : ℕ) : ℤ)) ∧ (t : ℤ) + ((j : ℤ) - ((x.size / 2 : ℕ) : ℤ)) < (x.size : ℤ)) := by omega
      rw [if_neg this]; simp
  rw [Finset.sum_congr rfl hterm]
  -- the finite sum over 0 … n-1 is the sum over all integers
  have hsub : Function.support (fun u : ℤ => zext x (u + ((j : ℤ) - ((x.size / 2 : ℕ) : ℤ))) * zext x (u - m))
      ⊆ ↑((range x.size).map Nat.castEmbedding : Finset ℤ) := by
    intro u hu
    simp only [Function.mem_support, ne_eq, mul_eq_zero, not_or] at hu
    obtain ⟨h0, h1, h2⟩ := zext_ne_zero x _ hu.2
    have hlt : (u - m).toNat < x.size := by omega
    obtain ⟨h3, h4⟩ := hw (u - m).toNat hlt h2
    have hrr : (((u - m).toNat : ℕ) : ℤ) = u - m := Int.toNat_of_nonneg h0
    rw [hrr] at h3 h4
    simp only [Finset.coe_map, Set.mem_image, Finset.mem_coe, Finset.mem_range, Nat.castEmbedding_apply]
    exact ⟨u.toNat, by omega, by omega⟩
  have hmap : ∑ t ∈ range x.size, (fun u : ℤ => zext x (u + ((j : ℤ) - ((x.size / 2 : ℕ) : ℤ))) * zext x (u - m)) (t : ℤ)
      = ∑ u ∈ (range x.size).map Nat.castEmbedding,
          (fun u : ℤ => zext x (u + ((j : ℤ) - ((x.size / 2 : ℕ) : ℤ))) * zext x (u - m)) u :=
    (Finset.sum_map (range x.size) Nat.castEmbedding
      (fun u : ℤ => zext x (u + ((j : ℤ) - ((x.size / 2 : ℕ) : ℤ))) * zext x (u - m))).symm
  rw [hmap, ← finsum_eq_sum_of_support_subset _ hsub]
  -- shift the summation variable by m
  unfold acorr
  rw [← finsum_comp_equiv (Equiv.addRight m)]
  refine finsum_congr fun u => ?_
  simp only [Equiv.coe_addRight]
  congr 2 <;> ring

theorem roll_roll_neg (x : Array ℝ) (m : ℤ) : roll (roll x m) (-m) = x := by
  apply Array.ext
  · simp
  · intro t h1 h2
    have hn : (0 : ℤ) < x.size := by omega
    rw [roll_getElem, roll_size]
    have hr0 : 0 ≤ ((t : ℤ) - -m) % (x.size : ℤ) := Int.emod_nonneg _ (by omega)
    have hr1 : ((t : ℤ) - -m) % (x.size : ℤ) < x.size := Int.emod_lt_of_pos _ hn
    have hlt : (((t : ℤ) - -m) % (x.size : ℤ)).toNat < x.size := by omega
    rw [at0_eq_getElem _ _ (by simpa using hlt), roll_getElem, Int.toNat_of_nonneg hr0, Int.emod_sub_emod,
      show (t : ℤ) - -m - m = t by ring, Int.emod_eq_of_lt (by omega) (by exact_mod_cast h2), Int.toNat_natCast,
      at0_eq_getElem _ _ h2]

theorem argmax_unique_max (c : Array ℝ) (j : ℕ) (hj : j < c.size)
    (h : ∀ k, k < c.size → k ≠ j → at0 c k < at0 c j) : argmax realLt c = j := by
  obtain ⟨h1, h2, _⟩ := argmax_spec c (by omega)
  by_contra hne
  have h3 := h _ h1 hne
  have h4 := h2 j hj
  linarith

/-- three samples symmetric about the middle one: the vertex of the parabola is on the middle sample -/
theorem parabolicVertex_symm (v v0 : ℝ) (h : v ≠ v0) : parabolicVertex (1 / 2 : ℝ) realIsZero v v0 v = (0, v0) := by
  have hp0 : (1 / 2 : ℝ) * v + -(1 / 2 * ((2 : ℕ) : ℝ)) * v0 + 1 / 2 * v = v - v0 := by push_cast; ring
  have hz : realIsZero (v - v0) = false := by simp [realIsZero, sub_eq_zero, h]
  simp only [parabolicVertex, hp0, hz]
  refine Prod.ext ?_ ?_ <;> simp

@[simp] theorem correlateSame_size (a b : Array ℝ) : (correlateSame a b).size = a.size := by simp [correlateSame]

/-- **`wave_shift_corrmax` recovers a whole-sample delay exactly and re-aligns the copy exactly.**  `x` any waveform with at
least one non-zero sample, `m` any integer delay such that the delayed waveform stays inside the window (`NoWrap`) and the
correlation peak `n / 2 - m` is not on the first or last sample: then `wave_shift_corrmax(x, roll(x, m)) = (x, m)`. -/
theorem waveShiftCorrmax_integer_delay (x : Array ℝ) (m : ℤ) (hne : ∃ i, i < x.size ∧ at0 x i ≠ 0) (hw : NoWrap x m)
    (hin : 0 < ((x.size / 2 : ℕ) : ℤ) - m ∧ ((x.size / 2 : ℕ) : ℤ) - m < (x.size : ℤ) - 1) :
    waveShiftCorrmax realTrig (1 / 2 : ℝ) realIsZero realLt x (roll x m) = (x, (m : ℝ)) := by
  have hfin := zext_support_finite x
  have hnz : ∃ i : ℤ, zext x i ≠ 0 := by
    obtain ⟨i, hi, hx⟩ := hne
    exact ⟨(i : ℤ), by rw [zext_natCast]; exact hx⟩
  set c := correlateSame x (roll x m) with hc
  have hcs : c.size = x.size := by simp [hc]
  set js := (((x.size / 2 : ℕ) : ℤ) - m).toNat with hjs
  have hjsz : ((js : ℕ) : ℤ) = ((x.size / 2 : ℕ) : ℤ) - m := Int.toNat_of_nonneg (by omega)
  have hjlt : js < x.size := by omega
  have hval : ∀ j, j < x.size → at0 c j = acorr (zext x) ((j : ℤ) - ((x.size / 2 : ℕ) : ℤ) + m) :=
    fun j hj => correlateSame_roll x m hw j hj
  have hpeak : at0 c js = acorr (zext x) 0 := by
    rw [hval js hjlt]; congr 1; omega
  have hothers : ∀ k, k < c.size → k ≠ js → at0 c k < at0 c js := by
    intro k hk hne'
    rw [hpeak, hval k (by omega)]
    exact acorr_lt _ hfin hnz _ (by omega)
  have ham : argmax realLt c = js := argmax_unique_max c js (by omega) hothers
  have hm1 : at0 c (js - 1) = acorr (zext x) (-1) := by
    rw [hval (js - 1) (by omega)]; congr 1; omega
  have hp1 : at0 c (js + 1) = acorr (zext x) (-1) := by
    rw [hval (js + 1) (by omega), ← acorr_neg]; congr 1; omega
  have hlt1 : acorr (zext x) (-1) < acorr (zext x) 0 := acorr_lt _ hfin hnz _ (by omega)
  have hedge : ¬ (js = 0 ∨ js = c.size - 1) := by omega
  have hpm : parabolicMax (1 / 2 : ℝ) realIsZero realLt c = ((js : ℝ), acorr (zext x) 0) := by
    simp only [parabolicMax, ham, hedge, if_false, hm1, hp1, hpeak]
    rw [parabolicVertex_symm _ _ (ne_of_lt hlt1)]
    simp
  have hshift : corrmaxShift x.size ((js : ℕ) : ℝ) = (m : ℝ) := by
    unfold corrmaxShift corrmaxZeroLag
    have : ((js : ℕ) : ℝ) = ((x.size / 2 : ℕ) : ℝ) - (m : ℝ) := by
      have h := congrArg (Int.cast (R := ℝ)) hjsz
      rw [Int.cast_sub, Int.cast_natCast, Int.cast_natCast] at h
      exact h
    rw [this]; ring
  have hn2 : 2 ≤ (roll x m).size := by rw [roll_size]; omega
  have hre : fshiftCore realTrig (roll x m) (-(m : ℝ)) = x := by
    have := fshiftCore_int (roll x m) hn2 (-m)
    rw [Int.cast_neg] at this
    rw [this, roll_roll_neg]
  unfold waveShiftCorrmax
  simp only [← hc, hpm, hshift, hre]

end IblVerif.FShift
