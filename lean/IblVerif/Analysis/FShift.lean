/-
The model of `Model/FShift.lean` instantiated at `ℝ`, and its bridge to Mathlib's `ZMod.dft`:
`rfftAt` is the DFT on the bins `0 … n/2`, `irfftAt` is the inverse DFT of the Hermitian completion of a half spectrum,
and `fshiftAt` is the two-sided operator `𝓕⁻ (μ_s · 𝓕 x)` (`fshiftAt_twosided`, the "rfft pipeline = two-sided form" lemma).
-/
import IblVerif.Model.FShift
import IblVerif.Analysis.FShiftDFT
import Mathlib.Analysis.SpecialFunctions.Complex.Arg

open ZMod AddChar Finset
open scoped ZMod ComplexConjugate Real

namespace IblVerif.FShift

/-- The `ℝ` instance of the transcendental operations (`np.angle(x + iy) = Complex.arg`). -/
noncomputable def realTrig : Trig ℝ := ⟨Real.pi, Real.cos, Real.sin, fun y x => Complex.arg ⟨x, y⟩⟩

/-- pairs `(re, im)` of the model as complex numbers -/
def toC (p : ℝ × ℝ) : ℂ := ⟨p.1, p.2⟩

/-- a real signal on `0 … n-1` as a complex function on `ZMod n` -/
noncomputable def lift (n : ℕ) (x : ℕ → ℝ) : ZMod n → ℂ := fun κ => ((x κ.val : ℝ) : ℂ)

lemma sumN_eq_sum (n : ℕ) (f : ℕ → ℝ) : sumN n f = ∑ j ∈ range n, f j := by
  induction n with
  | zero => simp [sumN]
  | succ k ih => rw [sumN, ih, Finset.sum_range_succ]

lemma ang_real (n j : ℕ) : ang realTrig n j = 2 * π * ((j % n : ℕ) : ℝ) / (n : ℝ) := by
  simp [ang, realTrig]

lemma toC_cmul (a b : ℝ × ℝ) : toC (cmul a b) = toC a * toC b := by
  apply Complex.ext <;> simp [toC, cmul]

variable {n : ℕ} [NeZero n]

lemma cexp_ofReal_mul_I (θ : ℝ) : Complex.exp ((θ : ℂ) * Complex.I) = ⟨Real.cos θ, Real.sin θ⟩ := by
  rw [Complex.exp_mul_I]
  apply Complex.ext <;> simp [Complex.cos_ofReal_re, Complex.sin_ofReal_re, Complex.cos_ofReal_im, Complex.sin_ofReal_im]

/-- The model's twiddle factor is the standard additive character of `ZMod n`. -/
lemma twiddle (j : ℕ) :
    (⟨Real.cos (ang realTrig n j), Real.sin (ang realTrig n j)⟩ : ℂ) = stdAddChar ((j : ℕ) : ZMod n) := by
  rw [ang_real, ← ZMod.natCast_mod j n]
  generalize j % n = r
  have h1 : ((r : ℕ) : ZMod n) = ((r : ℤ) : ZMod n) := by simp
  rw [h1, stdAddChar_coe, ← cexp_ofReal_mul_I]
  congr 1
  push_cast; ring

lemma toC_sum (m : ℕ) (f g : ℕ → ℝ) :
    toC (∑ t ∈ range m, f t, ∑ t ∈ range m, g t) = ∑ t ∈ range m, toC (f t, g t) := by
  apply Complex.ext <;> simp [toC, Complex.re_sum, Complex.im_sum]

omit [NeZero n] in
lemma lift_natCast (x : ℕ → ℝ) (t : ℕ) (ht : t < n) : lift n x (t : ZMod n) = ((x t : ℝ) : ℂ) := by
  simp [lift, ZMod.val_natCast_of_lt ht]

/-- `rfftAt` is Mathlib's DFT of the signal, read at bin `k`. -/
lemma rfftAt_eq_dft (x : ℕ → ℝ) (k : ℕ) :
    toC (rfftAt realTrig n x k) = 𝓕 (lift n x) (k : ZMod n) := by
  rw [dft_apply, FShiftDFT.sum_zmod_eq_sum_range]
  simp only [rfftAt, sumN_eq_sum]
  rw [toC_sum]
  refine Finset.sum_congr rfl fun t ht => ?_
  rw [lift_natCast x t (Finset.mem_range.mp ht), smul_eq_mul, AddChar.map_neg_eq_conj,
    show ((t : ZMod n) * (k : ZMod n)) = ((k * t : ℕ) : ZMod n) by push_cast; ring, ← twiddle]
  apply Complex.ext <;> simp [toC, realTrig] <;> ring

/-- Hermitian completion of a half spectrum `Y_0 … Y_{n/2}` to all of `ZMod n`, as the real inverse transform reads it:
only the real parts of the zero-frequency and Nyquist bins are used. -/
noncomputable def herm (n : ℕ) (Y : ℕ → ℝ × ℝ) (κ : ZMod n) : ℂ :=
  if κ.val = 0 then ((Y 0).1 : ℂ)
  else if 2 * κ.val < n then toC (Y κ.val)
  else if 2 * κ.val = n then ((Y (n / 2)).1 : ℂ)
  else conj (toC (Y (n - κ.val)))

lemma herm_neg (Y : ℕ → ℝ × ℝ) (κ : ZMod n) : herm n Y (-κ) = conj (herm n Y κ) := by
  by_cases hκ : κ = 0
  · subst hκ; simp [herm]
  · have hv : (-κ).val = n - κ.val := by rw [ZMod.neg_val]; simp [hκ]
    have hpos : 0 < κ.val := Nat.pos_of_ne_zero (by rwa [Ne, ZMod.val_eq_zero])
    have hlt : κ.val < n := ZMod.val_lt κ
    unfold herm
    rw [hv]
    rcases lt_trichotomy (2 * κ.val) n with h | h | h
    · have e1 : ¬ (n - κ.val = 0) := by omega
      have e2 : ¬ (2 * (n - κ.val) < n) := by omega
      have e3 : ¬ (2 * (n - κ.val) = n) := by omega
      have e4 : ¬ (κ.val = 0) := by omega
      have e5 : n - (n - κ.val) = κ.val := by omega
      simp only [e1, e2, e3, e4, e5, h, if_true, if_false]
    · have e1 : ¬ (n - κ.val = 0) := by omega
      have e2 : ¬ (2 * (n - κ.val) < n) := by omega
      have e3 : (2 * (n - κ.val) = n) := by omega
      have e4 : ¬ (κ.val = 0) := by omega
      have e6 : ¬ (2 * κ.val < n) := by omega
      simp only [e1, e2, e3, e4, e6, h, lt_irrefl, if_true, if_false, Complex.conj_ofReal]
    · have e1 : ¬ (n - κ.val = 0) := by omega
      have e2 : (2 * (n - κ.val) < n) := by omega
      have e4 : ¬ (κ.val = 0) := by omega
      have e6 : ¬ (2 * κ.val < n) := by omega
      have e7 : ¬ (2 * κ.val = n) := by omega
      simp only [e1, e2, e4, e6, e7, if_true, if_false, Complex.conj_conj]

/-- `exp(2πi (n/2) t / n) = (-1)^t` for even `n`. -/
lemma twiddle_half (hn : n % 2 = 0) (t : ℕ) :
    stdAddChar (((n / 2 : ℕ) : ZMod n) * (t : ZMod n)) = if t % 2 = 0 then (1 : ℂ) else -1 := by
  obtain ⟨m, hm⟩ : ∃ m, n = m * 2 := ⟨n / 2, by omega⟩
  have hm0 : 0 < m := by have := NeZero.pos n; omega
  rw [show (((n / 2 : ℕ) : ZMod n) * (t : ZMod n)) = (((n / 2) * t : ℕ) : ZMod n) by push_cast; ring,
    ← twiddle, ang_real]
  have h2 : n / 2 = m := by omega
  have h3 : (n / 2 * t) % n = m * (t % 2) := by
    rw [h2, hm, Nat.mul_mod_mul_left]
  rw [h3]
  rcases Nat.mod_two_eq_zero_or_one t with h | h
  · rw [h]; simp [Complex.ext_iff]
  · rw [h, if_neg (by omega)]
    have : 2 * π * ((m * 1 : ℕ) : ℝ) / (n : ℝ) = π := by
      rw [hm]; push_cast
      have : (m : ℝ) ≠ 0 := by positivity
      field_simp
    rw [this]; simp [Complex.ext_iff]

/-- `irfftAt` is the inverse DFT of the Hermitian completion of the half spectrum. -/
lemma irfftAt_eq_invDFT (Y : ℕ → ℝ × ℝ) (t : ℕ) :
    ((irfftAt realTrig n Y t : ℝ) : ℂ) = 𝓕⁻ (herm n Y) (t : ZMod n) := by
  rw [invDFT_apply, smul_eq_mul]
  have hg : ∀ κ : ZMod n, (fun κ => stdAddChar (κ * (t : ZMod n)) • herm n Y κ) (-κ)
      = conj ((fun κ => stdAddChar (κ * (t : ZMod n)) • herm n Y κ) κ) := by
    intro κ
    simp only [smul_eq_mul, map_mul, herm_neg, neg_mul, AddChar.map_neg_eq_conj]
  rw [FShiftDFT.herm_sum _ hg]
  have hn0 : 0 < n := NeZero.pos n
  -- the three kinds of bins
  have h0 : ((fun κ => stdAddChar (κ * (t : ZMod n)) • herm n Y κ) (0 : ZMod n)).re = (Y 0).1 := by
    simp [herm]
  have h1 : ∀ j ∈ range ((n - 1) / 2),
      ((fun κ => stdAddChar (κ * (t : ZMod n)) • herm n Y κ) ((j + 1 : ℕ) : ZMod n)).re
        = (Y (j + 1)).1 * Real.cos (ang realTrig n ((j + 1) * t)) - (Y (j + 1)).2 * Real.sin (ang realTrig n ((j + 1) * t)) := by
    intro j hj
    have hj' := Finset.mem_range.mp hj
    have hlt : j + 1 < n := by omega
    have hv : (((j + 1 : ℕ) : ZMod n)).val = j + 1 := ZMod.val_natCast_of_lt hlt
    have e1 : ¬ (j + 1 = 0) := by omega
    have e2 : 2 * (j + 1) < n := by omega
    simp only [smul_eq_mul, herm, hv, e1, e2, if_true, if_false]
    rw [show (((j + 1 : ℕ) : ZMod n) * (t : ZMod n)) = (((j + 1) * t : ℕ) : ZMod n) by push_cast; ring, ← twiddle]
    simp [toC]; ring
  have h2 : n % 2 = 0 → ((fun κ => stdAddChar (κ * (t : ZMod n)) • herm n Y κ) ((n / 2 : ℕ) : ZMod n)).re
      = if t % 2 = 0 then (Y (n / 2)).1 else -(Y (n / 2)).1 := by
    intro hn
    have hlt : n / 2 < n := by omega
    have hv : (((n / 2 : ℕ) : ZMod n)).val = n / 2 := ZMod.val_natCast_of_lt hlt
    have e1 : ¬ (n / 2 = 0) := by omega
    have e2 : ¬ (2 * (n / 2) < n) := by omega
    have e3 : 2 * (n / 2) = n := by omega
    simp only [smul_eq_mul, herm, hv, e1, e2, e3, lt_irrefl, if_true, if_false, twiddle_half hn]
    split_ifs <;> simp
  rw [h0, Finset.sum_congr rfl h1]
  simp only [irfftAt, sumN_eq_sum]
  by_cases hn : n % 2 = 0
  · rw [if_pos hn, if_pos hn, h2 hn]
    simp [realTrig]; ring
  · rw [if_neg hn, if_neg hn]
    simp [realTrig]; ring


omit [NeZero n] in
/-- spectrum of the one-sample-delayed impulse: `D_k = exp(-2πi k/n)` -/
lemma rfftAt_delta1 (hn : 2 ≤ n) (k : ℕ) :
    rfftAt realTrig n (delta1 (R := ℝ)) k = (Real.cos (ang realTrig n k), -Real.sin (ang realTrig n k)) := by
  have h1 : 1 ∈ range n := Finset.mem_range.mpr (by omega)
  simp only [rfftAt, sumN_eq_sum, delta1, Nat.cast_one, Nat.cast_zero, ite_mul, one_mul, zero_mul, neg_ite, neg_zero,
    Finset.sum_ite_eq', h1, if_true, mul_one]
  rfl

lemma arg_mk_cos_neg_sin (θ : ℝ) (h1 : 0 ≤ θ) (h2 : θ < π) :
    Complex.arg ⟨Real.cos θ, -Real.sin θ⟩ = -θ := by
  have : (⟨Real.cos θ, -Real.sin θ⟩ : ℂ) = Complex.cos ((-θ : ℝ) : ℂ) + Complex.sin ((-θ : ℝ) : ℂ) * Complex.I := by
    rw [← Complex.exp_mul_I, cexp_ofReal_mul_I, Real.cos_neg, Real.sin_neg]
  rw [this, Complex.arg_cos_add_sin_mul_I]
  constructor <;> linarith

omit [NeZero n] in
/-- `np.angle(dephas)[k] = -2πk/n` below Nyquist. -/
lemma dephasAngle_lt (k : ℕ) (hk : 2 * k < n) (hn : 2 ≤ n) : dephasAngle realTrig n k = -(2 * π * k / n) := by
  have hkn : k % n = k := Nat.mod_eq_of_lt (by omega)
  have hnpos : (0 : ℝ) < n := by positivity
  simp only [dephasAngle, rfftAt_delta1 hn]
  show Complex.arg ⟨Real.cos (ang realTrig n k), -Real.sin (ang realTrig n k)⟩ = _
  rw [ang_real, hkn, arg_mk_cos_neg_sin]
  · positivity
  · rw [div_lt_iff₀ hnpos]
    have : (2 * (k : ℝ)) < n := by exact_mod_cast hk
    nlinarith [Real.pi_pos]

omit [NeZero n] in
/-- `np.angle(dephas)[n/2] = π` at the Nyquist bin of an even length. -/
lemma dephasAngle_half (k : ℕ) (hk : 2 * k = n) (hn : 2 ≤ n) : dephasAngle realTrig n k = π := by
  have hkn : k % n = k := Nat.mod_eq_of_lt (by omega)
  have hk0 : (k : ℝ) ≠ 0 := by have : 0 < k := by omega
                               positivity
  simp only [dephasAngle, rfftAt_delta1 hn]
  show Complex.arg ⟨Real.cos (ang realTrig n k), -Real.sin (ang realTrig n k)⟩ = _
  have : 2 * π * (k : ℝ) / (n : ℝ) = π := by
    rw [← hk]; push_cast; field_simp
  rw [ang_real, hkn, this, Real.cos_pi, Real.sin_pi, neg_zero]
  have : (⟨-1, 0⟩ : ℂ) = -1 := by apply Complex.ext <;> simp
  rw [this, Complex.arg_neg_one]

omit [NeZero n] in
lemma toC_phase (k : ℕ) (s : ℝ) :
    toC (phase realTrig n k s) = Complex.exp (((dephasAngle realTrig n k * s : ℝ) : ℂ) * Complex.I) := by
  rw [cexp_ofReal_mul_I]; rfl

/-- The two-sided multiplier of a delay by `s` samples: `exp(-2πi f s / n)` with `f ∈ (-n/2, n/2)` the signed frequency
of bin `κ`, and `cos(π s)` at the Nyquist bin of an even length. -/
noncomputable def mu (n : ℕ) (s : ℝ) (κ : ZMod n) : ℂ :=
  if 2 * κ.val < n then Complex.exp (((-(2 * π * (κ.val : ℝ) / n) * s : ℝ) : ℂ) * Complex.I)
  else if 2 * κ.val = n then ((Real.cos (π * s) : ℝ) : ℂ)
  else Complex.exp ((((2 * π * ((n - κ.val : ℕ) : ℝ) / n) * s : ℝ) : ℂ) * Complex.I)

lemma lift_conj (x : ℕ → ℝ) (j : ZMod n) : conj (lift n x j) = lift n x j := by
  simp [lift]

/-- bins equal to their own negative (0 and Nyquist) carry a real coefficient -/
lemma dft_lift_real_of_neg_eq (x : ℕ → ℝ) (κ : ZMod n) (h : -κ = κ) :
    (((𝓕 (lift n x) κ).re : ℝ) : ℂ) = 𝓕 (lift n x) κ := by
  rw [← Complex.conj_eq_iff_re, ← FShiftDFT.dft_real_neg _ (lift_conj x), h]

/-- The half-spectrum pipeline `rfft → multiply by exp(i·angle(D)·s) → Hermitian completion` is multiplication of the
two-sided spectrum by `mu`. -/
lemma herm_pipeline (hn : 2 ≤ n) (x : ℕ → ℝ) (s : ℝ) (κ : ZMod n) :
    herm n (fun k => cmul (rfftAt realTrig n x k) (phase realTrig n k s)) κ = mu n s κ * 𝓕 (lift n x) κ := by
  have hlt : κ.val < n := ZMod.val_lt κ
  have hκ : ((κ.val : ℕ) : ZMod n) = κ := ZMod.natCast_zmod_val κ
  have hY : ∀ k : ℕ, toC (cmul (rfftAt realTrig n x k) (phase realTrig n k s))
      = 𝓕 (lift n x) (k : ZMod n) * Complex.exp (((dephasAngle realTrig n k * s : ℝ) : ℂ) * Complex.I) := by
    intro k; rw [toC_cmul, rfftAt_eq_dft, toC_phase]
  have hre : ∀ p : ℝ × ℝ, ((p.1 : ℝ) : ℂ) = (((toC p).re : ℝ) : ℂ) := fun p => rfl
  unfold herm mu
  by_cases h0 : κ.val = 0
  · have hκ0 : κ = 0 := (ZMod.val_eq_zero κ).mp h0
    subst hκ0
    have e1 : 2 * 0 < n := by omega
    simp only [ZMod.val_zero, e1, if_true]
    rw [hre, hY, dephasAngle_lt 0 (by omega) hn]
    simp only [Nat.cast_zero, mul_zero, zero_div, neg_zero, zero_mul, Complex.ofReal_zero, Complex.exp_zero, mul_one,
      one_mul]
    exact dft_lift_real_of_neg_eq x (0 : ZMod n) neg_zero
  · rcases lt_trichotomy (2 * κ.val) n with h | h | h
    · simp only [h0, h, if_true, if_false]
      rw [hY, hκ, dephasAngle_lt _ h hn, mul_comm]
    · have e2 : ¬ (2 * κ.val < n) := by omega
      have e3 : n / 2 = κ.val := by omega
      have hneg : -κ = κ := by
        apply ZMod.val_injective n
        rw [ZMod.neg_val]; simp only [(ZMod.val_eq_zero κ).not.mp h0, if_false]; omega
      simp only [h0, e2, h, lt_irrefl, if_true, if_false, e3]
      rw [hre, hY, hκ, dephasAngle_half _ h hn, ← dft_lift_real_of_neg_eq x κ hneg]
      rw [← Complex.ofReal_mul]
      congr 1
      rw [Complex.re_ofReal_mul, Complex.exp_ofReal_mul_I_re, mul_comm]
    · have e2 : ¬ (2 * κ.val < n) := by omega
      have e3 : ¬ (2 * κ.val = n) := by omega
      have hneg : ((n - κ.val : ℕ) : ZMod n) = -κ := by
        rw [Nat.cast_sub hlt.le, ZMod.natCast_self, hκ, zero_sub]
      simp only [h0, e2, e3, if_false]
      rw [hY, hneg, dephasAngle_lt _ (by omega) hn, map_mul, FShiftDFT.dft_real_neg _ (lift_conj x), Complex.conj_conj,
        ← Complex.exp_conj, mul_comm]
      congr 2
      simp only [map_mul, Complex.conj_ofReal, Complex.conj_I]
      push_cast; ring

/-- **The rfft/irfft pipeline of `fshift` equals the two-sided form** `𝓕⁻ (μ_s · 𝓕 x)`. -/
theorem fshiftAt_twosided (hn : 2 ≤ n) (x : ℕ → ℝ) (s : ℝ) (t : ℕ) :
    ((fshiftAt realTrig n x s t : ℝ) : ℂ) = 𝓕⁻ (fun κ => mu n s κ * 𝓕 (lift n x) κ) (t : ZMod n) := by
  unfold fshiftAt
  rw [irfftAt_eq_invDFT, show herm n (fun k => cmul (rfftAt realTrig n x k) (phase realTrig n k s))
    = fun κ => mu n s κ * 𝓕 (lift n x) κ from funext (herm_pipeline hn x s)]

lemma lift_fshiftAt (hn : 2 ≤ n) (x : ℕ → ℝ) (s : ℝ) :
    lift n (fshiftAt realTrig n x s) = 𝓕⁻ (fun κ => mu n s κ * 𝓕 (lift n x) κ) := by
  ext κ
  rw [lift, fshiftAt_twosided hn, ZMod.natCast_zmod_val]

lemma dft_lift_fshiftAt (hn : 2 ≤ n) (x : ℕ → ℝ) (s : ℝ) :
    𝓕 (lift n (fshiftAt realTrig n x s)) = fun κ => mu n s κ * 𝓕 (lift n x) κ := by
  rw [lift_fshiftAt hn, LinearEquiv.apply_symm_apply]

/-- For an integer number of samples the multiplier is the linear phase of a circular delay. -/
lemma mu_int (m : ℤ) (κ : ZMod n) : mu n (m : ℝ) κ = stdAddChar (-((m : ZMod n) * κ)) := by
  have hlt : κ.val < n := ZMod.val_lt κ
  have hnpos : 0 < n := NeZero.pos n
  have hn0 : (n : ℂ) ≠ 0 := by exact_mod_cast hnpos.ne'
  have hκ : -((m : ZMod n) * κ) = ((-(m * (κ.val : ℤ)) : ℤ) : ZMod n) := by
    push_cast; rw [ZMod.natCast_zmod_val]
  rw [hκ, stdAddChar_coe]
  unfold mu
  rcases lt_trichotomy (2 * κ.val) n with h | h | h
  · simp only [h, if_true]
    congr 1; push_cast; ring
  · have e2 : ¬ (2 * κ.val < n) := by omega
    simp only [e2, h, lt_irrefl, if_true, if_false]
    have hexp : 2 * (π : ℂ) * Complex.I * ((-(m * (κ.val : ℤ)) : ℤ) : ℂ) / (n : ℂ) = ((-(π * m) : ℝ) : ℂ) * Complex.I := by
      have : (n : ℂ) = 2 * (κ.val : ℂ) := by
        have := congrArg (fun a : ℕ => (a : ℂ)) h
        simpa using this.symm
      have hv : (κ.val : ℂ) ≠ 0 := by
        have : 0 < κ.val := by omega
        exact_mod_cast this.ne'
      rw [this]; push_cast; field_simp
    rw [hexp, cexp_ofReal_mul_I, Real.cos_neg, Real.sin_neg, mul_comm π (m : ℝ), Real.sin_int_mul_pi]
    apply Complex.ext <;> simp only [Complex.ofReal_re, Complex.ofReal_im, neg_zero]
  · have e2 : ¬ (2 * κ.val < n) := by omega
    have e3 : ¬ (2 * κ.val = n) := by omega
    simp only [e2, e3, if_false]
    have hexp : ((((2 * π * ((n - κ.val : ℕ) : ℝ) / n) * m : ℝ) : ℂ) * Complex.I)
        = 2 * (π : ℂ) * Complex.I * ((-(m * (κ.val : ℤ)) : ℤ) : ℂ) / (n : ℂ) + (m : ℂ) * (2 * π * Complex.I) := by
      rw [Nat.cast_sub hlt.le]; push_cast; field_simp; ring
    rw [hexp, Complex.exp_add, Complex.exp_int_mul_two_pi_mul_I, mul_one]

/-- Integer shift = circular roll, at the level of samples. -/
theorem fshiftAt_int (hn : 2 ≤ n) (x : ℕ → ℝ) (m : ℤ) (t : ℕ) :
    fshiftAt realTrig n x (m : ℝ) t = x ((((t : ℤ) - m) % (n : ℤ)).toNat) := by
  have h := fshiftAt_twosided hn x (m : ℝ) t
  have hmu : (fun κ => mu n (m : ℝ) κ * 𝓕 (lift n x) κ) = fun κ => stdAddChar (-((m : ZMod n) * κ)) * 𝓕 (lift n x) κ := by
    ext κ; rw [mu_int]
  rw [hmu, FShiftDFT.invDFT_char_mul] at h
  have hv : ((t : ZMod n) - (m : ZMod n)).val = (((t : ℤ) - m) % (n : ℤ)).toNat := by
    have : ((t : ZMod n) - (m : ZMod n)) = (((t : ℤ) - m : ℤ) : ZMod n) := by push_cast; rfl
    rw [this]
    have := ZMod.val_intCast (n := n) ((t : ℤ) - m)
    omega
  simp only [lift, hv] at h
  exact_mod_cast h

/-- Multipliers of two delays compose to the multiplier of the summed delay, except at the Nyquist bin of an even
length, where `cos(πa)cos(πb) = cos(π(a+b)) + sin(πa)sin(πb)`. -/
lemma mu_mul (a b : ℝ) (κ : ZMod n) :
    mu n b κ * mu n a κ = mu n (a + b) κ
      + (if 2 * κ.val = n then ((Real.sin (π * a) * Real.sin (π * b) : ℝ) : ℂ) else 0) := by
  unfold mu
  rcases lt_trichotomy (2 * κ.val) n with h | h | h
  · have e : ¬ (2 * κ.val = n) := by omega
    simp only [h, e, if_true, if_false, add_zero]
    rw [← Complex.exp_add]; congr 1; push_cast; ring
  · have e : ¬ (2 * κ.val < n) := by omega
    simp only [h, lt_irrefl, if_true, if_false]
    rw [mul_add, Real.cos_add]; push_cast; ring
  · have e : ¬ (2 * κ.val = n) := by omega
    have e2 : ¬ (2 * κ.val < n) := by omega
    simp only [e, e2, if_false, add_zero]
    rw [← Complex.exp_add]; congr 1; push_cast; ring

omit [NeZero n] in
lemma ite_neg_one_pow (t : ℕ) : (if t % 2 = 0 then (1 : ℂ) else -1) = (((-1 : ℝ) ^ t : ℝ) : ℂ) := by
  rcases Nat.even_or_odd t with h | h
  · rw [if_pos (Nat.even_iff.mp h), h.neg_one_pow]; simp
  · rw [if_neg (by have := Nat.odd_iff.mp h; omega), h.neg_one_pow]; simp

/-- the Nyquist coefficient of a real signal of even length is its alternating sum -/
lemma dft_lift_half (hn : n % 2 = 0) (x : ℕ → ℝ) :
    𝓕 (lift n x) ((n / 2 : ℕ) : ZMod n) = ((∑ j ∈ range n, (-1 : ℝ) ^ j * x j : ℝ) : ℂ) := by
  rw [dft_apply, FShiftDFT.sum_zmod_eq_sum_range, Complex.ofReal_sum]
  refine Finset.sum_congr rfl fun j hj => ?_
  rw [lift_natCast x j (Finset.mem_range.mp hj), smul_eq_mul, AddChar.map_neg_eq_conj, mul_comm (j : ZMod n),
    twiddle_half hn, ite_neg_one_pow, Complex.conj_ofReal]
  push_cast; ring

/-- **Composition of two shifts, with the exact defect** (closed form of finding F13): the two successive shifts equal
the single shift by `a + b` plus, for even `n`, `X_{n/2} · sin(πa) · sin(πb) · (-1)^t / n`. -/
theorem fshiftAt_comp (hn : 2 ≤ n) (x : ℕ → ℝ) (a b : ℝ) (t : ℕ) :
    fshiftAt realTrig n (fshiftAt realTrig n x a) b t = fshiftAt realTrig n x (a + b) t
      + (if n % 2 = 0 then (∑ j ∈ range n, (-1 : ℝ) ^ j * x j) * (Real.sin (π * a) * Real.sin (π * b)) * (-1 : ℝ) ^ t / n
         else 0) := by
  have hC := fshiftAt_twosided hn (fshiftAt realTrig n x a) b t
  rw [dft_lift_fshiftAt hn] at hC
  have hsplit : (fun κ => mu n b κ * (mu n a κ * 𝓕 (lift n x) κ))
      = (fun κ => mu n (a + b) κ * 𝓕 (lift n x) κ)
        + (if n % 2 = 0 then Pi.single ((n / 2 : ℕ) : ZMod n)
            (((Real.sin (π * a) * Real.sin (π * b) : ℝ) : ℂ) * 𝓕 (lift n x) ((n / 2 : ℕ) : ZMod n)) else 0) := by
    ext κ
    rw [← mul_assoc, mu_mul, add_mul, Pi.add_apply]
    congr 1
    by_cases hpar : n % 2 = 0
    · rw [if_pos hpar]
      have hval : (((n / 2 : ℕ) : ZMod n)).val = n / 2 := ZMod.val_natCast_of_lt (by omega)
      by_cases hκ : κ = ((n / 2 : ℕ) : ZMod n)
      · rw [hκ, Pi.single_eq_same, hval, if_pos (by omega)]
      · rw [Pi.single_eq_of_ne hκ, if_neg, zero_mul]
        intro h2
        apply hκ
        rw [← ZMod.natCast_zmod_val κ]
        congr 1; omega
    · rw [if_neg hpar, if_neg (by omega), zero_mul, Pi.zero_apply]
  rw [hsplit, map_add, Pi.add_apply, ← fshiftAt_twosided hn] at hC
  by_cases hpar : n % 2 = 0
  · rw [if_pos hpar, FShiftDFT.invDFT_single, twiddle_half hpar, ite_neg_one_pow, dft_lift_half hpar] at hC
    rw [if_pos hpar]
    have : (((fshiftAt realTrig n (fshiftAt realTrig n x a) b t : ℝ)) : ℂ) =
        ((fshiftAt realTrig n x (a + b) t + (∑ j ∈ range n, (-1 : ℝ) ^ j * x j) * (Real.sin (π * a) * Real.sin (π * b))
          * (-1 : ℝ) ^ t / n : ℝ) : ℂ) := by
      rw [hC]; push_cast; ring
    exact_mod_cast this
  · rw [if_neg hpar, map_zero, Pi.zero_apply, add_zero] at hC
    rw [if_neg hpar, add_zero]
    exact_mod_cast hC

/-- The two-sided shift operator `𝓕⁻ ∘ (μ_s ·) ∘ 𝓕` as a `ℂ`-linear map. -/
noncomputable def shiftOp (n : ℕ) [NeZero n] (s : ℝ) : (ZMod n → ℂ) →ₗ[ℂ] (ZMod n → ℂ) :=
  (dft (N := n) (E := ℂ)).symm.toLinearMap ∘ₗ LinearMap.mulLeft ℂ (mu n s) ∘ₗ (dft (N := n) (E := ℂ)).toLinearMap

lemma shiftOp_apply (s : ℝ) (f : ZMod n → ℂ) : shiftOp n s f = 𝓕⁻ (fun κ => mu n s κ * 𝓕 f κ) := rfl

theorem fshiftAt_eq_shiftOp (hn : 2 ≤ n) (x : ℕ → ℝ) (s : ℝ) (t : ℕ) :
    ((fshiftAt realTrig n x s t : ℝ) : ℂ) = shiftOp n s (lift n x) (t : ZMod n) := by
  rw [shiftOp_apply, fshiftAt_twosided hn]

/-- `fshift` is linear in the signal. -/
theorem fshiftAt_linear (hn : 2 ≤ n) (x y : ℕ → ℝ) (α β s : ℝ) (t : ℕ) :
    fshiftAt realTrig n (fun j => α * x j + β * y j) s t
      = α * fshiftAt realTrig n x s t + β * fshiftAt realTrig n y s t := by
  have hl : lift n (fun j => α * x j + β * y j) = (α : ℂ) • lift n x + (β : ℂ) • lift n y := by
    ext κ; simp [lift]
  have h := fshiftAt_eq_shiftOp hn (fun j => α * x j + β * y j) s t
  rw [hl, map_add, _root_.map_smul, _root_.map_smul, Pi.add_apply, Pi.smul_apply, Pi.smul_apply,
    ← fshiftAt_eq_shiftOp hn, ← fshiftAt_eq_shiftOp hn] at h
  have : ((fshiftAt realTrig n (fun j => α * x j + β * y j) s t : ℝ) : ℂ)
      = ((α * fshiftAt realTrig n x s t + β * fshiftAt realTrig n y s t : ℝ) : ℂ) := by
    rw [h]; push_cast; simp [smul_eq_mul]
  exact_mod_cast this

/-- the unit impulse at sample `j` -/
def impulse (j : ℕ) (t : ℕ) : ℝ := if t = j then 1 else 0

/-- **Impulse basis**: the shifted signal is the superposition of the shifted unit impulses, so the operator is
determined by its action on the `n` impulses. -/
theorem fshiftAt_impulse_basis (hn : 2 ≤ n) (x : ℕ → ℝ) (s : ℝ) (t : ℕ) :
    fshiftAt realTrig n x s t = ∑ j ∈ range n, x j * fshiftAt realTrig n (impulse j) s t := by
  have hl : lift n x = ∑ j ∈ range n, (x j : ℂ) • lift n (impulse j) := by
    ext κ
    have hlt : κ.val ∈ range n := Finset.mem_range.mpr (ZMod.val_lt κ)
    simp only [lift, impulse, Finset.sum_apply, Pi.smul_apply, smul_eq_mul]
    simp only [apply_ite (Complex.ofReal), Complex.ofReal_one, Complex.ofReal_zero, mul_ite, mul_one, mul_zero]
    rw [Finset.sum_ite_eq, if_pos hlt]
  have h := fshiftAt_eq_shiftOp hn x s t
  rw [hl, map_sum, Finset.sum_apply] at h
  have : ((fshiftAt realTrig n x s t : ℝ) : ℂ)
      = ((∑ j ∈ range n, x j * fshiftAt realTrig n (impulse j) s t : ℝ) : ℂ) := by
    rw [h, Complex.ofReal_sum]
    refine Finset.sum_congr rfl fun j _ => ?_
    rw [_root_.map_smul, Pi.smul_apply, ← fshiftAt_eq_shiftOp hn]; push_cast; simp [smul_eq_mul]
  exact_mod_cast this

/-- the complex exponential of frequency `κ₀` on `ZMod n` -/
noncomputable def echar (κ₀ : ZMod n) : ZMod n → ℂ := fun j => stdAddChar (κ₀ * j)

lemma dft_echar (κ₀ : ZMod n) : 𝓕 (echar κ₀) = Pi.single κ₀ (n : ℂ) := by
  have hn0 : (n : ℂ) ≠ 0 := by exact_mod_cast (NeZero.pos n).ne'
  have : echar κ₀ = 𝓕⁻ (Pi.single κ₀ (n : ℂ)) := by
    ext t; rw [FShiftDFT.invDFT_single, echar]; field_simp
  rw [this, LinearEquiv.apply_symm_apply]

/-- complex exponentials are eigenvectors of the shift operator -/
lemma shiftOp_echar (s : ℝ) (κ₀ : ZMod n) : shiftOp n s (echar κ₀) = mu n s κ₀ • echar κ₀ := by
  have hn0 : (n : ℂ) ≠ 0 := by exact_mod_cast (NeZero.pos n).ne'
  rw [shiftOp_apply, dft_echar]
  have : (fun κ => mu n s κ * (Pi.single κ₀ (n : ℂ) : ZMod n → ℂ) κ) = Pi.single κ₀ (mu n s κ₀ * n) := by
    ext κ
    by_cases h : κ = κ₀
    · rw [h, Pi.single_eq_same, Pi.single_eq_same]
    · rw [Pi.single_eq_of_ne h, Pi.single_eq_of_ne h, mul_zero]
  rw [this]
  ext t
  rw [FShiftDFT.invDFT_single, Pi.smul_apply, echar, smul_eq_mul]
  field_simp

lemma mu_natCast (s : ℝ) (f : ℕ) (hf : 2 * f < n) :
    mu n s ((f : ℕ) : ZMod n) = Complex.exp (((-(2 * π * (f : ℝ) / n) * s : ℝ) : ℂ) * Complex.I) := by
  have hv : (((f : ℕ) : ZMod n)).val = f := ZMod.val_natCast_of_lt (by omega)
  unfold mu
  rw [hv, if_pos hf]

lemma mu_neg_natCast (s : ℝ) (f : ℕ) (hf : 2 * f < n) :
    mu n s (-((f : ℕ) : ZMod n)) = Complex.exp ((((2 * π * (f : ℝ) / n) * s : ℝ) : ℂ) * Complex.I) := by
  rcases Nat.eq_zero_or_pos f with h0 | hpos
  · subst h0
    have := mu_natCast (n := n) s 0 hf
    simp only [Nat.cast_zero, neg_zero] at this ⊢
    rw [this]; simp
  · have hv : (((f : ℕ) : ZMod n)).val = f := ZMod.val_natCast_of_lt (by omega)
    have hne : ((f : ℕ) : ZMod n) ≠ 0 := by
      intro h; rw [← ZMod.val_eq_zero, hv] at h; omega
    have hv' : (-((f : ℕ) : ZMod n)).val = n - f := by rw [ZMod.neg_val, if_neg hne, hv]
    unfold mu
    rw [hv', if_neg (by omega), if_neg (by omega), show n - (n - f) = f by omega]

lemma echar_natCast (f v : ℕ) :
    echar ((f : ℕ) : ZMod n) ((v : ℕ) : ZMod n) = Complex.exp (((2 * π * (f : ℝ) / n * v : ℝ) : ℂ) * Complex.I) := by
  rw [echar, show (((f : ℕ) : ZMod n) * ((v : ℕ) : ZMod n)) = (((f : ℤ) * (v : ℤ) : ℤ) : ZMod n) by push_cast; rfl,
    stdAddChar_coe]
  congr 1; push_cast; ring

lemma echar_neg_natCast (f v : ℕ) :
    echar (-((f : ℕ) : ZMod n)) ((v : ℕ) : ZMod n) = Complex.exp (((-(2 * π * (f : ℝ) / n * v) : ℝ) : ℂ) * Complex.I) := by
  rw [echar, show (-((f : ℕ) : ZMod n) * ((v : ℕ) : ZMod n)) = ((-((f : ℤ) * (v : ℤ)) : ℤ) : ZMod n) by push_cast; ring,
    stdAddChar_coe]
  congr 1; push_cast; ring

omit [NeZero n] in
lemma ofReal_cos_eq (θ : ℝ) :
    ((Real.cos θ : ℝ) : ℂ) = (Complex.exp ((θ : ℂ) * Complex.I) + Complex.exp (((-θ : ℝ) : ℂ) * Complex.I)) / 2 := by
  rw [Complex.ofReal_cos, Complex.cos]; push_cast; ring_nf

omit [NeZero n] in
lemma ofReal_sin_eq (θ : ℝ) :
    ((Real.sin θ : ℝ) : ℂ) = (Complex.exp (((-θ : ℝ) : ℂ) * Complex.I) - Complex.exp ((θ : ℂ) * Complex.I)) * Complex.I / 2 := by
  rw [Complex.ofReal_sin, Complex.sin]; push_cast; ring_nf

/-- sampled cosine / sine of `f` cycles per `n` samples, as functions on `ZMod n` -/
noncomputable def cosfun (n f : ℕ) : ZMod n → ℂ := fun j => ((Real.cos (2 * π * (f : ℝ) / n * j.val) : ℝ) : ℂ)
noncomputable def sinfun (n f : ℕ) : ZMod n → ℂ := fun j => ((Real.sin (2 * π * (f : ℝ) / n * j.val) : ℝ) : ℂ)

lemma cosfun_eq (f : ℕ) :
    cosfun n f = (1 / 2 : ℂ) • echar ((f : ℕ) : ZMod n) + (1 / 2 : ℂ) • echar (-((f : ℕ) : ZMod n)) := by
  ext j
  rw [← ZMod.natCast_zmod_val j]
  simp only [cosfun, Pi.add_apply, Pi.smul_apply, smul_eq_mul, echar_natCast, echar_neg_natCast, ofReal_cos_eq,
    ZMod.val_natCast_of_lt (ZMod.val_lt j)]
  ring

lemma sinfun_eq (f : ℕ) :
    sinfun n f = (-Complex.I / 2 : ℂ) • echar ((f : ℕ) : ZMod n) + (Complex.I / 2 : ℂ) • echar (-((f : ℕ) : ZMod n)) := by
  ext j
  rw [← ZMod.natCast_zmod_val j]
  simp only [sinfun, Pi.add_apply, Pi.smul_apply, smul_eq_mul, echar_natCast, echar_neg_natCast, ofReal_sin_eq,
    ZMod.val_natCast_of_lt (ZMod.val_lt j)]
  ring

/-- a sampled cosine below Nyquist is delayed analytically, for every real `s` -/
lemma shiftOp_cosfun (s : ℝ) (f : ℕ) (hf : 2 * f < n) (t : ℕ) :
    shiftOp n s (cosfun n f) ((t : ℕ) : ZMod n) = ((Real.cos (2 * π * (f : ℝ) / n * ((t : ℝ) - s)) : ℝ) : ℂ) := by
  rw [cosfun_eq, map_add, _root_.map_smul, _root_.map_smul, shiftOp_echar, shiftOp_echar, mu_natCast s f hf,
    mu_neg_natCast s f hf]
  simp only [Pi.add_apply, Pi.smul_apply, smul_eq_mul, echar_natCast, echar_neg_natCast, ofReal_cos_eq,
    ← Complex.exp_add]
  have e1 : ((-(2 * π * (f : ℝ) / n) * s : ℝ) : ℂ) * Complex.I + ((2 * π * (f : ℝ) / n * t : ℝ) : ℂ) * Complex.I
      = ((2 * π * (f : ℝ) / n * ((t : ℝ) - s) : ℝ) : ℂ) * Complex.I := by push_cast; ring
  have e2 : (((2 * π * (f : ℝ) / n) * s : ℝ) : ℂ) * Complex.I + ((-(2 * π * (f : ℝ) / n * t) : ℝ) : ℂ) * Complex.I
      = ((-(2 * π * (f : ℝ) / n * ((t : ℝ) - s)) : ℝ) : ℂ) * Complex.I := by push_cast; ring
  rw [e1, e2]; ring

lemma shiftOp_sinfun (s : ℝ) (f : ℕ) (hf : 2 * f < n) (t : ℕ) :
    shiftOp n s (sinfun n f) ((t : ℕ) : ZMod n) = ((Real.sin (2 * π * (f : ℝ) / n * ((t : ℝ) - s)) : ℝ) : ℂ) := by
  rw [sinfun_eq, map_add, _root_.map_smul, _root_.map_smul, shiftOp_echar, shiftOp_echar, mu_natCast s f hf,
    mu_neg_natCast s f hf]
  simp only [Pi.add_apply, Pi.smul_apply, smul_eq_mul, echar_natCast, echar_neg_natCast, ofReal_sin_eq,
    ← Complex.exp_add]
  have e1 : ((-(2 * π * (f : ℝ) / n) * s : ℝ) : ℂ) * Complex.I + ((2 * π * (f : ℝ) / n * t : ℝ) : ℂ) * Complex.I
      = ((2 * π * (f : ℝ) / n * ((t : ℝ) - s) : ℝ) : ℂ) * Complex.I := by push_cast; ring
  have e2 : (((2 * π * (f : ℝ) / n) * s : ℝ) : ℂ) * Complex.I + ((-(2 * π * (f : ℝ) / n * t) : ℝ) : ℂ) * Complex.I
      = ((-(2 * π * (f : ℝ) / n * ((t : ℝ) - s)) : ℝ) : ℂ) * Complex.I := by push_cast; ring
  rw [e1, e2]; ring

/-- A real trigonometric polynomial with harmonics `1 … K` of the fundamental period `n` (in samples), evaluated at the
real time `τ`: `c + Σ_{k<K} a_k cos(2π(k+1)τ/n) + b_k sin(2π(k+1)τ/n)`. -/
noncomputable def trigPoly (n K : ℕ) (c : ℝ) (a b : ℕ → ℝ) (τ : ℝ) : ℝ :=
  c + ∑ k ∈ range K, (a k * Real.cos (2 * π * ((k + 1 : ℕ) : ℝ) / n * τ)
                     + b k * Real.sin (2 * π * ((k + 1 : ℕ) : ℝ) / n * τ))

/-- **Below Nyquist a fractional shift is the analytic delay**: sampling a trigonometric polynomial whose harmonics
are all below `n/2` and shifting by any real `s` gives the samples of the polynomial delayed by `s`. -/
theorem fshiftAt_bandlimited (hn : 2 ≤ n) (K : ℕ) (hK : 2 * K < n) (c : ℝ) (a b : ℕ → ℝ) (s : ℝ) (t : ℕ) :
    fshiftAt realTrig n (fun j => trigPoly n K c a b (j : ℝ)) s t = trigPoly n K c a b ((t : ℝ) - s) := by
  have hl : lift n (fun j => trigPoly n K c a b (j : ℝ))
      = (c : ℂ) • cosfun n 0 + ∑ k ∈ range K, ((a k : ℂ) • cosfun n (k + 1) + (b k : ℂ) • sinfun n (k + 1)) := by
    ext κ
    simp only [lift, trigPoly, cosfun, sinfun, Pi.add_apply, Pi.smul_apply, Finset.sum_apply, smul_eq_mul]
    push_cast
    simp
  have h := fshiftAt_eq_shiftOp hn (fun j => trigPoly n K c a b (j : ℝ)) s t
  rw [hl, map_add, _root_.map_smul, map_sum, Pi.add_apply, Pi.smul_apply, Finset.sum_apply,
    shiftOp_cosfun s 0 (by omega)] at h
  have hterm : ∀ k ∈ range K, (shiftOp n s ((a k : ℂ) • cosfun n (k + 1) + (b k : ℂ) • sinfun n (k + 1))) ((t : ℕ) : ZMod n)
      = (((a k * Real.cos (2 * π * ((k + 1 : ℕ) : ℝ) / n * ((t : ℝ) - s))
          + b k * Real.sin (2 * π * ((k + 1 : ℕ) : ℝ) / n * ((t : ℝ) - s))) : ℝ) : ℂ) := by
    intro k hk
    have hk' := Finset.mem_range.mp hk
    rw [map_add, _root_.map_smul, _root_.map_smul, Pi.add_apply, Pi.smul_apply, Pi.smul_apply,
      shiftOp_cosfun s (k + 1) (by omega), shiftOp_sinfun s (k + 1) (by omega)]
    push_cast; simp [smul_eq_mul]
  rw [Finset.sum_congr rfl hterm] at h
  have : ((fshiftAt realTrig n (fun j => trigPoly n K c a b (j : ℝ)) s t : ℝ) : ℂ)
      = ((trigPoly n K c a b ((t : ℝ) - s) : ℝ) : ℂ) := by
    rw [h, trigPoly]; push_cast; simp [smul_eq_mul]
  exact_mod_cast this

end IblVerif.FShift
