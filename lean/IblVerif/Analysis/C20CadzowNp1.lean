/-
Real-valued statements about the gain windows of `cadzow_np1` (`Model/C20CadzowNp1.lean`): on the documented domain every
channel receives total weight 1 (so that with `denoise` the identity the function returns its input), for every taper that
splices (`h t + h (ovx - 1 - t) = 1`), in particular for the Hann taper the code uses.
-/
import IblVerif.Lemmas.C20CadzowNp1
import Mathlib.Analysis.SpecialFunctions.Trigonometric.Basic
import Mathlib.Algebra.BigOperators.Group.Finset.Basic

namespace IblVerif.CadzowNp1
open Finset

theorem sumTo_eq_sum (n : ℕ) (f : ℕ → ℝ) : sumTo n f = ∑ k ∈ range n, f k := by
  unfold sumTo
  induction n with
  | zero => simp
  | succ n ih => rw [List.range_succ, List.foldl_append, ih, Finset.sum_range_succ]; simp

/-- The summand of `weightAt` for window `k` at row `i`. -/
def term (h : ℕ → ℝ) (ntr nswx ovx i k : ℕ) : ℝ :=
  if firstx nswx ovx k ≤ i ∧ i < lastx nswx ovx k then gw h nswx ovx (kindOf ntr nswx ovx k) (i - firstx nswx ovx k) else 0

theorem weightAt_eq (h : ℕ → ℝ) (ntr nswx ovx npad i : ℕ) :
    weightAt h ntr nswx ovx npad i = ∑ k ∈ range (nwinx ntr nswx ovx npad), term h ntr nswx ovx i k := by
  unfold weightAt
  rw [sumTo_eq_sum]
  rfl

/-- Total weight 1 on the documented domain `ntr = m (nswx - ovx) + nswx` with at least two windows (`m ≥ 1`),
`2 ovx ≤ nswx`, no padding, for every splicing taper. -/
theorem weightAt_eq_one (h : ℕ → ℝ) (nswx ovx m : ℕ) (hov : ovx < nswx) (hw : 2 * ovx ≤ nswx) (hm : 1 ≤ m)
    (hh : ∀ t, t < ovx → h t + h (ovx - 1 - t) = 1) (i : ℕ) (hi : i < m * (nswx - ovx) + nswx) :
    weightAt h (m * (nswx - ovx) + nswx) nswx ovx 0 i = 1 := by
  rw [weightAt_eq, nwinx_eq nswx ovx m hov]
  set ntr := m * (nswx - ovx) + nswx with hntr
  have hs : 0 < nswx - ovx := by omega
  obtain ⟨s, hS⟩ : ∃ s, s = nswx - ovx := ⟨_, rfl⟩
  have hsn : nswx = s + ovx := by omega
  have hos : ovx ≤ s := by omega
  have hs' : 0 < s := by omega
  -- i = q s + r
  obtain ⟨q, r, hr, hqr⟩ : ∃ q r, r < s ∧ i = q * s + r :=
    ⟨i / s, i % s, Nat.mod_lt _ hs', by rw [Nat.mul_comm]; exact (Nat.div_add_mod i s).symm⟩
  -- the value of a term, with the window arithmetic made explicit
  have hterm : ∀ k, term h ntr nswx ovx i k =
      if k * s ≤ i ∧ i < k * s + nswx then gw h nswx ovx (kindOf ntr nswx ovx k) (i - k * s) else 0 := by
    intro k; simp only [term, firstx, lastx, ← hS]
  have hzero : ∀ k, ¬ (k = q ∨ (k + 1 = q ∧ r < ovx)) → term h ntr nswx ovx i k = 0 := by
    intro k hk
    rw [hterm]
    split
    · rename_i hc
      exact absurd (window_mem s nswx ovx q r k hsn hos hr (by omega) (by omega)) hk
    · rfl
  have hms : m * (nswx - ovx) = m * s := by rw [hS]
  have hkind : ∀ k, 0 < k → kindOf ntr nswx ovx k = if k = m then .last else .mid := fun k hk =>
    kindOf_pos nswx ovx m k hov hk
  -- q ≤ m + 1
  have hq : q ≤ m + 1 := by
    by_contra hc
    have := mul_step_le (s := s) (show m + 1 < q by omega)
    have e := succ_mul' m s
    omega
  by_cases hlast : q = m + 1
  · -- only the last window, in its flat tail
    subst hlast
    have e := succ_mul' m s
    have hrov : r < ovx := by omega
    rw [Finset.sum_eq_single_of_mem m (by simp)]
    · rw [hterm]
      have hc : m * s ≤ i ∧ i < m * s + nswx := by omega
      rw [if_pos hc, hkind m (by omega)]
      simp only [if_true, gw]
      have : ¬ (i - m * s < ovx) := by omega
      simp [this]
    · intro k hkmem hk
      have := Finset.mem_range.mp hkmem
      apply hzero
      omega
  · have hqm : q ≤ m := by omega
    by_cases hsingle : q = 0 ∨ ovx ≤ r
    · -- one window, in its flat part
      rw [Finset.sum_eq_single_of_mem q (by simp; omega)]
      · rw [hterm]
        have hc : q * s ≤ i ∧ i < q * s + nswx := by omega
        rw [if_pos hc]
        have hoff : i - q * s = r := by omega
        rw [hoff]
        rcases Nat.eq_zero_or_pos q with h0 | hpos
        · subst h0
          rw [kindOf_zero]
          have : r < nswx - ovx := by omega
          simp [gw, this]
        · rw [hkind q hpos]
          have h1 : ¬ r < ovx := by omega
          have h2 : r < nswx - ovx := by omega
          split <;> simp [gw, h1, h2]
      · intro k _ hk
        apply hzero
        omega
    · -- two windows: fade-out of window q - 1, fade-in of window q
      have hq1 : 1 ≤ q := by omega
      have hrov : r < ovx := by omega
      obtain ⟨p, hp⟩ : ∃ p, q = p + 1 := ⟨q - 1, by omega⟩
      have e := succ_mul' p s
      rw [Finset.sum_eq_add_of_mem p q (by simp; omega) (by simp; omega) (by omega)]
      · rw [hterm, hterm]
        have hc1 : p * s ≤ i ∧ i < p * s + nswx := by subst hp; omega
        have hc2 : q * s ≤ i ∧ i < q * s + nswx := by omega
        rw [if_pos hc1, if_pos hc2]
        have hoff1 : i - p * s = s + r := by subst hp; omega
        have hoff2 : i - q * s = r := by omega
        rw [hoff1, hoff2, hkind q (by omega)]
        have hidx : nswx - 1 - (s + r) = ovx - 1 - r := by omega
        have hA : gw h nswx ovx (kindOf ntr nswx ovx p) (s + r) = h (ovx - 1 - r) := by
          have h1 : ¬ s + r < nswx - ovx := by omega
          have h2 : ¬ s + r < ovx := by omega
          rcases Nat.eq_zero_or_pos p with h0 | hpos
          · subst h0; rw [kindOf_zero]; simp [gw, h1, hidx]
          · rw [hkind p hpos]
            have : ¬ p = m := by omega
            simp [gw, this, h1, h2, hidx]
        have hB : gw h nswx ovx (if q = m then Kind.last else Kind.mid) r = h r := by
          split <;> simp [gw, hrov]
        rw [hA, hB, add_comm]
        exact hh r hrov
      · intro k _ hk
        apply hzero
        omega

/-! ### The taper of the code: `scipy.signal.windows.hann(2 ovx - 1)[0:ovx]` -/

/-- `hann(M)[t] = 1/2 - 1/2 cos(2 π t / (M - 1))` with `M = 2 ovx - 1`. -/
noncomputable def hann (ovx t : ℕ) : ℝ := 1 / 2 - 1 / 2 * Real.cos (2 * Real.pi * t / (2 * ovx - 2))

/-- The `assert np.all(np.isclose(hanning + np.flipud(hanning), 1))` of the code holds exactly, for every `ovx ≥ 2`. -/
theorem hann_splice (ovx t : ℕ) (ho : 2 ≤ ovx) (ht : t < ovx) : hann ovx t + hann ovx (ovx - 1 - t) = 1 := by
  unfold hann
  have hc : ((ovx - 1 - t : ℕ) : ℝ) = (ovx : ℝ) - 1 - t := by
    rw [Nat.cast_sub (by omega), Nat.cast_sub (by omega)]; simp
  have hd : (2 * (ovx : ℝ) - 2) ≠ 0 := by
    have : (2 : ℝ) ≤ ovx := by exact_mod_cast ho
    linarith
  have harg : 2 * Real.pi * ((ovx - 1 - t : ℕ) : ℝ) / (2 * ovx - 2) = Real.pi - 2 * Real.pi * t / (2 * ovx - 2) := by
    rw [hc, eq_sub_iff_add_eq, ← add_div, div_eq_iff hd]; ring
  rw [harg, Real.cos_pi_sub]
  ring

theorem hann_zero (ovx : ℕ) : hann ovx 0 = 0 := by simp [hann]

end IblVerif.CadzowNp1
