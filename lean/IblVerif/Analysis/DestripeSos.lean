/-
C05: the modelled `scipy.signal.sosfiltfilt` (`Model/DestripeSos.lean`) removes constants as soon as ONE section has a
numerator that sums to zero (zero gain at frequency 0 — every section of a Butterworth high-pass) and no section has a
pole at z = 1.  This is the law `KillsConst` that `kfilt_kills_common_mode` assumes of the spatial filter; it covers the
odd extension, the `sosfilt_zi` initial conditions and both passes, for every signal length.
-/
import IblVerif.Model.DestripeSos
import IblVerif.Analysis.Destripe

namespace IblVerif.Destripe

/-- no pole at z = 1: `a.sum() ≠ 0` -/
def Sec.regular (s : Sec ℝ) : Prop := 1 + s.a1 + s.a2 ≠ 0

/-- zero at z = 1: `b.sum() = 0` -/
def Sec.zeroDC (s : Sec ℝ) : Prop := s.b0 + s.b1 + s.b2 = 0

/-- the state of `lfilter_zi` is the fixed point of the section for a unit-constant input, with output `dcGain` -/
theorem lfilterZi_fixed (s : Sec ℝ) (h : s.regular) :
    s.b0 + (lfilterZi s).1 = dcGain s ∧
    s.b1 - s.a1 * dcGain s + (lfilterZi s).2 = (lfilterZi s).1 ∧
    s.b2 - s.a2 * dcGain s = (lfilterZi s).2 := by
  unfold Sec.regular at h
  unfold lfilterZi dcGain
  refine ⟨?_, ?_, ?_⟩ <;> field_simp <;> ring

/-- a section started in its scaled steady state answers a constant input `c` with the constant `dcGain · c` -/
theorem secRun_const (s : Sec ℝ) (h : s.regular) (c : ℝ) :
    ∀ l : List ℝ, (∀ v ∈ l, v = c) →
      ∀ v ∈ secRun s ((lfilterZi s).1 * c, (lfilterZi s).2 * c) l, v = dcGain s * c := by
  obtain ⟨f1, f2, f3⟩ := lfilterZi_fixed s h
  intro l
  induction l with
  | nil => intro _ v hv; simp [secRun] at hv
  | cons x xs ih =>
    intro hl v hv
    have hx : x = c := hl x List.mem_cons_self
    subst hx
    have hy : (secStep s ((lfilterZi s).1 * x, (lfilterZi s).2 * x) x).1 = dcGain s * x := by
      simp only [secStep]; rw [← f1]; ring
    have hz : (secStep s ((lfilterZi s).1 * x, (lfilterZi s).2 * x) x).2 = ((lfilterZi s).1 * x, (lfilterZi s).2 * x) := by
      have hy' : s.b0 * x + (lfilterZi s).1 * x = dcGain s * x := by rw [← f1]; ring
      simp only [secStep, hy']
      refine Prod.ext ?_ ?_
      · show s.b1 * x - s.a1 * (dcGain s * x) + (lfilterZi s).2 * x = (lfilterZi s).1 * x
        rw [← f2]; ring
      · show s.b2 * x - s.a2 * (dcGain s * x) = (lfilterZi s).2 * x
        rw [← f3]; ring
    simp only [secRun, List.mem_cons] at hv
    rcases hv with hv | hv
    · rw [hv, hy]
    · rw [hz] at hv
      exact ih (fun u hu => hl u (List.mem_cons_of_mem _ hu)) v hv

/-- product of the DC gains -/
noncomputable def gainProd : List (Sec ℝ) → ℝ
  | [] => 1
  | s :: r => dcGain s * gainProd r

theorem gainProd_zero (secs : List (Sec ℝ)) (hz : ∃ s ∈ secs, s.zeroDC) : gainProd secs = 0 := by
  induction secs with
  | nil => obtain ⟨s, hs, _⟩ := hz; cases hs
  | cons a r ih =>
    obtain ⟨s, hs, h0⟩ := hz
    simp only [gainProd]
    rcases List.mem_cons.mp hs with rfl | hs'
    · have : dcGain s = 0 := by unfold dcGain; unfold Sec.zeroDC at h0; rw [h0, zero_div]
      rw [this, zero_mul]
    · rw [ih ⟨s, hs', h0⟩, mul_zero]

/-- the cascade with `sosfilt_zi` initial conditions answers the constant `scale · x0` with `scale · G · x0` -/
theorem sosfilt_const (secs : List (Sec ℝ)) (hreg : ∀ s ∈ secs, s.regular) (x0 : ℝ) :
    ∀ (scale : ℝ) (xs : List ℝ), (∀ v ∈ xs, v = scale * x0) →
      ∀ v ∈ sosfilt secs scale x0 xs, v = scale * gainProd secs * x0 := by
  induction secs with
  | nil => intro scale xs hx v hv; simp only [sosfilt] at hv; rw [hx v hv]; simp [gainProd]
  | cons s r ih =>
    intro scale xs hx v hv
    simp only [sosfilt] at hv
    have hs : s.regular := hreg s List.mem_cons_self
    have hstate : (scale * (lfilterZi s).1 * x0, scale * (lfilterZi s).2 * x0)
        = ((lfilterZi s).1 * (scale * x0), (lfilterZi s).2 * (scale * x0)) := by
      refine Prod.ext ?_ ?_ <;> simp only <;> ring
    rw [hstate] at hv
    have hmid : ∀ u ∈ secRun s ((lfilterZi s).1 * (scale * x0), (lfilterZi s).2 * (scale * x0)) xs,
        u = scale * dcGain s * x0 := by
      intro u hu
      rw [secRun_const s hs (scale * x0) xs hx u hu]; ring
    rw [ih (fun t ht => hreg t (List.mem_cons_of_mem _ ht)) (scale * dcGain s) _ hmid v hv]
    simp only [gainProd]; ring

theorem headD_of_all {l : List ℝ} {a : ℝ} (h : ∀ v ∈ l, v = a) (hne : l ≠ []) : l.headD 0 = a := by
  cases l with
  | nil => exact absurd rfl hne
  | cons x xs => exact h x List.mem_cons_self

/-- the odd extension of a constant signal is the same constant -/
theorem oddExt_const (edge : Nat) (x : List ℝ) (a : ℝ) (hx : ∀ v ∈ x, v = a) :
    ∀ v ∈ oddExt realEnv edge x, v = a := by
  intro v hv
  by_cases hne : x = []
  · subst hne; simp [oddExt] at hv
  have h0 : x.headD 0 = a := headD_of_all hx hne
  have hr : ∀ u ∈ x.reverse, u = a := fun u hu => hx u (List.mem_reverse.mp hu)
  have h1 : x.reverse.headD 0 = a := headD_of_all hr (by simpa using hne)
  simp only [oddExt, List.mem_append, List.mem_map, List.mem_reverse] at hv
  rcases hv with (⟨u, hu, rfl⟩ | hv) | ⟨u, hu, rfl⟩
  · have : u = a := hx u (List.mem_of_mem_drop (List.mem_of_mem_take hu))
    rw [h0, this]; simp only [realEnv]; push_cast; ring
  · exact hx v hv
  · have : u = a := hr u (List.mem_of_mem_drop (List.mem_of_mem_take hu))
    rw [h1, this]; simp only [realEnv]; push_cast; ring

/-- **`sosfiltfilt` removes constants** when one section has zero DC gain and every section is regular: every output
sample is 0, for every signal length and every `edge`. -/
theorem sosfiltfilt_kills_const (secs : List (Sec ℝ)) (hreg : ∀ s ∈ secs, s.regular) (hz : ∃ s ∈ secs, s.zeroDC)
    (edge : Nat) (x : List ℝ) (a : ℝ) (hx : ∀ v ∈ x, v = a) :
    ∀ v ∈ sosfiltfilt realEnv secs edge x, v = 0 := by
  intro v hv
  have hG := gainProd_zero secs hz
  have hext := oddExt_const edge x a hx
  -- forward pass
  have hy : ∀ u ∈ sosfilt secs 1 ((oddExt realEnv edge x).headD 0) (oddExt realEnv edge x), u = 0 := by
    intro u hu
    have hin : ∀ w ∈ oddExt realEnv edge x, w = 1 * (oddExt realEnv edge x).headD 0 := by
      intro w hw
      have hne : oddExt realEnv edge x ≠ [] := List.ne_nil_of_mem hw
      rw [headD_of_all hext hne, hext w hw, one_mul]
    rw [sosfilt_const secs hreg _ 1 _ hin u hu, hG]; ring
  -- backward pass: the input is the zero signal
  simp only [sosfiltfilt] at hv
  have hv' := List.mem_reverse.mp (List.mem_of_mem_drop (List.mem_of_mem_take hv))
  set y := sosfilt secs 1 ((oddExt realEnv edge x).headD 0) (oddExt realEnv edge x) with hydef
  have hyr : ∀ u ∈ y.reverse, u = 0 := fun u hu => hy u (List.mem_reverse.mp hu)
  have hin2 : ∀ w ∈ y.reverse, w = 1 * y.reverse.headD 0 := by
    intro w hw
    have hne : y.reverse ≠ [] := List.ne_nil_of_mem hw
    rw [headD_of_all hyr hne, hyr w hw, one_mul]
  rw [sosfilt_const secs hreg _ 1 _ hin2 v hv', hG]; ring

/-- the assumed law of `kfilt_kills_common_mode`, proved for the modelled filter -/
theorem sosL_killsConst (secs : List (Sec ℝ)) (hreg : ∀ s ∈ secs, s.regular) (hz : ∃ s ∈ secs, s.zeroDC) (edge : Nat) :
    KillsConst (sosL realEnv secs edge) := by
  intro n v a hv i _
  simp only [sosL, Vec.get_tab]
  have hall := sosfiltfilt_kills_const secs hreg hz edge ((List.range n).map v.get) a (by
    intro u hu
    obtain ⟨p, hp, rfl⟩ := List.mem_map.mp hu
    exact hv p (List.mem_range.mp hp))
  rw [Array.getD_eq_getD_getElem?, List.getElem?_toArray]
  cases hget : (sosfiltfilt realEnv secs edge ((List.range n).map v.get))[i]? with
  | none => rfl
  | some u => exact hall u (List.mem_of_getElem? hget)

end IblVerif.Destripe
