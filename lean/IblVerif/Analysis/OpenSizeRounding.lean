/-
C11, real-analysis side: the float64 operations of `Reader.open` / `Reader.ns` / `OnlineReader.ns` in the
standard model of floating-point rounding, as an instance `realArith F` of the model's `Arith` interface.

`StdRounding` is the textbook model of IEEE binary64 round-to-nearest without overflow/underflow:
  * `|fl x − x| ≤ 2⁻⁵³ |x|`                       (relative error of one rounding),
  * `fl n = n` for integers `|n| ≤ 2⁵³`            (representable numbers are not changed),
  * `rnd` is *a* nearest-integer function          (`np.round`; the tie rule is irrelevant here).
Every operation is `fl` of the exact result (`a ∘ b ↦ fl (a ∘ b)`), which is what IEEE prescribes.
Single Mathlib modules only.
-/
import Mathlib.Algebra.Order.Archimedean.Real.Basic
import Mathlib.Algebra.Order.Round
import Mathlib.Tactic.Linarith
import Mathlib.Tactic.NormNum
import Mathlib.Tactic.Positivity
import Mathlib.Tactic.FieldSimp
import Mathlib.Tactic.Ring
import Mathlib.Tactic.GCongr
import IblVerif.Lemmas.OpenSize

namespace IblVerif.OpenSize

/-- Unit roundoff of binary64. -/
noncomputable def u : ℝ := 1 / 2 ^ 53

/-- The standard model of binary64 rounding (no overflow, no underflow). -/
structure StdRounding where
  fl : ℝ → ℝ
  rnd : ℝ → ℤ
  fl_rel : ∀ x, |fl x - x| ≤ u * |x|
  fl_int : ∀ n : ℤ, |n| ≤ 2 ^ 53 → fl (n : ℝ) = n
  rnd_nearest : ∀ x, |x - rnd x| ≤ 1 / 2

/-- The model's arithmetic interface, instantiated with correctly rounded real operations. -/
noncomputable def realArith (F : StdRounding) : Arith ℝ where
  ofNat n := F.fl n
  mul a b := F.fl (a * b)
  div a b := F.fl (a / b)
  isZero a := @decide (a = 0) (Classical.propDecidable _)
  rint x := (F.rnd x).toNat
  trunc x := ⌊x⌋₊

/-- Exact arithmetic is a (degenerate) instance: the hypotheses of `StdRounding` are consistent. -/
noncomputable def exactRounding : StdRounding where
  fl x := x
  rnd x := round x
  fl_rel x := by simp [u]
  fl_int n _ := rfl
  rnd_nearest x := abs_sub_round x

theorem u_pos : 0 < u := by unfold u; positivity
theorem u_small : u ≤ 1 / 1000 := by unfold u; norm_num

variable (F : StdRounding)

theorem fl_nat (n : ℕ) (hn : n ≤ 2 ^ 53) : F.fl (n : ℝ) = n := by
  have h := F.fl_int (n : ℤ) (by
    rw [abs_of_nonneg (by positivity)]
    exact_mod_cast hn)
  simpa using h

/-- Two-sided form of the relative error bound for a non-negative argument. -/
theorem fl_bounds (x : ℝ) (hx : 0 ≤ x) : x * (1 - u) ≤ F.fl x ∧ F.fl x ≤ x * (1 + u) := by
  have h := F.fl_rel x
  rw [abs_of_nonneg hx, abs_le] at h
  constructor <;> nlinarith [h.1, h.2]

theorem fl_nonneg (x : ℝ) (hx : 0 ≤ x) : 0 ≤ F.fl x := by
  have h := (fl_bounds F x hx).1
  have : 0 ≤ x * (1 - u) := mul_nonneg hx (by have := u_small; linarith)
  linarith

/-- Monotone form: bounds on the argument carry over, widened by one rounding. -/
theorem fl_between (x lo hi : ℝ) (hlo : 0 ≤ lo) (h1 : lo ≤ x) (h2 : x ≤ hi) :
    lo * (1 - u) ≤ F.fl x ∧ F.fl x ≤ hi * (1 + u) := by
  have hx : 0 ≤ x := le_trans hlo h1
  obtain ⟨a, b⟩ := fl_bounds F x hx
  have hu := u_pos
  have hu' := u_small
  constructor
  · have : lo * (1 - u) ≤ x * (1 - u) := mul_le_mul_of_nonneg_right h1 (by linarith)
    linarith
  · have : x * (1 + u) ≤ hi * (1 + u) := mul_le_mul_of_nonneg_right h2 (by linarith)
    linarith

/-- A nearest-integer function returns `k` on the open interval `(k − ½, k + ½)`. -/
theorem rnd_eq (x : ℝ) (k : ℤ) (h : |x - k| < 1 / 2) : F.rnd x = k := by
  have h1 := F.rnd_nearest x
  have h2 : |((F.rnd x - k : ℤ) : ℝ)| < 1 := by
    push_cast
    have : (F.rnd x : ℝ) - k = (x - k) - (x - F.rnd x) := by ring
    rw [this]
    calc |x - ↑k - (x - ↑(F.rnd x))| ≤ |x - ↑k| + |x - ↑(F.rnd x)| := abs_sub _ _
      _ < 1 / 2 + 1 / 2 := by linarith
      _ = 1 := by norm_num
  have h3 : |F.rnd x - k| < 1 := by exact_mod_cast h2
  have := Int.abs_lt_one_iff.mp h3
  omega

/-- `int(np.round((k / fs) * fs)) = k`: the error of the two roundings is below `k · 2⁻⁵² · (1 + 2⁻⁵⁴)`,
which is less than a quarter for `k < 2⁵⁰`. -/
theorem roundtrip_real (k : ℕ) (hk : k < 2 ^ 50) (fs : ℝ) (hfs : 0 < fs) :
    RoundTrip (realArith F) fs k := by
  unfold RoundTrip realArith
  simp only
  rw [fl_nat F k (by omega)]
  have hK : (k : ℝ) ≤ 2 ^ 50 := by exact_mod_cast hk.le
  have hK0 : (0 : ℝ) ≤ k := by positivity
  have hu := u_pos
  have huK : u * (k : ℝ) ≤ 1 / 8 := by
    have : u * (k : ℝ) ≤ u * 2 ^ 50 := mul_le_mul_of_nonneg_left hK hu.le
    have h2 : u * 2 ^ 50 = 1 / 8 := by unfold u; norm_num
    linarith
  -- first rounding: a = fl (k / fs)
  have hq0 : 0 ≤ (k : ℝ) / fs := by positivity
  obtain ⟨a1, a2⟩ := fl_bounds F ((k : ℝ) / fs) hq0
  set a := F.fl ((k : ℝ) / fs) with ha
  have ha0 : 0 ≤ a := fl_nonneg F _ hq0
  -- multiply by fs
  have e1 : (k : ℝ) / fs * (1 - u) * fs = k * (1 - u) := by field_simp
  have e2 : (k : ℝ) / fs * (1 + u) * fs = k * (1 + u) := by field_simp
  have b1 : (k : ℝ) * (1 - u) ≤ a * fs := by
    rw [← e1]; exact mul_le_mul_of_nonneg_right a1 hfs.le
  have b2 : a * fs ≤ (k : ℝ) * (1 + u) := by
    rw [← e2]; exact mul_le_mul_of_nonneg_right a2 hfs.le
  -- second rounding
  have hp0 : 0 ≤ (k : ℝ) * (1 - u) := mul_nonneg hK0 (by have := u_small; linarith)
  obtain ⟨c1, c2⟩ := fl_between F (a * fs) _ _ hp0 b1 b2
  have hclose : |F.fl (a * fs) - (k : ℝ)| < 1 / 2 := by
    rw [abs_lt]
    have hu2 : u * (u * k) ≤ 1 / 1000 * (1 / 8) :=
      mul_le_mul u_small huK (by positivity) (by norm_num)
    have hu20 : 0 ≤ u * (u * k) := by positivity
    constructor <;> nlinarith [c1, c2, huK, hu2, hu20]
  have := rnd_eq F _ (k : ℤ) (by simpa using hclose)
  rw [this]
  simp

/-- `int(size / itemsize / nc) = size // (itemsize · nc)` for sizes below 2⁴⁰. -/
theorem online_floor_real (nc itemsize bytes : ℕ) (hnc : 0 < nc) (hsz : 0 < itemsize)
    (hb : bytes < 2 ^ 40) (hncb : nc < 2 ^ 40) (hszb : itemsize < 2 ^ 40) :
    OnlineFloor (realArith F) nc itemsize bytes := by
  unfold OnlineFloor realArith framesOnDisk
  simp only
  rw [fl_nat F bytes (by omega), fl_nat F nc (by omega), fl_nat F itemsize (by omega)]
  set k := bytes / (itemsize * nc) with hk
  have hpos : 0 < itemsize * nc := Nat.mul_pos hsz hnc
  have hlo : k * (itemsize * nc) ≤ bytes := Nat.div_mul_le_self _ _
  have hhi : bytes + 1 ≤ (k + 1) * (itemsize * nc) := by
    have := Nat.lt_mul_div_succ bytes hpos
    rw [Nat.mul_comm] at this
    exact this
  -- real versions
  have hS : (0 : ℝ) < itemsize := by exact_mod_cast hsz
  have hN : (0 : ℝ) < nc := by exact_mod_cast hnc
  have hB0 : (0 : ℝ) ≤ bytes := by positivity
  have hB : (bytes : ℝ) ≤ 2 ^ 40 := by exact_mod_cast hb.le
  have hloR : (k : ℝ) * (itemsize * nc) ≤ bytes := by exact_mod_cast hlo
  have hhiR : (bytes : ℝ) + 1 ≤ ((k : ℝ) + 1) * (itemsize * nc) := by exact_mod_cast hhi
  have hu := u_pos
  have huB : u * bytes ≤ 1 / 8192 := by
    have : u * (bytes : ℝ) ≤ u * 2 ^ 40 := mul_le_mul_of_nonneg_left hB hu.le
    have h2 : u * 2 ^ 40 = 1 / 8192 := by unfold u; norm_num
    linarith
  have hSN : (0 : ℝ) < itemsize * nc := by positivity
  have hx0 : 0 ≤ (bytes : ℝ) / itemsize := by positivity
  obtain ⟨a1, a2⟩ := fl_bounds F ((bytes : ℝ) / itemsize) hx0
  set x1 := F.fl ((bytes : ℝ) / itemsize) with hx1
  have hx10 : 0 ≤ x1 := fl_nonneg F _ hx0
  have hy0 : 0 ≤ x1 / nc := by positivity
  obtain ⟨b1, b2⟩ := fl_bounds F (x1 / nc) hy0
  have hx20 : 0 ≤ F.fl (x1 / nc) := fl_nonneg F _ hy0
  rw [Nat.floor_eq_iff hx20]
  constructor
  · -- lower bound
    rcases Nat.eq_or_lt_of_le hlo with heq | hlt
    · -- the size is a whole number of frames: both divisions are exact
      have hBe : (bytes : ℝ) = (k : ℝ) * (itemsize * nc) := by exact_mod_cast heq.symm
      have h1 : (bytes : ℝ) / itemsize = ((k * nc : ℕ) : ℝ) := by
        rw [hBe]; push_cast; field_simp
      have hknc : k * nc ≤ 2 ^ 53 := by
        have : k * nc ≤ k * (itemsize * nc) :=
          Nat.mul_le_mul_left k (Nat.le_mul_of_pos_left nc hsz)
        omega
      have hx1e : x1 = ((k * nc : ℕ) : ℝ) := by
        rw [hx1, h1]; exact fl_nat F (k * nc) hknc
      have h2 : x1 / nc = (k : ℝ) := by
        rw [hx1e]; push_cast; field_simp
      have hkb : k ≤ 2 ^ 53 := by
        have : k ≤ k * (itemsize * nc) := Nat.le_mul_of_pos_right k hpos
        omega
      rw [h2, fl_nat F k hkb]
    · -- at least one byte beyond k frames
      have hlt' : k * (itemsize * nc) + 1 ≤ bytes := hlt
      have hltR : (k : ℝ) * (itemsize * nc) + 1 ≤ bytes := by exact_mod_cast hlt'
      -- x2 ≥ B/(S N) (1-u)^2
      have c1 : (bytes : ℝ) / itemsize * (1 - u) / nc ≤ x1 / nc := by gcongr
      have hum : 0 ≤ 1 - u := by have := u_small; linarith
      have c2 : (bytes : ℝ) / itemsize * (1 - u) / nc * (1 - u) ≤ F.fl (x1 / nc) := by
        have : (bytes : ℝ) / itemsize * (1 - u) / nc * (1 - u) ≤ x1 / nc * (1 - u) :=
          mul_le_mul_of_nonneg_right c1 hum
        linarith
      have e : (bytes : ℝ) / itemsize * (1 - u) / nc * (1 - u)
          = (bytes * (1 - u) * (1 - u)) / (itemsize * nc) := by field_simp
      rw [e] at c2
      have c3 : (k : ℝ) ≤ (bytes * (1 - u) * (1 - u)) / (itemsize * nc) := by
        rw [le_div_iff₀ hSN]
        have huu : 0 ≤ u * u * bytes := by positivity
        nlinarith [hltR, huB, huu]
      linarith
  · -- upper bound: x2 ≤ B/(S N) (1+u)^2 < k + 1
    have c1 : x1 / nc ≤ (bytes : ℝ) / itemsize * (1 + u) / nc := by gcongr
    have hup : 0 ≤ 1 + u := by linarith
    have c2 : F.fl (x1 / nc) ≤ (bytes : ℝ) / itemsize * (1 + u) / nc * (1 + u) := by
      have : x1 / nc * (1 + u) ≤ (bytes : ℝ) / itemsize * (1 + u) / nc * (1 + u) :=
        mul_le_mul_of_nonneg_right c1 hup
      linarith
    have e : (bytes : ℝ) / itemsize * (1 + u) / nc * (1 + u)
        = (bytes * (1 + u) * (1 + u)) / (itemsize * nc) := by field_simp
    rw [e] at c2
    have c3 : (bytes * (1 + u) * (1 + u)) / (itemsize * nc) < (k : ℝ) + 1 := by
      rw [div_lt_iff₀ hSN]
      have huu : u * u * bytes ≤ 1 / 1000 * (1 / 8192) := by
        have := mul_le_mul u_small huB (by positivity) (by norm_num : (0:ℝ) ≤ 1 / 1000)
        linarith [this, mul_assoc u u (bytes : ℝ)]
      nlinarith [hhiR, huB, huu]
    linarith

/-- The formula before the `fix:` commit, on a 7-byte file with 4-byte frames (one complete frame and three
trailing bytes): whatever the rounding function, the four roundings leave the value in `(1.5, 2.5)`, `ns`
becomes 2 and the 8-byte map is refused. -/
theorem old_formula_fails (fs fts : ℝ) (hfs : 0 < fs) :
    openBinOld (realArith F) (.ofMeta 2 fs (some fts)) 2 7 = .error .mmapTooLong := by
  have hne : ∀ n : ℕ, 2 * n * 2 ≠ 7 := by intro n; omega
  have hz : (@decide (fs = 0) (Classical.propDecidable _)) = false := by
    simp [hfs.ne']
  -- the value that is rounded to an integer
  have h7 : F.fl ((7 : ℕ) : ℝ) = 7 := by rw [fl_nat F 7 (by norm_num)]; norm_num
  have h2 : F.fl ((2 : ℕ) : ℝ) = 2 := by rw [fl_nat F 2 (by norm_num)]; norm_num
  have hu := u_pos
  have hus := u_small
  obtain ⟨a1, a2⟩ := fl_between F ((7 : ℝ) / 2) (7 / 2) (7 / 2) (by norm_num) le_rfl le_rfl
  set z1 := F.fl ((7 : ℝ) / 2) with hz1
  obtain ⟨b1, b2⟩ := fl_between F (z1 / 2) (7 / 2 * (1 - u) / 2) (7 / 2 * (1 + u) / 2)
    (by have : 0 ≤ 1 - u := by linarith
        positivity) (by linarith) (by linarith)
  set z2 := F.fl (z1 / 2) with hz2
  have hlo0 : (0 : ℝ) ≤ 7 / 2 * (1 - u) / 2 * (1 - u) := by
    have : 0 ≤ 1 - u := by linarith
    positivity
  obtain ⟨c1, c2⟩ := fl_between F (z2 / fs) (7 / 2 * (1 - u) / 2 * (1 - u) / fs)
    (7 / 2 * (1 + u) / 2 * (1 + u) / fs) (by positivity) (by gcongr) (by gcongr)
  set z3 := F.fl (z2 / fs) with hz3
  have d1 : 7 / 2 * (1 - u) / 2 * (1 - u) * (1 - u) ≤ z3 * fs := by
    have := mul_le_mul_of_nonneg_right c1 hfs.le
    have e : 7 / 2 * (1 - u) / 2 * (1 - u) / fs * (1 - u) * fs = 7 / 2 * (1 - u) / 2 * (1 - u) * (1 - u) := by
      field_simp
    linarith
  have d2 : z3 * fs ≤ 7 / 2 * (1 + u) / 2 * (1 + u) * (1 + u) := by
    have := mul_le_mul_of_nonneg_right c2 hfs.le
    have e : 7 / 2 * (1 + u) / 2 * (1 + u) / fs * (1 + u) * fs = 7 / 2 * (1 + u) / 2 * (1 + u) * (1 + u) := by
      field_simp
    linarith
  have hlo1 : (0 : ℝ) ≤ 7 / 2 * (1 - u) / 2 * (1 - u) * (1 - u) := by
    have : 0 ≤ 1 - u := by linarith
    positivity
  obtain ⟨e1, e2⟩ := fl_between F (z3 * fs) _ _ hlo1 d1 d2
  -- crude numeric enclosure of (1 ± u)^4
  have hm : (999 / 1000 : ℝ) ≤ 1 - u := by linarith
  have hp : 1 + u ≤ (1001 / 1000 : ℝ) := by linarith
  have hm0 : (0 : ℝ) ≤ 1 - u := by linarith
  have hp0 : (0 : ℝ) ≤ 1 + u := by linarith
  have lo4 : (3 / 2 : ℝ) < 7 / 2 * (1 - u) / 2 * (1 - u) * (1 - u) * (1 - u) := by
    have h2' : (999 / 1000 : ℝ) ^ 2 ≤ (1 - u) * (1 - u) := by nlinarith
    have h4' : (999 / 1000 : ℝ) ^ 2 * (999 / 1000) ^ 2 ≤ (1 - u) * (1 - u) * ((1 - u) * (1 - u)) :=
      mul_le_mul h2' h2' (by positivity) (by positivity)
    nlinarith
  have hi4 : 7 / 2 * (1 + u) / 2 * (1 + u) * (1 + u) * (1 + u) < (5 / 2 : ℝ) := by
    have h2' : (1 + u) * (1 + u) ≤ (1001 / 1000 : ℝ) ^ 2 := by nlinarith
    have h4' : (1 + u) * (1 + u) * ((1 + u) * (1 + u)) ≤ (1001 / 1000 : ℝ) ^ 2 * (1001 / 1000) ^ 2 :=
      mul_le_mul h2' h2' (by positivity) (by positivity)
    nlinarith
  have hr : F.rnd (F.fl (z3 * fs)) = 2 := by
    apply rnd_eq F _ 2
    rw [abs_lt]
    constructor <;> push_cast <;> linarith
  simp only [openBinOld, Hdr.nc, Hdr.nsOffline, Hdr.fs, Hdr.setFileTimeSecs, realArith, hne, ne_eq,
    not_false_eq_true, if_true, hz, h7, h2, bind, Except.bind, pure, Except.pure]
  simp [← hz1, ← hz2, ← hz3, hr, memmap]

/-- The seeded variant of the `.cbin` branch (`ftsec = n_samples / sample_rate` of the `.ch` header): a one-sample
stream compressed at 2500 Hz under meta data at 30000 Hz that announce another length comes out with `ns = 12`
under every rounding function of the standard model. -/
theorem chRate_variant_wrong (fts : ℝ) (hne : (F.rnd (F.fl (fts * 30000))).toNat ≠ 1) :
    ∃ h', openCbinChRate (realArith F) (.ofMeta 1 30000 (some fts)) ⟨1, 1, 2500⟩ = .ok h' ∧
      h'.nsOffline (realArith F) = .ok 12 := by
  have h1 : F.fl (1 : ℝ) = 1 := by
    have := fl_nat F 1 (by norm_num)
    simpa using this
  have hus := u_small
  have hu := u_pos
  obtain ⟨a1, a2⟩ := fl_between F ((1 : ℝ) / 2500) (1 / 2500) (1 / 2500) (by norm_num) le_rfl le_rfl
  set a := F.fl ((1 : ℝ) / 2500) with ha
  obtain ⟨b1, b2⟩ := fl_between F (a * 30000) (1 / 2500 * (1 - u) * 30000) (1 / 2500 * (1 + u) * 30000)
    (by have : 0 ≤ 1 - u := by linarith
        positivity) (by linarith) (by linarith)
  have hr : F.rnd (F.fl (a * 30000)) = 12 := by
    apply rnd_eq F _ 12
    rw [abs_lt]
    have huu : u * u ≤ 1 / 1000 * (1 / 1000) := mul_le_mul hus hus hu.le (by norm_num)
    have huu0 : 0 ≤ u * u := by positivity
    constructor <;> push_cast <;> nlinarith
  have hc : ¬ ((1 : ℕ) = (F.rnd (F.fl (fts * 30000))).toNat) := fun h => hne h.symm
  refine ⟨.ofMeta 1 30000 (some a), ?_, ?_⟩
  · simp [openCbinChRate, Hdr.nsOffline, Hdr.nc, Hdr.setFileTimeSecs, realArith, bind, Except.bind]
    rw [if_neg hc, h1]
  · simp [Hdr.nsOffline, realArith, hr]

end IblVerif.OpenSize
