/-
C16, mute gain over ℝ: lemmas about `Saturation.convSame` / `Saturation.mute` for a non-negative window,
the cosine window `scipy.signal.windows.cosine(M)[k] = sin(π (k + ½) / M)`, and the exactness of the
float64 proportion test in the standard model of rounding.
-/
import IblVerif.Model.Saturation
import Mathlib.Analysis.SpecialFunctions.Trigonometric.Basic

namespace IblVerif.Saturation

/-- `scipy.signal.windows.cosine(M)`: `np.sin(np.pi / M * (np.arange(0, M) + .5))`. -/
noncomputable def cosineWin (M : Nat) : List ℝ :=
  (List.range M).map fun k : Nat => Real.sin (Real.pi / (M : ℝ) * ((k : ℝ) + 1 / 2))

@[simp] theorem cosineWin_length (M : Nat) : (cosineWin M).length = M := by simp [cosineWin]

theorem convSame_eq_sum (win : List ℝ) (flags : List Bool) (t : Nat) :
    convSame win flags t = ((List.range win.length).map (convTerm win flags t)).sum := rfl

theorem b2_nonneg (b : Bool) : (0 : ℝ) ≤ b2 b := by cases b <;> simp [b2]

theorem getD_nonneg (win : List ℝ) (hw : ∀ x ∈ win, 0 ≤ x) (k : Nat) : 0 ≤ win.getD k 0 := by
  rw [List.getD_eq_getElem?_getD]
  by_cases h : k < win.length
  · simp [h, hw _ (List.getElem_mem h)]
  · simp [h]

theorem convTerm_nonneg (win : List ℝ) (hw : ∀ x ∈ win, 0 ≤ x) (flags : List Bool) (t k : Nat) :
    0 ≤ convTerm win flags t k := by
  unfold convTerm
  simp only
  split
  · exact mul_nonneg (b2_nonneg _) (getD_nonneg win hw k)
  · exact le_refl _

theorem convSame_nonneg (win : List ℝ) (hw : ∀ x ∈ win, 0 ≤ x) (flags : List Bool) (t : Nat) :
    0 ≤ convSame win flags t := by
  rw [convSame_eq_sum]
  apply List.sum_nonneg
  intro x hx
  obtain ⟨k, _, rfl⟩ := List.mem_map.mp hx
  exact convTerm_nonneg win hw flags t k

/-- every term is a lower bound of the sum -/
theorem convTerm_le_convSame (win : List ℝ) (hw : ∀ x ∈ win, 0 ≤ x) (flags : List Bool) (t k : Nat)
    (hk : k < win.length) : convTerm win flags t k ≤ convSame win flags t := by
  rw [convSame_eq_sum]
  apply List.single_le_sum
  · intro x hx
    obtain ⟨j, _, rfl⟩ := List.mem_map.mp hx
    exact convTerm_nonneg win hw flags t j
  · exact List.mem_map.mpr ⟨k, List.mem_range.mpr hk, rfl⟩

/-- the centre tap of a flagged sample contributes the centre weight -/
theorem convTerm_centre (win : List ℝ) (flags : List Bool) (t : Nat) (hf : flags.getD t false = true) :
    convTerm win flags t ((win.length - 1) / 2) = win.getD ((win.length - 1) / 2) 0 := by
  unfold convTerm
  simp only [Nat.le_add_left, if_true, Nat.add_sub_cancel, hf, b2]
  simp

/-- no flag inside the window footprint: the convolution vanishes -/
theorem convSame_far (win : List ℝ) (flags : List Bool) (t : Nat)
    (hfar : ∀ u, flags.getD u false = true →
      u + (win.length - 1 - (win.length - 1) / 2) < t ∨ t + (win.length - 1) / 2 < u) :
    convSame win flags t = 0 := by
  rw [convSame_eq_sum]
  apply List.sum_eq_zero
  intro x hx
  obtain ⟨k, hk, rfl⟩ := List.mem_map.mp hx
  have hk' : k < win.length := List.mem_range.mp hk
  unfold convTerm
  simp only
  split
  · rename_i hle
    cases hflag : flags.getD (t + (win.length - 1) / 2 - k) false with
    | false => simp [b2]
    | true =>
      exfalso
      have := hfar _ hflag
      omega
  · rfl

/-- a single flagged sample inside the footprint: the convolution is the centre weight -/
theorem convSame_isolated (win : List ℝ) (flags : List Bool) (t : Nat) (hM : 0 < win.length)
    (hiso : ∀ u, flags.getD u false = true ↔ u = t) :
    convSame win flags t = win.getD ((win.length - 1) / 2) 0 := by
  rw [convSame_eq_sum]
  have key : ∀ (l : List Nat), l.Nodup → ∀ (f : Nat → ℝ) (j : Nat), j ∈ l → (∀ k ∈ l, k ≠ j → f k = 0) →
      (l.map f).sum = f j := by
    intro l
    induction l with
    | nil => intro _ f j hj; cases hj
    | cons a l ih =>
      intro hnd f j hj hz
      rw [List.nodup_cons] at hnd
      simp only [List.map_cons, List.sum_cons]
      rcases List.mem_cons.mp hj with rfl | hjl
      · have : (l.map f).sum = 0 := by
          apply List.sum_eq_zero
          intro x hx
          obtain ⟨k, hk, rfl⟩ := List.mem_map.mp hx
          exact hz k (List.mem_cons_of_mem _ hk) (fun h => hnd.1 (h ▸ hk))
        rw [this, add_zero]
      · rw [ih hnd.2 f j hjl (fun k hk hne => hz k (List.mem_cons_of_mem _ hk) hne)]
        rw [hz a List.mem_cons_self (fun h => hnd.1 (h ▸ hjl)), zero_add]
  rw [key (List.range win.length) List.nodup_range (convTerm win flags t) ((win.length - 1) / 2)
    (List.mem_range.mpr (by omega))]
  · exact convTerm_centre win flags t ((hiso t).mpr rfl)
  · intro k hk hne
    have hk' : k < win.length := List.mem_range.mp hk
    unfold convTerm
    simp only
    split
    · rename_i hle
      cases hflag : flags.getD (t + (win.length - 1) / 2 - k) false with
      | false => simp [b2]
      | true =>
        exfalso
        have := (hiso _).mp hflag
        omega
    · rfl

theorem mute_length (win : List ℝ) (flags : List Bool) : (mute win flags).length = flags.length := by
  simp [mute]

theorem mute_getElem (win : List ℝ) (flags : List Bool) (t : Nat) (h : t < (mute win flags).length) :
    (mute win flags)[t] = max 0 (1 - convSame win flags t) := by
  simp [mute]

/-! ### Cosine window -/

theorem cosineWin_getD (M k : Nat) (hk : k < M) :
    (cosineWin M).getD k 0 = Real.sin (Real.pi / (M : ℝ) * ((k : ℝ) + 1 / 2)) := by
  simp [cosineWin, List.getD_eq_getElem?_getD, hk]

theorem cosineWin_nonneg (M : Nat) : ∀ x ∈ cosineWin M, 0 ≤ x := by
  intro x hx
  obtain ⟨k, hk, rfl⟩ := List.mem_map.mp hx
  have hkM : k < M := List.mem_range.mp hk
  have hM : (0 : ℝ) < M := by exact_mod_cast (by omega : 0 < M)
  have hk1 : ((k : ℝ) + 1 / 2) ≤ M := by
    have : ((k : ℝ) + 1) ≤ M := by exact_mod_cast hkM
    linarith
  apply Real.sin_nonneg_of_nonneg_of_le_pi
  · have := Real.pi_pos
    positivity
  · calc Real.pi / (M : ℝ) * ((k : ℝ) + 1 / 2) ≤ Real.pi / (M : ℝ) * M := by
          apply mul_le_mul_of_nonneg_left hk1
          have := Real.pi_pos
          positivity
      _ = Real.pi := by field_simp

/-- odd width `M = 2h + 1`: the centre weight is `sin(π/2) = 1` -/
theorem cosineWin_centre_odd (h : Nat) :
    (cosineWin (2 * h + 1)).getD ((2 * h + 1 - 1) / 2) 0 = 1 := by
  have hc : (2 * h + 1 - 1) / 2 = h := by omega
  rw [hc, cosineWin_getD _ _ (by omega)]
  have : Real.pi / ((2 * h + 1 : Nat) : ℝ) * ((h : ℝ) + 1 / 2) = Real.pi / 2 := by
    push_cast
    field_simp
  rw [this, Real.sin_pi_div_two]

/-- even width `M = 2h + 2`: the centre weight is `cos(π / (2M)) < 1` -/
theorem cosineWin_centre_even (h : Nat) :
    (cosineWin (2 * h + 2)).getD ((2 * h + 2 - 1) / 2) 0 = Real.cos (Real.pi / (2 * ((2 * h + 2 : Nat) : ℝ))) ∧
    Real.cos (Real.pi / (2 * ((2 * h + 2 : Nat) : ℝ))) < 1 := by
  have hc : (2 * h + 2 - 1) / 2 = h := by omega
  constructor
  · rw [hc, cosineWin_getD _ _ (by omega), ← Real.sin_pi_div_two_sub]
    congr 1
    push_cast
    field_simp
    ring
  · have hpos : (0 : ℝ) < 2 * ((2 * h + 2 : Nat) : ℝ) := by positivity
    have hx0 : 0 < Real.pi / (2 * ((2 * h + 2 : Nat) : ℝ)) := div_pos Real.pi_pos hpos
    have hx1 : Real.pi / (2 * ((2 * h + 2 : Nat) : ℝ)) < 2 * Real.pi := by
      rw [div_lt_iff₀ hpos]
      have : (1 : ℝ) ≤ ((2 * h + 2 : Nat) : ℝ) := by exact_mod_cast (by omega : 1 ≤ 2 * h + 2)
      nlinarith [Real.pi_pos]
    apply lt_of_le_of_ne (Real.cos_le_one _)
    intro heq
    have := (Real.cos_eq_one_iff_of_lt_of_lt (by linarith [Real.pi_pos]) hx1).mp heq
    linarith

/-! ### The float64 proportion test decides the exact rational rule (standard model of rounding) -/

/-- `fl` is a rounding function: monotone, relative error at most `u`.  If `2·u·n·b < 1` (for float64,
`u = 2⁻⁵³`: any `n·b < 2⁵²`) then comparing the rounded mean `fl(k/n)` with the rounded proportion
`fl(a/b)` gives exactly `k·b > a·n`. -/
theorem rounded_mean_gt_iff (fl : ℝ → ℝ) (u : ℝ) (hmono : Monotone fl)
    (herr : ∀ x, |fl x - x| ≤ u * |x|) (k n a b : Nat) (hn : 0 < n) (hb : 0 < b) (hk : k ≤ n) (hab : a ≤ b)
    (hsmall : 2 * u * ((n : ℝ) * b) < 1) :
    fl ((k : ℝ) / n) > fl ((a : ℝ) / b) ↔ k * b > a * n := by
  have hn' : (0 : ℝ) < n := by exact_mod_cast hn
  have hb' : (0 : ℝ) < b := by exact_mod_cast hb
  have hu : 0 ≤ u := by
    have h1 := herr 1
    have : 0 ≤ u * |(1 : ℝ)| := le_trans (abs_nonneg _) h1
    simpa using this
  constructor
  · intro hgt
    by_contra hle
    have hle' : k * b ≤ a * n := by omega
    have : (k : ℝ) / n ≤ (a : ℝ) / b := by
      rw [div_le_div_iff₀ hn' hb']
      exact_mod_cast hle'
    exact absurd hgt (not_lt.mpr (hmono this))
  · intro hgt
    have hgt' : (a : ℝ) * n + 1 ≤ (k : ℝ) * b := by exact_mod_cast hgt
    have hkn : (k : ℝ) / n ≤ 1 := by
      rw [div_le_one hn']; exact_mod_cast hk
    have hab' : (a : ℝ) / b ≤ 1 := by
      rw [div_le_one hb']; exact_mod_cast hab
    have hkn0 : 0 ≤ (k : ℝ) / n := by positivity
    have hab0 : 0 ≤ (a : ℝ) / b := by positivity
    have e1 := herr ((k : ℝ) / n)
    have e2 := herr ((a : ℝ) / b)
    rw [abs_of_nonneg hkn0] at e1
    rw [abs_of_nonneg hab0] at e2
    have l1 : (k : ℝ) / n - u ≤ fl ((k : ℝ) / n) := by
      have := (abs_le.mp e1).1
      nlinarith
    have l2 : fl ((a : ℝ) / b) ≤ (a : ℝ) / b + u := by
      have := (abs_le.mp e2).2
      nlinarith
    have hnb : (0 : ℝ) < (n : ℝ) * b := by positivity
    have gap : (a : ℝ) / b + 1 / ((n : ℝ) * b) ≤ (k : ℝ) / n := by
      have e : (k : ℝ) / n - (a : ℝ) / b = ((k : ℝ) * b - a * n) / ((n : ℝ) * b) := by field_simp
      have : 1 / ((n : ℝ) * b) ≤ ((k : ℝ) * b - a * n) / ((n : ℝ) * b) := by
        apply div_le_div_of_nonneg_right _ (le_of_lt hnb)
        linarith
      linarith
    have h2u : 2 * u < 1 / ((n : ℝ) * b) := by
      rw [lt_div_iff₀ hnb]; exact hsmall
    show fl ((a : ℝ) / b) < fl ((k : ℝ) / n)
    linarith

end IblVerif.Saturation
