/-
C10 (growth round): the front-detection specifications for EVERY linearly ordered ring (ℤ, ℚ, ℝ, …), not only `Int`.

The model functions `frontsPairs`, `rises`, `falls` (and their 2-D versions) are polymorphic; here the value type is any
`[CommRing α] [LinearOrder α] [IsStrictOrderedRing α]`.  At `α = ℝ` the statements are about the real numbers that
float samples denote: in analog mode every operation of the code on such samples is exact (comparisons with the
threshold, 0/1 values, their differences), in digital mode the subtraction `np.diff` is exact for integer-valued
samples (the domain of the property: 0/1 trains and small integer levels).
-/
import Mathlib.Algebra.Order.Ring.Abs
import Mathlib.Tactic.Linarith
import Mathlib.Tactic.NormNum
import Mathlib.Algebra.Order.Field.Rat
import Mathlib.Data.Real.Basic
import IblVerif.Lemmas.SyncC10Fronts
namespace IblVerif.Sync

section
variable {α : Type} [CommRing α] [LinearOrder α] [IsStrictOrderedRing α]

theorem absV_eq_abs (v : α) : absV v = |v| := by
  unfold absV
  split
  · rename_i h; rw [abs_of_neg h]
  · rename_i h; rw [abs_of_nonneg (not_lt.mp h)]

/-- the difference of two binarised samples is at least one exactly on an upward crossing -/
theorem binOne_up (step a b : α) : (1 : α) ≤ binOne step b - binOne step a ↔ a ≤ step ∧ step < b := by
  unfold binOne
  have h01 : ¬ (1 : α) ≤ 0 := not_le.mpr zero_lt_one
  by_cases h1 : step < a <;> by_cases h2 : step < b
  · simp [h1, h2, h01, not_le.mpr h1]
  · simp [h1, h2]
  · simp [h1, h2, not_lt.mp h1]
  · simp [h1, h2, h01]

theorem binOne_neg (step v : α) : binOne (-step) (-v) = if v < step then 1 else 0 := by
  unfold binOne
  simp [neg_lt_neg_iff]

theorem binOne_down (step a b : α) :
    (1 : α) ≤ binOne (-step) (-b) - binOne (-step) (-a) ↔ step ≤ a ∧ b < step := by
  rw [binOne_up]
  constructor
  · rintro ⟨h1, h2⟩; exact ⟨by linarith, by linarith⟩
  · rintro ⟨h1, h2⟩; exact ⟨by linarith, by linarith⟩

/-! ### 1-D -/

theorem fronts_eq_changes_ord (x : List α) (step : α) (t : Nat) (s : α) :
    (t, s) ∈ frontsPairs x step ↔
      1 ≤ t ∧ ∃ a b, x[t - 1]? = some a ∧ x[t]? = some b ∧ s = b - a ∧ step ≤ |b - a| := by
  unfold frontsPairs
  rw [shifted_where_mem]
  simp only [decide_eq_true_eq, absV_eq_abs]
  constructor
  · rintro ⟨h1, a, b, ha, hb, hs, hp⟩; exact ⟨h1, a, b, ha, hb, hs, by rw [← hs]; exact hp⟩
  · rintro ⟨h1, a, b, ha, hb, hs, hp⟩; exact ⟨h1, a, b, ha, hb, hs, by rw [hs]; exact hp⟩

theorem rises_spec_ord (x : List α) (step : α) (t : Nat) :
    t ∈ rises x step false ↔ 1 ≤ t ∧ ∃ a b, x[t - 1]? = some a ∧ x[t]? = some b ∧ step ≤ b - a := by
  unfold rises
  simp only [Bool.false_eq_true, if_false]
  rw [shifted_where_mem_fst]
  simp only [decide_eq_true_eq]

theorem falls_spec_ord (x : List α) (step : α) (t : Nat) :
    t ∈ falls x step false ↔ 1 ≤ t ∧ ∃ a b, x[t - 1]? = some a ∧ x[t]? = some b ∧ b - a ≤ step := by
  unfold falls
  rw [rises_spec_ord]
  simp only [List.getElem?_map]
  constructor
  · rintro ⟨h1, a, b, ha, hb, hp⟩
    cases hx : x[t - 1]? with
    | none => simp [hx] at ha
    | some a' =>
      cases hy : x[t]? with
      | none => simp [hy] at hb
      | some b' =>
        simp only [hx, hy, Option.map_some, Option.some.injEq] at ha hb
        subst ha hb
        exact ⟨h1, a', b', rfl, rfl, by linarith⟩
  · rintro ⟨h1, a, b, ha, hb, hp⟩
    exact ⟨h1, -a, -b, by simp [ha], by simp [hb], by linarith⟩

theorem rises_analog_ord (x : List α) (thr : α) (t : Nat) :
    t ∈ rises x thr true ↔ 1 ≤ t ∧ ∃ a b, x[t - 1]? = some a ∧ x[t]? = some b ∧ a ≤ thr ∧ thr < b := by
  unfold rises binarize
  simp only [if_true]
  rw [shifted_where_mem_fst]
  simp only [decide_eq_true_eq, List.getElem?_map]
  constructor
  · rintro ⟨h1, a, b, ha, hb, hp⟩
    cases hx : x[t - 1]? with
    | none => simp [hx] at ha
    | some a' =>
      cases hy : x[t]? with
      | none => simp [hy] at hb
      | some b' =>
        simp only [hx, hy, Option.map_some, Option.some.injEq] at ha hb
        subst ha hb
        exact ⟨h1, a', b', rfl, rfl, (binOne_up thr a' b').mp hp⟩
  · rintro ⟨h1, a, b, ha, hb, h2⟩
    exact ⟨h1, binOne thr a, binOne thr b, by simp [ha], by simp [hb], (binOne_up thr a b).mpr h2⟩

theorem falls_analog_ord (x : List α) (thr : α) (t : Nat) :
    t ∈ falls x thr true ↔ 1 ≤ t ∧ ∃ a b, x[t - 1]? = some a ∧ x[t]? = some b ∧ thr ≤ a ∧ b < thr := by
  unfold falls rises binarize
  simp only [if_true]
  rw [shifted_where_mem_fst]
  simp only [decide_eq_true_eq, List.getElem?_map, List.map_map]
  constructor
  · rintro ⟨h1, a, b, ha, hb, hp⟩
    cases hx : x[t - 1]? with
    | none => simp [hx] at ha
    | some a' =>
      cases hy : x[t]? with
      | none => simp [hy] at hb
      | some b' =>
        simp only [hx, hy, Option.map_some, Option.some.injEq, Function.comp] at ha hb
        subst ha hb
        exact ⟨h1, a', b', rfl, rfl, (binOne_down thr a' b').mp hp⟩
  · rintro ⟨h1, a, b, ha, hb, h2⟩
    exact ⟨h1, binOne (-thr) (-a), binOne (-thr) (-b), by simp [ha, Function.comp], by simp [hb, Function.comp],
      (binOne_down thr a b).mpr h2⟩

/-! ### 2-D, either axis -/

theorem fronts2_eq_changes_ord (axis : Nat) (x : List (List α)) (step : α) (ij : Nat × Nat) (s : α) :
    (ij, s) ∈ fronts2 axis x step ↔
      1 ≤ coord axis ij ∧ ∃ a b, at2 x (prevPos axis ij) = some a ∧ at2 x ij = some b ∧ s = b - a ∧ step ≤ |b - a| := by
  unfold fronts2
  rw [shifted_where2_mem]
  simp only [decide_eq_true_eq, absV_eq_abs]
  constructor
  · rintro ⟨h1, a, b, ha, hb, hs, hp⟩; exact ⟨h1, a, b, ha, hb, hs, by rw [← hs]; exact hp⟩
  · rintro ⟨h1, a, b, ha, hb, hs, hp⟩; exact ⟨h1, a, b, ha, hb, hs, by rw [hs]; exact hp⟩

theorem rises2_analog_ord (axis : Nat) (x : List (List α)) (thr : α) (ij : Nat × Nat) :
    ij ∈ rises2 axis x thr true ↔
      1 ≤ coord axis ij ∧ ∃ a b, at2 x (prevPos axis ij) = some a ∧ at2 x ij = some b ∧ a ≤ thr ∧ thr < b := by
  unfold rises2 binarize
  simp only [if_true]
  rw [shifted_where2_mem_fst]
  simp only [decide_eq_true_eq, at2_map_map]
  constructor
  · rintro ⟨h1, a, b, ha, hb, hp⟩
    cases hx : at2 x (prevPos axis ij) with
    | none => simp [hx] at ha
    | some a' =>
      cases hy : at2 x ij with
      | none => simp [hy] at hb
      | some b' =>
        simp only [hx, hy, Option.map_some, Option.some.injEq] at ha hb
        subst ha hb
        exact ⟨h1, a', b', rfl, rfl, (binOne_up thr a' b').mp hp⟩
  · rintro ⟨h1, a, b, ha, hb, h2⟩
    exact ⟨h1, binOne thr a, binOne thr b, by simp [ha], by simp [hb], (binOne_up thr a b).mpr h2⟩

theorem falls2_analog_ord (axis : Nat) (x : List (List α)) (thr : α) (ij : Nat × Nat) :
    ij ∈ falls2 axis x thr true ↔
      1 ≤ coord axis ij ∧ ∃ a b, at2 x (prevPos axis ij) = some a ∧ at2 x ij = some b ∧ thr ≤ a ∧ b < thr := by
  unfold falls2 rises2 binarize
  simp only [if_true]
  rw [shifted_where2_mem_fst]
  simp only [decide_eq_true_eq, at2_map_map]
  constructor
  · rintro ⟨h1, a, b, ha, hb, hp⟩
    cases hx : at2 x (prevPos axis ij) with
    | none => simp [hx] at ha
    | some a' =>
      cases hy : at2 x ij with
      | none => simp [hy] at hb
      | some b' =>
        simp only [hx, hy, Option.map_some, Option.some.injEq] at ha hb
        subst ha hb
        exact ⟨h1, a', b', rfl, rfl, (binOne_down thr a' b').mp hp⟩
  · rintro ⟨h1, a, b, ha, hb, h2⟩
    exact ⟨h1, binOne (-thr) (-a), binOne (-thr) (-b), by simp [ha], by simp [hb], (binOne_down thr a b).mpr h2⟩

end

/-- The two masked assignments of `read_sync` binarise at the threshold in every linear order (the hypothesis of
`threshold_spec` holds there). -/
theorem threshold_linear {α : Type} [LinearOrder α] [Sub α] [Zero α] [One α] (thr v : α) (hthr : (0 : α) < thr) :
    threshold thr v = if thr ≤ v then 1 else 0 := by
  unfold threshold
  by_cases h : v < thr
  · simp [h, not_le.mpr h, not_le.mpr hthr]
  · simp [h, not_lt.mp h]

/-! Non-vacuity: the class hypotheses hold at ℤ, ℚ and ℝ, and the statements are not empty there. -/
example (x : List ℤ) (thr : ℤ) (t : ℕ) := rises_analog_ord x thr t
example (x : List ℚ) (thr : ℚ) (t : ℕ) := rises_analog_ord x thr t
example (x : List ℝ) (thr : ℝ) (t : ℕ) := falls_analog_ord x thr t
example : (2 : ℕ) ∈ rises [(0 : ℚ), 1 / 2, 3 / 2] 1 true :=
  (rises_analog_ord _ _ _).mpr ⟨by norm_num, 1 / 2, 3 / 2, by simp, by simp, by norm_num, by norm_num⟩

end IblVerif.Sync
