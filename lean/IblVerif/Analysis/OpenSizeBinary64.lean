/-
C11: the hypotheses of `StdRounding` are met by round-to-nearest onto 53-bit significands (IEEE binary64 with an
unbounded exponent range, i.e. away from overflow/underflow):

    fl53 x = round (x · 2^(52 − e)) / 2^(52 − e),     2^e ≤ |x| < 2^(e+1).

So the `…_std` theorems of `Properties/C11.lean` hold for this concrete rounding function; what remains trusted is
that Python/NumPy perform correctly rounded binary64 operations and that the operands stay in the normal range.
-/
import Mathlib.Data.Int.Log
import IblVerif.Analysis.OpenSizeRounding

namespace IblVerif.OpenSize

/-- `2^(52 − e)` with `e = ⌊log₂ |x|⌋`: multiplying by it brings `|x|` into `[2^52, 2^53)`. -/
noncomputable def scale53 (x : ℝ) : ℝ := (2 : ℝ) ^ ((52 : ℤ) - Int.log 2 |x|)

/-- Round to nearest onto 53 significant bits. -/
noncomputable def fl53 (x : ℝ) : ℝ := (round (x * scale53 x) : ℝ) / scale53 x

theorem scale53_pos (x : ℝ) : 0 < scale53 x := by
  unfold scale53; exact zpow_pos (by norm_num) _

theorem scale53_mul_ge (x : ℝ) (hx : x ≠ 0) : (2 : ℝ) ^ (52 : ℕ) ≤ |x| * scale53 x := by
  have hax : 0 < |x| := abs_pos.mpr hx
  have hlog : ((2 : ℕ) : ℝ) ^ Int.log 2 |x| ≤ |x| := Int.zpow_log_le_self (by norm_num) hax
  have hpe : (0 : ℝ) < (2 : ℝ) ^ (Int.log 2 |x|) := zpow_pos (by norm_num) _
  unfold scale53
  rw [zpow_sub₀ (by norm_num : (2 : ℝ) ≠ 0), ← mul_div_assoc, le_div_iff₀ hpe]
  have h52 : (2 : ℝ) ^ (52 : ℤ) = (2 : ℝ) ^ (52 : ℕ) := by norm_cast
  rw [h52]
  have hp : (0 : ℝ) < (2 : ℝ) ^ (52 : ℕ) := by positivity
  push_cast at hlog
  nlinarith

theorem fl53_rel (x : ℝ) : |fl53 x - x| ≤ u * |x| := by
  by_cases hx : x = 0
  · subst hx; simp [fl53]
  have hs := scale53_pos x
  have h1 : fl53 x - x = ((round (x * scale53 x) : ℝ) - x * scale53 x) / scale53 x := by
    unfold fl53; field_simp
  rw [h1, abs_div, abs_of_pos hs, div_le_iff₀ hs]
  have h2 : |(round (x * scale53 x) : ℝ) - x * scale53 x| ≤ 1 / 2 := by
    rw [abs_sub_comm]; exact abs_sub_round _
  have h3 := scale53_mul_ge x hx
  have h4 : u * |x| * scale53 x = u * (|x| * scale53 x) := by ring
  rw [h4]
  have h5 : (1 : ℝ) / 2 ≤ u * (|x| * scale53 x) := by
    have : u * (2 : ℝ) ^ (52 : ℕ) = 1 / 2 := by unfold u; norm_num
    have hu := u_pos
    nlinarith
  linarith

/-- Integers up to `2^53` in magnitude are not changed. -/
theorem fl53_int (n : ℤ) (hn : |n| ≤ 2 ^ 53) : fl53 (n : ℝ) = n := by
  by_cases h0 : n = 0
  · subst h0; simp [fl53]
  have hs := scale53_pos (n : ℝ)
  -- it suffices that n · scale is an integer
  suffices h : ∃ m : ℤ, (n : ℝ) * scale53 (n : ℝ) = m by
    obtain ⟨m, hm⟩ := h
    unfold fl53
    rw [hm, round_intCast, ← hm]
    field_simp
  have hnR : (n : ℝ) ≠ 0 := by exact_mod_cast h0
  have hax : 0 < |(n : ℝ)| := abs_pos.mpr hnR
  set e := Int.log 2 |(n : ℝ)| with he
  have hle : ((2 : ℕ) : ℝ) ^ e ≤ |(n : ℝ)| := Int.zpow_log_le_self (by norm_num) hax
  have hnb : |(n : ℝ)| ≤ (2 : ℝ) ^ (53 : ℕ) := by exact_mod_cast hn
  -- e ≤ 53
  have he53 : e ≤ 53 := by
    by_contra hc
    rw [not_le] at hc
    have : ((2 : ℕ) : ℝ) ^ (54 : ℤ) ≤ ((2 : ℕ) : ℝ) ^ e :=
      zpow_le_zpow_right₀ (by norm_num) (by omega)
    have h54 : ((2 : ℕ) : ℝ) ^ (54 : ℤ) = (2 : ℝ) ^ (54 : ℕ) := by norm_cast
    rw [h54] at this
    have : (2 : ℝ) ^ (54 : ℕ) ≤ (2 : ℝ) ^ (53 : ℕ) := by linarith
    norm_num at this
  -- 0 ≤ e since |n| ≥ 1
  have he0 : 0 ≤ e := by
    have h1 : (1 : ℝ) ≤ |(n : ℝ)| := by
      have : (1 : ℤ) ≤ |n| := Int.one_le_abs h0
      exact_mod_cast this
    have : ((2 : ℕ) : ℝ) ^ (0 : ℤ) ≤ |(n : ℝ)| := by simpa using h1
    exact (Int.zpow_le_iff_le_log (by norm_num) hax).mp this
  unfold scale53
  rw [← he]
  rcases Nat.lt_or_ge e.toNat 53 with hlt | hge
  · -- exponent 52 - e ≥ 0: multiply by a natural power of two
    have hk : (52 : ℤ) - e = ((52 - e.toNat : ℕ) : ℤ) := by omega
    refine ⟨n * 2 ^ (52 - e.toNat), ?_⟩
    rw [hk, zpow_natCast]
    push_cast
    ring
  · -- e = 53: |n| = 2^53
    have he' : e = 53 := by omega
    have habs : |(n : ℝ)| = (2 : ℝ) ^ (53 : ℕ) := by
      apply le_antisymm hnb
      have h53 : ((2 : ℕ) : ℝ) ^ (53 : ℤ) = (2 : ℝ) ^ (53 : ℕ) := by norm_cast
      rw [he', h53] at hle
      exact hle
    rw [he']
    have hsc : (2 : ℝ) ^ ((52 : ℤ) - 53) = 1 / 2 := by norm_num
    rw [hsc]
    rcases abs_choice (n : ℝ) with hpos | hneg
    · refine ⟨2 ^ 52, ?_⟩
      rw [hpos] at habs
      rw [habs]; norm_num
    · refine ⟨-2 ^ 52, ?_⟩
      rw [hneg] at habs
      have : (n : ℝ) = -(2 : ℝ) ^ (53 : ℕ) := by linarith
      rw [this]; norm_num

/-- Round-to-nearest onto 53-bit significands (with any nearest-integer `np.round`) is a `StdRounding`. -/
noncomputable def binary64Rounding : StdRounding where
  fl := fl53
  rnd x := round x
  fl_rel := fl53_rel
  fl_int := fl53_int
  rnd_nearest x := abs_sub_round x

end IblVerif.OpenSize
