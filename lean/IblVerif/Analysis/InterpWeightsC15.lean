/-
C15, the decay weights of `interpolate_bad_channels` over ℝ:

    offset  = np.abs(x - x[i] + 1j * (y - y[i]))
    weights = np.exp(-((offset / kriging_distance_um) ** p))

`rawWeightR` is the ℝ instance (`Real.exp`, `Real.rpow`, `Real.sqrt`) of the SAME definition `rawWeightG` that the driver
executes in `Float`.  Proved here: the weight is a function of the distance only (`decay`), symmetric, in (0, 1], equal to 1 at
distance 0, antitone in the distance; `thr ≤ weight` is a ball `distance ≤ krig · log(1/thr)^(1/p)`; for the default
parameters (p = 1.3, 20 µm, cut-off 0.005) squared distances up to 4624 µm² are inside and from 5625 µm² on outside the ball
(the radius is 72.12 µm; no site distance of the NP1 / NP2 lattices falls in between).  Helper lemmas for `Properties/C15.lean`.
-/
import IblVerif.Analysis.Interp
import Mathlib.Analysis.SpecialFunctions.Pow.Real
import Mathlib.Analysis.SpecialFunctions.Log.Basic
import Mathlib.Analysis.Complex.ExponentialBounds
import Mathlib.Tactic.Linarith
import Mathlib.Tactic.Positivity
import Mathlib.Tactic.Ring

namespace IblVerif.BadChannels
open Real

/-- The raw weights over ℝ: the generic definition with `Real.exp`, real powers and `Real.sqrt`. -/
noncomputable def rawWeightR (p krig : ℝ) (x y : Nat → ℝ) (i j : Nat) : ℝ :=
  rawWeightG Real.exp (fun a b => a ^ b) Real.sqrt p krig x y i j

/-- Squared distance between sites `i` and `j`. -/
def dist2 (x y : Nat → ℝ) (i j : Nat) : ℝ := (x j - x i) ^ 2 + (y j - y i) ^ 2

/-- The weight as a function of the squared distance. -/
noncomputable def decay (p krig d2 : ℝ) : ℝ := Real.exp (-((Real.sqrt d2 / krig) ^ p))

theorem rawWeightR_eq_decay (p krig : ℝ) (x y : Nat → ℝ) (i j : Nat) :
    rawWeightR p krig x y i j = decay p krig (dist2 x y i j) := by
  simp only [rawWeightR, rawWeightG, decay, dist2, sq]

theorem dist2_symm (x y : Nat → ℝ) (i j : Nat) : dist2 x y i j = dist2 x y j i := by
  unfold dist2; ring

theorem dist2_nonneg (x y : Nat → ℝ) (i j : Nat) : 0 ≤ dist2 x y i j := by
  unfold dist2; positivity

theorem dist2_self (x y : Nat → ℝ) (i : Nat) : dist2 x y i i = 0 := by
  unfold dist2; ring

theorem decay_pos (p krig d2 : ℝ) : 0 < decay p krig d2 := Real.exp_pos _

theorem decay_le_one (p krig d2 : ℝ) (hk : 0 < krig) : decay p krig d2 ≤ 1 := by
  unfold decay
  rw [Real.exp_le_one_iff]
  have : 0 ≤ (Real.sqrt d2 / krig) ^ p := Real.rpow_nonneg (div_nonneg (Real.sqrt_nonneg _) hk.le) _
  linarith

theorem decay_zero (p krig : ℝ) (hp : p ≠ 0) : decay p krig 0 = 1 := by
  unfold decay
  rw [Real.sqrt_zero, zero_div, Real.zero_rpow hp, neg_zero, Real.exp_zero]

/-- A farther channel never weighs more (`p ≥ 0`). -/
theorem decay_antitone (p krig a b : ℝ) (hp : 0 ≤ p) (hk : 0 < krig) (hab : a ≤ b) :
    decay p krig b ≤ decay p krig a := by
  unfold decay
  rw [Real.exp_le_exp, neg_le_neg_iff]
  apply Real.rpow_le_rpow (div_nonneg (Real.sqrt_nonneg _) hk.le) _ hp
  exact div_le_div_of_nonneg_right (Real.sqrt_le_sqrt hab) hk.le

/-- `thr ≤ weight` is a ball around the bad channel, of radius `krig · log(1/thr)^(1/p)`. -/
theorem decay_ge_iff (p krig thr d2 : ℝ) (hp : 0 < p) (hk : 0 < krig) (h0 : 0 < thr) (h1 : thr ≤ 1) :
    thr ≤ decay p krig d2 ↔ Real.sqrt d2 ≤ krig * (Real.log (1 / thr)) ^ p⁻¹ := by
  unfold decay
  have hL : 0 ≤ Real.log (1 / thr) := by
    rw [one_div, Real.log_inv]
    have := Real.log_nonpos h0.le h1
    linarith
  have hq : 0 ≤ Real.sqrt d2 / krig := div_nonneg (Real.sqrt_nonneg _) hk.le
  constructor
  · intro h
    have hlog : Real.log thr ≤ -((Real.sqrt d2 / krig) ^ p) := (Real.log_le_iff_le_exp h0).mpr h
    have h' : (Real.sqrt d2 / krig) ^ p ≤ Real.log (1 / thr) := by
      rw [one_div, Real.log_inv]; linarith
    have := (Real.le_rpow_inv_iff_of_pos hq hL hp).mpr h'
    rw [div_le_iff₀ hk] at this
    linarith [mul_comm krig ((Real.log (1 / thr)) ^ p⁻¹)]
  · intro h
    have h' : Real.sqrt d2 / krig ≤ (Real.log (1 / thr)) ^ p⁻¹ := by
      rw [div_le_iff₀ hk]; linarith [mul_comm krig ((Real.log (1 / thr)) ^ p⁻¹)]
    have h'' := (Real.le_rpow_inv_iff_of_pos hq hL hp).mp h'
    apply (Real.log_le_iff_le_exp h0).mp
    rw [one_div, Real.log_inv] at h''
    linarith

/-! ### normalised coefficients: equal weights give equal coefficients, larger weights larger coefficients -/

theorem coeff_eq_of_weight_eq (nc : Nat) (thr : ℝ) (labels : Nat → Nat) (w : Nat → ℝ) (j k : Nat)
    (hj : j < nc) (hk : k < nc) (hbj : isBad labels j = false) (hbk : isBad labels k = false) (hw : w j = w k) :
    coeff nc thr labels w j = coeff nc thr labels w k := by
  simp only [coeff, hj, hk, if_true, cutWeight, hbj, hbk, Bool.false_eq_true, if_false, hw]

theorem coeff_mono (nc : Nat) (thr : ℝ) (hthr : 0 < thr) (labels : Nat → Nat) (w : Nat → ℝ) (j k : Nat)
    (hj : j < nc) (hk : k < nc) (hbj : isBad labels j = false) (hkj : w k ≤ w j) :
    coeff nc thr labels w k ≤ coeff nc thr labels w j := by
  simp only [coeff, hj, hk, if_true]
  apply div_le_div_of_nonneg_right _ (weightSum_nonneg nc thr hthr labels w)
  rcases cutWeight_cases thr labels w k with h0 | ⟨hk1, _, hk3⟩
  · rw [h0]; exact cutWeight_nonneg thr hthr labels w j
  · rw [hk1, cutWeight_of_donor thr labels w j hbj (le_trans hk3 hkj)]
    exact hkj

theorem coeff_pos_of_donor (nc : Nat) (thr : ℝ) (hthr : 0 < thr) (labels : Nat → Nat) (w : Nat → ℝ) (j : Nat)
    (hj : j < nc) (hb : isBad labels j = false) (hw : thr ≤ w j) : 0 < coeff nc thr labels w j := by
  simp only [coeff, hj, if_true]
  rw [cutWeight_of_donor thr labels w j hb hw]
  exact div_pos (by linarith) (weightSum_pos nc thr hthr labels w j hj hb hw)

/-- The channels that contribute to the repair of a row are exactly its donors. -/
theorem coeff_ne_zero_iff (nc : Nat) (thr : ℝ) (hthr : 0 < thr) (labels : Nat → Nat) (w : Nat → ℝ) (j : Nat) :
    coeff nc thr labels w j ≠ 0 ↔ j < nc ∧ isBad labels j = false ∧ thr ≤ w j :=
  ⟨coeff_ne_zero nc thr labels w j, fun ⟨a, b, c⟩ => ne_of_gt (coeff_pos_of_donor nc thr hthr labels w j a b c)⟩

/-! ### the default parameters: p = 1.3, kriging distance 20 µm, cut-off 0.005 -/

theorem rpow_13_10_le {x b : ℝ} (hx : 0 ≤ x) (hb : 0 ≤ b) (h : x ^ 13 ≤ b ^ 10) : x ^ ((13 : ℝ) / 10) ≤ b := by
  have h1 : (x ^ ((13 : ℝ) / 10)) ^ (10 : ℕ) = x ^ (13 : ℕ) := by
    rw [← Real.rpow_natCast, ← Real.rpow_mul hx]
    norm_num
  by_contra hlt
  rw [not_le] at hlt
  have : b ^ 10 < (x ^ ((13 : ℝ) / 10)) ^ (10 : ℕ) := pow_lt_pow_left₀ hlt hb (by norm_num)
  rw [h1] at this
  linarith

theorem le_rpow_13_10 {x b : ℝ} (hx : 0 ≤ x) (h : b ^ 10 ≤ x ^ 13) : b ≤ x ^ ((13 : ℝ) / 10) := by
  have h1 : (x ^ ((13 : ℝ) / 10)) ^ (10 : ℕ) = x ^ (13 : ℕ) := by
    rw [← Real.rpow_natCast, ← Real.rpow_mul hx]
    norm_num
  by_contra hlt
  rw [not_le] at hlt
  have : (x ^ ((13 : ℝ) / 10)) ^ (10 : ℕ) < b ^ 10 :=
    pow_lt_pow_left₀ hlt (Real.rpow_nonneg hx _) (by norm_num)
  rw [h1] at this
  linarith

theorem exp_five_le : Real.exp 5 ≤ 200 := by
  have h : Real.exp 5 = Real.exp 1 ^ 5 := by
    rw [← Real.exp_nat_mul]; norm_num
  rw [h]
  have h2 : Real.exp 1 ^ 5 ≤ (2.7182818286 : ℝ) ^ 5 :=
    pow_le_pow_left₀ (Real.exp_pos 1).le Real.exp_one_lt_d9.le 5
  have h3 : (2.7182818286 : ℝ) ^ 5 ≤ 200 := by norm_num
  linarith

theorem lt_exp_eleven_halves : 200 < Real.exp (11 / 2) := by
  have h : Real.exp (11 / 2) = Real.exp 1 ^ 5 * Real.exp (1 / 2) := by
    rw [← Real.exp_nat_mul, ← Real.exp_add]
    norm_num
  rw [h]
  have h2 : (2.7182818283 : ℝ) ^ 5 ≤ Real.exp 1 ^ 5 :=
    pow_le_pow_left₀ (by norm_num) Real.exp_one_gt_d9.le 5
  have h3 : (1 / 2 : ℝ) + 1 ≤ Real.exp (1 / 2) := Real.add_one_le_exp _
  have h4 : (200 : ℝ) < (2.7182818283 : ℝ) ^ 5 * (1 / 2 + 1) := by norm_num
  have h5 : (2.7182818283 : ℝ) ^ 5 * (1 / 2 + 1) ≤ Real.exp 1 ^ 5 * Real.exp (1 / 2) :=
    mul_le_mul h2 h3 (by norm_num) (by positivity)
  linarith

/-- Squared distances up to 68² µm² are inside the donor ball of the default parameters … -/
theorem default_decay_ge (d2 : ℝ) (h : d2 ≤ 4624) : (1 / 200 : ℝ) ≤ decay (13 / 10) 20 d2 := by
  have hs : Real.sqrt d2 ≤ 68 := by
    calc Real.sqrt d2 ≤ Real.sqrt 4624 := Real.sqrt_le_sqrt h
      _ = 68 := by
        rw [show (4624 : ℝ) = 68 ^ 2 by norm_num]
        exact Real.sqrt_sq (by norm_num)
  have hq : Real.sqrt d2 / 20 ≤ 17 / 5 := by
    rw [div_le_iff₀ (by norm_num : (0 : ℝ) < 20)]; linarith
  have hq0 : 0 ≤ Real.sqrt d2 / 20 := div_nonneg (Real.sqrt_nonneg _) (by norm_num)
  have hu : (Real.sqrt d2 / 20) ^ ((13 : ℝ) / 10) ≤ 5 :=
    le_trans (Real.rpow_le_rpow hq0 hq (by norm_num)) (rpow_13_10_le (by norm_num) (by norm_num) (by norm_num))
  unfold decay
  have : Real.exp (-5) ≤ Real.exp (-((Real.sqrt d2 / 20) ^ ((13 : ℝ) / 10))) := by
    rw [Real.exp_le_exp]; linarith
  have h5 : (1 / 200 : ℝ) ≤ Real.exp (-5) := by
    rw [Real.exp_neg, one_div]
    exact inv_anti₀ (Real.exp_pos 5) exp_five_le
  linarith

/-- … and from 75² µm² on outside. -/
theorem default_decay_lt (d2 : ℝ) (h : 5625 ≤ d2) : decay (13 / 10) 20 d2 < (1 / 200 : ℝ) := by
  have hs : 75 ≤ Real.sqrt d2 := by
    calc (75 : ℝ) = Real.sqrt 5625 := by
          rw [show (5625 : ℝ) = 75 ^ 2 by norm_num]
          exact (Real.sqrt_sq (by norm_num)).symm
      _ ≤ Real.sqrt d2 := Real.sqrt_le_sqrt h
  have hq : (15 / 4 : ℝ) ≤ Real.sqrt d2 / 20 := by
    rw [le_div_iff₀ (by norm_num : (0 : ℝ) < 20)]; linarith
  have hu : (11 / 2 : ℝ) ≤ (Real.sqrt d2 / 20) ^ ((13 : ℝ) / 10) :=
    le_trans (le_rpow_13_10 (by norm_num) (by norm_num))
      (Real.rpow_le_rpow (by norm_num) hq (by norm_num))
  unfold decay
  have : Real.exp (-((Real.sqrt d2 / 20) ^ ((13 : ℝ) / 10))) ≤ Real.exp (-(11 / 2)) := by
    rw [Real.exp_le_exp]; linarith
  have h5 : Real.exp (-(11 / 2)) < (1 / 200 : ℝ) := by
    rw [Real.exp_neg, one_div]
    exact inv_strictAnti₀ (by norm_num) lt_exp_eleven_halves
  linarith

end IblVerif.BadChannels
