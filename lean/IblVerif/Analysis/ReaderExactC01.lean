/-
C01, the exact cases of the float32 chain `float32(raw) × volts-per-bit` of `Reader.read`, over the reals.

A finite binary32 number is `m · 2^e` with an integer significand `|m| < 2^24` and `-149 ≤ e ≤ 104` (normal and
subnormal numbers alike).  IEEE-754 arithmetic returns the CORRECTLY ROUNDED exact result, and every rounding
(to nearest, whatever the tie rule) maps a representable number to itself.  That is all that is used of the
arithmetic below: `rnd` is ANY function that fixes the representable numbers (the standard model, trusted).

Proved for every int16 sample `x`:
  * `astype(np.float32)` is exact (`int16_cast_exact`), hence injective on int16 (`int16_cast_injective`);
  * the sync columns (`factor = 1`) come back as `float32(raw)` exactly (`sync_factor_one_exact`);
  * a power-of-two factor `2^k`, `-149 ≤ k ≤ 104`, multiplies exactly (`pow2_factor_exact`);
  * more generally any factor whose significand `mg` keeps `|x · mg| < 2^24` multiplies exactly
    (`short_significand_factor_exact`) — the real SpikeGLX factors (`0.6/512/500`, `0.5/8192/80` …) have full
    24-bit significands and are NOT of that kind: for them the product is rounded, which the driver executes
    and the correspondence compares bit for bit.
-/
import Mathlib.Tactic.Linarith
import Mathlib.Tactic.Ring
import Mathlib.Tactic.NormNum
import Mathlib.Data.Real.Basic
import Mathlib.Algebra.Order.Field.Basic

namespace IblVerif.Analysis.ReaderExact

/-- The finite binary32 numbers. -/
def IsBinary32 (y : ℝ) : Prop :=
  ∃ m e : ℤ, |m| < 2 ^ 24 ∧ -149 ≤ e ∧ e ≤ 104 ∧ y = (m : ℝ) * (2 : ℝ) ^ e

/-- An int16 sample. -/
def IsInt16 (x : ℤ) : Prop := -32768 ≤ x ∧ x ≤ 32767

theorem int16_abs_lt (x : ℤ) (h : IsInt16 x) : |x| < 2 ^ 24 := by
  obtain ⟨h1, h2⟩ := h
  rw [abs_lt]; constructor <;> norm_num <;> omega

/-- Every int16 sample is a binary32 number (significand `x`, exponent 0). -/
theorem int16_isBinary32 (x : ℤ) (h : IsInt16 x) : IsBinary32 (x : ℝ) :=
  ⟨x, 0, int16_abs_lt x h, by norm_num, by norm_num, by simp⟩

/-- `.astype(np.float32)` of an int16 sample loses nothing. -/
theorem int16_cast_exact (rnd : ℝ → ℝ) (hr : ∀ y, IsBinary32 y → rnd y = y) (x : ℤ) (h : IsInt16 x) :
    rnd (x : ℝ) = (x : ℝ) := hr _ (int16_isBinary32 x h)

/-- … hence distinct samples stay distinct. -/
theorem int16_cast_injective (rnd : ℝ → ℝ) (hr : ∀ y, IsBinary32 y → rnd y = y) (x y : ℤ)
    (hx : IsInt16 x) (hy : IsInt16 y) (h : rnd (x : ℝ) = rnd (y : ℝ)) : x = y := by
  rw [int16_cast_exact rnd hr x hx, int16_cast_exact rnd hr y hy] at h
  exact_mod_cast h

/-- Any factor `mg · 2^eg` whose significand keeps `|x · mg| < 2^24` multiplies an int16 sample exactly:
`fl(fl(x) · g) = x · g`. -/
theorem short_significand_factor_exact (rnd : ℝ → ℝ) (hr : ∀ y, IsBinary32 y → rnd y = y) (x : ℤ) (h : IsInt16 x)
    (mg eg : ℤ) (hm : |x * mg| < 2 ^ 24) (he : -149 ≤ eg ∧ eg ≤ 104) :
    rnd (rnd (x : ℝ) * ((mg : ℝ) * (2 : ℝ) ^ eg)) = (x : ℝ) * ((mg : ℝ) * (2 : ℝ) ^ eg) := by
  rw [int16_cast_exact rnd hr x h]
  apply hr
  exact ⟨x * mg, eg, hm, he.1, he.2, by push_cast; ring⟩

/-- Sync columns: the factor is one, the result is `float32(raw)` itself. -/
theorem sync_factor_one_exact (rnd : ℝ → ℝ) (hr : ∀ y, IsBinary32 y → rnd y = y) (x : ℤ) (h : IsInt16 x) :
    rnd (rnd (x : ℝ) * 1) = (x : ℝ) := by
  have := short_significand_factor_exact rnd hr x h 1 0 (by simpa using int16_abs_lt x h) (by norm_num)
  simpa using this

/-- A power-of-two factor multiplies exactly. -/
theorem pow2_factor_exact (rnd : ℝ → ℝ) (hr : ∀ y, IsBinary32 y → rnd y = y) (x : ℤ) (h : IsInt16 x)
    (k : ℤ) (hk : -149 ≤ k ∧ k ≤ 104) :
    rnd (rnd (x : ℝ) * (2 : ℝ) ^ k) = (x : ℝ) * (2 : ℝ) ^ k := by
  have := short_significand_factor_exact rnd hr x h 1 k (by simpa using int16_abs_lt x h) hk
  simpa using this

/-- Non-vacuity: the identity fixes the representable numbers; −32768 and 32767 are int16 samples. -/
example : (∀ y, IsBinary32 y → (id : ℝ → ℝ) y = y) ∧ IsInt16 (-32768) ∧ IsInt16 32767 :=
  ⟨fun _ _ => rfl, by unfold IsInt16; omega, by unfold IsInt16; omega⟩

end IblVerif.Analysis.ReaderExact
