/-
Averaging the anti-diagonal copies of a trajectory matrix returns the embedded samples; a plane wave on a dense
grid embeds as an outer product (field of characteristic zero, Mathlib).  Model: `Model/Cadzow.lean`.
-/
import IblVerif.Lemmas.Cadzow
import IblVerif.Analysis.Rank
import Mathlib.Algebra.Field.Basic
import Mathlib.Algebra.CharZero.Defs
import Mathlib.Tactic.FieldSimp

namespace IblVerif.Cadzow

variable {K : Type} [Field K] [CharZero K]

theorem foldl_add_const {β : Type} (l : List β) (v acc : K) :
    (l.map (fun _ => v)).foldl (· + ·) acc = acc + (l.length : K) * v := by
  induction l generalizing acc with
  | nil => simp
  | cons a t ih =>
    simp only [List.map_cons, List.foldl_cons, ih, List.length_cons, Nat.cast_add, Nat.cast_one]
    ring

theorem sumL_const {β : Type} (l : List β) (v : K) : sumL (l.map (fun _ => v)) = (l.length : K) * v := by
  unfold sumL
  rw [foldl_add_const]
  simp

omit [CharZero K] in
theorem fill_at_pos (t : Traj) (d : List K) (p : Nat × Nat × Nat) (hp : p ∈ t.pos) :
    fill t d p.1 p.2.1 = d.getD p.2.2 0 := by
  obtain ⟨_, _, hs⟩ := (mem_pos t p).mp hp
  simp [fill, hs]

/-- `denoise` for one frequency with a rank reduction that leaves this trajectory matrix unchanged: the average of
the copies of every site is the site's own sample. -/
theorem denoiseCol_id (ix iy : List Nat) (nx ny : Nat) (hv : Valid ix iy nx ny) (d : List K)
    (hd : d.length = ix.length) (derank : (Nat → Nat → K) → (Nat → Nat → K))
    (hder : ∀ A B, A < nrows nx * nrows ny → B < ncols nx * ncols ny →
      derank (fill (trajOfIdx ix iy nx ny) d) A B = fill (trajOfIdx ix iy nx ny) d A B) :
    denoiseCol derank (fun k => (k : K)) (trajOfIdx ix iy nx ny) d = .ok d := by
  obtain ⟨hlen, hpos⟩ := trcount_valid ix iy nx ny hv
  unfold denoiseCol
  have e : ¬ (trcount (trajOfIdx ix iy nx ny)).length ≠ d.length := by rw [hlen, hd]; simp
  simp only [e, if_false]
  congr 1
  apply List.ext_getElem
  · simp
  · intro c h1 h2
    simp only [List.length_map, List.length_range] at h1
    simp only [List.getElem_map, List.getElem_range]
    have hc : c < ix.length := by omega
    rw [getD_trcount _ c (by omega)]
    set F := (trajOfIdx ix iy nx ny).pos.filter (fun p => p.2.2 == c) with hF
    have hmap : F.map (fun p => derank (fill (trajOfIdx ix iy nx ny) d) p.1 p.2.1)
        = F.map (fun _ => d[c]) := by
      apply List.map_congr_left
      intro p hp
      rw [hF, List.mem_filter] at hp
      obtain ⟨hp1, hp2⟩ := hp
      obtain ⟨hA, hB, _⟩ := (mem_pos _ p).mp hp1
      rw [hder p.1 p.2.1 hA hB, fill_at_pos _ d p hp1]
      have : p.2.2 = c := by simpa using hp2
      simp [this, List.getD_eq_getElem?_getD, h2]
    rw [hmap, sumL_const]
    have hne : (F.length : K) ≠ 0 := by
      have := hpos c hc
      exact_mod_cast (Nat.pos_iff_ne_zero.mp this)
    field_simp

/-- Every grid position is occupied (dense rectangular layout). -/
def Dense (ix iy : List Nat) (nx ny : Nat) : Prop :=
  ∀ p q, p < nx → q < ny → ∃ c, c < ix.length ∧ ix.getD c 0 = p ∧ iy.getD c 0 = q

omit [CharZero K] in
/-- On a dense layout the trajectory matrix of a plane wave `amp · zx^ix · zy^iy` is an outer product. -/
theorem fill_plane_wave (ix iy : List Nat) (nx ny : Nat) (hv : Valid ix iy nx ny) (hdense : Dense ix iy nx ny)
    (amp zx zy : K) (d : List K)
    (hpw : ∀ c, c < ix.length → d.getD c 0 = amp * zx ^ ix.getD c 0 * zy ^ iy.getD c 0)
    (A B : Nat) (hA : A < nrows nx * nrows ny) (hB : B < ncols nx * ncols ny) :
    fill (trajOfIdx ix iy nx ny) d A B
      = (amp * zx ^ (A / nrows ny) * zy ^ (A % nrows ny)) *
        (zx ^ (ncols nx - 1 - B / ncols ny) * zy ^ (ncols ny - 1 - B % ncols ny)) := by
  have hNy : 0 < nrows ny := by simp [nrows]
  have hCy : 0 < ncols ny := by
    rcases Nat.eq_zero_or_pos (ncols ny) with h | h
    · rw [h, Nat.mul_zero] at hB; omega
    · exact h
  have h1 : A / nrows ny < nrows nx := Nat.div_lt_of_lt_mul (by rw [Nat.mul_comm]; exact hA)
  have h2 : A % nrows ny < nrows ny := Nat.mod_lt _ hNy
  have h3 : B / ncols ny < ncols nx := Nat.div_lt_of_lt_mul (by rw [Nat.mul_comm]; exact hB)
  have h4 : B % ncols ny < ncols ny := Nat.mod_lt _ hCy
  have hgx := trajIdx_lt nx _ _ h1 h3
  have hgy := trajIdx_lt ny _ _ h2 h4
  obtain ⟨c, hc, hcx, hcy⟩ := hdense _ _ hgx hgy
  have hs : (trajOfIdx ix iy nx ny).siteAt A B = some c := by
    rw [siteAt_trajOfIdx _ _ _ _ _ _ hA hB]
    have := siteOf_self ix iy nx ny hv c hc
    rw [hcx, hcy] at this
    exact this
  simp only [fill, hs]
  rw [hpw c hc, hcx, hcy]
  simp only [trajIdx, pow_add]
  ring

section Passes

variable {α : Type} [Add α] [Div α] [OfNat α 0]

theorem denoisePass_id (derank : (Nat → Nat → α) → (Nat → Nat → α)) (cnt : Nat → α) (t : Traj) (imax : Nat)
    (wav : List (List α)) (f : Nat) (hfix : ∀ col ∈ wav, denoiseCol derank cnt t col = .ok col)
    (himax : f + wav.length ≤ imax) : denoisePass derank cnt t imax wav f = .ok wav := by
  induction wav generalizing f with
  | nil => rfl
  | cons col rest ih =>
    have h1 : f < imax := by simp only [List.length_cons] at himax; omega
    have h2 := ih (f + 1) (fun c hc => hfix c (List.mem_cons_of_mem _ hc))
      (by simp only [List.length_cons] at himax; omega)
    simp only [denoisePass, h1, if_true, hfix col List.mem_cons_self, h2]

theorem denoiseAll_id (derank : (Nat → Nat → α) → (Nat → Nat → α)) (cnt : Nat → α) (t : Traj) (imax : Nat)
    (wav : List (List α)) (hfix : ∀ col ∈ wav, denoiseCol derank cnt t col = .ok col)
    (himax : wav.length ≤ imax) (niter : Nat) (hn : 1 ≤ niter) :
    denoiseAll derank cnt t imax wav niter = .ok wav := by
  have hp := denoisePass_id derank cnt t imax wav 0 hfix (by omega)
  induction niter with
  | zero => omega
  | succ n ih =>
    cases n with
    | zero => simpa [denoiseAll] using hp
    | succ m =>
      have := ih (by omega)
      simp only [denoiseAll, this, hp]

end Passes

/-! ### End to end over ℂ with the SVD as a parameter -/

open Matrix IblVerif.Rank

/-- The trajectory matrix as a Mathlib matrix. -/
def matOf (R C : ℕ) (T : ℕ → ℕ → ℂ) : Matrix (Fin R) (Fin C) ℂ := Matrix.of fun A B => T A B

/-- `derank(T, r)` computed from the factors returned by an SVD routine `svd`. -/
noncomputable def derankVia {R C m : ℕ}
    (svd : (ℕ → ℕ → ℂ) → Matrix (Fin R) (Fin m) ℂ × (Fin m → ℝ) × Matrix (Fin m) (Fin C) ℂ) (r : ℕ)
    (T : ℕ → ℕ → ℂ) : ℕ → ℕ → ℂ := fun A B =>
  if h : A < R ∧ B < C then derankOf r (svd T).1 (svd T).2.1 (svd T).2.2 ⟨A, h.1⟩ ⟨B, h.2⟩ else 0

theorem derankVia_eq {R C m : ℕ}
    (svd : (ℕ → ℕ → ℂ) → Matrix (Fin R) (Fin m) ℂ × (Fin m → ℝ) × Matrix (Fin m) (Fin C) ℂ) (r : ℕ)
    (T : ℕ → ℕ → ℂ) (h : derankOf r (svd T).1 (svd T).2.1 (svd T).2.2 = matOf R C T) (A B : ℕ) (hA : A < R)
    (hB : B < C) : derankVia svd r T A B = T A B := by
  simp only [derankVia, hA, hB, and_self, dite_true, h, matOf, Matrix.of_apply]

end IblVerif.Cadzow
