/-
C15, interpolation over ℝ: the repaired row is a convex combination of its donors.
Helper lemmas for `Properties/C15.lean` (single Mathlib modules only).
-/
import IblVerif.Lemmas.BadChannelsInterp
import Mathlib.Data.Real.Basic
import Mathlib.Algebra.Order.BigOperators.Group.List
import Mathlib.Tactic.Linarith
import Mathlib.Tactic.Positivity

namespace IblVerif.BadChannels

/-- In ℝ (where `x / 0 = 0`, as NumPy's `nan > 0` is false) `0 / s` is never positive. -/
theorem real_hdiv : ∀ s : ℝ, ¬ (0 : ℝ) < 0 / s := by
  intro s; simp

/-- After the cuts a weight is either zero or an uncut raw weight of a non-bad channel, at least `thr`. -/
theorem cutWeight_cases (thr : ℝ) (labels : Nat → Nat) (w : Nat → ℝ) (j : Nat) :
    cutWeight thr labels w j = 0 ∨
      (cutWeight thr labels w j = w j ∧ isBad labels j = false ∧ thr ≤ w j) := by
  unfold cutWeight
  cases hb : isBad labels j with
  | true => left; simp
  | false =>
    simp only [Bool.false_eq_true, if_false]
    by_cases h : w j < thr
    · left; simp [h]
    · right; refine ⟨?_, ?_, not_lt.mp h⟩ <;> simp [h]

theorem cutWeight_nonneg (thr : ℝ) (hthr : 0 < thr) (labels : Nat → Nat) (w : Nat → ℝ) (j : Nat) :
    0 ≤ cutWeight thr labels w j := by
  rcases cutWeight_cases thr labels w j with h | ⟨h, _, h3⟩
  · rw [h]
  · rw [h]; linarith

theorem cutWeight_of_donor (thr : ℝ) (labels : Nat → Nat) (w : Nat → ℝ) (j : Nat)
    (hb : isBad labels j = false) (hw : thr ≤ w j) : cutWeight thr labels w j = w j := by
  unfold cutWeight
  simp [hb, not_lt.mpr hw]

theorem weightSum_nonneg (nc : Nat) (thr : ℝ) (hthr : 0 < thr) (labels : Nat → Nat) (w : Nat → ℝ) :
    0 ≤ weightSum nc thr labels w := by
  unfold weightSum
  apply List.sum_nonneg
  intro x hx
  obtain ⟨j, _, rfl⟩ := List.mem_map.mp hx
  exact cutWeight_nonneg thr hthr labels w j

theorem weightSum_pos (nc : Nat) (thr : ℝ) (hthr : 0 < thr) (labels : Nat → Nat) (w : Nat → ℝ)
    (j : Nat) (hj : j < nc) (hb : isBad labels j = false) (hw : thr ≤ w j) :
    0 < weightSum nc thr labels w := by
  have h1 : cutWeight thr labels w j ≤ weightSum nc thr labels w := by
    unfold weightSum
    apply List.single_le_sum
    · intro x hx
      obtain ⟨k, _, rfl⟩ := List.mem_map.mp hx
      exact cutWeight_nonneg thr hthr labels w k
    · exact List.mem_map.mpr ⟨j, List.mem_range.mpr hj, rfl⟩
  rw [cutWeight_of_donor thr labels w j hb hw] at h1
  linarith

/-- Dropping the terms that vanish does not change a sum. -/
theorem sum_filter_of_zero (l : List Nat) (p : Nat → Bool) (g : Nat → ℝ) (h : ∀ j ∈ l, p j = false → g j = 0) :
    ((l.filter p).map g).sum = (l.map g).sum := by
  induction l with
  | nil => rfl
  | cons a r ih =>
    have ih' := ih (fun j hj => h j (List.mem_cons_of_mem _ hj))
    cases hp : p a with
    | true => simp [hp, ih']
    | false => simp [hp, ih', h a List.mem_cons_self hp]

theorem sum_map_div (l : List Nat) (f : Nat → ℝ) (s : ℝ) :
    (l.map fun j => f j / s).sum = (l.map f).sum / s := by
  induction l with
  | nil => simp
  | cons a r ih => simp [ih, add_div]

/-- A combination with non-negative coefficients summing to one stays between any bounds that hold for the
terms with a non-zero coefficient. -/
theorem convex_bounds (l : List Nat) (lam x : Nat → ℝ) (lo hi : ℝ)
    (hlam : ∀ j ∈ l, 0 ≤ lam j)
    (hx : ∀ j ∈ l, lam j ≠ 0 → lo ≤ x j ∧ x j ≤ hi) :
    lo * (l.map lam).sum ≤ (l.map fun j => lam j * x j).sum ∧
      (l.map fun j => lam j * x j).sum ≤ hi * (l.map lam).sum := by
  induction l with
  | nil => simp
  | cons a r ih =>
    obtain ⟨h1, h2⟩ := ih (fun j hj => hlam j (List.mem_cons_of_mem _ hj))
      (fun j hj => hx j (List.mem_cons_of_mem _ hj))
    have ha := hlam a List.mem_cons_self
    simp only [List.map_cons, List.sum_cons]
    by_cases h0 : lam a = 0
    · rw [h0]; constructor <;> linarith
    · obtain ⟨hl, hh⟩ := hx a List.mem_cons_self h0
      have e1 : lo * lam a ≤ lam a * x a := by nlinarith
      have e2 : lam a * x a ≤ hi * lam a := by nlinarith
      constructor <;> linarith

/-- The normalised coefficient of channel `j` in the repair of a row with raw weights `w`. -/
noncomputable def coeff (nc : Nat) (thr : ℝ) (labels : Nat → Nat) (w : Nat → ℝ) (j : Nat) : ℝ :=
  if j < nc then cutWeight thr labels w j / weightSum nc thr labels w else 0

theorem coeff_nonneg (nc : Nat) (thr : ℝ) (hthr : 0 < thr) (labels : Nat → Nat) (w : Nat → ℝ) (j : Nat) :
    0 ≤ coeff nc thr labels w j := by
  unfold coeff
  split
  · exact div_nonneg (cutWeight_nonneg thr hthr labels w j) (weightSum_nonneg nc thr hthr labels w)
  · exact le_refl _

theorem coeff_ne_zero (nc : Nat) (thr : ℝ) (labels : Nat → Nat) (w : Nat → ℝ) (j : Nat)
    (h : coeff nc thr labels w j ≠ 0) : j < nc ∧ isBad labels j = false ∧ thr ≤ w j := by
  unfold coeff at h
  split at h
  · rename_i hj
    rcases cutWeight_cases thr labels w j with h0 | ⟨_, h2, h3⟩
    · rw [h0] at h; simp at h
    · exact ⟨hj, h2, h3⟩
  · exact absurd rfl h

theorem coeff_sum (nc : Nat) (thr : ℝ) (labels : Nat → Nat) (w : Nat → ℝ)
    (hpos : 0 < weightSum nc thr labels w) :
    ((List.range nc).map (coeff nc thr labels w)).sum = 1 := by
  have : (List.range nc).map (coeff nc thr labels w) =
      (List.range nc).map (fun j => cutWeight thr labels w j / weightSum nc thr labels w) := by
    apply List.map_congr_left
    intro j hj
    simp [coeff, List.mem_range.mp hj]
  rw [this, sum_map_div]
  exact div_self (ne_of_gt hpos)

/-- With at least one donor, the repaired row is the `coeff`-weighted sum of all rows. -/
theorem repairRow_eq_sum (nc : Nat) (thr : ℝ) (hthr : 0 < thr) (labels : Nat → Nat) (w : Nat → ℝ)
    (data : Nat → Nat → ℝ) (j0 : Nat) (hj0 : j0 < nc) (hb : isBad labels j0 = false) (hw : thr ≤ w j0) (t : Nat) :
    repairRow nc thr labels w data t =
      ((List.range nc).map fun j => coeff nc thr labels w j * data j t).sum := by
  have hpos := weightSum_pos nc thr hthr labels w j0 hj0 hb hw
  have hmem : j0 ∈ imult nc thr labels w (weightSum nc thr labels w) := by
    simp only [imult, List.mem_filter, List.mem_range, decide_eq_true_eq]
    refine ⟨hj0, ?_⟩
    unfold normWeight
    rw [cutWeight_of_donor thr labels w j0 hb hw]
    exact div_pos (by linarith) hpos
  have hne : (imult nc thr labels w (weightSum nc thr labels w)).isEmpty = false := by
    cases h : imult nc thr labels w (weightSum nc thr labels w) with
    | nil => rw [h] at hmem; simp at hmem
    | cons a r => rfl
  simp only [repairRow, hne, Bool.false_eq_true, if_false]
  unfold imult
  rw [sum_filter_of_zero]
  · apply congrArg
    apply List.map_congr_left
    intro j hj
    simp [coeff, List.mem_range.mp hj, normWeight]
  · intro j _ hp
    simp only [decide_eq_false_iff_not, not_lt] at hp
    have h0 : 0 ≤ normWeight thr labels w (weightSum nc thr labels w) j :=
      div_nonneg (cutWeight_nonneg thr hthr labels w j) (le_of_lt hpos)
    have : normWeight thr labels w (weightSum nc thr labels w) j = 0 := le_antisymm hp h0
    rw [this, zero_mul]

/-- Without any donor the repaired row is zero. -/
theorem repairRow_no_donor (nc : Nat) (thr : ℝ) (labels : Nat → Nat) (w : Nat → ℝ)
    (data : Nat → Nat → ℝ) (hno : ∀ j, j < nc → isBad labels j = false → w j < thr) (t : Nat) :
    repairRow nc thr labels w data t = 0 := by
  have hcut : ∀ j, j < nc → cutWeight thr labels w j = 0 := by
    intro j hj
    rcases cutWeight_cases thr labels w j with h | ⟨_, h2, h3⟩
    · exact h
    · exact absurd (hno j hj h2) (not_lt.mpr h3)
  have hempty : imult nc thr labels w (weightSum nc thr labels w) = [] := by
    unfold imult
    apply List.filter_eq_nil_iff.mpr
    intro j hj
    simp only [decide_eq_true_eq, normWeight, hcut j (List.mem_range.mp hj), zero_div, lt_self_iff_false,
      not_false_eq_true]
  simp [repairRow, hempty]

end IblVerif.BadChannels
