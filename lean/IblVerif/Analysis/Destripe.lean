/-
Real-number facts about the destriping model: the model of `Model/Destripe.lean` instantiated at `ℝ`
(`realEnv`), medians / means of shifted and of constant vectors, positivity of the gain of `agc`.
-/
import IblVerif.Lemmas.Destripe
import Mathlib.Analysis.SpecialFunctions.Trigonometric.Basic
import Mathlib.Algebra.BigOperators.Group.Finset.Basic
import Mathlib.Algebra.Order.BigOperators.Group.Finset
import Mathlib.Tactic.Ring
import Mathlib.Tactic.Linarith
import Mathlib.Tactic.FieldSimp

namespace IblVerif.Destripe

/-- The scalar operations of the model over the reals. -/
noncomputable def realEnv : Env ℝ :=
  { ofNat := fun n => (n : ℝ), le := fun a b => decide (a ≤ b), abs := fun a => |a|,
    isZero := fun a => decide (a = 0), cos := Real.cos, pi := Real.pi, eps := 1 / 100000000 }

/-! ### sums -/

theorem sumL_eq_sum (l : List ℝ) : sumL l = l.sum := by
  induction l with
  | nil => rfl
  | cons a r ih => simp [sumL, List.foldr] at *; rw [← ih]

theorem sumTo_eq_finset (n : Nat) (f : Nat → ℝ) : sumTo n f = ∑ i ∈ Finset.range n, f i := by
  induction n with
  | zero => simp [sumTo, sumL]
  | succ k ih =>
    rw [Finset.sum_range_succ, ← ih]
    simp only [sumTo, sumL_eq_sum, List.range_succ, List.map_append, List.sum_append]
    simp

theorem sumL_map_sub (l : List ℝ) (c : ℝ) : sumL (l.map (· - c)) = sumL l - l.length * c := by
  induction l with
  | nil => simp [sumL]
  | cons a r ih =>
    simp only [sumL, List.map_cons, List.foldr_cons, List.length_cons] at *
    rw [ih]; push_cast; ring

theorem sumL_replicate (n : Nat) (a : ℝ) : sumL (List.replicate n a) = n * a := by
  induction n with
  | zero => simp [sumL]
  | succ k ih =>
    simp only [sumL, List.replicate_succ, List.foldr_cons] at *
    rw [ih]; push_cast; ring

/-! ### mean and median -/

theorem mean_map_sub (l : List ℝ) (hl : l ≠ []) (c : ℝ) : mean realEnv (l.map (· - c)) = mean realEnv l - c := by
  have hn : (l.length : ℝ) ≠ 0 := by
    have : l.length ≠ 0 := fun h => hl (List.length_eq_zero_iff.mp h)
    exact_mod_cast this
  simp only [mean, realEnv, sumL_map_sub, List.length_map]
  field_simp

theorem mean_replicate (n : Nat) (hn : 0 < n) (a : ℝ) : mean realEnv (List.replicate n a) = a := by
  have : (n : ℝ) ≠ 0 := by exact_mod_cast (Nat.pos_iff_ne_zero.mp hn)
  simp only [mean, realEnv, sumL_replicate, List.length_replicate]
  field_simp

theorem median_map_sub (l : List ℝ) (c : ℝ) (hl : l ≠ []) :
    median realEnv (l.map (· - c)) = median realEnv l - c := by
  have hs : sortBy realEnv.le (l.map (· - c)) = (sortBy realEnv.le l).map (· - c) :=
    sortBy_map realEnv.le (· - c) (by intro a b; simp [realEnv]) l
  have hlen : (sortBy realEnv.le l).length ≠ 0 := by
    rw [sortBy_length]; exact fun h => hl (List.length_eq_zero_iff.mp h)
  unfold median
  simp only [hs, List.length_map]
  rw [dif_neg hlen, dif_neg hlen]
  split
  · simp
  · simp only [List.getElem_map, realEnv]; push_cast; ring

theorem median_replicate (n : Nat) (hn : 0 < n) (a : ℝ) : median realEnv (List.replicate n a) = a := by
  unfold median
  simp only [sortBy_replicate, List.length_replicate]
  rw [dif_neg (by omega)]
  split
  · simp
  · simp only [List.getElem_replicate, realEnv]; push_cast; ring

/-! ### car -/

/-- the value `car` subtracts at one sample: median / mean over the listed channel values -/
noncomputable def centre (op : Operator) (l : List ℝ) : ℝ :=
  match op with
  | .median => median realEnv l
  | .average => mean realEnv l
  | .other => 0

theorem car1_get (op : Operator) (n ns : Nat) (z : Mat ℝ) (k t : Nat) :
    (car1 realEnv op n ns z).get k t = z.get k t - centre op (col n z t) := by
  cases op <;> simp [car1, centre]

theorem col_range (nc : Nat) (x : Mat ℝ) (t : Nat) : col nc x t = (List.range nc).map (fun j => x.get j t) := rfl

/-- Every channel of a group gets the group's own median / mean subtracted (with or without `collection`). -/
theorem car_member (op : Operator) (nc ns : Nat) (coll : Option (Nat → Int)) (x y : Mat ℝ)
    (h : car realEnv op nc ns coll x = .ok y) (i : Nat) (t : Nat) :
    ∀ j ∈ groupMembers nc coll i,
      y.get j t = x.get j t - centre op ((groupMembers nc coll i).map (fun k => x.get k t)) := by
  intro j hj
  obtain ⟨hjn, hjg⟩ := mem_groupMembers nc coll i j hj
  cases coll with
  | none =>
    simp only [car, Except.ok.injEq] at h
    subst h
    rw [car1_get, col_range]; rfl
  | some g =>
    simp only [car] at h
    obtain ⟨yg, hyg, hget⟩ := grouped_ok _ nc ns g x y h j hjn t
    simp only [groupArg, Except.ok.injEq] at hyg
    subst hyg
    have hgj : g j = g i := hjg g rfl
    rw [hget, car1_get, col_subRows, hgj]
    have hsel : groupSel g (g i) j = true := by simp [groupSel, hgj]
    rw [subRows_rank (groupSel g (g i)) nc ns j t x hjn hsel]
    rfl

/-! ### agc -/

section agc
variable (ns m : Nat) (w : Nat → ℝ) (eps : ℝ) (x : Mat ℝ)

/-- the smoothed envelope `convolve(abs(x), w / sum(w), 'same')` -/
noncomputable def env0 (c t : Nat) : ℝ :=
  convSame ns (fun j => |x.get c j|) m (fun k => w k / sumTo m w) t

theorem agcW_gain (nc c t : Nat) :
    (agcW realEnv nc ns m w eps x).gain.get c t
      = env0 ns m w x c t + sumTo ns (env0 ns m w x c) * eps / (ns : ℝ) := by
  simp [agcW, env0, realEnv]
  rfl

theorem agcW_dead (nc c : Nat) :
    (agcW realEnv nc ns m w eps x).dead.get c
      = decide (sumTo ns (fun t => env0 ns m w x c t + sumTo ns (env0 ns m w x c) * eps / (ns : ℝ)) = 0) := by
  simp [agcW, env0, realEnv]
  rfl

theorem agcW_data (nc c t : Nat) :
    (agcW realEnv nc ns m w eps x).data.get c t
      = if (agcW realEnv nc ns m w eps x).dead.get c then x.get c t
        else x.get c t / (agcW realEnv nc ns m w eps x).gain.get c t := by
  simp [agcW]

variable (hw : ∀ k, 0 ≤ w k) (hm : (m - 1) / 2 < m) (hc : 0 < w ((m - 1) / 2))
include hw hm hc

theorem wsum_pos : 0 < sumTo m w := by
  rw [sumTo_eq_finset]
  exact lt_of_lt_of_le hc (Finset.single_le_sum (f := w) (fun i _ => hw i) (Finset.mem_range.mpr hm))

theorem env0_nonneg (c t : Nat) : 0 ≤ env0 ns m w x c t := by
  have hs := wsum_pos m w hw hm hc
  unfold env0 convSame
  rw [sumTo_eq_finset]
  apply Finset.sum_nonneg
  intro j _
  split
  · exact mul_nonneg (abs_nonneg _) (div_nonneg (hw _) hs.le)
  · exact le_refl _

theorem env0_ge (c t : Nat) (ht : t < ns) :
    |x.get c t| * (w ((m - 1) / 2) / sumTo m w) ≤ env0 ns m w x c t := by
  have hs := wsum_pos m w hw hm hc
  unfold env0 convSame
  rw [sumTo_eq_finset]
  have hterm : ∀ j ∈ Finset.range ns, 0 ≤ (if j ≤ t + (m - 1) / 2 ∧ t + (m - 1) / 2 - j < m
      then |x.get c j| * (w (t + (m - 1) / 2 - j) / sumTo m w) else 0) := by
    intro j _
    split
    · exact mul_nonneg (abs_nonneg _) (div_nonneg (hw _) hs.le)
    · exact le_refl _
  have h1 := Finset.single_le_sum hterm (Finset.mem_range.mpr ht)
  have hcond : t ≤ t + (m - 1) / 2 ∧ t + (m - 1) / 2 - t < m := ⟨by omega, by omega⟩
  simp only [hcond, and_self, if_true] at h1
  have h3 : t + (m - 1) / 2 - t = (m - 1) / 2 := by omega
  rw [h3] at h1
  exact h1

/-- `agc` returns data and gain whose product is the input, at every sample of every row
(live rows: the gain is strictly positive; dead rows are all-zero rows and come back unchanged). -/
theorem agcW_product (heps : 0 < eps) (nc c t : Nat) (ht : t < ns) :
    (agcW realEnv nc ns m w eps x).data.get c t * (agcW realEnv nc ns m w eps x).gain.get c t = x.get c t := by
  have hs := wsum_pos m w hw hm hc
  have hnsR : (0 : ℝ) < (ns : ℝ) := by exact_mod_cast (by omega : 0 < ns)
  have hnn := env0_nonneg ns m w x hw hm hc c
  set R := sumTo ns (env0 ns m w x c) with hR
  have hRnn : 0 ≤ R := by
    rw [hR, sumTo_eq_finset]; exact Finset.sum_nonneg (fun i _ => hnn i)
  have htot : sumTo ns (fun t => env0 ns m w x c t + R * eps / (ns : ℝ)) = R * (1 + eps) := by
    rw [sumTo_eq_finset, Finset.sum_add_distrib, Finset.sum_const, Finset.card_range, ← sumTo_eq_finset, ← hR]
    simp only [nsmul_eq_mul]
    field_simp
  rw [agcW_data, agcW_dead, agcW_gain, ← hR, htot]
  by_cases hzero : R * (1 + eps) = 0
  · -- dead row: the envelope vanishes, hence so does the row
    have hR0 : R = 0 := by
      rcases mul_eq_zero.mp hzero with h | h
      · exact h
      · linarith
    have hall : ∀ i ∈ Finset.range ns, env0 ns m w x c i = 0 := by
      have := (Finset.sum_eq_zero_iff_of_nonneg (fun i _ => hnn i)).mp (by rw [← sumTo_eq_finset, ← hR]; exact hR0)
      exact this
    have hge := env0_ge ns m w x hw hm hc c t ht
    rw [hall t (Finset.mem_range.mpr ht)] at hge
    have hpos : 0 < w ((m - 1) / 2) / sumTo m w := div_pos hc hs
    have habs : |x.get c t| = 0 := by
      by_contra hne
      have : 0 < |x.get c t| := lt_of_le_of_ne (abs_nonneg _) (Ne.symm hne)
      have := mul_pos this hpos
      linarith
    have hx : x.get c t = 0 := abs_eq_zero.mp habs
    simp [hzero, hx]
  · have hRpos : 0 < R := lt_of_le_of_ne hRnn (fun h => hzero (by rw [← h]; ring))
    have hg : 0 < env0 ns m w x c t + R * eps / (ns : ℝ) := by
      have : 0 < R * eps / (ns : ℝ) := div_pos (mul_pos hRpos heps) hnsR
      linarith [hnn t]
    simp only [hzero, decide_false, Bool.false_eq_true, if_false]
    exact div_mul_cancel₀ _ (ne_of_gt hg)

end agc

/-! ### the Hann window of `agc` -/

theorem hanning_nonneg (m k : Nat) : 0 ≤ hanning realEnv m k := by
  unfold hanning
  split
  · exact zero_le_one
  · have := Real.neg_one_le_cos (realEnv.pi * (realEnv.ofNat (2 * k + 1) - realEnv.ofNat m) / realEnv.ofNat (m - 1))
    simp only [realEnv] at *
    linarith

theorem hanning_centre (r : Nat) : hanning realEnv (2 * r + 1) r = 1 := by
  unfold hanning
  split
  · rfl
  · simp only [realEnv]
    have : ((2 * r + 1 : Nat) : ℝ) - ((2 * r + 1 : Nat) : ℝ) = 0 := sub_self _
    rw [this]; simp; norm_num

theorem agcWin_centre (lagc : Nat) : (agcWin lagc - 1) / 2 = roundHalf lagc ∧ (agcWin lagc - 1) / 2 < agcWin lagc := by
  unfold agcWin; omega

/-- `agc(x, wl=lagc, si=1, epsilon=eps)`: data × gain = input at every sample of every row. -/
theorem agc_product_real (nc ns lagc : Nat) (eps : ℝ) (heps : 0 < eps) (x : Mat ℝ) (c t : Nat) (ht : t < ns) :
    (agc realEnv nc ns lagc eps x).data.get c t * (agc realEnv nc ns lagc eps x).gain.get c t = x.get c t := by
  unfold agc
  obtain ⟨h1, h2⟩ := agcWin_centre lagc
  apply agcW_product ns (agcWin lagc) (hanning realEnv (agcWin lagc)) eps x (hanning_nonneg _) h2 ?_ heps nc c t ht
  rw [h1]
  have : agcWin lagc = 2 * roundHalf lagc + 1 := by unfold agcWin; omega
  rw [this, hanning_centre]; exact zero_lt_one

/-! ### rows that are equal go through `agc` equally -/

theorem sumTo_congr (n : Nat) (f g : Nat → ℝ) (h : ∀ i < n, f i = g i) : sumTo n f = sumTo n g := by
  rw [sumTo_eq_finset, sumTo_eq_finset]
  exact Finset.sum_congr rfl (fun i hi => h i (Finset.mem_range.mp hi))

theorem env0_congr (ns m : Nat) (w : Nat → ℝ) (x : Mat ℝ) (c c' : Nat)
    (h : ∀ j < ns, x.get c j = x.get c' j) (t : Nat) : env0 ns m w x c t = env0 ns m w x c' t := by
  unfold env0 convSame
  apply sumTo_congr
  intro j hj
  simp only [h j hj]

theorem agcW_row_congr (nc ns m : Nat) (w : Nat → ℝ) (eps : ℝ) (x : Mat ℝ) (c c' : Nat)
    (h : ∀ j < ns, x.get c j = x.get c' j) (t : Nat) (ht : t < ns) :
    (agcW realEnv nc ns m w eps x).data.get c t = (agcW realEnv nc ns m w eps x).data.get c' t ∧
    (agcW realEnv nc ns m w eps x).gain.get c t = (agcW realEnv nc ns m w eps x).gain.get c' t := by
  have he : env0 ns m w x c = env0 ns m w x c' := funext (env0_congr ns m w x c c' h)
  have hg : ∀ t, (agcW realEnv nc ns m w eps x).gain.get c t = (agcW realEnv nc ns m w eps x).gain.get c' t := by
    intro t; rw [agcW_gain, agcW_gain, he]
  have hd : (agcW realEnv nc ns m w eps x).dead.get c = (agcW realEnv nc ns m w eps x).dead.get c' := by
    rw [agcW_dead, agcW_dead, he]
  refine ⟨?_, hg t⟩
  rw [agcW_data, agcW_data, hd, hg t, h t ht]

/-! ### kfilt on a common mode -/

/-- the assumed law of the spatial high-pass: a column that is constant over the padded channels is removed -/
def KillsConst (L : Nat → Vec ℝ → Vec ℝ) : Prop :=
  ∀ (n : Nat) (v : Vec ℝ) (a : ℝ), (∀ p < n, v.get p = a) → ∀ i < n, (L n v).get i = 0

theorem mirrorIdx_lt (nx pad p : Nat) (h1 : pad ≤ nx) (h2 : 0 < nx) : mirrorIdx nx pad p < nx := by
  unfold mirrorIdx
  split
  · omega
  · split <;> omega

theorem kfiltCore_common_mode (s : KSet ℝ) (hL : KillsConst s.L) (htap : tapOf s = 0) (nx ns : Nat)
    (xf : Mat ℝ) (gain : Option (Mat ℝ)) (hpad : s.ntrPad ≤ nx) (t : Nat)
    (hx : ∀ c < nx, xf.get c t = xf.get 0 t) (c : Nat) (hc : c < nx) :
    (kfiltCore realEnv s nx ns xf gain).get c t = 0 := by
  have hcol : (s.L (nx + s.ntrPad * 2) (paddedCol s nx xf
      (Vec.tab (nx + s.ntrPad * 2) (fun p => taper realEnv (nx + s.ntrPad * 2) (tapOf s) p)) t)).get (c + s.ntrPad) = 0 := by
    apply hL _ _ (xf.get 0 t)
    · intro p _
      simp only [paddedCol, Vec.get_tab, htap, Nat.lt_irrefl, if_false]
      exact hx _ (mirrorIdx_lt nx s.ntrPad p hpad (by omega))
    · omega
  unfold kfiltCore
  cases gain with
  | none => simp only [Mat.get_tab, Vec.get_tab]; exact hcol
  | some g => simp only [Mat.get_tab, Vec.get_tab]; rw [hcol, zero_mul]

end IblVerif.Destripe
