/-
The sub-sample re-alignment of `destripe`: the time-domain kernel of `fourier.fshift` in the model
(`fshiftRow`) delays a band-limited periodic waveform exactly, so rows that record one common waveform with
their ADC delays become identical.
-/
import IblVerif.Analysis.Destripe
import Mathlib.Analysis.SpecialFunctions.Trigonometric.Basic
import Mathlib.Analysis.SpecialFunctions.Complex.Circle
import Mathlib.Algebra.Field.GeomSum

namespace IblVerif.Destripe
open Finset

/-- `sum_{j<n} cos(2 pi M j / n + psi) = 0` when `n` does not divide `M`. -/
theorem sum_cos_arith_zero (n : Nat) (M : ℤ) (hM : ¬ ((n : ℤ) ∣ M)) (ψ : ℝ) :
    ∑ j ∈ range n, Real.cos (2 * Real.pi * (M : ℝ) * (j : ℝ) / (n : ℝ) + ψ) = 0 := by
  rcases Nat.eq_zero_or_pos n with rfl | hpos
  · simp
  have hn : n ≠ 0 := by omega
  have hnR : (n : ℂ) ≠ 0 := by exact_mod_cast hn
  set w : ℂ := Complex.exp (2 * Real.pi * (M : ℂ) / (n : ℂ) * Complex.I) with hw
  have hwn : w ^ n = 1 := by
    rw [hw, ← Complex.exp_nat_mul]
    have : (n : ℂ) * (2 * Real.pi * (M : ℂ) / (n : ℂ) * Complex.I) = (M : ℂ) * (2 * Real.pi * Complex.I) := by
      field_simp
    rw [this]
    exact Complex.exp_int_mul_two_pi_mul_I M
  have hw1 : w ≠ 1 := by
    intro h1
    rw [hw, Complex.exp_eq_one_iff] at h1
    obtain ⟨k, hk⟩ := h1
    have hpi : (2 * (Real.pi : ℂ) * Complex.I) ≠ 0 := by
      simp [Real.pi_ne_zero, Complex.I_ne_zero]
    have h2 : (M : ℂ) = (k : ℂ) * (n : ℂ) := by
      have : 2 * (Real.pi : ℂ) * (M : ℂ) / (n : ℂ) * Complex.I = (M : ℂ) / (n : ℂ) * (2 * Real.pi * Complex.I) := by ring
      rw [this] at hk
      have h3 := mul_right_cancel₀ hpi hk
      field_simp at h3
      rw [h3]; ring
    have h4 : M = k * (n : ℤ) := by exact_mod_cast h2
    exact hM ⟨k, by rw [h4]; ring⟩
  have hgeom : ∑ j ∈ range n, w ^ j = 0 := by
    have := geom_sum_eq hw1 n
    rw [this, hwn, sub_self, zero_div]
  have hterm : ∀ j : ℕ, Real.cos (2 * Real.pi * (M : ℝ) * (j : ℝ) / (n : ℝ) + ψ)
      = (Complex.exp (ψ * Complex.I) * w ^ j).re := by
    intro j
    rw [hw, ← Complex.exp_nat_mul, ← Complex.exp_add]
    have : (ψ : ℂ) * Complex.I + (j : ℂ) * (2 * Real.pi * (M : ℂ) / (n : ℂ) * Complex.I)
        = ((2 * Real.pi * (M : ℝ) * (j : ℝ) / (n : ℝ) + ψ : ℝ) : ℂ) * Complex.I := by
      push_cast; ring
    rw [this, Complex.exp_ofReal_mul_I_re]
  simp only [hterm]
  rw [← Complex.re_sum, ← Finset.mul_sum, hgeom, mul_zero, Complex.zero_re]

/-- `sum_{j<n} cos(2 pi M j / n + psi) = n cos psi` when `n` divides `M`. -/
theorem sum_cos_arith_dvd (n : Nat) (M : ℤ) (hM : (n : ℤ) ∣ M) (hn : n ≠ 0) (ψ : ℝ) :
    ∑ j ∈ range n, Real.cos (2 * Real.pi * (M : ℝ) * (j : ℝ) / (n : ℝ) + ψ) = (n : ℝ) * Real.cos ψ := by
  obtain ⟨k, rfl⟩ := hM
  have hnR : (n : ℝ) ≠ 0 := by exact_mod_cast hn
  have : ∀ j : ℕ, Real.cos (2 * Real.pi * (((n : ℤ) * k : ℤ) : ℝ) * (j : ℝ) / (n : ℝ) + ψ) = Real.cos ψ := by
    intro j
    have h1 : 2 * Real.pi * (((n : ℤ) * k : ℤ) : ℝ) * (j : ℝ) / (n : ℝ) + ψ = ψ + ((k * (j : ℤ) : ℤ) : ℝ) * (2 * Real.pi) := by
      push_cast; field_simp; ring
    rw [h1, Real.cos_add_int_mul_two_pi]
  simp only [this, Finset.sum_const, Finset.card_range, nsmul_eq_mul]

/-- both cases together, for `|M| < n` -/
theorem sum_cos_arith (n : Nat) (M : ℤ) (hlt : |M| < (n : ℤ)) (ψ : ℝ) :
    ∑ j ∈ range n, Real.cos (2 * Real.pi * (M : ℝ) * (j : ℝ) / (n : ℝ) + ψ)
      = if M = 0 then (n : ℝ) * Real.cos ψ else 0 := by
  have hn : n ≠ 0 := by
    rintro rfl
    have := abs_nonneg M
    simp at hlt; omega
  split
  · rename_i h0
    exact sum_cos_arith_dvd n M (by rw [h0]; exact dvd_zero _) hn ψ
  · rename_i h0
    apply sum_cos_arith_zero
    intro hdvd
    have := Int.le_of_dvd (abs_pos.mpr h0) ((dvd_abs _ _).mpr hdvd)
    omega

theorem two_cos_mul_cos (a b : ℝ) : 2 * Real.cos a * Real.cos b = Real.cos (a + b) + Real.cos (a - b) := by
  rw [Real.cos_add, Real.cos_sub]; ring

/-! ### the kernel of the fractional delay -/

/-- the kernel of `fshift(·, s)` at a real offset `u` -/
noncomputable def kernelR (n : Nat) (s u : ℝ) : ℝ :=
  (1 + ∑ k ∈ range ((n + 1) / 2 - 1), 2 * Real.cos (2 * Real.pi * ((k + 1 : Nat) : ℝ) * (u - s) / (n : ℝ))
     + (if n % 2 = 0 ∧ n > 0 then Real.cos (Real.pi * s) * Real.cos (Real.pi * u) else 0)) / (n : ℝ)

theorem sign_eq_cos (m : Nat) : (if m % 2 = 0 then (1 : ℝ) else 0 - 1) = Real.cos (Real.pi * (m : ℝ)) := by
  rw [mul_comm, Real.cos_nat_mul_pi]
  split
  · rename_i h; rw [Even.neg_one_pow (Nat.even_iff.mpr h)]
  · rename_i h; rw [Odd.neg_one_pow (Nat.odd_iff.mpr (by omega))]; ring

theorem shiftKernel_eq (n : Nat) (s : ℝ) (m : Nat) : shiftKernel realEnv n s m = kernelR n s (m : ℝ) := by
  unfold shiftKernel kernelR
  rw [sumTo_eq_finset]
  simp only [realEnv, sign_eq_cos]
  push_cast
  rfl

theorem kernelR_periodic (n : Nat) (s u : ℝ) : kernelR n s (u + (n : ℝ)) = kernelR n s u := by
  rcases Nat.eq_zero_or_pos n with rfl | hpos
  · simp
  have hnR : (n : ℝ) ≠ 0 := by exact_mod_cast (by omega : n ≠ 0)
  unfold kernelR
  have h1 : ∀ k : ℕ, Real.cos (2 * Real.pi * ((k + 1 : Nat) : ℝ) * (u + (n : ℝ) - s) / (n : ℝ))
      = Real.cos (2 * Real.pi * ((k + 1 : Nat) : ℝ) * (u - s) / (n : ℝ)) := by
    intro k
    have : 2 * Real.pi * ((k + 1 : Nat) : ℝ) * (u + (n : ℝ) - s) / (n : ℝ)
        = 2 * Real.pi * ((k + 1 : Nat) : ℝ) * (u - s) / (n : ℝ) + ((k + 1 : Nat) : ℝ) * (2 * Real.pi) := by
      field_simp; ring
    rw [this, Real.cos_add_nat_mul_two_pi]
  simp only [h1]
  by_cases he : n % 2 = 0 ∧ n > 0
  · simp only [he, and_self, if_true]
    have h2 : Real.cos (Real.pi * (u + (n : ℝ))) = Real.cos (Real.pi * u) := by
      obtain ⟨m, hm⟩ : ∃ m, n = 2 * m := ⟨n / 2, by omega⟩
      have : Real.pi * (u + (n : ℝ)) = Real.pi * u + (m : ℝ) * (2 * Real.pi) := by
        rw [hm]; push_cast; ring
      rw [this, Real.cos_add_nat_mul_two_pi]
    rw [h2]
  · simp only [he, if_false]

/-- the circular index `(t - j) mod n` can be replaced by the real difference -/
theorem kernelR_mod (n : Nat) (s : ℝ) (t j : Nat) (ht : t < n) (hj : j < n) :
    kernelR n s (((t + n - j) % n : Nat) : ℝ) = kernelR n s ((t : ℝ) - (j : ℝ)) := by
  by_cases hle : j ≤ t
  · have : (t + n - j) % n = t - j := by
      have : t + n - j = (t - j) + n := by omega
      rw [this, Nat.add_mod_right, Nat.mod_eq_of_lt (by omega)]
    rw [this, Nat.cast_sub hle]
  · have : (t + n - j) % n = t + n - j := Nat.mod_eq_of_lt (by omega)
    rw [this, Nat.cast_sub (by omega), ← kernelR_periodic n s ((t : ℝ) - (j : ℝ))]
    push_cast; ring_nf

/-! ### one harmonic -/

section harmonic
variable (n q : Nat) (hq : 2 * q < n) (s φ : ℝ) (t : Nat)

/-- the samples of the harmonic `cos(2 pi q tau / n + phi)` taken `s` samples late -/
noncomputable def harm (j : Nat) : ℝ := Real.cos (2 * Real.pi * (q : ℝ) * ((j : ℝ) + s) / (n : ℝ) + φ)

include hq

theorem harm_sum : ∑ j ∈ range n, harm n q s φ j = if q = 0 then (n : ℝ) * Real.cos φ else 0 := by
  have hnR : (n : ℝ) ≠ 0 := by exact_mod_cast (by omega : n ≠ 0)
  have h1 : ∀ j : ℕ, harm n q s φ j
      = Real.cos (2 * Real.pi * (((q : ℤ)) : ℝ) * (j : ℝ) / (n : ℝ) + (2 * Real.pi * (q : ℝ) * s / (n : ℝ) + φ)) := by
    intro j; unfold harm; congr 1; push_cast; field_simp; ring
  simp only [h1]
  rw [sum_cos_arith n (q : ℤ) (by rw [abs_of_nonneg (by omega)]; omega)]
  by_cases h0 : q = 0
  · subst h0; simp
  · have : ¬ ((q : ℤ) = 0) := by omega
    simp [h0]

theorem harm_mul_cos (k : Nat) (hk : 2 * (k + 1) < n + 1) :
    ∑ j ∈ range n, harm n q s φ j * (2 * Real.cos (2 * Real.pi * ((k + 1 : Nat) : ℝ) * ((t : ℝ) - (j : ℝ) - s) / (n : ℝ)))
      = if k + 1 = q then (n : ℝ) * Real.cos (2 * Real.pi * (q : ℝ) * (t : ℝ) / (n : ℝ) + φ) else 0 := by
  have hnR : (n : ℝ) ≠ 0 := by exact_mod_cast (by omega : n ≠ 0)
  have h1 : ∀ j : ℕ, harm n q s φ j * (2 * Real.cos (2 * Real.pi * ((k + 1 : Nat) : ℝ) * ((t : ℝ) - (j : ℝ) - s) / (n : ℝ)))
      = Real.cos (2 * Real.pi * ((((q : ℤ) - ((k + 1 : Nat) : ℤ) : ℤ)) : ℝ) * (j : ℝ) / (n : ℝ)
            + (2 * Real.pi * (q : ℝ) * s / (n : ℝ) + φ + 2 * Real.pi * ((k + 1 : Nat) : ℝ) * ((t : ℝ) - s) / (n : ℝ)))
        + Real.cos (2 * Real.pi * ((((q : ℤ) + ((k + 1 : Nat) : ℤ) : ℤ)) : ℝ) * (j : ℝ) / (n : ℝ)
            + (2 * Real.pi * (q : ℝ) * s / (n : ℝ) + φ - 2 * Real.pi * ((k + 1 : Nat) : ℝ) * ((t : ℝ) - s) / (n : ℝ))) := by
    intro j
    unfold harm
    rw [mul_comm, mul_assoc, mul_comm (Real.cos _) (Real.cos _), ← mul_assoc, two_cos_mul_cos]
    congr 1 <;> (congr 1; push_cast; field_simp; ring)
  simp only [h1]
  rw [Finset.sum_add_distrib,
    sum_cos_arith n ((q : ℤ) - ((k + 1 : Nat) : ℤ)) (by rw [abs_lt]; constructor <;> push_cast <;> omega),
    sum_cos_arith n ((q : ℤ) + ((k + 1 : Nat) : ℤ)) (by rw [abs_lt]; constructor <;> push_cast <;> omega)]
  have hpos : ¬ ((q : ℤ) + ((k + 1 : Nat) : ℤ) = 0) := by push_cast; omega
  simp only [hpos, if_false, add_zero]
  by_cases hkq : k + 1 = q
  · subst hkq
    rw [if_pos (sub_self _), if_pos rfl]
    congr 2
    push_cast; field_simp; ring
  · have : ¬ ((q : ℤ) - ((k + 1 : Nat) : ℤ) = 0) := by
      intro h; apply hkq; push_cast at h; omega
    rw [if_neg this, if_neg hkq]

theorem harm_mul_nyq (hn : n % 2 = 0) :
    ∑ j ∈ range n, harm n q s φ j * (Real.cos (Real.pi * s) * Real.cos (Real.pi * ((t : ℝ) - (j : ℝ)))) = 0 := by
  have hnR : (n : ℝ) ≠ 0 := by exact_mod_cast (by omega : n ≠ 0)
  obtain ⟨m, hm⟩ : ∃ m, n = 2 * m := ⟨n / 2, by omega⟩
  have hmR : (n : ℝ) = 2 * (m : ℝ) := by rw [hm]; push_cast; ring
  have h1 : ∀ j : ℕ, harm n q s φ j * (Real.cos (Real.pi * s) * Real.cos (Real.pi * ((t : ℝ) - (j : ℝ))))
      = Real.cos (Real.pi * s) / 2 *
        (Real.cos (2 * Real.pi * ((((q : ℤ) - (m : ℤ) : ℤ)) : ℝ) * (j : ℝ) / (n : ℝ)
            + (2 * Real.pi * (q : ℝ) * s / (n : ℝ) + φ + Real.pi * (t : ℝ)))
        + Real.cos (2 * Real.pi * ((((q : ℤ) + (m : ℤ) : ℤ)) : ℝ) * (j : ℝ) / (n : ℝ)
            + (2 * Real.pi * (q : ℝ) * s / (n : ℝ) + φ - Real.pi * (t : ℝ)))) := by
    intro j
    unfold harm
    have h2 := two_cos_mul_cos (2 * Real.pi * (q : ℝ) * ((j : ℝ) + s) / (n : ℝ) + φ) (Real.pi * ((t : ℝ) - (j : ℝ)))
    have e1 : 2 * Real.pi * (q : ℝ) * ((j : ℝ) + s) / (n : ℝ) + φ + Real.pi * ((t : ℝ) - (j : ℝ))
        = 2 * Real.pi * ((((q : ℤ) - (m : ℤ) : ℤ)) : ℝ) * (j : ℝ) / (n : ℝ)
            + (2 * Real.pi * (q : ℝ) * s / (n : ℝ) + φ + Real.pi * (t : ℝ)) := by
      push_cast; rw [hmR]
      have hm0 : (m : ℝ) ≠ 0 := by
        intro h; rw [h] at hmR; exact hnR (by rw [hmR]; ring)
      field_simp; ring
    have e2 : 2 * Real.pi * (q : ℝ) * ((j : ℝ) + s) / (n : ℝ) + φ - Real.pi * ((t : ℝ) - (j : ℝ))
        = 2 * Real.pi * ((((q : ℤ) + (m : ℤ) : ℤ)) : ℝ) * (j : ℝ) / (n : ℝ)
            + (2 * Real.pi * (q : ℝ) * s / (n : ℝ) + φ - Real.pi * (t : ℝ)) := by
      push_cast; rw [hmR]
      have hm0 : (m : ℝ) ≠ 0 := by
        intro h; rw [h] at hmR; exact hnR (by rw [hmR]; ring)
      field_simp; ring
    rw [← e1, ← e2, ← h2]; ring
  simp only [h1]
  rw [← Finset.mul_sum, Finset.sum_add_distrib,
    sum_cos_arith n ((q : ℤ) - (m : ℤ)) (by rw [abs_lt]; constructor <;> omega),
    sum_cos_arith n ((q : ℤ) + (m : ℤ)) (by rw [abs_lt]; constructor <;> omega)]
  have h3 : ¬ ((q : ℤ) - (m : ℤ) = 0) := by omega
  have h4 : ¬ ((q : ℤ) + (m : ℤ) = 0) := by omega
  simp [h3, h4]

/-- **The kernel of `fshift(·, s)` delays a harmonic below Nyquist exactly**: sampled `s` late and shifted by `s`
it is the harmonic sampled on time. -/
theorem kernel_harmonic (ht : t < n) :
    ∑ j ∈ range n, harm n q s φ j * kernelR n s ((t : ℝ) - (j : ℝ))
      = Real.cos (2 * Real.pi * (q : ℝ) * (t : ℝ) / (n : ℝ) + φ) := by
  have hnR : (n : ℝ) ≠ 0 := by exact_mod_cast (by omega : n ≠ 0)
  unfold kernelR
  have hsplit : ∀ j : ℕ, harm n q s φ j *
      ((1 + ∑ k ∈ range ((n + 1) / 2 - 1), 2 * Real.cos (2 * Real.pi * ((k + 1 : Nat) : ℝ) * ((t : ℝ) - (j : ℝ) - s) / (n : ℝ))
        + (if n % 2 = 0 ∧ n > 0 then Real.cos (Real.pi * s) * Real.cos (Real.pi * ((t : ℝ) - (j : ℝ))) else 0)) / (n : ℝ))
      = (harm n q s φ j
          + ∑ k ∈ range ((n + 1) / 2 - 1), harm n q s φ j * (2 * Real.cos (2 * Real.pi * ((k + 1 : Nat) : ℝ) * ((t : ℝ) - (j : ℝ) - s) / (n : ℝ)))
          + harm n q s φ j * (if n % 2 = 0 ∧ n > 0 then Real.cos (Real.pi * s) * Real.cos (Real.pi * ((t : ℝ) - (j : ℝ))) else 0)) * (n : ℝ)⁻¹ := by
    intro j
    rw [← Finset.mul_sum _ _ (harm n q s φ j)]; ring
  simp only [hsplit]
  rw [← Finset.sum_mul, Finset.sum_add_distrib, Finset.sum_add_distrib, Finset.sum_comm]
  have hk : ∀ k ∈ range ((n + 1) / 2 - 1),
      ∑ j ∈ range n, harm n q s φ j * (2 * Real.cos (2 * Real.pi * ((k + 1 : Nat) : ℝ) * ((t : ℝ) - (j : ℝ) - s) / (n : ℝ)))
        = if k + 1 = q then (n : ℝ) * Real.cos (2 * Real.pi * (q : ℝ) * (t : ℝ) / (n : ℝ) + φ) else 0 := by
    intro k hk
    exact harm_mul_cos n q hq s φ t k (by have := Finset.mem_range.mp hk; omega)
  rw [Finset.sum_congr rfl hk, harm_sum n q hq s φ]
  have hny : ∑ j ∈ range n, harm n q s φ j *
      (if n % 2 = 0 ∧ n > 0 then Real.cos (Real.pi * s) * Real.cos (Real.pi * ((t : ℝ) - (j : ℝ))) else 0) = 0 := by
    by_cases he : n % 2 = 0 ∧ n > 0
    · simp only [he, and_self, if_true]
      exact harm_mul_nyq n q hq s φ t he.1
    · simp only [he, if_false, mul_zero, Finset.sum_const_zero]
  rw [hny, add_zero]
  rcases Nat.eq_zero_or_pos q with rfl | hqpos
  · have : ∀ k ∈ range ((n + 1) / 2 - 1), (if k + 1 = 0 then (n : ℝ) * Real.cos (2 * Real.pi * ((0 : Nat) : ℝ) * (t : ℝ) / (n : ℝ) + φ) else 0) = 0 := by
      intro k _; simp
    rw [Finset.sum_congr rfl this]
    simp
    field_simp
  · obtain ⟨q', rfl⟩ : ∃ q', q = q' + 1 := ⟨q - 1, by omega⟩
    have : ∀ k ∈ range ((n + 1) / 2 - 1),
        (if k + 1 = q' + 1 then (n : ℝ) * Real.cos (2 * Real.pi * ((q' + 1 : Nat) : ℝ) * (t : ℝ) / (n : ℝ) + φ) else 0)
        = if q' = k then (n : ℝ) * Real.cos (2 * Real.pi * ((q' + 1 : Nat) : ℝ) * (t : ℝ) / (n : ℝ) + φ) else 0 := by
      intro k _
      by_cases h : k = q'
      · subst h; simp
      · have h' : ¬ (q' = k) := fun e => h e.symm
        have h'' : ¬ (k + 1 = q' + 1) := by omega
        rw [if_neg h'', if_neg h']
    rw [Finset.sum_congr rfl this, Finset.sum_ite_eq]
    have hmem : q' ∈ range ((n + 1) / 2 - 1) := Finset.mem_range.mpr (by omega)
    simp only [hmem, if_true, Nat.succ_ne_zero, if_false, zero_add]
    field_simp

end harmonic

/-! ### band-limited periodic waveforms -/

/-- A periodic waveform of period `n` samples: a list of harmonics `(q, amplitude, phase)`,
`S(tau) = sum a cos(2 pi q tau / n + phi)`. -/
abbrev Wave := List (Nat × ℝ × ℝ)

noncomputable def waveAt (n : Nat) (w : Wave) (τ : ℝ) : ℝ :=
  (w.map (fun h => h.2.1 * Real.cos (2 * Real.pi * (h.1 : ℝ) * τ / (n : ℝ) + h.2.2))).sum

/-- every harmonic is strictly below the Nyquist frequency of `n` samples -/
def BandLimited (n : Nat) (w : Wave) : Prop := ∀ h ∈ w, 2 * h.1 < n

theorem fshiftRow_get (n : Nat) (s : ℝ) (r : Vec ℝ) (t : Nat) (ht : t < n) :
    (fshiftRow realEnv n s r).get t = ∑ j ∈ range n, r.get j * kernelR n s ((t : ℝ) - (j : ℝ)) := by
  unfold fshiftRow
  simp only [Vec.get_tab]
  rw [sumTo_eq_finset]
  apply Finset.sum_congr rfl
  intro j hj
  rw [shiftKernel_eq, kernelR_mod n s t j ht (Finset.mem_range.mp hj)]

theorem wave_kernel (n : Nat) (s : ℝ) (t : Nat) (ht : t < n) (w : Wave) (hw : BandLimited n w) :
    ∑ j ∈ range n, waveAt n w ((j : ℝ) + s) * kernelR n s ((t : ℝ) - (j : ℝ)) = waveAt n w (t : ℝ) := by
  induction w with
  | nil => simp [waveAt]
  | cons h w ih =>
    have hw' : BandLimited n w := fun h' hm => hw h' (List.mem_cons_of_mem _ hm)
    have hq : 2 * h.1 < n := hw h List.mem_cons_self
    have hsplit : ∀ τ : ℝ, waveAt n (h :: w) τ
        = h.2.1 * Real.cos (2 * Real.pi * (h.1 : ℝ) * τ / (n : ℝ) + h.2.2) + waveAt n w τ := by
      intro τ; simp [waveAt]
    simp only [hsplit, add_mul, Finset.sum_add_distrib, ih hw']
    congr 1
    have := kernel_harmonic n h.1 hq s h.2.2 t ht
    unfold harm at this
    rw [← this, Finset.mul_sum]
    exact Finset.sum_congr rfl (fun j _ => mul_assoc _ _ _)

/-- **Re-alignment**: a row that samples a band-limited periodic waveform `s` samples late, shifted by `s` with the
kernel of `fourier.fshift`, is the waveform sampled on time — whatever the delay `s`. -/
theorem fshiftRow_wave (n : Nat) (s : ℝ) (w : Wave) (hw : BandLimited n w) (r : Vec ℝ)
    (hr : ∀ j, j < n → r.get j = waveAt n w ((j : ℝ) + s)) (t : Nat) (ht : t < n) :
    (fshiftRow realEnv n s r).get t = waveAt n w (t : ℝ) := by
  rw [fshiftRow_get n s r t ht, ← wave_kernel n s t ht w hw]
  apply Finset.sum_congr rfl
  intro j hj
  rw [hr j (Finset.mem_range.mp hj)]

end IblVerif.Destripe
