/-
`ibldsp.utils.parabolic_max` at `ℝ`: `argmax` is the first index of a maximal sample, the three-point interpolation
returns the exact vertex of a parabola, the edge fallback returns the sample itself.
-/
import IblVerif.Model.FShift
import Mathlib.Data.Real.Basic
import Mathlib.Tactic.FieldSimp
import Mathlib.Tactic.Ring
import Mathlib.Tactic.Linarith

namespace IblVerif.FShift

/-- the `ℝ` instances of the comparisons used by `parabolicMax` -/
noncomputable def realIsZero : ℝ → Bool := fun a => decide (a = 0)
noncomputable def realLt : ℝ → ℝ → Bool := fun a b => decide (a < b)

/-- `parabolic_max` at `ℝ` -/
noncomputable def parabolicMaxR (x : Array ℝ) : ℝ × ℝ := parabolicMax (1 / 2 : ℝ) realIsZero realLt x

theorem parabolicVertex_parabola (A B d : ℝ) (hA : A ≠ 0) :
    parabolicVertex (1 / 2 : ℝ) realIsZero (A * (d - 1) ^ 2 + B) (A * d ^ 2 + B) (A * (d + 1) ^ 2 + B) = (-d, B) := by
  have hp0 : (1 / 2 : ℝ) * (A * (d - 1) ^ 2 + B) + -(1 / 2 * ((2 : ℕ) : ℝ)) * (A * d ^ 2 + B)
      + 1 / 2 * (A * (d + 1) ^ 2 + B) = A := by push_cast; ring
  have hz : realIsZero A = false := by simp [realIsZero, hA]
  simp only [parabolicVertex, hp0, hz]
  refine Prod.ext ?_ ?_
  · simp only [Bool.false_eq_true, if_false, Nat.cast_zero, add_zero, Nat.cast_ofNat]; field_simp; ring
  · simp only [Bool.false_eq_true, if_false, Nat.cast_zero, add_zero, Nat.cast_ofNat]; field_simp; ring

private noncomputable def amStep (x : Array ℝ) (best i : ℕ) : ℕ := if realLt (at0 x best) (at0 x i) then i else best

private theorem argmax_eq (x : Array ℝ) : argmax realLt x = (List.range x.size).foldl (amStep x) 0 := rfl

private theorem argmax_inv (x : Array ℝ) (k : ℕ) :
    let b := (List.range k).foldl (amStep x) 0
    (k = 0 → b = 0) ∧ (0 < k → b < k) ∧ (∀ j, j < k → at0 x j ≤ at0 x b) ∧ (∀ j, j < b → at0 x j < at0 x b) := by
  induction k with
  | zero => simp
  | succ k ih =>
    simp only [List.range_succ, List.foldl_append, List.foldl_cons, List.foldl_nil]
    obtain ⟨h0, h1, h2, h3⟩ := ih
    generalize (List.range k).foldl (amStep x) 0 = b at h0 h1 h2 h3
    unfold amStep
    by_cases hlt : at0 x b < at0 x k
    · have : realLt (at0 x b) (at0 x k) = true := by simp [realLt, hlt]
      rw [if_pos this]
      refine ⟨by omega, by omega, ?_, ?_⟩
      · intro j hj
        rcases Nat.lt_succ_iff_lt_or_eq.mp hj with h | h
        · exact le_of_lt (lt_of_le_of_lt (h2 j h) hlt)
        · rw [h]
      · intro j hj; exact lt_of_le_of_lt (h2 j hj) hlt
    · have : ¬ (realLt (at0 x b) (at0 x k) = true) := by simp [realLt, hlt]
      rw [if_neg this]
      refine ⟨by omega, ?_, ?_, h3⟩
      · intro _
        rcases Nat.eq_zero_or_pos k with hk | hk
        · rw [h0 hk]; omega
        · have := h1 hk; omega
      · intro j hj
        rcases Nat.lt_succ_iff_lt_or_eq.mp hj with h | h
        · exact h2 j h
        · rw [h]; exact not_lt.mp hlt

/-- `np.argmax`: the result is a valid index, its sample is maximal, and it is the first such index. -/
theorem argmax_spec (x : Array ℝ) (hx : 0 < x.size) :
    argmax realLt x < x.size ∧ (∀ j, j < x.size → at0 x j ≤ at0 x (argmax realLt x))
      ∧ (∀ j, j < argmax realLt x → at0 x j < at0 x (argmax realLt x)) := by
  rw [argmax_eq]
  obtain ⟨_, h1, h2, h3⟩ := argmax_inv x x.size
  exact ⟨h1 hx, h2, h3⟩

/-- edge fallback: a maximum on the first or last sample is returned as it is -/
theorem parabolicMaxR_edge (x : Array ℝ) (h : argmax realLt x = 0 ∨ argmax realLt x = x.size - 1) :
    parabolicMaxR x = (((argmax realLt x : ℕ) : ℝ), at0 x (argmax realLt x)) := by
  simp only [parabolicMaxR, parabolicMax, h, if_true]

/-- interior maximum whose three neighbouring samples lie on a parabola `A (t - c)² + B`: the interpolation returns the
vertex position `c` and the vertex value `B` exactly. -/
theorem parabolicMaxR_parabola (x : Array ℝ) (A B c : ℝ) (hA : A ≠ 0)
    (hi : ¬ (argmax realLt x = 0 ∨ argmax realLt x = x.size - 1))
    (hm : at0 x (argmax realLt x - 1) = A * (((argmax realLt x : ℕ) : ℝ) - c - 1) ^ 2 + B)
    (h0 : at0 x (argmax realLt x) = A * (((argmax realLt x : ℕ) : ℝ) - c) ^ 2 + B)
    (hp : at0 x (argmax realLt x + 1) = A * (((argmax realLt x : ℕ) : ℝ) - c + 1) ^ 2 + B) :
    parabolicMaxR x = (c, B) := by
  simp only [parabolicMaxR, parabolicMax, hi, if_false, hm, h0, hp]
  rw [parabolicVertex_parabola A B _ hA]
  refine Prod.ext ?_ rfl
  simp

end IblVerif.FShift
