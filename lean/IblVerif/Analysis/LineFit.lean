/-
Least squares of degree one and the chord interpolant on exactly affine data (used by C19).
`np.polyfit(x, y, 1)` returns a minimiser of `∑ (y k - (m * x k + c))^2`; both the characterisation by the normal
equations (`lsqSlope`, `lsqIntercept`) and "any minimiser" are treated.
-/
import Mathlib.Algebra.BigOperators.Ring.Finset
import Mathlib.Algebra.BigOperators.Fin
import Mathlib.Algebra.Order.BigOperators.Ring.Finset
import Mathlib.Algebra.Order.Field.Basic
import Mathlib.Tactic.Linarith
import Mathlib.Tactic.Ring
import Mathlib.Tactic.FieldSimp

namespace IblVerif.LineFit
open Finset

variable {K : Type*} [Field K] [LinearOrder K] [IsStrictOrderedRing K]

/-- Slope of the least-squares line through `(x k, y k)`, `k < n` (normal equations). -/
def lsqSlope {n : ℕ} (x y : Fin n → K) : K :=
  ((n : K) * ∑ k, x k * y k - (∑ k, x k) * ∑ k, y k) / ((n : K) * ∑ k, x k ^ 2 - (∑ k, x k) ^ 2)

/-- Intercept of the least-squares line. -/
def lsqIntercept {n : ℕ} (x y : Fin n → K) : K :=
  ((∑ k, y k) - lsqSlope x y * ∑ k, x k) / (n : K)

/-- Sum of squared residuals of the line `m * x + c`. -/
def sse {n : ℕ} (x y : Fin n → K) (m c : K) : K := ∑ k, (y k - (m * x k + c)) ^ 2

/-- `n ∑ x² − (∑ x)² = ½ ∑∑ (x k − x l)²`. -/
theorem var_identity {n : ℕ} (x : Fin n → K) :
    2 * ((n : K) * ∑ k, x k ^ 2 - (∑ k, x k) ^ 2) = ∑ k, ∑ l, (x k - x l) ^ 2 := by
  have h1 : ∀ k, ∑ l, (x k - x l) ^ 2 = (n : K) * x k ^ 2 - 2 * x k * (∑ l, x l) + ∑ l, x l ^ 2 := by
    intro k
    have : ∀ l, (x k - x l) ^ 2 = x k ^ 2 - 2 * x k * x l + x l ^ 2 := fun l => by ring
    simp only [this, sum_add_distrib, sum_sub_distrib, sum_const, card_univ, Fintype.card_fin, nsmul_eq_mul,
      ← mul_sum]
  simp only [h1, sum_add_distrib, sum_sub_distrib, sum_const, card_univ, Fintype.card_fin, nsmul_eq_mul,
    ← mul_sum, ← sum_mul]
  ring

/-- Two distinct abscissae make the normal-equation determinant positive. -/
theorem det_pos {n : ℕ} (x : Fin n → K) (k l : Fin n) (hkl : x k ≠ x l) :
    0 < (n : K) * ∑ k, x k ^ 2 - (∑ k, x k) ^ 2 := by
  have h := var_identity x
  have hpos : 0 < ∑ k, ∑ l, (x k - x l) ^ 2 := by
    refine sum_pos' (fun i _ => sum_nonneg fun j _ => sq_nonneg _) ⟨k, mem_univ _, ?_⟩
    refine sum_pos' (fun j _ => sq_nonneg _) ⟨l, mem_univ _, ?_⟩
    exact pow_pos_of_ne_zero_sq (sub_ne_zero.mpr hkl)
  linarith
where
  pow_pos_of_ne_zero_sq {a : K} (h : a ≠ 0) : 0 < a ^ 2 := by positivity


/-- On exactly affine data with two distinct abscissae the normal equations return the line. -/
theorem lsq_on_collinear {n : ℕ} (x y : Fin n → K) (p q : K) (hy : ∀ k, y k = p * x k + q)
    (k l : Fin n) (hkl : x k ≠ x l) : lsqSlope x y = p ∧ lsqIntercept x y = q := by
  have hD := det_pos x k l hkl
  have hn : (n : K) ≠ 0 := by
    have : 0 < n := Fin.pos k
    exact_mod_cast this.ne'
  have hxy : ∑ k, x k * y k = p * ∑ k, x k ^ 2 + q * ∑ k, x k := by
    simp only [hy, mul_sum, ← sum_add_distrib]
    exact sum_congr rfl fun i _ => by ring
  have hsy : ∑ k, y k = p * ∑ k, x k + (n : K) * q := by
    simp only [hy, sum_add_distrib, ← mul_sum, sum_const, card_univ, Fintype.card_fin, nsmul_eq_mul]
  have hs : lsqSlope x y = p := by
    unfold lsqSlope
    rw [hxy, hsy, div_eq_iff hD.ne']
    ring
  refine ⟨hs, ?_⟩
  unfold lsqIntercept
  rw [hs, hsy, div_eq_iff hn]
  ring

/-- On exactly affine data with two distinct abscissae ANY minimiser of the squared residuals is the line
(independent of how the minimiser is computed: normal equations, QR, SVD). -/
theorem minimiser_on_collinear {n : ℕ} (x y : Fin n → K) (p q : K) (hy : ∀ k, y k = p * x k + q)
    (k l : Fin n) (hkl : x k ≠ x l) (m c : K) (hmin : ∀ m' c', sse x y m c ≤ sse x y m' c') :
    m = p ∧ c = q := by
  have h0 : sse x y p q = 0 := by
    unfold sse
    exact sum_eq_zero fun i _ => by rw [hy i]; ring
  have hle : sse x y m c ≤ 0 := h0 ▸ hmin p q
  have hz : ∀ i, (y i - (m * x i + c)) ^ 2 = 0 := by
    have hnn : ∀ i ∈ (univ : Finset (Fin n)), 0 ≤ (y i - (m * x i + c)) ^ 2 := fun i _ => sq_nonneg _
    have hsum : ∑ i, (y i - (m * x i + c)) ^ 2 = 0 := le_antisymm hle (sum_nonneg hnn)
    intro i
    exact (sum_eq_zero_iff_of_nonneg hnn).mp hsum i (mem_univ _)
  have e : ∀ i, (p - m) * x i + (q - c) = 0 := by
    intro i
    have := pow_eq_zero_iff (two_ne_zero) |>.mp (hz i)
    rw [hy i] at this
    linarith
  have hm : (p - m) * (x k - x l) = 0 := by
    have := e k; have := e l; linarith
  have hpm : p - m = 0 := by
    rcases mul_eq_zero.mp hm with h | h
    · exact h
    · exact absurd (sub_eq_zero.mp h) hkl
  have hqc := e k
  rw [hpm] at hqc
  constructor <;> linarith

/-- The chord through two points of a line is the line (`interp1d`, linear, also when extrapolating). -/
theorem chord_on_line (α β x0 x1 x : K) (h : x0 ≠ x1) :
    (α * x0 + β) + (x - x0) * ((α * x1 + β) - (α * x0 + β)) / (x1 - x0) = α * x + β := by
  have : x1 - x0 ≠ 0 := sub_ne_zero.mpr (Ne.symm h)
  field_simp
  ring

/-! ### The sign of the slope (used for: the returned linear map is increasing) -/

/-- `n ∑ x y − (∑ x)(∑ y) = ½ ∑∑ (x k − x l)(y k − y l)`. -/
theorem cov_identity {n : ℕ} (x y : Fin n → K) :
    2 * ((n : K) * ∑ k, x k * y k - (∑ k, x k) * ∑ k, y k) = ∑ k, ∑ l, (x k - x l) * (y k - y l) := by
  have h1 : ∀ k, ∑ l, (x k - x l) * (y k - y l) =
      (n : K) * (x k * y k) - x k * (∑ l, y l) - y k * (∑ l, x l) + ∑ l, x l * y l := by
    intro k
    have : ∀ l, (x k - x l) * (y k - y l) = x k * y k - x k * y l - y k * x l + x l * y l := fun l => by ring
    simp only [this, sum_add_distrib, sum_sub_distrib, sum_const, card_univ, Fintype.card_fin, nsmul_eq_mul,
      ← mul_sum]
  simp only [h1, sum_add_distrib, sum_sub_distrib, sum_const, card_univ, Fintype.card_fin, nsmul_eq_mul,
    ← mul_sum, ← sum_mul]
  ring

/-- If `y` increases strictly wherever `x` does, the least-squares slope of `y` on `x` is positive. -/
theorem lsqSlope_pos {n : ℕ} (x y : Fin n → K) (hmono : ∀ k l, x k < x l → y k < y l) (k l : Fin n)
    (hkl : x k < x l) : 0 < lsqSlope x y := by
  unfold lsqSlope
  apply div_pos _ (det_pos x k l hkl.ne)
  have h := cov_identity x y
  have hterm : ∀ i j, 0 ≤ (x i - x j) * (y i - y j) := by
    intro i j
    rcases lt_trichotomy (x i) (x j) with h | h | h
    · exact mul_nonneg_of_nonpos_of_nonpos (by linarith) (by linarith [hmono i j h])
    · rw [h]; simp
    · exact mul_nonneg (by linarith) (by linarith [hmono j i h])
  have hpos : 0 < ∑ i, ∑ j, (x i - x j) * (y i - y j) := by
    refine sum_pos' (fun i _ => sum_nonneg fun j _ => hterm i j) ⟨k, mem_univ _, ?_⟩
    refine sum_pos' (fun j _ => hterm k j) ⟨l, mem_univ _, ?_⟩
    exact mul_pos_of_neg_of_neg (by linarith) (by linarith [hmono k l hkl])
  linarith

/-- Fitting `y − x` instead of `y` lowers the slope by one and keeps the intercept (`polyfit(tsa, tsb - tsa, 1)`). -/
theorem lsqSlope_sub_self {n : ℕ} (x y : Fin n → K) (k l : Fin n) (hkl : x k ≠ x l) :
    lsqSlope x (fun i => y i - x i) = lsqSlope x y - 1 := by
  unfold lsqSlope
  have hD := (det_pos x k l hkl).ne'
  have e1 : ∑ i, x i * (y i - x i) = ∑ i, x i * y i - ∑ i, x i ^ 2 := by
    rw [← sum_sub_distrib]
    exact sum_congr rfl fun i _ => by ring
  have e2 : ∑ i, (y i - x i) = ∑ i, y i - ∑ i, x i := sum_sub_distrib _ _
  rw [e1, e2, eq_sub_iff_add_eq, div_add' _ _ _ hD, div_left_inj' hD]
  ring

end IblVerif.LineFit
