/-
Array-level consequences of `Analysis/FShift.lean`: the statements of C07 on `fshiftCore realTrig` (the body of
`ibldsp.fourier.fshift` on one real trace), for every array of length ≥ 2.
-/
import IblVerif.Analysis.FShift
import IblVerif.Lemmas.FShift

open Finset
open scoped Real

namespace IblVerif.FShift

/-- the Nyquist coefficient of a trace: its alternating sum `Σ_j (-1)^j x_j` -/
noncomputable def nyquist (x : Array ℝ) : ℝ := ∑ j ∈ range x.size, (-1 : ℝ) ^ j * at0 x j

/-- unit impulse of length `n` at sample `j` -/
noncomputable def unitImpulse (n j : ℕ) : Array ℝ := Array.ofFn (n := n) fun t => if t.val = j then 1 else 0

theorem fshiftCore_int (x : Array ℝ) (hn : 2 ≤ x.size) (m : ℤ) :
    fshiftCore realTrig x (m : ℝ) = roll x m := by
  have : NeZero x.size := ⟨by omega⟩
  apply Array.ext
  · simp
  · intro t h1 h2
    rw [fshiftCore_getElem, roll_getElem, fshiftAt_int hn]

theorem fshiftCore_comp_getElem (x : Array ℝ) (hn : 2 ≤ x.size) (a b : ℝ) (t : ℕ) (ht : t < x.size) :
    at0 (fshiftCore realTrig (fshiftCore realTrig x a) b) t = at0 (fshiftCore realTrig x (a + b)) t
      + (if x.size % 2 = 0 then nyquist x * (Real.sin (π * a) * Real.sin (π * b)) * (-1 : ℝ) ^ t / x.size else 0) := by
  have : NeZero x.size := ⟨by omega⟩
  rw [at0_fshiftCore _ _ _ _ (by simpa using ht), at0_fshiftCore _ _ _ _ ht, fshiftCore_size]
  rw [fshiftAt_congr realTrig x.size (at0 (fshiftCore realTrig x a)) (fshiftAt realTrig x.size (at0 x) a) b t
    (fun j hj => at0_fshiftCore _ _ _ _ hj)]
  rw [fshiftAt_comp hn]
  rfl

theorem fshiftCore_linear (x y : Array ℝ) (hn : 2 ≤ x.size) (hxy : y.size = x.size) (α β s : ℝ) :
    fshiftCore realTrig (Array.ofFn (n := x.size) fun j => α * at0 x j.val + β * at0 y j.val) s
      = Array.ofFn (n := x.size) fun t =>
          α * at0 (fshiftCore realTrig x s) t.val + β * at0 (fshiftCore realTrig y s) t.val := by
  have : NeZero x.size := ⟨by omega⟩
  apply Array.ext
  · simp
  · intro t h1 h2
    have ht : t < x.size := by simpa using h2
    rw [fshiftCore_getElem, Array.getElem_ofFn, at0_fshiftCore _ _ _ _ ht, at0_fshiftCore _ _ _ _ (by omega), hxy,
      Array.size_ofFn, ← fshiftAt_linear hn]
    exact fshiftAt_congr _ _ _ _ _ _ (fun j hj => at0_ofFn _ j hj)

theorem fshiftCore_impulse_basis (x : Array ℝ) (hn : 2 ≤ x.size) (s : ℝ) (t : ℕ) (ht : t < x.size) :
    at0 (fshiftCore realTrig x s) t
      = ∑ j ∈ range x.size, at0 x j * at0 (fshiftCore realTrig (unitImpulse x.size j) s) t := by
  have : NeZero x.size := ⟨by omega⟩
  rw [at0_fshiftCore _ _ _ _ ht, fshiftAt_impulse_basis hn]
  refine Finset.sum_congr rfl fun j _ => ?_
  have hsz : (unitImpulse x.size j).size = x.size := by simp [unitImpulse]
  rw [at0_fshiftCore _ _ _ _ (by omega), hsz]
  congr 1
  exact fshiftAt_congr _ _ _ _ _ _ (fun i hi => by rw [unitImpulse, at0_ofFn _ i hi]; rfl)

theorem fshiftCore_bandlimited (n K : ℕ) (hn : 2 ≤ n) (hK : 2 * K < n) (c : ℝ) (a b : ℕ → ℝ) (s : ℝ) :
    fshiftCore realTrig (Array.ofFn (n := n) fun j => trigPoly n K c a b (j.val : ℝ)) s
      = Array.ofFn (n := n) fun t => trigPoly n K c a b ((t.val : ℝ) - s) := by
  have : NeZero n := ⟨by omega⟩
  apply Array.ext
  · simp
  · intro t h1 h2
    have ht : t < n := by simpa using h2
    rw [fshiftCore_getElem, Array.getElem_ofFn, Array.size_ofFn, ← fshiftAt_bandlimited hn K hK]
    exact fshiftAt_congr _ _ _ _ _ _ (fun j hj => at0_ofFn _ j hj)

end IblVerif.FShift
